package main

// C06: block processing must not panic. Real blocks with recover around every ABCI call: proposal-heavy,
// permission-churn-heavy histories with time jumps so that proposals reach their voting end and enactment;
// plus the witnesses of the recorded halting findings.

import (
	"fmt"
	"strings"
	"time"

	govtypes "github.com/KiraCore/sekai/x/gov/types"
	abci "github.com/cometbft/cometbft/abci/types"
	l2types "github.com/KiraCore/sekai/x/layer2/types"
	recoverytypes "github.com/KiraCore/sekai/x/recovery/types"
	mstypes "github.com/KiraCore/sekai/x/multistaking/types"
	slashingtypes "github.com/KiraCore/sekai/x/slashing/types"
	spendingtypes "github.com/KiraCore/sekai/x/spending/types"
	stakingtypes "github.com/KiraCore/sekai/x/staking/types"
	tokenstypes "github.com/KiraCore/sekai/x/tokens/types"
	ubitypes "github.com/KiraCore/sekai/x/ubi/types"
	sdk "github.com/cosmos/cosmos-sdk/types"
	banktypes "github.com/cosmos/cosmos-sdk/x/bank/types"
)

func init() { props["C06"] = func(r *Rec) { runC06(r); c06Upgrade(r); c06StakeCaps(r); c06OrphanedCollectiveProposal(r); c06PropertyWalk(r); c06BlacklistedVoter(r); c06RestartWithIdleValidator(r, "C06"); spendFor(r, "C06"); recFor(r, "C06") } }

// known halting shapes, recognised by the panic value
func c06Classify(p interface{}) (string, string) {
	s := fmt.Sprint(p)
	switch {
	case strings.Contains(s, "Invalid quorum on proposal"):
		return "C06/gov-endblock/more-votes-than-voters", "a voter who loses the vote permission after voting makes IsQuorum fail (votes > voters) and the gov EndBlocker panics"
	case strings.Contains(s, "negative coin amount") && strings.Contains(s, "x/spending") && !strings.Contains(s, "x/ubi"):
		return "C06/spending-distribution/underfunded-pool-coins-sub", "enactment of a spending-pool distribution on an under-funded pool panics inside Coins.Sub (ApplyProposal does not recover)"
	case strings.Contains(s, "SlashStakingPool") && strings.Contains(s, "invalid coins"):
		return "C06/slash-validator-enactment/zero-burn-invalid-coins", "enactment of a passed SlashValidator proposal whose slashed amount of the default denomination is zero (average slash 0, or nothing staked in it) calls BurnCoins with the invalid coin set {0ukex} and panics on the returned error; the gov EndBlocker does not recover"
	case strings.Contains(s, "SlashStakingPool") && strings.Contains(s, "nil pointer"):
		return "C06/slash-validator-enactment/nil-distributor-keeper", "enactment of a passed SlashValidator proposal with a positive slashed amount dereferences the nil distributor keeper of the slashing keeper's copy of the multistaking keeper (app.go copies the keeper before SetDistrKeeper) and panics in the gov EndBlocker"
	case strings.Contains(s, "no concrete type registered for type URL /kira.recovery.Msg"):
		return "C06/recovery-rotation/slash-proposal-content-replaced", "rotating the address of a validator named as offender by a stored SlashValidator proposal overwrites that proposal's content with the rotation MESSAGE (NewAnyWithValue(msg)); the proposal can no longer be decoded and every later read of it (gov EndBlocker at its voting end, Jail, genesis export) panics"
	case strings.Contains(s, "CreateNewSession") && strings.Contains(s, "nil pointer"):
		return "C06/layer2-join-dapp-enactment/first-session-nil-prev-session", "the JoinDapp enactment that completes a dApp's executor / verifier minimum creates the first session and dereferences the nil previous session (CreateNewSession); when the minimum is completed by a second pending proposal the dry run at submission passes and the panic happens in the gov EndBlocker"
	case strings.Contains(s, "validator not found") && strings.Contains(s, "BlockValidatorUpdates"):
		return "C06/staking-endblock/rotated-validator-in-update-queue", "the staking update queues name validators by owner address; a recovery rotation of the owner in the same block as an entry was queued (pause / unpause / activate transaction, inactivation or jailing in BeginBlock) makes ApplyAndReturnValidatorSetUpdates fail with 'validator not found' and the staking EndBlocker panics - a validator owner can halt the chain with two messages"
	case strings.Contains(s, "FinishDappBootstrap") && strings.Contains(s, "empty address string"):
		return "C06/layer2-endblock/dapp-bootstrap-empty-team-reserve", "a dApp created by any account with an empty team-reserve address and a positive premint, bonded above min_dapp_bond, panics in the layer2 EndBlocker (MustAccAddressFromBech32) when its bootstrap period ends"
	}
	return "", ""
}

// c06Site: the panic value plus the first frames of the sekai modules on the stack (what c06Classify recognises)
func c06Site(p interface{}, stack string) string {
	s := fmt.Sprintf("%.200v", p)
	n := 0
	for _, line := range strings.Split(stack, "\n") {
		if strings.HasPrefix(line, "github.com/KiraCore/sekai/x/") && n < 3 {
			if i := strings.Index(line, "("); i > 0 {
				line = line[:i]
			}
			s += " @ " + strings.TrimPrefix(line, "github.com/KiraCore/sekai/")
			n++
		}
	}
	return s
}

func runC06(r *Rec) {
	// ---------- witnesses
	{ // (1) voter loses permission after voting
		w := NewWorld(WorldOpts{NAcc: 5, NVal: 2, SudoAccs: []int{4}})
		A := w.addrs
		k := w.app.CustomGovKeeper
		blk := func(msgs []sdk.Msg, signer int, dt time.Duration, mid func(sdk.Context)) BlockResult {
			var txs [][]byte
			if msgs != nil {
				txs = append(txs, w.MustSign(msgs, signer, ukex(20000)))
			}
			br := w.Block(txs, BlockOpts{Dt: dt, Mid: mid})
			if br.Panicked == nil {
				w.ApplyUpdates(br.Updates)
			}
			return br
		}
		// account 3 gets the vote permission directly, sudo (4) submits
		blk(nil, 0, 6*time.Second, func(ctx sdk.Context) {
			a := govtypes.NewDefaultActor(A[3])
			k.AddWhitelistPermission(ctx, a, govtypes.PermVoteSetNetworkPropertyProposal)
		})
		m, _ := govtypes.NewMsgSubmitProposal(A[4], "t", "d", govtypes.NewSetNetworkPropertyProposal(govtypes.MinIdentityApprovalTip, govtypes.NetworkPropertyValue{Value: 777}))
		blk([]sdk.Msg{m}, 4, 6*time.Second, nil)
		blk([]sdk.Msg{govtypes.NewMsgVoteProposal(1, A[3], govtypes.OptionYes, sdk.ZeroDec())}, 3, 6*time.Second, nil)
		blk([]sdk.Msg{govtypes.NewMsgVoteProposal(1, A[4], govtypes.OptionYes, sdk.ZeroDec())}, 4, 6*time.Second, nil)
		// both voters lose the permission: sudo's role is unassigned, account 3's whitelist entry removed
		blk(nil, 0, 6*time.Second, func(ctx sdk.Context) {
			a, _ := k.GetNetworkActorByAddress(ctx, A[3])
			k.RemoveWhitelistedPermission(ctx, a, govtypes.PermVoteSetNetworkPropertyProposal)
			k.UnassignRoleFromAccount(ctx, A[4], 1)
		})
		br := blk(nil, 0, 400*time.Second, nil)
		r.Case("witness/quorum-panic", true)
		if br.Panicked != nil {
			if key, what := c06Classify(c06Site(br.Panicked, br.Stack)); key != "" {
				r.Known(key, what+fmt.Sprintf(" [panic in %s: %.120v]", br.Phase, br.Panicked))
			} else {
				r.Fail("C06/witness/unexpected-panic", fmt.Sprint(br.Panicked), nil)
			}
		}
	}
	{ // (2) spending pool distribution on an under-funded pool, through the real router at enactment level
		w := NewWorld(WorldOpts{NAcc: 5, NVal: 2, SudoAccs: []int{4}})
		A := w.addrs
		br := w.Block(nil, BlockOpts{Mid: func(ctx sdk.Context) {
			k := w.app.SpendingKeeper
			rate := sdk.NewDecCoinFromDec("ukex", sdk.NewDec(10))
			k.CreateSpendingPool(ctx, spendingtypes.SpendingPool{Name: "p", ClaimStart: 0, ClaimEnd: 0, ClaimExpiry: 1000000, Rates: sdk.DecCoins{rate},
				Owners:        &spendingtypes.PermInfo{OwnerAccounts: []string{A[0].String()}},
				Beneficiaries: &spendingtypes.WeightedPermInfo{Accounts: []spendingtypes.WeightedAccount{{Account: A[2].String(), Weight: sdk.OneDec()}}}, Balances: sdk.Coins{}})
			k.DepositSpendingPoolFromAccount(ctx, A[1], "p", sdk.NewCoins(sdk.NewInt64Coin("ukex", 50)))
			k.SetClaimInfo(ctx, spendingtypes.ClaimInfo{PoolName: "p", Account: A[2].String(), LastClaim: uint64(ctx.BlockTime().Unix()) - 1000})
			w.app.CustomGovKeeper.GetProposalRouter().ApplyProposal(ctx, 1, &spendingtypes.SpendingPoolDistributionProposal{PoolName: "p"}, sdk.ZeroDec())
		}})
		r.Case("witness/spending-distribution-panic", true)
		if br.Panicked != nil {
			if key, what := c06Classify(c06Site(br.Panicked, br.Stack)); key != "" {
				r.Known(key, what+fmt.Sprintf(" [%.100v]", br.Panicked))
			} else {
				r.Fail("C06/witness/unexpected-panic", fmt.Sprint(br.Panicked), nil)
			}
		}
	}

	// (3)+(4) a passed SlashValidator proposal: enactment panics with an average slash of zero (invalid coin set) and
	// with a positive slash (nil distributor keeper)
	for _, slash := range []sdk.Dec{sdk.ZeroDec(), sdk.NewDecWithPrec(4, 3)} {
		w := NewWorld(WorldOpts{NAcc: 5, NVal: 3, SudoAccs: []int{4}})
		A := w.addrs
		blk := func(dt time.Duration, signer int, msgs ...sdk.Msg) BlockResult {
			var txs [][]byte
			if len(msgs) > 0 {
				txs = append(txs, w.MustSign(msgs, signer, ukex(20000)))
			}
			br := w.Block(txs, BlockOpts{Dt: dt})
			if br.Panicked == nil {
				w.ApplyUpdates(br.Updates)
			}
			return br
		}
		val := sdk.ValAddress(A[1])
		blk(6*time.Second, 1, mstypes.NewMsgUpsertStakingPool(A[1].String(), val.String(), true, sdk.NewDecWithPrec(5, 2)))
		blk(6*time.Second, 3, mstypes.NewMsgDelegate(A[3].String(), val.String(), ukex(5_000_000)))
		// a SlashValidator proposal cannot be submitted by message (the dry run at submission already panics and fails the
		// transaction); the chain raises one itself when a validator with a staking pool is jailed for a double sign
		{
			ev := abci.Misbehavior{Type: abci.MisbehaviorType_DUPLICATE_VOTE, Validator: abci.Validator{Address: w.valPriv[1].PubKey().Address(), Power: 1}, Height: w.height, Time: w.now, TotalVotingPower: 3}
			br := w.Block(nil, BlockOpts{Evidence: []abci.Misbehavior{ev}})
			if br.Panicked == nil {
				w.ApplyUpdates(br.Updates)
			}
		}
		blk(6*time.Second, 4, govtypes.NewMsgVoteProposal(1, A[4], govtypes.OptionYes, slash))
		blk(400*time.Second, 0)
		var br BlockResult
		for i := 0; i < 3 && br.Panicked == nil; i++ {
			br = blk(400*time.Second, 0)
		}
		r.Case("witness/slash-enactment/"+slash.String(), true)
		r.Count(fmt.Sprintf("witness:slash=%s:panicked=%v", slash, br.Panicked != nil))
		if br.Panicked != nil {
			if key, what := c06Classify(c06Site(br.Panicked, br.Stack)); key != "" {
				r.Known(key, what+fmt.Sprintf(" [panic in %s of block %d: %.100v]", br.Phase, w.height, br.Panicked))
			} else {
				r.Fail("C06/witness/unexpected-panic", c06Site(br.Panicked, br.Stack), nil)
			}
		}
	}
	{ // (5) a dApp with an empty team reserve, bonded above the minimum, reaches the end of its bootstrap period
		w := NewWorld(WorldOpts{NAcc: 5, NVal: 2, SudoAccs: []int{4}})
		A := w.addrs
		d := l2types.Dapp{Name: "halt", Denom: "dhalt", Description: "d", Controllers: l2types.Controllers{Whitelist: l2types.AccountRange{Addresses: []string{A[2].String()}}},
			Pool: l2types.LpPoolConfig{Ratio: sdk.OneDec(), Drip: 100}, Issuance: l2types.IssuanceConfig{Premint: sdk.NewInt(10), Postmint: sdk.NewInt(10)},
			UpdateTimeMax: 60, ExecutorsMin: 1, ExecutorsMax: 3, VerifiersMin: 1, TotalBond: sdk.Coin{Denom: "ukex", Amount: sdk.ZeroInt()},
			VoteQuorum: sdk.NewDecWithPrec(30, 2), VotePeriod: 100, VoteEnactment: 100, PoolFee: sdk.NewDecWithPrec(1, 2)}
		txs := [][]byte{w.MustSign([]sdk.Msg{&l2types.MsgCreateDappProposal{Sender: A[2].String(), Dapp: d, Bond: sdk.NewInt64Coin("ukex", 600_000_000_000)}}, 2, ukex(20000)),
			w.MustSign([]sdk.Msg{&l2types.MsgBondDappProposal{Sender: A[3].String(), DappName: "halt", Bond: sdk.NewInt64Coin("ukex", 600_000_000_000)}}, 3, ukex(20000))}
		br := w.Block(txs, BlockOpts{})
		ok := br.Panicked == nil && len(br.Results) == 2 && br.Results[0].Code == 0 && br.Results[1].Code == 0
		if ok {
			w.ApplyUpdates(br.Updates)
			br = w.Block(nil, BlockOpts{Dt: 605000 * time.Second})
		}
		r.Case("witness/dapp-bootstrap-empty-team-reserve", ok)
		if br.Panicked != nil {
			if key, what := c06Classify(c06Site(br.Panicked, br.Stack)); key != "" {
				r.Known(key, what+fmt.Sprintf(" [panic in %s of block %d: %.100v]", br.Phase, w.height, br.Panicked))
			} else {
				r.Fail("C06/witness/unexpected-panic", c06Site(br.Panicked, br.Stack), nil)
			}
		}
	}

	{ // (6) two pending JoinDapp proposals that together complete the executor + verifier minimum
		w := NewWorld(WorldOpts{NAcc: 5, NVal: 2, SudoAccs: []int{4}})
		A := w.addrs
		blk := func(dt time.Duration, signer int, msgs ...sdk.Msg) BlockResult {
			var txs [][]byte
			if len(msgs) > 0 {
				txs = append(txs, w.MustSign(msgs, signer, ukex(20000)))
			}
			br := w.Block(txs, BlockOpts{Dt: dt})
			if br.Panicked == nil {
				w.ApplyUpdates(br.Updates)
			}
			return br
		}
		d := l2types.Dapp{Name: "sess", Denom: "dsess", Description: "d", Controllers: l2types.Controllers{Whitelist: l2types.AccountRange{Addresses: []string{A[4].String()}}},
			Pool: l2types.LpPoolConfig{Ratio: sdk.OneDec(), Drip: 100}, Issuance: l2types.IssuanceConfig{Premint: sdk.NewInt(10), Postmint: sdk.NewInt(10)},
			UpdateTimeMax: 60, ExecutorsMin: 1, ExecutorsMax: 3, VerifiersMin: 1, TotalBond: sdk.Coin{Denom: "ukex", Amount: sdk.ZeroInt()},
			VoteQuorum: sdk.NewDecWithPrec(30, 2), VotePeriod: 60, VoteEnactment: 30, PoolFee: sdk.NewDecWithPrec(1, 2), TeamReserve: A[2].String()}
		blk(6*time.Second, 2, &l2types.MsgCreateDappProposal{Sender: A[2].String(), Dapp: d, Bond: sdk.NewInt64Coin("ukex", 20_000_000_000)})
		m1, _ := govtypes.NewMsgSubmitProposal(A[4], "join", "executor", &l2types.ProposalJoinDapp{Sender: A[0].String(), DappName: "sess", Executor: true, Interx: A[0].String()})
		m2, _ := govtypes.NewMsgSubmitProposal(A[4], "join", "verifier", &l2types.ProposalJoinDapp{Sender: A[3].String(), DappName: "sess", Verifier: true, Interx: A[3].String()})
		blk(6*time.Second, 4, m1)
		blk(6*time.Second, 4, m2)
		blk(6*time.Second, 4, govtypes.NewMsgVoteProposal(1, A[4], govtypes.OptionYes, sdk.ZeroDec()))
		blk(6*time.Second, 4, govtypes.NewMsgVoteProposal(2, A[4], govtypes.OptionYes, sdk.ZeroDec()))
		var br BlockResult
		for i := 0; i < 6 && br.Panicked == nil; i++ {
			br = blk(50*time.Second, 0)
		}
		r.Case("witness/join-dapp-first-session", true)
		if br.Panicked != nil {
			if key, what := c06Classify(c06Site(br.Panicked, br.Stack)); key != "" {
				r.Known(key, what+fmt.Sprintf(" [panic in %s of block %d: %.100v]", br.Phase, w.height, br.Panicked))
			} else {
				r.Fail("C06/witness/unexpected-panic", c06Site(br.Panicked, br.Stack), nil)
			}
		}
	}

	{ // (7) a validator owner pauses and rotates its address in the same block
		w := NewWorld(WorldOpts{NAcc: 5, NVal: 3, SudoAccs: []int{4}})
		A := w.addrs
		secret := fmt.Sprintf("%064x", 7)
		br := w.Block([][]byte{w.MustSign([]sdk.Msg{recoverytypes.NewMsgRegisterRecoverySecret(A[1].String(), richShaHex(secret), "n", "")}, 1, ukex(20000))}, BlockOpts{})
		ok := br.Panicked == nil && br.Results[0].Code == 0
		if ok {
			w.ApplyUpdates(br.Updates)
			target := sdk.AccAddress(detKey(100).PubKey().Address())
			br = w.Block([][]byte{w.MustSign([]sdk.Msg{slashingtypes.NewMsgPause(sdk.ValAddress(A[1])), recoverytypes.NewMsgRotateRecoveryAddress(A[1].String(), A[1].String(), target.String(), secret)}, 1, ukex(20000))}, BlockOpts{})
		}
		r.Case("witness/pause-and-rotate", ok)
		if br.Panicked != nil {
			if key, what := c06Classify(c06Site(br.Panicked, br.Stack)); key != "" {
				r.Known(key, what+fmt.Sprintf(" [panic in %s of block %d: %.100v]", br.Phase, w.height, br.Panicked))
			} else {
				r.Fail("C06/witness/unexpected-panic", c06Site(br.Panicked, br.Stack), nil)
			}
		}
	}

	// (8) proposals that reach their voting end with ZERO votes while the quorum check still passes
	for _, shape := range []string{"network-quorum-zero", "user-pool-quorum-zero", "vote-permission-nobody-holds", "voters-lost-permission-before-end"} {
		w := NewWorld(WorldOpts{NAcc: 5, NVal: 2, SudoAccs: []int{4}})
		A := w.addrs
		gk := w.app.CustomGovKeeper
		var last BlockResult
		blk := func(dt time.Duration, mid func(sdk.Context), signer int, msgs ...sdk.Msg) bool {
			var txs [][]byte
			if len(msgs) > 0 {
				txs = append(txs, w.MustSign(msgs, signer, ukex(20000)))
			}
			last = w.Block(txs, BlockOpts{Dt: dt, Mid: mid})
			if last.Panicked != nil {
				return false
			}
			w.ApplyUpdates(last.Updates)
			for _, res := range last.Results {
				if res.Code != 0 {
					r.Count("zero-vote:" + shape + ":tx-failed")
				}
			}
			return true
		}
		prop := func(c govtypes.Content, who int) sdk.Msg {
			m, _ := govtypes.NewMsgSubmitProposal(A[who], "t", "d", c)
			return m
		}
		ok := true
		switch shape {
		case "network-quorum-zero":
			ok = blk(6*time.Second, func(ctx sdk.Context) {
				p := gk.GetNetworkProperties(ctx)
				p.VoteQuorum = sdk.ZeroDec()
				gk.SetNetworkProperties(ctx, p)
			}, 0) && blk(6*time.Second, nil, 4, prop(govtypes.NewSetNetworkPropertyProposal(govtypes.MinIdentityApprovalTip, govtypes.NetworkPropertyValue{Value: 321}), 4))
		case "user-pool-quorum-zero":
			pool := spendingtypes.NewMsgCreateSpendingPool("mine", 0, 0, sdk.DecCoins{sdk.NewDecCoinFromDec("ukex", sdk.NewDec(1))}, sdk.ZeroDec(), 30, 20,
				spendingtypes.PermInfo{OwnerAccounts: []string{A[2].String()}}, spendingtypes.WeightedPermInfo{Accounts: []spendingtypes.WeightedAccount{{Account: A[3].String(), Weight: sdk.OneDec()}}}, A[2], false, 0)
			pool.ClaimExpiry = 1000
			ok = blk(6*time.Second, nil, 2, pool) && blk(6*time.Second, nil, 2, spendingtypes.NewMsgDepositSpendingPool("mine", ukex(1_000_000), A[2])) &&
				blk(6*time.Second, nil, 3, spendingtypes.NewMsgRegisterSpendingPoolBeneficiary("mine", A[3])) &&
				blk(6*time.Second, nil, 2, prop(spendingtypes.NewSpendingPoolWithdrawProposal("mine", []string{A[3].String()}, ukex(10)), 2)) &&
				blk(6*time.Second, nil, 2, prop(spendingtypes.NewSpendingPoolDistributionProposal("mine"), 2))
		case "vote-permission-nobody-holds":
			ok = blk(6*time.Second, func(ctx sdk.Context) {
				gk.RemoveWhitelistRolePermission(ctx, govtypes.RoleSudo, govtypes.PermVoteSetNetworkPropertyProposal)
			}, 0) && blk(6*time.Second, nil, 4, prop(govtypes.NewSetNetworkPropertyProposal(govtypes.MinIdentityApprovalTip, govtypes.NetworkPropertyValue{Value: 322}), 4))
		case "voters-lost-permission-before-end":
			ok = blk(6*time.Second, nil, 4, prop(govtypes.NewSetNetworkPropertyProposal(govtypes.MinIdentityApprovalTip, govtypes.NetworkPropertyValue{Value: 323}), 4)) &&
				blk(6*time.Second, func(ctx sdk.Context) { gk.UnassignRoleFromAccount(ctx, A[4], govtypes.RoleSudo) }, 0)
		}
		for i := 0; i < 8 && ok; i++ {
			ok = blk(120*time.Second, nil, 0)
		}
		r.Case("zero-votes/"+shape, true)
		if last.Panicked != nil {
			if key, what := c06Classify(c06Site(last.Panicked, last.Stack)); key != "" {
				r.Known(key, what+fmt.Sprintf(" [%s: panic in %s of block %d]", shape, last.Phase, w.height))
			} else {
				r.Fail("C06/zero-votes/"+shape+"/panic", fmt.Sprintf("panic in %s of block %d: %s", last.Phase, w.height, c06Site(last.Panicked, last.Stack)), nil)
			}
			continue
		}
		props, _ := gk.GetProposals(w.ReadCtx())
		for _, p := range props {
			r.Count(fmt.Sprintf("zero-votes:%s:%s:%s", shape, p.GetContent().ProposalType(), p.Result))
		}
	}

	// ---------- random proposal / churn histories
	nHist, nBlocks, nRich, nRichBlocks := 6, 45, 12, 40
	if r.Tier == "thorough" {
		nHist, nBlocks, nRich, nRichBlocks = 100, 70, 100, 70
	}
	for h := 0; h < nHist; h++ {
		c06History(r, h, nBlocks)
	}
	// ---------- rich histories (richGenerate): every module's messages, proposals that pass and are enacted, every
	// lifecycle period crossed, absences / inactivation / evidence; every third one lets SlashValidator proposals pass
	for h := 0; h < nRich; h++ {
		o := RichOpts{NBlocks: nRichBlocks, NAcc: 10, NVal: 4, Custody: h % 3, Halting: h%3 == 2, Label: fmt.Sprintf("rich-%d", h), CommitDelay: h%2 == 0}
		hist := richGenerate(r, o)
		obs, _ := c01Run(hist, o.NAcc, o.NVal, 0)
		for b := range obs {
			r.Case(fmt.Sprintf("%s/block-%d", o.Label, b), len(hist[b].txs) > 0)
		}
		r.Count(fmt.Sprintf("rich-history:halting=%v:blocks=%d", o.Halting, len(obs)))
		if n := len(obs); n > 0 {
			last := obs[n-1]
			if last.panicAt != "" {
				if key, what := c06Classify(last.panicVal); key != "" {
					r.Known(key, what)
				} else {
					r.Fail("C06/"+last.panicAt+"/panic", fmt.Sprintf("%s block %d (%s): %s  [txs: %s]", o.Label, n, last.panicAt, last.panicVal, strings.Join(hist[n-1].kinds, ",")), c01Replay(hist, n-1))
				}
			} else if last.updErr != "" {
				r.Count("cometbft-rejected-update") // consensus-engine rejection is C05's subject
			}
		}
	}
	r.Mark("c06 done")
	r.Extra["rule"] = "real blocks with recover around BeginBlock / DeliverTx / EndBlock / Commit: rich histories of every module's message types (richGenerate: proposals of every registered type that pass and are enacted, time jumps over every period, absences up to inactivation and re-activation, double-sign evidence, recovery rotations of validators, dApp bootstraps) plus proposal-heavy histories: bank traffic, identity records, polls, 14 proposal kinds submitted and voted by a changing electorate, time jumps past voting end and enactment, validator absences and owner pause/unpause, permission churn restricted to GRANTS (revocations after a vote are the recorded finding and run as a witness). A case = one block; non-trivial = a block in which a proposal was tallied or enacted or a validator changed status."
}

func c06History(r *Rec, h int, nBlocks int) {
	nAcc, nVal := 7, 3
	w := NewWorld(WorldOpts{NAcc: nAcc, NVal: nVal, SudoAccs: []int{nAcc - 1}})
	A := w.addrs
	sudo := nAcc - 1
	k := w.app.CustomGovKeeper
	nProps := 0
	paused := map[int]bool{}
	label := fmt.Sprintf("history-%d", h)
	for b := 0; b < nBlocks; b++ {
		dt := time.Duration(3+r.Rng.Intn(8)) * time.Second
		if r.Rng.Intn(7) == 0 {
			dt = time.Duration(150+r.Rng.Intn(400)) * time.Second
		}
		absent := map[int]bool{}
		if r.Rng.Intn(6) == 0 {
			absent[r.Rng.Intn(nVal)] = true
		}
		used := map[int]bool{}
		var txs [][]byte
		var kinds []string
		add := func(kind string, signer int, msgs ...sdk.Msg) {
			if used[signer] {
				return
			}
			bz, err := w.SignTx(msgs, signer, ukex(20000), SignOpts{})
			if err != nil {
				return
			}
			used[signer] = true
			txs = append(txs, bz)
			kinds = append(kinds, kind)
		}
		var mid func(sdk.Context)
		for t := 0; t < 1+r.Rng.Intn(4); t++ {
			switch x := r.Rng.Intn(100); {
			case x < 12:
				s := r.Rng.Intn(nAcc)
				add("send", s, banktypes.NewMsgSend(A[s], A[r.Rng.Intn(nAcc)], ukex(int64(1+r.Rng.Intn(100000)))))
			case x < 20:
				s := r.Rng.Intn(nAcc)
				add("identity", s, govtypes.NewMsgRegisterIdentityRecords(A[s], []govtypes.IdentityInfoEntry{{Key: fmt.Sprintf("k%d", r.Rng.Intn(3)), Info: fmt.Sprintf("v%d", r.Rng.Intn(50))}}))
			case x < 26:
				add("poll-create", sudo, govtypes.NewMsgPollCreate(A[sudo], "title", "desc", "ref", "chk", []string{"a", "b"}, []string{"sudo"}, 2, "string", 1, fmt.Sprintf("%ds", 10+r.Rng.Intn(200))))
			case x < 60:
				var content govtypes.Content
				kind := ""
				switch r.Rng.Intn(14) {
				case 0:
					kind, content = "setprop", govtypes.NewSetNetworkPropertyProposal(govtypes.MinIdentityApprovalTip, govtypes.NetworkPropertyValue{Value: uint64(100 + nProps)})
				case 1:
					kind, content = "setprop-invalid-later", govtypes.NewSetNetworkPropertyProposal(govtypes.MinTxFee, govtypes.NetworkPropertyValue{Value: uint64(1 + r.Rng.Intn(2000000))})
				case 2:
					kind, content = "dataregistry", govtypes.NewUpsertDataRegistryProposal(fmt.Sprintf("key%d", r.Rng.Intn(3)), "hash", "ref", "enc", 10)
				case 3:
					kind, content = "poormsgs", govtypes.NewSetPoorNetworkMessagesProposal([]string{"submit-proposal", "vote-proposal"})
				case 4:
					kind, content = "createrole", govtypes.NewCreateRoleProposal(fmt.Sprintf("role%d", r.Rng.Intn(4)), "d", []govtypes.PermValue{govtypes.PermVoteSetNetworkPropertyProposal}, nil)
				case 5:
					kind, content = "durations", govtypes.NewSetProposalDurationsProposal([]string{"SetNetworkProperty", "NoSuchType"}, []uint64{uint64(300 + r.Rng.Intn(100)), 400})
				case 6:
					kind, content = "wl-account-perm", govtypes.NewWhitelistAccountPermissionProposal(A[r.Rng.Intn(nAcc-1)], govtypes.PermValue(govtypes.PermVoteSetNetworkPropertyProposal))
				case 7:
					kind, content = "assign-role", govtypes.NewAssignRoleToAccountProposal(A[r.Rng.Intn(nAcc-1)], "validator")
				case 8:
					kind, content = "rankreset", slashingtypes.NewResetWholeValidatorRankProposal(A[sudo])
				case 9:
					kind, content = "unjail", stakingtypes.NewUnjailValidatorProposal(A[sudo], sdk.ValAddress(A[r.Rng.Intn(nVal)]), "ref")
				case 10:
					kind, content = "ubi-upsert", ubitypes.NewUpsertUBIProposal(fmt.Sprintf("ubi%d", r.Rng.Intn(2)), 0, 0, uint64(1+r.Rng.Intn(1000)), uint64(1+r.Rng.Intn(100000)), "ValidatorBasicRewardsPool")
				case 11:
					kind, content = "ubi-remove", &ubitypes.RemoveUBIProposal{UbiName: fmt.Sprintf("ubi%d", r.Rng.Intn(2))}
				case 12:
					kind, content = "token-freeze", tokenstypes.NewTokensWhiteBlackChangeProposal(true, r.Rng.Intn(2) == 0, []string{"frozen", "ueth"})
				case 13:
					kind, content = "execfees", govtypes.NewSetExecutionFeesProposal(A[sudo], "d", []govtypes.ExecutionFee{{TransactionType: "send", ExecutionFee: uint64(r.Rng.Intn(500)), FailureFee: uint64(r.Rng.Intn(500))}})
				}
				m, err := govtypes.NewMsgSubmitProposal(A[sudo], "t", "d", content)
				if err == nil {
					add("submit:"+kind, sudo, m)
				}
			case x < 85:
				if nProps == 0 {
					continue
				}
				voter := []int{sudo, sudo, sudo, r.Rng.Intn(nAcc)}[r.Rng.Intn(4)]
				opt := govtypes.VoteOption(1 + r.Rng.Intn(4))
				if r.Rng.Intn(3) != 0 {
					opt = govtypes.OptionYes
				}
				pid := uint64(1 + r.Rng.Intn(nProps))
				if r.Rng.Intn(4) != 0 { // mostly one of the three most recent proposals (their voting window is still open)
					pid = uint64(nProps - r.Rng.Intn(3))
					if pid < 1 {
						pid = 1
					}
				}
				add("vote", voter, govtypes.NewMsgVoteProposal(pid, A[voter], opt, sdk.ZeroDec()))
			case x < 92:
				v := r.Rng.Intn(nVal)
				if paused[v] {
					add("unpause", v, slashingtypes.NewMsgUnpause(sdk.ValAddress(A[v])))
				} else if len(paused) < nVal-1 {
					add("pause", v, slashingtypes.NewMsgPause(sdk.ValAddress(A[v])))
				}
			default:
				// permission churn: grants only
				a := r.Rng.Intn(nAcc - 1)
				perm := []govtypes.PermValue{govtypes.PermVoteSetNetworkPropertyProposal, govtypes.PermVoteUpsertDataRegistryProposal, govtypes.PermVoteCreateRoleProposal, govtypes.PermVoteUpsertUBIProposal}[r.Rng.Intn(4)]
				mid = func(ctx sdk.Context) {
					actor, ok := k.GetNetworkActorByAddress(ctx, A[a])
					if !ok {
						actor = govtypes.NewDefaultActor(A[a])
					}
					k.AddWhitelistPermission(ctx, actor, perm)
				}
			}
		}
		absIdx := map[int]bool{}
		for i := range absent {
			absIdx[i] = true
		}
		before, _ := k.GetProposals(w.ReadCtx())
		br := w.Block(txs, BlockOpts{Absent: absIdx, Dt: dt, Mid: mid})
		for i, res := range br.Results {
			r.Count(fmt.Sprintf("tx:%s:%v", kinds[i], res.Code == 0))
			if res.Code != 0 && kinds[i] == "vote" {
				fmt.Printf("vote failed: %.160s\n", res.Log)
			}
			if res.Code == 0 {
				switch kinds[i] {
				case "pause":
					for v := 0; v < nVal; v++ {
						if used[v] && !paused[v] {
							paused[v] = true
							break
						}
					}
				}
			}
		}
		// track pause state from the application (cheap and exact)
		if br.Panicked == nil {
			ctx := w.ReadCtx()
			for v := 0; v < nVal; v++ {
				val, err := w.app.CustomStakingKeeper.GetValidator(ctx, sdk.ValAddress(A[v]))
				if err == nil {
					if val.Status == stakingtypes.Paused {
						paused[v] = true
					} else {
						delete(paused, v)
					}
				}
			}
		}
		nontrivial := false
		if br.Panicked == nil {
			after, _ := k.GetProposals(w.ReadCtx())
			nProps = len(after)
			for i := range before {
				if i < len(after) && before[i].Result != after[i].Result {
					nontrivial = true
					r.Count("proposal:" + after[i].Result.String())
				}
			}
		}
		r.Case(fmt.Sprintf("%s/block-%d", label, b), nontrivial)
		if br.Panicked != nil {
			key, what := c06Classify(c06Site(br.Panicked, br.Stack))
			if key != "" {
				r.Known(key, what)
			} else {
				r.Fail("C06/"+br.Phase+"/panic", fmt.Sprintf("%s block %d (%s): %s  [txs: %s]", label, w.height, br.Phase, c06Site(br.Panicked, br.Stack), strings.Join(kinds, ",")), nil)
			}
			return
		}
		if err := w.ApplyUpdates(br.Updates); err != nil {
			// consensus-engine rejection is C05's subject; the episode cannot continue
			r.Count("cometbft-rejected-update")
			return
		}
	}
}
