package main

// C06: block processing must not panic. Real blocks with recover around every ABCI call: proposal-heavy,
// permission-churn-heavy histories with time jumps so that proposals reach their voting end and enactment;
// plus the witnesses of the recorded halting findings.

import (
	"fmt"
	"strings"
	"time"

	govtypes "github.com/KiraCore/sekai/x/gov/types"
	slashingtypes "github.com/KiraCore/sekai/x/slashing/types"
	spendingtypes "github.com/KiraCore/sekai/x/spending/types"
	stakingtypes "github.com/KiraCore/sekai/x/staking/types"
	tokenstypes "github.com/KiraCore/sekai/x/tokens/types"
	ubitypes "github.com/KiraCore/sekai/x/ubi/types"
	sdk "github.com/cosmos/cosmos-sdk/types"
	banktypes "github.com/cosmos/cosmos-sdk/x/bank/types"
)

func init() { props["C06"] = func(r *Rec) { runC06(r); recFor(r, "C06") } }

// known halting shapes, recognised by the panic value
func c06Classify(p interface{}) (string, string) {
	s := fmt.Sprint(p)
	switch {
	case strings.Contains(s, "Invalid quorum on proposal"):
		return "C06/gov-endblock/more-votes-than-voters", "a voter who loses the vote permission after voting makes IsQuorum fail (votes > voters) and the gov EndBlocker panics"
	case strings.Contains(s, "negative coin amount"):
		return "C06/spending-distribution/underfunded-pool-coins-sub", "enactment of a spending-pool distribution on an under-funded pool panics inside Coins.Sub (ApplyProposal does not recover)"
	}
	return "", ""
}

func runC06(r *Rec) {
	// ---------- witnesses
	{ // (1) voter loses permission after voting
		w := NewWorld(WorldOpts{NAcc: 5, NVal: 2, SudoAccs: []int{4}})
		A := w.addrs
		k := w.app.CustomGovKeeper
		blk := func(msgs []sdk.Msg, signer int, dt time.Duration, mid func(sdk.Context)) BlockResult {
			var txs [][]byte
			if msgs != nil {
				txs = append(txs, w.MustSign(msgs, signer, ukex(20000)))
			}
			br := w.Block(txs, BlockOpts{Dt: dt, Mid: mid})
			if br.Panicked == nil {
				w.ApplyUpdates(br.Updates)
			}
			return br
		}
		// account 3 gets the vote permission directly, sudo (4) submits
		blk(nil, 0, 6*time.Second, func(ctx sdk.Context) {
			a := govtypes.NewDefaultActor(A[3])
			k.AddWhitelistPermission(ctx, a, govtypes.PermVoteSetNetworkPropertyProposal)
		})
		m, _ := govtypes.NewMsgSubmitProposal(A[4], "t", "d", govtypes.NewSetNetworkPropertyProposal(govtypes.MinIdentityApprovalTip, govtypes.NetworkPropertyValue{Value: 777}))
		blk([]sdk.Msg{m}, 4, 6*time.Second, nil)
		blk([]sdk.Msg{govtypes.NewMsgVoteProposal(1, A[3], govtypes.OptionYes, sdk.ZeroDec())}, 3, 6*time.Second, nil)
		blk([]sdk.Msg{govtypes.NewMsgVoteProposal(1, A[4], govtypes.OptionYes, sdk.ZeroDec())}, 4, 6*time.Second, nil)
		// both voters lose the permission: sudo's role is unassigned, account 3's whitelist entry removed
		blk(nil, 0, 6*time.Second, func(ctx sdk.Context) {
			a, _ := k.GetNetworkActorByAddress(ctx, A[3])
			k.RemoveWhitelistedPermission(ctx, a, govtypes.PermVoteSetNetworkPropertyProposal)
			k.UnassignRoleFromAccount(ctx, A[4], 1)
		})
		br := blk(nil, 0, 400*time.Second, nil)
		r.Case("witness/quorum-panic", true)
		if br.Panicked != nil {
			if key, what := c06Classify(br.Panicked); key != "" {
				r.Known(key, what+fmt.Sprintf(" [panic in %s: %.120v]", br.Phase, br.Panicked))
			} else {
				r.Fail("C06/witness/unexpected-panic", fmt.Sprint(br.Panicked), nil)
			}
		}
	}
	{ // (2) spending pool distribution on an under-funded pool, through the real router at enactment level
		w := NewWorld(WorldOpts{NAcc: 5, NVal: 2, SudoAccs: []int{4}})
		A := w.addrs
		br := w.Block(nil, BlockOpts{Mid: func(ctx sdk.Context) {
			k := w.app.SpendingKeeper
			rate := sdk.NewDecCoinFromDec("ukex", sdk.NewDec(10))
			k.CreateSpendingPool(ctx, spendingtypes.SpendingPool{Name: "p", ClaimStart: 0, ClaimEnd: 0, ClaimExpiry: 1000000, Rates: sdk.DecCoins{rate},
				Owners:        &spendingtypes.PermInfo{OwnerAccounts: []string{A[0].String()}},
				Beneficiaries: &spendingtypes.WeightedPermInfo{Accounts: []spendingtypes.WeightedAccount{{Account: A[2].String(), Weight: sdk.OneDec()}}}, Balances: sdk.Coins{}})
			k.DepositSpendingPoolFromAccount(ctx, A[1], "p", sdk.NewCoins(sdk.NewInt64Coin("ukex", 50)))
			k.SetClaimInfo(ctx, spendingtypes.ClaimInfo{PoolName: "p", Account: A[2].String(), LastClaim: uint64(ctx.BlockTime().Unix()) - 1000})
			w.app.CustomGovKeeper.GetProposalRouter().ApplyProposal(ctx, 1, &spendingtypes.SpendingPoolDistributionProposal{PoolName: "p"}, sdk.ZeroDec())
		}})
		r.Case("witness/spending-distribution-panic", true)
		if br.Panicked != nil {
			if key, what := c06Classify(br.Panicked); key != "" {
				r.Known(key, what+fmt.Sprintf(" [%.100v]", br.Panicked))
			} else {
				r.Fail("C06/witness/unexpected-panic", fmt.Sprint(br.Panicked), nil)
			}
		}
	}

	// ---------- random proposal / churn histories
	nHist, nBlocks := 8, 45
	if r.Tier == "thorough" {
		nHist, nBlocks = 150, 70
	}
	for h := 0; h < nHist; h++ {
		c06History(r, h, nBlocks)
	}
	r.Mark("c06 done")
	r.Extra["rule"] = "real blocks with recover around BeginBlock / DeliverTx / EndBlock / Commit: bank traffic, identity records, polls, 14 proposal kinds submitted and voted by a changing electorate, time jumps past voting end and enactment, validator absences and owner pause/unpause, permission churn restricted to GRANTS (revocations after a vote are the recorded finding and run as a witness). A case = one block; non-trivial = a block in which a proposal was tallied or enacted or a validator changed status."
}

func c06History(r *Rec, h int, nBlocks int) {
	nAcc, nVal := 7, 3
	w := NewWorld(WorldOpts{NAcc: nAcc, NVal: nVal, SudoAccs: []int{nAcc - 1}})
	A := w.addrs
	sudo := nAcc - 1
	k := w.app.CustomGovKeeper
	nProps := 0
	paused := map[int]bool{}
	label := fmt.Sprintf("history-%d", h)
	for b := 0; b < nBlocks; b++ {
		dt := time.Duration(3+r.Rng.Intn(8)) * time.Second
		if r.Rng.Intn(7) == 0 {
			dt = time.Duration(150+r.Rng.Intn(400)) * time.Second
		}
		absent := map[int]bool{}
		if r.Rng.Intn(6) == 0 {
			absent[r.Rng.Intn(nVal)] = true
		}
		used := map[int]bool{}
		var txs [][]byte
		var kinds []string
		add := func(kind string, signer int, msgs ...sdk.Msg) {
			if used[signer] {
				return
			}
			bz, err := w.SignTx(msgs, signer, ukex(20000), SignOpts{})
			if err != nil {
				return
			}
			used[signer] = true
			txs = append(txs, bz)
			kinds = append(kinds, kind)
		}
		var mid func(sdk.Context)
		for t := 0; t < 1+r.Rng.Intn(4); t++ {
			switch x := r.Rng.Intn(100); {
			case x < 12:
				s := r.Rng.Intn(nAcc)
				add("send", s, banktypes.NewMsgSend(A[s], A[r.Rng.Intn(nAcc)], ukex(int64(1+r.Rng.Intn(100000)))))
			case x < 20:
				s := r.Rng.Intn(nAcc)
				add("identity", s, govtypes.NewMsgRegisterIdentityRecords(A[s], []govtypes.IdentityInfoEntry{{Key: fmt.Sprintf("k%d", r.Rng.Intn(3)), Info: fmt.Sprintf("v%d", r.Rng.Intn(50))}}))
			case x < 26:
				add("poll-create", sudo, govtypes.NewMsgPollCreate(A[sudo], "title", "desc", "ref", "chk", []string{"a", "b"}, []string{"sudo"}, 2, "string", 1, fmt.Sprintf("%ds", 10+r.Rng.Intn(200))))
			case x < 60:
				var content govtypes.Content
				kind := ""
				switch r.Rng.Intn(14) {
				case 0:
					kind, content = "setprop", govtypes.NewSetNetworkPropertyProposal(govtypes.MinIdentityApprovalTip, govtypes.NetworkPropertyValue{Value: uint64(100 + nProps)})
				case 1:
					kind, content = "setprop-invalid-later", govtypes.NewSetNetworkPropertyProposal(govtypes.MinTxFee, govtypes.NetworkPropertyValue{Value: uint64(1 + r.Rng.Intn(2000000))})
				case 2:
					kind, content = "dataregistry", govtypes.NewUpsertDataRegistryProposal(fmt.Sprintf("key%d", r.Rng.Intn(3)), "hash", "ref", "enc", 10)
				case 3:
					kind, content = "poormsgs", govtypes.NewSetPoorNetworkMessagesProposal([]string{"submit-proposal", "vote-proposal"})
				case 4:
					kind, content = "createrole", govtypes.NewCreateRoleProposal(fmt.Sprintf("role%d", r.Rng.Intn(4)), "d", []govtypes.PermValue{govtypes.PermVoteSetNetworkPropertyProposal}, nil)
				case 5:
					kind, content = "durations", govtypes.NewSetProposalDurationsProposal([]string{"SetNetworkProperty", "NoSuchType"}, []uint64{uint64(300 + r.Rng.Intn(100)), 400})
				case 6:
					kind, content = "wl-account-perm", govtypes.NewWhitelistAccountPermissionProposal(A[r.Rng.Intn(nAcc-1)], govtypes.PermValue(govtypes.PermVoteSetNetworkPropertyProposal))
				case 7:
					kind, content = "assign-role", govtypes.NewAssignRoleToAccountProposal(A[r.Rng.Intn(nAcc-1)], "validator")
				case 8:
					kind, content = "rankreset", slashingtypes.NewResetWholeValidatorRankProposal(A[sudo])
				case 9:
					kind, content = "unjail", stakingtypes.NewUnjailValidatorProposal(A[sudo], sdk.ValAddress(A[r.Rng.Intn(nVal)]), "ref")
				case 10:
					kind, content = "ubi-upsert", ubitypes.NewUpsertUBIProposal(fmt.Sprintf("ubi%d", r.Rng.Intn(2)), 0, 0, uint64(1+r.Rng.Intn(1000)), uint64(1+r.Rng.Intn(100000)), "ValidatorBasicRewardsPool")
				case 11:
					kind, content = "ubi-remove", &ubitypes.RemoveUBIProposal{UbiName: fmt.Sprintf("ubi%d", r.Rng.Intn(2))}
				case 12:
					kind, content = "token-freeze", tokenstypes.NewTokensWhiteBlackChangeProposal(true, r.Rng.Intn(2) == 0, []string{"frozen", "ueth"})
				case 13:
					kind, content = "execfees", govtypes.NewSetExecutionFeesProposal(A[sudo], "d", []govtypes.ExecutionFee{{TransactionType: "send", ExecutionFee: uint64(r.Rng.Intn(500)), FailureFee: uint64(r.Rng.Intn(500))}})
				}
				m, err := govtypes.NewMsgSubmitProposal(A[sudo], "t", "d", content)
				if err == nil {
					add("submit:"+kind, sudo, m)
				}
			case x < 85:
				if nProps == 0 {
					continue
				}
				voter := []int{sudo, sudo, sudo, r.Rng.Intn(nAcc)}[r.Rng.Intn(4)]
				opt := govtypes.VoteOption(1 + r.Rng.Intn(4))
				if r.Rng.Intn(3) != 0 {
					opt = govtypes.OptionYes
				}
				pid := uint64(1 + r.Rng.Intn(nProps))
				if r.Rng.Intn(4) != 0 { // mostly one of the three most recent proposals (their voting window is still open)
					pid = uint64(nProps - r.Rng.Intn(3))
					if pid < 1 {
						pid = 1
					}
				}
				add("vote", voter, govtypes.NewMsgVoteProposal(pid, A[voter], opt, sdk.ZeroDec()))
			case x < 92:
				v := r.Rng.Intn(nVal)
				if paused[v] {
					add("unpause", v, slashingtypes.NewMsgUnpause(sdk.ValAddress(A[v])))
				} else if len(paused) < nVal-1 {
					add("pause", v, slashingtypes.NewMsgPause(sdk.ValAddress(A[v])))
				}
			default:
				// permission churn: grants only
				a := r.Rng.Intn(nAcc - 1)
				perm := []govtypes.PermValue{govtypes.PermVoteSetNetworkPropertyProposal, govtypes.PermVoteUpsertDataRegistryProposal, govtypes.PermVoteCreateRoleProposal, govtypes.PermVoteUpsertUBIProposal}[r.Rng.Intn(4)]
				mid = func(ctx sdk.Context) {
					actor, ok := k.GetNetworkActorByAddress(ctx, A[a])
					if !ok {
						actor = govtypes.NewDefaultActor(A[a])
					}
					k.AddWhitelistPermission(ctx, actor, perm)
				}
			}
		}
		absIdx := map[int]bool{}
		for i := range absent {
			absIdx[i] = true
		}
		before, _ := k.GetProposals(w.ReadCtx())
		br := w.Block(txs, BlockOpts{Absent: absIdx, Dt: dt, Mid: mid})
		for i, res := range br.Results {
			r.Count(fmt.Sprintf("tx:%s:%v", kinds[i], res.Code == 0))
			if res.Code != 0 && kinds[i] == "vote" {
				fmt.Printf("vote failed: %.160s\n", res.Log)
			}
			if res.Code == 0 {
				switch kinds[i] {
				case "pause":
					for v := 0; v < nVal; v++ {
						if used[v] && !paused[v] {
							paused[v] = true
							break
						}
					}
				}
			}
		}
		// track pause state from the application (cheap and exact)
		if br.Panicked == nil {
			ctx := w.ReadCtx()
			for v := 0; v < nVal; v++ {
				val, err := w.app.CustomStakingKeeper.GetValidator(ctx, sdk.ValAddress(A[v]))
				if err == nil {
					if val.Status == stakingtypes.Paused {
						paused[v] = true
					} else {
						delete(paused, v)
					}
				}
			}
		}
		nontrivial := false
		if br.Panicked == nil {
			after, _ := k.GetProposals(w.ReadCtx())
			nProps = len(after)
			for i := range before {
				if i < len(after) && before[i].Result != after[i].Result {
					nontrivial = true
					r.Count("proposal:" + after[i].Result.String())
				}
			}
		}
		r.Case(fmt.Sprintf("%s/block-%d", label, b), nontrivial)
		if br.Panicked != nil {
			key, what := c06Classify(br.Panicked)
			if key != "" {
				r.Known(key, what)
			} else {
				r.Fail("C06/"+br.Phase+"/panic", fmt.Sprintf("%s block %d (%s): %.300v  [txs: %s]", label, w.height, br.Phase, br.Panicked, strings.Join(kinds, ",")), nil)
			}
			return
		}
		if err := w.ApplyUpdates(br.Updates); err != nil {
			// consensus-engine rejection is C05's subject; the episode cannot continue
			r.Count("cometbft-rejected-update")
			return
		}
	}
}
