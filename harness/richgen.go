package main

// richgen: a deterministic, state-aware generator of block histories that mixes the message types of every module.
//
// The generator drives a scratch replica: before every block it reads the scratch replica's committed state and builds
// transactions whose preconditions hold there (right sequence numbers, existing ids, sufficient balances, the rightful
// signer), signs them through the real ante chain's rules, executes the block on the scratch replica and records what
// every replica must replay: the raw transaction bytes, the header time step, the absent validators, the proposer, the
// double-sign evidence and the keeper-level set-up steps (executed by every replica at the same point via BlockOpts.Mid).
//
// Every random choice comes from r.Rng; nothing that is generated depends on Go map iteration order (maps are used for
// membership / lookup only, everything iterated is a slice or comes from an ordered store iterator).

import (
	"crypto/sha256"
	"encoding/hex"
	"fmt"
	"os"
	"sort"
	"strings"
	"time"

	sdkmath "cosmossdk.io/math"
	kiratypes "github.com/KiraCore/sekai/types"
	baskettypes "github.com/KiraCore/sekai/x/basket/types"
	govtypes "github.com/KiraCore/sekai/x/gov/types"
	spendingtypes "github.com/KiraCore/sekai/x/spending/types"
	stakingtypes "github.com/KiraCore/sekai/x/staking/types"
	tokenstypes "github.com/KiraCore/sekai/x/tokens/types"
	ubitypes "github.com/KiraCore/sekai/x/ubi/types"
	abci "github.com/cometbft/cometbft/abci/types"
	sdk "github.com/cosmos/cosmos-sdk/types"
)

type RichOpts struct {
	CommitDelay bool // the consensus engine's real timing of validator-set changes (World.delay)
	NBlocks    int
	NAcc, NVal int  // must be the values the replicas are built with (c01Run); NAcc >= NVal+6
	Custody    int  // 0: no custody messages; 1: custody records whose maps hold at most one entry (deterministic); 2: multi-entry maps (recorded finding C01/custody/map-marshal-order)
	Tail       bool // finish with deletions of the newest identity record / verify request / undelegation so that id counters exceed the largest live id, and stop registering afterwards
	Halting    bool // the electorate also passes SlashValidator proposals (their enactment halts the chain: C06 findings)
	Label      string
}

// a keeper-level step every replica executes at the same point of the same block (after BeginBlock, before the txs)
type richMid func(w *World, ctx sdk.Context)

const richSpares = 8 // extra deterministic keys without a genesis account (rotation targets, late joiners)

type richGen struct {
	r *Rec
	o RichOpts
	w *World // scratch replica
	// roles of accounts
	sudo    int
	voters  []int // holders of the sudo role: they vote; their permissions are never revoked
	plain   []int // accounts whose roles / permissions are churned (never vote on proposals)
	holder2 int   // holds both weighted roles of the seeded spending pool
	idx     map[string]int
	// per block
	ctx         sdk.Context
	b           int
	nTx         map[int]int
	raw         *c01Raw
	execFee     map[string]uint64
	tail        bool
	lastKind    string
	blkStatusTx bool         // a validator pause / unpause / activate transaction is in the block
	blkRotation bool         // a rotation of a validator owner is in the block
	blkPause    bool         // a validator pause is in the block
	sealed      map[int]bool // signers whose last transaction of the block may fail in the ante chain (no sequence increment): nothing more from them
	lowFeeUntil int          // low-fee probes follow a rolled-back min_tx_fee change until this block
	ghostRoles  []string     // role sids created only inside rolled-back transactions
	// across blocks
	tries, oks   map[string]int
	kindsSeen    []string
	custKey      map[int]int // custody key generation per account
	secretGen    map[int]int // recovery secret generation per account
	spareUsed    map[int]bool
	absentUntil  map[string]int // validator (tm address hex) -> last block of its absence episode
	nRole, nPool int
	nColl, nDapp int
	nTok, nBask  int
	nVal         int // consensus keys handed out so far
	pendingCust  []richCustTx
	debug        bool
}

type richCustTx struct {
	from int
	hash string
}

func (g *richGen) A(i int) sdk.AccAddress { return g.w.addrs[i] }
func (g *richGen) S(i int) string         { return g.w.addrs[i].String() }
func (g *richGen) V(i int) sdk.ValAddress { return sdk.ValAddress(g.w.addrs[i]) }
func (g *richGen) rn(n int) int {
	if n <= 0 {
		return 0
	}
	return g.r.Rng.Intn(n)
}
func (g *richGen) chance(num, den int) bool { return g.r.Rng.Intn(den) < num }
func (g *richGen) pick(l []int) int         { return l[g.rn(len(l))] }

func (g *richGen) bal(i int, denom string) sdkmath.Int {
	return g.w.app.BankKeeper.GetBalance(g.ctx, g.A(i), denom).Amount
}

// accounts that exist, can pay fees and are not locked behind custodians
func (g *richGen) alive(i int) bool {
	if i < 0 || i >= len(g.w.addrs) {
		return false
	}
	if g.w.app.AccountKeeper.GetAccount(g.ctx, g.A(i)) == nil {
		return false
	}
	return g.bal(i, "ukex").GTE(sdkmath.NewInt(2_000_000_000))
}

func (g *richGen) aliveOf(l []int) []int {
	var out []int
	for _, i := range l {
		if g.alive(i) {
			out = append(out, i)
		}
	}
	return out
}

func (g *richGen) allAccounts() []int {
	var out []int
	for i := range g.w.addrs {
		out = append(out, i)
	}
	return out
}

func (g *richGen) anyAlive() (int, bool) {
	l := g.aliveOf(g.allAccounts())
	if len(l) == 0 {
		return 0, false
	}
	return g.pick(l), true
}

func (g *richGen) isVoter(i int) bool {
	for _, v := range g.voters {
		if v == i {
			return true
		}
	}
	return false
}

// fee: ukex, high enough for the execution fees registered for the message types of the tx
func (g *richGen) feeFor(msgs []sdk.Msg) sdk.Coins {
	fee := int64(20000)
	for _, m := range msgs {
		if f := g.w.app.CustomGovKeeper.GetExecutionFee(g.ctx, kiratypes.MsgType(m)); f != nil {
			x := f.ExecutionFee
			if f.FailureFee > x {
				x = f.FailureFee
			}
			fee += int64(x)
		}
	}
	if fee > 900000 {
		fee = 900000
	}
	return ukex(fee)
}

// add signs a transaction for `signer` (taking the transactions this signer already has in the block into account) and
// appends it to the block under construction
func (g *richGen) add(kind string, signer int, msgs ...sdk.Msg) bool {
	return g.addFee(kind, signer, nil, msgs...)
}

func (g *richGen) addFee(kind string, signer int, fee sdk.Coins, msgs ...sdk.Msg) bool {
	if len(msgs) == 0 || signer < 0 || signer >= len(g.w.addrs) {
		return false
	}
	for _, m := range msgs {
		if m == nil {
			return false
		}
	}
	if g.w.account(signer) == nil || g.sealed[signer] {
		return false
	}
	if fee == nil {
		fee = g.feeFor(msgs)
	}
	bz, err := g.w.SignTx(msgs, signer, fee, SignOpts{SeqOff: int64(g.nTx[signer]), Gas: 400000})
	if err != nil {
		if g.debug {
			fmt.Printf("rich: cannot sign %s: %v\n", kind, err)
		}
		return false
	}
	g.nTx[signer]++
	g.raw.txs = append(g.raw.txs, bz)
	g.raw.kinds = append(g.raw.kinds, kind)
	g.lastKind = kind
	return true
}

// addN: a transaction with several signers (in GetSigners order); only for signers without another tx in this block
func (g *richGen) addN(kind string, signers []int, msgs ...sdk.Msg) bool {
	for _, s := range signers {
		if g.nTx[s] > 0 || g.w.account(s) == nil || g.sealed[s] {
			return false
		}
	}
	bz, err := g.w.SignTxN(msgs, signers, g.feeFor(msgs))
	if err != nil {
		if g.debug {
			fmt.Printf("rich: cannot sign %s: %v\n", kind, err)
		}
		return false
	}
	for _, s := range signers {
		g.nTx[s]++
	}
	g.raw.txs = append(g.raw.txs, bz)
	g.raw.kinds = append(g.raw.kinds, kind)
	return true
}

func richSha(s string) string { h := sha256.Sum256([]byte(s)); return hex.EncodeToString(h[:]) }

// ---------------------------------------------------------------------------------------------------------------
// set-up step of block 1 (every replica executes it): shorter periods so that every lifecycle phase is reachable in
// a few dozen blocks, the sudo role holds every permission, three voters, two weighted roles and an account holding
// both, a funded spending pool paying per role weight, token infos, a basket, a UBI record

func richSetup(nAcc, nVal int) richMid {
	return func(w *World, ctx sdk.Context) {
		app := w.app
		gk := app.CustomGovKeeper
		A := w.addrs
		sudo := nAcc - 1
		p := gk.GetNetworkProperties(ctx)
		p.MinimumProposalEndTime = 30
		p.ProposalEnactmentTime = 20
		p.MischanceConfidence = 1
		p.MaxMischance = 3
		p.DowntimeInactiveDuration = 40
		p.UnjailMaxTime = 100000
		p.UnstakingPeriod = 604800       // the least the validation accepts
		p.MinCollectiveBond = 1000       // KEX
		p.MinCollectiveBondingTime = 900 // s
		p.MinCollectiveClaimPeriod = 60
		p.ValidatorRecoveryBond = 1000 // KEX
		p.MinDappBond = 2000           // KEX
		p.MaxDappBond = 2000000
		p.DappBondDuration = 400
		p.DappAutoDenounceTime = 30
		p.DappLiquidationPeriod = 2000
		p.MintingFtFee = 5_000_000
		p.MintingNftFee = 5_000_000
		p.AutocompoundIntervalNumBlocks = 4
		p.MaxAbstention = 2
		p.UbiHardcap = 60_000_000_000
		p.MaxJailedPercentage = sdk.NewDecWithPrec(25, 2)
		if err := gk.SetNetworkProperties(ctx, p); err != nil {
			panic(err)
		}
		// the sudo role holds every permission
		for pv := int32(1); pv <= 80; pv++ {
			if _, ok := govtypes.PermValue_name[pv]; ok {
				_ = gk.WhitelistRolePermission(ctx, govtypes.RoleSudo, govtypes.PermValue(pv))
			}
		}
		// ... except one vote permission that NOBODY holds: proposals of that type reach their voting end with an
		// electorate of zero
		_ = gk.RemoveWhitelistRolePermission(ctx, govtypes.RoleSudo, govtypes.PermVoteResetWholeCouncilorRankProposal)
		// two more holders of the sudo role: the electorate has three members
		_ = gk.AssignRoleToAccount(ctx, A[nVal], govtypes.RoleSudo)
		_ = gk.AssignRoleToAccount(ctx, A[nVal+1], govtypes.RoleSudo)
		// two weighted roles, one account holding both (in the order b, a), one holding only a
		ra := gk.CreateRole(ctx, "rolea", "weighted role a")
		rb := gk.CreateRole(ctx, "roleb", "weighted role b")
		_ = gk.AssignRoleToAccount(ctx, A[nVal+2], rb)
		_ = gk.AssignRoleToAccount(ctx, A[nVal+2], ra)
		_ = gk.AssignRoleToAccount(ctx, A[nVal+3], ra)
		// role a also WHITELISTS two gated permissions, role b BLACKLISTS them: the account holding both is refused, on
		// every replica (a blacklist anywhere beats every whitelist, whatever the order the roles are looked at)
		for _, pv := range []govtypes.PermValue{govtypes.PermUpsertRole, govtypes.PermChangeTxFee} {
			_ = gk.WhitelistRolePermission(ctx, ra, pv)
			_ = gk.BlacklistRolePermission(ctx, rb, pv)
		}
		// token infos: ueth usable for fees and staking, a mintable token owned by sudo
		_ = app.TokensKeeper.UpsertTokenInfo(ctx, tokenstypes.NewTokenInfo("ueth", "adr20", sdk.NewDecWithPrec(1, 1), true, sdkmath.ZeroInt(), sdkmath.ZeroInt(), sdk.NewDecWithPrec(10, 2), sdkmath.NewInt(20_000), true, false, "ETH", "Ether", "", 18, "", "", "", 0, sdkmath.ZeroInt(), "", false, "", ""))
		_ = app.TokensKeeper.UpsertTokenInfo(ctx, tokenstypes.NewTokenInfo("ku/rich", "adr20", sdk.NewDecWithPrec(1, 2), false, sdkmath.ZeroInt(), sdkmath.NewInt(1_000_000_000_000), sdk.ZeroDec(), sdk.OneInt(), false, false, "RICH", "Rich", "", 6, "", "", "", 0, sdkmath.ZeroInt(), A[sudo].String(), false, "", ""))
		// a spending pool paying per role weight
		rate := sdk.NewDecCoinFromDec("ukex", sdk.NewDec(5))
		_ = app.SpendingKeeper.CreateSpendingPool(ctx, spendingtypes.SpendingPool{Name: "richpool", ClaimStart: 0, ClaimEnd: 0, ClaimExpiry: 4000, Rates: sdk.DecCoins{rate},
			VoteQuorum: sdk.NewDecWithPrec(33, 2), VotePeriod: 30, VoteEnactment: 20,
			Owners: &spendingtypes.PermInfo{OwnerAccounts: []string{A[sudo].String(), A[nVal].String()}},
			Beneficiaries: &spendingtypes.WeightedPermInfo{
				Roles:    []spendingtypes.WeightedRole{{Role: ra, Weight: sdk.NewDec(1)}, {Role: rb, Weight: sdk.NewDec(3)}},
				Accounts: []spendingtypes.WeightedAccount{{Account: A[0].String(), Weight: sdk.NewDec(2)}}},
			Balances: sdk.Coins{}, LastDynamicRateCalcTime: uint64(ctx.BlockTime().Unix())})
		_ = app.SpendingKeeper.DepositSpendingPoolFromAccount(ctx, A[sudo], "richpool", ukex(20_000_000_000))
		// a basket of ukex and ueth
		lim := sdkmath.NewInt(1_000_000_000_000)
		_ = app.BasketKeeper.CreateBasket(ctx, baskettypes.Basket{Suffix: "usd", Description: "seeded", Amount: sdk.ZeroInt(), SwapFee: sdk.NewDecWithPrec(1, 2), SlipppageFeeMin: sdk.NewDecWithPrec(1, 3), TokensCap: sdk.OneDec(),
			LimitsPeriod: 600, MintsMin: sdk.OneInt(), MintsMax: lim, BurnsMin: sdk.OneInt(), BurnsMax: lim, SwapsMin: sdk.OneInt(), SwapsMax: lim,
			Tokens: []baskettypes.BasketToken{{Denom: "ukex", Weight: sdk.OneDec(), Amount: sdk.ZeroInt(), Deposits: true, Withdraws: true, Swaps: true}, {Denom: "ueth", Weight: sdk.NewDec(2), Amount: sdk.ZeroInt(), Deposits: true, Withdraws: true, Swaps: true}}})
		// a UBI record feeding the seeded pool
		app.UbiKeeper.SetUBIRecord(ctx, ubitypes.UBIRecord{Name: "richubi", DistributionStart: 0, DistributionEnd: 0, DistributionLast: uint64(ctx.BlockTime().Unix()), Amount: 10, Period: 120, Pool: "richpool"})
		// a DYNAMIC record (tops its pool up to the amount; the genesis record is one, with a 30-day period) on a short period:
		// its pool is filled above and below the amount by deposits and claims between distributions
		app.UbiKeeper.SetUBIRecord(ctx, ubitypes.UBIRecord{Name: "richdyn", DistributionStart: 0, DistributionEnd: 0, DistributionLast: uint64(ctx.BlockTime().Unix()), Amount: 30_000, Period: 150, Pool: "richpool", Dynamic: true})
	}
}

// ---------------------------------------------------------------------------------------------------------------

func richGenerate(r *Rec, o RichOpts) []c01Raw {
	if o.NAcc < o.NVal+6 {
		panic("richGenerate: NAcc must be >= NVal+6")
	}
	w := NewWorld(WorldOpts{NAcc: o.NAcc, NVal: o.NVal, SudoAccs: []int{o.NAcc - 1}, CommitDelay: o.CommitDelay})
	g := &richGen{r: r, o: o, w: w, sudo: o.NAcc - 1, idx: map[string]int{}, tries: map[string]int{}, oks: map[string]int{}, custKey: map[int]int{}, secretGen: map[int]int{},
		spareUsed: map[int]bool{}, absentUntil: map[string]int{}, nVal: o.NVal, debug: os.Getenv("RICH_DEBUG") != ""}
	for j := 0; j < richSpares; j++ {
		p := detKey(o.NAcc + j)
		w.privs = append(w.privs, p)
		w.addrs = append(w.addrs, sdk.AccAddress(p.PubKey().Address()))
	}
	for i, a := range w.addrs {
		g.idx[a.String()] = i
	}
	g.voters = []int{g.sudo, o.NVal, o.NVal + 1}
	g.holder2 = o.NVal + 2
	for i := 0; i < o.NAcc-1; i++ {
		if i != o.NVal && i != o.NVal+1 {
			g.plain = append(g.plain, i)
		}
	}
	hasher := sha256.New()
	var out []c01Raw
	for b := 0; b < o.NBlocks; b++ {
		raw := c01Raw{absent: map[int]bool{}, dt: time.Duration(3+g.rn(8)) * time.Second, delay: o.CommitDelay}
		g.raw, g.b, g.nTx = &raw, b, map[int]int{}
		g.blkStatusTx, g.blkRotation, g.blkPause, g.sealed = false, false, false, map[int]bool{}
		g.ctx = w.ReadCtx()
		g.tail = o.Tail && b >= o.NBlocks-3
		longStep := o.Tail && b == o.NBlocks-5
		if b == 0 {
			raw.mid = append(raw.mid, richSetup(o.NAcc, o.NVal))
		} else {
			g.blockEnvironment()
			if longStep {
				// every dated item finishes before the end of a Tail history: UBI distribution ends, polls, voting and
				// enactment periods, spending-pool claim ends, dApp bootstrap deadlines
				raw.dt = time.Duration(1500+g.rn(500)) * time.Second
			}
			g.blockTxs()
		}
		absIdx := map[int]bool{}
		for i := range raw.absent {
			absIdx[i] = true
		}
		mids := raw.mid
		br := w.Block(raw.txs, BlockOpts{Absent: absIdx, Dt: raw.dt, Proposer: raw.proposer, Evidence: raw.evidence, Mid: func(ctx sdk.Context) {
			for _, m := range mids {
				m(w, ctx)
			}
		}})
		for _, tx := range raw.txs {
			hasher.Write(tx)
		}
		fmt.Fprintf(hasher, "|%d|%d|%v|%d;", raw.dt, raw.proposer, sortedKeys(raw.absent), len(raw.evidence))
		for i, res := range br.Results {
			k := raw.kinds[i]
			if g.tries[k] == 0 {
				g.kindsSeen = append(g.kindsSeen, k)
			}
			g.tries[k]++
			if res.Code == 0 {
				g.oks[k]++
			} else if g.debug {
				fmt.Printf("rich %s b%d FAIL %s: %.220s\n", o.Label, b+1, k, res.Log)
			}
			r.Count(fmt.Sprintf("tx:%s:%s", k, map[bool]string{true: "ok", false: "fail"}[res.Code == 0]))
			r.Count(fmt.Sprintf("txall:%s", map[bool]string{true: "ok", false: "fail"}[res.Code == 0]))
		}
		out = append(out, raw)
		if br.Panicked != nil {
			r.Count("rich:scratch-panic:" + br.Phase)
			if g.debug {
				fmt.Printf("rich %s b%d PANIC in %s: %.300v [%s]\n%s\n", o.Label, b+1, br.Phase, br.Panicked, strings.Join(raw.kinds, ","), br.Stack)
			}
			break
		}
		if err := w.ApplyUpdates(br.Updates); err != nil {
			r.Count("rich:cometbft-rejected-update")
			if g.debug {
				fmt.Printf("rich %s b%d UPDATES REJECTED: %v [%s] updates=%s\n", o.Label, b+1, err, strings.Join(raw.kinds, ","), c01Updates(br.Updates))
			}
			break
		}
	}
	// the hash of everything generated (byte-identical for equal seeds) and the kinds that never succeeded
	sum := hex.EncodeToString(hasher.Sum(nil))
	prev, _ := r.Extra["rich_history_hash"].(string)
	r.Extra["rich_history_hash"] = richSha(prev + sum)
	richNote(r, g)
	return out
}

func sortedKeys(m map[int]bool) []int {
	var l []int
	for k := range m {
		l = append(l, k)
	}
	sort.Ints(l)
	return l
}

// richNote maintains r.Extra["never_ok"] over all histories generated so far (from the histogram, sorted)
func richNote(r *Rec, g *richGen) {
	var keys []string
	for k := range r.Hist {
		if strings.HasPrefix(k, "tx:") && strings.HasSuffix(k, ":fail") {
			keys = append(keys, k)
		}
	}
	sort.Strings(keys)
	never := []string{}
	for _, k := range keys {
		kind := strings.TrimSuffix(strings.TrimPrefix(k, "tx:"), ":fail")
		if strings.HasPrefix(kind, "rollback:") || strings.HasPrefix(kind, "probe:") {
			continue // built to fail: a rolled-back transaction / a transaction that only a stale cache would accept
		}
		if r.Hist["tx:"+kind+":ok"] == 0 {
			never = append(never, kind)
		}
	}
	r.Extra["never_ok"] = never
	ok, fail := r.Hist["txall:ok"], r.Hist["txall:fail"]
	if ok+fail > 0 {
		r.Extra["tx_success_percent"] = 100 * ok / (ok + fail)
	}
}

// ---------------------------------------------------------------------------------------------------------------
// block environment: time jumps, absences (episodes long enough for inactivation), proposer, double-sign evidence

func (g *richGen) activeValidators() []stakingtypes.Validator {
	var out []stakingtypes.Validator
	for _, v := range g.w.app.CustomStakingKeeper.GetValidatorSet(g.ctx) {
		if v.Status == stakingtypes.Active {
			out = append(out, v)
		}
	}
	return out
}

func (g *richGen) blockEnvironment() {
	raw := g.raw
	switch x := g.rn(100); {
	case x < 8:
		raw.dt = time.Duration(25+g.rn(40)) * time.Second // voting ends / enactment delays / poll expiry
	case x < 13:
		raw.dt = time.Duration(130+g.rn(300)) * time.Second // UBI periods, collective claim periods, dApp bootstrap deadlines
	case x < 16:
		raw.dt = time.Duration(520+g.rn(700)) * time.Second // unstaking period, collective bonding time, inactivity windows
	case x < 17:
		raw.dt = time.Duration(3100+g.rn(2000)) * time.Second // spending claim expiry, liquidation period
	case x < 18 && g.chance(1, 2):
		raw.dt = time.Duration(2_600_000+g.rn(400_000)) * time.Second // the genesis UBI record's 30-day period, inflation periods
	case x < 18 || (x < 26 && len(g.w.app.MultiStakingKeeper.GetAllUndelegations(g.ctx)) > 0):
		raw.dt = time.Duration(605000+g.rn(100000)) * time.Second // unstaking period (one week is the least the chain accepts)
	}
	vs := g.w.CommitSet().Validators // the validators whose votes the next block's LastCommitInfo carries
	n := len(vs)
	if n == 0 {
		return
	}
	raw.proposer = g.rn(len(g.w.ProposerSet().Validators))
	active := g.activeValidators()
	// index of a validator of the consensus set by address
	inSet := func(addr []byte) int {
		for i, v := range vs {
			if string(v.Address) == string(addr) {
				return i
			}
		}
		return -1
	}
	// continue running absence episodes
	nAbsent := 0
	for i, v := range vs {
		if until, ok := g.absentUntil[hex.EncodeToString(v.Address)]; ok && g.b <= until {
			raw.absent[i] = true
			nAbsent++
		}
	}
	// start a new episode (2..8 blocks: 5 consecutive misses inactivate) while at least two validators keep signing
	if g.chance(1, 7) && len(active)-nAbsent >= 3 && n-nAbsent >= 3 {
		i := g.rn(n)
		if !raw.absent[i] {
			g.absentUntil[hex.EncodeToString(vs[i].Address)] = g.b + 1 + g.rn(7)
			raw.absent[i] = true
			nAbsent++
		}
	} else if g.chance(1, 8) && n-nAbsent >= 2 {
		i := g.rn(n)
		if !raw.absent[i] {
			raw.absent[i] = true
			nAbsent++
		}
	}
	if raw.absent[raw.proposer] {
		for i := range vs {
			if !raw.absent[i] {
				raw.proposer = i
				break
			}
		}
	}
	// double-sign evidence against an active validator while at least two others stay active; sometimes stale / unknown
	if g.chance(1, 14) && len(active) >= 3 && n >= 3 {
		v := active[g.rn(len(active))]
		addr := v.GetConsAddr().Bytes()
		if i := inSet(addr); i >= 0 {
			m := abci.Misbehavior{Type: abci.MisbehaviorType_DUPLICATE_VOTE, Validator: abci.Validator{Address: addr, Power: 1}, Height: g.w.height, Time: g.w.now, TotalVotingPower: int64(n)}
			switch g.rn(8) {
			case 0:
				m.Time = g.w.now.Add(-10000 * time.Hour)
				m.Height = g.w.height - 10_000_000
			case 1:
				m.Validator.Address = []byte(richSha(fmt.Sprintf("nobody-%d", g.b)))[:20]
			}
			raw.evidence = append(raw.evidence, m)
		}
	}
}

// sha256 of the bytes a hex string denotes, as hex (the recovery module's challenge of a proof)
func richShaHex(hexStr string) string {
	bz, err := hex.DecodeString(hexStr)
	if err != nil {
		panic(err)
	}
	h := sha256.Sum256(bz)
	return hex.EncodeToString(h[:])
}

// `harness RICH`: generator self-test — generates histories, replays each on a fresh replica (the replay must reproduce
// the scratch replica's app hashes), generates again from the same seed and compares the hash of everything generated,
// prints the per-kind success table.
func init() { props["RICH"] = runRich }

func runRich(r *Rec) {
	n, nb := 3, 40
	if r.Tier == "thorough" {
		n, nb = 12, 60
	}
	gen := func(rr *Rec) {
		for h := 0; h < n; h++ {
			o := RichOpts{NBlocks: nb, NAcc: 10, NVal: 4, Custody: h % 3, Tail: h%2 == 1, Label: fmt.Sprintf("h%d", h)}
			hist := richGenerate(rr, o)
			obs, _ := c01Run(hist, o.NAcc, o.NVal, 0)
			if len(obs) > 0 && obs[len(obs)-1].panicAt != "" {
				rr.Count("replay-panic:" + obs[len(obs)-1].panicAt)
				fmt.Printf("replay panic: %s\n", obs[len(obs)-1].panicVal)
			}
			rr.Count(fmt.Sprintf("blocks:%d", len(obs)))
		}
	}
	gen(r)
	r2 := NewRec(r.Prop, r.Tier, r.Seed)
	gen(r2)
	if r.Extra["rich_history_hash"] != r2.Extra["rich_history_hash"] {
		r.Fail("RICH/not-deterministic", fmt.Sprintf("%v vs %v", r.Extra["rich_history_hash"], r2.Extra["rich_history_hash"]), nil)
	}
	var keys []string
	for k := range r.Hist {
		keys = append(keys, k)
	}
	sort.Strings(keys)
	for _, k := range keys {
		fmt.Printf("%-60s %d\n", k, r.Hist[k])
	}
	fmt.Printf("never_ok: %v\nsuccess: %v%%\nhash: %v (second run %v)\n", r.Extra["never_ok"], r.Extra["tx_success_percent"], r.Extra["rich_history_hash"], r2.Extra["rich_history_hash"])
}
