package main

// C02 — transactions are authenticated by every signer and cannot be replayed.
//
// Level 2, REAL cryptography: every case is a real signed transaction pushed through the real ante chain
// (CheckTx and DeliverTx of the in-process SekaiApp). A case is generated SYMBOLICALLY (who signed which
// sign-bytes with which key, which public key is attached, what was edited after signing …); `realise` turns the
// symbolic description into real bytes (secp256k1 / Ethereum signatures, SignDoc / StdSignDoc / EIP-712 digest /
// RLP Ethereum transaction), and the very same symbolic description is the op line of the Lean model
// (lean/Sekai/Driver/Auth.lean). Both must answer alike (`ok` / `err:<class>`, account sequence, key on record).
//
// Oracle on the implementation (independent of the model): an accepted transaction was authorised by the owner of
// every named signer (fee payer included) for exactly these messages and this sequence (by construction of the case),
// fee/memo are the ones the owner signed, sequences move by exactly one, the fee payer pays the fee, nothing moves on
// rejection, no replay in the same or the next block, no key of a stranger on record after an accepted transaction.
// Listed defects → r.Known (fee/memo not bound on the Ethereum fallback, unbound key installed on an Ethereum-style
// account, EIP-712 and amino message-type confusion); regressions of the three fixed defects → r.Fail.
// The EIP-712 / amino "class" of each message type (what those sign bytes can tell apart) is recomputed from the real
// interface registry on every run and sent to the model.

import (
	"github.com/cosmos/gogoproto/proto"
	"bytes"
	"crypto/ecdsa"
	"crypto/sha256"
	"encoding/json"
	"fmt"
	"math/big"
	"os"
	"reflect"
	"sort"
	"strings"

	sdkmath "cosmossdk.io/math"
	simapp "github.com/KiraCore/sekai/app"
	kiraante "github.com/KiraCore/sekai/app/ante"
	kiratypes "github.com/KiraCore/sekai/types"
	custodytypes "github.com/KiraCore/sekai/x/custody/types"
	govtypes "github.com/KiraCore/sekai/x/gov/types"
	mstypes "github.com/KiraCore/sekai/x/multistaking/types"
	tokenstypes "github.com/KiraCore/sekai/x/tokens/types"
	abci "github.com/cometbft/cometbft/abci/types"
	tmproto "github.com/cometbft/cometbft/proto/tendermint/types"
	codectypes "github.com/cosmos/cosmos-sdk/codec/types"
	"github.com/cosmos/cosmos-sdk/crypto/keys/secp256k1"
	sdk "github.com/cosmos/cosmos-sdk/types"
	sdktx "github.com/cosmos/cosmos-sdk/types/tx"
	"github.com/cosmos/cosmos-sdk/types/tx/signing"
	"github.com/cosmos/cosmos-sdk/x/auth/migrations/legacytx"
	xauthsigning "github.com/cosmos/cosmos-sdk/x/auth/signing"
	authtypes "github.com/cosmos/cosmos-sdk/x/auth/types"
	banktypes "github.com/cosmos/cosmos-sdk/x/bank/types"
	"github.com/ethereum/go-ethereum/common"
	ethmath "github.com/ethereum/go-ethereum/common/math"
	ethtypes "github.com/ethereum/go-ethereum/core/types"
	ethcrypto "github.com/ethereum/go-ethereum/crypto"
	apitypes "github.com/ethereum/go-ethereum/signer/core/apitypes"
)

func init() { props["C02"] = func(r *Rec) { runC02(r); recFor(r, "C02") } }

// ---------------------------------------------------------------- symbolic vocabulary

type symAddr struct {
	Kind byte // 'c' cosmos address of key N, 'e' Ethereum address of key N, 'o' nobody's address
	N    int
}

func (a symAddr) String() string { return fmt.Sprintf("%c%d", a.Kind, a.N) }

type symMsg struct {
	Eth     bool
	Type    int // plain: 1 bank send, 2 gov register-identity-records, 3 multistaking set-compound-info, 4 custody create, 5 custody approve, 6 custody decline
	Content int
	Signers []symAddr
	// MsgEthereumTx
	Sender   symAddr
	Nonce    int
	Chain    int
	SignedBy int // -1: signature that does not recover
	TxType   int // 0 NativeSend
	// harness only (not part of the symbolic description): the message's self-declared Hash field is replaced by the
	// hash of the sender's last genuine Ethereum transaction (the field is not part of anything signed)
	ReuseHash bool
}

func (m symMsg) String() string {
	if m.Eth {
		by := "-"
		if m.SignedBy >= 0 {
			by = fmt.Sprint(m.SignedBy)
		}
		return fmt.Sprintf("x,%s,%d,%d,%d,%s,%d", m.Sender, m.Nonce, m.Chain, m.Content, by, m.TxType)
	}
	var ss []string
	for _, s := range m.Signers {
		ss = append(ss, s.String())
	}
	return fmt.Sprintf("p,%d,%d,%s", m.Type, m.Content, strings.Join(ss, "+"))
}

func (m symMsg) signers() []symAddr {
	if m.Eth {
		return []symAddr{m.Sender}
	}
	return m.Signers
}

type symInfo struct {
	Pk   int  // -1 none
	Mode byte // d a o
	Seq  int
}

type symCore struct {
	Name    string
	Msgs    []symMsg
	Memo    int
	Timeout int
	Fee     int
	Payer   *symAddr // fee payer (nil: the first signer pays)
	Infos   []symInfo
}

func (c *symCore) clone(name string) *symCore {
	d := *c
	d.Name = name
	d.Msgs = append([]symMsg{}, c.Msgs...)
	d.Infos = append([]symInfo{}, c.Infos...)
	return &d
}

func (c *symCore) line() string {
	var ms, is []string
	for _, m := range c.Msgs {
		ms = append(ms, m.String())
	}
	for _, i := range c.Infos {
		pk := "-"
		if i.Pk >= 0 {
			pk = fmt.Sprint(i.Pk)
		}
		is = append(is, fmt.Sprintf("%s,%c,%d", pk, i.Mode, i.Seq))
	}
	j := func(l []string) string {
		if len(l) == 0 {
			return "-"
		}
		return strings.Join(l, ";")
	}
	payer := "-"
	if c.Payer != nil {
		payer = c.Payer.String()
	}
	return fmt.Sprintf("auth core %s fee=%d payer=%s memo=%d to=%d msgs=%s infos=%s", c.Name, c.Fee, payer, c.Memo, c.Timeout, j(ms), j(is))
}

func (c *symCore) signers() []symAddr {
	var out []symAddr
	seen := map[symAddr]bool{}
	for _, m := range c.Msgs {
		for _, s := range m.signers() {
			if !seen[s] {
				seen[s] = true
				out = append(out, s)
			}
		}
	}
	if c.Payer != nil && !seen[*c.Payer] {
		out = append(out, *c.Payer)
	}
	return out
}

type symPayload struct {
	Kind  byte // D A E J
	Core  *symCore
	Chain int // D/A: cosmos chain number; E: Ethereum chain id
	Num   int
	Seq   int // A: sequence; E: nonce
	Idx   int // E: message index
	J     int
}

func (p symPayload) String() string {
	switch p.Kind {
	case 'D':
		return fmt.Sprintf("D,%s,%d,%d", p.Core.Name, p.Chain, p.Num)
	case 'A':
		return fmt.Sprintf("A,%s,%d,%d,%d", p.Core.Name, p.Chain, p.Num, p.Seq)
	case 'E':
		return fmt.Sprintf("E,%s,%d,%d,%d", p.Core.Name, p.Idx, p.Seq, p.Chain)
	}
	return fmt.Sprintf("J,%d", p.J)
}

type symSig struct {
	Key int
	Enc byte // c: 64-byte r‖s over sha256(bytes); e: 65-byte r‖s‖v over a 32-byte digest
	P   symPayload
}

func (s symSig) String() string { return fmt.Sprintf("%d,%c,%s", s.Key, s.Enc, s.P) }

func sigsLine(ss []symSig) string {
	if len(ss) == 0 {
		return "-"
	}
	var l []string
	for _, s := range ss {
		l = append(l, s.String())
	}
	return strings.Join(l, ";")
}

// ---------------------------------------------------------------- harness state

const (
	c02EthChain = 8789
	c02NKeys    = 44 // keys 0..43: 0 = validator/recipient, 42/43 = strangers (attackers), 1..41 = subjects
)

type c02 struct {
	fillAddr sdk.AccAddress // when set, fill() writes this address into every string / bytes field
	r               *Rec
	w               *World
	cfgN            int // ambient configuration counter (see end)
	priv            []*secp256k1.PrivKey
	ecd             []*ecdsa.PrivateKey
	ethHash         map[string]string // sender -> Hash field of its last genuine Ethereum transaction
	pkIdx           map[string]int
	caseNo          int
	inBlock         bool
	inBlk           int // txs in the open block
	pending         []c02Replay
	worlds          int
	eipWarned       bool
	eipClass        map[int]int // message type of this harness → EIP-712 class, read off the real registry
	eipCollisions   string
	aminoClass      map[int]int
	aminoCollisions string
	// pools of subject keys by state of their account
	pool map[string][]int // "freshC" "keyedC" "freshE" "keyedE"
}

type c02Replay struct {
	name string
	bz   []byte
	line string
	sig  string
}

func (h *c02) addr(a symAddr) sdk.AccAddress {
	switch a.Kind {
	case 'c':
		return sdk.AccAddress(h.priv[a.N].PubKey().Address())
	case 'e':
		return sdk.AccAddress(ethcrypto.PubkeyToAddress(h.ecd[a.N].PublicKey).Bytes())
	}
	s := sha256.Sum256([]byte(fmt.Sprintf("nobody-%d", a.N)))
	return sdk.AccAddress(s[:20])
}

func chainName(n int) string { return fmt.Sprintf("verif-%d", n) }

func (h *c02) newWorld() {
	h.worlds++
	h.priv, h.ecd, h.pkIdx = nil, nil, map[string]int{}
	for k := 0; k < c02NKeys; k++ {
		p := detKey(k).(*secp256k1.PrivKey)
		e, err := ethcrypto.ToECDSA(p.Key)
		if err != nil {
			panic(err)
		}
		h.priv = append(h.priv, p)
		h.ecd = append(h.ecd, e)
		h.pkIdx[string(p.PubKey().Bytes())] = k
	}
	h.w = NewWorld(WorldOpts{NAcc: c02NKeys, NVal: 1, SudoAccs: []int{0}, MutGenesis: func(w *World, gs simapp.GenesisState) {
		cdc := w.app.AppCodec()
		var ag authtypes.GenesisState
		cdc.MustUnmarshalJSON(gs[authtypes.ModuleName], &ag)
		accs, err := authtypes.UnpackAccounts(ag.Accounts)
		if err != nil {
			panic(err)
		}
		var bg banktypes.GenesisState
		cdc.MustUnmarshalJSON(gs[banktypes.ModuleName], &bg)
		for k := 0; k < c02NKeys; k++ {
			a := h.addr(symAddr{'e', k})
			accs = append(accs, authtypes.NewBaseAccountWithAddress(a))
			bg.Balances = append(bg.Balances, banktypes.Balance{Address: a.String(), Coins: defaultBalance()})
			bg.Supply = bg.Supply.Add(defaultBalance()...)
		}
		packed, err := authtypes.PackAccounts(accs)
		if err != nil {
			panic(err)
		}
		ag.Accounts = packed
		gs[authtypes.ModuleName] = cdc.MustMarshalJSON(&ag)
		gs[banktypes.ModuleName] = cdc.MustMarshalJSON(&bg)
	}})
	// first (empty) block: the check state sees genesis only after a commit
	h.w.Block(nil, BlockOpts{})
	h.inBlock = false
	h.pending = nil
	h.r.Op(fmt.Sprintf("auth reset chain=1 siglimit=%d", h.w.app.AccountKeeper.GetParams(h.w.ReadCtx()).TxSigLimit), "ok")
	h.eipClasses()
	ctx := h.w.ReadCtx()
	h.pool = map[string][]int{}
	for k := 0; k < c02NKeys; k++ {
		for _, kind := range []byte{'c', 'e'} {
			a := symAddr{kind, k}
			acc := h.w.app.AccountKeeper.GetAccount(ctx, h.addr(a))
			if acc == nil {
				panic("genesis account missing " + a.String())
			}
			h.r.Op(fmt.Sprintf("auth acc %s %s %d %d", a, h.pkName(acc), acc.GetSequence(), acc.GetAccountNumber()), "ok")
		}
		if k >= 1 && k < c02NKeys-2 {
			h.pool["freshC"] = append(h.pool["freshC"], k)
			h.pool["freshE"] = append(h.pool["freshE"], k)
		}
	}
	h.r.Rng.Shuffle(len(h.pool["freshC"]), func(i, j int) { p := h.pool["freshC"]; p[i], p[j] = p[j], p[i] })
	h.r.Rng.Shuffle(len(h.pool["freshE"]), func(i, j int) { p := h.pool["freshE"]; p[i], p[j] = p[j], p[i] })
}

func (h *c02) pkName(acc authtypes.AccountI) string {
	pk := acc.GetPubKey()
	if pk == nil {
		return "-"
	}
	if k, ok := h.pkIdx[string(pk.Bytes())]; ok {
		return fmt.Sprint(k)
	}
	return "?"
}

// ---- block control (per-transaction observation needs the ABCI calls spelled out)

func (h *c02) begin() {
	w := h.w
	w.height++
	w.now = w.now.Add(6e9)
	var votes []abci.VoteInfo
	for _, v := range w.valSet.Validators {
		votes = append(votes, abci.VoteInfo{Validator: abci.Validator{Address: v.Address, Power: v.VotingPower}, SignedLastBlock: true})
	}
	w.hdr = tmproto.Header{ChainID: chainID, Height: w.height, Time: w.now, ProposerAddress: w.valSet.Validators[0].Address}
	w.app.BeginBlock(abci.RequestBeginBlock{Header: w.hdr, LastCommitInfo: abci.CommitInfo{Votes: votes}})
	h.inBlock = true
	h.inBlk = 0
}

func (h *c02) end() {
	w := h.w
	// ambient configuration for the NEXT block: the token black/whitelist switches and the foreign-fee switch rotate
	// through all combinations. None of them concerns authentication (every transaction here moves and pays ukex, which
	// is never frozen): whatever they are set to, the verdicts must be the ones the model gives.
	h.cfgN++
	{
		ctx := h.ctx()
		p := w.app.CustomGovKeeper.GetNetworkProperties(ctx)
		p.EnableTokenBlacklist, p.EnableTokenWhitelist, p.EnableForeignFeePayments = h.cfgN%4 == 0 || h.cfgN%4 == 2, h.cfgN%4 >= 2, h.cfgN%8 < 4
		if err := w.app.CustomGovKeeper.SetNetworkProperties(ctx, p); err != nil {
			panic(err)
		}
		h.r.Count(fmt.Sprintf("ambient:bl=%v,wl=%v,foreign=%v", p.EnableTokenBlacklist, p.EnableTokenWhitelist, p.EnableForeignFeePayments))
	}
	eb := w.app.EndBlock(abci.RequestEndBlock{Height: w.height})
	if err := w.ApplyUpdates(eb.ValidatorUpdates); err != nil {
		panic(err)
	}
	w.app.Commit()
	h.inBlock = false
}

func (h *c02) ctx() sdk.Context { return h.w.app.NewContext(false, h.w.hdr) }

// ---------------------------------------------------------------- realisation: symbolic → real bytes

func (h *c02) realMsg(m symMsg) sdk.Msg {
	if m.Eth {
		to := common.BytesToAddress(h.addr(symAddr{'c', 0}))
		val := new(big.Int).Mul(big.NewInt(int64(m.Content)), big.NewInt(1_000_000_000_000))
		raw := ethtypes.NewTx(&ethtypes.LegacyTx{Nonce: uint64(m.Nonce), To: &to, Value: val, Gas: 21000, GasPrice: big.NewInt(1)})
		if m.SignedBy >= 0 {
			s, err := ethtypes.SignTx(raw, ethtypes.NewEIP155Signer(big.NewInt(int64(m.Chain))), h.ecd[m.SignedBy])
			if err != nil {
				panic(err)
			}
			raw = s
		}
		tt := "NativeSend"
		if m.TxType != 0 {
			tt = fmt.Sprintf("Other%d", m.TxType)
		}
		msg := &tokenstypes.MsgEthereumTx{TxType: tt, Sender: h.addr(m.Sender).String()}
		if err := msg.FromEthereumTx(raw); err != nil {
			panic(err)
		}
		if h.ethHash == nil {
			h.ethHash = map[string]string{}
		}
		if m.Sender.Kind == 'e' && m.SignedBy == m.Sender.N {
			h.ethHash[m.Sender.String()] = msg.Hash // a transaction really signed by the sender's key
		} else if m.ReuseHash {
			if old, ok := h.ethHash[m.Sender.String()]; ok {
				msg.Hash = old
			}
		}
		return msg
	}
	from := h.addr(m.Signers[0])
	switch m.Type {
	case 1:
		return banktypes.NewMsgSend(from, h.addr(symAddr{'c', 0}), sdk.NewCoins(sdk.NewInt64Coin("ukex", int64(m.Content))))
	case 2:
		return &govtypes.MsgRegisterIdentityRecords{Address: from, Infos: []govtypes.IdentityInfoEntry{{Key: fmt.Sprintf("k%d", m.Content), Info: "v"}}}
	case 3:
		return &mstypes.MsgSetCompoundInfo{Sender: from.String(), AllDenom: false, CompoundDenoms: []string{fmt.Sprintf("d%d", m.Content)}}
	case 5:
		return &custodytypes.MsgApproveCustodyTransaction{FromAddress: from, TargetAddress: h.addr(symAddr{'c', 0}), Hash: fmt.Sprintf("h%d", m.Content)}
	case 6:
		return &custodytypes.MsgDeclineCustodyTransaction{FromAddress: from, TargetAddress: h.addr(symAddr{'c', 0}), Hash: fmt.Sprintf("h%d", m.Content)}
	case 4:
		return &custodytypes.MsgCreateCustodyRecord{Address: from, CustodySettings: custodytypes.CustodySettings{}, NewKey: fmt.Sprintf("n%d", m.Content)}
	}
	panic("unknown msg type")
}

func (h *c02) realMode(m byte) signing.SignMode {
	switch m {
	case 'd':
		return signing.SignMode_SIGN_MODE_DIRECT
	case 'a':
		return signing.SignMode_SIGN_MODE_LEGACY_AMINO_JSON
	}
	return signing.SignMode_SIGN_MODE_TEXTUAL
}

// protobuf parts of core c: TxBody bytes and AuthInfo bytes (a nil public key stays nil — TxBuilder cannot do that)
func (h *c02) parts(c *symCore) (bodyBz, authBz []byte) {
	body := &sdktx.TxBody{}
	for _, m := range c.Msgs {
		any, err := codectypes.NewAnyWithValue(h.realMsg(m))
		if err != nil {
			panic(err)
		}
		body.Messages = append(body.Messages, any)
	}
	if c.Memo != 0 {
		body.Memo = fmt.Sprintf("memo-%d", c.Memo)
	}
	if c.Timeout != 0 {
		body.TimeoutHeight = uint64(1_000_000 + c.Timeout)
	}
	auth := &sdktx.AuthInfo{Fee: &sdktx.Fee{Amount: ukex(int64(c.Fee)), GasLimit: 200000}}
	if c.Payer != nil {
		auth.Fee.Payer = h.addr(*c.Payer).String()
	}
	for _, in := range c.Infos {
		si := &sdktx.SignerInfo{Sequence: uint64(in.Seq), ModeInfo: &sdktx.ModeInfo{Sum: &sdktx.ModeInfo_Single_{Single: &sdktx.ModeInfo_Single{Mode: h.realMode(in.Mode)}}}}
		if in.Pk >= 0 {
			any, err := codectypes.NewAnyWithValue(h.priv[in.Pk].PubKey())
			if err != nil {
				panic(err)
			}
			si.PublicKey = any
		}
		auth.SignerInfos = append(auth.SignerInfos, si)
	}
	var err error
	if bodyBz, err = body.Marshal(); err != nil {
		panic(err)
	}
	if authBz, err = auth.Marshal(); err != nil {
		panic(err)
	}
	return
}

// raw transaction bytes of core c with the given signature blobs
func (h *c02) raw(c *symCore, blobs [][]byte) []byte {
	bodyBz, authBz := h.parts(c)
	if blobs == nil {
		blobs = [][]byte{}
	}
	bz, err := (&sdktx.TxRaw{BodyBytes: bodyBz, AuthInfoBytes: authBz, Signatures: blobs}).Marshal()
	if err != nil {
		panic(err)
	}
	return bz
}

// own copy of GenEIP712SignBytesFromMsg with the Ethereum chain id as a parameter (checked against the real one)
func eip712Digest(msg sdk.Msg, nonce uint64, ethChain int64) []byte {
	msgName := kiratypes.MsgType(msg)
	msgData, err := json.Marshal(msg)
	if err != nil {
		panic(err)
	}
	types := apitypes.Types{
		"EIP712Domain": {{Name: "name", Type: "string"}, {Name: "version", Type: "string"}, {Name: "chainId", Type: "uint256"}},
		msgName:        {{Name: "param", Type: "string"}, {Name: "nonce", Type: "uint256"}},
	}
	td := apitypes.TypedData{Types: types, PrimaryType: msgName,
		Domain:  apitypes.TypedDataDomain{Name: "Kira", Version: "1", ChainId: ethmath.NewHexOrDecimal256(ethChain)},
		Message: apitypes.TypedDataMessage{"param": string(msgData), "nonce": ethmath.NewHexOrDecimal256(int64(nonce))}}
	th, err := td.HashStruct(td.PrimaryType, td.Message)
	if err != nil {
		panic(err)
	}
	ds, err := td.HashStruct("EIP712Domain", td.Domain.Map())
	if err != nil {
		panic(err)
	}
	return ethcrypto.Keccak256([]byte(fmt.Sprintf("\x19\x01%s%s", string(ds), string(th))))
}

func (h *c02) payloadBytes(p symPayload) (bz []byte) {
	defer func() {
		if r := recover(); r != nil { // e.g. MsgEthereumTx.GetSignBytes panics: no such sign bytes exist
			bz = []byte(fmt.Sprintf("no-sign-bytes:%v", p))
		}
	}()
	handler := h.w.enc.TxConfig.SignModeHandler()
	switch p.Kind {
	case 'D':
		bodyBz, authBz := h.parts(p.Core)
		bz, err := (&sdktx.SignDoc{BodyBytes: bodyBz, AuthInfoBytes: authBz, ChainId: chainName(p.Chain), AccountNumber: uint64(p.Num)}).Marshal()
		if err != nil {
			panic(err)
		}
		return bz
	case 'A':
		blobs := make([][]byte, len(p.Core.Infos))
		for i := range blobs {
			blobs[i] = []byte{}
		}
		tx, err := h.w.enc.TxConfig.TxDecoder()(h.raw(p.Core, blobs))
		if err != nil {
			panic(err)
		}
		bz, err := handler.GetSignBytes(signing.SignMode_SIGN_MODE_LEGACY_AMINO_JSON, xauthsigning.SignerData{Address: "signer", ChainID: chainName(p.Chain), AccountNumber: uint64(p.Num), Sequence: uint64(p.Seq)}, tx)
		if err != nil {
			panic(err)
		}
		return bz
	case 'E':
		msg := h.realMsg(p.Core.Msgs[p.Idx])
		d := eip712Digest(msg, uint64(p.Seq), int64(p.Chain))
		if p.Chain == c02EthChain {
			// sign what the implementation's own exported function says the EIP-712 digest is
			ref, err := kiraante.GenEIP712SignBytesFromMsg(msg, uint64(p.Seq))
			if err != nil {
				panic(err)
			}
			if !bytes.Equal(ref, d) && !h.eipWarned {
				h.eipWarned = true
				h.r.Fail("C02/eip712/sign-bytes-changed", "GenEIP712SignBytesFromMsg no longer computes keccak(0x1901 ‖ domain{Kira,1,8789} ‖ struct{param: JSON(msg), nonce}) — the model's `eip712 (msg, nonce, chain)` payload no longer describes it", nil)
			}
			return ref
		}
		return d
	}
	return []byte(fmt.Sprintf("junk-%d", p.J))
}

func (h *c02) blob(s symSig) []byte {
	bz := h.payloadBytes(s.P)
	if s.Enc == 'c' {
		sig, err := h.priv[s.Key].Sign(bz)
		if err != nil {
			panic(err)
		}
		return sig
	}
	d := bz
	if len(d) != 32 {
		d = ethcrypto.Keccak256(bz)
	}
	sig, err := ethcrypto.Sign(d, h.ecd[s.Key])
	if err != nil {
		panic(err)
	}
	sig[ethcrypto.RecoveryIDOffset] += 27
	return sig
}

func (h *c02) txBytes(c *symCore, sigs []symSig) []byte {
	var blobs [][]byte
	for _, s := range sigs {
		blobs = append(blobs, h.blob(s))
	}
	return h.raw(c, blobs)
}

// ---------------------------------------------------------------- observation

type c02Snap struct {
	seq  uint64
	pk   string
	num  uint64
	bal  sdkmath.Int
	have bool
}

func (h *c02) snap(ctx sdk.Context, a symAddr) c02Snap {
	ad := h.addr(a)
	acc := h.w.app.AccountKeeper.GetAccount(ctx, ad)
	s := c02Snap{bal: h.w.app.BankKeeper.GetBalance(ctx, ad, "ukex").Amount}
	if acc != nil {
		s.have, s.seq, s.num, s.pk = true, acc.GetSequence(), acc.GetAccountNumber(), h.pkName(acc)
	}
	return s
}

func (s c02Snap) obs() string {
	if !s.have {
		return "none"
	}
	return fmt.Sprintf("seq=%d pk=%s num=%d", s.seq, s.pk, s.num)
}

func classify(codespace string, code uint32) string {
	if code == 0 {
		return "ok"
	}
	if codespace == "sdk" {
		switch code {
		case 4:
			return "err:unauth"
		case 32:
			return "err:seq"
		case 8:
			return "err:nopk"
		case 9:
			return "err:unknown"
		case 14:
			return "err:toomany"
		case 15:
			return "err:nosig"
		}
	}
	if codespace == "undefined" && code == 111222 {
		return "err:panic"
	}
	if codespace == "undefined" && code == 1 {
		return "err:invalid"
	}
	return fmt.Sprintf("err:other:%s/%d", codespace, code)
}

// ---------------------------------------------------------------- one case

type c02Case struct {
	label    string     // kind/mode/pk/state/strategy
	aux      []*symCore // other cores referenced by payloads
	core     *symCore   // the submitted transaction
	sigs     []symSig
	owners   map[symAddr]int // named signer → key that controls it (subjects only)
	intended *symCore        // what the owners authorised for their current sequences (nil: nothing)
	ethPath  bool            // authentication expected through the Ethereum fallback (EIP-712 / raw Ethereum tx)
	mode     string
	unsigned map[symAddr]bool // named signers whose owner signed NOTHING for this transaction
	known    string           // listed finding this case is the witness of (when it is accepted although the messages were not authorised)
}

func coreEqualMsgs(a, b *symCore) bool {
	if len(a.Msgs) != len(b.Msgs) {
		return false
	}
	for i := range a.Msgs {
		if a.Msgs[i].String() != b.Msgs[i].String() {
			return false
		}
	}
	return true
}

// run delivers one case; returns whether the ante handler accepted it
func (h *c02) run(c *c02Case) bool {
	r := h.r
	if !h.inBlock {
		h.begin()
		h.replayPending()
	}
	var replay []string
	for _, a := range c.aux {
		r.Op(a.line(), "ok")
		replay = append(replay, a.line())
	}
	r.Op(c.core.line(), "ok")
	txLine := fmt.Sprintf("auth tx %s %s", c.core.Name, sigsLine(c.sigs))
	replay = append(replay, c.core.line(), txLine)
	bz := h.txBytes(c.core, c.sigs)

	signers := c.core.signers()
	watch := append([]symAddr{}, signers...)
	watch = append(watch, symAddr{'c', 0}, symAddr{'c', c02NKeys - 1}, symAddr{'e', c02NKeys - 1})
	before := map[symAddr]c02Snap{}
	for _, a := range watch {
		before[a] = h.snap(h.ctx(), a)
	}
	for _, a := range signers {
		r.Op("auth obs "+a.String(), before[a].obs())
		replay = append(replay, "auth obs "+a.String())
	}

	chk := h.w.app.CheckTx(abci.RequestCheckTx{Tx: bz, Type: abci.CheckTxType_New})
	dlv := h.w.app.DeliverTx(abci.RequestDeliverTx{Tx: bz})
	h.inBlk++
	after := map[symAddr]c02Snap{}
	for _, a := range watch {
		after[a] = h.snap(h.ctx(), a)
	}
	verdict := classify(chk.Codespace, chk.Code)
	accepted := chk.Code == 0
	if os.Getenv("C02_DEBUG") != "" {
		fmt.Printf("%s %s | %s | check: %s | deliver(%d): %s\n", c.core.Name, c.label, verdict, chk.Log, dlv.Code, dlv.Log)
	}
	// DeliverTx: the ante handler passed iff the first signer's sequence moved (IncrementSequence is the last decorator)
	dAccepted := len(signers) > 0 && after[signers[0]].have && after[signers[0]].seq == before[signers[0]].seq+1
	if dAccepted != accepted {
		r.Fail("C02/checktx-delivertx/disagree", fmt.Sprintf("%s: CheckTx says %s, DeliverTx code %s/%d log %q, sequence %d→%d", c.label, verdict, dlv.Codespace, dlv.Code, dlv.Log, before[signers[0]].seq, after[signers[0]].seq), replay)
	} else if !accepted && classify(dlv.Codespace, dlv.Code) != verdict {
		r.Fail("C02/checktx-delivertx/disagree", fmt.Sprintf("%s: CheckTx %s vs DeliverTx %s", c.label, verdict, classify(dlv.Codespace, dlv.Code)), replay)
	}
	r.Op(txLine, verdict)
	for _, a := range signers {
		r.Op("auth obs "+a.String(), after[a].obs())
	}
	parts := strings.Split(c.label, "/")
	short := strings.SplitN(verdict, ":", 3)
	vshort := short[0]
	if len(short) > 1 {
		vshort = short[0] + ":" + short[1]
	}
	r.Count("mode " + parts[1] + ":" + vshort)
	r.Count("strategy " + parts[len(parts)-1] + ":" + vshort)
	r.Count("state " + parts[3] + ":" + vshort)
	r.Count("kind " + parts[0] + ":" + vshort)
	r.Case(c.label+"/"+verdict, true)

	// ---------------- oracle on the implementation
	fail := func(key, what string) { r.Fail(key, c.label+": "+what, replay) }
	if !accepted {
		for _, a := range watch {
			b, f := before[a], after[a]
			if b.seq != f.seq || b.pk != f.pk || !b.bal.Equal(f.bal) || b.have != f.have {
				fail("C02/rejected-tx/left-a-trace", fmt.Sprintf("account %s changed by a rejected transaction: %s bal %s → %s bal %s", a, b.obs(), b.bal, f.obs(), f.bal))
			}
		}
		return false
	}
	// accepted ⇒ every named signer's owner authorised exactly these messages for the current sequence
	for _, a := range signers {
		if !c.unsigned[a] {
			continue
		}
		what := fmt.Sprintf("accepted although the owner of signer %s signed nothing: %s bal %s → %s bal %s", a, before[a].obs(), before[a].bal, after[a].obs(), after[a].bal)
		if c.core.Payer != nil && *c.core.Payer == a && c.core.Msgs[0].Eth {
			// fixed by 4a7b9fe (loop continues after an Ethereum-style signer) + 515bdfd (a MsgEthereumTx authenticates its sender only)
			fail("C02/fee-payer/not-authenticated-after-ethereum-signer", what)
		} else {
			fail("C02/"+c.mode+"/accepted-without-signers-authorisation", what)
		}
	}
	if (c.intended == nil || !coreEqualMsgs(c.intended, c.core)) && c.known != "" {
		coll := h.eipCollisions
		if c.mode == "amino" {
			coll = h.aminoCollisions
		}
		r.Known(c.known, c.label+": accepted although the signer signed a DECLINE, not this APPROVE message; "+coll)
	} else if c.intended == nil || !coreEqualMsgs(c.intended, c.core) {
		fail("C02/"+c.mode+"/accepted-without-signers-authorisation", fmt.Sprintf("accepted although the owner(s) of %v never signed these messages for the current sequence (DeliverTx code %d)", signers, dlv.Code))
	} else if c.intended.Fee != c.core.Fee || c.intended.Memo != c.core.Memo || c.intended.Timeout != c.core.Timeout {
		what := fmt.Sprintf("fee/memo/timeout changed after signing (signed fee=%d memo=%d timeout=%d, submitted fee=%d memo=%d timeout=%d) and the transaction was accepted; signer paid %s ukex",
			c.intended.Fee, c.intended.Memo, c.intended.Timeout, c.core.Fee, c.core.Memo, c.core.Timeout, before[signers[0]].bal.Sub(after[signers[0]].bal))
		if c.ethPath && c.mode == "eip712" {
			r.Known("C02/eip712/fee-and-memo-not-bound", c.label+": "+what)
		} else if c.ethPath && c.mode == "raweth" {
			r.Known("C02/ethereum-tx/fee-and-memo-not-bound", c.label+": "+what)
		} else {
			fail("C02/"+c.mode+"/fee-or-memo-not-bound", what)
		}
	}
	for i, a := range signers {
		b, f := before[a], after[a]
		if f.seq != b.seq+1 {
			fail("C02/sequence/not-incremented-by-one", fmt.Sprintf("signer %s sequence %d → %d", a, b.seq, f.seq))
		}
		if i < len(c.core.Infos) && uint64(c.core.Infos[i].Seq) != b.seq {
			fail("C02/sequence/field-not-checked", fmt.Sprintf("signer %s has sequence %d, transaction says %d", a, b.seq, c.core.Infos[i].Seq))
		}
		if f.pk != b.pk && !c.unsigned[a] {
			own, ok := c.owners[a]
			if b.pk != "-" {
				fail("C02/setpubkey/key-replaced", fmt.Sprintf("key on record of %s changed %s → %s", a, b.pk, f.pk))
			} else if !ok || f.pk != fmt.Sprint(own) {
				what := fmt.Sprintf("key %s, which does not control %s, is on record for it after an accepted transaction", f.pk, a)
				if c.ethPath && a.Kind == 'e' {
					r.Known("C02/setpubkey/unbound-key-installed-on-eth-account", c.label+": "+what)
				} else {
					fail("C02/setpubkey/stranger-key-installed", what)
				}
			}
		}
	}
	// money: the fee payer (default: first signer) pays the fee; a successful bank send / NativeSend moves exactly the amount
	payer := signers[0]
	if c.core.Payer != nil {
		payer = *c.core.Payer
	}
	for _, a := range signers {
		var out int64
		if a == payer {
			out += int64(c.core.Fee)
		}
		if dlv.Code == 0 {
			for _, m := range c.core.Msgs {
				if ((m.Eth && m.TxType == 0) || (!m.Eth && m.Type == 1)) && m.signers()[0] == a {
					out += int64(m.Content)
				}
			}
		}
		if dlv.Code == 0 && a == (symAddr{'c', 0}) {
			// c0 is the recipient of every send: when it signs itself, what it sends comes straight back
			for _, m := range c.core.Msgs {
				if (m.Eth && m.TxType == 0) || (!m.Eth && m.Type == 1) {
					out -= int64(m.Content)
				}
			}
		}
		if d := before[a].bal.Sub(after[a].bal); !d.Equal(sdkmath.NewInt(out)) {
			fail("C02/balance/unexpected-debit", fmt.Sprintf("signer %s paid %s, expected %d (DeliverTx code %d)", a, d, out, dlv.Code))
		}
	}
	for _, a := range []symAddr{{'c', c02NKeys - 1}, {'e', c02NKeys - 1}} {
		isSigner := false
		for _, sg := range signers {
			isSigner = isSigner || sg == a
		}
		if !isSigner && (!before[a].bal.Equal(after[a].bal) || before[a].seq != after[a].seq) {
			fail("C02/bystander/changed", fmt.Sprintf("bystander %s changed", a))
		}
	}
	// replay in the same block (CheckTx and DeliverTx)
	chk2 := h.w.app.CheckTx(abci.RequestCheckTx{Tx: bz, Type: abci.CheckTxType_New})
	dlv2 := h.w.app.DeliverTx(abci.RequestDeliverTx{Tx: bz})
	r.Op(txLine, classify(chk2.Codespace, chk2.Code))
	r.Count("replay same-block:" + classify(chk2.Codespace, chk2.Code))
	if chk2.Code == 0 || dlv2.Code == 0 || h.snap(h.ctx(), signers[0]).seq != after[signers[0]].seq {
		fail("C02/replay/accepted-in-same-block", fmt.Sprintf("the accepted transaction was accepted again (CheckTx %d, DeliverTx %d)", chk2.Code, dlv2.Code))
	}
	h.pending = append(h.pending, c02Replay{name: c.core.Name, bz: bz, line: txLine, sig: c.label})
	return true
}

// replays, at the start of a block, every transaction accepted in the previous block
func (h *c02) replayPending() {
	for _, p := range h.pending {
		chk := h.w.app.CheckTx(abci.RequestCheckTx{Tx: p.bz, Type: abci.CheckTxType_New})
		dlv := h.w.app.DeliverTx(abci.RequestDeliverTx{Tx: p.bz})
		h.r.Op(p.line, classify(chk.Codespace, chk.Code))
		h.r.Count("replay next-block:" + classify(chk.Codespace, chk.Code))
		h.r.Case(p.sig+"/replay-next-block", true)
		if chk.Code == 0 || dlv.Code == 0 {
			h.r.Fail("C02/replay/accepted-in-next-block", fmt.Sprintf("%s: accepted again in the next block (CheckTx %d, DeliverTx %d)", p.sig, chk.Code, dlv.Code), []string{p.line, p.line})
		}
	}
	h.pending = nil
}

// ---------------------------------------------------------------- case generator

var (
	c02Kinds  = []string{"send", "gov", "ms", "custody", "ethtx", "multi", "two", "payer", "ethpayer", "approve"}
	c02Modes  = []string{"direct", "amino", "eip712", "raweth"}
	c02Pks    = []string{"none", "own", "wrongC", "wrongE"}
	c02States = []string{"freshC", "keyedC", "freshE", "keyedE"}
	c02Strats = []string{"honest", "wrongkey", "stale-seq", "future-seq", "stale-payload", "seq-field-only", "wrong-chain", "wrong-accnum", "lifted", "fee-edit", "memo-edit", "pk-edit", "mode-edit", "bad-enc", "unsigned-2nd", "swapped-sigs", "unsupported-mode", "second-msg-edit", "type-swap", "eth-hash-reuse"}
)

func c02Applicable(kind, mode, pk, state, strat string) bool {
	if mode == "raweth" && kind != "ethtx" && kind != "ethpayer" {
		return false
	}
	if (kind == "ethtx" || kind == "ethpayer") && mode == "eip712" {
		return false // the MsgEthereumTx branch never looks at the outer signature: same as raweth
	}
	if (strat == "unsigned-2nd" || strat == "swapped-sigs") && kind != "two" && kind != "payer" && kind != "ethpayer" {
		return false
	}
	if strat == "type-swap" && kind != "approve" {
		return false
	}
	if strat == "second-msg-edit" && kind != "multi" {
		return false
	}
	if strat == "wrong-accnum" && (mode == "eip712" || mode == "raweth") {
		return false // no account number in those sign bytes: nothing to get wrong
	}
	if strat == "mode-edit" && (mode == "eip712" || mode == "raweth") {
		return false
	}
	if (strat == "bad-enc" || strat == "lifted") && mode == "raweth" {
		return false // the signed object IS the embedded Ethereum transaction; lifting it under another sender is `wrongkey`
	}
	if (strat == "stale-seq" || strat == "stale-payload") && (state == "freshC" || state == "freshE") {
		return false // sequence 0 has no predecessor
	}
	return true
}

// take a subject key whose account is in the requested state (makes one by an honest transaction when needed)
func (h *c02) take(state string, avoid int) (int, bool) {
	p := h.pool[state]
	for i, k := range p {
		if k != avoid {
			h.pool[state] = append(append([]int{}, p[:i]...), p[i+1:]...)
			return k, true
		}
	}
	return 0, false
}

func (h *c02) ensure(state string, n int) bool {
	fresh := "freshC"
	if strings.HasSuffix(state, "E") {
		fresh = "freshE"
	}
	if strings.HasPrefix(state, "fresh") {
		return len(h.pool[state]) >= n
	}
	for len(h.pool[state]) < n {
		if len(h.pool[fresh]) <= 3 {
			return false
		}
		k, _ := h.take(fresh, -1)
		mode := "direct"
		if fresh == "freshE" {
			mode = "eip712"
		}
		c := h.build("send", mode, "own", fresh, "honest", k, -1)
		c.label = "setup/" + mode + "/own/" + fresh + "/honest"
		if !h.run(c) {
			h.r.Fail("C02/honest/rejected", "an honest "+mode+" transaction of a fresh account was rejected (setup)", []string{c.core.line()})
			return false
		}
		h.pool[state] = append(h.pool[state], k)
	}
	return true
}

func (h *c02) acct(a symAddr) c02Snap {
	if h.inBlock {
		return h.snap(h.ctx(), a)
	}
	return h.snap(h.w.ReadCtx(), a)
}

// build the symbolic case. k = subject key (owner of the first signer), k2 = second subject (kind two)
func (h *c02) build(kind, mode, pk, state, strat string, k, k2 int) *c02Case {
	h.caseNo++
	name := fmt.Sprintf("t%d", h.caseNo)
	rng := h.r.Rng
	akind := byte('c')
	if strings.HasSuffix(state, "E") {
		akind = 'e'
	}
	a := symAddr{akind, k}
	X1, X2 := c02NKeys-1, c02NKeys-2
	sn := h.acct(a)
	seq, num := int(sn.seq), int(sn.num)
	amount := 1000 + rng.Intn(9000)
	fee := 200 + 10*rng.Intn(5)
	memo := rng.Intn(3)
	timeout := rng.Intn(2) * (1 + rng.Intn(5))
	ethPath := akind == 'e'

	mk := func(t int, s symAddr, content int) symMsg {
		return symMsg{Type: t, Content: content, Signers: []symAddr{s}}
	}
	var msgs []symMsg
	switch kind {
	case "send":
		msgs = []symMsg{mk(1, a, amount)}
	case "gov":
		msgs = []symMsg{mk(2, a, amount)}
	case "ms":
		msgs = []symMsg{mk(3, a, amount)}
	case "custody":
		msgs = []symMsg{mk(4, a, amount)}
	case "multi":
		msgs = []symMsg{mk(1, a, amount), mk(2, a, amount+1)}
	case "two":
		msgs = []symMsg{mk(1, a, amount), mk(1, symAddr{akind, k2}, amount+1)}
	case "payer":
		msgs = []symMsg{mk(1, a, amount)}
	case "approve":
		msgs = []symMsg{mk(5, a, amount)}
	case "ethtx", "ethpayer":
		by := X2 // under a cosmos signature the embedded Ethereum signature is irrelevant
		if mode == "raweth" {
			by = k
		}
		msgs = []symMsg{{Eth: true, Sender: a, Nonce: seq, Chain: c02EthChain, Content: amount, SignedBy: by}}
	}
	pkOf := func(owner int) int {
		switch pk {
		case "none":
			return -1
		case "own":
			return owner
		case "wrongC":
			return X1
		}
		return X2
	}
	m := byte('d')
	if mode == "amino" {
		m = 'a'
	}
	core := &symCore{Name: name, Msgs: msgs, Memo: memo, Timeout: timeout, Fee: fee}
	owners := map[symAddr]int{a: k}
	core.Infos = []symInfo{{Pk: pkOf(k), Mode: m, Seq: seq}}
	var sn2 c02Snap
	var a2 symAddr
	twoSigners := kind == "two" || kind == "payer" || kind == "ethpayer"
	mode2 := mode
	if twoSigners {
		a2 = symAddr{akind, k2}
		m2 := m
		if kind != "two" { // a separate fee payer: always a cosmos-style account, signs DIRECT unless the mode is amino
			a2 = symAddr{'c', k2}
			core.Payer = &a2
			if mode != "amino" {
				mode2, m2 = "direct", 'd'
			}
		}
		sn2 = h.acct(a2)
		owners[a2] = k2
		core.Infos = append(core.Infos, symInfo{Pk: pkOf(k2), Mode: m2, Seq: int(sn2.seq)})
	}
	// honest signature of `key` for signer index i over core c
	var signM func(mode string, key int, c *symCore, i int, chain, accnum, sq int) symSig
	sign := func(key int, c *symCore, i int, chain, accnum, sq int) symSig {
		return signM(mode, key, c, i, chain, accnum, sq)
	}
	signM = func(mode string, key int, c *symCore, i int, chain, accnum, sq int) symSig {
		switch mode {
		case "direct":
			return symSig{Key: key, Enc: 'c', P: symPayload{Kind: 'D', Core: c, Chain: chain, Num: accnum}}
		case "amino":
			return symSig{Key: key, Enc: 'c', P: symPayload{Kind: 'A', Core: c, Chain: chain, Num: accnum, Seq: sq}}
		case "eip712":
			ec := c02EthChain
			if chain != 1 {
				ec = 1
			}
			return symSig{Key: key, Enc: 'e', P: symPayload{Kind: 'E', Core: c, Idx: 0, Seq: sq, Chain: ec}}
		}
		return symSig{Key: X1, Enc: 'c', P: symPayload{Kind: 'J', J: rng.Intn(1000)}} // raweth: the outer signature is never looked at
	}
	c := &c02Case{label: strings.Join([]string{kind, mode, pk, state, strat}, "/"), core: core, owners: owners, ethPath: ethPath, mode: mode}
	second := func(cc *symCore) symSig { return signM(mode2, k2, cc, 1, 1, int(sn2.num), int(sn2.seq)) }
	all := func(first symSig, cc *symCore) []symSig {
		if twoSigners {
			return []symSig{first, second(cc)}
		}
		return []symSig{first}
	}
	setEth := func(cc *symCore, f func(*symMsg)) {
		if kind == "ethtx" || kind == "ethpayer" {
			f(&cc.Msgs[0])
		}
	}
	switch strat {
	case "honest":
		c.sigs = all(sign(k, core, 0, 1, num, seq), core)
		c.intended = core
	case "wrongkey": // a stranger signs (attached key as chosen: "own" = victim's key with the attacker's signature)
		if mode == "raweth" {
			setEth(core, func(m *symMsg) { m.SignedBy = X1 })
		}
		c.sigs = all(sign(X1, core, 0, 1, num, seq), core)
	case "eth-hash-reuse": // as "wrongkey", and the message labels itself with the hash of the victim's last genuine transaction
		if mode == "raweth" {
			setEth(core, func(m *symMsg) { m.SignedBy = X1; m.ReuseHash = true })
		}
		c.sigs = all(sign(X1, core, 0, 1, num, seq), core)
	case "stale-seq", "future-seq": // the owner's own signature for another sequence (field and payload)
		d := 1
		if strat == "stale-seq" {
			d = -1
		}
		core.Infos[0].Seq = seq + d
		setEth(core, func(m *symMsg) {
			if mode == "raweth" {
				m.Nonce = seq + d
			}
		})
		c.sigs = all(sign(k, core, 0, 1, num, seq+d), core)
	case "stale-payload": // sequence field current, signature is the owner's for the previous sequence
		old := core.clone(name + "a")
		old.Infos[0].Seq = seq - 1
		setEth(old, func(m *symMsg) {
			if mode == "raweth" {
				m.Nonce = seq - 1
			}
		})
		if mode == "raweth" {
			core.Msgs[0].Nonce = seq - 1
		}
		c.aux = append(c.aux, old)
		c.sigs = all(sign(k, old, 0, 1, num, seq-1), core)
	case "seq-field-only": // signature is right for the current sequence, the sequence field of the signer info is not
		good := core.clone(name + "a")
		c.aux = append(c.aux, good)
		core.Infos[0].Seq = seq + 1
		if mode == "direct" {
			c.sigs = all(sign(k, core, 0, 1, num, seq), core) // DIRECT signs the signer info itself
		} else {
			c.sigs = all(sign(k, good, 0, 1, num, seq), core)
		}
	case "wrong-chain":
		if mode == "raweth" {
			core.Msgs[0].Chain = 1
		}
		c.sigs = all(sign(k, core, 0, 2, num, seq), core)
	case "wrong-accnum":
		c.sigs = all(sign(k, core, 0, 1, num+1, seq), core)
	case "lifted": // the owner's signature over a different transaction (other amount), same sequence
		other := core.clone(name + "a")
		other.Msgs[0].Content = amount + 7
		c.aux = append(c.aux, other)
		c.sigs = all(sign(k, other, 0, 1, num, seq), core)
	case "type-swap": // the owner signed a DECLINE; an APPROVE with the same fields is submitted
		orig := core.clone(name + "a")
		orig.Msgs[0].Type = 6
		c.aux = append(c.aux, orig)
		c.sigs = all(sign(k, orig, 0, 1, num, seq), core)
		if mode == "eip712" && h.eipClass[5] == h.eipClass[6] {
			c.known = "C02/eip712/message-type-confusion"
		}
		if mode == "amino" && h.aminoClass[5] == h.aminoClass[6] {
			c.known = "C02/amino/message-type-confusion"
		}
	case "second-msg-edit": // the owner signed [m1, m2]; m2 is replaced afterwards
		orig := core.clone(name + "a")
		c.aux = append(c.aux, orig)
		core.Msgs[1].Content = amount + 99
		c.sigs = all(sign(k, orig, 0, 1, num, seq), core)
	case "fee-edit", "memo-edit": // fee / memo changed after the owner signed
		orig := core.clone(name + "a")
		c.aux = append(c.aux, orig)
		if strat == "fee-edit" {
			core.Fee = fee + 500
		} else {
			core.Memo = memo + 5
		}
		c.sigs = all(sign(k, orig, 0, 1, num, seq), orig) // every signer signed the original
		c.intended = orig
	case "pk-edit": // attached public key swapped after signing
		orig := core.clone(name + "a")
		c.aux = append(c.aux, orig)
		if core.Infos[0].Pk == X1 {
			core.Infos[0].Pk = X2
		} else {
			core.Infos[0].Pk = X1
		}
		c.sigs = all(sign(k, orig, 0, 1, num, seq), core)
		c.intended = orig
	case "mode-edit": // sign mode of the signer info flipped after signing
		orig := core.clone(name + "a")
		c.aux = append(c.aux, orig)
		if m == 'd' {
			core.Infos[0].Mode = 'a'
		} else {
			core.Infos[0].Mode = 'd'
		}
		c.sigs = all(sign(k, orig, 0, 1, num, seq), core)
	case "unsupported-mode":
		core.Infos[0].Mode = 'o'
		c.sigs = all(sign(k, core, 0, 1, num, seq), core)
	case "bad-enc": // right key, right bytes, the other signature encoding
		s := sign(k, core, 0, 1, num, seq)
		if s.Enc == 'c' {
			s.Enc = 'e'
		} else {
			s.Enc = 'c'
		}
		c.sigs = all(s, core)
	case "unsigned-2nd": // the first signer signs twice, the second never did
		s1 := sign(k, core, 0, 1, num, seq)
		s2 := signM(mode2, k, core, 1, 1, int(sn2.num), int(sn2.seq))
		c.sigs = []symSig{s1, s2}
		c.intended = core
		c.unsigned = map[symAddr]bool{a2: true}
	case "swapped-sigs":
		c.sigs = []symSig{second(core), sign(k, core, 0, 1, num, seq)}
	}
	return c
}

func runC02(r *Rec) {
	h := &c02{r: r}
	h.newWorld()
	r.Extra["rule"] = "one case = one real signed transaction through CheckTx+DeliverTx of the real app; label kind/mode/attached-key/account-state/strategy; non-trivial = reached the ante chain with a decodable transaction (all cases); distinct by (label, verdict)"

	type combo struct{ kind, mode, pk, state, strat string }
	var all []combo
	for _, kind := range c02Kinds {
		for _, mode := range c02Modes {
			for _, pk := range c02Pks {
				for _, st := range c02States {
					for _, strat := range c02Strats {
						if c02Applicable(kind, mode, pk, st, strat) {
							all = append(all, combo{kind, mode, pk, st, strat})
						}
					}
				}
			}
		}
	}
	r.Extra["cross_product_size"] = len(all)
	// `viable`: combinations in which the honest transaction is expected to pass, so that a rejection is due to the
	// forging strategy and not to an incidental reason (sampling aid only — never used as an oracle)
	viable := func(c combo) bool {
		if strings.HasSuffix(c.state, "C") {
			if c.mode != "direct" && c.mode != "amino" {
				return false
			}
			if (c.kind == "ethtx" || c.kind == "ethpayer") && c.mode == "amino" {
				return false
			}
			return c.state == "keyedC" || c.pk == "own"
		}
		if c.mode == "raweth" {
			return c.state == "keyedE" || c.pk != "none"
		}
		if c.mode != "eip712" || c.kind == "multi" || c.kind == "two" || c.kind == "ethtx" || c.kind == "payer" || c.kind == "ethpayer" {
			return false
		}
		return c.state == "keyedE" || c.pk != "none"
	}
	var todo []combo
	nViable := 0
	for _, c := range all {
		if viable(c) {
			nViable++
		}
	}
	r.Extra["viable_combinations"] = nViable
	if r.Tier == "thorough" {
		// the full cross product, three times (different amounts, fees, memos, account histories)
		for rep := 0; rep < 3; rep++ {
			todo = append(todo, all...)
		}
	} else {
		// every viable combination and every honest combination; of the rest a stratified sample:
		// every (kind, mode, strategy) and every (pk, state, mode, strategy) at least once
		seenA, seenB := map[string]int{}, map[string]int{}
		perm := r.Rng.Perm(len(all))
		for _, i := range perm {
			c := all[i]
			ka := c.kind + c.mode + c.strat
			kb := c.pk + c.state + c.mode + c.strat
			if viable(c) || c.strat == "honest" || seenA[ka] < 1 || seenB[kb] < 1 {
				seenA[ka]++
				seenB[kb]++
				todo = append(todo, c)
			}
		}
	}
	r.Rng.Shuffle(len(todo), func(i, j int) { todo[i], todo[j] = todo[j], todo[i] })
	r.Extra["cases_planned"] = len(todo)

	for _, c := range todo {
		states := []string{c.state}
		switch c.kind {
		case "two":
			states = append(states, c.state)
		case "payer", "ethpayer":
			states = append(states, []string{"freshC", "keyedC"}[r.Rng.Intn(2)])
		}
		provide := func() bool {
			need := map[string]int{}
			for _, st := range states {
				need[st]++
			}
			for _, st := range []string{"keyedC", "keyedE", "freshC", "freshE"} { // keyed first: making them consumes fresh ones
				if need[st] > 0 && !h.ensure(st, need[st]) {
					return false
				}
			}
			for st, n := range need {
				if len(h.pool[st]) < n {
					return false
				}
			}
			return true
		}
		if !provide() {
			if h.inBlock {
				h.end()
				h.begin()
				h.replayPending()
				h.end()
			}
			h.newWorld()
			if !provide() {
				r.Fail("C02/harness/pool", "cannot provide accounts in states "+strings.Join(states, ","), nil)
				break
			}
		}
		k, _ := h.take(states[0], -1)
		k2 := -1
		if len(states) == 2 {
			k2, _ = h.take(states[1], k)
		}
		cs := h.build(c.kind, c.mode, c.pk, c.state, c.strat, k, k2)
		ok := h.run(cs)
		// give the accounts back in the state they are in now
		var back []symAddr
		for a := range cs.owners {
			back = append(back, a)
		}
		sort.Slice(back, func(i, j int) bool { return back[i].String() < back[j].String() })
		for _, a := range back {
			kk := a.N
			s := h.acct(a)
			suffix := strings.ToUpper(string(a.Kind))
			switch {
			case s.pk == "-":
				h.pool["fresh"+suffix] = append(h.pool["fresh"+suffix], kk)
			case s.pk == fmt.Sprint(kk):
				h.pool["keyed"+suffix] = append(h.pool["keyed"+suffix], kk)
			default: // a stranger's key is on record (listed finding): retire the account
			}
		}
		_ = ok
		if h.inBlk >= 40 {
			h.end()
		}
	}
	if h.inBlock {
		h.end()
	}
	h.begin()
	h.replayPending()
	h.end()

	h.malformed()
	h.regressionForgedEthereumTx()
	h.regressionForgedFeePayer()
	r.Extra["worlds"] = h.worlds
	var ks []string
	for k := range r.KnownSeen {
		ks = append(ks, k)
	}
	sort.Strings(ks)
	r.Extra["known_keys_seen"] = ks
}

// DESIGN.md Appendix C / defect #9 (fixed by fef397e): MsgEthereumTx{Sender: victim} carrying an Ethereum transaction
// signed by a STRANGER, attached key = the stranger's, victim without key on record. Must be rejected.
func (h *c02) regressionForgedEthereumTx() {
	h.newWorld()
	X1 := c02NKeys - 1
	for _, victim := range []symAddr{{'c', 5}, {'e', 6}} {
		h.caseNo++
		sn := h.acct(victim)
		core := &symCore{Name: fmt.Sprintf("t%d", h.caseNo), Fee: 200,
			Msgs:  []symMsg{{Eth: true, Sender: victim, Nonce: int(sn.seq), Chain: c02EthChain, Content: 500_000_000, SignedBy: X1}},
			Infos: []symInfo{{Pk: X1, Mode: 'd', Seq: int(sn.seq)}}}
		c := &c02Case{label: "ethtx/raweth/wrongC/fresh" + strings.ToUpper(string(victim.Kind)) + "/forged-sender", core: core, mode: "raweth", ethPath: true,
			owners: map[symAddr]int{victim: victim.N},
			sigs:   []symSig{{Key: X1, Enc: 'c', P: symPayload{Kind: 'D', Core: core, Chain: 1, Num: int(sn.num)}}}}
		before := h.acct(victim)
		if h.run(c) {
			after := h.acct(victim)
			h.r.Fail("C02/ethereum-tx/sender-not-authenticated", fmt.Sprintf("MsgEthereumTx naming %s as sender, signed only by stranger key %d, was ACCEPTED: victim balance %s → %s, key on record %s → %s", victim, X1, before.bal, after.bal, before.pk, after.pk), []string{core.line()})
		}
		h.r.Count("regression forged-ethereum-tx")
	}
	h.end()
}

// shapes outside the cross product: missing accounts, signature / signer-info counts that do not match the signers,
// too many signers, an Ethereum transaction whose signature does not recover
func (h *c02) malformed() {
	h.newWorld()
	X1 := c02NKeys - 1
	send := func(a symAddr, amt int) symMsg { return symMsg{Type: 1, Content: amt, Signers: []symAddr{a}} }
	direct := func(k int, c *symCore, num int) symSig {
		return symSig{Key: k, Enc: 'c', P: symPayload{Kind: 'D', Core: c, Chain: 1, Num: num}}
	}
	mk := func(label string, core *symCore, sigs func(c *symCore) []symSig, intended bool) {
		h.caseNo++
		core.Name = fmt.Sprintf("t%d", h.caseNo)
		c := &c02Case{label: "malformed/direct/-/-/" + label, core: core, mode: "direct", owners: map[symAddr]int{}, sigs: sigs(core)}
		for _, a := range core.signers() {
			c.owners[a] = a.N
		}
		if intended {
			c.intended = core
		}
		h.run(c)
	}
	a1, a2 := symAddr{'c', 1}, symAddr{'c', 2}
	n1, n2 := int(h.acct(a1).num), int(h.acct(a2).num)
	// signer without account
	ghost := symAddr{'o', 1}
	mk("unknown-account", &symCore{Fee: 200, Msgs: []symMsg{send(ghost, 5)}, Infos: []symInfo{{Pk: X1, Mode: 'd'}}},
		func(c *symCore) []symSig { return []symSig{direct(X1, c, 0)} }, false)
	mk("unknown-account-no-key", &symCore{Fee: 200, Msgs: []symMsg{send(ghost, 5)}, Infos: []symInfo{{Pk: -1, Mode: 'd'}}},
		func(c *symCore) []symSig { return []symSig{direct(X1, c, 0)} }, false)
	// no signature at all
	mk("no-signatures", &symCore{Fee: 200, Msgs: []symMsg{send(a1, 5)}}, func(c *symCore) []symSig { return nil }, false)
	// two signers, one signature
	mk("one-sig-two-signers", &symCore{Fee: 200, Msgs: []symMsg{send(a1, 5), send(a2, 6)}, Infos: []symInfo{{Pk: 1, Mode: 'd'}}},
		func(c *symCore) []symSig { return []symSig{direct(1, c, n1)} }, false)
	// one signer, two signatures
	mk("two-sigs-one-signer", &symCore{Fee: 200, Msgs: []symMsg{send(a1, 5)}, Infos: []symInfo{{Pk: 1, Mode: 'd'}, {Pk: 2, Mode: 'd'}}},
		func(c *symCore) []symSig { return []symSig{direct(1, c, n1), direct(2, c, n2)} }, false)
	// one signer, one signature, two signer infos (second with / without key)
	mk("extra-signer-info-with-key", &symCore{Fee: 200, Msgs: []symMsg{send(a1, 5)}, Infos: []symInfo{{Pk: 1, Mode: 'd'}, {Pk: 2, Mode: 'd'}}},
		func(c *symCore) []symSig { return []symSig{direct(1, c, n1)} }, false)
	mk("extra-signer-info-no-key", &symCore{Fee: 200, Msgs: []symMsg{send(a1, 5)}, Infos: []symInfo{{Pk: 1, Mode: 'd'}, {Pk: -1, Mode: 'd'}}},
		func(c *symCore) []symSig { return []symSig{direct(1, c, n1)} }, false)
	// one signer, one signature, no signer info
	mk("no-signer-info", &symCore{Fee: 200, Msgs: []symMsg{send(a1, 5)}},
		func(c *symCore) []symSig { return []symSig{direct(1, c, n1)} }, false)
	// Ethereum transaction whose signature does not recover
	e3 := symAddr{'e', 3}
	mk("ethereum-tx-unsigned", &symCore{Fee: 200, Msgs: []symMsg{{Eth: true, Sender: e3, Nonce: 0, Chain: c02EthChain, Content: 5, SignedBy: -1}}, Infos: []symInfo{{Pk: 3, Mode: 'd'}}},
		func(c *symCore) []symSig { return []symSig{direct(3, c, int(h.acct(e3).num))} }, false)
	// eight honest signers: one more than TxSigLimit; seven: accepted
	for _, n := range []int{8, 7} {
		core := &symCore{Fee: 200}
		for k := 10; k < 10+n; k++ {
			core.Msgs = append(core.Msgs, send(symAddr{'c', k}, 5+k))
			core.Infos = append(core.Infos, symInfo{Pk: k, Mode: 'd'})
		}
		mk(fmt.Sprintf("%d-honest-signers", n), core, func(c *symCore) []symSig {
			var ss []symSig
			for k := 10; k < 10+n; k++ {
				ss = append(ss, direct(k, c, int(h.acct(symAddr{'c', k}).num)))
			}
			return ss
		}, true)
	}
	if h.inBlock {
		h.end()
	}
}

// The fee-payer defect found by this check (fixed by 4a7b9fe + 515bdfd): an Ethereum-style account sends a MsgEthereumTx
// it signed itself and names a VICTIM as fee payer, with a junk key attached for the victim and junk signatures. Must
// be rejected for a victim without key on record (sequences equal) and for a victim with its own key on record.
func (h *c02) regressionForgedFeePayer() {
	h.newWorld()
	X1, X2 := c02NKeys-1, c02NKeys-2
	att := symAddr{'e', X1}
	// victim 8 gets its key on record first
	setup := h.build("send", "direct", "own", "freshC", "honest", 8, -1)
	setup.label = "setup/direct/own/freshC/honest"
	h.run(setup)
	for _, victim := range []symAddr{{'c', 7}, {'c', 8}, {'e', 9}} {
		sa, sv := h.acct(att), h.acct(victim)
		h.caseNo++
		core := &symCore{Name: fmt.Sprintf("t%d", h.caseNo), Fee: 1_000_000, Payer: &victim,
			Msgs:  []symMsg{{Eth: true, Sender: att, Nonce: int(sa.seq), Chain: c02EthChain, Content: 100, SignedBy: X1}},
			Infos: []symInfo{{Pk: X1, Mode: 'd', Seq: int(sa.seq)}, {Pk: X2, Mode: 'd', Seq: int(sv.seq)}}}
		c := &c02Case{label: "ethpayer/raweth/wrongE/victim-" + victim.String() + "/forged-fee-payer", core: core, mode: "raweth", ethPath: true,
			owners: map[symAddr]int{victim: victim.N}, intended: core, unsigned: map[symAddr]bool{victim: true},
			sigs: []symSig{{Key: X1, Enc: 'c', P: symPayload{Kind: 'J', J: 1}}, {Key: X1, Enc: 'c', P: symPayload{Kind: 'J', J: 2}}}}
		if h.run(c) {
			fv := h.acct(victim)
			h.r.Fail("C02/fee-payer/not-authenticated-after-ethereum-signer", fmt.Sprintf("MsgEthereumTx of %s naming %s as fee payer was ACCEPTED without any signature of the payer: %s bal %s → %s bal %s", att, victim, sv.obs(), sv.bal, fv.obs(), fv.bal), []string{core.line()})
		}
		h.r.Count("regression forged-fee-payer")
	}
	h.end()
}

// fill gives every field of a message a fixed non-zero value (so that omitempty hides nothing)
func (h *c02) fill(v reflect.Value, depth int) {
	if depth > 4 {
		return
	}
	switch v.Kind() {
	case reflect.Ptr:
		if v.Type().Elem().Kind() == reflect.Struct && v.CanSet() && v.Type().Elem().PkgPath() != "github.com/cosmos/cosmos-sdk/codec/types" {
			if _, isJSON := v.Interface().(json.Marshaler); !isJSON {
				v.Set(reflect.New(v.Type().Elem()))
				h.fill(v.Elem(), depth+1)
			}
		} else if !v.IsNil() {
			h.fill(v.Elem(), depth+1)
		}
	case reflect.Struct:
		if v.CanAddr() {
			if _, isJSON := v.Addr().Interface().(json.Marshaler); isJSON {
				return
			}
		}
		for i := 0; i < v.NumField(); i++ {
			if f := v.Field(i); f.CanSet() {
				h.fill(f, depth+1)
			}
		}
	case reflect.String:
		if h.fillAddr != nil {
			v.SetString(h.fillAddr.String())
		} else {
			v.SetString(h.addr(symAddr{'c', 0}).String())
		}
	case reflect.Bool:
		v.SetBool(true)
	case reflect.Int, reflect.Int32, reflect.Int64:
		v.SetInt(1)
	case reflect.Uint, reflect.Uint32, reflect.Uint64:
		v.SetUint(1)
	case reflect.Slice:
		if v.Type().Elem().Kind() == reflect.Uint8 {
			if h.fillAddr != nil {
				v.SetBytes(append([]byte{}, h.fillAddr...))
			} else {
				v.SetBytes(append([]byte{}, h.addr(symAddr{'c', 0})...))
			}
		} else {
			el := reflect.New(v.Type().Elem()).Elem()
			h.fill(el, depth+1)
			v.Set(reflect.Append(reflect.MakeSlice(v.Type(), 0, 1), el))
		}
	}
}

// eipClasses reads off the REAL code what the two JSON-based sign-byte functions can tell apart. It instantiates every
// message type of the interface registry with the same field values and groups the types by
//   - kiratypes.MsgType(msg) + json.Marshal(msg)   — all that GenEIP712SignBytesFromMsg hashes of a message, and
//   - msg.GetSignBytes()                           — all that the LEGACY_AMINO_JSON sign doc contains of a message.
//
// Types in one group are indistinguishable to a signature of that kind. The classes of the types used by this harness
// are sent to the model.
func (h *c02) eipClasses() {
	reg := h.w.enc.InterfaceRegistry
	eipKey := func(msg sdk.Msg) (k string) {
		defer func() {
			if r := recover(); r != nil {
				k = fmt.Sprintf("panic:%T", msg)
			}
		}()
		bz, err := json.Marshal(msg)
		if err != nil {
			return fmt.Sprintf("error:%T", msg)
		}
		return kiratypes.MsgType(msg) + "|" + string(bz)
	}
	aminoKey := func(msg sdk.Msg) (k string) {
		defer func() {
			if r := recover(); r != nil {
				k = fmt.Sprintf("panic:%T", msg)
			}
		}()
		lm, ok := msg.(legacytx.LegacyMsg)
		if !ok {
			return fmt.Sprintf("not-legacy:%T", msg)
		}
		return string(lm.GetSignBytes())
	}
	eg, ag := map[string][]string{}, map[string][]string{}
	for _, url := range reg.ListImplementations(sdk.MsgInterfaceProtoName) {
		pm, err := reg.Resolve(url)
		if err != nil {
			continue
		}
		msg, ok := pm.(sdk.Msg)
		if !ok {
			continue
		}
		func() {
			defer func() { recover() }()
			h.fill(reflect.ValueOf(msg), 0)
		}()
		if kiratypes.MsgType(msg) != "" {
			eg[eipKey(msg)] = append(eg[eipKey(msg)], url)
		}
		ag[aminoKey(msg)] = append(ag[aminoKey(msg)], url)
	}
	collisions := func(g map[string][]string) (keys, coll []string) {
		for k, urls := range g {
			keys = append(keys, k)
			if len(urls) > 1 && strings.Contains(strings.Join(urls, " "), "/kira.") {
				sort.Strings(urls)
				coll = append(coll, strings.Join(urls, " = "))
			}
		}
		sort.Strings(keys)
		sort.Strings(coll)
		return
	}
	// injectivity in the CONTENT of one message type: two messages that differ in one integer field (values next to each
	// other around 2^53 and 2^63, where a detour through floating point would merge them) must not share their legacy-amino
	// sign bytes - a signature over one would authorise the other
	var insensitive []string
	for _, url := range reg.ListImplementations(sdk.MsgInterfaceProtoName) {
		if !strings.Contains(url, "/kira.") {
			continue
		}
		pm, err := reg.Resolve(url)
		if err != nil {
			continue
		}
		msg, ok := pm.(sdk.Msg)
		if !ok {
			continue
		}
		if _, ok := msg.(legacytx.LegacyMsg); !ok {
			continue
		}
		func() {
			defer func() { recover() }()
			h.fill(reflect.ValueOf(msg), 0)
		}()
		rv := reflect.ValueOf(msg)
		if rv.Kind() != reflect.Ptr || rv.Elem().Kind() != reflect.Struct {
			continue
		}
		st := rv.Elem()
		for i := 0; i < st.NumField(); i++ {
			f := st.Field(i)
			if !f.CanSet() {
				continue
			}
			if f.Kind() == reflect.String || f.Kind() == reflect.Bool {
				// text and flags as well: two values of the field, everything else equal
				var ka, kb string
				if f.Kind() == reflect.String {
					old := f.String()
					f.SetString(old + "a")
					ka = aminoKey(msg)
					f.SetString(old + "b")
					kb = aminoKey(msg)
					f.SetString(old)
				} else {
					old := f.Bool()
					f.SetBool(true)
					ka = aminoKey(msg)
					f.SetBool(false)
					kb = aminoKey(msg)
					f.SetBool(old)
				}
				h.r.Count("oracle:C02/amino/field-injectivity")
				if ka == kb && !strings.HasPrefix(ka, "panic:") {
					insensitive = append(insensitive, fmt.Sprintf("%s.%s(two values)", url, st.Type().Field(i).Name))
				}
				continue
			}
			var pairs [][2]uint64
			switch f.Kind() {
			case reflect.Uint64:
				pairs = [][2]uint64{{1 << 53, 1<<53 + 1}, {1<<63 + 1024, 1<<63 + 1025}, {7, 8}}
			case reflect.Int64:
				pairs = [][2]uint64{{1 << 53, 1<<53 + 1}, {7, 8}}
			case reflect.Uint32, reflect.Int32:
				pairs = [][2]uint64{{7, 8}}
			default:
				continue
			}
			for _, pr := range pairs {
				set := func(x uint64) {
					if f.Kind() == reflect.Uint64 || f.Kind() == reflect.Uint32 {
						f.SetUint(x)
					} else {
						f.SetInt(int64(x))
					}
				}
				set(pr[0])
				ka := aminoKey(msg)
				set(pr[1])
				kb := aminoKey(msg)
				h.r.Count("oracle:C02/amino/field-injectivity")
				if ka == kb && !strings.HasPrefix(ka, "panic:") {
					insensitive = append(insensitive, fmt.Sprintf("%s.%s(%d vs %d)", url, st.Type().Field(i).Name, pr[0], pr[1]))
				}
			}
			set := f
			_ = set
		}
	}
	sort.Strings(insensitive)
	h.r.Extra["amino_sign_bytes_field_insensitive"] = insensitive
	if len(insensitive) > 0 {
		h.r.Fail("C02/amino/sign-bytes-ignore-a-field", "legacy-amino sign bytes are the same for two messages that differ in a field: "+strings.Join(insensitive, " ; "), nil)
	}
	// ValidateBasic is run on the very object that is routed (and, for proposals, stored): it must only LOOK at it. For
	// every message type and every proposal content type: the JSON of the filled object before and after ValidateBasic.
	var rewritten []string
	checkPure := func(url string, pm proto.Message) {
		vb, ok := pm.(interface{ ValidateBasic() error })
		if !ok {
			return
		}
		func() {
			defer func() { recover() }()
			h.fill(reflect.ValueOf(pm), 0)
		}()
		snap := func() (out string) {
			defer func() {
				if r := recover(); r != nil {
					out = "panic"
				}
			}()
			bz, err := json.Marshal(pm)
			if err != nil {
				return "err:" + err.Error()
			}
			return string(bz)
		}
		before := snap()
		func() {
			defer func() { recover() }()
			_ = vb.ValidateBasic()
		}()
		h.r.Count("oracle:C02/validate-basic/pure")
		if after := snap(); after != before && before != "panic" {
			rewritten = append(rewritten, url)
		}
	}
	for _, iface := range []string{sdk.MsgInterfaceProtoName, "kira.gov.Content"} {
		for _, url := range reg.ListImplementations(iface) {
			if !strings.Contains(url, "/kira.") {
				continue
			}
			if pm, err := reg.Resolve(url); err == nil {
				checkPure(url, pm)
			}
		}
	}
	// the declared signers of a message whose address fields all hold one 32-byte address are that address - not a prefix
	// of it, not a 20-byte cut (the ante chain asks for the signatures GetSigners names)
	long := sdk.AccAddress(append(append([]byte{}, h.addr(symAddr{'c', 0})...), []byte("0123456789ab")...))
	var truncated []string
	for _, url := range reg.ListImplementations(sdk.MsgInterfaceProtoName) {
		if !strings.Contains(url, "/kira.") {
			continue
		}
		pm, err := reg.Resolve(url)
		if err != nil {
			continue
		}
		msg, ok := pm.(sdk.Msg)
		if !ok {
			continue
		}
		h.fillAddr = long
		func() {
			defer func() { recover() }()
			h.fill(reflect.ValueOf(msg), 0)
		}()
		h.fillAddr = nil
		var ss []sdk.AccAddress
		func() {
			defer func() { recover() }()
			ss = msg.GetSigners()
		}()
		h.r.Count("oracle:C02/signers/long-address")
		for _, a := range ss {
			if len(a) != len(long) && bytes.HasPrefix(long, a) {
				truncated = append(truncated, url)
				break
			}
		}
	}
	sort.Strings(truncated)
	if len(truncated) > 0 {
		h.r.Fail("C02/signers/truncated-address", "GetSigners names a PREFIX of the address the message acts for (a key that does not control that address can sign for it): "+strings.Join(truncated, " ; "), nil)
	}
	sort.Strings(rewritten)
	if len(rewritten) > 0 {
		h.r.Fail("C02/validate-basic/rewrites-the-message", "ValidateBasic changes the object it validates (what is executed / stored is no longer what was signed): "+strings.Join(rewritten, " ; "), nil)
	}
	ekeys, ecoll := collisions(eg)
	akeys, acoll := collisions(ag)
	h.eipCollisions = "message types GenEIP712SignBytesFromMsg cannot tell apart (same Type() string and JSON): " + strings.Join(ecoll, " ; ")
	h.aminoCollisions = "message types with identical GetSignBytes() (not amino-registered, same JSON): " + strings.Join(acoll, " ; ")
	h.r.Extra["eip712_indistinguishable_message_types"] = ecoll
	h.r.Extra["amino_indistinguishable_message_types"] = acoll
	// the pairs of message types one signature cannot tell apart are the recorded findings C02/amino|eip712/
	// message-type-confusion - as far as they are on the reviewed lists below. A pair that is NOT (two message types whose
	// sign bytes coincide now and did not before) is a signature that authorises a transaction its signer never saw.
	for _, chk := range []struct {
		mode     string
		got      []string
		reviewed []string
	}{{"amino", acoll, c02AminoReviewed}, {"eip712", ecoll, c02EipReviewed}} {
		known := map[string]bool{}
		for _, g := range chk.reviewed {
			ts := strings.Split(g, " = ")
			for i := range ts {
				for j := range ts {
					known[ts[i]+"|"+ts[j]] = true
				}
			}
		}
		for _, g := range chk.got {
			ts := strings.Split(g, " = ")
			for i := range ts {
				for j := i + 1; j < len(ts); j++ {
					h.r.Count("oracle:C02/" + chk.mode + "/indistinguishable-pairs")
					if !known[ts[i]+"|"+ts[j]] {
						h.r.Fail("C02/"+chk.mode+"/new-indistinguishable-message-types", fmt.Sprintf("%s sign bytes of %s and %s with the same field values are identical: a signature made for one authorises the other", chk.mode, ts[i], ts[j]), nil)
					}
				}
			}
		}
	}
	index := func(keys []string, k string, t int) int {
		i := sort.SearchStrings(keys, k)
		if i < len(keys) && keys[i] == k {
			return 100 + i
		}
		return 1000 + t
	}
	h.eipClass, h.aminoClass = map[int]int{}, map[int]int{}
	for t := 1; t <= 6; t++ {
		msg := h.realMsg(symMsg{Type: t, Content: 1, Signers: []symAddr{{'c', 0}}})
		func() {
			defer func() { recover() }()
			h.fill(reflect.ValueOf(msg), 0)
		}()
		h.eipClass[t] = index(ekeys, eipKey(msg), t)
		h.aminoClass[t] = index(akeys, aminoKey(msg), t)
		h.r.Op(fmt.Sprintf("auth eipclass %d %d", t, h.eipClass[t]), "ok")
		h.r.Op(fmt.Sprintf("auth aminoclass %d %d", t, h.aminoClass[t]), "ok")
	}
}

// message types the sign bytes of the two JSON-based modes cannot tell apart on the reviewed tree (findings
// C02/amino/message-type-confusion, C02/eip712/message-type-confusion)
var c02AminoReviewed = []string{
	"/kira.basket.MsgDisableBasketDeposits = /kira.basket.MsgDisableBasketSwaps = /kira.basket.MsgDisableBasketWithdraws",
	"/kira.custody.MsgAddToCustodyCustodians = /kira.custody.MsgAddToCustodyWhiteList",
	"/kira.custody.MsgApproveCustodyTransaction = /kira.custody.MsgDeclineCustodyTransaction",
	"/kira.custody.MsgDisableCustodyRecord = /kira.custody.MsgDropCustodyCustodians = /kira.custody.MsgDropCustodyLimits = /kira.custody.MsgDropCustodyWhiteList",
	"/kira.custody.MsgRemoveFromCustodyCustodians = /kira.custody.MsgRemoveFromCustodyWhiteList",
	"/kira.gov.MsgCouncilorActivate = /kira.gov.MsgCouncilorPause = /kira.gov.MsgCouncilorUnpause = /kira.multistaking.MsgClaimMaturedUndelegations",
	"/kira.gov.MsgRemoveBlacklistedPermissions = /kira.gov.MsgRemoveWhitelistedPermissions",
	"/kira.layer2.MsgApproveDappTransitionTx = /kira.layer2.MsgRejectDappTransitionTx",
	"/kira.layer2.MsgBondDappProposal = /kira.layer2.MsgReclaimDappBondProposal",
	"/kira.layer2.MsgExitDapp = /kira.layer2.MsgPauseDappTx = /kira.layer2.MsgReactivateDappTx = /kira.layer2.MsgUnPauseDappTx",
}

var c02EipReviewed = []string{
	"/kira.basket.MsgDisableBasketDeposits = /kira.basket.MsgDisableBasketWithdraws",
	"/kira.custody.MsgApproveCustodyTransaction = /kira.custody.MsgDeclineCustodyTransaction",
	"/kira.custody.MsgDropCustodyLimits = /kira.custody.MsgDropCustodyWhiteList",
	"/kira.gov.MsgBlacklistPermissions = /kira.gov.MsgRemoveBlacklistedPermissions = /kira.gov.MsgRemoveWhitelistedPermissions",
	"/kira.gov.MsgCouncilorActivate = /kira.gov.MsgCouncilorPause = /kira.gov.MsgCouncilorUnpause",
}

// c02For runs the authentication scenario inside the check of another property whose statement rests on it ("only the
// address itself …", "only custodians count"): a message that executes in somebody's name without that somebody's
// signature over it breaks those properties in the first place. Oracle keys are re-filed under the host property.
func c02For(r *Rec, prop string) {
	r.OnlyProp, r.AliasPrefix = prop, map[string]string{"C02/": prop + "/authentication/"}
	rule := r.Extra["rule"]
	runC02(r)
	r.Extra["rule"] = rule
	r.OnlyProp, r.AliasPrefix = "", nil
	r.Mark("authentication done")
}
