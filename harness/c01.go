package main

// C01: k-replica execution. The same genesis and the same block history (identical transaction bytes, header times,
// proposers, commit votes) run on k independently constructed applications, started at different instants, plus one
// re-run; after every block the app hash, every transaction result and the validator updates are compared, and on a
// mismatch the raw stores are diffed to name the record.

import (
	"encoding/json"
	"bytes"
	"crypto/sha256"
	"encoding/hex"
	"fmt"
	"sort"
	"strings"
	"time"

	custodytypes "github.com/KiraCore/sekai/x/custody/types"
	govtypes "github.com/KiraCore/sekai/x/gov/types"
	multistakingtypes "github.com/KiraCore/sekai/x/multistaking/types"
	slashingtypes "github.com/KiraCore/sekai/x/slashing/types"
	abci "github.com/cometbft/cometbft/abci/types"
	sdk "github.com/cosmos/cosmos-sdk/types"
	banktypes "github.com/cosmos/cosmos-sdk/x/bank/types"
)

func init() { props["C01"] = runC01 }

var c01Stores = []string{"acc", "bank", "customgov", "customstaking", "customslashing", "distributor", "multistaking", "tokens", "spending", "ubi", "basket", "custody", "collectives", "layer2", "recovery", "feeprocessing", "upgrade", "params", "customevidence", "ethereum"}

type c01Block struct {
	msgs   [][]sdk.Msg // one tx per entry
	signer []int
	absent map[int]bool
	dt     time.Duration
}

func c01Digest(r abci.ResponseDeliverTx) string {
	h := sha256.New()
	fmt.Fprintf(h, "%d|%s|%x|", r.Code, r.Codespace, r.Data)
	for _, e := range r.Events {
		fmt.Fprintf(h, "%s{", e.Type)
		for _, a := range e.Attributes {
			fmt.Fprintf(h, "%s=%s;", a.Key, a.Value)
		}
		fmt.Fprintf(h, "}")
	}
	return hex.EncodeToString(h.Sum(nil))[:16]
}

func c01Updates(u []abci.ValidatorUpdate) string {
	var p []string
	for _, x := range u {
		p = append(p, fmt.Sprintf("%x:%d", x.PubKey.GetEd25519(), x.Power))
	}
	sort.Strings(p)
	return strings.Join(p, ",")
}

// c01History builds a block history on a scratch replica (so that account sequences are right) and returns the raw
// transaction bytes per block: every replica then receives exactly these bytes.
type c01Raw struct {
	txs    [][]byte
	absent map[int]bool
	dt     time.Duration
	kinds  []string
	// richgen (richGenerate): what every replica additionally replays
	mid      []richMid          // keeper-level set-up steps, executed after BeginBlock and before the txs
	evidence []abci.Misbehavior // double-sign evidence delivered with BeginBlock
	proposer int                // index into the current validator set (0 = the old generator's behaviour)
	delay    bool               // the history was generated (and must be replayed) with World.delay
}

func c01Generate(r *Rec, nBlocks int, withCustody bool, nAcc, nVal int) []c01Raw {
	w := NewWorld(WorldOpts{NAcc: nAcc, NVal: nVal, SudoAccs: []int{nAcc - 1}})
	A := w.addrs
	sudo := nAcc - 1
	var out []c01Raw
	pollN, propN := uint64(0), uint64(0)
	custodyMade := map[int]bool{}
	key := func(i, gen int) string { return fmt.Sprintf("key-%d-%d", i, gen) }
	sha := func(s string) string { h := sha256.Sum256([]byte(s)); return hex.EncodeToString(h[:]) }
	keyGen := map[int]int{}
	pausedVals := map[int]bool{}
	for b := 0; b < nBlocks; b++ {
		raw := c01Raw{absent: map[int]bool{}, dt: time.Duration(3+r.Rng.Intn(8)) * time.Second}
		if r.Rng.Intn(9) == 0 {
			raw.dt = time.Duration(200+r.Rng.Intn(300)) * time.Second // lets proposals reach voting end / enactment, polls expire
		}
		if r.Rng.Intn(5) == 0 && nVal > 1 {
			raw.absent[r.Rng.Intn(nVal)] = true
		}
		used := map[int]bool{}
		nTx := 1 + r.Rng.Intn(4)
		for t := 0; t < nTx; t++ {
			s := r.Rng.Intn(nAcc)
			if used[s] {
				continue
			}
			used[s] = true
			var msgs []sdk.Msg
			kind := ""
			switch x := r.Rng.Intn(100); {
			case x < 20:
				kind = "send"
				msgs = []sdk.Msg{banktypes.NewMsgSend(A[s], A[r.Rng.Intn(nAcc)], ukex(int64(1+r.Rng.Intn(100000))))}
			case x < 28:
				kind = "multisend"
				amt := ukex(int64(2 + 2*r.Rng.Intn(5000)))
				half := ukex(amt[0].Amount.Int64() / 2)
				msgs = []sdk.Msg{&banktypes.MsgMultiSend{Inputs: []banktypes.Input{{Address: A[s].String(), Coins: amt}}, Outputs: []banktypes.Output{{Address: A[(s+1)%nAcc].String(), Coins: half}, {Address: A[(s+2)%nAcc].String(), Coins: half}}}}
			case x < 40:
				kind = "identity"
				msgs = []sdk.Msg{govtypes.NewMsgRegisterIdentityRecords(A[s], []govtypes.IdentityInfoEntry{{Key: fmt.Sprintf("k%d", r.Rng.Intn(4)), Info: fmt.Sprintf("v%d", r.Rng.Intn(1000))}, {Key: "contact", Info: fmt.Sprintf("c%d", s)}})}
			case x < 50:
				kind = "poll-create"
				s = sudo
				if used[sudo] && t > 0 {
					continue
				}
				used[sudo] = true
				msgs = []sdk.Msg{govtypes.NewMsgPollCreate(A[sudo], "title", "desc", "ref", "chk", []string{"a", "b", "c"}, []string{"sudo"}, 3, "string", 1, fmt.Sprintf("%ds", 20+r.Rng.Intn(60)))}
				pollN++
			case x < 58:
				if pollN == 0 {
					continue
				}
				kind = "poll-vote"
				s = sudo
				if used[sudo] && t > 0 {
					continue
				}
				used[sudo] = true
				msgs = []sdk.Msg{govtypes.NewMsgVotePoll(1+uint64(r.Rng.Intn(int(pollN))), A[sudo], govtypes.PollOptionCustom, "a")}
			case x < 68:
				kind = "proposal"
				s = sudo
				if used[sudo] && t > 0 {
					continue
				}
				used[sudo] = true
				m, _ := govtypes.NewMsgSubmitProposal(A[sudo], "t", "d", govtypes.NewSetNetworkPropertyProposal(govtypes.MinIdentityApprovalTip, govtypes.NetworkPropertyValue{Value: uint64(500 + propN)}))
				msgs = []sdk.Msg{m}
				propN++
			case x < 76:
				if propN == 0 {
					continue
				}
				kind = "vote"
				s = sudo
				if used[sudo] && t > 0 {
					continue
				}
				used[sudo] = true
				msgs = []sdk.Msg{govtypes.NewMsgVoteProposal(1+uint64(r.Rng.Intn(int(propN))), A[sudo], govtypes.OptionYes, sdk.ZeroDec())}
			case x < 80 && s < nVal && nVal > 1:
				// validator owner pauses / unpauses (never the last active one: validator 0 stays)
				if s == 0 {
					continue
				}
				if pausedVals[s] {
					kind = "unpause"
					msgs = []sdk.Msg{slashingtypes.NewMsgUnpause(sdk.ValAddress(A[s]))}
				} else {
					kind = "pause"
					msgs = []sdk.Msg{slashingtypes.NewMsgPause(sdk.ValAddress(A[s]))}
				}
				pausedVals[s] = !pausedVals[s]
			case x < 84:
				kind = "pool+delegate"
				v := r.Rng.Intn(nVal)
				if s < nVal {
					msgs = []sdk.Msg{multistakingtypes.NewMsgUpsertStakingPool(A[s].String(), sdk.ValAddress(A[s]).String(), true, sdk.NewDecWithPrec(5, 2))}
				} else {
					msgs = []sdk.Msg{multistakingtypes.NewMsgDelegate(A[s].String(), sdk.ValAddress(A[v]).String(), ukex(int64(1000+r.Rng.Intn(100000))))}
				}
			default:
				if !withCustody {
					kind = "send"
					msgs = []sdk.Msg{banktypes.NewMsgSend(A[s], A[(s+1)%nAcc], ukex(int64(1+r.Rng.Intn(1000))))}
					break
				}
				if s == sudo {
					continue
				}
				if !custodyMade[s] {
					kind = "custody-create"
					keyGen[s] = 1
					msgs = []sdk.Msg{custodytypes.NewMsgCreateCustody(A[s], custodytypes.CustodySettings{CustodyEnabled: true, CustodyMode: 50}, "", sha(key(s, 1)), "", "")}
					custodyMade[s] = true
				} else {
					kind = "custody-addcust"
					old := key(s, keyGen[s])
					keyGen[s]++
					var add []sdk.AccAddress
					for j := 0; j < 3; j++ {
						add = append(add, A[(s+1+j+r.Rng.Intn(2))%nAcc])
					}
					if r.Rng.Intn(2) == 0 {
						msgs = []sdk.Msg{custodytypes.NewMsgAddToCustodyCustodians(A[s], add, old, sha(key(s, keyGen[s])), "", "")}
					} else {
						kind = "custody-addwl"
						msgs = []sdk.Msg{custodytypes.NewMsgAddToCustodyWhiteList(A[s], add, old, sha(key(s, keyGen[s])), "", "")}
					}
				}
			}
			if msgs == nil {
				continue
			}
			bz, err := w.SignTx(msgs, s, ukex(20000), SignOpts{})
			if err != nil {
				continue
			}
			raw.txs = append(raw.txs, bz)
			raw.kinds = append(raw.kinds, kind)
		}
		// advance the scratch replica so that the next block's sequences are right
		absIdx := map[int]bool{}
		for i := range raw.absent {
			absIdx[i] = true
		}
		br := w.Block(raw.txs, BlockOpts{Absent: absIdx, Dt: raw.dt})
		w.ApplyUpdates(br.Updates)
		for i, res := range br.Results {
			r.Count(fmt.Sprintf("tx:%s:%v", raw.kinds[i], res.Code == 0))
		}
		out = append(out, raw)
	}
	return out
}

type c01Obs struct {
	hash     string
	results  []string
	updates  string
	panicAt  string
	stores   []string // "<store>:<commit hash>" of every module store after the block (names the diverging store)
	panicVal string // the panic value (C06 classifies it)
	updErr   string // CometBFT refused the validator updates
}

func c01Run(hist []c01Raw, nAcc, nVal int, pause time.Duration) ([]c01Obs, *World) {
	return c01RunRestart(hist, nAcc, nVal, pause, nil)
}

// c01RunRestart: as c01Run; the replica is restarted (new application instance on the same database) after every block
// whose 1-based number is in restartAfter
func c01RunRestart(hist []c01Raw, nAcc, nVal int, pause time.Duration, restartAfter map[int]bool) ([]c01Obs, *World) {
	w := NewWorld(WorldOpts{NAcc: nAcc, NVal: nVal, SudoAccs: []int{nAcc - 1}, CommitDelay: len(hist) > 0 && hist[0].delay})
	var obs []c01Obs
	for bi, raw := range hist {
		if restartAfter[bi] { // bi blocks have been committed
			w.Restart()
		}
		time.Sleep(pause)
		absIdx := map[int]bool{}
		for i := range raw.absent {
			absIdx[i] = true
		}
		opts := BlockOpts{Absent: absIdx, Dt: raw.dt, Proposer: raw.proposer, Evidence: raw.evidence}
		if len(raw.mid) > 0 {
			mids := raw.mid
			opts.Mid = func(ctx sdk.Context) {
				for _, m := range mids {
					m(w, ctx)
				}
			}
		}
		br := w.Block(raw.txs, opts)
		o := c01Obs{hash: hex.EncodeToString(br.AppHash), updates: c01Updates(br.Updates)}
		for _, res := range br.Results {
			o.results = append(o.results, c01Digest(*res))
		}
		if br.Panicked != nil {
			o.panicAt = br.Phase
			o.panicVal = c06Site(br.Panicked, br.Stack)
			obs = append(obs, o)
			break
		}
		for _, name := range c01Stores {
			if key := w.app.GetKey(name); key != nil && key.Name() != "" {
				o.stores = append(o.stores, name+":"+hex.EncodeToString(w.app.CommitMultiStore().GetCommitKVStore(key).LastCommitID().Hash))
			}
		}
		if err := w.ApplyUpdates(br.Updates); err != nil {
			o.updErr = err.Error()
			obs = append(obs, o)
			break
		}
		obs = append(obs, o)
		if c01AfterBlock != nil {
			c01AfterBlock(bi, w)
		}
	}
	return obs, w
}

// c01AfterBlock, when set, is called after every committed block of a run (C12 exports intermediate states through it)
var c01AfterBlock func(bi int, w *World)

func c01StoreDiff(a, b *World) []string {
	var out []string
	ca, cb := a.ReadCtx(), b.ReadCtx()
	for _, name := range c01Stores {
		ka, kb := a.app.GetKey(name), b.app.GetKey(name)
		if ka == nil || kb == nil || ka.Name() == "" {
			continue
		}
		ma, mb := dumpStore(ca, ka), dumpStore(cb, kb)
		for k, v := range ma {
			if !bytes.Equal(v, mb[k]) {
				out = append(out, fmt.Sprintf("%s/%x", name, []byte(k)))
			}
		}
		for k := range mb {
			if _, ok := ma[k]; !ok {
				out = append(out, fmt.Sprintf("%s/%x (missing)", name, []byte(k)))
			}
		}
	}
	sort.Strings(out)
	return out
}

// c01Replay renders a history for a failure report: per block the time step, the absent validators, the proposer,
// the evidence and the kinds of the transactions (the bytes are reproduced by the seed)
func c01Replay(hist []c01Raw, upTo int) []string {
	var out []string
	for b, raw := range hist {
		if b > upTo {
			break
		}
		out = append(out, fmt.Sprintf("block %d: dt=%s absent=%v proposer=%d evidence=%d mid=%d txs=[%s]", b+1, raw.dt, sortedKeys(raw.absent), raw.proposer, len(raw.evidence), len(raw.mid), strings.Join(raw.kinds, ",")))
	}
	return out
}

func runC01(r *Rec) {
	nOld, nRich, nBlocks, nRichBlocks, k := 4, 10, 14, 36, 3
	if r.Tier == "thorough" {
		nOld, nRich, nBlocks, nRichBlocks, k = 60, 60, 30, 60, 4
	}
	for h := 0; h < nOld+nRich; h++ {
		nAcc, nVal := 6, 2
		var hist []c01Raw
		withCustody := false
		label := ""
		if h < nOld {
			withCustody = h%2 == 1
			hist = c01Generate(r, nBlocks, withCustody, nAcc, nVal)
			label = fmt.Sprintf("history/%d/custody=%v", h, withCustody)
		} else {
			// rich histories: every module's message types; custody level 0 / 1 (single-entry maps: deterministic) / 2
			// (multi-entry maps: the recorded map-marshal-order finding)
			nAcc, nVal = 10, 4
			o := RichOpts{NBlocks: nRichBlocks, NAcc: nAcc, NVal: nVal, Custody: []int{0, 1, 0, 2, 1, 0}[(h-nOld)%6], Label: fmt.Sprintf("rich-%d", h), CommitDelay: h%2 == 1}
			withCustody = o.Custody == 2
			hist = richGenerate(r, o)
			label = fmt.Sprintf("rich-history/%d/custody-level=%d", h, o.Custody)
		}
		var all [][]c01Obs
		var worlds []*World
		// replica 1 is restarted after one or two random blocks (a new application instance on the same database) while
		// the others keep running: anything held in memory that is not re-derived from the store shows as a divergence
		restarts := map[int]bool{}
		if len(hist) > 2 {
			restarts[1+r.Rng.Intn(len(hist)-1)] = true
			// ... and right after a block that carried a rolled-back transaction (its dependent transactions follow)
			var after []int
			for b, raw := range hist {
				for _, kd := range raw.kinds {
					if strings.HasPrefix(kd, "rollback:") && b+1 < len(hist) {
						after = append(after, b+1)
						break
					}
				}
			}
			if len(after) > 0 {
				restarts[after[r.Rng.Intn(len(after))]] = true
			} else if r.Rng.Intn(2) == 0 {
				restarts[1+r.Rng.Intn(len(hist)-1)] = true
			}
		}
		for rep := 0; rep < k; rep++ {
			var ra map[int]bool
			if rep == 1 {
				ra = restarts
			}
			// every replica runs on a host in another time zone (the process-wide local zone is part of the environment no
			// consensus code may depend on)
			savedLocal := time.Local
			time.Local = c01Zones[rep%len(c01Zones)]
			if rep == 0 && h >= nOld {
				// twice during the history the state of replica 0 is exported and new chains are started from the export on
				// hosts in three time zones (see c01ImportZones)
				at := map[int]bool{len(hist) / 3: true, 2 * len(hist) / 3: true}
				lbl := label
				withHistory := 0
				c01AfterBlock = func(bi int, w *World) {
					// ... and at up to three heights at which the state holds records keyed by a time stamp (basket mint /
					// burn / swap history inside its limits period)
					ctx := w.ReadCtx()
					timed := len(w.app.BasketKeeper.GetAllMintAmounts(ctx))+len(w.app.BasketKeeper.GetAllBurnAmounts(ctx))+len(w.app.BasketKeeper.GetAllSwapAmounts(ctx)) > 0
					if at[bi] || (timed && withHistory < 3 && bi%2 == 0) {
						if timed {
							withHistory++
						}
						c01ImportZones(r, fmt.Sprintf("%s@block%d", lbl, bi+1), w)
					}
				}
			}
			o, w := c01RunRestart(hist, nAcc, nVal, time.Duration(rep)*time.Millisecond, ra)
			c01AfterBlock = nil
			time.Local = savedLocal
			all = append(all, o)
			worlds = append(worlds, w)
		}
		if h >= nOld && len(all[0]) == len(hist) && all[0][len(hist)-1].panicAt == "" {
			c01ImportZones(r, label, worlds[0])
		}
		r.Count(fmt.Sprintf("restarts-of-replica-1:%d", len(restarts)))
		// and one re-run of "the same replica", later
		time.Sleep(5 * time.Millisecond)
		o, w := c01Run(hist, nAcc, nVal, 0)
		all = append(all, o)
		worlds = append(worlds, w)
		diverged := ""
		divBlock := 0
		var diff, divStores []string
		otherStore := false
		for rep := 1; rep < len(all) && diverged == ""; rep++ {
			for b := range all[0] {
				if b >= len(all[rep]) {
					diverged = fmt.Sprintf("replica %d stopped at block %d", rep, b+1)
					divBlock = b
					break
				}
				x, y := all[0][b], all[rep][b]
				if x.hash != y.hash || x.updates != y.updates || strings.Join(x.results, ",") != strings.Join(y.results, ",") || x.panicAt != y.panicAt {
					what := "app hash"
					if x.updates != y.updates {
						what = "validator updates"
					}
					if strings.Join(x.results, ",") != strings.Join(y.results, ",") {
						what = "transaction results"
						for i := range x.results {
							if i < len(y.results) && x.results[i] != y.results[i] && i < len(hist[b].kinds) {
								what = fmt.Sprintf("the result of transaction %d (%s)", i+1, hist[b].kinds[i])
								break
							}
						}
					}
					diverged = fmt.Sprintf("replica 0 and replica %d differ in %s after block %d (%s vs %s)", rep, what, b+1, x.hash[:12], y.hash[:12])
					divBlock = b
					diff = c01StoreDiff(worlds[0], worlds[rep])
					// the stores whose commit hash differs in ANY block (a record that diverged can be overwritten with equal
					// bytes later, so the final store diff alone can be empty)
					seen := map[string]bool{}
					for bb := b; bb < len(all[0]) && bb < len(all[rep]); bb++ {
						xs, ys := all[0][bb].stores, all[rep][bb].stores
						for i := range xs {
							if i < len(ys) && xs[i] != ys[i] {
								name := xs[i][:strings.Index(xs[i], ":")]
								if !seen[name] {
									seen[name] = true
									divStores = append(divStores, fmt.Sprintf("%s(block %d)", name, bb+1))
									if name != "custody" {
										otherStore = true
									}
								}
							}
						}
					}
					break
				}
			}
		}
		r.Case(label, true)
		r.Evals += len(hist) * len(all)
		r.Count(fmt.Sprintf("history:rich=%v:custody=%v:diverged=%v", h >= nOld, withCustody, diverged != ""))
		if diverged != "" {
			onlyCustody := len(divStores) > 0 && !otherStore
			for _, d := range diff {
				if !strings.HasPrefix(d, "custody/") {
					onlyCustody = false
				}
			}
			shown := diff
			if len(shown) > 8 {
				// the first records of every store (a custody difference must not hide another store's)
				var pick []string
				last := ""
				for _, d := range diff {
					st := d[:strings.Index(d, "/")]
					if st != last || len(pick) < 4 {
						pick = append(pick, d)
					}
					last = st
					if len(pick) >= 12 {
						break
					}
				}
				shown = append(pick, fmt.Sprintf("… %d records in all", len(diff)))
			}
			if withCustody && onlyCustody {
				r.Known("C01/custody/map-marshal-order", fmt.Sprintf("%s; diverging stores: %s; differing records at the end: %s", diverged, strings.Join(divStores, " "), strings.Join(shown, " ")))
			} else {
				if strings.Contains(diverged, "replica 1 ") {
					diverged += fmt.Sprintf(" [replica 1 was restarted after blocks %v]", sortedKeys(restarts))
				}
				r.Fail("C01/replicas-diverge", fmt.Sprintf("%s: %s; diverging stores: %s; differing records at the end: %s", label, diverged, strings.Join(divStores, " "), strings.Join(shown, " ")), c01Replay(hist, divBlock))
			}
		}
	}
	// the deterministic part of the model side: nothing to send to the model driver except a marker (C01's tie is the
	// regenerated table + this replica run; the model theorems are about machines that take no environment)
	r.Mark("replica runs done")
	r.Extra["rule"] = fmt.Sprintf("%d old-style histories x %d blocks (bank send/multisend, identity records, polls, proposals + votes, staking pools + delegations, custody records with 3-entry maps in every second history) and %d rich histories x %d blocks generated by richGenerate (signed transactions of every module's message types incl. proposals that pass and are enacted, time jumps over every period, absences up to inactivation, double-sign evidence, changing proposers, keeper-level set-up replayed by every replica) on %d replicas + 1 re-run started at different instants; compared after every block: app hash, per-tx result digest (code, data, events), validator updates; raw store diff on mismatch", nOld, nBlocks, nRich, nRichBlocks, k)
}

var c01Zones = []*time.Location{time.UTC, time.FixedZone("EST", -5*3600), time.FixedZone("JST", 9*3600), time.FixedZone("NPT", 5*3600+45*60)}

// c01ImportZones: the state of a replica is exported once and new chains are started from that export on hosts in
// different time zones; after InitChain and the first commit all of them must report the same application hash.
func c01ImportZones(r *Rec, label string, w *World) {
	if c12Probe(func() { w.app.CustomGovKeeper.AllDataRegistry(w.ReadCtx()) }) != nil {
		return // the exporter panics on such a state (recorded finding of C12)
	}
	exp, err := w.app.ExportAppStateAndValidators(false, nil)
	if err != nil {
		return
	}
	// what the export carries that is keyed or stamped by time (evidence of what the comparison below exercises)
	var top map[string]json.RawMessage
	if json.Unmarshal(exp.AppState, &top) == nil {
		var bg struct {
			HistoricalMints []json.RawMessage `json:"historical_mints"`
			HistoricalBurns []json.RawMessage `json:"historical_burns"`
			HistoricalSwaps []json.RawMessage `json:"historical_swaps"`
		}
		if json.Unmarshal(top["basket"], &bg) == nil && len(bg.HistoricalMints)+len(bg.HistoricalBurns)+len(bg.HistoricalSwaps) > 0 {
			r.Count("import-zones:export-with-basket-history")
		}
	}
	var hashes []string
	var worlds []*World
	for _, z := range c01Zones[:3] {
		saved := time.Local
		time.Local = z
		w2, p := c12Import(exp.AppState, w.t0, w.height)
		if p == nil {
			w2.app.Commit()
			hashes = append(hashes, hex.EncodeToString(w2.app.LastCommitID().Hash))
			worlds = append(worlds, w2)
		}
		time.Local = saved
	}
	r.Count("import-zones:chains=" + fmt.Sprint(len(hashes)))
	for i := 1; i < len(hashes); i++ {
		if hashes[i] != hashes[0] {
			var names []string
			for _, name := range c01Stores {
				ka, kb := worlds[0].app.GetKey(name), worlds[i].app.GetKey(name)
				if ka == nil || kb == nil || ka.Name() == "" {
					continue
				}
				ha := worlds[0].app.CommitMultiStore().GetCommitKVStore(ka).LastCommitID().Hash
				hb := worlds[i].app.CommitMultiStore().GetCommitKVStore(kb).LastCommitID().Hash
				if !bytes.Equal(ha, hb) {
					names = append(names, name)
				}
			}
			r.Fail("C01/replicas-diverge/import-under-another-time-zone", fmt.Sprintf("%s: two chains started from the same exported genesis on hosts in the time zones %s and %s report different application hashes after InitChain (%s vs %s; stores %v)", label, c01Zones[0], c01Zones[i], hashes[0][:12], hashes[i][:12], names), nil)
			break
		}
	}
}
