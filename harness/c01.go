package main

// C01: k-replica execution. The same genesis and the same block history (identical transaction bytes, header times,
// proposers, commit votes) run on k independently constructed applications, started at different instants, plus one
// re-run; after every block the app hash, every transaction result and the validator updates are compared, and on a
// mismatch the raw stores are diffed to name the record.

import (
	"bytes"
	"crypto/sha256"
	"encoding/hex"
	"fmt"
	"sort"
	"strings"
	"time"

	custodytypes "github.com/KiraCore/sekai/x/custody/types"
	govtypes "github.com/KiraCore/sekai/x/gov/types"
	multistakingtypes "github.com/KiraCore/sekai/x/multistaking/types"
	slashingtypes "github.com/KiraCore/sekai/x/slashing/types"
	abci "github.com/cometbft/cometbft/abci/types"
	sdk "github.com/cosmos/cosmos-sdk/types"
	banktypes "github.com/cosmos/cosmos-sdk/x/bank/types"
)

func init() { props["C01"] = runC01 }

var c01Stores = []string{"acc", "bank", "customgov", "customstaking", "customslashing", "distributor", "multistaking", "tokens", "spending", "ubi", "basket", "custody", "collectives", "layer2", "recovery", "feeprocessing", "upgrade", "params", "customevidence", "ethereum"}

type c01Block struct {
	msgs   [][]sdk.Msg // one tx per entry
	signer []int
	absent map[int]bool
	dt     time.Duration
}

func c01Digest(r abci.ResponseDeliverTx) string {
	h := sha256.New()
	fmt.Fprintf(h, "%d|%s|%x|", r.Code, r.Codespace, r.Data)
	for _, e := range r.Events {
		fmt.Fprintf(h, "%s{", e.Type)
		for _, a := range e.Attributes {
			fmt.Fprintf(h, "%s=%s;", a.Key, a.Value)
		}
		fmt.Fprintf(h, "}")
	}
	return hex.EncodeToString(h.Sum(nil))[:16]
}

func c01Updates(u []abci.ValidatorUpdate) string {
	var p []string
	for _, x := range u {
		p = append(p, fmt.Sprintf("%x:%d", x.PubKey.GetEd25519(), x.Power))
	}
	sort.Strings(p)
	return strings.Join(p, ",")
}

// c01History builds a block history on a scratch replica (so that account sequences are right) and returns the raw
// transaction bytes per block: every replica then receives exactly these bytes.
type c01Raw struct {
	txs    [][]byte
	absent map[int]bool
	dt     time.Duration
	kinds  []string
}

func c01Generate(r *Rec, nBlocks int, withCustody bool, nAcc, nVal int) []c01Raw {
	w := NewWorld(WorldOpts{NAcc: nAcc, NVal: nVal, SudoAccs: []int{nAcc - 1}})
	A := w.addrs
	sudo := nAcc - 1
	var out []c01Raw
	pollN, propN := uint64(0), uint64(0)
	custodyMade := map[int]bool{}
	key := func(i, gen int) string { return fmt.Sprintf("key-%d-%d", i, gen) }
	sha := func(s string) string { h := sha256.Sum256([]byte(s)); return hex.EncodeToString(h[:]) }
	keyGen := map[int]int{}
	pausedVals := map[int]bool{}
	for b := 0; b < nBlocks; b++ {
		raw := c01Raw{absent: map[int]bool{}, dt: time.Duration(3+r.Rng.Intn(8)) * time.Second}
		if r.Rng.Intn(9) == 0 {
			raw.dt = time.Duration(200+r.Rng.Intn(300)) * time.Second // lets proposals reach voting end / enactment, polls expire
		}
		if r.Rng.Intn(5) == 0 && nVal > 1 {
			raw.absent[r.Rng.Intn(nVal)] = true
		}
		used := map[int]bool{}
		nTx := 1 + r.Rng.Intn(4)
		for t := 0; t < nTx; t++ {
			s := r.Rng.Intn(nAcc)
			if used[s] {
				continue
			}
			used[s] = true
			var msgs []sdk.Msg
			kind := ""
			switch x := r.Rng.Intn(100); {
			case x < 20:
				kind = "send"
				msgs = []sdk.Msg{banktypes.NewMsgSend(A[s], A[r.Rng.Intn(nAcc)], ukex(int64(1+r.Rng.Intn(100000))))}
			case x < 28:
				kind = "multisend"
				amt := ukex(int64(2 + 2*r.Rng.Intn(5000)))
				half := ukex(amt[0].Amount.Int64() / 2)
				msgs = []sdk.Msg{&banktypes.MsgMultiSend{Inputs: []banktypes.Input{{Address: A[s].String(), Coins: amt}}, Outputs: []banktypes.Output{{Address: A[(s+1)%nAcc].String(), Coins: half}, {Address: A[(s+2)%nAcc].String(), Coins: half}}}}
			case x < 40:
				kind = "identity"
				msgs = []sdk.Msg{govtypes.NewMsgRegisterIdentityRecords(A[s], []govtypes.IdentityInfoEntry{{Key: fmt.Sprintf("k%d", r.Rng.Intn(4)), Info: fmt.Sprintf("v%d", r.Rng.Intn(1000))}, {Key: "contact", Info: fmt.Sprintf("c%d", s)}})}
			case x < 50:
				kind = "poll-create"
				s = sudo
				if used[sudo] && t > 0 {
					continue
				}
				used[sudo] = true
				msgs = []sdk.Msg{govtypes.NewMsgPollCreate(A[sudo], "title", "desc", "ref", "chk", []string{"a", "b", "c"}, []string{"sudo"}, 3, "string", 1, fmt.Sprintf("%ds", 20+r.Rng.Intn(60)))}
				pollN++
			case x < 58:
				if pollN == 0 {
					continue
				}
				kind = "poll-vote"
				s = sudo
				if used[sudo] && t > 0 {
					continue
				}
				used[sudo] = true
				msgs = []sdk.Msg{govtypes.NewMsgVotePoll(1+uint64(r.Rng.Intn(int(pollN))), A[sudo], govtypes.PollOptionCustom, "a")}
			case x < 68:
				kind = "proposal"
				s = sudo
				if used[sudo] && t > 0 {
					continue
				}
				used[sudo] = true
				m, _ := govtypes.NewMsgSubmitProposal(A[sudo], "t", "d", govtypes.NewSetNetworkPropertyProposal(govtypes.MinIdentityApprovalTip, govtypes.NetworkPropertyValue{Value: uint64(500 + propN)}))
				msgs = []sdk.Msg{m}
				propN++
			case x < 76:
				if propN == 0 {
					continue
				}
				kind = "vote"
				s = sudo
				if used[sudo] && t > 0 {
					continue
				}
				used[sudo] = true
				msgs = []sdk.Msg{govtypes.NewMsgVoteProposal(1+uint64(r.Rng.Intn(int(propN))), A[sudo], govtypes.OptionYes, sdk.ZeroDec())}
			case x < 80 && s < nVal && nVal > 1:
				// validator owner pauses / unpauses (never the last active one: validator 0 stays)
				if s == 0 {
					continue
				}
				if pausedVals[s] {
					kind = "unpause"
					msgs = []sdk.Msg{slashingtypes.NewMsgUnpause(sdk.ValAddress(A[s]))}
				} else {
					kind = "pause"
					msgs = []sdk.Msg{slashingtypes.NewMsgPause(sdk.ValAddress(A[s]))}
				}
				pausedVals[s] = !pausedVals[s]
			case x < 84:
				kind = "pool+delegate"
				v := r.Rng.Intn(nVal)
				if s < nVal {
					msgs = []sdk.Msg{multistakingtypes.NewMsgUpsertStakingPool(A[s].String(), sdk.ValAddress(A[s]).String(), true, sdk.NewDecWithPrec(5, 2))}
				} else {
					msgs = []sdk.Msg{multistakingtypes.NewMsgDelegate(A[s].String(), sdk.ValAddress(A[v]).String(), ukex(int64(1000+r.Rng.Intn(100000))))}
				}
			default:
				if !withCustody {
					kind = "send"
					msgs = []sdk.Msg{banktypes.NewMsgSend(A[s], A[(s+1)%nAcc], ukex(int64(1+r.Rng.Intn(1000))))}
					break
				}
				if s == sudo {
					continue
				}
				if !custodyMade[s] {
					kind = "custody-create"
					keyGen[s] = 1
					msgs = []sdk.Msg{custodytypes.NewMsgCreateCustody(A[s], custodytypes.CustodySettings{CustodyEnabled: true, CustodyMode: 50}, "", sha(key(s, 1)), "", "")}
					custodyMade[s] = true
				} else {
					kind = "custody-addcust"
					old := key(s, keyGen[s])
					keyGen[s]++
					var add []sdk.AccAddress
					for j := 0; j < 3; j++ {
						add = append(add, A[(s+1+j+r.Rng.Intn(2))%nAcc])
					}
					if r.Rng.Intn(2) == 0 {
						msgs = []sdk.Msg{custodytypes.NewMsgAddToCustodyCustodians(A[s], add, old, sha(key(s, keyGen[s])), "", "")}
					} else {
						kind = "custody-addwl"
						msgs = []sdk.Msg{custodytypes.NewMsgAddToCustodyWhiteList(A[s], add, old, sha(key(s, keyGen[s])), "", "")}
					}
				}
			}
			if msgs == nil {
				continue
			}
			bz, err := w.SignTx(msgs, s, ukex(20000), SignOpts{})
			if err != nil {
				continue
			}
			raw.txs = append(raw.txs, bz)
			raw.kinds = append(raw.kinds, kind)
		}
		// advance the scratch replica so that the next block's sequences are right
		absIdx := map[int]bool{}
		for i := range raw.absent {
			absIdx[i] = true
		}
		br := w.Block(raw.txs, BlockOpts{Absent: absIdx, Dt: raw.dt})
		w.ApplyUpdates(br.Updates)
		for i, res := range br.Results {
			r.Count(fmt.Sprintf("tx:%s:%v", raw.kinds[i], res.Code == 0))
		}
		out = append(out, raw)
	}
	return out
}

type c01Obs struct {
	hash    string
	results []string
	updates string
	panicAt string
}

func c01Run(hist []c01Raw, nAcc, nVal int, pause time.Duration) ([]c01Obs, *World) {
	w := NewWorld(WorldOpts{NAcc: nAcc, NVal: nVal, SudoAccs: []int{nAcc - 1}})
	var obs []c01Obs
	for _, raw := range hist {
		time.Sleep(pause)
		absIdx := map[int]bool{}
		for i := range raw.absent {
			absIdx[i] = true
		}
		br := w.Block(raw.txs, BlockOpts{Absent: absIdx, Dt: raw.dt})
		o := c01Obs{hash: hex.EncodeToString(br.AppHash), updates: c01Updates(br.Updates)}
		for _, res := range br.Results {
			o.results = append(o.results, c01Digest(*res))
		}
		if br.Panicked != nil {
			o.panicAt = br.Phase
			obs = append(obs, o)
			break
		}
		w.ApplyUpdates(br.Updates)
		obs = append(obs, o)
	}
	return obs, w
}

func c01StoreDiff(a, b *World) []string {
	var out []string
	ca, cb := a.ReadCtx(), b.ReadCtx()
	for _, name := range c01Stores {
		ka, kb := a.app.GetKey(name), b.app.GetKey(name)
		if ka == nil || kb == nil || ka.Name() == "" {
			continue
		}
		ma, mb := dumpStore(ca, ka), dumpStore(cb, kb)
		for k, v := range ma {
			if !bytes.Equal(v, mb[k]) {
				out = append(out, fmt.Sprintf("%s/%x", name, []byte(k)))
			}
		}
		for k := range mb {
			if _, ok := ma[k]; !ok {
				out = append(out, fmt.Sprintf("%s/%x (missing)", name, []byte(k)))
			}
		}
	}
	sort.Strings(out)
	if len(out) > 6 {
		out = out[:6]
	}
	return out
}

func runC01(r *Rec) {
	nHist, nBlocks, k := 5, 14, 3
	if r.Tier == "thorough" {
		nHist, nBlocks, k = 60, 30, 4
	}
	nAcc, nVal := 6, 2
	for h := 0; h < nHist*2; h++ {
		withCustody := h%2 == 1
		hist := c01Generate(r, nBlocks, withCustody, nAcc, nVal)
		var all [][]c01Obs
		var worlds []*World
		for rep := 0; rep < k; rep++ {
			o, w := c01Run(hist, nAcc, nVal, time.Duration(rep)*time.Millisecond)
			all = append(all, o)
			worlds = append(worlds, w)
		}
		// and one re-run of "the same replica", later
		time.Sleep(5 * time.Millisecond)
		o, w := c01Run(hist, nAcc, nVal, 0)
		all = append(all, o)
		worlds = append(worlds, w)
		diverged := ""
		var diff []string
		for rep := 1; rep < len(all) && diverged == ""; rep++ {
			for b := range all[0] {
				if b >= len(all[rep]) {
					diverged = fmt.Sprintf("replica %d stopped at block %d", rep, b+1)
					break
				}
				x, y := all[0][b], all[rep][b]
				if x.hash != y.hash || x.updates != y.updates || strings.Join(x.results, ",") != strings.Join(y.results, ",") || x.panicAt != y.panicAt {
					what := "app hash"
					if x.updates != y.updates {
						what = "validator updates"
					}
					if strings.Join(x.results, ",") != strings.Join(y.results, ",") {
						what = "transaction results"
					}
					diverged = fmt.Sprintf("replica 0 and replica %d differ in %s after block %d (%s vs %s)", rep, what, b+1, x.hash[:12], y.hash[:12])
					diff = c01StoreDiff(worlds[0], worlds[rep])
					break
				}
			}
		}
		r.Case(fmt.Sprintf("history/%d/custody=%v", h, withCustody), true)
		r.Evals += len(hist) * len(all)
		r.Count(fmt.Sprintf("history:custody=%v:diverged=%v", withCustody, diverged != ""))
		if diverged != "" {
			onlyCustody := len(diff) > 0
			for _, d := range diff {
				if !strings.HasPrefix(d, "custody/") {
					onlyCustody = false
				}
			}
			if withCustody && onlyCustody {
				r.Known("C01/custody/map-marshal-order", fmt.Sprintf("%s; differing records: %s", diverged, strings.Join(diff, " ")))
			} else {
				r.Fail("C01/replicas-diverge", fmt.Sprintf("history %d: %s; differing records: %s", h, diverged, strings.Join(diff, " ")), nil)
			}
		}
	}
	// the deterministic part of the model side: nothing to send to the model driver except a marker (C01's tie is the
	// regenerated table + this replica run; the model theorems are about machines that take no environment)
	r.Mark("replica runs done")
	r.Extra["rule"] = fmt.Sprintf("%d histories x %d blocks (bank send/multisend, identity records, polls, proposals + votes, staking pools + delegations, custody records with 3-entry maps in every second history) on %d replicas + 1 re-run started at different instants; compared after every block: app hash, per-tx result digest (code, data, events), validator updates; raw store diff on mismatch", nHist*2, nBlocks, k)
}
