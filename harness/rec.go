package main

// Rec: the recorder shared by all property harnesses. It collects the op lines sent to the model, the
// implementation's canonical answers, oracle failures (with a finding key), and the distribution of what
// was generated (for the evidence file).

import (
	"encoding/json"
	"fmt"
	"math/rand"
	"os"
	"path/filepath"
	"sort"
	"strings"
)

type Failure struct {
	Key    string   `json:"key"`    // finding key: property/site/kind
	What   string   `json:"what"`   // human description with the observed values
	Replay []string `json:"replay"` // op lines / history that reproduces it
}

type Rec struct {
	Alias    map[string]string // oracle key -> key under the property being checked (shared scenarios)
	AliasPrefix map[string]string // the same for every key with a given prefix (a whole scenario of another property)
	OnlyProp string // see Fail
	Prop      string
	Tier      string
	Seed      int64
	Rng       *rand.Rand
	ops       []string
	impl      []string
	Failures  []Failure
	Hist      map[string]int // op kind / outcome histogram
	Distinct  map[string]bool
	Samples   []string
	Evals     int
	Notes     []string
	KnownSeen map[string]string // finding key -> what (known-finding witnesses that reproduced)
	Extra     map[string]interface{}
}

func NewRec(prop, tier string, seed int64) *Rec {
	return &Rec{Prop: prop, Tier: tier, Seed: seed, Rng: rand.New(rand.NewSource(seed)), Hist: map[string]int{}, Distinct: map[string]bool{}, KnownSeen: map[string]string{}, Extra: map[string]interface{}{}}
}

// Op records one line for the model and the implementation's answer to it.
func (r *Rec) Op(line, implOut string) {
	r.ops = append(r.ops, line)
	r.impl = append(r.impl, implOut)
	if len(r.Samples) < 12 && r.Rng.Intn(1+len(r.ops)/8) == 0 {
		r.Samples = append(r.Samples, line+"  =>  "+implOut)
	}
}

// Mark opens a new section in both streams (a comment line echoed by the model driver).
func (r *Rec) Mark(s string) { r.Op("# "+s, "# "+s) }

func (r *Rec) Count(k string) { r.Hist[k]++ }

// Case counts one generated case; `sig` identifies it for the distinct count, nontrivial says whether it
// exercised the behaviour under test (per the rule printed into the evidence).
func (r *Rec) Case(sig string, nontrivial bool) {
	r.Evals++
	if nontrivial {
		r.Distinct[sig] = true
	}
}

// Fail records an oracle failure. While OnlyProp is set (a shared scenario runs inside the check of one property), a
// failure whose key belongs to ANOTHER property is left to that property's own check and only counted here.
func (r *Rec) Fail(key, what string, replay []string) {
	if a, ok := r.Alias[key]; ok {
		key = a // the same oracle under the key of the property whose check runs the shared scenario
	}
	for p, np := range r.AliasPrefix {
		if strings.HasPrefix(key, p) {
			key = np + key[len(p):]
			break
		}
	}
	if r.OnlyProp != "" && len(key) > 4 && key[0] == 'C' && key[3] == '/' && key[:3] != r.OnlyProp {
		r.Count("other-property-oracle:" + key[:3])
		return
	}
	r.Failures = append(r.Failures, Failure{Key: key, What: what, Replay: replay})
}

func (r *Rec) Known(key, what string) { r.KnownSeen[key] = what }

func (r *Rec) Write(dir string) {
	os.MkdirAll(dir, 0o755)
	os.WriteFile(filepath.Join(dir, "ops.txt"), []byte(strings.Join(r.ops, "\n")+"\n"), 0o644)
	os.WriteFile(filepath.Join(dir, "impl.txt"), []byte(strings.Join(r.impl, "\n")+"\n"), 0o644)
	var hk []string
	for k := range r.Hist {
		hk = append(hk, k)
	}
	sort.Strings(hk)
	rep := map[string]interface{}{
		"property": r.Prop, "tier": r.Tier, "seed": r.Seed,
		"ops": len(r.ops), "evaluations": r.Evals, "distinct_nontrivial": len(r.Distinct),
		"failures": r.Failures, "histogram": r.Hist, "samples": r.Samples, "notes": r.Notes,
		"known_seen": r.KnownSeen, "extra": r.Extra,
	}
	if r.Failures == nil {
		rep["failures"] = []Failure{}
	}
	bz, _ := json.MarshalIndent(rep, "", " ")
	os.WriteFile(filepath.Join(dir, "report.json"), bz, 0o644)
}

func sprintf(f string, a ...interface{}) string { return fmt.Sprintf(f, a...) }
