package main

// C16, the genesis-construction side: `gentx-claim` (x/staking/client/cli) adds the genesis validator's moniker record to a
// genesis file and moves the identity-record id counter. The identity model (Ident.WF) starts from a state whose counter is
// not behind any record id and whose ids are distinct; a genesis file produced by the tool from a file that satisfies this
// (also one whose ids have GAPS, as an export after deletions has) must satisfy it again - otherwise the first registration
// on the new chain takes over the id of somebody's record.

import (
	"context"
	"encoding/json"
	"fmt"
	"os"
	"path/filepath"
	"strings"
	"time"

	simapp "github.com/KiraCore/sekai/app"
	genutilcli "github.com/KiraCore/sekai/x/genutil/client/cli"
	genutiltypes "github.com/KiraCore/sekai/x/genutil/types"
	govtypes "github.com/KiraCore/sekai/x/gov/types"
	"github.com/KiraCore/sekai/x/staking/client/cli"
	tmtypes "github.com/cometbft/cometbft/types"
	"github.com/cosmos/cosmos-sdk/client"
	"github.com/cosmos/cosmos-sdk/crypto/hd"
	"github.com/cosmos/cosmos-sdk/crypto/keyring"
	"github.com/cosmos/cosmos-sdk/server"
	sdk "github.com/cosmos/cosmos-sdk/types"
	banktypes "github.com/cosmos/cosmos-sdk/x/bank/types"
)

func c16GentxClaim(r *Rec) {
	r.Mark("gentx-claim")
	// record ids already in the file / counter: no records, dense ids, a gap below the counter, a gap and a counter above
	type gcase struct {
		ids     []uint64
		counter uint64
	}
	cases := []gcase{{nil, 0}, {[]uint64{1, 2}, 2}, {[]uint64{2}, 2}, {[]uint64{1, 5}, 5}, {[]uint64{3}, 7}}
	for ci, gc := range cases {
		label := fmt.Sprintf("gentx-claim on a genesis file with identity record ids %v and counter %d", gc.ids, gc.counter)
		func() {
			defer func() {
				if p := recover(); p != nil {
					r.Count("gentx-claim:panicked")
					r.Notes = append(r.Notes, fmt.Sprintf("%s: %v", label, p))
				}
			}()
			home, err := os.MkdirTemp("", "verif-gentx")
			if err != nil {
				r.Count("gentx-claim:no-tempdir")
				return
			}
			defer os.RemoveAll(home)
			os.MkdirAll(filepath.Join(home, "config"), 0o755)
			os.MkdirAll(filepath.Join(home, "data"), 0o755)
			enc := simapp.MakeEncodingConfig()
			cdc := enc.Marshaler
			gs := simapp.NewDefaultGenesisState()
			var gg govtypes.GenesisState
			cdc.MustUnmarshalJSON(gs[govtypes.ModuleName], &gg)
			for i, id := range gc.ids {
				gg.IdentityRecords = append(gg.IdentityRecords, govtypes.IdentityRecord{Id: id, Address: sdk.AccAddress([]byte(fmt.Sprintf("holder_%d____________", i))[:20]).String(),
					Key: "username", Value: fmt.Sprintf("u%d", i), Date: time.Unix(1700000000, 0).UTC(), Verifiers: []string{}})
			}
			gg.LastIdentityRecordId = gc.counter
			gs[govtypes.ModuleName] = cdc.MustMarshalJSON(&gg)
			bz, _ := json.Marshal(gs)
			doc := tmtypes.GenesisDoc{ChainID: "verif-gentx", GenesisTime: time.Unix(1700000100, 0).UTC(), AppState: bz}
			if err := doc.ValidateAndComplete(); err != nil {
				r.Count("gentx-claim:genesis-doc-invalid")
				return
			}
			genFile := filepath.Join(home, "config", "genesis.json")
			if err := doc.SaveAs(genFile); err != nil {
				r.Count("gentx-claim:cannot-write")
				return
			}
			kr := keyring.NewInMemory(cdc)
			if _, _, err := kr.NewMnemonic("val", keyring.English, sdk.FullFundraiserPath, keyring.DefaultBIP39Passphrase, hd.Secp256k1); err != nil {
				r.Count("gentx-claim:no-key")
				return
			}
			sctx := server.NewDefaultContext()
			sctx.Config.SetRoot(home)
			sctx.Config.Moniker = "node"
			cctx := client.Context{}.WithCodec(cdc).WithInterfaceRegistry(enc.InterfaceRegistry).WithTxConfig(enc.TxConfig).WithLegacyAmino(enc.Amino).WithKeyring(kr).WithHomeDir(home)
			cmd := cli.GenTxClaimCmd(banktypes.GenesisBalancesIterator{}, home)
			ctx := context.WithValue(context.Background(), client.ClientContextKey, &cctx)
			ctx = context.WithValue(ctx, server.ServerContextKey, sctx)
			cmd.SetArgs([]string{"val", "--moniker", "genesisval"})
			cmd.SilenceUsage, cmd.SilenceErrors = true, true
			if err := cmd.ExecuteContext(ctx); err != nil {
				r.Count("gentx-claim:command-failed")
				r.Notes = append(r.Notes, label+": "+err.Error())
				return
			}
			out, _, err := genutiltypes.GenesisStateFromGenFile(genFile)
			if err != nil {
				r.Count("gentx-claim:output-unreadable")
				return
			}
			var og govtypes.GenesisState
			cdc.MustUnmarshalJSON(out[govtypes.ModuleName], &og)
			seen := map[uint64]bool{}
			var max uint64
			dup := false
			for _, rec := range og.IdentityRecords {
				dup = dup || seen[rec.Id]
				seen[rec.Id] = true
				if rec.Id > max {
					max = rec.Id
				}
			}
			var idsS []string
			for _, id := range gc.ids {
				idsS = append(idsS, fmt.Sprint(id))
			}
			idl := "-"
			if len(idsS) > 0 {
				idl = strings.Join(idsS, ",")
			}
			r.Op(fmt.Sprintf("ident gentx %s %d", idl, gc.counter), fmt.Sprintf("counter=%d max=%d n=%d", og.LastIdentityRecordId, max, len(og.IdentityRecords)))
			r.Count("gentx-claim:ran")
			r.Case(fmt.Sprintf("gentx-claim/%d", ci), true)
			if len(og.IdentityRecords) != len(gc.ids)+1 {
				r.Fail("C16/genesis-tool/moniker-record-not-added", fmt.Sprintf("%s: the output holds %d identity records", label, len(og.IdentityRecords)), nil)
			}
			if dup || og.LastIdentityRecordId < max {
				r.Fail("C16/genesis-tool/counter-behind-record-ids", fmt.Sprintf("%s: the output has counter %d, largest record id %d, duplicate ids: %v - the next registration on a chain started from it takes the id of an existing record", label, og.LastIdentityRecordId, max, dup), nil)
			}
		}()
	}
}

// c16HardForkTool: `new-genesis-from-exported` (x/genutil/client/cli) turns an exported state into the genesis file of the
// next chain. The identity part passes through it as it is: records, requests and BOTH id counters (a file whose ids have
// gaps keeps counters ahead of every id). Model: the identity state is untouched (`ident hardfork` answers with the input).
func c16HardForkTool(r *Rec) {
	r.Mark("new-genesis-from-exported")
	type hcase struct {
		recIds, reqIds   []uint64
		recCtr, reqCtr uint64
	}
	cases := []hcase{{nil, nil, 0, 0}, {[]uint64{1, 2}, []uint64{1}, 2, 1}, {[]uint64{2}, []uint64{3}, 2, 3}, {[]uint64{1, 5}, nil, 5, 4}, {[]uint64{3}, []uint64{2, 7}, 9, 7}}
	for ci, hc := range cases {
		label := fmt.Sprintf("new-genesis-from-exported on record ids %v (counter %d), request ids %v (counter %d)", hc.recIds, hc.recCtr, hc.reqIds, hc.reqCtr)
		func() {
			defer func() {
				if p := recover(); p != nil {
					r.Count("hardfork-tool:panicked")
					r.Notes = append(r.Notes, fmt.Sprintf("%s: %v", label, p))
				}
			}()
			dir, err := os.MkdirTemp("", "verif-hardfork")
			if err != nil {
				return
			}
			defer os.RemoveAll(dir)
			enc := simapp.MakeEncodingConfig()
			cdc := enc.Marshaler
			gs := simapp.ModuleBasics.DefaultGenesis(cdc)
			var gg govtypes.GenesisState
			cdc.MustUnmarshalJSON(gs[govtypes.ModuleName], &gg)
			holder := func(i int) string { return sdk.AccAddress([]byte(fmt.Sprintf("holder_%d____________", i))[:20]).String() }
			for i, id := range hc.recIds {
				gg.IdentityRecords = append(gg.IdentityRecords, govtypes.IdentityRecord{Id: id, Address: holder(i), Key: "username", Value: fmt.Sprintf("u%d", i), Date: time.Unix(1700000000, 0).UTC(), Verifiers: []string{}})
			}
			for i, id := range hc.reqIds {
				var rids []uint64
				if len(hc.recIds) > 0 {
					rids = []uint64{hc.recIds[0]}
				}
				gg.IdRecordsVerifyRequests = append(gg.IdRecordsVerifyRequests, govtypes.IdentityRecordsVerify{Id: id, Address: holder(0), Verifier: holder(9 + i), RecordIds: rids, Tip: sdk.NewInt64Coin("ukex", 300), LastRecordEditDate: time.Unix(1700000000, 0).UTC()})
			}
			gg.LastIdentityRecordId, gg.LastIdRecordVerifyRequestId = hc.recCtr, hc.reqCtr
			gs[govtypes.ModuleName] = cdc.MustMarshalJSON(&gg)
			bz, _ := json.Marshal(gs)
			doc := tmtypes.GenesisDoc{ChainID: "verif-fork", GenesisTime: time.Unix(1700000100, 0).UTC(), AppState: bz}
			if err := doc.ValidateAndComplete(); err != nil {
				r.Count("hardfork-tool:genesis-doc-invalid")
				return
			}
			in, out := filepath.Join(dir, "exported.json"), filepath.Join(dir, "new.json")
			if err := doc.SaveAs(in); err != nil {
				return
			}
			cctx := client.Context{}.WithCodec(cdc)
			cmd := genutilcli.GetNewGenesisFromExportedCmd(simapp.ModuleBasics, enc.TxConfig)
			cmd.SetArgs([]string{in, out})
			cmd.SilenceUsage, cmd.SilenceErrors = true, true
			if err := cmd.ExecuteContext(context.WithValue(context.Background(), client.ClientContextKey, &cctx)); err != nil {
				r.Count("hardfork-tool:command-failed")
				r.Notes = append(r.Notes, label+": "+err.Error())
				return
			}
			nd, err := tmtypes.GenesisDocFromFile(out)
			if err != nil {
				r.Count("hardfork-tool:output-unreadable")
				return
			}
			var ns map[string]json.RawMessage
			if err := json.Unmarshal(nd.AppState, &ns); err != nil {
				return
			}
			var og govtypes.GenesisState
			cdc.MustUnmarshalJSON(ns[govtypes.ModuleName], &og)
			r.Count("hardfork-tool:ran")
			r.Case(fmt.Sprintf("hardfork-tool/%d", ci), true)
			r.Op(fmt.Sprintf("ident hardfork %d %d %d %d", len(hc.recIds), hc.recCtr, len(hc.reqIds), hc.reqCtr), fmt.Sprintf("records=%d counter=%d requests=%d counter=%d", len(og.IdentityRecords), og.LastIdentityRecordId, len(og.IdRecordsVerifyRequests), og.LastIdRecordVerifyRequestId))
			var maxRec, maxReq uint64
			for _, x := range og.IdentityRecords {
				if x.Id > maxRec {
					maxRec = x.Id
				}
			}
			for _, x := range og.IdRecordsVerifyRequests {
				if x.Id > maxReq {
					maxReq = x.Id
				}
			}
			if og.LastIdentityRecordId < maxRec || og.LastIdRecordVerifyRequestId < maxReq {
				r.Fail("C16/genesis-tool/counter-behind-record-ids", fmt.Sprintf("%s: the output has record counter %d (largest id %d) and request counter %d (largest id %d) - the next registration or request on the forked chain takes the id of an existing one", label, og.LastIdentityRecordId, maxRec, og.LastIdRecordVerifyRequestId, maxReq), nil)
			}
		}()
	}
}
