package main

// C16, the genesis-construction side: `gentx-claim` (x/staking/client/cli) adds the genesis validator's moniker record to a
// genesis file and moves the identity-record id counter. The identity model (Ident.WF) starts from a state whose counter is
// not behind any record id and whose ids are distinct; a genesis file produced by the tool from a file that satisfies this
// (also one whose ids have GAPS, as an export after deletions has) must satisfy it again - otherwise the first registration
// on the new chain takes over the id of somebody's record.

import (
	"context"
	"encoding/json"
	"fmt"
	"os"
	"path/filepath"
	"strings"
	"time"

	simapp "github.com/KiraCore/sekai/app"
	genutiltypes "github.com/KiraCore/sekai/x/genutil/types"
	govtypes "github.com/KiraCore/sekai/x/gov/types"
	"github.com/KiraCore/sekai/x/staking/client/cli"
	tmtypes "github.com/cometbft/cometbft/types"
	"github.com/cosmos/cosmos-sdk/client"
	"github.com/cosmos/cosmos-sdk/crypto/hd"
	"github.com/cosmos/cosmos-sdk/crypto/keyring"
	"github.com/cosmos/cosmos-sdk/server"
	sdk "github.com/cosmos/cosmos-sdk/types"
	banktypes "github.com/cosmos/cosmos-sdk/x/bank/types"
)

func c16GentxClaim(r *Rec) {
	r.Mark("gentx-claim")
	// record ids already in the file / counter: no records, dense ids, a gap below the counter, a gap and a counter above
	type gcase struct {
		ids     []uint64
		counter uint64
	}
	cases := []gcase{{nil, 0}, {[]uint64{1, 2}, 2}, {[]uint64{2}, 2}, {[]uint64{1, 5}, 5}, {[]uint64{3}, 7}}
	for ci, gc := range cases {
		label := fmt.Sprintf("gentx-claim on a genesis file with identity record ids %v and counter %d", gc.ids, gc.counter)
		func() {
			defer func() {
				if p := recover(); p != nil {
					r.Count("gentx-claim:panicked")
					r.Notes = append(r.Notes, fmt.Sprintf("%s: %v", label, p))
				}
			}()
			home, err := os.MkdirTemp("", "verif-gentx")
			if err != nil {
				r.Count("gentx-claim:no-tempdir")
				return
			}
			defer os.RemoveAll(home)
			os.MkdirAll(filepath.Join(home, "config"), 0o755)
			os.MkdirAll(filepath.Join(home, "data"), 0o755)
			enc := simapp.MakeEncodingConfig()
			cdc := enc.Marshaler
			gs := simapp.NewDefaultGenesisState()
			var gg govtypes.GenesisState
			cdc.MustUnmarshalJSON(gs[govtypes.ModuleName], &gg)
			for i, id := range gc.ids {
				gg.IdentityRecords = append(gg.IdentityRecords, govtypes.IdentityRecord{Id: id, Address: sdk.AccAddress([]byte(fmt.Sprintf("holder_%d____________", i))[:20]).String(),
					Key: "username", Value: fmt.Sprintf("u%d", i), Date: time.Unix(1700000000, 0).UTC(), Verifiers: []string{}})
			}
			gg.LastIdentityRecordId = gc.counter
			gs[govtypes.ModuleName] = cdc.MustMarshalJSON(&gg)
			bz, _ := json.Marshal(gs)
			doc := tmtypes.GenesisDoc{ChainID: "verif-gentx", GenesisTime: time.Unix(1700000100, 0).UTC(), AppState: bz}
			if err := doc.ValidateAndComplete(); err != nil {
				r.Count("gentx-claim:genesis-doc-invalid")
				return
			}
			genFile := filepath.Join(home, "config", "genesis.json")
			if err := doc.SaveAs(genFile); err != nil {
				r.Count("gentx-claim:cannot-write")
				return
			}
			kr := keyring.NewInMemory(cdc)
			if _, _, err := kr.NewMnemonic("val", keyring.English, sdk.FullFundraiserPath, keyring.DefaultBIP39Passphrase, hd.Secp256k1); err != nil {
				r.Count("gentx-claim:no-key")
				return
			}
			sctx := server.NewDefaultContext()
			sctx.Config.SetRoot(home)
			sctx.Config.Moniker = "node"
			cctx := client.Context{}.WithCodec(cdc).WithInterfaceRegistry(enc.InterfaceRegistry).WithTxConfig(enc.TxConfig).WithLegacyAmino(enc.Amino).WithKeyring(kr).WithHomeDir(home)
			cmd := cli.GenTxClaimCmd(banktypes.GenesisBalancesIterator{}, home)
			ctx := context.WithValue(context.Background(), client.ClientContextKey, &cctx)
			ctx = context.WithValue(ctx, server.ServerContextKey, sctx)
			cmd.SetArgs([]string{"val", "--moniker", "genesisval"})
			cmd.SilenceUsage, cmd.SilenceErrors = true, true
			if err := cmd.ExecuteContext(ctx); err != nil {
				r.Count("gentx-claim:command-failed")
				r.Notes = append(r.Notes, label+": "+err.Error())
				return
			}
			out, _, err := genutiltypes.GenesisStateFromGenFile(genFile)
			if err != nil {
				r.Count("gentx-claim:output-unreadable")
				return
			}
			var og govtypes.GenesisState
			cdc.MustUnmarshalJSON(out[govtypes.ModuleName], &og)
			seen := map[uint64]bool{}
			var max uint64
			dup := false
			for _, rec := range og.IdentityRecords {
				dup = dup || seen[rec.Id]
				seen[rec.Id] = true
				if rec.Id > max {
					max = rec.Id
				}
			}
			var idsS []string
			for _, id := range gc.ids {
				idsS = append(idsS, fmt.Sprint(id))
			}
			idl := "-"
			if len(idsS) > 0 {
				idl = strings.Join(idsS, ",")
			}
			r.Op(fmt.Sprintf("ident gentx %s %d", idl, gc.counter), fmt.Sprintf("counter=%d max=%d n=%d", og.LastIdentityRecordId, max, len(og.IdentityRecords)))
			r.Count("gentx-claim:ran")
			r.Case(fmt.Sprintf("gentx-claim/%d", ci), true)
			if len(og.IdentityRecords) != len(gc.ids)+1 {
				r.Fail("C16/genesis-tool/moniker-record-not-added", fmt.Sprintf("%s: the output holds %d identity records", label, len(og.IdentityRecords)), nil)
			}
			if dup || og.LastIdentityRecordId < max {
				r.Fail("C16/genesis-tool/counter-behind-record-ids", fmt.Sprintf("%s: the output has counter %d, largest record id %d, duplicate ids: %v - the next registration on a chain started from it takes the id of an existing record", label, og.LastIdentityRecordId, max, dup), nil)
			}
		}()
	}
}
