package main

// REC, part (b): real blocks (signed transactions through the real ABCI calls, validator updates fed to a real CometBFT
// ValidatorSet) around rotations of ACTIVE validators, and the witnesses of the recorded findings.

import (
	"fmt"
	"os"
	"sort"
	"strings"
	"time"

	sdkmath "cosmossdk.io/math"
	recoverytypes "github.com/KiraCore/sekai/x/recovery/types"
	slashingtypes "github.com/KiraCore/sekai/x/slashing/types"
	stakingtypes "github.com/KiraCore/sekai/x/staking/types"
	abci "github.com/cometbft/cometbft/abci/types"
	sdk "github.com/cosmos/cosmos-sdk/types"
	banktypes "github.com/cosmos/cosmos-sdk/x/bank/types"
)

const recTxFee = 20000

func recTxCode(res *abci.ResponseDeliverTx) string {
	switch {
	case res.Code == 0:
		return "ok"
	case res.Codespace == "undefined" && res.Code == 111222:
		return "panic"
	}
	return fmt.Sprintf("err:%s/%d", res.Codespace, res.Code)
}

// position of a consensus key (by model id) in the current CometBFT set, -1 when absent
func (e *recEnv) consPos(cons int) int {
	for pos, v := range e.w.valSet.Validators {
		if id, ok := e.consOf[fmt.Sprintf("%x", []byte(v.Address))]; ok && id == cons {
			return pos
		}
	}
	return -1
}

func (e *recEnv) activeCons() []int {
	var out []int
	for _, v := range e.w.valSet.Validators {
		if id, ok := e.consOf[fmt.Sprintf("%x", []byte(v.Address))]; ok {
			out = append(out, id)
		}
	}
	sort.Ints(out)
	return out
}

// syncAfterBlock: what block processing changes outside the recovery module (fee collector, ukex supply through
// inflation, validator status / rank / streak) is replayed into the model; user balances and the module are NOT.
func (e *recEnv) syncAfterBlock(s *recSnap) {
	e.emit(fmt.Sprintf("rec init-bal a=%d d=ukex n=%s", recFee, recNZ(s.b(recFee, "ukex"))), "ok")
	e.emit(fmt.Sprintf("rec init-supply d=ukex n=%s", recNZ(s.supply["ukex"])), "ok")
	var vs []int
	for a := range s.val {
		vs = append(vs, a)
	}
	sort.Ints(vs)
	for _, a := range vs {
		e.emit(fmt.Sprintf("rec valinfo a=%d info=%d", a, s.val[a][1]), "ok")
	}
}

// oneBlock runs a real block and applies the C06 / C05-style oracles. Returns false when the chain halted.
func (e *recEnv) oneBlock(txs [][]byte, o BlockOpts, what string) (BlockResult, bool) {
	r, w := e.r, e.w
	br := w.Block(txs, o)
	if br.Panicked != nil {
		msg := fmt.Sprintf("%s block %d (%s): panic in %s: %.160v", e.tag, w.height, what, br.Phase, br.Panicked)
		switch p := fmt.Sprint(br.Panicked); {
		case strings.Contains(p, "no concrete type registered for type URL /kira.recovery.Msg"):
			r.Known(kfRecSlashProp, msg)
		case strings.Contains(p, "validator not found") && br.Phase == "end":
			r.Known(kfRecQueued, msg)
		default:
			r.Fail("C06/recovery/halt-after-rotation", msg, e.replay())
		}
		return br, false
	}
	if err := w.ApplyUpdates(br.Updates); err != nil {
		r.Fail("C06/recovery/validator-update-rejected", fmt.Sprintf("%s block %d (%s): CometBFT rejects the validator updates: %v", e.tag, w.height, what, err), e.replay())
		return br, false
	}
	// set sync: consensus keys of the Active validator records = members of the CometBFT set
	ctx := w.ReadCtx()
	app := map[string]bool{}
	for _, v := range w.app.CustomStakingKeeper.GetValidatorSet(ctx) {
		if v.Status == stakingtypes.Active {
			app[fmt.Sprintf("%x", []byte(v.GetConsAddr()))] = true
		}
	}
	tm := map[string]bool{}
	for _, v := range w.valSet.Validators {
		tm[fmt.Sprintf("%x", []byte(v.Address))] = true
	}
	for k := range app {
		if !tm[k] {
			r.Fail("C06/recovery/set-out-of-sync", fmt.Sprintf("%s block %d (%s): active validator with consensus address %s is not in the consensus set", e.tag, w.height, what, k), e.replay())
		}
	}
	for k := range tm {
		if !app[k] {
			r.Fail("C06/recovery/set-out-of-sync", fmt.Sprintf("%s block %d (%s): consensus set member %s is not an active validator of the application", e.tag, w.height, what, k), e.replay())
		}
	}
	return br, true
}

// plainBlocks: n blocks without recovery transactions; `cons` (the rotated validator's key) signs / is absent / proposes
func (e *recEnv) plainBlocks(n int, cons int, what string) bool {
	rng := e.r.Rng
	for b := 0; b < n; b++ {
		o := BlockOpts{Proposer: -1, Dt: time.Duration(4+rng.Intn(6)) * time.Second}
		pos := e.consPos(cons)
		mode := "signs"
		if pos >= 0 {
			switch (b + rng.Intn(2)) % 4 {
			case 0:
				o.Proposer, mode = pos, "proposes"
			case 1:
				o.Absent, mode = map[int]bool{pos: true}, "absent"
			case 2:
				o.Absent, o.Proposer, mode = map[int]bool{pos: true}, pos, "absent+proposer"
			}
		} else {
			mode = "not-in-set"
		}
		// a fee-paying transfer so that the fee collector has something to distribute
		s, t := 3+rng.Intn(3), 3+rng.Intn(3)
		var txs [][]byte
		if bz, err := e.w.SignTx([]sdk.Msg{banktypes.NewMsgSend(e.addrs[s], e.addrs[t], ukex(int64(1+rng.Intn(1000))))}, s, ukex(recTxFee), SignOpts{}); err == nil && s != t {
			txs = append(txs, bz)
		}
		pre := e.snap(e.w.ReadCtx())
		_, ok := e.oneBlock(txs, o, what+"/"+mode)
		e.r.Count("l2-block:" + mode)
		e.r.Case(fmt.Sprintf("%s/block/%d/%s/%s/%v", e.tag, e.w.height, what, mode, ok), pos >= 0)
		if !ok {
			e.emit("rec blocksafe active="+recInts(e.activeCons()), "panic")
			return false
		}
		post := e.snap(e.w.ReadCtx())
		if len(txs) > 0 {
			amt := recNZ(pre.b(s, "ukex")).Sub(recNZ(post.b(s, "ukex")))
			got := recNZ(post.b(t, "ukex")).Sub(recNZ(pre.b(t, "ukex")))
			e.emit(fmt.Sprintf("rec init-bal a=%d d=ukex n=%s", s, recNZ(post.b(s, "ukex"))), "ok")
			e.emit(fmt.Sprintf("rec init-bal a=%d d=ukex n=%s", t, recNZ(post.b(t, "ukex"))), "ok")
			_, _ = amt, got
		}
		e.syncAfterBlock(post)
		e.emit("rec blocksafe active="+recInts(e.activeCons()), "ok")
		e.r.Op(e.obsLine(post), post.String())
		e.globalOracles(post, what)
	}
	return true
}

// txOp: one signed transaction in its own block, replayed on the model
func (e *recEnv) txOp(kind, line string, signer int, msgs []sdk.Msg, o BlockOpts) (code string, before, after *recSnap, ok bool) {
	w := e.w
	before = e.snap(w.ReadCtx())
	// the ante handler takes the fee from the signer before the message runs
	e.emit(fmt.Sprintf("rec init-bal a=%d d=ukex n=%s", signer, recNZ(before.b(signer, "ukex")).SubRaw(recTxFee)), "ok")
	before.bal[signer]["ukex"] = before.b(signer, "ukex").SubRaw(recTxFee)
	bz, err := w.SignTx(msgs, signer, ukex(recTxFee), SignOpts{Gas: 2_000_000})
	if err != nil {
		e.r.Fail("REC/harness/cannot-sign", fmt.Sprintf("%s: %s: %v", e.tag, line, err), nil)
		return "", before, before, false
	}
	br, alive := e.oneBlock([][]byte{bz}, o, kind)
	if len(br.Results) == 0 {
		return "", before, before, false
	}
	code = recTxCode(br.Results[0])
	if code == "panic" && os.Getenv("REC_DEBUG") != "" {
		fmt.Printf("%s: %s: %.3000s\n", e.tag, line, br.Results[0].Log)
	}
	e.emit(line, code)
	e.r.Count("l2-" + kind + ":" + code)
	if !alive {
		return code, before, before, false
	}
	after = e.snap(w.ReadCtx())
	e.syncAfterBlock(after)
	e.r.Op(e.obsLine(after), after.String())
	e.globalOracles(after, line)
	return code, before, after, true
}

func (e *recEnv) l2Frame(line string, allowed []int, before, after *recSnap, rotOld int) {
	for i := range e.addrs {
		if recIn(allowed, i) {
			continue
		}
		vb, va := before.view(i), after.view(i)
		// validator info (rank / streak / status) is changed by block processing; compare the rest
		if vb != va {
			strip := func(s string) string {
				var out []string
				for _, p := range strings.Split(s, " ") {
					if strings.HasPrefix(p, "val=") {
						p = p[:strings.LastIndex(p, "/")]
					}
					out = append(out, p)
				}
				return strings.Join(out, " ")
			}
			if strip(vb) != strip(va) {
				e.r.Fail("C03/recovery/l2/non-signer-changed", fmt.Sprintf("%s: %s changed account %d: [%s] -> [%s]", e.tag, line, i, vb, va), e.replay())
			}
		}
		if rb, ra := before.viewRecs(i), after.viewRecs(i); rb != ra {
			msg := fmt.Sprintf("%s: %s changed the identity records of account %d", e.tag, line, i)
			if rotOld >= 0 && before.staleFor(rotOld, i) {
				e.r.Known(kfRecStaleIdx, msg)
			} else {
				e.r.Fail("C16/recovery/l2/foreign-records-changed", msg, e.replay())
			}
		}
	}
}

// l2RotationOracles: the L1 oracles, with the validator payload reduced to the consensus key (block processing edits rank/streak)
func (e *recEnv) l2RotationOracles(line string, bySecret bool, old, nw int, before, after *recSnap) {
	b2 := *before
	b2.val = map[int][2]int64{}
	for a, v := range before.val {
		b2.val[a] = [2]int64{v[0], 0}
	}
	a2 := *after
	a2.val = map[int][2]int64{}
	for a, v := range after.val {
		a2.val[a] = [2]int64{v[0], 0}
	}
	e.rotationOracles(line, bySecret, old, nw, &b2, &a2)
}

func recHistoryL2(r *Rec, tag string) {
	const nUser, nVal, nFresh = 7, 4, 6
	rng := r.Rng
	r.Mark(tag)
	e := newRecEnv(r, tag, nUser, nVal, nFresh)
	e.l2 = true
	w := e.w
	monikers := map[int]string{0: "north", 1: "South", 2: "east", 3: "west", 4: "trader"}
	if _, ok := e.oneBlock(nil, BlockOpts{Mid: func(ctx sdk.Context) { e.seed(ctx, nVal, monikers, []int{0, 1, 2, 3, 4, 5}) }}, "seed"); !ok {
		return
	}
	e.emitInit(w.ReadCtx())
	V := rng.Intn(nVal)
	U := (V + 1 + rng.Intn(nVal-1)) % nVal
	H := 4 + rng.Intn(3)
	F1, F2 := nUser, nUser+1
	consV, consU := V, U
	opts := func() BlockOpts {
		return BlockOpts{Proposer: -1, Dt: time.Duration(4+rng.Intn(6)) * time.Second}
	}
	A := e.addrs

	// ---- rotation of an active validator by its recovery secret
	proof, ch := recSecretOf(tag + "-secret-V")
	line := fmt.Sprintf("rec register a=%d ch=%d proof=%s", V, e.digest(ch), e.proofTok(""))
	if code, b, a, ok := e.txOp("register", line, V, []sdk.Msg{recoverytypes.NewMsgRegisterRecoverySecret(A[V].String(), ch, "00", "")}, opts()); !ok {
		return
	} else if code == "ok" {
		e.l2Frame(line, []int{V}, b, a, -1)
	}
	if rng.Intn(2) == 0 {
		wrong := fmt.Sprintf("%x", "not-the-secret")
		line = fmt.Sprintf("rec rotsecret payer=%d a=%d new=%d proof=%s", V, V, F1, e.proofTok(wrong))
		code, b, a, ok := e.txOp("rotsecret-wrong-proof", line, V, []sdk.Msg{recoverytypes.NewMsgRotateRecoveryAddress(A[V].String(), A[V].String(), A[F1].String(), wrong)}, opts())
		if !ok {
			return
		}
		if code == "ok" {
			r.Fail("C03/recovery/rotation-without-proof", fmt.Sprintf("%s: %s accepted", e.tag, line), e.replay())
		}
		e.l2Frame(line, []int{V}, b, a, -1)
	}
	o := opts()
	if pos := e.consPos(consV); pos >= 0 && rng.Intn(2) == 0 {
		o.Proposer = pos
	}
	line = fmt.Sprintf("rec rotsecret payer=%d a=%d new=%d proof=%s", V, V, F1, e.proofTok(proof))
	code, b, a, ok := e.txOp("rotsecret", line, V, []sdk.Msg{recoverytypes.NewMsgRotateRecoveryAddress(A[V].String(), A[V].String(), A[F1].String(), proof)}, o)
	if !ok {
		return
	}
	r.Case(fmt.Sprintf("%s/rotsecret-active-validator/%d/%s", e.tag, V, code), true)
	if code != "ok" {
		r.Fail("C03/recovery/valid-proof-rejected", fmt.Sprintf("%s: %s answered %s", e.tag, line, code), e.replay())
		return
	}
	e.l2Frame(line, []int{V, F1}, b, a, V)
	e.l2RotationOracles(line, true, V, F1, b, a)
	if !e.plainBlocks(4+rng.Intn(3), consV, "after-rotation-by-secret") {
		return
	}

	// ---- rotation of an active validator by a holder of half of its recovery tokens
	line = fmt.Sprintf("rec issue a=%d", U)
	if code, b, a, ok := e.txOp("issue", line, U, []sdk.Msg{recoverytypes.NewMsgIssueRecoveryTokens(A[U].String())}, opts()); !ok || code != "ok" {
		if ok {
			r.Fail("REC/harness/issue-failed", fmt.Sprintf("%s: %s answered %s", e.tag, line, code), e.replay())
		}
		return
	} else {
		e.l2Frame(line, []int{U}, b, a, -1)
	}
	denom := e.snap(w.ReadCtx()).tok[U].denom
	if rng.Intn(5) < 3 { // an odd burn makes the supply odd
		n := int64(1 + 2*rng.Intn(3))
		line = fmt.Sprintf("rec burn a=%d d=%s n=%d", U, denom, n)
		if _, b, a, ok := e.txOp("burn", line, U, []sdk.Msg{&recoverytypes.MsgBurnRecoveryTokens{Address: A[U].String(), RrCoin: sdk.NewInt64Coin(denom, n)}}, opts()); !ok {
			return
		} else {
			e.l2Frame(line, []int{U}, b, a, -1)
		}
	}
	sup := e.snap(w.ReadCtx()).supply[denom]
	fl, ce := sup.QuoRaw(2), sup.AddRaw(1).QuoRaw(2)
	give, label := ce, "ceil"
	switch rng.Intn(4) {
	case 0:
		give, label = fl.SubRaw(1), "floor-1"
	case 1:
		give, label = fl, "floor"
	case 2:
		give, label = sup, "all"
	}
	if sup.ModRaw(2).Equal(sdk.OneInt()) {
		label += "/odd"
	} else {
		label += "/even"
	}
	xfer := func(amt sdkmath.Int) bool {
		line := fmt.Sprintf("rec xfer a=%d b=%d d=%s n=%s", U, H, denom, amt)
		code, b, a, ok := e.txOp("xfer", line, U, []sdk.Msg{banktypes.NewMsgSend(A[U], A[H], sdk.NewCoins(sdk.NewCoin(denom, amt)))}, opts())
		if ok {
			e.l2Frame(line, []int{U, H}, b, a, -1)
		}
		return ok && code == "ok"
	}
	if !xfer(give) {
		return
	}
	line = fmt.Sprintf("rec reghold a=%d", H)
	if _, b, a, ok := e.txOp("reghold", line, H, []sdk.Msg{recoverytypes.NewMsgRegisterRRTokenHolder(A[H])}, opts()); !ok {
		return
	} else {
		e.l2Frame(line, []int{H}, b, a, -1)
	}
	rotate := func(label string) (string, bool) {
		o := opts()
		if pos := e.consPos(consU); pos >= 0 && rng.Intn(2) == 0 {
			o.Absent = map[int]bool{pos: true}
		}
		line := fmt.Sprintf("rec rotholder h=%d a=%d new=%d", H, U, F2)
		code, b, a, ok := e.txOp("rotholder", line, H, []sdk.Msg{recoverytypes.NewMsgRotateValidatorByHalfRRTokenHolder(A[H].String(), A[U].String(), A[F2].String())}, o)
		if !ok {
			return code, false
		}
		held, s := recNZ(b.b(H, denom)), recNZ(b.supply[denom])
		expect := "ok"
		if held.MulRaw(2).LT(s) {
			expect = "err:recovery/11"
		}
		r.Count(fmt.Sprintf("l2-rotholder-threshold:%s:%s", label, code))
		r.Case(fmt.Sprintf("%s/rotholder-active-validator/%d/%s/%s", e.tag, U, label, code), true)
		if code != expect {
			r.Fail("C03/recovery/threshold", fmt.Sprintf("%s: %s with %s of %s tokens answered %s, the decision rule gives %s", e.tag, line, held, s, code, expect), e.replay())
		}
		if code == "ok" {
			e.l2Frame(line, []int{H, U, F2}, b, a, U)
			e.l2RotationOracles(line, false, U, F2, b, a)
		} else {
			e.l2Frame(line, []int{H}, b, a, -1)
		}
		return code, true
	}
	code, ok = rotate(label)
	if !ok {
		return
	}
	if code != "ok" {
		// top up to a clear majority and rotate for real
		if !xfer(sdkmath.NewInt(2)) {
			return
		}
		if code, ok = rotate("topped-up"); !ok || code != "ok" {
			return
		}
	}
	if !e.plainBlocks(4+rng.Intn(3), consU, "after-rotation-by-holder") {
		return
	}

	// ---- rewards of the rotated issuer: allocation (keeper level, inside a real block), then the holder claims by transaction
	amt := sdkmath.NewInt(1_000 + rng.Int63n(5_000_000))
	var allocCode string
	_, alive := e.oneBlock(nil, BlockOpts{Proposer: -1, Mid: func(ctx sdk.Context) {
		// the fee collector was changed by BeginBlock: replay it, then fund it and allocate
		s0 := e.snap(ctx)
		e.syncAfterBlock(s0)
		save := e.ctx
		e.ctx = ctx
		if e.opXfer(3, recFee, "ukex", amt) == "ok" {
			allocCode = e.opAlloc(F2, amt)
		}
		e.ctx = save
	}}, "allocate")
	if !alive {
		return
	}
	post := e.snap(w.ReadCtx())
	e.syncAfterBlock(post)
	e.r.Op(e.obsLine(post), post.String())
	_ = allocCode
	line = fmt.Sprintf("rec claimrr a=%d", H)
	if code, b, a, ok := e.txOp("claimrr", line, H, []sdk.Msg{recoverytypes.NewMsgClaimRRHolderRewards(A[H])}, opts()); !ok {
		return
	} else if code == "ok" {
		e.l2Frame(line, []int{H}, b, a, -1)
		got := recNZ(a.b(H, "ukex")).Sub(recNZ(b.b(H, "ukex")))
		if !got.Equal(recNZ(b.hrw[H])) {
			r.Fail("C04/recovery/claim-pays-other-than-recorded", fmt.Sprintf("%s: %s paid %s, recorded %s", e.tag, line, got, b.hrw[H]), e.replay())
		}
		r.Case(fmt.Sprintf("%s/claim-after-rotation/%v", e.tag, !recNZ(b.hrw[H]).IsZero()), !recNZ(b.hrw[H]).IsZero())
	}
	// the new address of the first rotation (it received the coins and the account) acts for itself: it issues tokens
	line = fmt.Sprintf("rec issue a=%d", F1)
	if _, b, a, ok := e.txOp("issue-by-new-address", line, F1, []sdk.Msg{recoverytypes.NewMsgIssueRecoveryTokens(A[F1].String())}, opts()); !ok {
		return
	} else {
		e.l2Frame(line, []int{F1}, b, a, -1)
	}
	e.plainBlocks(3, consV, "tail")
}

// ---------------------------------------------------------------------------------------------------------------------
// witnesses of the Lean counterexample theorems (SekaiProofs.Props.REC), replayed on the real code

func recWitnesses(r *Rec) {
	// (1) two accounts without a moniker both mint "rr/": collision of the denomination
	{
		r.Mark("witness: denomination collision")
		e := newRecEnv(r, "w-collision", 6, 2, 3)
		e.seed(e.ctx, 2, map[int]string{0: "alpha", 1: "bravo"}, nil)
		e.emitInit(e.ctx)
		e.opIssue(3)
		e.opIssue(4)
		e.opRotateHolder(3, 4, 6, "namesake")
		r.Case("witness/collision", true)
	}
	// (2) rotation by a holder onto an existing validator that issued tokens itself
	{
		r.Mark("witness: rotation onto an existing validator / issuer")
		e := newRecEnv(r, "w-overwrite", 6, 3, 3)
		e.seed(e.ctx, 3, map[int]string{0: "alpha", 1: "bravo", 2: "charlie"}, []int{2})
		e.w.app.MultiStakingKeeper.SetDelegatorRewards(e.ctx, e.addrs[0], ukex(700))
		e.w.app.MultiStakingKeeper.SetDelegatorRewards(e.ctx, e.addrs[2], ukex(900))
		e.emitInit(e.ctx)
		e.opIssue(0)
		e.opIssue(2)
		e.opRotateHolder(0, 0, 2, "all")
		r.Case("witness/overwrite", true)
	}
	// (3) a second rotation of the same old address moves the records of its successor
	{
		r.Mark("witness: second rotation of an address moves the successor's records")
		e := newRecEnv(r, "w-stale", 6, 2, 3)
		e.seed(e.ctx, 2, map[int]string{0: "alpha", 1: "bravo", 3: "delta"}, nil)
		e.emitInit(e.ctx)
		e.opRegister(3, "w-stale-secret", "")
		e.opRotateSecret(3, 3, 6, e.proofs[3])
		e.opRotateSecret(4, 3, 7, e.proofs[3])
		r.Case("witness/stale-index", true)
	}
	// (4) one address registered for two denominations, one a prefix of the other: the allocation panics
	{
		r.Mark("witness: holder registered under a prefix denomination")
		e := newRecEnv(r, "w-prefix", 6, 2, 2)
		e.seed(e.ctx, 2, map[int]string{0: "val", 1: "val2"}, nil)
		e.emitInit(e.ctx)
		e.opIssue(0)
		e.opIssue(1)
		e.opXfer(0, 4, "rr/val", sdkmath.NewInt(6_000_000_000_000))
		e.opXfer(1, 4, "rr/val2", sdkmath.NewInt(2_000_000))
		e.opRegHolder(4)
		e.opRegHolder(4)
		e.opXfer(3, recFee, "ukex", sdkmath.NewInt(1000))
		e.opAlloc(0, sdkmath.NewInt(1000))
		r.Case("witness/prefix-allocation", true)
	}
	// (5) real blocks: a pending slash proposal against the rotated validator is overwritten with the rotation message
	{
		r.Mark("witness: slash proposal clobbered, chain halts")
		e := newRecEnv(r, "w-slashprop", 5, 3, 2)
		w := e.w
		proof, ch := recSecretOf("w-slashprop-secret")
		var pid uint64
		_, ok := e.oneBlock(nil, BlockOpts{Mid: func(ctx sdk.Context) {
			e.seed(ctx, 3, map[int]string{0: "alpha", 1: "bravo", 2: "charlie"}, nil)
			pid, _ = w.app.CustomGovKeeper.CreateAndSaveProposalWithContent(ctx, "slash", "double sign", slashingtypes.NewSlashValidatorProposal(sdk.ValAddress(e.addrs[0]).String(), 1, ctx.BlockTime(), "double-sign", 1, nil, ""))
		}}, "seed")
		if ok {
			e.emitInit(w.ReadCtx())
			e.emit(fmt.Sprintf("rec slashprop id=%d off=0", pid), "ok")
			line := fmt.Sprintf("rec register a=0 ch=%d proof=%s", e.digest(ch), e.proofTok(""))
			_, _, _, ok = e.txOp("register", line, 0, []sdk.Msg{recoverytypes.NewMsgRegisterRecoverySecret(e.addrs[0].String(), ch, "00", "")}, BlockOpts{Proposer: -1})
		}
		if ok {
			line := fmt.Sprintf("rec rotsecret payer=0 a=0 new=5 proof=%s", e.proofTok(proof))
			_, _, _, ok = e.txOp("rotsecret", line, 0, []sdk.Msg{recoverytypes.NewMsgRotateRecoveryAddress(e.addrs[0].String(), e.addrs[0].String(), e.addrs[5].String(), proof)}, BlockOpts{Proposer: -1})
		}
		for b := 0; ok && b < 6; b++ {
			_, ok = e.oneBlock(nil, BlockOpts{Proposer: -1, Dt: 400 * time.Second}, "after-clobber")
		}
		if ok {
			r.Notes = append(r.Notes, "slash-proposal witness: the chain did not halt on this tree")
			e.emit("rec blocksafe active="+recInts(e.activeCons()), "ok")
		} else {
			e.emit("rec blocksafe active="+recInts(e.activeCons()), "panic")
		}
		r.Case("witness/slash-proposal", true)
	}
	// (6) real blocks: pause and rotation of the same validator in one block
	{
		r.Mark("witness: rotation with a queued validator-set change")
		e := newRecEnv(r, "w-queued", 5, 3, 2)
		w := e.w
		proof, ch := recSecretOf("w-queued-secret")
		_, ok := e.oneBlock(nil, BlockOpts{Mid: func(ctx sdk.Context) {
			e.seed(ctx, 3, map[int]string{0: "alpha", 1: "bravo", 2: "charlie"}, nil)
		}}, "seed")
		if ok {
			e.emitInit(w.ReadCtx())
			line := fmt.Sprintf("rec register a=1 ch=%d proof=%s", e.digest(ch), e.proofTok(""))
			_, _, _, ok = e.txOp("register", line, 1, []sdk.Msg{recoverytypes.NewMsgRegisterRecoverySecret(e.addrs[1].String(), ch, "00", "")}, BlockOpts{Proposer: -1})
		}
		if ok {
			e.emit("rec queue a=1", "ok")
			line := fmt.Sprintf("rec rotsecret payer=1 a=1 new=5 proof=%s", e.proofTok(proof))
			_, _, _, ok = e.txOp("pause+rotsecret", line, 1, []sdk.Msg{slashingtypes.NewMsgPause(sdk.ValAddress(e.addrs[1])), recoverytypes.NewMsgRotateRecoveryAddress(e.addrs[1].String(), e.addrs[1].String(), e.addrs[5].String(), proof)}, BlockOpts{Proposer: -1})
			if ok {
				r.Notes = append(r.Notes, "queued-change witness: the chain did not halt on this tree")
				e.emit("rec blocksafe active="+recInts(e.activeCons()), "ok")
			} else {
				e.emit("rec blocksafe active="+recInts(e.activeCons()), "panic")
			}
		}
		r.Case("witness/queued-change", true)
	}
}
