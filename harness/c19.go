package main

import (
	"time"
	"fmt"
	"github.com/cosmos/cosmos-sdk/store/prefix"
	"reflect"
	"sort"
	"strings"

	simapp "github.com/KiraCore/sekai/app"
	govkeeper "github.com/KiraCore/sekai/x/gov/keeper"
	govtypes "github.com/KiraCore/sekai/x/gov/types"
	sdk "github.com/cosmos/cosmos-sdk/types"
)

func init() { props["C19"] = func(r *Rec) { runC19(r); c19ConcurrentProposals(r); c19OnlyPassedProposals(r); c08Quorum(r) } }

// encS: one token per string — empty string is "~", '%' and ' ' are percent-escaped
func encS(s string) string {
	if s == "" {
		return "~"
	}
	s = strings.ReplaceAll(s, "%", "%25")
	s = strings.ReplaceAll(s, " ", "%20")
	s = strings.ReplaceAll(s, "~", "%7E")
	s = strings.ReplaceAll(s, "\n", "%0A")
	s = strings.ReplaceAll(s, "\t", "%09")
	return s
}

func npShow(v govtypes.NetworkPropertyValue, err error) string {
	if err != nil {
		return "err"
	}
	return fmt.Sprintf("%d %s", v.Value, encS(v.StrValue))
}

func npIds() []int {
	var ids []int
	for id := range govtypes.NetworkProperty_name {
		ids = append(ids, int(id))
	}
	sort.Ints(ids)
	return ids
}

func npDump(ctx sdk.Context, k govkeeper.Keeper) string {
	var parts []string
	for _, id := range npIds() {
		v, err := k.GetNetworkProperty(ctx, govtypes.NetworkProperty(id))
		if err != nil {
			continue // ids without arm are not part of the model's dump
		}
		parts = append(parts, fmt.Sprintf("%d=%s", id, npShow(v, nil)))
	}
	return strings.Join(parts, ";")
}

func npSnapshot(ctx sdk.Context, k govkeeper.Keeper) map[int]string {
	m := map[int]string{}
	for _, id := range npIds() {
		v, err := k.GetNetworkProperty(ctx, govtypes.NetworkProperty(id))
		m[id] = npShow(v, err)
	}
	return m
}

var npU64Cands = []uint64{0, 1, 2, 3, 100, 99999, 604799, 604800, 604801, 2629799, 2629800, 2629801, 31557600, 31557601, 1 << 32, 1<<63 - 1, 1 << 63, 1<<64 - 1}
var npDecCands = []string{"0", "1", "0.5", "0.500000000000000001", "0.499999999999999999", "1.000000000000000001", "-0.1", "-0", "0.333333333333333333", "0.333333333333333334", "0.33", "abc", "", "1.", ".5", "--1", "+1", "+0.25", "1.0000000000000000001", "1e3", "0.1.2", "2", "0.05", "00.10", "1_0", "0.-5", "١"}
// c19KeysBad: the validity rule of unique_identity_keys, written down independently of the implementation's helper
// functions: a comma-separated list of lower-case identity keys (a letter, then letters, digits and underscores - the
// whole key), naming "moniker"
func c19KeysBad(ks string) string {
	if ks == "" {
		return "empty"
	}
	hasMoniker := false
	for _, key := range strings.Split(ks, ",") {
		if key == "" {
			return "an empty key"
		}
		for i, c := range key {
			letter := c >= 'a' && c <= 'z'
			if !(letter || (i > 0 && (c == '_' || (c >= '0' && c <= '9')))) {
				return fmt.Sprintf("key %q has the character %q at position %d", key, c, i)
			}
		}
		hasMoniker = hasMoniker || key == "moniker"
	}
	if !hasMoniker {
		return "moniker missing"
	}
	return ""
}

var npKeyTails = []string{"user-name", "e mail", "nick.name", "key\n", "k9_", "_abc", "a-", "a\tb", "caf\u00e9", "x", "1x", "good_key"}

var npStrCands = []string{"moniker,username", "moniker", "username", "Moniker,username", "moniker,username,foo", "moniker,,username", "moniker,1bad", "", "moniker,username,contact", "moniker,user_name9", "moniker,user-name", "moniker, username",
	// the old keys kept, one more key that is well-formed only up to some character (or not at all)
	"moniker,username,user-name", "moniker,username,e mail", "moniker,username,nick.name", "moniker,username,key\n", "moniker,username,k9_", "moniker,username,_abc", "moniker,username,a-", "moniker,username,a\tb", "moniker,username,caf\u00e9"}

func runC19(r *Rec) {
	defer func() { c19Genesis(r, NewWorld(WorldOpts{NAcc: 2, NVal: 1, SudoAccs: []int{0}})) }()
	w := NewWorld(WorldOpts{NAcc: 9, NVal: 1, SudoAccs: []int{0}})
	k := w.app.CustomGovKeeper
	ctx := w.KeeperCtx()
	ids := npIds()

	// identity records: two accounts share a value under key "contact" (EnsureUniqueKeys must see it)
	k.RegisterIdentityRecords(ctx, w.addrs[1], []govtypes.IdentityInfoEntry{{Key: "contact", Info: "same"}, {Key: "foo", Info: "a"}})
	k.RegisterIdentityRecords(ctx, w.addrs[2], []govtypes.IdentityInfoEntry{{Key: "contact", Info: "same"}, {Key: "foo", Info: "b"}})
	var recs []string
	for _, rec := range k.GetAllIdentityRecords(ctx) {
		recs = append(recs, rec.Key+":"+rec.Value)
	}

	kindOf := func(id int) string {
		v, err := k.GetNetworkProperty(ctx, govtypes.NetworkProperty(id))
		if err != nil {
			return "none"
		}
		if v.StrValue != "" {
			if id == int(govtypes.UniqueIdentityKeys) {
				return "str"
			}
			return "dec"
		}
		return "u64"
	}
	kinds := map[int]string{}
	for _, id := range ids {
		kinds[id] = kindOf(id)
	}

	loadModel := func() {
		r.Op("props reset", "ok")
		if len(recs) > 0 {
			r.Op("props records "+strings.Join(recs, ";"), "ok")
		}
		for _, id := range ids {
			v, err := k.GetNetworkProperty(ctx, govtypes.NetworkProperty(id))
			if err != nil {
				continue
			}
			r.Op(fmt.Sprintf("props load %d %d %s", id, v.Value, encS(v.StrValue)), "ok")
		}
		r.Op("props dump", npDump(ctx, k))
		r.Op("props valid", "1")
	}
	loadModel()

	// one set through the keeper (as message-level cache: write on success), with the oracle of the property
	doSet := func(id int, val uint64, sv string, path string) {
		before := npSnapshot(ctx, k)
		var err error
		req := govtypes.NetworkPropertyValue{Value: val, StrValue: sv}
		if path == "dryrun" {
			// the set runs on a cache context that is DISCARDED whatever the verdict (MsgSubmitProposal dry-runs
			// every proposal like this; a failed later message of a transaction has the same effect): nothing may
			// change, neither now nor through a later write in the same block
			cc, _ := ctx.CacheContext()
			err = k.SetNetworkProperty(cc, govtypes.NetworkProperty(id), req)
			out := "ok"
			if err != nil {
				out = "err"
			}
			r.Op(fmt.Sprintf("props dryrun %d %d %s", id, val, encS(sv)), out)
			r.Op("props dump", npDump(ctx, k))
			r.Count("dryrun:" + kinds[id] + ":" + out)
			r.Case(fmt.Sprintf("dry/%d/%d/%s/%s", id, val, sv, out), true)
			after := npSnapshot(ctx, k)
			for _, oid := range ids {
				if before[oid] != after[oid] {
					r.Fail("C19/discarded-write/visible", fmt.Sprintf("a set of id %d executed on a discarded cache context changed id %d from %s to %s", id, oid, before[oid], after[oid]), []string{fmt.Sprintf("props dryrun %d %d %s", id, val, encS(sv))})
				}
			}
			return
		}
		switch path {
		case "keeper":
			err = withCache(ctx, func(c sdk.Context) error { return k.SetNetworkProperty(c, govtypes.NetworkProperty(id), req) })
		case "proposal":
			content := &govtypes.SetNetworkPropertyProposal{NetworkProperty: govtypes.NetworkProperty(id), Value: req}
			// the proposal handler rejects a no-op update before calling the keeper; mirror that here so the
			// model sees the same op stream: a rejected no-op is reported as `same`
			cur, gerr := k.GetNetworkProperty(ctx, govtypes.NetworkProperty(id))
			if gerr == nil && cur == req {
				err = w.Enact(ctx, 1, content)
				if err == nil {
					r.Fail("C19/proposal/no-op-accepted", fmt.Sprintf("proposal setting id %d to its current value was applied", id), nil)
				}
				r.Count("proposal-noop")
				return
			}
			err = w.Enact(ctx, 1, content)
		}
		out := "ok"
		if err != nil {
			out = "err"
		}
		line := fmt.Sprintf("props set %d %d %s", id, val, encS(sv))
		r.Op(line, out)
		r.Op("props dump", npDump(ctx, k))
		r.Count(path + ":" + kinds[id] + ":" + out)
		r.Case(fmt.Sprintf("%d/%d/%s/%s", id, val, sv, out), true)
		after := npSnapshot(ctx, k)
		// ---- oracle (C19) on the implementation
		for _, j := range ids {
			if j == id {
				continue
			}
			if before[j] != after[j] {
				r.Fail("C19/set/frame", fmt.Sprintf("set id=%d changed id=%d: %s -> %s", id, j, before[j], after[j]), []string{line})
			}
		}
		if err != nil {
			if before[id] != after[id] {
				r.Fail("C19/set/rejected-but-changed", fmt.Sprintf("rejected set id=%d changed it: %s -> %s", id, before[id], after[id]), []string{line})
			}
		} else {
			want := ""
			switch kinds[id] {
			case "u64":
				want = fmt.Sprintf("%d ~", val)
				if id == int(govtypes.EnableForeignFeePayments) || id == int(govtypes.EnableTokenWhitelist) || id == int(govtypes.EnableTokenBlacklist) {
					if val != 0 {
						want = "1 ~"
					}
				}
			case "str":
				want = "0 " + encS(sv)
			case "dec":
				d, derr := sdk.NewDecFromStr(sv)
				if derr == nil {
					want = "0 " + d.String()
				}
			}
			if want != "" && after[id] != want {
				r.Fail("C19/set/read-back", fmt.Sprintf("set id=%d to (%d,%q) reads back %s, want %s", id, val, sv, after[id], want), []string{line})
			}
			if bad := c19KeysBad(k.GetNetworkProperties(ctx).UniqueIdentityKeys); bad != "" {
				r.Fail("C19/set/stored-unique-keys-malformed", fmt.Sprintf("after set id=%d the stored unique_identity_keys %q are not valid: %s", id, k.GetNetworkProperties(ctx).UniqueIdentityKeys, bad), []string{line})
			}
			if verr := k.ValidateNetworkProperties(ctx, k.GetNetworkProperties(ctx)); verr != nil {
				r.Fail("C19/set/stored-invalid", fmt.Sprintf("after set id=%d stored record invalid: %v", id, verr), []string{line})
			}
		}
	}

	// 1. every id × every boundary value of its kind, keeper path and proposal path
	for _, path := range []string{"keeper", "proposal"} {
		r.Mark("path " + path)
		for _, id := range ids {
			switch kinds[id] {
			case "u64", "none":
				for _, v := range npU64Cands {
					doSet(id, v, "", path)
				}
				doSet(id, 7, "0.5", path) // both fields filled
			case "dec":
				for _, s := range npDecCands {
					doSet(id, 0, s, path)
				}
				doSet(id, 5, "0.25", path)
			case "str":
				for _, s := range npStrCands {
					doSet(id, 0, s, path)
				}
				// the keys on record kept, one more key that is well-formed only up to some character
				for _, tail := range npKeyTails {
					cur, _ := k.GetNetworkProperty(ctx, govtypes.NetworkProperty(id))
					doSet(id, 0, cur.StrValue+","+tail, path)
				}
			}
		}
	}

	// 2. random sequences from random starting configurations
	n := 400
	if r.Tier == "thorough" {
		n = 20000
	}
	r.Mark("random sequences")
	for i := 0; i < n; i++ {
		if r.Rng.Intn(150) == 0 {
			// the gov state goes through its own genesis export / import (a restart from an exported genesis): every
			// property must read back as before, and the updates that follow must behave as before
			before := npDump(ctx, k)
			if f := w.ReimportGovInPlace(ctx); f != nil {
				r.Fail("C19/genesis/reimport-failed", fmt.Sprintf("gov InitGenesis of the exported state failed: %v", f), nil)
			} else if after := npDump(ctx, k); after != before {
				r.Fail("C19/genesis/properties-changed-by-export-import", "before: "+before+" after: "+after, nil)
			}
			r.Op("props dump", npDump(ctx, k))
			r.Count("reimport")
			continue
		}
		id := ids[r.Rng.Intn(len(ids))]
		path := []string{"keeper", "proposal", "keeper", "proposal", "dryrun"}[r.Rng.Intn(5)]
		switch kinds[id] {
		case "u64", "none":
			var v uint64
			switch r.Rng.Intn(3) {
			case 0:
				v = npU64Cands[r.Rng.Intn(len(npU64Cands))]
			case 1:
				v = uint64(r.Rng.Int63n(40000000))
			default:
				v = r.Rng.Uint64()
			}
			doSet(id, v, "", path)
		case "dec":
			var s string
			if r.Rng.Intn(2) == 0 {
				s = npDecCands[r.Rng.Intn(len(npDecCands))]
			} else {
				s = fmt.Sprintf("%d.%0*d", r.Rng.Intn(2), 1+r.Rng.Intn(18), r.Rng.Intn(1000))
			}
			doSet(id, 0, s, path)
		case "str":
			if r.Rng.Intn(3) == 0 {
				cur, _ := k.GetNetworkProperty(ctx, govtypes.NetworkProperty(id))
				doSet(id, 0, cur.StrValue+","+npKeyTails[r.Rng.Intn(len(npKeyTails))], path)
			} else {
				doSet(id, 0, npStrCands[r.Rng.Intn(len(npStrCands))], path)
			}
		}
	}

	// 3. whole-record path (MsgSetNetworkProperties through the msg server): permission gate + validation
	r.Mark("message path")
	ms := govkeeper.NewMsgServerImpl(k)
	if actor, ok := k.GetNetworkActorByAddress(ctx, w.addrs[0]); ok {
		k.AddWhitelistPermission(ctx, actor, govtypes.PermChangeTxFee)
	}
	cur := *k.GetNetworkProperties(ctx)
	type tc struct {
		who  int
		mut  func(p *govtypes.NetworkProperties)
		want bool
		name string
	}
	cases := []tc{
		{0, func(p *govtypes.NetworkProperties) { p.MinTxFee = 77 }, true, "sudo-valid"},
		{1, func(p *govtypes.NetworkProperties) { p.MinTxFee = 78 }, false, "stranger-valid"},
		{0, func(p *govtypes.NetworkProperties) { p.MinTxFee = 0 }, false, "sudo-zero-minfee"},
		{0, func(p *govtypes.NetworkProperties) { p.MaxTxFee = 1; p.MinTxFee = 2 }, false, "sudo-max-below-min"},
		{0, func(p *govtypes.NetworkProperties) { p.VoteQuorum = sdk.NewDecWithPrec(11, 1) }, false, "sudo-quorum-above-1"},
		{0, func(p *govtypes.NetworkProperties) { p.UnstakingPeriod = p.SlashingPeriod + 1 }, false, "sudo-unstaking-above-slashing"},
		{0, func(p *govtypes.NetworkProperties) { p.UniqueIdentityKeys = "username" }, false, "sudo-no-moniker"},
		{0, func(p *govtypes.NetworkProperties) { p.InflationPeriod = 2629799 }, false, "sudo-inflation-period-low"},
		{0, func(p *govtypes.NetworkProperties) { p.MaxJailedPercentage = sdk.NewDecWithPrec(34, 2) }, false, "sudo-jailed-above-third"},
	}
	// who holds the change permission is decided by the permission rule (C07: an individual or role blacklist beats
	// every whitelist). Accounts 2..4: role-whitelisted + individually blacklisted; individually whitelisted + role-
	// blacklisted; role-whitelisted only.
	{
		perm := govtypes.PermValue(govtypes.PermChangeTxFee)
		rw := k.CreateRole(ctx, "np-granter", "grants the change permission")
		k.WhitelistRolePermission(ctx, rw, perm)
		rb := k.CreateRole(ctx, "np-denier", "denies the change permission")
		k.BlacklistRolePermission(ctx, rb, perm)
		actor := func(i int) govtypes.NetworkActor {
			a, ok := k.GetNetworkActorByAddress(ctx, w.addrs[i])
			if !ok {
				a = govtypes.NewDefaultActor(w.addrs[i])
				k.SaveNetworkActor(ctx, a)
			}
			return a
		}
		k.AssignRoleToActor(ctx, actor(2), uint64(rw))
		k.AddBlacklistPermission(ctx, actor(2), perm)
		k.AddWhitelistPermission(ctx, actor(3), perm)
		k.AssignRoleToActor(ctx, actor(3), uint64(rb))
		k.AssignRoleToActor(ctx, actor(4), uint64(rw))
		cases = append(cases,
			tc{2, func(p *govtypes.NetworkProperties) { p.MinTxFee = 81 }, false, "role-whitelisted-but-individually-blacklisted"},
			tc{3, func(p *govtypes.NetworkProperties) { p.MinTxFee = 82 }, false, "individually-whitelisted-but-role-blacklisted"},
			tc{4, func(p *govtypes.NetworkProperties) { p.MinTxFee = 83 }, true, "role-whitelisted"},
		)
		// a role-held permission ends with the role: accounts 5..7 hold the granting role next to a neutral one, in either
		// order of assignment; 5 and 6 lose the granting role again (the neutral one stays), 7 loses the neutral one
		rn := k.CreateRole(ctx, "np-neutral", "grants nothing")
		k.AssignRoleToActor(ctx, actor(5), uint64(rw))
		k.AssignRoleToActor(ctx, actor(5), uint64(rn))
		k.AssignRoleToActor(ctx, actor(6), uint64(rn))
		k.AssignRoleToActor(ctx, actor(6), uint64(rw))
		k.AssignRoleToActor(ctx, actor(7), uint64(rw))
		k.AssignRoleToActor(ctx, actor(7), uint64(rn))
		k.UnassignRoleFromActor(ctx, actor(5), uint64(rw))
		k.UnassignRoleFromActor(ctx, actor(6), uint64(rw))
		k.UnassignRoleFromActor(ctx, actor(7), uint64(rn))
		for i, want := range map[int][]uint64{5: {uint64(rn)}, 6: {uint64(rn)}, 7: {uint64(rw)}} {
			if got := actor(i).Roles; fmt.Sprint(got) != fmt.Sprint(want) {
				r.Fail("C19/msg/role-set-after-unassign", fmt.Sprintf("account %d holds roles %v after the unassignment, expected %v", i, got, want), nil)
			}
		}
		cases = append(cases,
			tc{5, func(p *govtypes.NetworkProperties) { p.MinTxFee = 84 }, false, "granting-role-unassigned-first-of-two"},
			tc{6, func(p *govtypes.NetworkProperties) { p.MinTxFee = 85 }, false, "granting-role-unassigned-last-of-two"},
			tc{7, func(p *govtypes.NetworkProperties) { p.MinTxFee = 86 }, true, "other-role-unassigned"},
		)
	}
	for _, c := range cases {
		p := cur
		c.mut(&p)
		before := npDump(ctx, k)
		msg := govtypes.NewMsgSetNetworkProperties(w.addrs[c.who], &p)
		err := withCache(ctx, func(cc sdk.Context) error {
			_, e := ms.SetNetworkProperties(sdk.WrapSDKContext(cc), msg)
			return e
		})
		r.Case("msg/"+c.name, true)
		r.Count(fmt.Sprintf("msg:%s:%v", c.name, err == nil))
		if (err == nil) != c.want {
			r.Fail("C19/msg/"+c.name, fmt.Sprintf("MsgSetNetworkProperties %s: accepted=%v want %v (%v)", c.name, err == nil, c.want, err), nil)
		}
		if err != nil && npDump(ctx, k) != before {
			r.Fail("C19/msg/rejected-but-changed", c.name, nil)
		}
		if err == nil {
			if verr := k.ValidateNetworkProperties(ctx, k.GetNetworkProperties(ctx)); verr != nil {
				r.Fail("C19/msg/stored-invalid", c.name+": "+verr.Error(), nil)
			}
			cur = *k.GetNetworkProperties(ctx)
		}
	}
	// the model is reloaded from the implementation and must still agree on validity
	loadModel()

	// 4. field sweep on the message path: the stored record with ONE numeric field replaced by 0, 1, its value + 1 or a
	// random value, sent as MsgSetNetworkProperties by the holder of the change permission. Accepted iff the whole record
	// is valid; accepted values read back; rejected updates change nothing.
	r.Mark("message path field sweep")
	gkey := w.app.GetKey(govtypes.ModuleName)
	fieldID := map[string]int{}
	{
		base := *k.GetNetworkProperties(ctx)
		rv := reflect.ValueOf(&base).Elem()
		for fi := 0; fi < rv.NumField(); fi++ {
			if rv.Field(fi).Kind() != reflect.Uint64 {
				continue
			}
			p := base
			reflect.ValueOf(&p).Elem().Field(fi).SetUint(987654321987)
			cc, _ := ctx.CacheContext()
			prefix.NewStore(cc.KVStore(gkey), govtypes.KeyPrefixNetworkProperties).Set([]byte("property"), w.app.AppCodec().MustMarshal(&p))
			for _, id := range ids {
				if v, err := k.GetNetworkProperty(cc, govtypes.NetworkProperty(id)); err == nil && v.Value == 987654321987 {
					fieldID[rv.Type().Field(fi).Name] = id
				}
			}
		}
	}
	var fnames []string
	for n := range fieldID {
		fnames = append(fnames, n)
	}
	sort.Strings(fnames)
	for _, fn := range fnames {
		id := fieldID[fn]
		for vi := 0; vi < 4; vi++ {
			cur := *k.GetNetworkProperties(ctx)
			f := reflect.ValueOf(&cur).Elem().FieldByName(fn)
			old := f.Uint()
			val := []uint64{0, 1, old + 1, uint64(r.Rng.Int63n(5000000))}[vi]
			f.SetUint(val)
			before := npDump(ctx, k)
			err := withCache(ctx, func(cc sdk.Context) error {
				_, e := ms.SetNetworkProperties(sdk.WrapSDKContext(cc), govtypes.NewMsgSetNetworkProperties(w.addrs[0], &cur))
				return e
			})
			out := "ok"
			if err != nil {
				out = "err"
			}
			r.Op(fmt.Sprintf("props msgset %d %d ~", id, val), out)
			r.Op("props dump", npDump(ctx, k))
			r.Count("msg-field:" + out)
			r.Case(fmt.Sprintf("msgfield/%s/%d/%s", fn, val, out), true)
			if err != nil && npDump(ctx, k) != before {
				r.Fail("C19/msg/rejected-but-changed", fmt.Sprintf("field %s := %d", fn, val), nil)
			}
			if err == nil {
				if got, e2 := k.GetNetworkProperty(ctx, govtypes.NetworkProperty(id)); e2 != nil || got.Value != val {
					r.Fail("C19/msg/accepted-value-does-not-read-back", fmt.Sprintf("MsgSetNetworkProperties with %s = %d accepted, the property reads back %d", fn, val, got.Value), nil)
				}
				if verr := k.ValidateNetworkProperties(ctx, k.GetNetworkProperties(ctx)); verr != nil {
					r.Fail("C19/msg/stored-invalid", fn+": "+verr.Error(), nil)
				}
			}
		}
	}
	loadModel()
}

// c19Genesis: the genesis write path. Each case starts a NEW chain from a genesis file whose gov network properties
// differ from the defaults in one or two fields (boundary values of every field, by reflection over the record); the
// requested record is shown to the model field by field (`props load`), then `props genesis`: a chain may start only
// from a valid record, and then every property reads back as requested.
func c19Genesis(r *Rec, base *World) {
	r.Mark("genesis path")
	k0 := base.app.CustomGovKeeper
	def := *k0.GetNetworkProperties(base.KeeperCtx())
	type mut struct {
		name string
		f    func(p *govtypes.NetworkProperties)
	}
	var muts []mut
	rt := reflect.TypeOf(def)
	decT := reflect.TypeOf(sdk.Dec{})
	for i := 0; i < rt.NumField(); i++ {
		i, f := i, rt.Field(i)
		switch {
		case f.Type.Kind() == reflect.Uint64:
			for _, v := range []uint64{0, 1, 1 << 62} {
				v := v
				muts = append(muts, mut{fmt.Sprintf("%s=%d", f.Name, v), func(p *govtypes.NetworkProperties) { reflect.ValueOf(p).Elem().Field(i).SetUint(v) }})
			}
		case f.Type.Kind() == reflect.Bool:
			muts = append(muts, mut{f.Name + "=flip", func(p *govtypes.NetworkProperties) {
				fv := reflect.ValueOf(p).Elem().Field(i)
				fv.SetBool(!fv.Bool())
			}})
		case f.Type == decT:
			for _, v := range []string{"0", "1", "1.000000000000000001", "-0.000000000000000001", "0.5"} {
				v := v
				muts = append(muts, mut{f.Name + "=" + v, func(p *govtypes.NetworkProperties) {
					reflect.ValueOf(p).Elem().Field(i).Set(reflect.ValueOf(sdk.MustNewDecFromStr(v)))
				}})
			}
		case f.Type.Kind() == reflect.String:
			for _, v := range []string{"", "moniker", "moniker,username,contact"} {
				v := v
				muts = append(muts, mut{f.Name + "=" + v, func(p *govtypes.NetworkProperties) { reflect.ValueOf(p).Elem().Field(i).SetString(v) }})
			}
		}
	}
	// ordering rules between two fields
	muts = append(muts,
		mut{"MinTxFee>MaxTxFee", func(p *govtypes.NetworkProperties) { p.MinTxFee, p.MaxTxFee = 1000, 10 }},
		mut{"MinTxFee=MaxTxFee", func(p *govtypes.NetworkProperties) { p.MinTxFee, p.MaxTxFee = 1000, 1000 }},
		mut{"defaults", func(p *govtypes.NetworkProperties) {}})
	r.Extra["genesis_mutations"] = len(muts)
	order := r.Rng.Perm(len(muts))
	n := 60
	if r.Tier == "thorough" {
		n = len(muts)
	}
	if n > len(muts) {
		n = len(muts)
	}
	// the two-field cases and the defaults always run
	pickIdx := append([]int{len(muts) - 1, len(muts) - 2, len(muts) - 3}, order[:n]...)
	for _, mi := range pickIdx {
		m := muts[mi]
		req := def
		m.f(&req)
		// the requested record as the per-property getter sees it: written raw (no validation) into a scratch branch
		cc, _ := base.KeeperCtx().CacheContext()
		prefix.NewStore(cc.KVStore(base.app.GetKey(govtypes.ModuleName)), govtypes.KeyPrefixNetworkProperties).Set([]byte("property"), base.app.AppCodec().MustMarshal(&req))
		r.Op("props reset", "ok")
		for _, id := range npIds() {
			v, err := k0.GetNetworkProperty(cc, govtypes.NetworkProperty(id))
			if err != nil {
				continue
			}
			r.Op(fmt.Sprintf("props load %d %d %s", id, v.Value, encS(v.StrValue)), "ok")
		}
		want := npDump(cc, k0)
		var w2 *World
		started := func() (ok bool) {
			defer func() {
				if e := recover(); e != nil {
					ok = false
				}
			}()
			w2 = NewWorld(WorldOpts{NAcc: 2, NVal: 1, SudoAccs: []int{0}, MutGenesis: func(w *World, gs simapp.GenesisState) {
				cdc := w.app.AppCodec()
				var g govtypes.GenesisState
				cdc.MustUnmarshalJSON(gs[govtypes.ModuleName], &g)
				g.NetworkProperties = &req
				gs[govtypes.ModuleName] = cdc.MustMarshalJSON(&g)
			}})
			return true
		}()
		out := "refused"
		if started {
			out = "ok"
		}
		r.Op("props genesis", out)
		r.Count("genesis:" + out)
		r.Case("genesis/"+m.name+"/"+out, true)
		if started {
			ctx2 := w2.KeeperCtx()
			k2 := w2.app.CustomGovKeeper
			got := npDump(ctx2, k2)
			r.Op("props dump", got)
			r.Count("oracle:C19/genesis")
			if err := k2.ValidateNetworkProperties(ctx2, k2.GetNetworkProperties(ctx2)); err != nil {
				r.Fail("C19/genesis/stored-properties-invalid", fmt.Sprintf("a chain started from a genesis with %s and its stored network properties are invalid: %v", m.name, err), []string{"props genesis " + m.name})
			} else if got != want {
				r.Fail("C19/genesis/properties-not-as-requested", fmt.Sprintf("a chain started from a genesis with %s; stored properties differ from the genesis record: got %s want %s", m.name, got, want), []string{"props genesis " + m.name})
			}
		}
	}
}

// c19ConcurrentProposals: several SetNetworkProperty proposals that are voted on at the same time and enacted in ONE
// block (the gov EndBlocker drains the enactment queue in a loop): each names one property; afterwards every named property
// reads back as the value of the LAST proposal that named it, and every other property is what it was.
func c19ConcurrentProposals(r *Rec) {
	n := 5
	if r.Tier == "thorough" {
		n = 40
	}
	type cand struct {
		id  govtypes.NetworkProperty
		val func(cur uint64) uint64
	}
	cands := []cand{
		{govtypes.MinTxFee, func(c uint64) uint64 { return c + 200 }},
		{govtypes.MaxTxFee, func(c uint64) uint64 { return c + 1000000 }},
		{govtypes.MinIdentityApprovalTip, func(c uint64) uint64 { return c + 7 }},
		{govtypes.MaxMischance, func(c uint64) uint64 { return c + 3 }},
		{govtypes.PoorNetworkMaxBankSend, func(c uint64) uint64 { return c + 11 }},
		{govtypes.UnjailMaxTime, func(c uint64) uint64 { return c + 60 }},
		{govtypes.MinCustodyReward, func(c uint64) uint64 { return c + 5 }},
	}
	for ep := 0; ep < n; ep++ {
		w := NewWorld(WorldOpts{NAcc: 6, NVal: 3, SudoAccs: []int{5}})
		k := w.app.CustomGovKeeper
		ms := govkeeper.NewMsgServerImpl(k)
		label := fmt.Sprintf("concurrent network-property proposals %d", ep)
		r.Mark(label)
		before := npSnapshot(w.KeeperCtx(), k)
		nProps := 2 + r.Rng.Intn(3)
		want := map[govtypes.NetworkProperty]uint64{}
		var order []string
		submitted := 0
		br := w.Block(nil, BlockOpts{Mid: func(ctx sdk.Context) {
			for i := 0; i < nProps; i++ {
				c := cands[r.Rng.Intn(len(cands))]
				cur, _ := k.GetNetworkProperty(ctx, c.id)
				v := c.val(cur.Value) + uint64(i)
				req := govtypes.NetworkPropertyValue{Value: v}
				if r.Rng.Intn(2) == 0 {
					req.StrValue = fmt.Sprint(v) // both fields filled, as a client that does not know the property's kind sends it
				}
				m, err := govtypes.NewMsgSubmitProposal(w.addrs[5], "t", "d", govtypes.NewSetNetworkPropertyProposal(c.id, req))
				if err != nil {
					continue
				}
				if err := m.ValidateBasic(); err != nil { // what the ante chain does with every message before it is routed
					r.Count("concurrent-props:invalid-basic")
					continue
				}
				err = withCache(ctx, func(cc sdk.Context) error {
					res, e := ms.SubmitProposal(sdk.WrapSDKContext(cc), m)
					if e == nil {
						_, e = ms.VoteProposal(sdk.WrapSDKContext(cc), govtypes.NewMsgVoteProposal(res.ProposalID, w.addrs[5], govtypes.OptionYes, sdk.ZeroDec()))
					}
					return e
				})
				if err == nil {
					submitted++
					want[c.id] = v
					order = append(order, fmt.Sprintf("%s:=%d", c.id, v))
				}
			}
		}})
		if br.Panicked != nil || submitted < 2 {
			r.Count("concurrent-props:setup-failed")
			continue
		}
		w.ApplyUpdates(br.Updates)
		halted := false
		for i := 0; i < 30; i++ {
			br := w.Block(nil, BlockOpts{Dt: 60 * time.Second})
			if br.Panicked != nil {
				halted = true
				break
			}
			w.ApplyUpdates(br.Updates)
		}
		if halted {
			r.Count("concurrent-props:panicked")
			continue
		}
		ctx := w.ReadCtx()
		allPassed := true
		ps, _ := k.GetProposals(ctx)
		for _, p := range ps {
			if p.Result != govtypes.Passed || p.ExecResult != "executed successfully" {
				allPassed = false
			}
		}
		r.Count(fmt.Sprintf("concurrent-props:submitted=%d:all-passed=%v", submitted, allPassed))
		r.Case(label, allPassed)
		if !allPassed {
			continue
		}
		after := npSnapshot(ctx, k)
		for _, id := range npIds() {
			exp, named := before[id], false
			if v, ok := want[govtypes.NetworkProperty(id)]; ok {
				exp, named = fmt.Sprintf("%d ~", v), true
			}
			if after[id] != exp {
				what := fmt.Sprintf("%s: proposals %v were all enacted (\"executed successfully\"); property %d reads back %q, expected %q", label, order, id, after[id], exp)
				if named {
					r.Fail("C19/proposal/enacted-value-does-not-read-back", what, nil)
				} else {
					r.Fail("C19/proposal/frame", what, nil)
				}
			}
		}
	}
}

// c19OnlyPassedProposals: "only … passed proposals alter them". Network-property proposals whose ballots do NOT amount to
// a pass by the property's own rule (quorum of the eligible voters, yes votes more than half of the votes cast) go through
// their whole life in real blocks; the property they name must read afterwards what it read before. Ballot shapes: nobody
// votes (with the network's quorum at 0 and at its default), ballots carrying an option outside yes/no/abstain/veto, an
// exact tie, abstentions only.
func c19OnlyPassedProposals(r *Rec) {
	type shape struct {
		name    string
		quorum0 bool
		opts    []govtypes.VoteOption
	}
	shapes := []shape{
		{"no votes at all, quorum 0", true, nil},
		{"no votes at all", false, nil},
		{"one no and two ballots with an unspecified option", false, []govtypes.VoteOption{govtypes.OptionNo, 0, 0}},
		{"three ballots with an unspecified option, quorum 0", true, []govtypes.VoteOption{0, 0, 0}},
		{"one yes and one no", false, []govtypes.VoteOption{govtypes.OptionYes, govtypes.OptionNo}},
		{"one yes, one abstain, one unspecified", false, []govtypes.VoteOption{govtypes.OptionYes, govtypes.OptionAbstain, 9}},
		{"abstentions only", false, []govtypes.VoteOption{govtypes.OptionAbstain, govtypes.OptionAbstain}},
	}
	for si, sh := range shapes {
		if r.Tier == "quick" && (si+int(r.Seed))%7 == 6 {
			continue
		}
		label := "proposal that does not pass: " + sh.name
		r.Mark(label)
		w := NewWorld(WorldOpts{NAcc: 6, NVal: 1, SudoAccs: []int{5}})
		k := w.app.CustomGovKeeper
		ms := govkeeper.NewMsgServerImpl(k)
		var pid uint64
		var beforeV uint64
		setupErr := ""
		br := w.Block(nil, BlockOpts{Mid: func(ctx sdk.Context) {
			// voters: accounts 0..3 and the sudo account hold the vote permission individually
			for _, i := range []int{0, 1, 2, 3} {
				a, ok := k.GetNetworkActorByAddress(ctx, w.addrs[i])
				if !ok {
					a = govtypes.NewDefaultActor(w.addrs[i])
				}
				if err := k.AddWhitelistPermission(ctx, a, govtypes.PermVoteSetNetworkPropertyProposal); err != nil {
					setupErr = err.Error()
				}
			}
			if sh.quorum0 {
				if err := k.SetNetworkProperty(ctx, govtypes.VoteQuorum, govtypes.NetworkPropertyValue{StrValue: "0"}); err != nil {
					setupErr = "quorum 0: " + err.Error()
					return
				}
			}
			cur, _ := k.GetNetworkProperty(ctx, govtypes.MinTxFee)
			beforeV = cur.Value
			m, err := govtypes.NewMsgSubmitProposal(w.addrs[5], "t", "d", govtypes.NewSetNetworkPropertyProposal(govtypes.MinTxFee, govtypes.NetworkPropertyValue{Value: cur.Value + 677}))
			if err != nil {
				setupErr = err.Error()
				return
			}
			if err := withCache(ctx, func(cc sdk.Context) error {
				res, e := ms.SubmitProposal(sdk.WrapSDKContext(cc), m)
				if e == nil {
					pid = res.ProposalID
				}
				return e
			}); err != nil {
				setupErr = err.Error()
				return
			}
			for i, o := range sh.opts {
				if err := withCache(ctx, func(cc sdk.Context) error {
					_, e := ms.VoteProposal(sdk.WrapSDKContext(cc), govtypes.NewMsgVoteProposal(pid, w.addrs[i], o, sdk.ZeroDec()))
					return e
				}); err != nil {
					setupErr = fmt.Sprintf("vote %d (option %d): %v", i, o, err)
				}
			}
		}})
		if br.Panicked != nil || setupErr != "" || pid == 0 {
			r.Count("only-passed:setup-failed")
			r.Notes = append(r.Notes, label+": set-up failed: "+setupErr+fmt.Sprint(br.Panicked))
			continue
		}
		w.ApplyUpdates(br.Updates)
		halted := false
		for i := 0; i < 30 && !halted; i++ {
			br := w.Block(nil, BlockOpts{Dt: 60 * time.Second})
			if br.Panicked != nil {
				halted = true
				break
			}
			w.ApplyUpdates(br.Updates)
		}
		if halted {
			r.Count("only-passed:block-panicked") // C06's business
			continue
		}
		ctx := w.ReadCtx()
		p, _ := k.GetProposal(ctx, pid)
		now, _ := k.GetNetworkProperty(ctx, govtypes.MinTxFee)
		// the model's verdict on the same ballot: quorum of the distinct carriers of the vote permission, float32 tally
		{
			carriers := len(k.GetNetworkActorsByAbsoluteWhitelistPermission(ctx, govtypes.PermVoteSetNetworkPropertyProposal))
			var accs []string
			for i := 0; i < carriers; i++ {
				accs = append(accs, fmt.Sprint(i))
			}
			cnt := map[govtypes.VoteOption]int{}
			other := 0
			for _, o := range sh.opts {
				switch o {
				case govtypes.OptionYes, govtypes.OptionNo, govtypes.OptionAbstain, govtypes.OptionNoWithVeto:
					cnt[o]++
				default:
					other++
				}
			}
			out := resName(p.Result)
			if out == "passed" {
				out = "enactment" // observed after the enactment delay
			}
			r.Op(fmt.Sprintf("gov local-tally q=%s accs=%s role=- y=%d n=%d a=%d v=%d o=%d", k.GetNetworkProperties(ctx).VoteQuorum.String(), strings.Join(accs, ","), cnt[govtypes.OptionYes], cnt[govtypes.OptionNo], cnt[govtypes.OptionAbstain], cnt[govtypes.OptionNoWithVeto], other), out)
		}
		r.Count("oracle:C19/only-passed")
		r.Count(fmt.Sprintf("only-passed:%s", resName(p.Result)))
		r.Case(fmt.Sprintf("only-passed/%d/%s", si, resName(p.Result)), true)
		if now.Value != beforeV {
			r.Fail("C19/proposal/changed-by-a-proposal-that-did-not-pass", fmt.Sprintf("%s: min_tx_fee was %d and reads %d after the life of proposal %d (recorded result %s, %q) - no yes majority of the votes cast", label, beforeV, now.Value, pid, resName(p.Result), p.ExecResult), nil)
		}
	}
}
