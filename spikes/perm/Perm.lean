/-! Spike (core Lean only): `CheckIfAllowedPermission` modelled as the Go code computes it — a map
    filled in four passes (role whitelists, own whitelist, role blacklists, own blacklist), last write
    wins — and the theorem that it equals the defining rule for every configuration. -/
namespace Perm

structure Perms where
  wl : List Nat
  bl : List Nat

abbrev PMap := List (Nat × Bool)          -- newest binding first
def PMap.set (m : PMap) (k : Nat) (v : Bool) : PMap := (k, v) :: m
def PMap.get? : PMap → Nat → Option Bool
  | [], _ => none
  | (k, v) :: rest, p => if k = p then some v else PMap.get? rest p

def setAll (m : PMap) (ks : List Nat) (v : Bool) : PMap := ks.foldl (fun m k => m.set k v) m

/-- x/gov/keeper/util.go CheckIfAllowedPermission, for an actor that exists; `roles` are the
    registry entries found for the actor's role ids -/
def check (roles : List Perms) (own : Perms) (p : Nat) : Bool :=
  let m : PMap := roles.foldl (fun m r => setAll m r.wl true) []
  let m := setAll m own.wl true
  let m := roles.foldl (fun m r => setAll m r.bl false) m
  let m := setAll m own.bl false
  match m.get? p with
  | some b => b
  | none => false

theorem get_setAll (m : PMap) (ks : List Nat) (v : Bool) (p : Nat) :
    (setAll m ks v).get? p = if p ∈ ks then some v else m.get? p := by
  induction ks generalizing m with
  | nil => simp [setAll]
  | cons k rest ih =>
    simp only [setAll, List.foldl_cons] at ih ⊢
    rw [ih]
    by_cases h : p ∈ rest
    · simp [h]
    · by_cases hk : k = p
      · subst hk; simp [h, PMap.set, PMap.get?]
      · have : p ≠ k := fun e => hk e.symm
        simp [h, this, PMap.set, PMap.get?, hk]

theorem get_foldl_roles (sel : Perms → List Nat) (v : Bool) (roles : List Perms) (m : PMap) (p : Nat) :
    (roles.foldl (fun m r => setAll m (sel r) v) m).get? p =
      if ∃ r ∈ roles, p ∈ sel r then some v else m.get? p := by
  induction roles generalizing m with
  | nil => simp
  | cons r rest ih =>
    simp only [List.foldl_cons]
    rw [ih, get_setAll]
    by_cases h1 : ∃ r' ∈ rest, p ∈ sel r'
    · have : ∃ r' ∈ r :: rest, p ∈ sel r' := by
        obtain ⟨r', hr', hp⟩ := h1; exact ⟨r', List.mem_cons_of_mem _ hr', hp⟩
      simp [h1]
    · by_cases h2 : p ∈ sel r
      · have : ∃ r' ∈ r :: rest, p ∈ sel r' := ⟨r, List.mem_cons_self .., h2⟩
        simp [h1, h2]
      · have : ¬ ∃ r' ∈ r :: rest, p ∈ sel r' := by
          intro ⟨r', hr', hp⟩
          rcases List.mem_cons.mp hr' with e | e
          · subst e; exact h2 hp
          · exact h1 ⟨r', e, hp⟩
        simp [h1, h2]

/-- C07 (decision logic stated outright): blacklist beats whitelist, through roles or directly -/
theorem check_iff_rule (roles : List Perms) (own : Perms) (p : Nat) :
    check roles own p = true ↔
      (p ∈ own.wl ∨ ∃ r ∈ roles, p ∈ r.wl) ∧ p ∉ own.bl ∧ ∀ r ∈ roles, p ∉ r.bl := by
  unfold check
  simp only
  rw [get_setAll, get_foldl_roles (fun r => r.bl), get_setAll, get_foldl_roles (fun r => r.wl)]
  by_cases hb : p ∈ own.bl
  · simp [hb]
  · by_cases hrb : ∃ r ∈ roles, p ∈ r.bl
    · simp only [hb, hrb, if_false, if_true]
      constructor
      · intro h; cases h
      · intro ⟨_, _, h3⟩; obtain ⟨r, hr, hp⟩ := hrb; exact absurd hp (h3 r hr)
    · have hrb' : ∀ r ∈ roles, p ∉ r.bl := fun r hr hp => hrb ⟨r, hr, hp⟩
      by_cases hw : p ∈ own.wl
      · rw [if_neg hb, if_neg hrb, if_pos hw]
        exact ⟨fun _ => ⟨Or.inl hw, hb, hrb'⟩, fun _ => rfl⟩
      · by_cases hrw : ∃ r ∈ roles, p ∈ r.wl
        · rw [if_neg hb, if_neg hrb, if_neg hw, if_pos hrw]
          exact ⟨fun _ => ⟨Or.inr hrw, hb, hrb'⟩, fun _ => rfl⟩
        · rw [if_neg hb, if_neg hrb, if_neg hw, if_neg hrw]
          simp only [PMap.get?]
          constructor
          · intro h; cases h
          · intro ⟨h1, _, _⟩
            rcases h1 with h1 | h1
            · exact absurd h1 hw
            · exact absurd h1 hrw

/-- non-vacuity: a role whitelists 7, the actor blacklists it personally -/
example : check [⟨[7, 8], []⟩] ⟨[], [7]⟩ 7 = false ∧ check [⟨[7, 8], []⟩] ⟨[], [7]⟩ 8 = true := by decide

#print axioms check_iff_rule
end Perm
