/-! Spike: validator status machine + update queues + consensus set; Sync invariant (core Lean only).
    Sets are membership predicates over validator ids; the real model carries key-ordered lists. -/
namespace Stake

inductive Status | active | inactive | paused | jailed
deriving DecidableEq, Repr

structure S where
  status : Nat → Status
  R : Nat → Bool      -- removing queue
  A : Nat → Bool      -- reactivating queue
  V : Nat → Bool      -- consensus validator set (as CometBFT will hold it after all emitted updates)

def set (f : Nat → α) (v : Nat) (x : α) : Nat → α := fun w => if w = v then x else f w

/-- staking keeper Pause/Inactivate/Jail all do: status := st; addRemoving; RemoveReactivating -/
def demote (s : S) (v : Nat) (st : Status) : S :=
  { s with status := set s.status v st, R := set s.R v true, A := set s.A v false }
/-- Unpause/Activate: status := active; addReactivating; RemoveRemoving -/
def promote (s : S) (v : Nat) : S :=
  { s with status := set s.status v .active, A := set s.A v true, R := set s.R v false }

inductive Op
  | msgPause (v : Nat) | msgUnpause (v : Nat) | msgActivate (v : Nat)
  | inactivate (v : Nat)      -- downtime, called for validators found Active
  | jail (v : Nat)            -- evidence / slash proposal, guard: not already jailed
  | rankReset                 -- as coded: every status := active, no queue change

def step (s : S) : Op → S
  | .msgPause v    => if s.status v = .active then demote s v .paused else s
  | .msgUnpause v  => if s.status v = .paused then promote s v else s
  | .msgActivate v => if s.status v = .inactive then promote s v else s
  | .inactivate v  => if s.status v = .active then demote s v .inactive else s
  | .jail v        => if s.status v ≠ .jailed then demote s v .jailed else s
  | .rankReset     => { s with status := fun _ => .active }

/-- CometBFT's applicability of the drained queues: no removal of an absent key, no key twice -/
def applicable (s : S) : Prop := (∀ v, s.R v = true → s.V v = true) ∧ (∀ v, ¬ (s.R v = true ∧ s.A v = true))
/-- EndBlock: drain queues into the consensus set -/
def endBlock (s : S) : S :=
  { s with V := fun v => if s.R v then false else if s.A v then true else s.V v,
           R := fun _ => false, A := fun _ => false }

/-- the inductive invariant -/
structure Sync (s : S) : Prop where
  r_in   : ∀ v, s.R v = true → s.V v = true ∧ s.A v = false ∧ s.status v ≠ .active
  a_act  : ∀ v, s.A v = true → s.status v = .active ∧ s.R v = false
  rest   : ∀ v, s.R v = false → s.A v = false → (s.V v = true ↔ s.status v = .active)

/-- which ops are covered by the partial theorem: demotions only of validators the consensus set holds -/
def Good (s : S) : Op → Prop
  | .msgPause v | .inactivate v => s.status v = .active → s.V v = true
  | .jail v => s.status v ≠ .jailed → s.V v = true
  | .rankReset => False
  | _ => True

theorem endBlock_V_iff (s : S) (h : Sync s) (v : Nat) :
    (endBlock s).V v = true ↔ s.status v = .active := by
  simp only [endBlock]
  by_cases hr : s.R v = true
  · simp [hr]; exact (h.r_in v hr).2.2
  · by_cases ha : s.A v = true
    · simp [hr, ha]; exact (h.a_act v ha).1
    · simp [hr, ha]; exact h.rest v (by simpa using hr) (by simpa using ha)

theorem sync_endBlock (s : S) (h : Sync s) :
    applicable s ∧ Sync (endBlock s) ∧ ∀ v, (endBlock s).V v = true ↔ (endBlock s).status v = .active := by
  refine ⟨⟨fun v hv => (h.r_in v hv).1, fun v hra => ?_⟩, ?_, fun v => endBlock_V_iff s h v⟩
  · have := (h.r_in v hra.1).2.1; simp [hra.2] at this
  · constructor
    · intro v hv; simp [endBlock] at hv
    · intro v hv; simp [endBlock] at hv
    · intro v _ _; exact endBlock_V_iff s h v

theorem sync_demote (s : S) (h : Sync s) (v : Nat) (st : Status) (hst : st ≠ .active) (hV : s.V v = true) :
    Sync (demote s v st) := by
  constructor
  · intro w hw
    by_cases e : w = v
    · subst e; simp [demote, set, hV, hst]
    · simp [demote, set, e] at hw ⊢; exact h.r_in w hw
  · intro w hw
    by_cases e : w = v
    · subst e; simp [demote, set] at hw
    · simp [demote, set, e] at hw ⊢; exact h.a_act w hw
  · intro w hr ha
    by_cases e : w = v
    · subst e; simp [demote, set] at hr
    · simp [demote, set, e] at hr ha ⊢; exact h.rest w hr ha

theorem sync_promote (s : S) (h : Sync s) (v : Nat) : Sync (promote s v) := by
  constructor
  · intro w hw
    by_cases e : w = v
    · subst e; simp [promote, set] at hw
    · simp [promote, set, e] at hw ⊢; exact h.r_in w hw
  · intro w hw
    by_cases e : w = v
    · subst e; simp [promote, set]
    · simp [promote, set, e] at hw ⊢; exact h.a_act w hw
  · intro w hr ha
    by_cases e : w = v
    · subst e; simp [promote, set] at ha
    · simp [promote, set, e] at hr ha ⊢; exact h.rest w hr ha

/-- partial theorem: every good op preserves the invariant -/
theorem sync_step (s : S) (h : Sync s) (op : Op) (hg : Good s op) : Sync (step s op) := by
  cases op with
  | msgPause v => simp only [step]; split
                  · rename_i hs; exact sync_demote s h v _ (by decide) (hg hs)
                  · exact h
  | msgUnpause v => simp only [step]; split
                    · exact sync_promote s h v
                    · exact h
  | msgActivate v => simp only [step]; split
                     · exact sync_promote s h v
                     · exact h
  | inactivate v => simp only [step]; split
                    · rename_i hs; exact sync_demote s h v _ (by decide) (hg hs)
                    · exact h
  | jail v => simp only [step]; split
              · rename_i hs; exact sync_demote s h v _ (by decide) (hg hs)
              · exact h
  | rankReset => exact absurd hg (by simp [Good])

/-- for every op sequence whose ops are good at the moment they run, the block ends with an
    applicable update and consensus set = active set -/
theorem sync_block (s : S) (h : Sync s) (ops : List Op)
    (hg : ∀ (pre : List Op) (op : Op) (post : List Op), ops = pre ++ op :: post → Good (pre.foldl step s) op) :
    let s' := ops.foldl step s
    applicable s' ∧ ∀ v, (endBlock s').V v = true ↔ (endBlock s').status v = .active := by
  have key : Sync (ops.foldl step s) := by
    induction ops generalizing s with
    | nil => exact h
    | cons op rest ih =>
      have h1 : Sync (step s op) := sync_step s h op (hg [] op rest rfl)
      apply ih (step s op) h1
      intro pre o post e
      have := hg (op :: pre) o post (by simp [e])
      simpa using this
  exact ⟨(sync_endBlock _ key).1, (sync_endBlock _ key).2.2⟩

/-! counterexample: validator 0 is paused and out of the consensus set; `[unpause 0, pause 0]` in one block
    makes EndBlock emit the removal of an absent key -/
def s0 : S := { status := fun v => if v = 0 then .paused else if v = 1 ∨ v = 2 then .active else .inactive, R := fun _ => false, A := fun _ => false,
                V := fun v => decide (v = 1 ∨ v = 2) }
theorem s0_sync : Sync s0 := by
  constructor
  · intro v hv; simp [s0] at hv
  · intro v hv; simp [s0] at hv
  · intro v _ _
    by_cases h0 : v = 0
    · subst h0; simp [s0]
    · by_cases h12 : v = 1 ∨ v = 2
      · simp [s0, h0, h12]
      · simp [s0, h0, h12]
theorem unpause_pause_counterexample :
    ¬ applicable ([Op.msgUnpause 0, Op.msgPause 0].foldl step s0) := by
  intro h
  have := h.1 0
  simp [step, s0, demote, promote, set] at this

#print axioms Stake.sync_block
#print axioms Stake.unpause_pause_counterexample
end Stake

