package main

import (
	"bytes"
	"fmt"
	"math/big"
	"time"

	sdkmath "cosmossdk.io/math"
	baskettypes "github.com/KiraCore/sekai/x/basket/types"
	custodytypes "github.com/KiraCore/sekai/x/custody/types"
	govkeeper "github.com/KiraCore/sekai/x/gov/keeper"
	govtypes "github.com/KiraCore/sekai/x/gov/types"
	l2keeper "github.com/KiraCore/sekai/x/layer2/keeper"
	l2types "github.com/KiraCore/sekai/x/layer2/types"
	slashingtypes "github.com/KiraCore/sekai/x/slashing/types"
	tokenstypes "github.com/KiraCore/sekai/x/tokens/types"
	abci "github.com/cometbft/cometbft/abci/types"
	tmproto "github.com/cometbft/cometbft/proto/tendermint/types"
	sdk "github.com/cosmos/cosmos-sdk/types"
	banktypes "github.com/cosmos/cosmos-sdk/x/bank/types"
	minttypes "github.com/cosmos/cosmos-sdk/x/mint/types"
	ethtypes "github.com/ethereum/go-ethereum/core/types"
	ethcrypto "github.com/ethereum/go-ethereum/crypto"
)

// BlockMid: begin block, run mid(ctx) with the deliver-state context, deliver txs, end, commit.
func (w *World) BlockMid(mid func(ctx sdk.Context), txs [][]byte, absent map[int]bool) (results []*abci.ResponseDeliverTx, upd []abci.ValidatorUpdate, panicked interface{}) {
	defer func() {
		if r := recover(); r != nil {
			panicked = r
		}
	}()
	w.height++
	w.now = w.now.Add(6 * time.Second)
	var votes []abci.VoteInfo
	for i, v := range w.valSet.Validators {
		votes = append(votes, abci.VoteInfo{Validator: abci.Validator{Address: v.Address, Power: v.VotingPower}, SignedLastBlock: !absent[i]})
	}
	var proposer []byte
	if len(w.valSet.Validators) > 0 {
		proposer = w.valSet.Validators[int(w.height)%len(w.valSet.Validators)].Address
	}
	hdr := tmproto.Header{ChainID: chainID, Height: w.height, Time: w.now, ProposerAddress: proposer}
	w.app.BeginBlock(abci.RequestBeginBlock{Header: hdr, LastCommitInfo: abci.CommitInfo{Votes: votes}})
	if mid != nil {
		mid(w.app.NewContext(false, hdr))
	}
	for _, tx := range txs {
		r := w.app.DeliverTx(abci.RequestDeliverTx{Tx: tx})
		results = append(results, &r)
	}
	eb := w.app.EndBlock(abci.RequestEndBlock{Height: w.height})
	upd = eb.ValidatorUpdates
	w.app.Commit()
	return
}

func (w *World) bal(i int, denom string) sdkmath.Int {
	ctx := w.app.NewContext(w.height > 0, tmproto.Header{})
	return w.app.BankKeeper.GetBalance(ctx, w.addrs[i], denom).Amount
}

func show(rs []*abci.ResponseDeliverTx) {
	for i, r := range rs {
		l := r.Log
		if len(l) > 140 {
			l = l[:140]
		}
		fmt.Printf("  tx%d code=%d codespace=%s log=%s\n", i, r.Code, r.Codespace, l)
	}
}

func probeBasic() {
	w := NewWorld(4, 2)
	send := banktypes.NewMsgSend(w.addrs[1], w.addrs[2], sdk.NewCoins(sdk.NewInt64Coin("ukex", 5)))
	tx := w.SignTx([]sdk.Msg{send}, 1, w.privs[1], fee(200))
	t0 := time.Now()
	rs, upd, p := w.BlockMid(nil, [][]byte{tx}, nil)
	fmt.Println("block time", time.Since(t0), "panic", p, "updates", len(upd))
	show(rs)
	// forged: signed with wrong key, attaching the wrong pubkey, signer has no pubkey on record
	tx2 := w.SignTx([]sdk.Msg{banktypes.NewMsgSend(w.addrs[2], w.addrs[3], sdk.NewCoins(sdk.NewInt64Coin("ukex", 5)))}, 2, w.privs[3], fee(200))
	rs, _, p = w.BlockMid(nil, [][]byte{tx2}, nil)
	fmt.Println("forged bank send with wrong key: panic", p)
	show(rs)
	fmt.Println("acc2 pubkey after forged attempt:", w.account(2).GetPubKey())
	// replay tx
	rs, _, _ = w.BlockMid(nil, [][]byte{tx}, nil)
	fmt.Println("replay:")
	show(rs)
}

func probePoorNetwork() {
	w := NewWorld(4, 2)
	w.BlockMid(func(ctx sdk.Context) {
		err := w.app.CustomGovKeeper.SetNetworkProperty(ctx, govtypes.MinValidators, govtypes.NetworkPropertyValue{Value: 5})
		fmt.Println("set MinValidators=5:", err, "networkActive:", w.app.CustomStakingKeeper.IsNetworkActive(ctx))
	}, nil, nil)
	small := banktypes.NewMsgSend(w.addrs[1], w.addrs[2], sdk.NewCoins(sdk.NewInt64Coin("ukex", 5)))
	big := banktypes.NewMsgSend(w.addrs[1], w.addrs[2], sdk.NewCoins(sdk.NewInt64Coin("ukex", 50_000_000)))
	b0 := w.bal(2, "ukex")
	txA := w.SignTx([]sdk.Msg{big}, 1, w.privs[1], fee(200))
	rs, _, _ := w.BlockMid(nil, [][]byte{txA}, nil)
	fmt.Println("single big send on poor network (must be rejected):")
	show(rs)
	txB := w.SignTx([]sdk.Msg{small, big}, 1, w.privs[1], fee(200))
	rs, _, _ = w.BlockMid(nil, [][]byte{txB}, nil)
	fmt.Println("[small, big] on poor network (property: must be rejected):")
	show(rs)
	fmt.Println("receiver delta:", w.bal(2, "ukex").Sub(b0))
}

func probeEthForge() {
	w := NewWorld(4, 2)
	victim, attacker := 2, 3
	ethKey, _ := ethcrypto.GenerateKey()
	to := ethcrypto.PubkeyToAddress(ethKey.PublicKey)
	value := new(big.Int).Mul(big.NewInt(500_000_000), big.NewInt(1_000_000_000_000)) // 500M ukex after /1e12
	raw := ethtypes.NewTx(&ethtypes.LegacyTx{Nonce: 0, To: &to, Value: value, Gas: 21000, GasPrice: big.NewInt(1)})
	signed, err := ethtypes.SignTx(raw, ethtypes.NewEIP155Signer(big.NewInt(8789)), ethKey)
	if err != nil {
		panic(err)
	}
	msg := &tokenstypes.MsgEthereumTx{TxType: "NativeSend", Sender: w.addrs[victim].String()}
	if err := msg.FromEthereumTx(signed); err != nil {
		panic(err)
	}
	v0 := w.bal(victim, "ukex")
	tx := w.SignTx([]sdk.Msg{msg}, victim, w.privs[attacker], fee(200))
	rs, _, p := w.BlockMid(nil, [][]byte{tx}, nil)
	fmt.Println("forged MsgEthereumTx naming victim, signed by attacker: panic", p)
	show(rs)
	ctx := w.app.NewContext(true, tmproto.Header{})
	fmt.Println("victim delta:", w.bal(victim, "ukex").Sub(v0), " eth-recipient balance:", w.app.BankKeeper.GetBalance(ctx, sdk.AccAddress(to.Bytes()), "ukex"))
}

func (w *World) valStatus(ctx sdk.Context, i int) string {
	v, err := w.app.CustomStakingKeeper.GetValidator(ctx, sdk.ValAddress(w.addrs[i]))
	if err != nil {
		return "none"
	}
	return v.Status.String()
}

func probeJailPaused() {
	w := NewWorld(5, 3)
	pause := slashingtypes.NewMsgPause(sdk.ValAddress(w.addrs[0]))
	tx := w.SignTx([]sdk.Msg{pause}, 0, w.privs[0], fee(200))
	rs, upd, p := w.BlockMid(nil, [][]byte{tx}, nil)
	show(rs)
	fmt.Println("pause block: panic", p, "updates", len(upd), "apply err:", w.ApplyUpdates(upd), "valset size", w.valSet.Size())
	// now jail the paused validator (as evidence / slash proposal would)
	_, upd, p = w.BlockMid(func(ctx sdk.Context) {
		v, _ := w.app.CustomStakingKeeper.GetValidator(ctx, sdk.ValAddress(w.addrs[0]))
		w.app.CustomSlashingKeeper.Jail(ctx, v.GetConsAddr())
		fmt.Println("status after Jail:", w.valStatus(ctx, 0))
	}, nil, nil)
	fmt.Println("jail block: panic", p, "updates", len(upd), "apply err:", w.ApplyUpdates(upd))
}

func probePauseAll() {
	w := NewWorld(5, 3)
	var txs [][]byte
	for i := 0; i < 3; i++ {
		txs = append(txs, w.SignTx([]sdk.Msg{slashingtypes.NewMsgPause(sdk.ValAddress(w.addrs[i]))}, i, w.privs[i], fee(200)))
	}
	rs, upd, p := w.BlockMid(nil, txs, nil)
	show(rs)
	fmt.Println("all pause: panic", p, "updates", len(upd), "apply err:", w.ApplyUpdates(upd))
}

func probeQuorumPanic() {
	w := NewWorld(5, 2)
	// account 0 is sudo. Proposal: set network property (vote perm PermVoteSetNetworkPropertyProposal, held via sudo role)
	content := govtypes.NewSetNetworkPropertyProposal(govtypes.MinTxFee, govtypes.NetworkPropertyValue{Value: 101})
	msg, _ := govtypes.NewMsgSubmitProposal(w.addrs[0], "t", "d", content)
	rs, _, _ := w.BlockMid(nil, [][]byte{w.SignTx([]sdk.Msg{msg}, 0, w.privs[0], fee(200))}, nil)
	show(rs)
	vote := govtypes.NewMsgVoteProposal(1, w.addrs[0], govtypes.OptionYes, sdk.ZeroDec())
	rs, _, _ = w.BlockMid(nil, [][]byte{w.SignTx([]sdk.Msg{vote}, 0, w.privs[0], fee(200))}, nil)
	show(rs)
	// voter loses the role (as an unassign-role message/proposal would do)
	w.BlockMid(func(ctx sdk.Context) {
		fmt.Println("unassign role:", w.app.CustomGovKeeper.UnassignRoleFromAccount(ctx, w.addrs[0], 1))
	}, nil, nil)
	// advance time past voting end
	w.now = w.now.Add(400 * time.Second)
	_, _, p := w.BlockMid(nil, nil, nil)
	fmt.Println("end of voting block: panic =", p)
}

func probeVotesWiped() {
	w := NewWorld(4, 2)
	for i := 0; i < 3; i++ {
		w.BlockMid(nil, nil, nil)
	}
	_, _, _ = w.BlockMid(func(ctx sdk.Context) {
		for _, v := range w.valSet.Validators {
			fmt.Printf("after BeginBlock h=%d votes(%X)=%v\n", ctx.BlockHeight(), v.Address[:4], w.app.DistrKeeper.GetValidatorVotes(ctx, sdk.ConsAddress(v.Address)))
		}
	}, nil, nil)
	ctx := w.app.NewContext(true, tmproto.Header{})
	for _, v := range w.valSet.Validators {
		fmt.Printf("after commit votes(%X)=%v snapPeriod=%d\n", v.Address[:4], w.app.DistrKeeper.GetValidatorVotes(ctx, sdk.ConsAddress(v.Address)), w.app.DistrKeeper.GetSnapPeriod(ctx))
	}
}

func probeBasketBurn() {
	w := NewWorld(4, 2)
	w.BlockMid(func(ctx sdk.Context) {
		k := w.app.BasketKeeper
		err := k.CreateBasket(ctx, baskettypes.Basket{Suffix: "usd", Amount: sdk.ZeroInt(), SwapFee: sdk.ZeroDec(), SlipppageFeeMin: sdk.ZeroDec(), TokensCap: sdk.OneDec(),
			LimitsPeriod: 86400, MintsMin: sdk.OneInt(), MintsMax: sdk.NewInt(1_000_000_000), BurnsMin: sdk.OneInt(), BurnsMax: sdk.NewInt(1_000_000_000), SwapsMin: sdk.OneInt(), SwapsMax: sdk.NewInt(1_000_000_000),
			Tokens: []baskettypes.BasketToken{{Denom: "ukex", Weight: sdk.OneDec(), Amount: sdk.ZeroInt(), Deposits: true, Withdraws: true, Swaps: true}}})
		fmt.Println("create basket:", err)
		for _, i := range []int{1, 2} {
			err = k.MintBasketToken(ctx, &baskettypes.MsgBasketTokenMint{Sender: w.addrs[i].String(), BasketId: 1, Deposit: sdk.NewCoins(sdk.NewInt64Coin("ukex", 1000))})
			fmt.Println("mint", i, err)
		}
		b, _ := k.GetBasketById(ctx, 1)
		fmt.Println("basket amount", b.Amount, "reserve", b.Tokens[0].Amount, "supply", w.app.BankKeeper.GetSupply(ctx, b.GetBasketDenom()))
		before := w.app.BankKeeper.GetBalance(ctx, w.addrs[1], "ukex").Amount
		err = k.BurnBasketToken(ctx, &baskettypes.MsgBasketTokenBurn{Sender: w.addrs[1].String(), BasketId: 1, BurnAmount: sdk.NewInt64Coin(b.GetBasketDenom(), 1000)})
		after := w.app.BankKeeper.GetBalance(ctx, w.addrs[1], "ukex").Amount
		b, _ = k.GetBasketById(ctx, 1)
		fmt.Println("holder 1 burns HALF of supply (1000/2000): err", err, "received ukex:", after.Sub(before), "(pro rata = 1000) reserve left:", b.Tokens[0].Amount)
	}, nil, nil)
}

func probeMintIssueNative() {
	w := NewWorld(4, 2)
	w.BlockMid(func(ctx sdk.Context) {
		ms := l2keeper.NewMsgServerImpl(w.app.Layer2Keeper)
		s0 := w.app.BankKeeper.GetSupply(ctx, "ukex").Amount
		b0 := w.app.BankKeeper.GetBalance(ctx, w.addrs[1], "ukex").Amount
		_, err := ms.MintIssueTx(sdk.WrapSDKContext(ctx), &l2types.MsgMintIssueTx{Sender: w.addrs[1].String(), Denom: "ukex", Amount: sdk.NewInt(777)})
		fmt.Println("MintIssueTx(ukex,777) err:", err, "supply delta:", w.app.BankKeeper.GetSupply(ctx, "ukex").Amount.Sub(s0), "sender delta:", w.app.BankKeeper.GetBalance(ctx, w.addrs[1], "ukex").Amount.Sub(b0))
	}, nil, nil)
}

// determinism: same history on two replicas; custody custodians map with several entries + poll
func probeDeterminism() {
	run := func() []byte {
		w := NewWorld(8, 2)
		var last []byte
		_, _, p := w.BlockMid(func(ctx sdk.Context) {
			rec := custodytypes.CustodyCustodiansRecord{Address: w.addrs[1], CustodyCustodians: &custodytypes.CustodyCustodianList{Addresses: map[string]bool{}}}
			for i := 2; i < 8; i++ {
				rec.CustodyCustodians.Addresses[w.addrs[i].String()] = true
			}
			w.app.CustodyKeeper.AddToCustodyCustodians(ctx, rec)
		}, nil, nil)
		if p != nil {
			fmt.Println("panic", p)
		}
		last = w.app.LastCommitID().Hash
		return last
	}
	h1 := run()
	diff := 0
	for i := 0; i < 6; i++ {
		if !bytes.Equal(h1, run()) {
			diff++
		}
	}
	fmt.Printf("custody map record: %d of 6 re-runs produced a different app hash\n", diff)
	// poll creation uses time.Now
	runPoll := func() []byte {
		w := NewWorld(4, 2)
		w.BlockMid(func(ctx sdk.Context) {
			ms := govkeeper.NewMsgServerImpl(w.app.CustomGovKeeper)
			w.app.CustomGovKeeper.AddWhitelistPermission(ctx, func() govtypes.NetworkActor { a, _ := w.app.CustomGovKeeper.GetNetworkActorByAddress(ctx, w.addrs[0]); return a }(), govtypes.PermCreatePollProposal)
			_, err := ms.PollCreate(sdk.WrapSDKContext(ctx), &govtypes.MsgPollCreate{Creator: w.addrs[0], Title: "t", Description: "d", Reference: "r", Checksum: "c", Roles: []string{"sudo"}, ValueCount: 2, ValueType: "string", PossibleChoices: 1, PollValues: []string{"a", "b"}, Duration: "1h"})
			if err != nil {
				fmt.Println("poll create err", err)
			}
		}, nil, nil)
		return w.app.LastCommitID().Hash
	}
	a, b := runPoll(), runPoll()
	fmt.Println("poll create: hashes equal across two replicas:", bytes.Equal(a, b))
}

var _ = minttypes.ModuleName
