package main

import (
	baskettypes "github.com/KiraCore/sekai/x/basket/types"
	sdk "github.com/cosmos/cosmos-sdk/types"
)

func baskettypesBasket() baskettypes.Basket {
	return baskettypes.Basket{Suffix: "usd", Amount: sdk.ZeroInt(), SwapFee: sdk.ZeroDec(), SlipppageFeeMin: sdk.ZeroDec(), TokensCap: sdk.OneDec(),
		LimitsPeriod: 86400, MintsMin: sdk.OneInt(), MintsMax: sdk.NewInt(1_000_000_000), BurnsMin: sdk.OneInt(), BurnsMax: sdk.NewInt(1_000_000_000), SwapsMin: sdk.OneInt(), SwapsMax: sdk.NewInt(1_000_000_000),
		Tokens: []baskettypes.BasketToken{{Denom: "ukex", Weight: sdk.OneDec(), Amount: sdk.ZeroInt(), Deposits: true, Withdraws: true, Swaps: true}}}
}
func mintMsg(sender string, n int64) *baskettypes.MsgBasketTokenMint {
	return &baskettypes.MsgBasketTokenMint{Sender: sender, BasketId: 1, Deposit: sdk.NewCoins(sdk.NewInt64Coin("ukex", n))}
}
