package main

import (
	"fmt"
	"time"

	custodykeeper "github.com/KiraCore/sekai/x/custody/keeper"
	custodytypes "github.com/KiraCore/sekai/x/custody/types"
	govtypes "github.com/KiraCore/sekai/x/gov/types"
	l2keeper "github.com/KiraCore/sekai/x/layer2/keeper"
	l2types "github.com/KiraCore/sekai/x/layer2/types"
	mskeeper "github.com/KiraCore/sekai/x/multistaking/keeper"
	mstypes "github.com/KiraCore/sekai/x/multistaking/types"
	"github.com/KiraCore/sekai/x/spending"
	spendingtypes "github.com/KiraCore/sekai/x/spending/types"
	stakingtypes "github.com/KiraCore/sekai/x/staking/types"
	codectypes "github.com/cosmos/cosmos-sdk/codec/types"
	"github.com/cosmos/cosmos-sdk/crypto/keys/ed25519"
	sdk "github.com/cosmos/cosmos-sdk/types"
	banktypes "github.com/cosmos/cosmos-sdk/x/bank/types"
)

func init() {
	extra = append(extra, named{"spendpanic", probeSpendingPanic}, named{"autocompound", probeAutocompoundHalt}, named{"dupcons", probeDupConsKey},
		named{"treasury", probeTreasury}, named{"basketoverwrite", probeBasketOverwrite}, named{"multisendfrozen", probeMultiSendFrozen},
		named{"custodystranger", probeCustodyStranger}, named{"dappmax", probeDappMax}, named{"mintburn", probeMintBurn})
}

// #12: distribution proposal enacted after the pool was drained
func probeSpendingPanic() {
	w := NewWorld(5, 2)
	var p interface{}
	_, _, p = w.BlockMid(func(ctx sdk.Context) {
		k := w.app.SpendingKeeper
		rate := sdk.NewDecCoinFromDec("ukex", sdk.NewDec(10))
		err := k.CreateSpendingPool(ctx, spendingtypes.SpendingPool{Name: "p", ClaimStart: 0, ClaimEnd: 0, ClaimExpiry: 1000000, Rates: sdk.DecCoins{rate},
			Owners: &spendingtypes.PermInfo{OwnerAccounts: []string{w.addrs[0].String()}}, Beneficiaries: &spendingtypes.WeightedPermInfo{Accounts: []spendingtypes.WeightedAccount{{Account: w.addrs[2].String(), Weight: sdk.OneDec()}}}, Balances: sdk.Coins{}})
		fmt.Println("create:", err)
		fmt.Println("deposit:", k.DepositSpendingPoolFromAccount(ctx, w.addrs[1], "p", sdk.NewCoins(sdk.NewInt64Coin("ukex", 50))))
		k.SetClaimInfo(ctx, spendingtypes.ClaimInfo{PoolName: "p", Account: w.addrs[2].String(), LastClaim: uint64(ctx.BlockTime().Unix()) - 1000})
		// what gov EndBlock does at enactment: router.ApplyProposal (cache ctx, errors swallowed, panics not)
		h := spending.NewApplySpendingPoolDistributionProposalHandler(k, w.app.CustomGovKeeper)
		_ = h
		err = w.app.CustomGovKeeper.GetProposalRouter().ApplyProposal(ctx, 1, &spendingtypes.SpendingPoolDistributionProposal{PoolName: "p"}, sdk.ZeroDec())
		fmt.Println("apply returned:", err)
	}, nil, nil)
	fmt.Println("ApplyProposal(distribution) on an under-funded pool: escaped panic =", p)
}

// #13: autocompound Delegate fails when the previous proposer got paused -> panic in BeginBlock
func probeAutocompoundHalt() {
	w := NewWorld(5, 2)
	val0 := sdk.ValAddress(w.addrs[0]).String()
	val1 := sdk.ValAddress(w.addrs[1]).String()
	w.BlockMid(func(ctx sdk.Context) {
		ms := mskeeper.NewMsgServerImpl(w.app.MultiStakingKeeper, w.app.BankKeeper, w.app.CustomGovKeeper, w.app.CustomStakingKeeper)
		for i, v := range []string{val0, val1} {
			_, err := ms.UpsertStakingPool(sdk.WrapSDKContext(ctx), &mstypes.MsgUpsertStakingPool{Sender: w.addrs[i].String(), Validator: v, Enabled: true, Commission: sdk.NewDecWithPrec(5, 1)})
			fmt.Println("pool", i, err)
			fmt.Println("delegate:", w.app.MultiStakingKeeper.Delegate(ctx, &mstypes.MsgDelegate{DelegatorAddress: w.addrs[3].String(), ValidatorAddress: v, Amounts: sdk.NewCoins(sdk.NewInt64Coin("ukex", 100000))}))
		}
		w.app.MultiStakingKeeper.SetCompoundInfo(ctx, mstypes.CompoundInfo{Delegator: w.addrs[3].String(), AllDenom: true})
		// shorten snapshot window so rewards are non-zero, and autocompound interval
		w.app.DistrKeeper.SetSnapPeriod(ctx, 1)
		w.app.CustomGovKeeper.SetNetworkProperty(ctx, govtypes.AutocompoundIntervalNumBlocks, govtypes.NetworkPropertyValue{Value: 1})
	}, nil, nil)
	// a few blocks with fee-paying txs so there is something to distribute; then pause the validator that just proposed
	for i := 0; i < 4; i++ {
		tx := w.SignTx([]sdk.Msg{banktypes.NewMsgSend(w.addrs[2], w.addrs[4], sdk.NewCoins(sdk.NewInt64Coin("ukex", 1)))}, 2, w.privs[2], fee(100000))
		_, upd, p := w.BlockMid(func(ctx sdk.Context) {
			// pause BOTH validators' operator status at keeper level in block 3 (as MsgPause / upgrade pause would for one of them)
			if ctx.BlockHeight() == 4 {
				w.app.CustomStakingKeeper.Pause(ctx, sdk.ValAddress(w.addrs[0]))
			}
		}, [][]byte{tx}, nil)
		w.ApplyUpdates(upd)
		fmt.Printf("h=%d panic=%v rewards(addr3)=%v\n", w.height, p, func() interface{} {
			if p != nil {
				return "-"
			}
			return "ok"
		}())
		if p != nil {
			break
		}
	}
}

// #17: two operators claim the same consensus key
func probeDupConsKey() {
	w := NewWorld(6, 2)
	seed := make([]byte, 32)
	seed[0] = 200
	cons := ed25519.GenPrivKeyFromSecret(seed).PubKey()
	var txs [][]byte
	w.BlockMid(func(ctx sdk.Context) {
		for _, i := range []int{3, 4} {
			a, found := w.app.CustomGovKeeper.GetNetworkActorByAddress(ctx, w.addrs[i])
			if !found {
				a = govtypes.NewDefaultActor(w.addrs[i])
			}
			fmt.Println("grant claim perm", i, w.app.CustomGovKeeper.AddWhitelistPermission(ctx, a, govtypes.PermClaimValidator))
		}
	}, nil, nil)
	for _, i := range []int{3, 4} {
		m, err := stakingtypes.NewMsgClaimValidator(fmt.Sprintf("mon%d", i), sdk.ValAddress(w.addrs[i]), cons)
		if err != nil {
			panic(err)
		}
		txs = append(txs, w.SignTx([]sdk.Msg{m}, i, w.privs[i], fee(200)))
	}
	rs, upd, p := w.BlockMid(nil, txs, nil)
	show(rs)
	fmt.Println("two claims of one consensus key in one block: panic", p, "updates", len(upd), "apply:", w.ApplyUpdates(upd))
	_ = codectypes.Any{}
}

// #22/#23: fee collector vs rewards + treasury
func probeTreasury() {
	w := NewWorld(5, 2)
	val0 := sdk.ValAddress(w.addrs[0]).String()
	val1 := sdk.ValAddress(w.addrs[1]).String()
	w.BlockMid(func(ctx sdk.Context) {
		ms := mskeeper.NewMsgServerImpl(w.app.MultiStakingKeeper, w.app.BankKeeper, w.app.CustomGovKeeper, w.app.CustomStakingKeeper)
		for i, v := range []string{val0, val1} {
			ms.UpsertStakingPool(sdk.WrapSDKContext(ctx), &mstypes.MsgUpsertStakingPool{Sender: w.addrs[i].String(), Validator: v, Enabled: true, Commission: sdk.NewDecWithPrec(5, 1)})
			w.app.MultiStakingKeeper.Delegate(ctx, &mstypes.MsgDelegate{DelegatorAddress: w.addrs[3].String(), ValidatorAddress: v, Amounts: sdk.NewCoins(sdk.NewInt64Coin("ukex", 100000))})
		}
		w.app.DistrKeeper.SetSnapPeriod(ctx, 1)
	}, nil, nil)
	for i := 0; i < 4; i++ {
		tx := w.SignTx([]sdk.Msg{banktypes.NewMsgSend(w.addrs[2], w.addrs[4], sdk.NewCoins(sdk.NewInt64Coin("ukex", 1)))}, 2, w.privs[2], fee(100000))
		w.BlockMid(func(ctx sdk.Context) {
			fc := w.app.AccountKeeper.GetModuleAddress("fee_collector")
			bal := w.app.BankKeeper.GetAllBalances(ctx, fc)
			tre := w.app.DistrKeeper.GetFeesTreasury(ctx)
			rew := w.app.MultiStakingKeeper.GetDelegatorRewards(ctx, w.addrs[3])
			fmt.Printf("h=%d after BeginBlock: collector=%v treasury=%v delegatorRewards=%v  solvent(collector>=treasury+rewards)=%v\n", ctx.BlockHeight(), bal, tre, rew, bal.IsAllGTE(tre.Add(rew...)))
		}, [][]byte{tx}, nil)
	}
}

// #24: any validator's UpsertStakingPool overwrites basket id 1
func probeBasketOverwrite() {
	w := NewWorld(5, 2)
	probeBasketSetup(w)
	w.BlockMid(func(ctx sdk.Context) {
		b, _ := w.app.BasketKeeper.GetBasketById(ctx, 1)
		fmt.Println("before: basket1 suffix", b.Suffix, "amount", b.Amount, "tokens", len(b.Tokens))
		ms := mskeeper.NewMsgServerImpl(w.app.MultiStakingKeeper, w.app.BankKeeper, w.app.CustomGovKeeper, w.app.CustomStakingKeeper)
		_, err := ms.UpsertStakingPool(sdk.WrapSDKContext(ctx), &mstypes.MsgUpsertStakingPool{Sender: w.addrs[0].String(), Validator: sdk.ValAddress(w.addrs[0]).String(), Enabled: true, Commission: sdk.NewDecWithPrec(5, 1)})
		b, _ = w.app.BasketKeeper.GetBasketById(ctx, 1)
		fmt.Println("after UpsertStakingPool err", err, ": basket1 suffix", b.Suffix, "amount", b.Amount, "tokens", len(b.Tokens), " bank supply of b1/usd:", w.app.BankKeeper.GetSupply(ctx, "b1/usd"))
	}, nil, nil)
}

func probeMultiSendFrozen() {
	w := NewWorld(5, 2)
	w.BlockMid(func(ctx sdk.Context) {
		w.app.TokensKeeper.AddTokensToBlacklist(ctx, []string{"frozen"})
		fmt.Println("blacklist enabled:", w.app.CustomGovKeeper.GetNetworkProperties(ctx).EnableTokenBlacklist)
	}, nil, nil)
	c := sdk.NewCoins(sdk.NewInt64Coin("frozen", 1000))
	send := banktypes.NewMsgSend(w.addrs[1], w.addrs[2], c)
	rs, _, _ := w.BlockMid(nil, [][]byte{w.SignTx([]sdk.Msg{send}, 1, w.privs[1], fee(200))}, nil)
	fmt.Println("MsgSend of frozen token:")
	show(rs)
	ms := banktypes.NewMsgMultiSend([]banktypes.Input{{Address: w.addrs[1].String(), Coins: c}}, []banktypes.Output{{Address: w.addrs[2].String(), Coins: c}})
	b0 := w.bal(2, "frozen")
	rs, _, _ = w.BlockMid(nil, [][]byte{w.SignTx([]sdk.Msg{ms}, 1, w.privs[1], fee(200))}, nil)
	fmt.Println("MsgMultiSend of frozen token:")
	show(rs)
	fmt.Println("receiver frozen delta:", w.bal(2, "frozen").Sub(b0))
}

func probeCustodyStranger() {
	w := NewWorld(7, 2)
	owner, stranger := 1, 6
	var hash string
	w.BlockMid(func(ctx sdk.Context) {
		ms := custodykeeper.NewMsgServerImpl(w.app.CustodyKeeper, w.app.CustomGovKeeper, w.app.BankKeeper)
		ms.CreateCustody(sdk.WrapSDKContext(ctx), &custodytypes.MsgCreateCustodyRecord{Address: w.addrs[owner], CustodySettings: custodytypes.CustodySettings{CustodyEnabled: true, CustodyMode: 50}, NewKey: "k"})
		ms.AddToCustodians(sdk.WrapSDKContext(ctx), &custodytypes.MsgAddToCustodyCustodians{Address: w.addrs[owner], AddAddress: []sdk.AccAddress{w.addrs[4], w.addrs[5]}, NewKey: "k"})
	}, nil, nil)
	send := custodytypes.NewMsgSend(w.addrs[owner], w.addrs[3], sdk.NewCoins(sdk.NewInt64Coin("ukex", 1000000)), "", sdk.NewCoins(sdk.NewInt64Coin("ukex", 1000)))
	txb := w.SignTx([]sdk.Msg{send}, owner, w.privs[owner], fee(200))
	rs, _, _ := w.BlockMid(nil, [][]byte{txb}, nil)
	show(rs)
	w.BlockMid(func(ctx sdk.Context) {
		pool := w.app.CustodyKeeper.GetCustodyPoolByAddress(ctx, w.addrs[owner])
		for h := range pool.Record {
			hash = h
		}
		fmt.Println("pending custody tx hash:", hash)
	}, nil, nil)
	o0, s0, r0 := w.bal(owner, "ukex"), w.bal(stranger, "ukex"), w.bal(3, "ukex")
	approve := custodytypes.NewMsgApproveCustodyTransaction(w.addrs[stranger], w.addrs[owner], hash)
	rs, _, _ = w.BlockMid(nil, [][]byte{w.SignTx([]sdk.Msg{approve}, stranger, w.privs[stranger], fee(200))}, nil)
	fmt.Println("approval by a NON-custodian (mode 50%, 2 custodians):")
	show(rs)
	fmt.Println("owner delta", w.bal(owner, "ukex").Sub(o0), "stranger delta (paid fee 200)", w.bal(stranger, "ukex").Sub(s0), "recipient delta", w.bal(3, "ukex").Sub(r0))
}

func probeDappMax() {
	w := NewWorld(5, 2)
	w.BlockMid(func(ctx sdk.Context) {
		ms := l2keeper.NewMsgServerImpl(w.app.Layer2Keeper)
		props := w.app.CustomGovKeeper.GetNetworkProperties(ctx)
		fmt.Println("MaxDappBond (KEX):", props.MaxDappBond, "MinDappBond:", props.MinDappBond)
		big := sdk.NewInt(int64(props.MaxDappBond)).Mul(sdk.NewInt(1000000)).Add(sdk.NewInt(1))
		w.app.BankKeeper.MintCoins(ctx, "mint", sdk.NewCoins(sdk.NewCoin("ukex", big)))
		w.app.BankKeeper.SendCoinsFromModuleToAccount(ctx, "mint", w.addrs[1], sdk.NewCoins(sdk.NewCoin("ukex", big)))
		_, err := ms.CreateDappProposal(sdk.WrapSDKContext(ctx), &l2types.MsgCreateDappProposal{Sender: w.addrs[1].String(), Dapp: l2types.Dapp{Name: "d1", Denom: "d1"}, Bond: sdk.NewCoin("ukex", big)})
		d := w.app.Layer2Keeper.GetDapp(ctx, "d1")
		fmt.Println("create with bond = max+1: err", err, "TotalBond", d.TotalBond)
	}, nil, nil)
}

func probeMintBurn() {
	w := NewWorld(5, 2)
	probeBasketSetup(w)
	w.BlockMid(func(ctx sdk.Context) {
		ms := l2keeper.NewMsgServerImpl(w.app.Layer2Keeper)
		_, err := ms.MintBurnTx(sdk.WrapSDKContext(ctx), &l2types.MsgMintBurnTx{Sender: w.addrs[1].String(), Denom: "b1/usd", Amount: sdk.NewInt(400)})
		b, _ := w.app.BasketKeeper.GetBasketById(ctx, 1)
		fmt.Println("MintBurnTx(b1/usd, 400) err", err, ": basket.Amount", b.Amount, "bank supply", w.app.BankKeeper.GetSupply(ctx, "b1/usd"))
	}, nil, nil)
	_ = time.Second
}

func probeBasketSetup(w *World) {
	w.BlockMid(func(ctx sdk.Context) {
		k := w.app.BasketKeeper
		k.CreateBasket(ctx, baskettypesBasket())
		k.MintBasketToken(ctx, mintMsg(w.addrs[1].String(), 1000))
	}, nil, nil)
}
