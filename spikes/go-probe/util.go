package main

import (
	storetypes "github.com/cosmos/cosmos-sdk/store/types"
	sdk "github.com/cosmos/cosmos-sdk/types"
	tmproto "github.com/cometbft/cometbft/proto/tendermint/types"
)

type named struct {
	name string
	f    func()
}

var extra []named

func tmHeader() tmproto.Header { return tmproto.Header{} }

func dump(ctx sdk.Context, key *storetypes.KVStoreKey) map[string][]byte {
	m := map[string][]byte{}
	it := ctx.KVStore(key).Iterator(nil, nil)
	defer it.Close()
	for ; it.Valid(); it.Next() {
		m[string(it.Key())] = append([]byte{}, it.Value()...)
	}
	return m
}
