package main

import (
	"fmt"

	slashingtypes "github.com/KiraCore/sekai/x/slashing/types"
	sdk "github.com/cosmos/cosmos-sdk/types"
)

func init() { extra = append(extra, named{"unpausepause", probeUnpausePause}) }

func probeUnpausePause() {
	w := NewWorld(5, 3)
	val := sdk.ValAddress(w.addrs[0])
	rs, upd, _ := w.BlockMid(nil, [][]byte{w.SignTx([]sdk.Msg{slashingtypes.NewMsgPause(val)}, 0, w.privs[0], fee(200))}, nil)
	show(rs)
	fmt.Println("block A (pause): apply:", w.ApplyUpdates(upd), "cons size", w.valSet.Size())
	w.BlockMid(nil, nil, nil)
	// same block: unpause then pause again (two txs by the same operator)
	tx1 := w.SignTx([]sdk.Msg{slashingtypes.NewMsgUnpause(val)}, 0, w.privs[0], fee(200))
	rs, _, _ = w.BlockMid(nil, [][]byte{tx1}, nil) // unpause alone first to get sequence right? no: do both in one block below
	_ = rs
	// redo on a fresh world so both txs are in ONE block
	w = NewWorld(5, 3)
	rs, upd, _ = w.BlockMid(nil, [][]byte{w.SignTx([]sdk.Msg{slashingtypes.NewMsgPause(val)}, 0, w.privs[0], fee(200))}, nil)
	fmt.Println("pause: apply:", w.ApplyUpdates(upd), "cons size", w.valSet.Size())
	multi := w.SignTx([]sdk.Msg{slashingtypes.NewMsgUnpause(val), slashingtypes.NewMsgPause(val)}, 0, w.privs[0], fee(200))
	rs, upd, p := w.BlockMid(nil, [][]byte{multi}, nil)
	show(rs)
	fmt.Println("one tx [unpause, pause]: panic", p, "updates", len(upd), "apply:", w.ApplyUpdates(upd))
}
