package main

import (
	"runtime/debug"
	"encoding/json"
	"fmt"
	"os"
	"time"

	sdkmath "cosmossdk.io/math"
	simapp "github.com/KiraCore/sekai/app"
	appparams "github.com/KiraCore/sekai/app/params"
	govtypes "github.com/KiraCore/sekai/x/gov/types"
	stakingtypes "github.com/KiraCore/sekai/x/staking/types"
	dbm "github.com/cometbft/cometbft-db"
	bam "github.com/cosmos/cosmos-sdk/baseapp"
	abci "github.com/cometbft/cometbft/abci/types"
	tmcrypto "github.com/cometbft/cometbft/crypto"
	cryptoenc "github.com/cometbft/cometbft/crypto/encoding"
	"github.com/cometbft/cometbft/libs/log"
	tmproto "github.com/cometbft/cometbft/proto/tendermint/types"
	tmtypes "github.com/cometbft/cometbft/types"
	"github.com/cosmos/cosmos-sdk/client"
	clienttx "github.com/cosmos/cosmos-sdk/client/tx"
	codectypes "github.com/cosmos/cosmos-sdk/codec/types"
	"github.com/cosmos/cosmos-sdk/crypto/keys/ed25519"
	"github.com/cosmos/cosmos-sdk/crypto/keys/secp256k1"
	cryptotypes "github.com/cosmos/cosmos-sdk/crypto/types"
	simtestutil "github.com/cosmos/cosmos-sdk/testutil/sims"
	sdk "github.com/cosmos/cosmos-sdk/types"
	"github.com/cosmos/cosmos-sdk/types/tx/signing"
	xauthsigning "github.com/cosmos/cosmos-sdk/x/auth/signing"
	authtypes "github.com/cosmos/cosmos-sdk/x/auth/types"
	banktypes "github.com/cosmos/cosmos-sdk/x/bank/types"
)

const chainID = "probe-1"

type World struct {
	app     *simapp.SekaiApp
	enc     simapp.EncodingConfig
	privs   []cryptotypes.PrivKey
	addrs   []sdk.AccAddress
	valPriv []cryptotypes.PrivKey // consensus keys (ed25519)
	valSet  *tmtypes.ValidatorSet
	height  int64
	now     time.Time
}

func detKey(i int) cryptotypes.PrivKey {
	seed := make([]byte, 32)
	seed[0] = byte(i + 1)
	seed[31] = 7
	return &secp256k1.PrivKey{Key: seed}
}

func NewWorld(nAcc, nVal int) *World {
	w := &World{enc: simapp.MakeEncodingConfig(), height: 0, now: time.Unix(1_700_000_000, 0).UTC()}
	app := simapp.NewInitApp(log.NewNopLogger(), dbm.NewMemDB(), nil, true, map[int64]bool{}, simapp.DefaultNodeHome, 5, w.enc, simtestutil.EmptyAppOptions{}, bam.SetChainID(chainID))
	w.app = app
	gs := simapp.NewDefaultGenesisState()

	var genAccs []authtypes.GenesisAccount
	var balances []banktypes.Balance
	total := sdk.NewCoins()
	for i := 0; i < nAcc; i++ {
		p := detKey(i)
		a := sdk.AccAddress(p.PubKey().Address())
		w.privs = append(w.privs, p)
		w.addrs = append(w.addrs, a)
		genAccs = append(genAccs, authtypes.NewBaseAccountWithAddress(a))
		c := sdk.NewCoins(sdk.NewCoin("ukex", sdkmath.NewInt(1_000_000_000)), sdk.NewCoin("frozen", sdkmath.NewInt(1_000_000)))
		balances = append(balances, banktypes.Balance{Address: a.String(), Coins: c})
		total = total.Add(c...)
	}
	gs[authtypes.ModuleName] = app.AppCodec().MustMarshalJSON(authtypes.NewGenesisState(authtypes.DefaultParams(), genAccs))
	gs[banktypes.ModuleName] = app.AppCodec().MustMarshalJSON(banktypes.NewGenesisState(banktypes.DefaultGenesisState().Params, balances, total, nil, nil))

	// validators: operator = account i, consensus key ed25519 derived
	var vals []stakingtypes.Validator
	var tmVals []*tmtypes.Validator
	for i := 0; i < nVal; i++ {
		seed := make([]byte, 32)
		seed[0] = byte(100 + i)
		cp := ed25519.GenPrivKeyFromSecret(seed)
		w.valPriv = append(w.valPriv, cp)
		any, _ := codectypes.NewAnyWithValue(cp.PubKey())
		vals = append(vals, stakingtypes.Validator{ValKey: sdk.ValAddress(w.addrs[i]), PubKey: any, Status: stakingtypes.Active})
	}
	gs[stakingtypes.ModuleName] = app.AppCodec().MustMarshalJSON(&stakingtypes.GenesisState{Validators: vals})

	// gov genesis: make account 0 sudo (role 1) -- default genesis has roles; add actor
	var govGen govtypes.GenesisState
	app.AppCodec().MustUnmarshalJSON(gs[govtypes.ModuleName], &govGen)
	actor := govtypes.NewNetworkActor(w.addrs[0], []uint64{1}, govtypes.Active, []govtypes.VoteOption{govtypes.OptionYes, govtypes.OptionNo, govtypes.OptionAbstain, govtypes.OptionNoWithVeto}, govtypes.NewPermissions(nil, nil), 1)
	govGen.NetworkActors = append(govGen.NetworkActors, &actor)
	gs[govtypes.ModuleName] = app.AppCodec().MustMarshalJSON(&govGen)

	bz, _ := json.Marshal(gs)
	res := app.InitChain(abci.RequestInitChain{ChainId: chainID, Time: w.now, ConsensusParams: simtestutil.DefaultConsensusParams, AppStateBytes: bz, InitialHeight: 1})
	for _, u := range res.Validators {
		pk, _ := tmtypesPubKey(u)
		tmVals = append(tmVals, tmtypes.NewValidator(pk, u.Power))
	}
	w.valSet = tmtypes.NewValidatorSet(tmVals)
	return w
}

func tmtypesPubKey(u abci.ValidatorUpdate) (tmcrypto.PubKey, error) {
	return cryptoenc.PubKeyFromProto(u.PubKey)
}

// Block runs one block with the given txs; all current validators sign unless absent[i].
func (w *World) Block(txs [][]byte, absent map[int]bool) (results []*abci.ResponseDeliverTx, upd []abci.ValidatorUpdate, panicked interface{}) {
	defer func() {
		if r := recover(); r != nil {
			panicked = r
		}
	}()
	w.height++
	w.now = w.now.Add(6 * time.Second)
	var votes []abci.VoteInfo
	for i, v := range w.valSet.Validators {
		votes = append(votes, abci.VoteInfo{Validator: abci.Validator{Address: v.Address, Power: v.VotingPower}, SignedLastBlock: !absent[i]})
	}
	var proposer []byte
	if len(w.valSet.Validators) > 0 {
		proposer = w.valSet.Validators[int(w.height)%len(w.valSet.Validators)].Address
	}
	w.app.BeginBlock(abci.RequestBeginBlock{Header: tmproto.Header{ChainID: chainID, Height: w.height, Time: w.now, ProposerAddress: proposer}, LastCommitInfo: abci.CommitInfo{Votes: votes}})
	for _, tx := range txs {
		r := w.app.DeliverTx(abci.RequestDeliverTx{Tx: tx})
		results = append(results, &r)
	}
	eb := w.app.EndBlock(abci.RequestEndBlock{Height: w.height})
	upd = eb.ValidatorUpdates
	w.app.Commit()
	return
}

func (w *World) ApplyUpdates(upd []abci.ValidatorUpdate) error {
	if len(upd) == 0 {
		return nil
	}
	vs, err := tmtypes.PB2TM.ValidatorUpdates(upd)
	if err != nil {
		return err
	}
	nv := w.valSet.Copy()
	if err := nv.UpdateWithChangeSet(vs); err != nil {
		return err
	}
	w.valSet = nv
	return nil
}

func (w *World) Ctx() sdk.Context {
	return w.app.NewContext(false, tmproto.Header{ChainID: chainID, Height: w.height + 1, Time: w.now.Add(6 * time.Second)})
}

func (w *World) account(i int) authtypes.AccountI {
	ctx := w.app.NewContext(w.height > 0, tmproto.Header{})
	return w.app.AccountKeeper.GetAccount(ctx, w.addrs[i])
}

// SignTx builds a DIRECT-mode tx signed by signer i with key `with` (may differ: forgery).
func (w *World) SignTx(msgs []sdk.Msg, signer int, with cryptotypes.PrivKey, fee sdk.Coins) []byte {
	txCfg := w.enc.TxConfig
	b := txCfg.NewTxBuilder()
	if err := b.SetMsgs(msgs...); err != nil {
		panic(err)
	}
	b.SetFeeAmount(fee)
	b.SetGasLimit(200000)
	acc := w.account(signer)
	seq, num := acc.GetSequence(), acc.GetAccountNumber()
	mode := txCfg.SignModeHandler().DefaultMode()
	sig := signing.SignatureV2{PubKey: with.PubKey(), Data: &signing.SingleSignatureData{SignMode: mode}, Sequence: seq}
	if err := b.SetSignatures(sig); err != nil {
		panic(err)
	}
	sd := xauthsigning.SignerData{ChainID: chainID, AccountNumber: num, Sequence: seq, Address: acc.GetAddress().String()}
	s2, err := clienttx.SignWithPrivKey(mode, sd, b, with, txCfg, seq)
	if err != nil {
		panic(err)
	}
	if err := b.SetSignatures(s2); err != nil {
		panic(err)
	}
	bz, err := txCfg.TxEncoder()(b.GetTx())
	if err != nil {
		panic(err)
	}
	return bz
}

var _ = client.Context{}

func fee(n int64) sdk.Coins { return sdk.NewCoins(sdk.NewInt64Coin("ukex", n)) }

func main() {
	appparams.SetConfig()
	which := "all"
	if len(os.Args) > 1 {
		which = os.Args[1]
	}
	run := func(name string, f func()) {
		if which != "all" && which != name {
			return
		}
		fmt.Println("=====", name)
		defer func() {
			if r := recover(); r != nil {
				fmt.Println("PROBE PANIC:", r); fmt.Println(string(debug.Stack()))
			}
		}()
		f()
	}
	run("basic", probeBasic)
	run("poor", probePoorNetwork)
	run("ethforge", probeEthForge)
	run("jailpaused", probeJailPaused)
	run("quorumpanic", probeQuorumPanic)
	run("votes", probeVotesWiped)
	run("burn", probeBasketBurn)
	run("mintissue", probeMintIssueNative)
	run("determinism", probeDeterminism)
	run("pauseall", probePauseAll)
	for _, e := range extra {
		run(e.name, e.f)
	}
}
