package main

import (
	"bytes"
	"encoding/json"
	"fmt"

	simapp "github.com/KiraCore/sekai/app"
	custodykeeper "github.com/KiraCore/sekai/x/custody/keeper"
	custodytypes "github.com/KiraCore/sekai/x/custody/types"
	gov "github.com/KiraCore/sekai/x/gov"
	govtypes "github.com/KiraCore/sekai/x/gov/types"
	mskeeper "github.com/KiraCore/sekai/x/multistaking/keeper"
	mstypes "github.com/KiraCore/sekai/x/multistaking/types"
	recoverykeeper "github.com/KiraCore/sekai/x/recovery/keeper"
	recoverytypes "github.com/KiraCore/sekai/x/recovery/types"
	"github.com/KiraCore/sekai/x/ubi"
	ubitypes "github.com/KiraCore/sekai/x/ubi/types"
	spendingtypes "github.com/KiraCore/sekai/x/spending/types"
	dbm "github.com/cometbft/cometbft-db"
	abci "github.com/cometbft/cometbft/abci/types"
	"github.com/cometbft/cometbft/libs/log"
	bam "github.com/cosmos/cosmos-sdk/baseapp"
	simtestutil "github.com/cosmos/cosmos-sdk/testutil/sims"
	sdk "github.com/cosmos/cosmos-sdk/types"
)

var rotPanic interface{}

func init() { extra = append(extra, named{"slashredeem", probeSlashRedeem}, named{"custody", probeCustody}, named{"rotation", probeRotation}, named{"rankreset", probeRankReset}, named{"ubi", probeUbiOverflow}, named{"genesis", probeGenesisRoundTrip}, named{"durations", probeDurations}) }

func probeSlashRedeem() {
	w := NewWorld(5, 2)
	w.BlockMid(func(ctx sdk.Context) {
		ms := mskeeper.NewMsgServerImpl(w.app.MultiStakingKeeper, w.app.BankKeeper, w.app.CustomGovKeeper, w.app.CustomStakingKeeper)
		val := sdk.ValAddress(w.addrs[0]).String()
		_, err := ms.UpsertStakingPool(sdk.WrapSDKContext(ctx), &mstypes.MsgUpsertStakingPool{Sender: w.addrs[0].String(), Validator: val, Enabled: true, Commission: sdk.NewDecWithPrec(5, 1)})
		fmt.Println("upsert pool:", err)
		for _, i := range []int{2, 3} {
			err = w.app.MultiStakingKeeper.Delegate(ctx, &mstypes.MsgDelegate{DelegatorAddress: w.addrs[i].String(), ValidatorAddress: val, Amounts: sdk.NewCoins(sdk.NewInt64Coin("ukex", 1000))})
			fmt.Println("delegate", i, err)
		}
		w.app.MultiStakingKeeper.SlashStakingPool(ctx, val, sdk.NewDecWithPrec(5, 1)) // 50%
		pool, _ := w.app.MultiStakingKeeper.GetStakingPoolByValidator(ctx, val)
		fmt.Println("after 50% slash: stake", pool.TotalStakingTokens, "shares", pool.TotalShareTokens, "slashed", pool.Slashed)
		// delegator 2 holds HALF of the shares; fair redemption = 500 of the remaining 1000
		err = w.app.MultiStakingKeeper.Undelegate(ctx, &mstypes.MsgUndelegate{DelegatorAddress: w.addrs[2].String(), ValidatorAddress: val, Amounts: sdk.NewCoins(sdk.NewInt64Coin("ukex", 1000))})
		pool, _ = w.app.MultiStakingKeeper.GetStakingPoolByValidator(ctx, val)
		fmt.Println("delegator with 1/2 of shares undelegates 1000 (whole remaining pool): err", err, "pool stake left", pool.TotalStakingTokens, "his share balance", w.app.BankKeeper.GetBalance(ctx, w.addrs[2], "v1/ukex"))
	}, nil, nil)
}

func probeCustody() {
	w := NewWorld(6, 2)
	victim, attacker := 1, 2
	w.BlockMid(func(ctx sdk.Context) {
		ms := custodykeeper.NewMsgServerImpl(w.app.CustodyKeeper, w.app.CustomGovKeeper, w.app.BankKeeper)
		_, err := ms.CreateCustody(sdk.WrapSDKContext(ctx), &custodytypes.MsgCreateCustodyRecord{Address: w.addrs[victim], CustodySettings: custodytypes.CustodySettings{CustodyEnabled: true, CustodyMode: 100}, NewKey: "victimkeyhash"})
		fmt.Println("victim creates custody:", err)
		_, err = ms.AddToCustodians(sdk.WrapSDKContext(ctx), &custodytypes.MsgAddToCustodyCustodians{Address: w.addrs[victim], AddAddress: []sdk.AccAddress{w.addrs[4], w.addrs[5]}, NewKey: "victimkeyhash"})
		fmt.Println("victim adds custodians:", err, w.app.CustodyKeeper.GetCustodyCustodiansByAddress(ctx, w.addrs[victim]))
	}, nil, nil)
	// attacker (no custody of its own) sends DropCustodians naming victim as target: through the real ante + handler
	drop := &custodytypes.MsgDropCustodyCustodians{Address: w.addrs[attacker], OldKey: "x", NewKey: "attackerkey", TargetAddress: w.addrs[victim].String()}
	rs, _, p := w.BlockMid(nil, [][]byte{w.SignTx([]sdk.Msg{drop}, attacker, w.privs[attacker], fee(200))}, nil)
	fmt.Println("attacker drops victim's custodians via TargetAddress: panic", p)
	show(rs)
	w.BlockMid(func(ctx sdk.Context) {
		fmt.Println("victim custodians now:", w.app.CustodyKeeper.GetCustodyCustodiansByAddress(ctx, w.addrs[victim]), "victim key:", w.app.CustodyKeeper.GetCustodyInfoByAddress(ctx, w.addrs[victim]).Key)
	}, nil, nil)
}

func probeRotation() {
	w := NewWorld(6, 2)
	old, neu := 3, 5
	defer func() { fmt.Println("rotation probe panic value:", rotPanic) }()
	_, _, rotPanic = w.BlockMid(func(ctx sdk.Context) {
		gk := w.app.CustomGovKeeper
		fmt.Println("register:", gk.RegisterIdentityRecords(ctx, w.addrs[old], []govtypes.IdentityInfoEntry{{Key: "username", Info: "alice"}}))
		// the two keeper calls the rotation handler performs for each record
		for _, rec := range gk.GetIdRecordsByAddress(ctx, w.addrs[old]) {
			gk.DeleteIdentityRecordById(ctx, rec.Id)
			rec.Address = w.addrs[neu].String()
			gk.SetIdentityRecord(ctx, rec)
		}
		fmt.Println("new owner's records:", len(gk.GetIdRecordsByAddress(ctx, w.addrs[neu])), " old address still indexes:", len(gk.GetIdRecordsByAddress(ctx, w.addrs[old])))
		err := gk.DeleteIdentityRecords(ctx, w.addrs[old], []string{"username"})
		fmt.Println("OLD address deletes 'username': err", err, " new owner's records after:", len(gk.GetIdRecordsByAddress(ctx, w.addrs[neu])))
	}, nil, nil)
	_ = recoverykeeper.Keeper{}
	_ = recoverytypes.ModuleName
}

func probeRankReset() {
	w := NewWorld(5, 3)
	w.BlockMid(func(ctx sdk.Context) {
		v, _ := w.app.CustomStakingKeeper.GetValidator(ctx, sdk.ValAddress(w.addrs[0]))
		w.app.CustomSlashingKeeper.Jail(ctx, v.GetConsAddr())
	}, nil, nil)
	_, upd, _ := w.BlockMid(nil, nil, nil)
	_ = upd
	// apply the jail removal from previous block is lost in this probe; recompute set from scratch:
	w2 := NewWorld(5, 3)
	_, upd, _ = w2.BlockMid(func(ctx sdk.Context) {
		v, _ := w2.app.CustomStakingKeeper.GetValidator(ctx, sdk.ValAddress(w2.addrs[0]))
		w2.app.CustomSlashingKeeper.Jail(ctx, v.GetConsAddr())
	}, nil, nil)
	fmt.Println("jail: updates", len(upd), "apply:", w2.ApplyUpdates(upd), "cons set size", w2.valSet.Size())
	_, upd, _ = w2.BlockMid(func(ctx sdk.Context) {
		fmt.Println("rank reset:", w2.app.CustomSlashingKeeper.ResetWholeValidatorRank(ctx), "status now", w2.valStatus(ctx, 0))
	}, nil, nil)
	fmt.Println("after reset: updates", len(upd), "apply:", w2.ApplyUpdates(upd), "cons set size", w2.valSet.Size(), "(app says 3 active)")
}

func probeUbiOverflow() {
	w := NewWorld(4, 2)
	w.BlockMid(func(ctx sdk.Context) {
		err := w.app.SpendingKeeper.CreateSpendingPool(ctx, spendingtypes.SpendingPool{Name: "p", Owners: &spendingtypes.PermInfo{}, Beneficiaries: &spendingtypes.WeightedPermInfo{}, Balances: sdk.Coins{}})
		fmt.Println("pool:", err)
		h := ubi.NewApplyUpsertUBIProposalHandler(w.app.UbiKeeper, w.app.CustomGovKeeper, w.app.SpendingKeeper)
		fmt.Println("raise hardcap:", w.app.CustomGovKeeper.SetNetworkProperty(ctx, govtypes.UbiHardcap, govtypes.NetworkPropertyValue{Value: 7000000}))
		hardcap := w.app.CustomGovKeeper.GetNetworkProperties(ctx).UbiHardcap
		// honest over-cap
		err = h.Apply(ctx, 1, &ubitypes.UpsertUBIProposal{Name: "big", Amount: hardcap + 1, Period: 31556952, Pool: "p"}, sdk.ZeroDec())
		fmt.Println("hardcap", hardcap, " amount=hardcap+1 per year:", err)
		// wrap-around: amount*31556952 overflows uint64
		amt := uint64(584554049254) // ~2^64/31556952 + small
		err = h.Apply(ctx, 2, &ubitypes.UpsertUBIProposal{Name: "wrap", Amount: amt, Period: 31556952, Pool: "p"}, sdk.ZeroDec())
		fmt.Println("amount", amt, "per year (>> hardcap) accepted? err =", err, " wrapped product =", amt*31556952)
	}, nil, nil)
}

func probeGenesisRoundTrip() {
	w := NewWorld(5, 2)
	content := govtypes.NewSetNetworkPropertyProposal(govtypes.MinTxFee, govtypes.NetworkPropertyValue{Value: 101})
	msg, _ := govtypes.NewMsgSubmitProposal(w.addrs[0], "t", "d", content)
	w.BlockMid(nil, [][]byte{w.SignTx([]sdk.Msg{msg}, 0, w.privs[0], fee(200))}, nil)
	w.BlockMid(nil, nil, nil)
	exp, err := w.app.ExportAppStateAndValidators(false, nil)
	fmt.Println("export err", err, "bytes", len(exp.AppState))
	app2 := simapp.NewInitApp(log.NewNopLogger(), dbm.NewMemDB(), nil, true, map[int64]bool{}, simapp.DefaultNodeHome, 5, w.enc, simtestutil.EmptyAppOptions{}, bam.SetChainID(chainID))
	func() {
		defer func() {
			if r := recover(); r != nil {
				fmt.Println("InitChain of exported genesis PANICKED:", r)
			}
		}()
		var gs map[string]json.RawMessage
		json.Unmarshal(exp.AppState, &gs)
		gs["upgrade"] = bytes.Replace(gs["upgrade"], []byte("v0.1.22.11"), []byte("v0.4.4"), 1)
		patched, _ := json.Marshal(gs)
		app2.InitChain(abci.RequestInitChain{ChainId: chainID, Time: w.now, ConsensusParams: simtestutil.DefaultConsensusParams, AppStateBytes: patched, InitialHeight: exp.Height})
		// compare gov stores key by key
		c1 := w.app.NewContext(true, tmHeader())
		c2 := app2.NewContext(false, tmHeader())
		for _, name := range []string{"customgov", "customstaking", "customslashing", "distributor", "multistaking", "bank", "acc", "tokens", "spending", "ubi", "basket", "custody", "collectives", "layer2", "recovery", "feeprocessing", "evidence", "upgrade"} {
			k1, k2 := w.app.GetKey(name), app2.GetKey(name)
			if k1 == nil {
				fmt.Println("no key", name)
				continue
			}
			m1, m2 := dump(c1, k1), dump(c2, k2)
			miss, extra, diff := 0, 0, 0
			var ex string
			for k, v := range m1 {
				v2, ok := m2[k]
				if !ok {
					miss++
					if ex == "" {
						ex = fmt.Sprintf("%x", k)
					}
				} else if !bytes.Equal(v, v2) {
					diff++
				}
			}
			for k := range m2 {
				if _, ok := m1[k]; !ok {
					extra++
				}
			}
			fmt.Printf("store %-14s keys=%d missing-after-import=%d extra=%d different=%d e.g.missing=%s\n", name, len(m1), miss, extra, diff, ex)
		}
	}()
	_ = json.Marshal
	_ = gov.EndBlocker
}

func probeDurations() {
	w := NewWorld(4, 2)
	w.BlockMid(func(ctx sdk.Context) {
		h := gov.NewApplySetProposalDurationsProposalHandler(w.app.CustomGovKeeper)
		p := govtypes.NewSetProposalDurationsProposal([]string{"AAA", "BBB", "CCC"}, []uint64{1000, 1, 2000}) // middle one below minimum (300)
		err := w.app.CustomGovKeeper.GetProposalRouter().ApplyProposal(ctx, 1, p, sdk.ZeroDec())
		_ = h
		fmt.Println("apply err:", err, " durations stored: AAA", w.app.CustomGovKeeper.GetProposalDuration(ctx, "AAA"), "BBB", w.app.CustomGovKeeper.GetProposalDuration(ctx, "BBB"), "CCC", w.app.CustomGovKeeper.GetProposalDuration(ctx, "CCC"))
	}, nil, nil)
}
