/-! Spike (core Lean only): the UBI hard-cap test of x/ubi/proposal_handler.go in real uint64 arithmetic.
    `ubiSum += record.Amount * yearSeconds / record.Period`, accept iff
    `ubiSum + p.Amount*yearSeconds/p.Period ≤ hardcap`.  The word size `w` and the constant `ys` are
    parameters of the general lemmas (keeps the kernel away from arithmetic on big literals). -/
namespace Ubi

/-- Go uint64 semantics on naturals below w = 2^64 -/
def mul64 (w a b : Nat) : Nat := (a * b) % w
def add64 (w a b : Nat) : Nat := (a + b) % w

def term (ys w amount period : Nat) : Nat := mul64 w amount ys / period        -- Go panics for period = 0
def ubiSumFrom (ys w : Nat) (records : List (Nat × Nat)) (acc : Nat) : Nat :=
  records.foldl (fun acc r => add64 w acc (term ys w r.1 r.2)) acc
def accept (ys w : Nat) (records : List (Nat × Nat)) (amount period hardcap : Nat) : Bool :=
  decide (add64 w (ubiSumFrom ys w records 0) (term ys w amount period) ≤ hardcap)

/-- what the property asks for: the exact yearly total stays within the cap -/
def exactTerm (ys amount period : Nat) : Nat := amount * ys / period
def exactSumFrom (ys : Nat) (records : List (Nat × Nat)) (acc : Nat) : Nat :=
  records.foldl (fun acc r => acc + exactTerm ys r.1 r.2) acc
def exactOk (ys : Nat) (records : List (Nat × Nat)) (amount period hardcap : Nat) : Prop :=
  exactSumFrom ys records 0 + exactTerm ys amount period ≤ hardcap

theorem exactSum_mono (ys : Nat) (l : List (Nat × Nat)) (a : Nat) : a ≤ exactSumFrom ys l a := by
  induction l generalizing a with
  | nil => exact Nat.le_refl a
  | cons x xs ih =>
    simp only [exactSumFrom, List.foldl_cons]
    exact Nat.le_trans (Nat.le_add_right ..) (ih _)

theorem sum_exact (ys w : Nat) (records : List (Nat × Nat)) (acc : Nat)
    (hmul : ∀ r ∈ records, r.1 * ys < w) (hsum : exactSumFrom ys records acc < w) :
    ubiSumFrom ys w records acc = exactSumFrom ys records acc := by
  induction records generalizing acc with
  | nil => rfl
  | cons r rest ih =>
    simp only [ubiSumFrom, exactSumFrom, List.foldl_cons] at hsum ⊢
    have hr : r.1 * ys < w := hmul r (List.mem_cons_self ..)
    have hterm : term ys w r.1 r.2 = exactTerm ys r.1 r.2 := by
      unfold term exactTerm mul64; rw [Nat.mod_eq_of_lt hr]
    have hpre : acc + exactTerm ys r.1 r.2 < w := Nat.lt_of_le_of_lt (exactSum_mono ys rest _) hsum
    have hadd : add64 w acc (term ys w r.1 r.2) = acc + exactTerm ys r.1 r.2 := by
      unfold add64; rw [hterm, Nat.mod_eq_of_lt hpre]
    rw [hadd]
    exact ih _ (fun x hx => hmul x (List.mem_cons_of_mem _ hx)) hsum

/-- partial: with no wrap-around anywhere the uint64 test is the exact test -/
theorem hardcap_partial (ys w : Nat) (records : List (Nat × Nat)) (amount period hardcap : Nat)
    (hmul : ∀ r ∈ records, r.1 * ys < w) (ha : amount * ys < w)
    (hsum : exactSumFrom ys records 0 + exactTerm ys amount period < w) :
    accept ys w records amount period hardcap = true ↔ exactOk ys records amount period hardcap := by
  unfold accept exactOk
  have h1 := sum_exact ys w records 0 hmul (Nat.lt_of_le_of_lt (Nat.le_add_right ..) hsum)
  have hterm : term ys w amount period = exactTerm ys amount period := by
    unfold term exactTerm mul64; rw [Nat.mod_eq_of_lt ha]
  rw [h1, hterm]
  unfold add64; rw [Nat.mod_eq_of_lt hsum]
  simp

/-- the full statement is false for the real constants: reproduced on the real handler (DESIGN.md §7 #25) -/
theorem hardcap_counterexample :
    accept 31556952 (2 ^ 64) [] 584554049254 31556952 7000000 = true ∧
    ¬ exactOk 31556952 [] 584554049254 31556952 7000000 := by
  constructor
  · decide
  · unfold exactOk exactSumFrom exactTerm; simp

#print axioms hardcap_counterexample
#print axioms hardcap_partial
end Ubi
