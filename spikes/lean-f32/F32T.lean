import SpikeProofs.F32R

namespace F32

theorem rne_nonpos (x : ℚ) (hx : x ≤ 0) : rne x = 0 := by unfold rne; simp [hx]

theorem rne_le_repr' (x : ℚ) (m : ℕ) (e : ℤ) (hm : m < 2 ^ 24)
    (h : x ≤ (m : ℚ) * pow2 e) : rne x ≤ (m : ℚ) * pow2 e := by
  by_cases hx : 0 < x
  · exact rne_le_repr x hx m e hm h
  · rw [rne_nonpos x (not_lt.mp hx)]
    have := pow2_pos e; positivity

theorem pow2_strictMono {a b : ℤ} (h : a < b) : pow2 a < pow2 b := by
  rw [pow2_eq, pow2_eq]; exact zpow_lt_zpow_right₀ (by norm_num) h

theorem ilog2_unique (x : ℚ) (hx : 0 < x) (n : ℤ) (h1 : pow2 n ≤ x) (h2 : x < pow2 (n + 1)) : ilog2 x = n := by
  obtain ⟨s1, s2⟩ := ilog2_spec x hx
  by_contra hne
  rcases lt_or_gt_of_ne hne with hlt | hgt
  · -- ilog2 x < n → ilog2 x + 1 ≤ n → x < pow2 (il+1) ≤ pow2 n ≤ x
    have : pow2 (ilog2 x + 1) ≤ pow2 n := by
      rcases eq_or_lt_of_le (show ilog2 x + 1 ≤ n by omega) with h | h
      · rw [h]
      · exact le_of_lt (pow2_strictMono h)
    linarith
  · have : pow2 (n + 1) ≤ pow2 (ilog2 x) := by
      rcases eq_or_lt_of_le (show n + 1 ≤ ilog2 x by omega) with h | h
      · rw [h]
      · exact le_of_lt (pow2_strictMono h)
    linarith

/-- above the midpoint between m·2^e and (m+1)·2^e (same binade) rne goes up -/
theorem rne_ge_succ (x : ℚ) (m : ℕ) (e : ℤ) (hm1 : 2 ^ 23 ≤ m) (hm2 : m < 2 ^ 24)
    (hlo : ((m : ℚ) + 1 / 2) * pow2 e < x) (hhi : x < (2:ℚ) ^ 24 * pow2 e) :
    ((m : ℚ) + 1) * pow2 e ≤ rne x := by
  have hpe := pow2_pos e
  have hm1' : (2:ℚ) ^ 23 ≤ m := by exact_mod_cast hm1
  have hx : 0 < x := by
    have : (0:ℚ) < ((m : ℚ) + 1 / 2) * pow2 e := by positivity
    linarith
  have hil : ilog2 x = 23 + e := by
    apply ilog2_unique x hx
    · rw [pow2_add]; have : pow2 23 = (2:ℚ)^23 := by rw [pow2_eq]; norm_num
      rw [this]; nlinarith
    · have : 23 + e + 1 = 24 + e := by ring
      rw [this, pow2_add]; have : pow2 24 = (2:ℚ)^24 := by rw [pow2_eq]; norm_num
      rw [this]; exact hhi
  rw [rne_pos_eq x hx, hil]
  have hk : (23:ℤ) - (23 + e) = -e := by ring
  rw [hk, neg_neg]
  have hy0 : 0 ≤ x * pow2 (-e) := by have := pow2_pos (-e); positivity
  have hgt : ((m:ℕ) : ℚ) + 1/2 < x * pow2 (-e) := by
    have h1 := pow2_neg_mul e
    have hne := pow2_pos (-e)
    calc ((m:ℕ) : ℚ) + 1/2 = (((m : ℚ) + 1 / 2) * pow2 e) * pow2 (-e) := by rw [mul_assoc, h1]; ring
      _ < x * pow2 (-e) := by nlinarith
  have := rhe_ge_succ_of_gt_half _ hy0 m hgt
  have h3 : ((m : ℚ) + 1) ≤ (rhe (x * pow2 (-e)) : ℚ) := by exact_mod_cast this
  nlinarith

theorem ofNat_exact (n : ℕ) (h : n ≤ 2 ^ 24) : ofNat n = (n : ℚ) := by
  unfold ofNat
  rcases Nat.lt_or_ge n (2 ^ 24) with hlt | hge
  · have := rne_exact n 0 hlt
    simpa [pow2_eq] using this
  · have hn : n = 2 ^ 24 := by omega
    have := rne_exact (2 ^ 23) 1 (by norm_num)
    subst hn
    have e : ((2 ^ 23 : ℕ) : ℚ) * pow2 1 = ((2 ^ 24 : ℕ) : ℚ) := by rw [pow2_eq]; norm_num
    rw [e] at this; exact this

theorem pass_exact (yes total : ℕ) (ht : 0 < total) (hT : total ≤ 2 ^ 24) (hy : yes ≤ total) :
    passF yes total = decide (2 * yes > total) := by
  unfold passF div mul
  rw [ofNat_exact yes (by omega), ofNat_exact total hT]
  have htq : (0 : ℚ) < total := by exact_mod_cast ht
  have h100 : rne (100 : ℚ) = 100 := by
    have := rne_exact 100 0 (by norm_num); simpa [pow2_eq] using this
  have e50 : ((13107200 : ℕ) : ℚ) * pow2 (-18) = 50 := by rw [pow2_eq]; norm_num
  have e50' : ((13107201 : ℕ) : ℚ) * pow2 (-18) = 50 + (2:ℚ)⁻¹ ^ 18 := by rw [pow2_eq]; norm_num
  by_cases hgt : 2 * yes > total
  · simp only [hgt, decide_true, decide_eq_true_eq]
    rcases Nat.lt_or_ge yes total with hlt | hge
    · -- 1/2 < q < 1
      have hq1 : ((yes : ℚ) / total) < (2:ℚ) ^ 24 * pow2 (-24) := by
        have : (2:ℚ) ^ 24 * pow2 (-24) = 1 := by rw [pow2_eq]; norm_num
        rw [this, div_lt_one htq]; exact_mod_cast hlt
      have hq2 : (((2 ^ 23 : ℕ) : ℚ) + 1 / 2) * pow2 (-24) < (yes : ℚ) / total := by
        have : (((2 ^ 23 : ℕ) : ℚ) + 1 / 2) * pow2 (-24) = (16777217 : ℚ) / 33554432 := by
          rw [pow2_eq]; norm_num
        rw [this, div_lt_div_iff₀ (by norm_num) htq]
        have hnat : 16777217 * total < yes * 33554432 := by omega
        exact_mod_cast hnat
      have hq' := rne_ge_succ _ (2 ^ 23) (-24) (by norm_num) (by norm_num) hq2 hq1
      have hval : (((2 ^ 23 : ℕ) : ℚ) + 1) * pow2 (-24) = 1 / 2 + (2:ℚ)⁻¹ ^ 24 := by rw [pow2_eq]; norm_num
      rw [hval] at hq'
      set q' := rne ((yes : ℚ) / total) with hqd
      have hx : ((13107201 : ℕ) : ℚ) * pow2 (-18) ≤ q' * 100 := by
        rw [e50']; nlinarith [show (2:ℚ)⁻¹ ^ 18 ≤ 100 * (2:ℚ)⁻¹ ^ 24 by norm_num]
      have hpos : 0 < q' * 100 := by
        have : (0:ℚ) < 1 / 2 + (2:ℚ)⁻¹ ^ 24 := by positivity
        nlinarith
      have := rne_ge_repr (q' * 100) hpos 13107201 (-18) (by norm_num) hx
      rw [e50'] at this
      have : (0:ℚ) < (2:ℚ)⁻¹ ^ 18 := by positivity
      linarith
    · have : yes = total := by omega
      subst this
      have : ((yes : ℚ) / (yes : ℚ)) = 1 := div_self (ne_of_gt htq)
      rw [this]
      have h1 : rne (1 : ℚ) = 1 := by
        have := rne_exact 1 0 (by norm_num); simpa [pow2_eq] using this
      rw [h1]; norm_num; rw [h100]; norm_num
  · simp only [hgt, decide_false, decide_eq_false_iff_not, not_lt]
    have hle : (yes : ℚ) / total ≤ ((2 ^ 23 : ℕ) : ℚ) * pow2 (-24) := by
      have : ((2 ^ 23 : ℕ) : ℚ) * pow2 (-24) = 1 / 2 := by rw [pow2_eq]; norm_num
      rw [this, div_le_iff₀ htq]
      have hnat : 2 * yes ≤ total := by omega
      have : (2 : ℚ) * yes ≤ total := by exact_mod_cast hnat
      linarith
    have hq' := rne_le_repr' _ (2 ^ 23) (-24) (by norm_num) hle
    have hhalf : ((2 ^ 23 : ℕ) : ℚ) * pow2 (-24) = 1 / 2 := by rw [pow2_eq]; norm_num
    rw [hhalf] at hq'
    have hx : rne ((yes : ℚ) / total) * 100 ≤ ((13107200 : ℕ) : ℚ) * pow2 (-18) := by rw [e50]; linarith
    have := rne_le_repr' _ 13107200 (-18) (by norm_num) hx
    rw [e50] at this; exact this

#print axioms pass_exact
end F32
