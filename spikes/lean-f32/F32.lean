/-! F32 spike: round-to-nearest-even to 24-bit significand on positive rationals, core only -/
namespace F32

def pow2 (e : Int) : Rat := if e ≥ 0 then ((2 ^ e.toNat : Nat) : Rat) else 1 / ((2 ^ (-e).toNat : Nat) : Rat)

/-- round half even of a non-negative rational -/
def rhe (x : Rat) : Nat :=
  let f := x.floor.toNat
  let r := x - (f : Rat)
  if r < 1/2 then f else if 1/2 < r then f + 1 else if f % 2 = 0 then f else f + 1

/-- floor(log2 x) for x > 0 -/
def ilog2 (x : Rat) : Int :=
  let d : Int := (Nat.log2 x.num.toNat : Int) - (Nat.log2 x.den : Int)
  if x < pow2 d then d - 1 else if pow2 (d + 1) ≤ x then d + 1 else d

/-- value of the float nearest to x (x > 0), ignoring overflow/subnormals -/
def rne (x : Rat) : Rat :=
  if x ≤ 0 then 0 else
  let k : Int := 23 - ilog2 x
  (rhe (x * pow2 k) : Rat) * pow2 (-k)

def ofNat (n : Nat) : Rat := rne n
def div (a b : Rat) : Rat := rne (a / b)
def mul (a b : Rat) : Rat := rne (a * b)

def passF (yes total : Nat) : Bool := decide (mul (div (ofNat yes) (ofNat total)) 100 > 50)
def vetoF (veto actors : Nat) : Bool := decide (mul (div (ofNat veto) (ofNat actors)) 100 ≥ 50)

#eval passF 8388610 16777219   -- exact rule says true (2*yes > total); float32 says false
#eval passF 2 3
#eval passF 1 2
#eval vetoF 8388608 16777217   -- exact: 2*veto < actors → false; float32 says true
#eval (List.range 200).all fun t => (List.range (t+1)).all fun y => t == 0 || (passF y t == decide (2*y > t) && vetoF y t == decide (2*y ≥ t))
end F32
