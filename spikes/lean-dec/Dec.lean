/-! Spike: sdk.LegacyDec model over Int, core only. -/
namespace Dec
def P : Int := 1000000000000000000
def half : Int := 500000000000000000

/-- chopPrecisionAndRound: banker's rounding of x / 10^18 (x : scaled^2 value). -/
def chopRound (x : Int) : Int :=
  let neg := x < 0
  let a := if neg then -x else x
  let q := a / P
  let r := a % P
  let res :=
    if r < half then q
    else if r > half then q + 1
    else if q % 2 = 0 then q else q + 1
  if neg then -res else res

def chopTrunc (x : Int) : Int := Int.tdiv x P

abbrev D := Int   -- scaled by 10^18
def ofInt (i : Int) : D := i * P
def mul (a b : D) : D := chopRound (a * b)
def mulTrunc (a b : D) : D := chopTrunc (a * b)
def quo (a b : D) : D := chopRound (Int.tdiv (a * P * P) b)
def truncInt (a : D) : Int := Int.tdiv a P
def roundInt (a : D) : Int := chopRound a
def one : D := P

#eval roundInt (mul (ofInt 3) (P/2))   -- 1.5 -> 2
#eval roundInt (mul (ofInt 1) (P/2))   -- 0.5 -> 0
#eval roundInt (mul (ofInt 5) (P/2))   -- 2.5 -> 2

theorem P_pos : 0 < P := by decide

theorem chopRound_nonneg_le (x : Int) (hx : 0 ≤ x) : chopRound x ≤ x / P + 1 := by
  unfold chopRound
  have hneg : ¬ (x < 0) := by omega
  simp only [hneg, decide_false, Bool.false_eq_true, if_false]
  repeat' split
  all_goals omega

theorem chopRound_mono_nonneg (x : Int) (hx : 0 ≤ x) : x / P ≤ chopRound x := by
  unfold chopRound
  have hneg : ¬ (x < 0) := by omega
  simp only [hneg, decide_false, Bool.false_eq_true, if_false]
  repeat' split
  all_goals omega

/-- value of a*r truncated is at most a when 0 ≤ r ≤ 1 -/
theorem truncInt_mul_le (a : Int) (r : D) (ha : 0 ≤ a) (hr0 : 0 ≤ r) (hr1 : r ≤ one) :
    truncInt (mulTrunc (ofInt a) r) ≤ a := by
  unfold truncInt mulTrunc chopTrunc ofInt one at *
  have hP := P_pos
  have h1 : a * P * r ≤ a * P * P := by
    apply Int.mul_le_mul_of_nonneg_left hr1
    exact Int.mul_nonneg ha (by omega)
  have h0 : 0 ≤ a * P * r := Int.mul_nonneg (Int.mul_nonneg ha (by omega)) hr0
  rw [Int.tdiv_eq_ediv_of_nonneg h0]
  have h2 : a * P * r / P ≤ a * P * P / P := Int.ediv_le_ediv hP h1
  rw [Int.mul_ediv_cancel _ (by omega : P ≠ 0)] at h2
  have h3 : 0 ≤ a * P * r / P := Int.ediv_nonneg h0 (by omega)
  rw [Int.tdiv_eq_ediv_of_nonneg h3]
  have h4 : a * P * r / P / P ≤ a * P / P := Int.ediv_le_ediv hP h2
  rw [Int.mul_ediv_cancel _ (by omega : P ≠ 0)] at h4
  exact h4
end Dec
