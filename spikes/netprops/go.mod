module netpropsspike

go 1.19
