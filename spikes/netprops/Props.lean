import Gen
open NetProps

/-- obligation regenerated from the source: every arm except the listed finding has the simple shape -/
theorem nonSimpleArms : (Gen.arms.filter (fun a => !simple a)).map (·.id) = ["EnableForeignFeePayments"] := by decide

/-- no two identifiers write the same field -/
theorem targets_nodup : (Gen.arms.filterMap (fun a => target a.get)).Nodup := by decide

/-- lifted: every arm of the regenerated table other than the finding reads back and frames, for all inputs -/
theorem C19_read_back_frame (parseDec : String → Option Int) (guardOk : String → Props → In → Bool)
    (a : Arm) (ha : a ∈ Gen.arms) (hne : a.id ≠ "EnableForeignFeePayments")
    (i : In) (P P' : Props) (h : execList parseDec guardOk i P a.set = some P') :
    getVal P' a.get = requested parseDec i a.get ∧ ∀ f, some f ≠ target a.get → P' f = P f := by
  cases hs : simple a with
  | true => exact simple_correct parseDec guardOk a hs i P P' h
  | false =>
    exfalso
    have hmem : a ∈ Gen.arms.filter (fun a => !simple a) := by
      simp [List.mem_filter, ha, hs]
    have hid : a.id ∈ (Gen.arms.filter (fun a => !simple a)).map (·.id) := List.mem_map_of_mem hmem
    rw [nonSimpleArms] at hid
    simp at hid; exact hne hid

/-- the finding: the foreign-fee arm, as extracted, stores `false` whatever is requested -/
def foreignFeeArm : List Stmt := [(.ifThen (.gtZero .value) [(.assign 7 (.boolLit true))]), (.assign 7 (.boolLit false))]
theorem C19_foreign_fee_counterexample (v : Nat) (P : Props) :
    (execList (fun _ => none) (fun _ _ _ => true) ⟨v, ""⟩ P foreignFeeArm).map (fun P' => P' 7) = some (Val.b false) := by
  simp only [foreignFeeArm, execList, execStmt, eval]
  by_cases hv : v > 0 <;> simp [hv, execList, execStmt, eval, upd]

#print axioms C19_read_back_frame
#print axioms C19_foreign_fee_counterexample
