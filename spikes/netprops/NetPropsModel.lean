/-! Spike: generic interpreter for the arms of Get/SetNetworkProperty and the generic read-back/frame theorem. Core only. -/
namespace NetProps

inductive Expr where
  | value | strValue
  | intToBool (e : Expr) | decFromStr (e : Expr) | boolLit (b : Bool) | gtZero (e : Expr)
  | unrecognised
deriving DecidableEq, Repr

inductive Stmt where
  | assign (f : Nat) (e : Expr)
  | ifThen (c : Expr) (body : List Stmt)
  | guard (name : String)
  | unrecognised
deriving Repr

inductive GetExpr where
  | u64 (f : Nat) | str (f : Nat) | boolAsInt (f : Nat) | decString (f : Nat) | missing | unrecognised
deriving DecidableEq, Repr

structure Arm where
  id : String
  set : List Stmt
  get : GetExpr
deriving Repr

inductive Val where
  | u (n : Nat) | b (x : Bool) | d (x : Int) | s (x : String) | none
deriving DecidableEq, Repr

structure In where
  value : Nat
  strValue : String

abbrev Props := Nat → Val
def upd (P : Props) (f : Nat) (v : Val) : Props := fun g => if g = f then v else P g

variable (parseDec : String → Option Int) (guardOk : String → Props → In → Bool)

def eval (i : In) : Expr → Option Val
  | .value => some (.u i.value)
  | .strValue => some (.s i.strValue)
  | .intToBool e => match eval i e with | some (.u n) => some (.b (n != 0)) | _ => none
  | .decFromStr e => match eval i e with | some (.s str) => (parseDec str).map Val.d | _ => none
  | .boolLit b => some (.b b)
  | .gtZero e => match eval i e with | some (.u n) => some (.b (n > 0)) | _ => none
  | .unrecognised => none

mutual
def execStmt (i : In) (P : Props) : Stmt → Option Props
  | .assign f e => (eval parseDec i e).map (upd P f)
  | .ifThen c body => match eval parseDec i c with
      | some (.b true) => execList i P body
      | some (.b false) => some P
      | _ => none
  | .guard name => if guardOk name P i then some P else none
  | .unrecognised => none
def execList (i : In) (P : Props) : List Stmt → Option Props
  | [] => some P
  | s :: rest => match execStmt i P s with
      | some P' => execList i P' rest
      | none => none
end

/-- what a getter returns -/
def getVal (P : Props) : GetExpr → Option Val
  | .u64 f => match P f with | .u n => some (.u n) | _ => none
  | .str f => match P f with | .s x => some (.s x) | _ => none
  | .boolAsInt f => match P f with | .b x => some (.u (if x then 1 else 0)) | _ => none
  | .decString f => match P f with | .d x => some (.d x) | _ => none
  | _ => none

/-- the meaning the request carries for this arm's kind -/
def requested (i : In) : GetExpr → Option Val
  | .u64 _ => some (.u i.value)
  | .str _ => some (.s i.strValue)
  | .boolAsInt _ => some (.u (if i.value != 0 then 1 else 0))
  | .decString _ => (parseDec i.strValue).map Val.d
  | _ => none

def target : GetExpr → Option Nat
  | .u64 f | .str f | .boolAsInt f | .decString f => some f
  | _ => none

def isGuard : Stmt → Bool | .guard _ => true | _ => false

/-- the simple shape: optional guards, then exactly one assignment matching the getter -/
def simple (a : Arm) : Bool :=
  match a.set.dropWhile isGuard, a.get with
  | [.assign f .value], .u64 g => f == g
  | [.assign f .strValue], .str g => f == g
  | [.assign f (.intToBool .value)], .boolAsInt g => f == g
  | [.assign f (.decFromStr .strValue)], .decString g => f == g
  | _, _ => false

theorem execList_guards (i : In) (P P' : Props) (l : List Stmt)
    (h : execList parseDec guardOk i P l = some P') :
    execList parseDec guardOk i P (l.dropWhile isGuard) = some P' := by
  induction l generalizing P with
  | nil => simpa using h
  | cons s rest ih =>
    cases s with
    | guard name =>
      simp only [List.dropWhile, isGuard]
      simp only [execList, execStmt] at h
      split at h
      · rename_i P1 h1
        split at h1
        · cases h1; exact ih _ h
        · cases h1
      · cases h
    | assign f e => simpa [List.dropWhile, isGuard] using h
    | ifThen c b => simpa [List.dropWhile, isGuard] using h
    | unrecognised => simpa [List.dropWhile, isGuard] using h

/-- read-back and frame for every simple arm, for all inputs and all starting records -/
theorem simple_correct (a : Arm) (hs : simple a = true) (i : In) (P P' : Props)
    (h : execList parseDec guardOk i P a.set = some P') :
    getVal P' a.get = requested parseDec i a.get ∧
    ∀ f, some f ≠ target a.get → P' f = P f := by
  have h' := execList_guards parseDec guardOk i P P' a.set h
  unfold simple at hs
  split at hs <;> simp_all [execList, execStmt, eval, getVal, requested, target]
  · subst h'; constructor
    · simp [upd]
    · intro f hf; simp [upd, hf]
  · subst h'; constructor
    · simp [upd]
    · intro f hf; simp [upd, hf]
  · subst h'; constructor
    · simp [upd]
    · intro f hf; simp [upd, hf]
  · cases hp : parseDec i.strValue with
    | none => simp [hp] at h'
    | some d =>
      simp [hp] at h'
      subst h'; constructor
      · simp [upd]
      · intro f hf; simp [upd, hf]

end NetProps
