// Spike: translate the arms of GetNetworkProperty / SetNetworkProperty (x/gov/keeper/keeper.go)
// into a Lean table of tiny statement ASTs. Pure go/ast, no type checking.
package main

import (
	"fmt"
	"go/ast"
	"go/parser"
	"go/token"
	"os"
	"sort"
	"strings"
)

type arm struct {
	ids  []string
	body string // Lean term: List Stmt
	get  string // Lean term: GetExpr
}

var fields = map[string]int{}
var fieldNames []string

func fieldID(n string) int {
	if id, ok := fields[n]; ok {
		return id
	}
	fields[n] = len(fieldNames)
	fieldNames = append(fieldNames, n)
	return fields[n]
}

func sel(e ast.Expr) (string, string, bool) { // x.y
	s, ok := e.(*ast.SelectorExpr)
	if !ok {
		return "", "", false
	}
	x, ok := s.X.(*ast.Ident)
	if !ok {
		return "", "", false
	}
	return x.Name, s.Sel.Name, true
}

// expression over value.Value / value.StrValue / locals bound by DecFromStr
func expr(e ast.Expr, decLocals map[string]string) string {
	switch v := e.(type) {
	case *ast.SelectorExpr:
		if x, y, ok := sel(v); ok && x == "value" && y == "Value" {
			return ".value"
		} else if ok && x == "value" && y == "StrValue" {
			return ".strValue"
		}
	case *ast.Ident:
		if v.Name == "true" {
			return "(.boolLit true)"
		}
		if v.Name == "false" {
			return "(.boolLit false)"
		}
		if src, ok := decLocals[v.Name]; ok {
			return src
		}
	case *ast.CallExpr:
		if id, ok := v.Fun.(*ast.Ident); ok && id.Name == "IntToBool" && len(v.Args) == 1 {
			return "(.intToBool " + expr(v.Args[0], decLocals) + ")"
		}
	case *ast.BinaryExpr:
		if v.Op == token.GTR {
			if lit, ok := v.Y.(*ast.BasicLit); ok && lit.Value == "0" {
				return "(.gtZero " + expr(v.X, decLocals) + ")"
			}
		}
	}
	return ".unrecognised"
}

func stmts(list []ast.Stmt, decLocals map[string]string) string {
	var out []string
	for i := 0; i < len(list); i++ {
		switch s := list[i].(type) {
		case *ast.AssignStmt:
			// decValue, err := sdk.NewDecFromStr(value.StrValue)
			if len(s.Lhs) == 2 && len(s.Rhs) == 1 {
				if c, ok := s.Rhs[0].(*ast.CallExpr); ok {
					if _, y, ok := sel(c.Fun); ok && y == "NewDecFromStr" && len(c.Args) == 1 {
						decLocals[s.Lhs[0].(*ast.Ident).Name] = "(.decFromStr " + expr(c.Args[0], decLocals) + ")"
						// the following `if err != nil { return err }` is part of the shape
						if i+1 < len(list) {
							if ifs, ok := list[i+1].(*ast.IfStmt); ok && isErrReturn(ifs) {
								i++
								continue
							}
						}
						out = append(out, ".unrecognised")
						continue
					}
				}
			}
			// properties.F = <expr>
			if len(s.Lhs) == 1 && len(s.Rhs) == 1 {
				if x, f, ok := sel(s.Lhs[0]); ok && x == "properties" {
					out = append(out, fmt.Sprintf("(.assign %d %s)", fieldID(f), expr(s.Rhs[0], decLocals)))
					continue
				}
				// guard: name := k.EnsureXxx(ctx, properties.F, value.StrValue)
				if c, ok := s.Rhs[0].(*ast.CallExpr); ok {
					if _, y, ok := sel(c.Fun); ok && strings.HasPrefix(y, "Ensure") {
						// must be followed by `if name != "" { return fmt.Errorf }`
						if i+1 < len(list) {
							if _, ok := list[i+1].(*ast.IfStmt); ok {
								i++
								out = append(out, fmt.Sprintf("(.guard %q)", y))
								continue
							}
						}
					}
				}
			}
			out = append(out, ".unrecognised")
		case *ast.IfStmt:
			if s.Init == nil && s.Else == nil {
				out = append(out, fmt.Sprintf("(.ifThen %s %s)", expr(s.Cond, decLocals), stmts(s.Body.List, decLocals)))
			} else {
				out = append(out, ".unrecognised")
			}
		default:
			out = append(out, ".unrecognised")
		}
	}
	return "[" + strings.Join(out, ", ") + "]"
}

func isErrReturn(ifs *ast.IfStmt) bool {
	b, ok := ifs.Cond.(*ast.BinaryExpr)
	if !ok || b.Op != token.NEQ {
		return false
	}
	x, ok := b.X.(*ast.Ident)
	if !ok || x.Name != "err" || len(ifs.Body.List) != 1 {
		return false
	}
	_, ok = ifs.Body.List[0].(*ast.ReturnStmt)
	return ok
}

func getExpr(list []ast.Stmt) string {
	if len(list) != 1 {
		return ".unrecognised"
	}
	r, ok := list[0].(*ast.ReturnStmt)
	if !ok || len(r.Results) != 2 {
		return ".unrecognised"
	}
	cl, ok := r.Results[0].(*ast.CompositeLit)
	if !ok || len(cl.Elts) != 1 {
		return ".unrecognised"
	}
	kv := cl.Elts[0].(*ast.KeyValueExpr)
	key := kv.Key.(*ast.Ident).Name
	switch v := kv.Value.(type) {
	case *ast.SelectorExpr:
		if x, f, ok := sel(v); ok && x == "properties" {
			if key == "Value" {
				return fmt.Sprintf("(.u64 %d)", fieldID(f))
			}
			return fmt.Sprintf("(.str %d)", fieldID(f))
		}
	case *ast.CallExpr:
		if id, ok := v.Fun.(*ast.Ident); ok && id.Name == "BoolToInt" {
			if x, f, ok := sel(v.Args[0]); ok && x == "properties" {
				return fmt.Sprintf("(.boolAsInt %d)", fieldID(f))
			}
		}
		if s, ok := v.Fun.(*ast.SelectorExpr); ok && s.Sel.Name == "String" {
			if x, f, ok := sel(s.X); ok && x == "properties" && key == "StrValue" {
				return fmt.Sprintf("(.decString %d)", fieldID(f))
			}
		}
	}
	return ".unrecognised"
}

func main() {
	fset := token.NewFileSet()
	f, err := parser.ParseFile(fset, srcPath(), nil, 0)
	if err != nil {
		panic(err)
	}
	sets, gets := map[string]string{}, map[string]string{}
	for _, d := range f.Decls {
		fd, ok := d.(*ast.FuncDecl)
		if !ok || (fd.Name.Name != "SetNetworkProperty" && fd.Name.Name != "GetNetworkProperty") {
			continue
		}
		ast.Inspect(fd, func(n ast.Node) bool {
			sw, ok := n.(*ast.SwitchStmt)
			if !ok {
				return true
			}
			for _, c := range sw.Body.List {
				cc := c.(*ast.CaseClause)
				for _, e := range cc.List {
					_, id, _ := sel(e)
					if fd.Name.Name == "SetNetworkProperty" {
						sets[id] = stmts(cc.Body, map[string]string{})
					} else {
						gets[id] = getExpr(cc.Body)
					}
				}
			}
			return false
		})
	}
	var ids []string
	for id := range sets {
		ids = append(ids, id)
	}
	sort.Strings(ids)
	w := os.Stdout
	fmt.Fprintln(w, "-- GENERATED by netprops spike from /repo/x/gov/keeper/keeper.go")
	fmt.Fprintln(w, "import NetPropsModel\nnamespace Gen\nopen NetProps")
	fmt.Fprintf(w, "def fieldNames : List String := [%s]\n", quoteAll(fieldNames))
	fmt.Fprintln(w, "def arms : List Arm := [")
	for i, id := range ids {
		g, ok := gets[id]
		if !ok {
			g = ".missing"
		}
		comma := ","
		if i == len(ids)-1 {
			comma = ""
		}
		fmt.Fprintf(w, "  ⟨%q, %s, %s⟩%s\n", id, sets[id], g, comma)
	}
	fmt.Fprintln(w, "]\nend Gen")
}

func quoteAll(xs []string) string {
	var q []string
	for _, x := range xs {
		q = append(q, fmt.Sprintf("%q", x))
	}
	return strings.Join(q, ", ")
}

func srcPath() string {
	if p := os.Getenv("SRC"); p != "" {
		return p
	}
	return "/repo/x/gov/keeper/keeper.go"
}
