package main

import (
	"fmt"
	"go/ast"
	"go/types"
	"os"
	"time"

	"golang.org/x/tools/go/callgraph/cha"
	"golang.org/x/tools/go/packages"
	"golang.org/x/tools/go/ssa"
	"golang.org/x/tools/go/ssa/ssautil"
)

func main() {
	t0 := time.Now()
	cfg := &packages.Config{Mode: packages.LoadAllSyntax, Dir: "/repo", Env: append(os.Environ(), "GOFLAGS=-mod=mod", "GOPROXY=off")}
	pkgs, err := packages.Load(cfg, "./app/...", "./x/...", "./types/...")
	if err != nil {
		panic(err)
	}
	fmt.Println("loaded", len(pkgs), "pkgs in", time.Since(t0), "errors:", packages.PrintErrors(pkgs))
	// AST fact: time.Now calls outside tests/cli
	n := 0
	for _, p := range pkgs {
		for _, f := range p.Syntax {
			ast.Inspect(f, func(nd ast.Node) bool {
				if c, ok := nd.(*ast.CallExpr); ok {
					if s, ok := c.Fun.(*ast.SelectorExpr); ok {
						if obj, ok := p.TypesInfo.Uses[s.Sel].(*types.Func); ok && obj.Pkg() != nil && obj.Pkg().Path() == "time" && obj.Name() == "Now" {
							n++
							fmt.Println("time.Now at", p.Fset.Position(c.Pos()))
						}
					}
				}
				return true
			})
		}
	}
	t1 := time.Now()
	prog, _ := ssautil.AllPackages(pkgs, ssa.InstantiateGenerics)
	prog.Build()
	fmt.Println("ssa built in", time.Since(t1))
	t2 := time.Now()
	cg := cha.CallGraph(prog)
	fmt.Println("cha callgraph nodes", len(cg.Nodes), "in", time.Since(t2))
}
