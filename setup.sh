#!/bin/sh
# MANIFEST.setup_cmd — build the framework from files on disk only (offline).
set -e
cd "$(dirname "$0")"
export GOFLAGS=-mod=mod GOPROXY=off GOSUMDB=off GOTOOLCHAIN=local
mkdir -p bin work evidence replays lean/Sekai/Gen
( cd extract && go build -o ../bin/extract . )
./bin/extract
( cd lean && lake build )
cp /repo/go.sum harness/go.sum
( cd harness && go build -tags verif -o ../bin/harness . )
echo setup done
