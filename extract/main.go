// extract: translator from the CURRENT /repo sources to Lean fact tables (lean/Sekai/Gen/*.lean).
// Pure go/ast + go/parser (no type checking, ~1 s). Fail-closed: every shape it does not recognise
// is emitted as an `unrecognised` row, which makes the corresponding Lean obligation fail.
package main

import (
	"fmt"
	"go/ast"
	"go/parser"
	"go/printer"
	"go/token"
	"os"
	"path/filepath"
	"sort"
	"strings"
)

var repo = "/repo"
var outDir = "/verif/lean/Sekai/Gen"
var fset = token.NewFileSet()

func parseFile(rel string) *ast.File {
	f, err := parser.ParseFile(fset, filepath.Join(repo, rel), nil, parser.ParseComments)
	if err != nil {
		fmt.Fprintln(os.Stderr, "extract: parse error:", err)
		os.Exit(2)
	}
	return f
}

// parseDir parses all non-test .go files of a directory (relative to repo); missing dir => nil.
func parseDir(rel string) map[string]*ast.File {
	out := map[string]*ast.File{}
	ents, err := os.ReadDir(filepath.Join(repo, rel))
	if err != nil {
		return out
	}
	for _, e := range ents {
		n := e.Name()
		if e.IsDir() || !strings.HasSuffix(n, ".go") || strings.HasSuffix(n, "_test.go") {
			continue
		}
		out[filepath.Join(rel, n)] = parseFile(filepath.Join(rel, n))
	}
	return out
}

func sortedKeys[V any](m map[string]V) []string {
	var ks []string
	for k := range m {
		ks = append(ks, k)
	}
	sort.Strings(ks)
	return ks
}

func src(n ast.Node) string {
	var sb strings.Builder
	printer.Fprint(&sb, fset, n)
	return sb.String()
}

func sel(e ast.Expr) (string, string, bool) { // x.y with x an identifier
	s, ok := e.(*ast.SelectorExpr)
	if !ok {
		return "", "", false
	}
	x, ok := s.X.(*ast.Ident)
	if !ok {
		return "", "", false
	}
	return x.Name, s.Sel.Name, true
}

func funcDecl(f *ast.File, name string) *ast.FuncDecl {
	for _, d := range f.Decls {
		if fd, ok := d.(*ast.FuncDecl); ok && fd.Name.Name == name {
			return fd
		}
	}
	return nil
}

func recvName(fd *ast.FuncDecl) string {
	if fd.Recv == nil || len(fd.Recv.List) == 0 {
		return ""
	}
	t := fd.Recv.List[0].Type
	if s, ok := t.(*ast.StarExpr); ok {
		t = s.X
	}
	if id, ok := t.(*ast.Ident); ok {
		return id.Name
	}
	return ""
}

func quoteAll(xs []string) string {
	var q []string
	for _, x := range xs {
		q = append(q, fmt.Sprintf("%q", x))
	}
	return strings.Join(q, ", ")
}

// writeIfChanged keeps mtimes stable for unchanged tables.
func writeIfChanged(name, content string) {
	p := filepath.Join(outDir, name)
	old, err := os.ReadFile(p)
	if err == nil && string(old) == content {
		return
	}
	if err := os.WriteFile(p, []byte(content), 0o644); err != nil {
		fmt.Fprintln(os.Stderr, "extract:", err)
		os.Exit(2)
	}
}

type table struct {
	name string
	gen  func() string
}

var tables []table

func main() {
	if v := os.Getenv("VERIF_REPO"); v != "" {
		repo = v
	}
	if exe, err := os.Executable(); err == nil {
		// default output: the lean project next to this binary (<root>/bin/extract -> <root>/lean/Sekai/Gen)
		outDir = filepath.Join(filepath.Dir(filepath.Dir(exe)), "lean", "Sekai", "Gen")
	}
	if v := os.Getenv("VERIF_GEN_OUT"); v != "" {
		outDir = v
	}
	os.MkdirAll(outDir, 0o755)
	only := map[string]bool{}
	for _, a := range os.Args[1:] {
		only[a] = true
	}
	for _, t := range tables {
		if len(only) > 0 && !only[t.name] {
			continue
		}
		writeIfChanged(t.name+".lean", t.gen())
	}
}
