package main

// typed loading of /repo's own packages: `go list -export -deps` provides compiled export data for every
// dependency (from the Go build cache, which the harness build fills anyway), the repo packages are then
// type-checked from source with go/types. ~1 s on a warm cache.

import (
	"bytes"
	"encoding/json"
	"fmt"
	"go/ast"
	"go/importer"
	"go/parser"
	"go/types"
	"io"
	"os"
	"os/exec"
	"path/filepath"
	"sort"
	"strings"
)

type typedPkg struct {
	Path  string
	Dir   string
	Rel   string // directory relative to the repo root
	Files []*ast.File
	Names []string // file names relative to repo root
	Info  *types.Info
	Pkg   *types.Package
}

var typedCache []*typedPkg
var typedErr error

func loadTyped() ([]*typedPkg, error) {
	if typedCache != nil || typedErr != nil {
		return typedCache, typedErr
	}
	cmd := exec.Command("go", "list", "-export", "-deps", "-json=ImportPath,Export,Dir,GoFiles,Standard,Module", "./app/...", "./x/...", "./types/...")
	cmd.Dir = repo
	cmd.Env = append(os.Environ(), "GOFLAGS=-mod=mod", "GOPROXY=off", "GOSUMDB=off", "GOTOOLCHAIN=local")
	var stderr bytes.Buffer
	cmd.Stderr = &stderr
	out, err := cmd.Output()
	if err != nil {
		typedErr = fmt.Errorf("go list -export failed: %v\n%s", err, stderr.String())
		return nil, typedErr
	}
	type lp struct {
		ImportPath, Export, Dir string
		GoFiles                 []string
		Standard                bool
		Module                  *struct{ Path string }
	}
	exports := map[string]string{}
	var own []lp
	dec := json.NewDecoder(bytes.NewReader(out))
	for dec.More() {
		var p lp
		if err := dec.Decode(&p); err != nil {
			typedErr = err
			return nil, err
		}
		exports[p.ImportPath] = p.Export
		if p.Module != nil && p.Module.Path == "github.com/KiraCore/sekai" {
			own = append(own, p)
		}
	}
	lookup := func(path string) (io.ReadCloser, error) {
		e, ok := exports[path]
		if !ok || e == "" {
			return nil, fmt.Errorf("no export data for %s", path)
		}
		return os.Open(e)
	}
	imp := importer.ForCompiler(fset, "gc", lookup)
	sort.Slice(own, func(i, j int) bool { return own[i].ImportPath < own[j].ImportPath })
	for _, p := range own {
		tp := &typedPkg{Path: p.ImportPath, Dir: p.Dir}
		tp.Rel, _ = filepath.Rel(repo, p.Dir)
		for _, gf := range p.GoFiles {
			f, err := parser.ParseFile(fset, filepath.Join(p.Dir, gf), nil, 0)
			if err != nil {
				typedErr = err
				return nil, err
			}
			tp.Files = append(tp.Files, f)
			tp.Names = append(tp.Names, filepath.Join(tp.Rel, gf))
		}
		tp.Info = &types.Info{Types: map[ast.Expr]types.TypeAndValue{}, Uses: map[*ast.Ident]types.Object{}, Defs: map[*ast.Ident]types.Object{}, Selections: map[*ast.SelectorExpr]*types.Selection{}}
		conf := types.Config{Importer: imp, Error: func(error) {}}
		tp.Pkg, _ = conf.Check(p.ImportPath, fset, tp.Files, tp.Info)
		typedCache = append(typedCache, tp)
	}
	return typedCache, nil
}

func isMapType(t types.Type) bool {
	if t == nil {
		return false
	}
	_, ok := t.Underlying().(*types.Map)
	return ok
}

func relOK(rel string) bool { return consensusFile(rel + "/x.go") }

var _ = strings.TrimSpace
