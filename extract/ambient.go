package main

// Table Gen.Ambient: reads of anything a replica could see that is not in genesis or the block, in consensus code
// (x/*, app/ante, app/posthandler, app/*.go, types/): wall clock, randomness, environment, goroutines, and every
// `range` over a map (Go map order) with the shape of its body; plus every generated protobuf Marshal that walks a
// map field (gogoproto writes map entries in Go map order).

import (
	"crypto/sha256"
	"fmt"
	"go/ast"
	"go/token"
	"os"
	"path/filepath"
	"sort"
	"strings"
)

func init() { tables = append(tables, table{"Ambient", genAmbient}) }

func consensusFile(rel string) bool {
	if strings.HasSuffix(rel, "_test.go") || !strings.HasSuffix(rel, ".go") {
		return false
	}
	for _, bad := range []string{"/client/", "/legacy/", "/simulation/", "testutil", "test_helpers", "/spec/", "x/genutil/", "cmd/", "/teststaking/", "/testslashing/"} {
		if strings.Contains(rel, bad) {
			return false
		}
	}
	return strings.HasPrefix(rel, "x/") || strings.HasPrefix(rel, "app/") || strings.HasPrefix(rel, "types/")
}

func genAmbient() string {
	type row struct{ kind, file, fn, what string }
	var rows []row
	type mrow struct{ file, fn, expr, shape string }
	var maps []mrow
	type prow struct{ file, msg, field string }
	var pbmaps []prow

	// pass 1: struct fields of map type anywhere under x/ app/ types/ (names only: no type checker)
	mapFields := map[string]bool{}
	var files []string
	for _, root := range []string{"x", "app", "types"} {
		filepath.Walk(filepath.Join(repo, root), func(p string, info os.FileInfo, err error) error {
			if err != nil || info.IsDir() || !strings.HasSuffix(p, ".go") || strings.HasSuffix(p, "_test.go") {
				return nil
			}
			r, _ := filepath.Rel(repo, p)
			files = append(files, r)
			return nil
		})
	}
	sort.Strings(files)
	parsed := map[string]*ast.File{}
	for _, f := range files {
		parsed[f] = parseFile(f)
		ast.Inspect(parsed[f], func(n ast.Node) bool {
			ts, ok := n.(*ast.TypeSpec)
			if !ok {
				return true
			}
			st, ok := ts.Type.(*ast.StructType)
			if !ok {
				return true
			}
			for _, fl := range st.Fields.List {
				if _, ok := fl.Type.(*ast.MapType); ok {
					for _, nm := range fl.Names {
						mapFields[nm.Name] = true
						if strings.HasSuffix(f, ".pb.go") && !strings.HasPrefix(nm.Name, "XXX") {
							pbmaps = append(pbmaps, prow{f, ts.Name.Name, nm.Name})
						}
					}
				}
			}
			return true
		})
	}
	for _, f := range files {
		if !consensusFile(f) || strings.HasSuffix(f, ".pb.go") || strings.HasSuffix(f, ".pb.gw.go") {
			continue
		}
		file := parsed[f]
		imports := map[string]bool{}
		for _, im := range file.Imports {
			imports[strings.Trim(im.Path.Value, `"`)] = true
		}
		if imports["math/rand"] {
			rows = append(rows, row{"rand", f, "-", "import math/rand"})
		}
		for _, d := range file.Decls {
			fd, ok := d.(*ast.FuncDecl)
			if !ok || fd.Body == nil {
				continue
			}
			name := fd.Name.Name
			if rn := recvName(fd); rn != "" {
				name = rn + "." + name
			}
			// local map variables: params typed map, := make(map…) / map literal
			localMaps := map[string]bool{}
			if fd.Type.Params != nil {
				for _, p := range fd.Type.Params.List {
					if _, ok := p.Type.(*ast.MapType); ok {
						for _, nm := range p.Names {
							localMaps[nm.Name] = true
						}
					}
				}
			}
			ast.Inspect(fd.Body, func(n ast.Node) bool {
				switch v := n.(type) {
				case *ast.AssignStmt:
					for i, rhs := range v.Rhs {
						isMap := false
						switch r := rhs.(type) {
						case *ast.CallExpr:
							if id, ok := r.Fun.(*ast.Ident); ok && id.Name == "make" && len(r.Args) > 0 {
								_, isMap = r.Args[0].(*ast.MapType)
							}
						case *ast.CompositeLit:
							_, isMap = r.Type.(*ast.MapType)
						}
						if isMap && i < len(v.Lhs) {
							if id, ok := v.Lhs[i].(*ast.Ident); ok {
								localMaps[id.Name] = true
							}
						}
					}
				case *ast.DeclStmt:
					if gd, ok := v.Decl.(*ast.GenDecl); ok {
						for _, sp := range gd.Specs {
							if vs, ok := sp.(*ast.ValueSpec); ok {
								if _, ok := vs.Type.(*ast.MapType); ok {
									for _, nm := range vs.Names {
										localMaps[nm.Name] = true
									}
								}
								for i, val := range vs.Values {
									if cl, ok := val.(*ast.CompositeLit); ok {
										if _, ok := cl.Type.(*ast.MapType); ok && i < len(vs.Names) {
											localMaps[vs.Names[i].Name] = true
										}
									}
									if c, ok := val.(*ast.CallExpr); ok {
										if id, ok := c.Fun.(*ast.Ident); ok && id.Name == "make" && len(c.Args) > 0 {
											if _, ok := c.Args[0].(*ast.MapType); ok && i < len(vs.Names) {
												localMaps[vs.Names[i].Name] = true
											}
										}
									}
								}
							}
						}
					}
				}
				return true
			})
			// telemetry arguments are not consensus reads
			telemetryArg := map[ast.Node]bool{}
			ast.Inspect(fd.Body, func(n ast.Node) bool {
				if c, ok := n.(*ast.CallExpr); ok {
					if x, y, ok := sel(c.Fun); ok && x == "telemetry" && strings.Contains(y, "MeasureSince") {
						for _, a := range c.Args {
							telemetryArg[a] = true
						}
					}
				}
				return true
			})
			ast.Inspect(fd.Body, func(n ast.Node) bool {
				switch v := n.(type) {
				case *ast.CallExpr:
					if x, y, ok := sel(v.Fun); ok {
						switch {
						case x == "time" && (y == "Now" || y == "Since" || y == "Until") && !telemetryArg[v]:
							rows = append(rows, row{"clock", f, name, "time." + y})
						case x == "rand":
							rows = append(rows, row{"rand", f, name, "rand." + y})
						case x == "os" && (y == "Getenv" || y == "Hostname" || y == "Getpid" || y == "ReadFile" || y == "Environ" || y == "LookupEnv"):
							rows = append(rows, row{"env", f, name, "os." + y})
						case x == "runtime" && (y == "NumCPU" || y == "NumGoroutine" || y == "GOMAXPROCS"):
							rows = append(rows, row{"env", f, name, "runtime." + y})
						}
					}
				case *ast.GoStmt:
					rows = append(rows, row{"goroutine", f, name, "go statement"})
				case *ast.SelectStmt:
					rows = append(rows, row{"goroutine", f, name, "select statement"})
				case *ast.RangeStmt:
					isMap := false
					switch x := v.X.(type) {
					case *ast.Ident:
						isMap = localMaps[x.Name]
					case *ast.SelectorExpr:
						isMap = mapFields[x.Sel.Name]
					case *ast.CallExpr:
						// a function returning a map: recognised by name
						if _, y, ok := sel(x.Fun); ok && (strings.HasSuffix(y, "Map") || strings.HasPrefix(y, "GetAllProposalDurations")) {
							isMap = true
						}
					}
					if isMap {
						h := sha256.Sum256([]byte(strings.Join(strings.Fields(src(v.Body)), " ")))
						maps = append(maps, mrow{f, name, strings.Join(strings.Fields(src(v.X)), ""), fmt.Sprintf("%x", h[:6])})
					}
				}
				return true
			})
		}
	}
	// typed pass: every `range` whose operand has a map type (replaces the name heuristics above when available)
	if pkgs, err := loadTyped(); err == nil {
		maps = nil
		for _, tp := range pkgs {
			for fi, file := range tp.Files {
				rel := tp.Names[fi]
				if !consensusFile(rel) || strings.HasSuffix(rel, ".pb.go") || strings.HasSuffix(rel, ".pb.gw.go") {
					continue
				}
				for _, d := range file.Decls {
					fd, ok := d.(*ast.FuncDecl)
					if !ok || fd.Body == nil {
						continue
					}
					name := fd.Name.Name
					if rn := recvName(fd); rn != "" {
						name = rn + "." + name
					}
					ast.Inspect(fd.Body, func(n ast.Node) bool {
						rs, ok := n.(*ast.RangeStmt)
						if !ok {
							return true
						}
						if tv, ok := tp.Info.Types[rs.X]; ok && isMapType(tv.Type) {
							h := sha256.Sum256([]byte(strings.Join(strings.Fields(src(rs.Body)), " ")))
							maps = append(maps, mrow{rel, name, strings.Join(strings.Fields(src(rs.X)), ""), fmt.Sprintf("%x", h[:6])})
						}
						return true
					})
				}
			}
		}
	} else {
		rows = append(rows, row{"extractor", "-", "-", "typed loading failed: " + strings.Split(err.Error(), "\n")[0]})
	}
	_ = token.NoPos
	// callers of the functions that range over a map: (callee, file, calling function) for every call in consensus code
	// whose callee NAME is one of those functions (by name: an over-approximation; the defining function itself excluded)
	type crow struct{ callee, file, fn string }
	var callers []crow
	mapFns := map[string]bool{}
	for _, m := range maps {
		n := m.fn
		if i := strings.LastIndex(n, "."); i >= 0 {
			n = n[i+1:]
		}
		mapFns[n] = true
	}
	for _, f := range files {
		if !consensusFile(f) || strings.HasSuffix(f, ".pb.go") || strings.HasSuffix(f, ".pb.gw.go") {
			continue
		}
		for _, d := range parsed[f].Decls {
			fd, ok := d.(*ast.FuncDecl)
			if !ok || fd.Body == nil {
				continue
			}
			name := fd.Name.Name
			if rn := recvName(fd); rn != "" {
				name = rn + "." + name
			}
			seen := map[string]bool{}
			ast.Inspect(fd.Body, func(n ast.Node) bool {
				c, ok := n.(*ast.CallExpr)
				if !ok {
					return true
				}
				callee := ""
				switch fn := c.Fun.(type) {
				case *ast.Ident:
					callee = fn.Name
				case *ast.SelectorExpr:
					callee = fn.Sel.Name
				}
				if mapFns[callee] && callee != fd.Name.Name && !seen[callee] {
					seen[callee] = true
					callers = append(callers, crow{callee, f, name})
				}
				return true
			})
		}
	}
	// state outside the store. (1) fields of keeper / decorator / handler / msg-server structs whose type can hold mutable
	// data (map, slice, pointer, channel, sync / atomic types); (2) package-level variables that some function WRITES
	// (assignment, index assignment, ++/--, or a mutating method call such as Store / Delete / LoadOrStore).
	type srow struct{ file, owner, name, typ string }
	var stateRows []srow
	mutableType := func(t string) bool {
		if t == "*codec.LegacyAmino" {
			return false
		}
		return strings.Contains(t, "map[") || strings.Contains(t, "sync.") || strings.Contains(t, "atomic.") || strings.HasPrefix(t, "*") || strings.HasPrefix(t, "[]") || strings.HasPrefix(t, "chan ")
	}
	for _, f := range files {
		if !consensusFile(f) || strings.HasSuffix(f, ".pb.go") || strings.HasSuffix(f, ".pb.gw.go") {
			continue
		}
		ast.Inspect(parsed[f], func(n ast.Node) bool {
			ts, ok := n.(*ast.TypeSpec)
			if !ok {
				return true
			}
			st, ok := ts.Type.(*ast.StructType)
			if !ok {
				return true
			}
			nm := ts.Name.Name
			if !(strings.HasSuffix(nm, "Keeper") || strings.HasSuffix(nm, "Decorator") || strings.HasSuffix(nm, "Handler") || nm == "msgServer" || nm == "Querier") {
				return true
			}
			for _, fl := range st.Fields.List {
				t := strings.Join(strings.Fields(src(fl.Type)), " ")
				if !mutableType(t) {
					continue
				}
				if len(fl.Names) == 0 {
					stateRows = append(stateRows, srow{f, nm, "(embedded)", t})
				}
				for _, fn := range fl.Names {
					stateRows = append(stateRows, srow{f, nm, fn.Name, t})
				}
			}
			return true
		})
	}
	// package-level variables per directory
	pkgVars := map[string]map[string]*ast.ValueSpec{} // dir -> name -> spec
	for _, f := range files {
		if !consensusFile(f) || strings.HasSuffix(f, ".pb.go") || strings.HasSuffix(f, ".pb.gw.go") {
			continue
		}
		dir := filepath.Dir(f)
		for _, d := range parsed[f].Decls {
			gd, ok := d.(*ast.GenDecl)
			if !ok || gd.Tok != token.VAR {
				continue
			}
			for _, sp := range gd.Specs {
				vs := sp.(*ast.ValueSpec)
				for _, nm := range vs.Names {
					if nm.Name == "_" {
						continue
					}
					if pkgVars[dir] == nil {
						pkgVars[dir] = map[string]*ast.ValueSpec{}
					}
					pkgVars[dir][nm.Name] = vs
				}
			}
		}
	}
	mutators := map[string]bool{"Store": true, "Delete": true, "LoadOrStore": true, "LoadAndDelete": true, "Swap": true, "CompareAndSwap": true, "Add": true, "Set": true, "Put": true, "Range": false}
	for _, f := range files {
		if !consensusFile(f) || strings.HasSuffix(f, ".pb.go") || strings.HasSuffix(f, ".pb.gw.go") {
			continue
		}
		vars := pkgVars[filepath.Dir(f)]
		if len(vars) == 0 {
			continue
		}
		isPkgVar := func(e ast.Expr) (string, bool) {
			id, ok := e.(*ast.Ident)
			if !ok {
				return "", false
			}
			vs, ok := vars[id.Name]
			if !ok {
				return "", false
			}
			if id.Obj != nil && id.Obj.Decl != vs { // resolved to something else (a local variable or parameter)
				return "", false
			}
			return id.Name, true
		}
		for _, d := range parsed[f].Decls {
			fd, ok := d.(*ast.FuncDecl)
			if !ok || fd.Body == nil || fd.Name.Name == "init" {
				continue
			}
			fname := fd.Name.Name
			if rn := recvName(fd); rn != "" {
				fname = rn + "." + fname
			}
			seen := map[string]bool{}
			note := func(name, how string) {
				if !seen[name+how] {
					seen[name+how] = true
					stateRows = append(stateRows, srow{f, fname, name, "package variable " + how})
				}
			}
			ast.Inspect(fd.Body, func(n ast.Node) bool {
				switch v := n.(type) {
				case *ast.AssignStmt:
					if v.Tok == token.DEFINE {
						return true
					}
					for _, l := range v.Lhs {
						if nm, ok := isPkgVar(l); ok {
							note(nm, "assigned")
						}
						if ix, ok := l.(*ast.IndexExpr); ok {
							if nm, ok := isPkgVar(ix.X); ok {
								note(nm, "element assigned")
							}
						}
						if se, ok := l.(*ast.SelectorExpr); ok {
							if nm, ok := isPkgVar(se.X); ok {
								note(nm, "field assigned")
							}
						}
					}
				case *ast.IncDecStmt:
					if nm, ok := isPkgVar(v.X); ok {
						note(nm, "incremented")
					}
				case *ast.CallExpr:
					if se, ok := v.Fun.(*ast.SelectorExpr); ok && mutators[se.Sel.Name] {
						if nm, ok := isPkgVar(se.X); ok {
							note(nm, "mutated by ."+se.Sel.Name)
						}
					}
					if id, ok := v.Fun.(*ast.Ident); ok && id.Name == "delete" && len(v.Args) > 0 {
						if nm, ok := isPkgVar(v.Args[0]); ok {
							note(nm, "element deleted")
						}
					}
				}
				return true
			})
		}
	}
	sort.SliceStable(stateRows, func(i, j int) bool {
		return stateRows[i].file+"|"+stateRows[i].owner+"|"+stateRows[i].name < stateRows[j].file+"|"+stateRows[j].owner+"|"+stateRows[j].name
	})
	sort.SliceStable(callers, func(i, j int) bool {
		return callers[i].callee+"|"+callers[i].file+"|"+callers[i].fn < callers[j].callee+"|"+callers[j].file+"|"+callers[j].fn
	})
	sort.SliceStable(rows, func(i, j int) bool { return rows[i].file+rows[i].fn+rows[i].what < rows[j].file+rows[j].fn+rows[j].what })
	sort.SliceStable(maps, func(i, j int) bool { return maps[i].file+maps[i].fn+maps[i].expr < maps[j].file+maps[j].fn+maps[j].expr })
	sort.SliceStable(pbmaps, func(i, j int) bool { return pbmaps[i].file+pbmaps[i].msg+pbmaps[i].field < pbmaps[j].file+pbmaps[j].msg+pbmaps[j].field })
	var sb strings.Builder
	sb.WriteString("-- GENERATED by /verif/extract: ambient reads in consensus code (x/, app/, types/; no tests, CLI, legacy). Do not edit.\n")
	sb.WriteString("namespace Sekai.Gen.Ambient\n\n/-- (kind ∈ clock|rand|env|goroutine, file, function, what) -/\ndef reads : List (String × String × String × String) := [\n")
	for i, r := range rows {
		c := ","
		if i == len(rows)-1 {
			c = ""
		}
		fmt.Fprintf(&sb, "  (%q, %q, %q, %q)%s\n", r.kind, r.file, r.fn, r.what, c)
	}
	sb.WriteString("]\n\n/-- every `range` over a map: (file, function, ranged expression, hash of the loop body) -/\ndef mapRanges : List (String × String × String × String) := [\n")
	for i, r := range maps {
		c := ","
		if i == len(maps)-1 {
			c = ""
		}
		fmt.Fprintf(&sb, "  (%q, %q, %q, %q)%s\n", r.file, r.fn, r.expr, r.shape, c)
	}
	sb.WriteString("]\n\n/-- protobuf messages with map fields (gogoproto marshals map entries in Go map order): (file, message, field) -/\ndef pbMapFields : List (String × String × String) := [\n")
	for i, r := range pbmaps {
		c := ","
		if i == len(pbmaps)-1 {
			c = ""
		}
		fmt.Fprintf(&sb, "  (%q, %q, %q)%s\n", r.file, r.msg, r.field, c)
	}
	sb.WriteString("]\n\n/-- calls, in consensus code, of the functions that range over a map: (callee name, file, calling function) -/\ndef mapRangeCallers : List (String × String × String) := [\n")
	for i, r := range callers {
		c := ","
		if i == len(callers)-1 {
			c = ""
		}
		fmt.Fprintf(&sb, "  (%q, %q, %q)%s\n", r.callee, r.file, r.fn, c)
	}
	sb.WriteString("]\n\n/-- state that lives outside the key-value store: (file, struct or function, field or variable, type / kind of write) -/\ndef processState : List (String × String × String × String) := [\n")
	for i, r := range stateRows {
		c := ","
		if i == len(stateRows)-1 {
			c = ""
		}
		fmt.Fprintf(&sb, "  (%q, %q, %q, %q)%s\n", r.file, r.owner, r.name, r.typ, c)
	}
	sb.WriteString("]\nend Sekai.Gen.Ambient\n")
	return sb.String()
}
