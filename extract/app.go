package main

// Table Gen.App: the wiring of the application that the block-level models take for granted:
//   anteChain         the decorators of app/ante/ante.go NewAnteHandler, in order (constructor or type name)
//   beginOrder / endOrder / initOrder   arguments of SetOrderBeginBlockers / SetOrderEndBlockers / SetOrderInitGenesis
//   maccPerms         module account -> permissions (app/app.go maccPerms)
//   hooks             every `<keeper>.SetHooks(<args>)` in app/app.go as (receiver, argument text)
//   proposalHandlers  the constructors handed to govtypes.NewProposalRouter, in order
// Anything that is not of the expected shape is emitted as a row starting with "unrecognised:" (fail-closed).

import (
	"fmt"
	"go/ast"
	"sort"
	"strings"
)

func init() { tables = append(tables, table{"App", genApp}) }

func oneLine(n ast.Node) string { return strings.Join(strings.Fields(src(n)), " ") }

// decoratorName: ante.NewFooDecorator(args) -> "ante.NewFooDecorator"; ante.TxTimeoutHeightDecorator{} -> "ante.TxTimeoutHeightDecorator"
func decoratorName(e ast.Expr) string {
	switch x := e.(type) {
	case *ast.CallExpr:
		return oneLine(x.Fun)
	case *ast.CompositeLit:
		return oneLine(x.Type)
	}
	return "unrecognised:" + oneLine(e)
}

func callArgsOf(root ast.Node, pred func(c *ast.CallExpr) bool) [][]ast.Expr {
	var out [][]ast.Expr
	ast.Inspect(root, func(n ast.Node) bool {
		if c, ok := n.(*ast.CallExpr); ok && pred(c) {
			out = append(out, c.Args)
		}
		return true
	})
	return out
}

func selNameIs(c *ast.CallExpr, name string) bool {
	switch f := c.Fun.(type) {
	case *ast.SelectorExpr:
		return f.Sel.Name == name
	case *ast.Ident:
		return f.Name == name
	}
	return false
}

func leanStrList(xs []string) string { return "[" + quoteAll(xs) + "]" }

func genApp() string {
	anteF := parseFile("app/ante/ante.go")
	appF := parseFile("app/app.go")

	var chain []string
	if fd := funcDecl(anteF, "NewAnteHandler"); fd != nil && fd.Body != nil {
		calls := callArgsOf(fd.Body, func(c *ast.CallExpr) bool { return selNameIs(c, "ChainAnteDecorators") })
		if len(calls) != 1 {
			chain = append(chain, fmt.Sprintf("unrecognised: %d ChainAnteDecorators calls", len(calls)))
		} else {
			for _, a := range calls[0] {
				chain = append(chain, decoratorName(a))
			}
		}
		// the body must be the single return statement, otherwise decorators could be added conditionally
		if len(fd.Body.List) != 1 {
			chain = append(chain, "unrecognised: NewAnteHandler body is not a single return")
		}
	} else {
		chain = append(chain, "unrecognised: NewAnteHandler not found")
	}

	order := func(method string) []string {
		calls := callArgsOf(appF, func(c *ast.CallExpr) bool { return selNameIs(c, method) })
		if len(calls) != 1 {
			return []string{fmt.Sprintf("unrecognised: %d %s calls", len(calls), method)}
		}
		var out []string
		for _, a := range calls[0] {
			out = append(out, oneLine(a))
		}
		return out
	}

	type macc struct {
		name  string
		perms []string
	}
	var maccs []macc
	maccFound := false
	ast.Inspect(appF, func(n ast.Node) bool {
		vs, ok := n.(*ast.ValueSpec)
		if !ok {
			return true
		}
		for i, nm := range vs.Names {
			if nm.Name != "maccPerms" || i >= len(vs.Values) {
				continue
			}
			maccFound = true
			cl, ok := vs.Values[i].(*ast.CompositeLit)
			if !ok {
				maccs = append(maccs, macc{"unrecognised:" + oneLine(vs.Values[i]), nil})
				continue
			}
			for _, el := range cl.Elts {
				kv, ok := el.(*ast.KeyValueExpr)
				if !ok {
					maccs = append(maccs, macc{"unrecognised:" + oneLine(el), nil})
					continue
				}
				m := macc{name: oneLine(kv.Key)}
				switch v := kv.Value.(type) {
				case *ast.Ident:
					if v.Name != "nil" {
						m.perms = []string{"unrecognised:" + v.Name}
					}
				case *ast.CompositeLit:
					for _, p := range v.Elts {
						m.perms = append(m.perms, oneLine(p))
					}
				default:
					m.perms = []string{"unrecognised:" + oneLine(kv.Value)}
				}
				maccs = append(maccs, m)
			}
		}
		return true
	})
	if !maccFound {
		maccs = append(maccs, macc{"unrecognised: maccPerms not found", nil})
	}
	// maccPerms is written anywhere else? (an assignment maccPerms[...] = ... elsewhere would make the literal incomplete)
	ast.Inspect(appF, func(n ast.Node) bool {
		as, ok := n.(*ast.AssignStmt)
		if !ok {
			return true
		}
		for _, l := range as.Lhs {
			if ix, ok := l.(*ast.IndexExpr); ok {
				if id, ok := ix.X.(*ast.Ident); ok && id.Name == "maccPerms" {
					maccs = append(maccs, macc{"unrecognised: maccPerms assigned outside its literal", nil})
				}
			}
		}
		return true
	})
	sort.SliceStable(maccs, func(i, j int) bool { return maccs[i].name < maccs[j].name })

	type hook struct{ recv, arg string }
	var hooks []hook
	ast.Inspect(appF, func(n ast.Node) bool {
		c, ok := n.(*ast.CallExpr)
		if !ok || !selNameIs(c, "SetHooks") {
			return true
		}
		recv := "?"
		if s, ok := c.Fun.(*ast.SelectorExpr); ok {
			recv = oneLine(s.X)
		}
		var as []string
		for _, a := range c.Args {
			as = append(as, oneLine(a))
		}
		hooks = append(hooks, hook{recv, strings.Join(as, ", ")})
		return true
	})

	var handlers []string
	prc := callArgsOf(appF, func(c *ast.CallExpr) bool { return selNameIs(c, "NewProposalRouter") })
	if len(prc) != 1 || len(prc[0]) != 1 {
		handlers = append(handlers, "unrecognised: NewProposalRouter call shape")
	} else if cl, ok := prc[0][0].(*ast.CompositeLit); ok {
		for _, el := range cl.Elts {
			if c, ok := el.(*ast.CallExpr); ok {
				handlers = append(handlers, oneLine(c.Fun))
			} else {
				handlers = append(handlers, "unrecognised:"+oneLine(el))
			}
		}
	} else {
		handlers = append(handlers, "unrecognised:"+oneLine(prc[0][0]))
	}

	// every `return` inside an AnteHandle method of app/ante/*.go that neither calls next(...) nor returns a non-nil error
	// expression: such a decorator ends the chain and ACCEPTS the transaction without running the decorators behind it
	type early struct{ file, recv, text string }
	var earlies []early
	for path, f := range parseDir("app/ante") {
		for _, d := range f.Decls {
			fd, ok := d.(*ast.FuncDecl)
			if !ok || fd.Body == nil || fd.Name.Name != "AnteHandle" {
				continue
			}
			nextName := "next"
			if fd.Type.Params != nil && len(fd.Type.Params.List) > 0 {
				last := fd.Type.Params.List[len(fd.Type.Params.List)-1]
				if len(last.Names) > 0 {
					nextName = last.Names[len(last.Names)-1].Name
				}
			}
			ast.Inspect(fd.Body, func(n ast.Node) bool {
				if _, ok := n.(*ast.FuncLit); ok {
					return false // returns of nested closures are not returns of AnteHandle
				}
				rs, ok := n.(*ast.ReturnStmt)
				if !ok {
					return true
				}
				if len(rs.Results) == 1 {
					if c, ok := rs.Results[0].(*ast.CallExpr); ok {
						if id, ok := c.Fun.(*ast.Ident); ok && id.Name == nextName {
							return true
						}
					}
				}
				if len(rs.Results) == 2 {
					if id, ok := rs.Results[1].(*ast.Ident); !ok || id.Name != "nil" {
						return true // an error expression
					}
				}
				earlies = append(earlies, early{path, recvName(fd), oneLine(rs)})
				return true
			})
		}
	}
	sort.SliceStable(earlies, func(i, j int) bool { return earlies[i].file+earlies[i].recv+earlies[i].text < earlies[j].file+earlies[j].recv+earlies[j].text })

	var sb strings.Builder
	sb.WriteString("-- GENERATED by /verif/extract from app/app.go and app/ante/ante.go. Do not edit.\n")
	sb.WriteString("namespace Sekai.Gen.App\n\n")
	fmt.Fprintf(&sb, "/-- decorators of NewAnteHandler, outermost first -/\ndef anteChain : List String := %s\n\n", leanStrList(chain))
	fmt.Fprintf(&sb, "def beginOrder : List String := %s\n\n", leanStrList(order("SetOrderBeginBlockers")))
	fmt.Fprintf(&sb, "def endOrder : List String := %s\n\n", leanStrList(order("SetOrderEndBlockers")))
	fmt.Fprintf(&sb, "def initOrder : List String := %s\n\n", leanStrList(order("SetOrderInitGenesis")))
	sb.WriteString("/-- module account, permissions -/\ndef maccPerms : List (String × List String) := [\n")
	for i, m := range maccs {
		comma := ","
		if i == len(maccs)-1 {
			comma = ""
		}
		fmt.Fprintf(&sb, "  (%q, %s)%s\n", m.name, leanStrList(m.perms), comma)
	}
	sb.WriteString("]\n\n/-- (receiver, arguments) of every SetHooks call in app.go, in source order -/\ndef hooks : List (String × String) := [\n")
	for i, h := range hooks {
		comma := ","
		if i == len(hooks)-1 {
			comma = ""
		}
		fmt.Fprintf(&sb, "  (%q, %q)%s\n", h.recv, h.arg, comma)
	}
	fmt.Fprintf(&sb, "]\n\n/-- constructors handed to NewProposalRouter, in order -/\ndef proposalHandlers : List String := %s\n", leanStrList(handlers))
	sb.WriteString("\n/-- returns of AnteHandle methods that accept without calling the next decorator: (file, decorator, statement) -/\ndef anteEarlyAccepts : List (String × String × String) := [\n")
	for i, e := range earlies {
		comma := ","
		if i == len(earlies)-1 {
			comma = ""
		}
		fmt.Fprintf(&sb, "  (%q, %q, %q)%s\n", e.file, e.recv, e.text, comma)
	}
	sb.WriteString("]\n\nend Sekai.Gen.App\n")
	return sb.String()
}
