package main

// Table Gen.NetProps: the arms of GetNetworkProperty / SetNetworkProperty and the conditions of
// ValidateNetworkProperties (x/gov/keeper/keeper.go), the NetworkProperty enum and the field order of
// the NetworkProperties struct (x/gov/types/network_properties.pb.go).

import (
	"crypto/sha256"
	"fmt"
	"go/ast"
	"go/token"
	"sort"
	"strconv"
	"strings"
)

func init() { tables = append(tables, table{"NetProps", genNetProps}) }

var npFields map[string]int
var npFieldNames []string
var npFieldKinds []string

func npField(n string) string {
	if id, ok := npFields[n]; ok {
		return strconv.Itoa(id)
	}
	// unknown field: give it a fresh id beyond the struct (keeps the table well formed; the
	// field-name obligation fails because the name list no longer matches the struct)
	npFields[n] = len(npFieldNames)
	npFieldNames = append(npFieldNames, n)
	npFieldKinds = append(npFieldKinds, "?")
	return strconv.Itoa(npFields[n])
}

func npExpr(e ast.Expr, decLocals map[string]string) string {
	switch v := e.(type) {
	case *ast.SelectorExpr:
		if x, y, ok := sel(v); ok && x == "value" && y == "Value" {
			return ".value"
		} else if ok && x == "value" && y == "StrValue" {
			return ".strValue"
		}
	case *ast.Ident:
		if v.Name == "true" {
			return "(.boolLit true)"
		}
		if v.Name == "false" {
			return "(.boolLit false)"
		}
		if s, ok := decLocals[v.Name]; ok {
			return s
		}
	case *ast.CallExpr:
		if id, ok := v.Fun.(*ast.Ident); ok && id.Name == "IntToBool" && len(v.Args) == 1 {
			return "(.intToBool " + npExpr(v.Args[0], decLocals) + ")"
		}
	case *ast.BinaryExpr:
		if v.Op == token.GTR {
			if lit, ok := v.Y.(*ast.BasicLit); ok && lit.Value == "0" {
				return "(.gtZero " + npExpr(v.X, decLocals) + ")"
			}
		}
	}
	return ".unrecognised"
}

func isErrReturn(ifs *ast.IfStmt) bool {
	b, ok := ifs.Cond.(*ast.BinaryExpr)
	if !ok || b.Op != token.NEQ || ifs.Init != nil || ifs.Else != nil {
		return false
	}
	x, ok := b.X.(*ast.Ident)
	if !ok || x.Name != "err" || len(ifs.Body.List) != 1 {
		return false
	}
	_, ok = ifs.Body.List[0].(*ast.ReturnStmt)
	return ok
}

func npStmts(list []ast.Stmt, decLocals map[string]string) string {
	var out []string
	for i := 0; i < len(list); i++ {
		switch s := list[i].(type) {
		case *ast.AssignStmt:
			if len(s.Lhs) == 2 && len(s.Rhs) == 1 {
				if c, ok := s.Rhs[0].(*ast.CallExpr); ok {
					if _, y, ok := sel(c.Fun); ok && y == "NewDecFromStr" && len(c.Args) == 1 {
						decLocals[s.Lhs[0].(*ast.Ident).Name] = "(.decFromStr " + npExpr(c.Args[0], decLocals) + ")"
						if i+1 < len(list) {
							if ifs, ok := list[i+1].(*ast.IfStmt); ok && isErrReturn(ifs) {
								i++
								continue
							}
						}
						out = append(out, ".unrecognised")
						continue
					}
				}
			}
			if len(s.Lhs) == 1 && len(s.Rhs) == 1 && s.Tok == token.ASSIGN {
				if x, f, ok := sel(s.Lhs[0]); ok && x == "properties" {
					out = append(out, fmt.Sprintf("(.assign %s %s)", npField(f), npExpr(s.Rhs[0], decLocals)))
					continue
				}
			}
			if len(s.Lhs) == 1 && len(s.Rhs) == 1 {
				// guard: name := k.EnsureXxx(ctx, properties.F, value.StrValue); if name != "" { return ... }
				if c, ok := s.Rhs[0].(*ast.CallExpr); ok {
					if _, y, ok := sel(c.Fun); ok && strings.HasPrefix(y, "Ensure") && len(c.Args) == 3 {
						_, f, ok1 := sel(c.Args[1])
						if i+1 < len(list) && ok1 && src(c.Args[2]) == "value.StrValue" {
							if ifs, ok := list[i+1].(*ast.IfStmt); ok && ifs.Else == nil && len(ifs.Body.List) == 1 {
								if _, isRet := ifs.Body.List[0].(*ast.ReturnStmt); isRet && src(ifs.Cond) == s.Lhs[0].(*ast.Ident).Name+` != ""` {
									i++
									out = append(out, fmt.Sprintf("(.guard %q %s)", y, npField(f)))
									continue
								}
							}
						}
					}
				}
			}
			out = append(out, ".unrecognised")
		case *ast.IfStmt:
			if s.Init == nil && s.Else == nil {
				out = append(out, fmt.Sprintf("(.ifThen %s %s)", npExpr(s.Cond, decLocals), npStmts(s.Body.List, decLocals)))
			} else if eb, ok := s.Else.(*ast.BlockStmt); ok && s.Init == nil {
				out = append(out, fmt.Sprintf("(.ifElse %s %s %s)", npExpr(s.Cond, decLocals), npStmts(s.Body.List, decLocals), npStmts(eb.List, decLocals)))
			} else {
				out = append(out, ".unrecognised")
			}
		default:
			out = append(out, ".unrecognised")
		}
	}
	return "[" + strings.Join(out, ", ") + "]"
}

func npGet(list []ast.Stmt) string {
	if len(list) != 1 {
		return ".unrecognised"
	}
	r, ok := list[0].(*ast.ReturnStmt)
	if !ok || len(r.Results) != 2 || src(r.Results[1]) != "nil" {
		return ".unrecognised"
	}
	cl, ok := r.Results[0].(*ast.CompositeLit)
	if !ok || len(cl.Elts) != 1 {
		return ".unrecognised"
	}
	kv, ok := cl.Elts[0].(*ast.KeyValueExpr)
	if !ok {
		return ".unrecognised"
	}
	key := kv.Key.(*ast.Ident).Name
	switch v := kv.Value.(type) {
	case *ast.SelectorExpr:
		if x, f, ok := sel(v); ok && x == "properties" {
			if key == "Value" {
				return fmt.Sprintf("(.u64 %s)", npField(f))
			}
			if key == "StrValue" {
				return fmt.Sprintf("(.str %s)", npField(f))
			}
		}
	case *ast.CallExpr:
		if id, ok := v.Fun.(*ast.Ident); ok && id.Name == "BoolToInt" && key == "Value" && len(v.Args) == 1 {
			if x, f, ok := sel(v.Args[0]); ok && x == "properties" {
				return fmt.Sprintf("(.boolAsInt %s)", npField(f))
			}
		}
		if s, ok := v.Fun.(*ast.SelectorExpr); ok && s.Sel.Name == "String" && len(v.Args) == 0 {
			if x, f, ok := sel(s.X); ok && x == "properties" && key == "StrValue" {
				return fmt.Sprintf("(.decString %s)", npField(f))
			}
		}
	}
	return ".unrecognised"
}

// decimal literal expressions used by ValidateNetworkProperties → scaled integer (10^18)
func npDecLit(e ast.Expr) (string, bool) {
	switch src(e) {
	case "sdk.OneDec()":
		return "1000000000000000000", true
	case "sdk.ZeroDec()":
		return "0", true
	case "sdk.OneDec().QuoInt64(3)":
		return "333333333333333333", true
	}
	if c, ok := e.(*ast.CallExpr); ok && src(c.Fun) == "sdk.NewDecWithPrec" && len(c.Args) == 2 {
		a, e1 := strconv.Atoi(src(c.Args[0]))
		p, e2 := strconv.Atoi(src(c.Args[1]))
		if e1 == nil && e2 == nil && p >= 0 && p <= 18 && a >= 0 {
			return strconv.Itoa(a) + strings.Repeat("0", 18-p), true
		}
	}
	return "", false
}

func npCond(e ast.Expr) string {
	switch v := e.(type) {
	case *ast.ParenExpr:
		return npCond(v.X)
	case *ast.BinaryExpr:
		if v.Op == token.LOR {
			return "(.or " + npCond(v.X) + " " + npCond(v.Y) + ")"
		}
		xo, xf, xok := sel(v.X)
		xok = xok && xo == "properties"
		if xok {
			if lit, ok := v.Y.(*ast.BasicLit); ok {
				if lit.Kind == token.INT {
					switch v.Op {
					case token.EQL:
						if lit.Value == "0" {
							return "(.eqZero " + npField(xf) + ")"
						}
					case token.LSS:
						return "(.ltConst " + npField(xf) + " " + lit.Value + ")"
					case token.GTR:
						return "(.gtConst " + npField(xf) + " " + lit.Value + ")"
					case token.LEQ:
						return "(.leConst " + npField(xf) + " " + lit.Value + ")"
					}
				}
				if lit.Kind == token.STRING && lit.Value == `""` && v.Op == token.EQL {
					return "(.strEmpty " + npField(xf) + ")"
				}
			}
			if yo, yf, ok := sel(v.Y); ok && yo == "properties" {
				switch v.Op {
				case token.LSS:
					return "(.ltField " + npField(xf) + " " + npField(yf) + ")"
				case token.GTR:
					return "(.gtField " + npField(xf) + " " + npField(yf) + ")"
				}
			}
		}
	case *ast.CallExpr:
		// properties.F.IsNil() / IsNegative() / GT(lit) / GTE(lit)
		if s, ok := v.Fun.(*ast.SelectorExpr); ok {
			if xo, xf, ok := sel(s.X); ok && xo == "properties" {
				switch s.Sel.Name {
				case "IsNil":
					return "(.decNil " + npField(xf) + ")"
				case "IsNegative":
					return "(.decNeg " + npField(xf) + ")"
				case "GT", "GTE", "LT", "LTE":
					if len(v.Args) == 1 {
						if l, ok := npDecLit(v.Args[0]); ok {
							return "(.dec" + s.Sel.Name + " " + npField(xf) + " " + l + ")"
						}
					}
				}
			}
		}
	}
	return ".unrecognised"
}

func npValidate(fd *ast.FuncDecl) string {
	var out []string
	var opaque []string
	flush := func() {
		if len(opaque) > 0 {
			h := sha256.Sum256([]byte(strings.Join(opaque, "\n")))
			out = append(out, fmt.Sprintf("(.opaque %q)", fmt.Sprintf("%x", h[:8])))
			opaque = nil
		}
	}
	list := fd.Body.List
	for i, st := range list {
		if r, ok := st.(*ast.ReturnStmt); ok && i == len(list)-1 && len(r.Results) == 1 && src(r.Results[0]) == "nil" {
			continue
		}
		if ifs, ok := st.(*ast.IfStmt); ok && ifs.Init == nil && ifs.Else == nil && len(ifs.Body.List) == 1 {
			if r, ok := ifs.Body.List[0].(*ast.ReturnStmt); ok && len(r.Results) == 1 && strings.HasPrefix(src(r.Results[0]), "fmt.Errorf(") {
				c := npCond(ifs.Cond)
				if !strings.Contains(c, "unrecognised") {
					flush()
					out = append(out, c)
					continue
				}
			}
		}
		opaque = append(opaque, src(st))
	}
	flush()
	return "[\n  " + strings.Join(out, ",\n  ") + "\n]"
}

func genNetProps() string {
	npFields = map[string]int{}
	npFieldNames, npFieldKinds = nil, nil
	pb := parseFile("x/gov/types/network_properties.pb.go")
	// struct field order
	for _, d := range pb.Decls {
		gd, ok := d.(*ast.GenDecl)
		if !ok {
			continue
		}
		for _, sp := range gd.Specs {
			ts, ok := sp.(*ast.TypeSpec)
			if !ok || ts.Name.Name != "NetworkProperties" {
				continue
			}
			for _, fl := range ts.Type.(*ast.StructType).Fields.List {
				for _, n := range fl.Names {
					npFields[n.Name] = len(npFieldNames)
					npFieldNames = append(npFieldNames, n.Name)
					k := src(fl.Type)
					switch {
					case k == "uint64":
						k = "u64"
					case k == "bool":
						k = "bool"
					case k == "string":
						k = "str"
					case strings.HasSuffix(k, ".Dec"):
						k = "dec"
					}
					npFieldKinds = append(npFieldKinds, k)
				}
			}
		}
	}
	// enum constants: name -> number
	enum := map[string]int{}
	for _, d := range pb.Decls {
		gd, ok := d.(*ast.GenDecl)
		if !ok || gd.Tok != token.CONST {
			continue
		}
		for _, sp := range gd.Specs {
			vs := sp.(*ast.ValueSpec)
			if id, ok := vs.Type.(*ast.Ident); ok && id.Name == "NetworkProperty" && len(vs.Values) == 1 {
				if n, err := strconv.Atoi(src(vs.Values[0])); err == nil {
					enum[vs.Names[0].Name] = n
				}
			}
		}
	}
	kf := parseFile("x/gov/keeper/keeper.go")
	sets, gets := map[string]string{}, map[string]string{}
	defaults := map[string]string{}
	tails := map[string]string{}
	for _, name := range []string{"SetNetworkProperty", "GetNetworkProperty"} {
		fd := funcDecl(kf, name)
		if fd == nil {
			continue
		}
		// statements around the switch (the tie of the generic model's prologue/epilogue)
		var around []string
		for _, st := range fd.Body.List {
			sw, ok := st.(*ast.SwitchStmt)
			if !ok {
				around = append(around, strings.Join(strings.Fields(src(st)), " "))
				continue
			}
			around = append(around, "<switch "+src(sw.Tag)+">")
			for _, c := range sw.Body.List {
				cc := c.(*ast.CaseClause)
				if cc.List == nil {
					var ds []string
					for _, s := range cc.Body {
						ds = append(ds, strings.Join(strings.Fields(src(s)), " "))
					}
					defaults[name] = strings.Join(ds, "; ")
				}
				for _, e := range cc.List {
					_, id, _ := sel(e)
					if name == "SetNetworkProperty" {
						sets[id] = npStmts(cc.Body, map[string]string{})
					} else {
						gets[id] = npGet(cc.Body)
					}
				}
			}
		}
		tails[name] = strings.Join(around, " | ")
	}
	ids := map[string]bool{}
	for k := range sets {
		ids[k] = true
	}
	for k := range gets {
		ids[k] = true
	}
	var names []string
	for k := range ids {
		names = append(names, k)
	}
	sort.Slice(names, func(i, j int) bool {
		a, aok := enum[names[i]]
		b, bok := enum[names[j]]
		if aok != bok {
			return aok
		}
		if a != b {
			return a < b
		}
		return names[i] < names[j]
	})
	var sb strings.Builder
	sb.WriteString("-- GENERATED by /verif/extract from x/gov/keeper/keeper.go and x/gov/types/network_properties.pb.go. Do not edit.\n")
	sb.WriteString("import Sekai.Model.NetProps\nnamespace Sekai.Gen.NetProps\nopen Sekai.NetProps\n\n")
	fmt.Fprintf(&sb, "def fieldNames : List String := [%s]\n", quoteAll(npFieldNames))
	fmt.Fprintf(&sb, "def fieldKinds : List String := [%s]\n", quoteAll(npFieldKinds))
	var en []string
	for _, k := range sortedKeys(enum) {
		en = append(en, fmt.Sprintf("(%d, %q)", enum[k], k))
	}
	sort.Slice(en, func(i, j int) bool {
		var a, b int
		fmt.Sscanf(en[i], "(%d", &a)
		fmt.Sscanf(en[j], "(%d", &b)
		return a < b
	})
	fmt.Fprintf(&sb, "def enum : List (Nat × String) := [%s]\n", strings.Join(en, ", "))
	sb.WriteString("def arms : List Arm := [\n")
	for i, n := range names {
		id, ok := enum[n]
		idS := strconv.Itoa(id)
		if !ok {
			idS = "1000000"
		}
		s, ok := sets[n]
		if !ok {
			s = "[.unrecognised]"
		}
		g, ok := gets[n]
		if !ok {
			g = ".missing"
		}
		comma := ","
		if i == len(names)-1 {
			comma = ""
		}
		fmt.Fprintf(&sb, "  ⟨%s, %q, %s, %s⟩%s\n", idS, n, s, g, comma)
	}
	sb.WriteString("]\n")
	fmt.Fprintf(&sb, "def setShape : String := %q\n", tails["SetNetworkProperty"])
	fmt.Fprintf(&sb, "def getShape : String := %q\n", tails["GetNetworkProperty"])
	fmt.Fprintf(&sb, "def setDefault : String := %q\n", defaults["SetNetworkProperty"])
	fmt.Fprintf(&sb, "def getDefault : String := %q\n", defaults["GetNetworkProperty"])
	if fd := funcDecl(kf, "ValidateNetworkProperties"); fd != nil {
		fmt.Fprintf(&sb, "def conds : List Cond := %s\n", npValidate(fd))
	} else {
		sb.WriteString("def conds : List Cond := [.unrecognised]\n")
	}
	// SetNetworkProperties (the only writer): shape as text
	if fd := funcDecl(kf, "SetNetworkProperties"); fd != nil {
		fmt.Fprintf(&sb, "def setAllShape : String := %q\n", strings.Join(strings.Fields(src(fd.Body)), " "))
	} else {
		sb.WriteString("def setAllShape : String := \"missing\"\n")
	}
	sb.WriteString("end Sekai.Gen.NetProps\n")
	return sb.String()
}
