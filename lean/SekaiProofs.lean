import SekaiProofs.Props.C19
