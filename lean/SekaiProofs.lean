import SekaiProofs.Props.C19
import SekaiProofs.Props.C07
import SekaiProofs.Props.C08
import SekaiProofs.Props.C13
import SekaiProofs.Props.C05
import SekaiProofs.Props.C15
