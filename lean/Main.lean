import Sekai.Driver.NetProps
import Sekai.Driver.Perm
import Sekai.Driver.Gov
import Sekai.Driver.Mint
import Sekai.Driver.Stake
import Sekai.Driver.Layer2
import Sekai.Driver.Custody
import Sekai.Driver.Basket
import Sekai.Driver.Spend
import Sekai.Driver.Ubi
import Sekai.Driver.Collect
import Sekai.Driver.Auth
import Sekai.Driver.Ident
import Sekai.Driver.Ante
import Sekai.Driver.MultiStake
import Sekai.Driver.GenesisCov
import Sekai.Driver.Recovery
import Sekai.Driver.Upgrade
import Sekai.Driver.Layer2Oper
/-! `sekai-model`: the model side of the correspondence check. One op per input line
(`<domain> <op> <args…>`), one canonical observation per output line. Core Lean only. -/
open Sekai

structure World where
  props : Driver.NetProps.St := {}
  perm : Driver.Perm.D := {}
  gov : Gov.St := {}
  stake : Driver.Stake.D := {}
  l2 : Driver.Layer2.St := Driver.Layer2.init
  custody : Driver.Custody.St := {}
  basket : Driver.Basket.St := {}
  c18 : Driver.Spend.St := {}   -- spending pools + UBI + collectives (domains spend / ubi / coll share one state)
  auth : Driver.Auth.St := {}
  ident : Driver.Ident.St := {}
  ante : Driver.Ante.St := {}
  ms : Driver.MultiStake.St := {}
  recov : Driver.Recovery.St := {}
  upg : Upgrade.St := {}
  l2opers : List Layer2.Oper := []

def dispatch (w : World) (line : String) : World × String :=
  let toks := (line.trimAscii.toString.splitOn " ").filter (· ≠ "")
  match toks with
  | "props" :: rest => let (s, o) := Driver.NetProps.step w.props rest; ({ w with props := s }, o)
  | "perm" :: rest => let (s, o) := Driver.Perm.step w.perm rest; ({ w with perm := s }, o)
  | "gov" :: rest => let (s, o) := Driver.Gov.step w.perm.s w.gov rest; ({ w with gov := s }, o)
  | "mint" :: rest => (w, Driver.Mint.step rest)
  | "stake" :: rest => let (s, o) := Driver.Stake.step w.stake rest; ({ w with stake := s }, o)
  | "l2" :: rest => let (s, o) := Driver.Layer2.step w.l2 rest; ({ w with l2 := s }, o)
  | "custody" :: rest => let (s, o) := Driver.Custody.step w.custody rest; ({ w with custody := s }, o)
  | "basket" :: rest => let (s, o) := Driver.Basket.step w.basket rest; ({ w with basket := s }, o)
  | "spend" :: rest => let (s, o) := Driver.Spend.step w.c18 rest; ({ w with c18 := s }, o)
  | "ubi" :: rest => let (s, o) := Driver.Ubi.step w.c18 rest; ({ w with c18 := s }, o)
  | "coll" :: rest => let (s, o) := Driver.Collect.step w.c18 rest; ({ w with c18 := s }, o)
  | "auth" :: rest => let (s, o) := Driver.Auth.step w.auth rest; ({ w with auth := s }, o)
  | "ident" :: rest => let (s, o) := Driver.Ident.step w.ident rest; ({ w with ident := s }, o)
  | "ante" :: rest => let (s, o) := Driver.Ante.step w.ante rest; ({ w with ante := s }, o)
  | "ms" :: rest => let (s, o) := Driver.MultiStake.step w.ms rest; ({ w with ms := s }, o)
  | "gencov" :: rest => (w, Driver.GenesisCov.step rest)
  | "rec" :: rest => let (s, o) := Driver.Recovery.step w.recov rest; ({ w with recov := s }, o)
  | "l2op" :: rest => let (s, o, out) := Driver.Layer2Oper.step w.l2 w.l2opers rest; ({ w with l2 := s, l2opers := o }, out)
  | "upg" :: rest => let (s, o) := Driver.Upgrade.step w.upg rest; ({ w with upg := s }, o)
  | ["reset"] => ({}, "ok")
  | [] => (w, "")
  | _ => (w, "bad-op")

partial def loop (h : IO.FS.Stream) (out : IO.FS.Stream) (w : World) : IO Unit := do
  let line ← h.getLine
  if line.isEmpty then
    out.flush
    return ()
  if line.startsWith "#" then
    out.putStrLn line.trimAscii.toString
    loop h out w
  else
    let (w', o) := dispatch w line
    out.putStrLn o
    loop h out w'

def main : IO Unit := do
  let stdin ← IO.getStdin
  let stdout ← IO.getStdout
  loop stdin stdout {}
