import Sekai.Driver.NetProps
import Sekai.Driver.Perm
import Sekai.Driver.Gov
import Sekai.Driver.Mint
import Sekai.Driver.Stake
/-! `sekai-model`: the model side of the correspondence check. One op per input line
(`<domain> <op> <args…>`), one canonical observation per output line. Core Lean only. -/
open Sekai

structure World where
  props : Driver.NetProps.St := {}
  perm : Driver.Perm.D := {}
  gov : Gov.St := {}
  stake : Driver.Stake.D := {}

def dispatch (w : World) (line : String) : World × String :=
  let toks := (line.trimAscii.toString.splitOn " ").filter (· ≠ "")
  match toks with
  | "props" :: rest => let (s, o) := Driver.NetProps.step w.props rest; ({ w with props := s }, o)
  | "perm" :: rest => let (s, o) := Driver.Perm.step w.perm rest; ({ w with perm := s }, o)
  | "gov" :: rest => let (s, o) := Driver.Gov.step w.perm.s w.gov rest; ({ w with gov := s }, o)
  | "mint" :: rest => (w, Driver.Mint.step rest)
  | "stake" :: rest => let (s, o) := Driver.Stake.step w.stake rest; ({ w with stake := s }, o)
  | ["reset"] => ({}, "ok")
  | [] => (w, "")
  | _ => (w, "bad-op")

partial def loop (h : IO.FS.Stream) (out : IO.FS.Stream) (w : World) : IO Unit := do
  let line ← h.getLine
  if line.isEmpty then
    out.flush
    return ()
  if line.startsWith "#" then
    out.putStrLn line.trimAscii.toString
    loop h out w
  else
    let (w', o) := dispatch w line
    out.putStrLn o
    loop h out w'

def main : IO Unit := do
  let stdin ← IO.getStdin
  let stdout ← IO.getStdout
  loop stdin stdout {}
