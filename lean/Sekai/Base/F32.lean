/-! IEEE-754 binary32 (Go `float32`) arithmetic on NON-NEGATIVE values, as exact rationals. Core Lean only.

A finite positive float32 is `m · 2^e` with `2^23 ≤ m < 2^24`; `rne x` is the value of the float nearest to the
positive rational `x`, ties to even significand (overflow and subnormals are ignored: the tally only ever produces
values in `[2^-25, 2^31]`). Go evaluates `float32(a) / float32(b) * 100` with one rounding per operation
(the language spec forbids fusing across the explicit `float32` conversions and x86-64/arm64 `float32` ops are
IEEE-exact), i.e. `mul (div (ofNat a) (ofNat b)) 100`.

`processResult` is a total model of `CalculatedVotes.ProcessResult` (x/gov/types/vote.go); `exactRule` is the
rule the code is meant to implement, in exact integer arithmetic. -/
namespace Sekai.F32

def pow2 (e : Int) : Rat := if e ≥ 0 then ((2 ^ e.toNat : Nat) : Rat) else 1 / ((2 ^ (-e).toNat : Nat) : Rat)

/-- round half even of a non-negative rational -/
def rhe (x : Rat) : Nat :=
  let f := x.floor.toNat
  let r := x - (f : Rat)
  if r < 1/2 then f else if 1/2 < r then f + 1 else if f % 2 = 0 then f else f + 1

/-- floor(log2 x) for x > 0 -/
def ilog2 (x : Rat) : Int :=
  let d : Int := (Nat.log2 x.num.toNat : Int) - (Nat.log2 x.den : Int)
  if x < pow2 d then d - 1 else if pow2 (d + 1) ≤ x then d + 1 else d

/-- value of the float32 nearest to x (x > 0), ties to even; 0 for x ≤ 0 -/
def rne (x : Rat) : Rat :=
  if x ≤ 0 then 0 else
  let k : Int := 23 - ilog2 x
  (rhe (x * pow2 k) : Rat) * pow2 (-k)

/-- `float32(n)` for a `uint64` n -/
def ofNat (n : Nat) : Rat := rne n
def div (a b : Rat) : Rat := rne (a / b)
def mul (a b : Rat) : Rat := rne (a * b)

/-- `(float32(yes) / float32(total)) * 100 > 50.00` (total ≠ 0) -/
def passF (yes total : Nat) : Bool := decide (mul (div (ofNat yes) (ofNat total)) 100 > 50)

/-- `(float32(n) / float32(d)) * 100 >= 50` (d ≠ 0): the veto test and the "others" test -/
def geF (n d : Nat) : Bool := decide (mul (div (ofNat n) (ofNat d)) 100 ≥ 50)

def vetoF (veto actors : Nat) : Bool := geF veto actors

inductive Res | passed | rejected | rejectedWithVeto | unknown
  deriving DecidableEq, Repr

/-- `CalculatedVotes.ProcessResult`. The veto block is guarded by `c.actorsWithVeto != 0` in Go. With
`total = 0` (no vote was counted, so `yes = no = abstain = veto = 0`) the two other divisions are `0/0 = NaN`,
`NaN * 100 = NaN`, and EVERY comparison with NaN is false, so Go falls through to `Unknown`: that is what the
`total ≠ 0 ∧` conjuncts encode. -/
def processResult (yes no abstain veto actorsWithVeto total : Nat) : Res :=
  if actorsWithVeto ≠ 0 ∧ geF veto actorsWithVeto then .rejectedWithVeto
  else if total ≠ 0 ∧ passF yes total then .passed
  else if total ≠ 0 ∧ geF (no + abstain + veto) total then .rejected
  else .unknown

/-- the intended rule in exact arithmetic -/
def exactRule (yes no abstain veto actorsWithVeto total : Nat) : Res :=
  if actorsWithVeto ≠ 0 ∧ 2 * veto ≥ actorsWithVeto then .rejectedWithVeto
  else if total ≠ 0 ∧ 2 * yes > total then .passed
  else if total ≠ 0 ∧ 2 * (no + abstain + veto) ≥ total then .rejected
  else .unknown

/- sanity (run with `#eval`):
  passF 8388610 16777219 = false   -- exact rule says true (2*yes > total): first divergence of the yes test
  geF 8388608 16777217 = true      -- exact: 2*veto < actors
  passF 2 3 = true, passF 1 2 = false, geF 1 2 = true, geF 3 2 = true
  (List.range 200).all fun t => (List.range (t+1)).all fun y =>
     t == 0 || (passF y t == decide (2*y > t) && geF y t == decide (2*y ≥ t))  = true
  processResult 0 0 0 0 0 0 = Res.unknown -/
end Sekai.F32
