/-! A minimal model of x/bank over accounts `0..n-1` (user and module accounts alike) and denominations as small
numbers: balances, supply, the primitives every sekai module goes through (send, mint, burn). Core Lean only. -/
namespace Sekai.Bank

structure B where
  bal : Nat → Nat → Int := fun _ _ => 0     -- account → denom → amount
  supply : Nat → Int := fun _ => 0          -- denom → total supply

def upd2 (f : Nat → Nat → Int) (a d : Nat) (x : Int) : Nat → Nat → Int :=
  fun a' d' => if a' = a ∧ d' = d then x else f a' d'

/-- Σ of the balances of accounts `0..n-1` in denom `d` -/
def totalF (f : Nat → Nat → Int) (d : Nat) : Nat → Int
  | 0 => 0
  | n + 1 => totalF f d n + f n d
def total (b : B) (d n : Nat) : Int := totalF b.bal d n

inductive Op where
  | send (src dst d : Nat) (amt : Int)      -- SendCoins / SendCoinsFromModuleToAccount / …AccountToModule / …ModuleToModule
  | mint (dst d : Nat) (amt : Int)          -- MintCoins (into a module account)
  | burn (src d : Nat) (amt : Int)          -- BurnCoins (from a module account)
deriving Repr

/-- `none` = the bank keeper returns an error (insufficient funds, negative amount): nothing changes -/
def step (b : B) : Op → Option B
  | .send src dst d amt =>
    if amt < 0 ∨ b.bal src d < amt then none
    else
      let f1 := upd2 b.bal src d (b.bal src d - amt)
      some { b with bal := upd2 f1 dst d (f1 dst d + amt) }
  | .mint dst d amt =>
    if amt < 0 then none
    else some { bal := upd2 b.bal dst d (b.bal dst d + amt), supply := fun d' => if d' = d then b.supply d + amt else b.supply d' }
  | .burn src d amt =>
    if amt < 0 ∨ b.bal src d < amt then none
    else some { bal := upd2 b.bal src d (b.bal src d - amt), supply := fun d' => if d' = d then b.supply d - amt else b.supply d' }

def apply (b : B) (op : Op) : B := (step b op).getD b

/-- the accounts an operation touches lie in the domain -/
def Op.within (n : Nat) : Op → Prop
  | .send s t _ _ => s < n ∧ t < n
  | .mint t _ _ => t < n
  | .burn s _ _ => s < n

/-- the payer of an operation (who can lose coins) -/
def Op.payer : Op → Option Nat
  | .send s _ _ _ => some s
  | .mint _ _ _ => none
  | .burn s _ _ => some s

end Sekai.Bank
