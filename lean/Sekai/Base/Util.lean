/-! Small parsing / printing helpers for the line-protocol driver. Core Lean only. -/
namespace Sekai.Util

def isDigits (s : String) : Bool := !s.isEmpty && s.all Char.isDigit

/-- strict natural-number parser: digits only, at least one -/
def nat? (s : String) : Option Nat := if isDigits s then s.toNat? else none

/-- strict integer parser: optional leading '-' then digits -/
def int? (s : String) : Option Int :=
  if s.startsWith "-" then (nat? (s.drop 1).toString).map (fun n => -(n : Int)) else (nat? s).map (fun n => (n : Int))

/-- `k=v` token → (k, v) -/
def kv (tok : String) : String × String :=
  match tok.splitOn "=" with
  | k :: rest => (k, "=".intercalate rest)
  | [] => (tok, "")

def lookup (toks : List String) (key : String) : Option String :=
  (toks.map kv).lookup key

def lookupNat (toks : List String) (key : String) : Option Nat := (lookup toks key).bind nat?
def lookupInt (toks : List String) (key : String) : Option Int := (lookup toks key).bind int?

/-- comma separated list of naturals; "-" or "" is the empty list -/
def natList? (s : String) : Option (List Nat) :=
  if s == "-" || s == "" then some [] else (s.splitOn ",").mapM nat?

def intList? (s : String) : Option (List Int) :=
  if s == "-" || s == "" then some [] else (s.splitOn ",").mapM int?

def showNatList (l : List Nat) : String :=
  if l.isEmpty then "-" else ",".intercalate (l.map toString)

def showIntList (l : List Int) : String :=
  if l.isEmpty then "-" else ",".intercalate (l.map toString)

/-- inverse of the harness's `encS`: "~" is the empty string, %20 %25 %7E are escapes -/
def decS (s : String) : String :=
  if s == "~" then "" else
  ((((s.replace "%20" " ").replace "%7E" "~").replace "%0A" "\n").replace "%09" "\t").replace "%25" "%"
def encS (s : String) : String :=
  if s == "" then "~" else
  ((((s.replace "%" "%25").replace " " "%20").replace "~" "%7E").replace "\n" "%0A").replace "\t" "%09"

def bool01 (b : Bool) : String := if b then "1" else "0"

def parse01 (s : String) : Option Bool := if s == "1" then some true else if s == "0" then some false else none

/-- insertion sort on naturals (canonical output order) -/
def insertNat (x : Nat) : List Nat → List Nat
  | [] => [x]
  | y :: ys => if x ≤ y then x :: y :: ys else y :: insertNat x ys
def sortNat (l : List Nat) : List Nat := l.foldr insertNat []

def dedupNat (l : List Nat) : List Nat := l.foldr (fun x acc => if acc.contains x then acc else x :: acc) []

end Sekai.Util
