import Sekai.Base.Util
/-! `sdk.LegacyDec` (cosmossdk.io/math v1.2.0) as an `Int` scaled by 10^18. Core Lean only.
Mirrors `chopPrecisionAndRound` (banker's rounding), `Mul`, `Quo`, `MulTruncate`, `QuoTruncate`,
`RoundInt`, `TruncateInt`, `LegacyNewDecFromStr`, `String`. -/
namespace Sekai.Dec

def P : Int := 1000000000000000000
def half : Int := 500000000000000000

abbrev D := Int   -- value × 10^18

/-- chopPrecisionAndRound: banker's rounding of x / 10^18 -/
def chopRound (x : Int) : Int :=
  let neg := x < 0
  let a := if neg then -x else x
  let q := a / P
  let r := a % P
  let res :=
    if r < half then q
    else if r > half then q + 1
    else if q % 2 = 0 then q else q + 1
  if neg then -res else res

def chopTrunc (x : Int) : Int := Int.tdiv x P

def ofInt (i : Int) : D := i * P
def one : D := P
def zero : D := 0
def mul (a b : D) : D := chopRound (a * b)
def mulTrunc (a b : D) : D := chopTrunc (a * b)
/-- `Quo`: (a·10^18·10^18) quo b (toward zero), then banker's chop. `b ≠ 0` (Go panics otherwise). -/
def quo (a b : D) : D := chopRound (Int.tdiv (a * P * P) b)
def quoTrunc (a b : D) : D := chopTrunc (Int.tdiv (a * P * P) b)
def mulInt (a : D) (i : Int) : D := a * i
def quoInt (a : D) (i : Int) : D := Int.tdiv a i
def truncInt (a : D) : Int := Int.tdiv a P
def roundInt (a : D) : Int := chopRound a

/-- `LegacyNewDecFromStr` : `none` where Go returns an error -/
def fromStr (s0 : String) : Option D :=
  let neg := s0.startsWith "-"
  let s := if neg then (s0.drop 1).toString else s0
  if s.isEmpty then none else
  let parts := s.splitOn "."
  let mk (ip fp : String) : Option D :=
    -- big.Int.SetString(base 10) accepts one optional leading sign on the combined string
    let (sgn, digits) :=
      if ip.startsWith "-" then ((-1 : Int), (ip.drop 1).toString)
      else if ip.startsWith "+" then ((1 : Int), (ip.drop 1).toString) else ((1 : Int), ip)
    let comb := digits ++ fp ++ String.ofList (List.replicate (18 - fp.length) '0')
    if !Util.isDigits comb then none else
    match comb.toNat? with
    | none => none
    | some n =>
      if n ≥ 2 ^ 315 then none else
      let v : Int := sgn * (n : Int)
      some (if neg then -v else v)
  match parts with
  | [ip] => mk ip ""
  | [ip, fp] => if fp.isEmpty || ip.isEmpty then none else if fp.length > 18 then none else mk ip fp
  | _ => none

def pad18 (s : String) : String := String.ofList (List.replicate (18 - s.length) '0') ++ s

/-- `LegacyDec.String()` : always 18 fractional digits -/
def toStr (d : D) : String :=
  let a := d.natAbs
  let ip := a / 1000000000000000000
  let fp := a % 1000000000000000000
  (if d < 0 then "-" else "") ++ toString ip ++ "." ++ pad18 (toString fp)

end Sekai.Dec
