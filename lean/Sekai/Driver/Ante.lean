import Sekai.Model.Ante
/-! line protocol of domain `ante` (C09, C14)

  ante cfg native=ukex min=100 max=1000000 foreign=1 bl=1 wl=0 poormax=1000000 minval=1 nval=2
           tokens=ukex:1000000000000000000:1,… black=frozen white=ukex poor=t1,t2 exec=send:10:5,…     → ok
  ante tx payer=1 fee=ukex:100 bal=ukex:5000 msgs=send/s/2/ukex:5;multisend/m/3/frozen:7;claim_councilor/o/0/~ exec=ok|fail   (coins "~" or "-" = none)
           → rej | acc paid=ukex:100 coll=ukex:100 recs=1 seq=1 out=ok|failed
  ante frozen <denom>                                  → 0 | 1
  ante fp reset | fp bal a=<i|c> <coins> | fp pay a=<i> <coins> | fp start <type> <payer> | fp success <type> <payer>
  ante fp return                                        → ok | panic
  ante fp obs a=<i|c> denoms=ukex,ubtc                  → bal=… hist=…
-/
namespace Sekai.Driver.Ante
open Sekai.Ante Sekai.Util

structure St where
  cfg : Cfg := {}
  fp : State := {}

def coin? (s : String) : Option Coin :=
  match s.splitOn ":" with
  | [d, a] => (nat? a).map (fun n => (decS d, n))
  | _ => none

def coins? (s : String) : Option Coins :=
  if s == "-" || s == "" || s == "~" then some [] else (s.splitOn ",").mapM coin?

def showCoins (cs : Coins) : String :=
  if cs.isEmpty then "-" else ",".intercalate (cs.map fun c => s!"{encS c.1}:{c.2}")

def strList (s : String) : List String :=
  if s == "-" || s == "" then [] else (s.splitOn ",").map decS

def token? (s : String) : Option TokenInfo :=
  match s.splitOn ":" with
  | [d, r, e] => match int? r, parse01 e with
    | some r, some e => some ⟨decS d, r, e⟩
    | _, _ => none
  | _ => none

def execFee1? (s : String) : Option ExecFee :=
  match s.splitOn ":" with
  | [t, e, f] => match nat? e, nat? f with
    | some e, some f => some ⟨decS t, u64 e, u64 f⟩
    | _, _ => none
  | _ => none

def listOf {α} (p : String → Option α) (s : String) : Option (List α) :=
  if s == "-" || s == "" then some [] else (s.splitOn ",").mapM p

def msg? (payer : Nat) (s : String) : Option Msg :=
  match s.splitOn "/" with
  | [ty, k, to, cs] =>
    match coins? cs with
    | none => none
    | some cs =>
      let to := (nat? to).getD 0
      if k == "s" then some ⟨decS ty, .send cs to, payer⟩
      else if k == "m" then some ⟨decS ty, .multisend cs to, payer⟩
      else if k == "o" then some ⟨decS ty, .other, payer⟩
      else none
  | _ => none

def msgs? (payer : Nat) (s : String) : Option (List Msg) :=
  if s == "-" || s == "" then some [] else (s.splitOn ";").mapM (msg? payer)

def parseCfg (t : List String) : Option Cfg := do
  let b (k : String) : Option Bool := (lookup t k).bind parse01
  let tokens ← listOf token? ((lookup t "tokens").getD "-")
  let execs ← listOf execFee1? ((lookup t "exec").getD "-")
  some { native := decS ((lookup t "native").getD "ukex")
         minTxFee := u64 (← lookupNat t "min"), maxTxFee := u64 (← lookupNat t "max")
         foreignEnabled := (← b "foreign"), blacklistOn := (← b "bl"), whitelistOn := (← b "wl")
         poorMaxSend := u64 (← lookupNat t "poormax"), minValidators := u64 (← lookupNat t "minval"), nVal := (← lookupNat t "nval")
         tokens := tokens, black := strList ((lookup t "black").getD "-"), white := strList ((lookup t "white").getD "-")
         poorMsgs := strList ((lookup t "poor").getD "-"), execFees := execs }

def addr? (s : String) : Option Addr := if s == "c" then some .feeCollector else (nat? s).map .user

def runTxLine (c : Cfg) (t : List String) (why : Bool := false) : String :=
  match lookupNat t "payer", (lookup t "fee").bind coins?, (lookup t "bal").bind coins?, lookup t "exec" with
  | some payer, some fee, some bal, some ex =>
    match msgs? payer ((lookup t "msgs").getD "-") with
    | none => "bad-op"
    | some msgs =>
      let s0 : State := { bal := fun a d => match a with
                                   | .user i => if i = payer then amountOf bal d else 0
                                   | .feeCollector => 0 }
      let tx : Tx := ⟨msgs, fee, payer⟩
      let run : State → Except Err State := fun s => if ex == "ok" then .ok s else .error .panic
      let (s1, out) := runTx c tx run s0
      match out with
      | .rejected e => if why then s!"rej:{repr e}" else "rej"
      | o =>
        let paid : Coins := fee.map fun x => (x.1, s0.bal (.user payer) x.1 - s1.bal (.user payer) x.1)
        let coll : Coins := fee.map fun x => (x.1, s1.bal .feeCollector x.1 - s0.bal .feeCollector x.1)
        let outS := if o == .ok then "ok" else "failed"
        s!"acc paid={showCoins paid} coll={showCoins coll} recs={s1.execs.length} seq={s1.seq payer - s0.seq payer} pk={bool01 (s1.hasPubKey payer)} out={outS}"
  | _, _, _, _ => "bad-op"

def setBalances (s : State) (a : Addr) (cs : Coins) : State :=
  { s with bal := fun x d => if x = a then amountOf cs d else s.bal x d }

def fpStep (st : St) (t : List String) : St × String :=
  match t with
  | ["reset"] => ({ st with fp := {} }, "ok")
  | ["bal", a, cs] =>
    match (lookup [a] "a").bind addr?, coins? cs with
    | some a, some cs => ({ st with fp := setBalances st.fp a cs }, "ok")
    | _, _ => (st, "bad-op")
  | ["pay", a, cs] =>
    match lookupNat [a] "a", coins? cs with
    | some a, some cs =>
      match moveCoins st.fp.bal (.user a) .feeCollector cs with
      | none => (st, "err")
      | some b => ({ st with fp := { st.fp with bal := b, hist := fun i => if i = a then addCoins (st.fp.hist a) cs else st.fp.hist i } }, "ok")
    | _, _ => (st, "bad-op")
  | ["start", ty, p] =>
    match nat? p with
    | some p => ({ st with fp := { st.fp with execs := addExecutionStart st.fp.execs ⟨decS ty, .other, p⟩ } }, "ok")
    | none => (st, "bad-op")
  | ["success", ty, p] =>
    match nat? p with
    | some p => ({ st with fp := { st.fp with execs := setExecutionStatusSuccess st.fp.execs (decS ty) p } }, "ok")
    | none => (st, "bad-op")
  | ["return"] =>
    match processExecutionFeeReturn st.cfg st.fp with
    | .ok s' => ({ st with fp := s' }, "ok")
    | .error _ => (st, "panic")
  | ["obs", a, ds] =>
    match (lookup [a] "a").bind addr?, lookup [ds] "denoms" with
    | some a, some ds =>
      let ds := strList ds
      let bal := ",".intercalate (ds.map fun d => s!"{encS d}:{st.fp.bal a d}")
      let hist := match a with
        | .user i => showCoins (st.fp.hist i)
        | .feeCollector => "-"
      (st, s!"bal={bal} hist={hist} execs={st.fp.execs.length}")
    | _, _ => (st, "bad-op")
  | _ => (st, "bad-op")

def step (st : St) (toks : List String) : St × String :=
  match toks with
  | ["reset"] => ({}, "ok")
  | "cfg" :: rest =>
    match parseCfg rest with
    | some c => ({ st with cfg := c }, "ok")
    | none => (st, "bad-op")
  | "tx" :: rest => (st, runTxLine st.cfg rest)
  | "txwhy" :: rest => (st, runTxLine st.cfg rest true)    -- debugging aid: which decorator rejected
  | ["lists", which, how, toks] =>
    -- an enacted ProposalTokensWhiteBlackChange; answer: both lists, sorted
    if (which != "black" && which != "white") || (how != "add" && how != "rm") then (st, "bad-op") else
    let c := editLists st.cfg (which == "black") (how == "add") (strList toks)
    let srt (l : List String) : String :=
      let a := (l.toArray.qsort (· < ·)).toList
      if a.isEmpty then "-" else ",".intercalate a
    ({ st with cfg := c }, s!"black={srt c.black} white={srt c.white}")
  | ["frozen", d] => (st, bool01 (frozen st.cfg (decS d)))
  | ["active"] => (st, bool01 (networkActive st.cfg))
  | "fp" :: rest => fpStep st rest
  | _ => (st, "bad-op")

end Sekai.Driver.Ante
