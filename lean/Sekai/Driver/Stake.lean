import Sekai.Model.Stake
/-! line protocol for the validator status machine (domain `stake`) -/
namespace Sekai.Driver.Stake
open Sekai.Stake Sekai.Util Sekai

structure D where
  s : S := {}
  p : Params := {}
  n : Nat := 0      -- accounts observed: validators of the genesis first, then the accounts that may claim

def showStatus : Status → String
  | .active => "A" | .inactive => "I" | .paused => "P" | .jailed => "J"

def run (d : D) (op : Op) : D × String :=
  match Sekai.Stake.stepC d.p d.s (.base op) with
  | some s' => ({ d with s := s' }, "ok")
  | none => (d, "err")

def showUps (ups : List (Nat × Nat)) : String :=
  let enc := sortNat (ups.map fun u => u.1 * 10 + u.2)
  if enc.isEmpty then "-" else ",".intercalate (enc.map fun e => s!"{e / 10}:{e % 10}")

def step (d : D) (toks : List String) : D × String :=
  match toks with
  | "reset" :: rest =>
    match lookupNat rest "n" with
    | some n =>
      -- m (optional): number of observed accounts, the ones from n on have no validator record yet
      let m := (lookupNat rest "m").getD n
      ({ s := { V := fun v => decide (v < n), claimed := fun v => decide (v < n),
                status := fun v => if v < n then .active else .inactive },
         p := { d.p with nVals := n }, n := m }, "ok")
    | none => (d, "bad-op")
  | ["genesis", v, st] =>
    -- a validator that is NOT active in the imported genesis: the consensus engine is handed only the active ones
    match nat? v, (match st with | "I" => some Status.inactive | "P" => some Status.paused | "J" => some Status.jailed | "A" => some Status.active | _ => none) with
    | some v, some stt =>
      ({ d with s := { d.s with status := upd d.s.status v stt, V := upd d.s.V v (stt == .active) } }, "ok")
    | _, _ => (d, "bad-op")
  | "params" :: rest =>
    match lookupInt rest "mc", lookupInt rest "mm", lookupInt rest "rd", (lookup rest "pct").bind Dec.fromStr,
          lookupInt rest "dt", lookupNat rest "minv", lookupInt rest "ujt" with
    | some mc, some mm, some rd, some pct, some dt, some minv, some ujt =>
      ({ d with p := { d.p with mischanceConfidence := mc, maxMischance := mm, rankDecrease := rd, inactiveRankPct := pct,
                                downtimeInactive := dt, minValidators := minv, unjailMaxTime := ujt } }, "ok")
    | _, _, _, _, _, _, _ => (d, "bad-op")
  | ["claim", v] =>
    match nat? v with
    | some v => (match Sekai.Stake.stepC d.p d.s (.claim v) with
                 | some s' => ({ d with s := s' }, "ok")
                 | none => (d, "err"))
    | none => (d, "bad-op")
  | ["pause", v] => match nat? v with | some v => run d (.msgPause v) | none => (d, "bad-op")
  | ["unpause", v] => match nat? v with | some v => run d (.msgUnpause v) | none => (d, "bad-op")
  | ["kpause", v] => match nat? v with | some v => run d (.kPause v) | none => (d, "bad-op")
  | ["rankreset"] => run d .rankReset
  | ["rotate", v] =>
    -- recovery rotation of the validator's owner: validators are indexed by their consensus key here, which the rotation
    -- keeps - status, counters, queues and consensus-set membership stay as they are (refused for an account without record)
    match nat? v with
    | some v => (match rotateOwner d.s v with
                 | some s' => ({ d with s := s' }, "ok")
                 | none => (d, "err"))
    | none => (d, "bad-op")
  | ["activate", v, now] => match nat? v, int? now with | some v, some now => run d (.msgActivate v now) | _, _ => (d, "bad-op")
  | ["jail", v, now] => match nat? v, int? now with | some v, some now => run d (.jail v now) | _, _ => (d, "bad-op")
  | ["evidence", v, now, known, stale] =>
    match nat? v, int? now with
    | some v, some now => run d (.evidence v now (known == "1") (stale == "1"))
    | _, _ => (d, "bad-op")
  | ["unjail", v, now] => match nat? v, int? now with | some v, some now => run d (.unjail v now) | _, _ => (d, "bad-op")
  | ["sig", v, sg, now] =>
    match nat? v, parse01 sg, int? now with
    | some v, some sg, some now => run d (.sig v sg now)
    | _, _, _ => (d, "bad-op")
  | ["end"] =>
    let (ups, r) := endBlockC d.n d.s
    let sj := joinPending d.n d.s      -- the pending entries are records now, whatever the consensus engine says
    let nv := ((List.range d.n).filter sj.claimed).length
    let d := { d with s := sj, p := { d.p with nVals := nv } }
    match r with
    | .ok s' => ({ d with s := s' }, s!"{showUps ups} ok")
    | .error .duplicate => ({ d with s := { d.s with R := fun _ => false, A := fun _ => false } }, s!"{showUps ups} err:duplicate")
    | .error .removeAbsent => ({ d with s := { d.s with R := fun _ => false, A := fun _ => false } }, s!"{showUps ups} err:remove-absent")
    | .error .emptySet => ({ d with s := { d.s with R := fun _ => false, A := fun _ => false } }, s!"{showUps ups} err:empty")
  | ["obs"] =>
    let vs := (List.range d.n).map fun v =>
      if !d.s.claimed v then (if d.s.P v then s!"{v}:pending" else s!"{v}:-") else
      s!"{v}:{showStatus (d.s.status v)}:{d.s.rank v}:{d.s.streak v}:{d.s.mischance v}:{d.s.conf v}"
    let q := fun (f : Nat → Bool) => showNatList ((List.range d.n).filter f)
    (d, s!"{" ".intercalate vs} R={q d.s.R} A={q d.s.A} V={q d.s.V}")
  | _ => (d, "bad-op")

end Sekai.Driver.Stake
