import Sekai.Driver.Spend
/-! line protocol for the collectives model (domain `coll`), on the state shared with `spend` -/
namespace Sekai.Driver.Collect
open Sekai.Spend Sekai.Util Sekai.Driver.Spend

def view (st : St) : Collect.State :=
  { sp := st.sp, colls := st.colls, contribs := st.contribs, maxOutputs := st.maxOutputs, minClaimPeriod := st.minClaimPeriod,
    minBond := st.minBond, feeRate := fun d => st.feeRates.lookup d,
    rewards := fun a => match st.crewards.lookup a with | some l => Amt.ofList l | none => Amt.zero,
    minBondingTime := st.minBondingTime }
def back (st : St) (c : Collect.State) : St :=
  { st with sp := c.sp, colls := c.colls, contribs := c.contribs,
            crewards := st.crewards.map (fun e => (e.1, (c.sp.voc.map (fun d => (d, c.rewards e.1 d))).filter (fun x => x.2 != 0))) }

def apply (st : St) (r : Except Err Collect.State) : St × String :=
  match r with
  | .ok s => (back st s, "ok")
  | .error .err => (st, "err")
  | .error .panic => (st, "panic")

def cid (st : St) (n : String) : St × Nat :=
  let (names, id) := internName st.cnames n
  ({ st with cnames := names }, id)

def step (st : St) (toks : List String) : St × String :=
  match toks with
  | "props" :: rest =>
    match lookupNat rest "maxout", lookupNat rest "minperiod", lookupNat rest "minbond" with
    | some a, some b, some c => ({ st with maxOutputs := a, minClaimPeriod := b, minBond := c, minBondingTime := (lookupNat rest "minbt").getD st.minBondingTime }, "ok")
    | _, _, _ => (st, "bad-op")
  | "rate" :: rest =>
    match lookupNat rest "d", lookupInt rest "r" with
    | some d, some r => ({ st with feeRates := (d, r) :: st.feeRates }, "ok")
    | _, _ => (st, "bad-op")
  | "create" :: rest =>
    match lookup rest "name", lookupNat rest "a", (lookup rest "bonds").bind coins?, lookupNat rest "npools", lookupNat rest "cp",
          (lookup rest "any").bind parse01, (lookup rest "dr").bind natList?, (lookup rest "da").bind natList? with
    | some n, some a, some bonds, some np, some cp, some any, some dr, some da =>
      let (st, id) := cid st n
      -- optional: the weighted spending pools by name (`pools=rich:500000000000000000,…`), claim window and block time
      let plist : List (String × Int) := match lookup rest "pools" with
        | some ps => if ps == "-" then [] else (ps.splitOn ",").filterMap (fun t => match t.splitOn ":" with
            | [n, w] => (int? w).map (fun w => (n, w))
            | _ => none)
        | none => []
      let (st, pools) := plist.foldl (fun (acc : St × List (Nat × Int)) e =>
          let (names, pid) := internName acc.1.names e.1
          ({ acc.1 with names := names }, acc.2 ++ [(pid, e.2)])) (st, [])
      let cs := (lookupNat rest "cs").getD 0
      let ce := (lookupNat rest "ce").getD 0
      let t0 := (lookupNat rest "t").getD 0
      let args : Collect.CreateArgs :=
        { nPools := np, claimPeriod := cp, depAny := any, depRoles := dr, depAccounts := da, pools := pools, claimStart := cs, claimEnd := ce, now := t0 }
      apply st (Collect.create (view st) a id bonds args)
    | _, _, _, _, _, _, _, _ => (st, "bad-op")
  | "bond" :: rest =>
    match lookup rest "name", lookupNat rest "a", (lookup rest "bonds").bind coins? with
    | some n, some a, some bonds => let (st, id) := cid st n; apply st (Collect.bond (view st) a id bonds)
    | _, _, _ => (st, "bad-op")
  | "donate" :: rest =>
    match lookup rest "name", lookupNat rest "a", lookupNat rest "lock", lookupInt rest "don", (lookup rest "dlock").bind parse01, lookupNat rest "t" with
    | some n, some a, some l, some d, some dl, some t => let (st, id) := cid st n; apply st (Collect.donate (view st) a id l d dl t)
    | _, _, _, _, _, _ => (st, "bad-op")
  | "withdraw" :: rest =>
    match lookup rest "name", lookupNat rest "a", lookupNat rest "t" with
    | some n, some a, some t => let (st, id) := cid st n; apply st (Collect.withdraw (view st) a id t)
    | _, _, _ => (st, "bad-op")
  | "senddonation" :: rest =>
    match lookup rest "name", lookupNat rest "to", (lookup rest "coins").bind coins? with
    | some n, some a, some cs => let (st, id) := cid st n; apply st (Collect.sendDonation (view st) id a cs)
    | _, _, _ => (st, "bad-op")
  | "setdon" :: rest =>     -- test set-up: credit the donations record and fund the module account from `a` (the code never does)
    match lookup rest "name", lookupNat rest "a", (lookup rest "coins").bind coins? with
    | some n, some a, some cs =>
      let (st, id) := cid st n
      match Collect.findColl st.colls id, st.sp.bank.send a COLL cs with
      | some c, .ok bank' =>
        ({ st with colls := Collect.setColl st.colls { c with donations := Amt.add c.donations (Amt.ofList cs) },
                   sp := { st.sp with bank := bank' } }, "ok")
      | _, _ => (st, "err")
    | _, _, _ => (st, "bad-op")
  | "reward" :: rest =>     -- test set-up: x/multistaking records rewards for an account of the collective; `from` funds the fee collector
    match lookup rest "name", lookup rest "side", lookupNat rest "from", (lookup rest "coins").bind coins? with
    | some n, some side, some a, some cs =>
      let (st, id) := cid st n
      let addr := if side == "d" then Collect.donAddr id else Collect.collAddr id
      match st.sp.bank.send a Collect.FEE cs with
      | .ok bank' => ({ st with sp := { st.sp with bank := bank' }, crewards := (addr, cs) :: st.crewards.filter (fun e => e.1 != addr) }, "ok")
      | .error _ => (st, "err")
    | _, _, _, _ => (st, "bad-op")
  | "endblock" :: rest =>
    match lookupNat rest "t" with
    | some t => apply st (Collect.endBlock (view st) t)
    | none => (st, "bad-op")
  | ["obs", "fee"] => (st, showAmt st.sp.voc (st.sp.bank Collect.FEE))
  | "obs" :: "c" :: rest =>
    match lookup rest "name" with
    | some n => match (nameId st.cnames n).bind (Collect.findColl st.colls) with
      | some c => (st, s!"status={c.status} bonds={showAmt st.sp.voc c.bonds} donations={showAmt st.sp.voc c.donations} " ++
                        s!"acc={showAmt st.sp.voc (st.sp.bank (Collect.collAddr c.name))} don={showAmt st.sp.voc (st.sp.bank (Collect.donAddr c.name))}")
      | none => (st, "none")
    | none => (st, "bad-op")
  | "obs" :: "cc" :: rest =>
    match lookup rest "name", lookupNat rest "a" with
    | some n, some a => match (nameId st.cnames n).bind (fun id => Collect.findContrib st.contribs id a) with
      | some c => (st, s!"bonds={showAmt st.sp.voc c.bonds} lock={c.locking} don={c.donation} dlock={bool01 c.donationLock}")
      | none => (st, "none")
    | _, _ => (st, "bad-op")
  | ["obs", "mod"] => (st, showAmt st.sp.voc (st.sp.bank COLL))
  | _ => (st, "bad-op")

end Sekai.Driver.Collect
