import Sekai.Base.Util
import Sekai.Model.Ident
/-! line protocol for the identity-registrar model (domain `ident`) -/
namespace Sekai.Driver.Ident
open Sekai.Ident Sekai.Util

/-- the model state plus a stack of saved states (`push` / `pop`: exhaustive small-scope enumeration on branches) -/
structure St where
  cur : Sekai.Ident.State := {}
  stack : List Sekai.Ident.State := []

def insertBy {α : Type} (lt : α → α → Bool) (x : α) : List α → List α
  | [] => [x]
  | y :: ys => if lt y x then y :: insertBy lt x ys else x :: y :: ys
def sortBy {α : Type} (lt : α → α → Bool) (l : List α) : List α := l.foldr (insertBy lt) []

def join (sep : String) (l : List String) : String := if l.isEmpty then "-" else sep.intercalate l

def showRec (r : Record) : String :=
  s!"{r.id}:{r.addr}:{encS r.key}:{encS r.value}:{r.date}:{showNatList r.verifiers}"

def showReq (q : Request) : String :=
  s!"{q.id}:{q.addr}:{q.verifier}:{showNatList q.recordIds}:{q.denom}:{q.amount}:{q.lastEdit}"

def showPairs (l : List (Nat × Nat)) : String :=
  join ";" ((sortBy (fun a b => a.1 < b.1 || (a.1 == b.1 && a.2 < b.2)) l).map fun p => s!"{p.1}:{p.2}")

/-- canonical dump of everything the implementation exposes -/
def obs (S : Sekai.Ident.State) (accs : List Nat) : String :=
  let recs := join ";" ((sortBy (fun a b => a.id < b.id) S.records).map showRec)
  let idx := join ";" ((sortBy (fun (a b : IdxEntry) => a.addr < b.addr || (a.addr == b.addr && a.key < b.key)) S.idx).map
    fun e => s!"{e.addr}:{encS e.key}:{e.id}")
  let reqs := join ";" ((sortBy (fun a b => a.id < b.id) S.reqs).map showReq)
  let bals := join ";" (accs.map fun a => s!"{a}:{balGet S a 0}:{balGet S a 1}")
  s!"recs={recs} idx={idx} lastrec={S.lastRecordId} reqs={reqs} byreq={showPairs S.byReq} byapp={showPairs S.byApp} lastreq={S.lastReqId} gov={escrowGet S 0}:{escrowGet S 1} bal={bals} keys={encS S.uniqueKeys} mintip={S.minTip} uniq={bool01 (uniqB S)} esc={bool01 (escrowB S)}"

def parseInfos : List String → Option (List Info)
  | [] => some []
  | k :: v :: rest => (parseInfos rest).map (fun l => ⟨decS k, decS v⟩ :: l)
  | _ => none

def addTo (l : List Nat) (a : Nat) : List Nat := if l.contains a then l else a :: l

def run1 (S : Sekai.Ident.State) (o : Op) : Sekai.Ident.State × String :=
  match apply S o with
  | some S' => (S', "ok")
  | none => (S, "err")

def stepCur (S : Sekai.Ident.State) (toks : List String) : Sekai.Ident.State × String :=
  match toks with
  | ["reset"] => ({}, "ok")
  | ["init-bal", a, d, n] =>
    match nat? a, nat? d, nat? n with
    | some a, some d, some n => (balSet S a d n, "ok")
    | _, _, _ => (S, "bad-op")
  | ["init-escrow", d, n] =>
    match nat? d, nat? n with
    | some d, some n => (escrowSet S d n, "ok")
    | _, _ => (S, "bad-op")
  | ["gentx", ids, counter] =>
    -- a genesis file holding records with these ids and this counter, run through gentx-claim: counter and largest id after
    match natList? ids, nat? counter with
    | some ids, some c =>
      let S0 : Sekai.Ident.State := { records := ids.map fun i => { id := i, addr := 100 + i, key := "username", value := "u", date := 0, verifiers := [] }, lastRecordId := c }
      let S1 := Sekai.Ident.gentxClaim S0 7 "genesisval" 0
      (S, s!"counter={S1.lastRecordId} max={S1.records.foldl (fun m r => max m r.id) 0} n={S1.records.length}")
    | _, _ => (S, "bad-op")
  | ["hardfork", nrec, recCtr, nreq, reqCtr] =>
    -- new-genesis-from-exported: the identity part of the exported state passes through unchanged (the model of the tool is the identity on it)
    match nat? nrec, nat? recCtr, nat? nreq, nat? reqCtr with
    | some nrec, some rc, some nreq, some qc => (S, s!"records={nrec} counter={rc} requests={nreq} counter={qc}")
    | _, _, _, _ => (S, "bad-op")
  | ["init-keys", ks] => ({ S with uniqueKeys := decS ks }, "ok")
  | ["grant", what, a] =>
    match nat? a with
    | some a =>
      if what == "val" then ({ S with permVal := addTo S.permVal a }, "ok")
      else if what == "council" then
        -- AddWhitelistPermission(PermClaimCouncilor) also creates a waiting councilor record
        ({ S with permCouncil := addTo S.permCouncil a, councilors := addTo S.councilors a }, "ok")
      else if what == "props" then ({ S with permProps := addTo S.permProps a }, "ok")
      else if what == "validator" then ({ S with validators := addTo S.validators a }, "ok")
      else if what == "acc" then ({ S with accs := addTo S.accs a }, "ok")
      else if what == "secret" then ({ S with secrets := addTo S.secrets a }, "ok")
      else (S, "bad-op")
    | none => (S, "bad-op")
  | ["time", t] =>
    match nat? t with
    | some t => run1 S (.time t)
    | none => (S, "bad-op")
  | "register" :: a :: rest =>
    match nat? a, parseInfos rest with
    | some a, some infos => run1 S (.register a infos)
    | _, _ => (S, "bad-op")
  | "delete" :: a :: keys =>
    match nat? a with
    | some a => run1 S (.delete a (keys.map decS))
    | none => (S, "bad-op")
  | ["request", a, v, ids, d, n] =>
    match nat? a, nat? v, natList? ids, nat? d, nat? n with
    | some a, some v, some ids, some d, some n =>
      match apply S (.request a v ids d n) with
      | some S' => (S', s!"ok {S'.lastReqId}")
      | none => (S, "err")
    | _, _, _, _, _ => (S, "bad-op")
  | ["handle", v, id, yes] =>
    match nat? v, nat? id, parse01 yes with
    | some v, some id, some yes => run1 S (.handle v id yes)
    | _, _, _ => (S, "bad-op")
  | ["cancel", a, id] =>
    match nat? a, nat? id with
    | some a, some id => run1 S (.cancel a id)
    | _, _ => (S, "bad-op")
  | ["claimval", a, m] =>
    match nat? a with
    | some a => run1 S (.claimVal a (decS m))
    | none => (S, "bad-op")
  | "claimcouncil" :: a :: fields =>
    match nat? a with
    | some a => run1 S (.claimCouncil a (fields.map decS))
    | none => (S, "bad-op")
  | ["setkeys-single", ks] => run1 S (.setKeysSingle (decS ks))
  | ["setkeys-whole", a, ks] =>
    match nat? a with
    | some a => run1 S (.setKeysWhole a (decS ks))
    | none => (S, "bad-op")
  | ["setmintip", n] =>
    match nat? n with
    | some n => run1 S (.setMinTip n)
    | none => (S, "bad-op")
  | ["rotate", p, o, n, ok] =>
    match nat? p, nat? o, nat? n, parse01 ok with
    | some p, some o, some n, some ok => run1 S (.rotate p o n ok)
    | _, _, _, _ => (S, "bad-op")
  | ["reimport"] =>
    match reimport S with
    | some S' => (S', "ok")
    | none => (S, "panic")
  | ["obs", accs] =>
    match natList? accs with
    | some accs => (S, obs S accs)
    | none => (S, "bad-op")
  | _ => (S, "bad-op")

def step (st : St) (toks : List String) : St × String :=
  match toks with
  | ["push"] => ({ st with stack := st.cur :: st.stack }, "ok")
  | ["pop"] =>
    match st.stack with
    | s :: rest => ({ cur := s, stack := rest }, "ok")
    | [] => (st, "bad-op")
  | ["reset"] => ({}, "ok")
  | _ => let (s, o) := stepCur st.cur toks; ({ st with cur := s }, o)

end Sekai.Driver.Ident
