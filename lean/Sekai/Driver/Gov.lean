import Sekai.Model.Gov
import Sekai.Model.Perm
import Sekai.Base.F32
/-! line protocol for the governance lifecycle (domain `gov`); voter sets and permissions come from the `perm` domain's state -/
namespace Sekai.Driver.Gov
open Sekai.Gov Sekai.Util

def tallyOfF32 : Sekai.F32.Res → Tally
  | .passed => .passed | .rejected => .rejected | .rejectedWithVeto => .rejectedWithVeto | .unknown => .unknown
def tallyF32 (yes no abstain veto actorsWithVeto total : Nat) : Tally :=
  tallyOfF32 (Sekai.F32.processResult yes no abstain veto actorsWithVeto total)

def showRes : Res → String
  | .unknown => "unknown" | .passed => "passed" | .rejected => "rejected" | .rejectedWithVeto => "veto"
  | .pending => "pending" | .quorumNotReached => "noquorum" | .enactment => "enactment" | .passedWithExecFail => "execfail"

def showExec : Option Bool → String
  | none => "-" | some true => "ok" | some false => "failed"

def obs (s : St) : String :=
  let ps := s.proposals.map fun p => s!"{p.id}:{showRes p.result}:{showExec p.exec}:{p.minEnactH}"
  let vs := (sortNat (s.votes.map fun v => v.pid * 1000000 + v.voter * 10 + v.option)).map toString
  s!"props={if ps.isEmpty then "-" else ",".intercalate ps} active={showNatList (sortNat s.active)} enact={showNatList (sortNat s.enact)} votes={if vs.isEmpty then "-" else ",".intercalate vs} applied={showNatList (sortNat (s.log.map (·.pid)))}"

def step (P : Sekai.Perm.St) (s : St) (toks : List String) : St × String :=
  match toks with
  | ["reset"] => ({}, "ok")
  | "submit" :: rest =>
    match lookupNat rest "vp", lookupNat rest "content", lookupNat rest "t", lookupNat rest "h",
          lookupNat rest "end", lookupNat rest "enact", lookupNat rest "mb", lookupNat rest "meb" with
    | some vp, some c, some t, some h, some e, some en, some mb, some meb =>
      (submit s vp c t h e en mb meb, toString s.nextId)
    | _, _, _, _, _, _, _, _ => (s, "bad-op")
  | "vote" :: rest =>
    match lookupNat rest "pid", lookupNat rest "voter", lookupNat rest "opt", lookupNat rest "t" with
    | some pid, some v, some o, some t =>
      -- actor found ∧ active: every actor of the permission model is created with status Active
      match vote s (P.actors v).isSome (fun perm => Sekai.Perm.checkAllowed P v perm) pid v o t with
      | some s' => (s', "ok")
      | none => (s, "err")
    | _, _, _, _ => (s, "bad-op")
  | "end" :: rest =>
    match lookupNat rest "t", lookupNat rest "h", (lookup rest "quorum").bind Dec.fromStr, lookupNat rest "meb",
          (lookup rest "fail").bind natList? with
    | some t, some h, some q, some meb, some failing =>
      match endBlock (Sekai.Perm.voters P) tallyF32 (fun pid => !failing.contains pid) q meb t h s with
      | some s' => (s', "ok")
      | none => (s, "panic")
    | _, _, _, _, _ => (s, "bad-op")
  | ["obs"] => (s, obs s)
  | ["tally", y, n, a, v, ac, t] =>
    match nat? y, nat? n, nat? a, nat? v, nat? ac, nat? t with
    | some y, some n, some a, some v, some ac, some t =>
      (s, match tallyF32 y n a v ac t with
          | .passed => "passed" | .rejected => "rejected" | .rejectedWithVeto => "veto" | .unknown => "unknown")
    | _, _, _, _, _, _ => (s, "bad-op")
  | "local-tally" :: rest =>
    match (lookup rest "q").bind Dec.fromStr, (lookup rest "accs").bind natList?, (lookup rest "role").bind natList?,
          lookupNat rest "y", lookupNat rest "n", lookupNat rest "a", lookupNat rest "v", lookupNat rest "o" with
    | some q, some accs, some role, some y, some n, some a, some v, some o =>
      (s, match localResult tallyF32 q accs role y n a v o with
          | none => "panic"
          | some .enactment => "enactment" | some .quorumNotReached => "noquorum" | some .rejected => "rejected"
          | some .rejectedWithVeto => "veto" | some _ => "unknown")
    | _, _, _, _, _, _, _, _ => (s, "bad-op")
  | ["quorum", q, votes, total] =>
    match Dec.fromStr q, nat? votes, nat? total with
    | some q, some v, some t =>
      (s, match isQuorum q v t with | some b => bool01 b | none => "err")
    | _, _, _ => (s, "bad-op")
  | _ => (s, "bad-op")

end Sekai.Driver.Gov
