import Sekai.Driver.Spend
/-! line protocol for the UBI model (domain `ubi`), on the state shared with `spend` -/
namespace Sekai.Driver.Ubi
open Sekai.Spend Sekai.Util Sekai.Driver.Spend

def view (st : St) : Ubi.State := { sp := st.sp, recs := st.recs, ukex := st.ukex }
def back (st : St) (u : Ubi.State) : St := { st with sp := u.sp, recs := u.recs }

def showRec (st : St) (r : Ubi.Rec) : String :=
  s!"start={r.start} end={r.stop} last={r.last} amount={r.amount} period={r.period} pool={(st.names[r.pool]?).getD "?"} dyn={bool01 r.dynamic}"

def showPaid (l : List (Nat × Nat)) : String :=
  if l.isEmpty then "-" else ",".intercalate (l.map (fun e => s!"{e.1}:{e.2}"))

def step (st : St) (toks : List String) : St × String :=
  match toks with
  | ["ukex", d] => match nat? d with
    | some d => ({ st with ukex := d }, "ok")
    | none => (st, "bad-op")
  | "set" :: rest =>
    match lookupNat rest "id", lookupNat rest "start", lookupNat rest "end", lookupNat rest "last", lookupNat rest "amount",
          lookupNat rest "period", lookup rest "pool", (lookup rest "dyn").bind parse01 with
    | some id, some s, some e, some l, some a, some p, some pool, some dyn =>
      let (names, pid) := internName st.names pool
      ({ st with names := names,
                 recs := Ubi.setRec st.recs { name := id, start := s, stop := e, last := l, amount := a, period := p, pool := pid, dynamic := dyn } }, "ok")
    | _, _, _, _, _, _, _, _ => (st, "bad-op")
  | "del" :: rest =>
    match lookupNat rest "id" with
    | some id => match Ubi.delRec st.recs id with
      | some l => ({ st with recs := l }, "ok")
      | none => (st, "err")
    | none => (st, "bad-op")
  | "endblock" :: rest =>
    -- room=<n>: what may still be minted before InflationPossible turns false; room=inf: the gate cannot close
    let room? : Option (Option Nat) := match lookup rest "room" with
      | some "inf" => some none
      | some x => (nat? x).map some
      | none => none
    match lookupNat rest "t", room? with
    | some t, some room =>
      match Ubi.endBlock (view st) t room with
      | .ok (u, paid) => (back st u, "ok " ++ toString ((paid.map (·.2)).foldl (· + ·) 0))
      | .error .err => (st, "err")
      | .error .panic => (st, "panic")
    | _, _ => (st, "bad-op")
  | "obs" :: rest =>
    match lookupNat rest "id" with
    | some id => match st.recs.find? (fun r => r.name == id) with
      | some r => (st, showRec st r)
      | none => (st, "none")
    | none => (st, "bad-op")
  | _ => (st, "bad-op")

end Sekai.Driver.Ubi
