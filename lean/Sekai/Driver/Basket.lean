import Sekai.Model.Basket
/-! line protocol for the basket model (domain `basket`); see `harness/c11.go` for the Go side -/
namespace Sekai.Driver.Basket
open Sekai.Basket Sekai.Util

abbrev St := Sekai.Basket.St

def acct? (s : String) : Option Acct :=
  if s == "m" then some .module else (nat? s).map Acct.user

/-- `denom:amount` -/
def coin? (s : String) : Option Coin :=
  match s.splitOn ":" with
  | [d, a] => (int? a).map (fun n => ⟨d, n⟩)
  | _ => none

/-- `denom:amount,denom:amount` ; `-` is the empty list -/
def coins? (s : String) : Option Coins :=
  if s == "-" then some [] else (s.splitOn ",").mapM coin?

/-- `denom:amount>outDenom` -/
def pair? (s : String) : Option (Coin × Denom) :=
  match s.splitOn ">" with
  | [c, o] => (coin? c).map (fun c => (c, o))
  | _ => none

def pairs? (s : String) : Option (List (Coin × Denom)) :=
  if s == "-" then some [] else (s.splitOn ",").mapM pair?

/-- `denom:weight:amount:dep:wd:sw` -/
def token? (s : String) : Option Token :=
  match s.splitOn ":" with
  | [d, w, a, dp, wd, sw] =>
    match int? w, int? a, parse01 dp, parse01 wd, parse01 sw with
    | some w, some a, some dp, some wd, some sw => some ⟨d, w, a, dp, wd, sw⟩
    | _, _, _, _, _ => none
  | _ => none

def tokens? (s : String) : Option (List Token) :=
  if s == "-" then some [] else (s.splitOn ";").mapM token?

def cfg? (toks : List String) : Option Basket := do
  let id := (lookupNat toks "id").getD 0
  let suffix ← lookup toks "suffix"
  let amount ← lookupInt toks "amount"
  let fee ← lookupInt toks "fee"
  let slip ← lookupInt toks "slip"
  let cap ← lookupInt toks "cap"
  let period ← lookupNat toks "period"
  let mmin ← lookupInt toks "mmin"
  let mmax ← lookupInt toks "mmax"
  let bmin ← lookupInt toks "bmin"
  let bmax ← lookupInt toks "bmax"
  let smin ← lookupInt toks "smin"
  let smax ← lookupInt toks "smax"
  let md ← (lookup toks "md").bind parse01
  let bd ← (lookup toks "bd").bind parse01
  let sd ← (lookup toks "sd").bind parse01
  let tokens ← (lookup toks "tokens").bind tokens?
  pure { id := id, suffix := decS suffix, amount := amount, swapFee := fee, slippageFeeMin := slip, tokensCap := cap,
         limitsPeriod := period, mintsMin := mmin, mintsMax := mmax, mintsDisabled := md,
         burnsMin := bmin, burnsMax := bmax, burnsDisabled := bd, swapsMin := smin, swapsMax := smax,
         swapsDisabled := sd, tokens := tokens, surplus := [] }

def insertStr (x : String) : List String → List String
  | [] => [x]
  | y :: ys => if x < y then x :: y :: ys else if x = y then y :: ys else y :: insertStr x ys
def sortDedup (l : List String) : List String := l.foldr insertStr []

def showCoins (cs : Coins) : String :=
  if cs.isEmpty then "-" else ",".intercalate (cs.map fun c => s!"{c.denom}:{c.amount}")

def showTokens (ts : List Token) : String :=
  if ts.isEmpty then "-" else
  ";".intercalate (ts.map fun t => s!"{t.denom}:{t.weight}:{t.amount}:{bool01 t.deposits}:{bool01 t.withdraws}:{bool01 t.swaps}")

def showBals (bank : Bank) (a : Acct) (ds : List String) : String :=
  ",".intercalate (ds.map fun d => s!"{d}:{bank.balOf a d}")

def obs (s : St) (id : Nat) (accs : List Nat) : String :=
  match getBasket s.baskets id with
  | none => "none"
  | some b =>
    let ds := sortDedup (b.denom :: b.tokens.map (·.denom))
    let accPart := " ".intercalate (accs.map fun i => s!"a{i}={showBals s.bank (.user i) ds}")
    s!"amount={b.amount} supply={s.bank.supplyOf b.denom} flags={bool01 b.mintsDisabled}{bool01 b.burnsDisabled}{bool01 b.swapsDisabled} tokens={showTokens b.tokens} surplus={showCoins b.surplus} mod={showBals s.bank .module ds} {accPart}"

def res (s : St) (r : Option St) : St × String :=
  match r with
  | some s' => (s', "ok")
  | none => (s, "err")

def step (s : St) (toks : List String) : St × String :=
  match toks with
  | ["reset"] => ({}, "ok")
  | ["endblock"] => (endBlock s, "ok")
  | ["time", t] =>
    match nat? t with
    | some t => ({ s with now := t }, "ok")
    | none => (s, "bad-op")
  | ["setbal", a, cs] =>
    match (lookup [a] "a").bind acct?, coins? cs with
    | some a, some cs =>
      ({ s with bank := { s.bank with bal := cs.foldl (fun m c => m.set (a, c.denom) c.amount) s.bank.bal } }, "ok")
    | _, _ => (s, "bad-op")
  | "create" :: rest =>
    match cfg? rest with
    | some cfg =>
      match create s cfg with
      | some s' => (s', s!"ok {s'.lastId}")
      | none => (s, "err")
    | none => (s, "bad-op")
  | "edit" :: rest =>
    match cfg? rest with
    | some cfg => res s (edit s cfg)
    | none => (s, "bad-op")
  | "disable" :: rest =>
    match (lookup rest "allowed").bind parse01, lookupNat rest "kind", lookupNat rest "id" with
    | some al, some k, some id => res s (disable s al k id)
    | _, _, _ => (s, "bad-op")
  | ["mint", a, id, cs] =>
    match (lookup [a] "a").bind acct?, lookupNat [id] "id", coins? cs with
    | some a, some id, some cs => res s (mint s a id cs)
    | _, _, _ => (s, "bad-op")
  | ["burn", a, id, c] =>
    match (lookup [a] "a").bind acct?, lookupNat [id] "id", coin? c with
    | some a, some id, some c => res s (burn s a id c)
    | _, _, _ => (s, "bad-op")
  | ["l2issue", a, c] =>
    match (lookup [a] "a").bind acct?, coin? c with
    | some a, some c => res s (l2Issue s a c)
    | _, _ => (s, "bad-op")
  | ["l2burn", a, c] =>
    match (lookup [a] "a").bind acct?, coin? c with
    | some a, some c => res s (l2Burn s a c)
    | _, _ => (s, "bad-op")
  | ["swap", a, id, ps] =>
    match (lookup [a] "a").bind acct?, lookupNat [id] "id", pairs? ps with
    | some a, some id, some ps => res s (swap s a id ps)
    | _, _, _ => (s, "bad-op")
  | ["modrewards", cs] =>     -- x/multistaking records rewards for the basket module account
    match coins? cs with
    | some cs => ({ s with modRewards := cs }, "ok")
    | none => (s, "bad-op")
  | ["withdraw-surplus", t, ids] =>
    match (lookup [t] "to").bind acct?, (lookup [ids] "ids").bind natList? with
    | some t, some ids => res s (withdrawSurplusAll s t ids)
    | _, _ => (s, "bad-op")
  | ["obs", id, accs] =>
    match lookupNat [id] "id", (lookup [accs] "acc").bind natList? with
    | some id, some accs => (s, obs s id accs)
    | _, _ => (s, "bad-op")
  | ["limits", id] =>
    match lookupNat [id] "id" with
    | some id =>
      match getBasket s.baskets id with
      | some b =>
        (s, s!"mint={periodSum id s.now b.limitsPeriod s.mintH} burn={periodSum id s.now b.limitsPeriod s.burnH} swap={periodSum id s.now b.limitsPeriod s.swapH}")
      | none => (s, "none")
    | none => (s, "bad-op")
  | _ => (s, "bad-op")

end Sekai.Driver.Basket
