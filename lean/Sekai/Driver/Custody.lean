import Sekai.Base.Util
import Sekai.Model.Custody
/-! line protocol for the custody model (domain `custody`)

```
custody reset n=<accounts> ukex=<bal> ueth=<bal> minreward=<n>
custody tx s=<signer> fee=<n> t=<unix> <msg> [; <msg>]…          → ok | err:<class>
custody setstatus a=<acct> d=<denom> amt=<n> time=<n>              (keeper-level injection of a limit status)
custody obs <acct>                                                 → canonical dump of everything about <acct>
```
message tokens: `create en= mode= pw= wl= lim= old= new= next= target=` · `disable|drop|dropcust|dropwl|droplim old= new= next=
target=` · `addcust|addwl add=a,b …` · `rmcust|rmwl rm=a …` · `addlim d= amt= ms= …` · `rmlim d= …` ·
`send to= amt=d:n,… pw= rw=d:n,… h=<id>` · `approve|decline tg= h=<id>.<variant>` · `confirm sd= h= pw=` ·
`banksend|multisend to= amt=`.  Keys: `old=<n>` plaintext id, `new=H<n>|R<n>`; strings: `~` empty, `a<n>` address, `j<n>` junk. -/
namespace Sekai.Driver.Custody
open Sekai.Custody Sekai.Util

structure St where
  s : State := {}
  n : Nat := 0

def parseKey (t : String) : Option Key :=
  if t.startsWith "H" then (nat? (t.drop 1).toString).map Key.H
  else if t.startsWith "R" then (nat? (t.drop 1).toString).map Key.raw
  else none

def showKey : Key → String
  | .H k => s!"H{k}"
  | .raw n => s!"R{n}"

def parseT (t : String) : Option TStr :=
  if t == "~" then some .empty
  else if t.startsWith "a" then (nat? (t.drop 1).toString).map TStr.addr
  else if t.startsWith "j" then (nat? (t.drop 1).toString).map TStr.junk
  else none

def showT : TStr → String
  | .empty => "~"
  | .addr a => s!"a{a}"
  | .junk n => s!"j{n}"

def parseCoins (t : String) : Option Coins :=
  if t == "-" then some [] else
  (t.splitOn ",").mapM fun c =>
    match c.splitOn ":" with
    | [d, n] => match nat? d, nat? n with
      | some d, some n => some (d, n)
      | _, _ => none
    | _ => none

def showCoins (c : Coins) : String :=
  if c.isEmpty then "-" else ",".intercalate (c.map fun x => s!"{x.1}:{x.2}")

def parseHash (t : String) : Option HashStr :=
  match t.splitOn "." with
  | [i, v] => match nat? i, nat? v with
    | some i, some v => some ⟨i, v⟩
    | _, _ => none
  | _ => none

def keyArgs (toks : List String) : Option KeyArgs := do
  let old ← lookupNat toks "old"
  let new ← match lookup toks "new" with | some t => parseKey t | none => some (.raw 0)
  let next ← match lookup toks "next" with | some t => parseT t | none => some .empty
  let target ← (lookup toks "target").bind parseT
  pure ⟨old, new, next, target⟩

def b01 (toks : List String) (k : String) : Option Bool := (lookup toks k).bind parse01

def parseMsg (signer : Addr) (toks : List String) : Option Msg :=
  match toks with
  | "create" :: r => do
    let k ← keyArgs r
    let set : Settings := { enabled := ← b01 r "en", mode := ← lookupNat r "mode", usePassword := ← b01 r "pw",
                            useWhiteList := ← b01 r "wl", useLimits := ← b01 r "lim" }
    pure (.create signer set k)
  | "disable" :: r => (keyArgs r).map (.disable signer)
  | "drop" :: r => (keyArgs r).map (.drop signer)
  | "addcust" :: r => do pure (.addCust signer (← (lookup r "add").bind natList?) (← keyArgs r))
  | "rmcust" :: r => do pure (.rmCust signer (← lookupNat r "rm") (← keyArgs r))
  | "dropcust" :: r => (keyArgs r).map (.dropCust signer)
  | "addwl" :: r => do pure (.addWl signer (← (lookup r "add").bind natList?) (← keyArgs r))
  | "rmwl" :: r => do pure (.rmWl signer (← lookupNat r "rm") (← keyArgs r))
  | "dropwl" :: r => (keyArgs r).map (.dropWl signer)
  | "addlim" :: r => do pure (.addLim signer (← lookupNat r "d") (← lookupNat r "amt") (← lookupNat r "ms") (← keyArgs r))
  | "rmlim" :: r => do pure (.rmLim signer (← lookupNat r "d") (← keyArgs r))
  | "droplim" :: r => (keyArgs r).map (.dropLim signer)
  | "send" :: r => do
    pure (.send signer (← lookupNat r "to") (← (lookup r "amt").bind parseCoins) (← lookupNat r "pw")
            (← (lookup r "rw").bind parseCoins) (← lookupNat r "h"))
  | "approve" :: r => do pure (.approve signer (← lookupNat r "tg") (← (lookup r "h").bind parseHash))
  | "decline" :: r => do pure (.decline signer (← lookupNat r "tg") (← (lookup r "h").bind parseHash))
  | "confirm" :: r => do pure (.confirm signer (← lookupNat r "sd") (← (lookup r "h").bind parseHash) (← lookupNat r "pw"))
  | "banksend" :: r => do pure (.bankSend signer (← lookupNat r "to") (← (lookup r "amt").bind parseCoins))
  | "multisend" :: r => do pure (.multiSend signer (← lookupNat r "to") (← (lookup r "amt").bind parseCoins))
  | _ => none

/-- split a token list at the token ";" -/
def splitMsgs : List String → List (List String)
  | [] => [[]]
  | t :: r =>
    match splitMsgs r with
    | [] => [[t]]
    | g :: gs => if t == ";" then [] :: g :: gs else (t :: g) :: gs

def showErr : Err → String
  | .basic => "basic" | .wrongKey => "wrongkey" | .target => "target" | .invType => "type" | .reward => "reward"
  | .conflict => "conflict" | .notWl => "notwl" | .limits => "limits" | .noList => "nolist" | .noElem => "noelem"
  | .funds => "funds" | .panic => "panic"

/-- insertion sort with an explicit order (canonical output) -/
def insertBy {α : Type} (lt : α → α → Bool) (x : α) : List α → List α
  | [] => [x]
  | y :: ys => if lt y x then y :: insertBy lt x ys else x :: y :: ys
def sortBy {α : Type} (lt : α → α → Bool) (l : List α) : List α := l.foldr (insertBy lt) []

def showOpt {α : Type} (o : Option (List α)) (f : α → String) : String :=
  match o with
  | none => "-"
  | some [] => "e"
  | some l => ",".intercalate (l.map f)

def showSettings : Option Settings → String
  | none => "-"
  | some st => s!"{bool01 st.enabled},{st.mode},{bool01 st.usePassword},{bool01 st.useWhiteList},{bool01 st.useLimits},{showKey st.key},{showT st.next}"

def showRec (x : Nat × TxRec) : String :=
  let r := x.2
  s!"{x.1}:{r.frm}>{r.to}:{showCoins r.amount}:{r.password}:{showCoins r.reward}:v{r.votes}:c{bool01 r.confirmed}"

def voteLt (a b : VoteKey × Int) : Bool :=
  a.1.voter < b.1.voter || (a.1.voter == b.1.voter && (a.1.hash.id < b.1.hash.id ||
    (a.1.hash.id == b.1.hash.id && a.1.hash.variant < b.1.hash.variant)))

def obs (s : State) (a : Addr) : String :=
  let byKey {β : Type} (l : List (Nat × β)) := sortBy (fun x y => x.1 < y.1) l
  let cust := showOpt ((s.custodians a).map byKey) (fun x => s!"{x.1}:{bool01 x.2}")
  let wl := showOpt ((s.whitelist a).map byKey) (fun x => s!"{x.1}:{bool01 x.2}")
  let lim := showOpt ((s.limits a).map byKey) (fun x => s!"{x.1}:{x.2.amount}:{x.2.ms}")
  let st := showOpt ((s.status a).map byKey) (fun x => s!"{x.1}:{x.2.amount}:{x.2.time}")
  let pool := match (s.pool a).map byKey with
    | none => "-" | some [] => "e" | some l => ";".intercalate (l.map showRec)
  let vs := sortBy voteLt (s.votes.filter (fun v => v.1.target == a))
  let votes := if vs.isEmpty then "-" else ",".intercalate (vs.map fun v => s!"{v.1.voter}:{v.1.hash.id}.{v.1.hash.variant}:{v.2}")
  s!"set={showSettings (s.settings a)} cust={cust} wl={wl} lim={lim} st={st} pool={pool} votes={votes} bal={s.bal a 0},{s.bal a 1}"

def step (st : St) (toks : List String) : St × String :=
  match toks with
  | "reset" :: r =>
    match lookupNat r "n", lookupNat r "ukex", lookupNat r "ueth", lookupNat r "minreward" with
    | some n, some u, some e, some mr =>
      ({ s := { minReward := mr, bal := fun a d => if a < n then (if d = 0 then u else if d = 1 then e else 0) else 0 }, n := n }, "ok")
    | _, _, _, _ => (st, "bad-op")
  | "tx" :: h1 :: h2 :: h3 :: body =>
    let r := [h1, h2, h3]
    match lookupNat r "s", lookupNat r "fee", lookupInt r "t" with
    | some signer, some fee, some t =>
      -- a message may carry `u=<account>`: its own signer in a transaction signed by several accounts (the first
      -- signer `s` pays the fee; the decorator looks every message up under the message's own first signer)
      match (splitMsgs body).mapM (fun toks => parseMsg (match lookupNat toks "u" with | some u => u | none => signer) toks) with
      | some msgs =>
        let (s', res) := runTx st.s ⟨signer, fee, t, msgs⟩
        ({ st with s := s' }, match res with | .ok => "ok" | .err e => "err:" ++ showErr e)
      | none => (st, "bad-op")
    | _, _, _ => (st, "bad-op")
  | "setstatus" :: r =>
    match lookupNat r "a", lookupNat r "d", lookupNat r "amt", lookupInt r "time" with
    | some a, some d, some amt, some time =>
      let cur := match st.s.status a with | none => [] | some l => l
      ({ st with s := { st.s with status := upd st.s.status a (some (aset cur d ⟨amt, time⟩)) } }, "ok")
    | _, _, _, _ => (st, "bad-op")
  | ["setbal", a, dn, n] =>
    match nat? a, nat? dn, nat? n with
    | some a, some dn, some n =>
      ({ st with s := { st.s with bal := fun x y => if x = a ∧ y = dn then n else st.s.bal x y } }, "ok")
    | _, _, _ => (st, "bad-op")
  | ["rotate", o, nw, p, fee] =>
    match nat? o, nat? nw, nat? p, nat? fee with
    | some o, some nw, some p, some fee =>
      (match rotate st.s o nw p fee with
       | some s' => ({ st with s := s' }, "ok")
       | none => (st, "err"))
    | _, _, _, _ => (st, "bad-op")
  | ["relay", r, k, t, amt, fee] =>
    match nat? r, nat? k, nat? t, nat? amt, nat? fee with
    | some r, some k, some t, some amt, some fee =>
      let (s', res) := relayTx st.s r k t amt fee
      ({ st with s := s' }, match res with | .ok => "ok" | .err e => "err:" ++ showErr e)
    | _, _, _, _, _ => (st, "bad-op")
  | ["obs", a] =>
    match nat? a with
    | some a => (st, obs st.s a)
    | none => (st, "bad-op")
  | _ => (st, "bad-op")

end Sekai.Driver.Custody
