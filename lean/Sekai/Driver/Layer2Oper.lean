import Sekai.Driver.Layer2
import Sekai.Model.Layer2Oper
/-! line protocol for the dApp operators (domain `l2op`), on the state of domain `l2` plus the operator list -/
namespace Sekai.Driver.Layer2Oper
open Sekai Sekai.Layer2 Sekai.Util Sekai.Driver.Layer2

def insertOper (x : Oper) : List Oper → List Oper
  | [] => [x]
  | y :: ys => if x.user ≤ y.user then x :: y :: ys else y :: insertOper x ys

def showOpers (ops : List Oper) (name : Bytes) : String :=
  let l := (ops.filter (fun o => o.dapp = name)).foldr insertOper []
  if l.isEmpty then "-" else
  ",".intercalate (l.map fun o => s!"{o.user}:{bool01 o.executor}:{bool01 o.verifier}:{o.status}:{o.bonded}")

def step (st : Sekai.Layer2.St) (ops : List Oper) (toks : List String) : Sekai.Layer2.St × List Oper × String :=
  match toks with
  | ["reset"] => (st, [], "ok")
  | "joinver" :: rest =>
    match lookupNat rest "u", lookup rest "name", (lookup rest "vbond").bind Dec.fromStr with
    | some u, some n, some vb =>
      match joinVerifier st ops u (tokB n) vb with
      | .ok (s', o') => (s', o', "ok")
      | .error e => (st, ops, e.str)
    | _, _, _ => (st, ops, "bad-op")
  | "exit" :: rest =>
    match lookupNat rest "u", lookup rest "name" with
    | some u, some n =>
      match exitDapp ops u (tokB n) with
      | .ok o' => (st, o', "ok")
      | .error e => (st, ops, e.str)
    | _, _ => (st, ops, "bad-op")
  | "resetsession" :: rest =>
    match lookup rest "name" with
    | some n =>
      match resetSession st ops (tokB n) with
      | .ok (s', o') => (s', o', "ok")
      | .error e => (st, ops, e.str)
    | none => (st, ops, "bad-op")
  | "opers" :: rest =>
    match lookup rest "name" with
    | some n => (st, ops, showOpers ops (tokB n))
    | none => (st, ops, "bad-op")
  | _ => (st, ops, "bad-op")

end Sekai.Driver.Layer2Oper
