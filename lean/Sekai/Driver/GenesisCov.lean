import Sekai.Model.GenesisCov
import Sekai.Gen.GenesisCov
/-! line protocol, domain `gencov`: `gencov key <store> <hex key>` → kept | lost | unknown (no state) -/
namespace Sekai.Driver.GenesisCov
open Sekai.GenesisCov

def mods : List Mod := Sekai.Gen.GenesisCov.cov.map ofRow

def step (toks : List String) : String :=
  match toks with
  | ["key", store, hex] =>
    match mods.find? (fun m => m.store == store), hexBytes hex.toList with
    | some m, some key =>
      match predict m key with
      | .kept => "kept" | .lost => "lost" | .unknown => "unknown"
    | none, _ => "no-such-store"
    | _, none => "bad-op"
  | ["check", store, hex, observed] =>
    -- the tie this model can carry: a record whose kind no InitGenesis writes cannot exist after the import.
    -- (A record of a written kind that does not come back is a violation of C12 itself, judged by the store-diff
    -- oracle; a key under no declared prefix is outside the model.)
    match mods.find? (fun m => m.store == store), hexBytes hex.toList with
    | some m, some key =>
      match predict m key, observed with
      | .lost, "kept" => "model-says-lost"
      | .lost, "lost" => "ok"
      | .kept, "kept" => "ok"
      | .kept, "lost" => "ok"
      | .unknown, "kept" => "ok"
      | .unknown, "lost" => "ok"
      | _, _ => "bad-op"
    | none, _ => "no-such-store"
    | _, none => "bad-op"
  | ["lostkinds", store] =>
    match mods.find? (fun m => m.store == store) with
    | some m => if (lostKinds m).isEmpty then "-" else ",".intercalate (lostKinds m)
    | none => "no-such-store"
  | _ => "bad-op"

end Sekai.Driver.GenesisCov
