import Sekai.Base.Util
import Sekai.Model.Auth
/-! line protocol for the authentication model (domain `auth`)

```
auth reset chain=<n> siglimit=<n>
auth eipclass <type> <class>                            message type → what GenEIP712SignBytesFromMsg can tell apart
auth aminoclass <type> <class>                          message type → what the LEGACY_AMINO_JSON sign doc can tell apart
auth acc <addr> <pk|-> <seq> <num>                      load one x/auth account
auth core <name> fee=<n> payer=<addr|-> memo=<n> to=<n> msgs=<m>;… infos=<i>;…    define body+authinfo of a transaction
      m = p,<type>,<content>,<addr>+<addr>…  |  x,<sender>,<nonce>,<ethchain>,<content>,<signedBy|->,<txtype>
      i = <pk|->,<d|a|o>,<seq>
auth tx <name> <sig>;…         sig = <key>,<c|e>,<payload>
      payload = D,<core>,<chain>,<accnum> | A,<core>,<chain>,<accnum>,<seq> | E,<core>,<msgidx>,<nonce>,<ethchain> | J,<n>
      answer: ok | err:<class>      (state is written only on ok — baseapp discards the ante branch otherwise)
auth obs <addr>                → seq=<n> pk=<k|-> num=<n> | none
```
addresses: `c<k>` cosmos address of key k, `e<k>` Ethereum address of key k, `o<n>` an address nobody controls. -/
namespace Sekai.Driver.Auth
open Sekai.Auth Sekai.Util

structure St where
  env : Env := { chainId := 1 }
  A : Accounts := fun _ => none
  cores : List (String × Core) := []

def addr? (s : String) : Option Addr :=
  if s.startsWith "c" then (nat? (s.drop 1).toString).map Addr.cosmos
  else if s.startsWith "e" then (nat? (s.drop 1).toString).map Addr.eth
  else if s.startsWith "o" then (nat? (s.drop 1).toString).map Addr.other
  else none

def optKey? (s : String) : Option (Option Key) :=
  if s == "-" then some none else (nat? s).map some

def splitList (s : String) (sep : String) : List String :=
  if s == "-" || s == "" then [] else s.splitOn sep

def mode? (s : String) : Option Mode :=
  if s == "d" then some .direct else if s == "a" then some .amino else if s == "o" then some (.other 0) else none

def msg? (s : String) : Option Msg :=
  match s.splitOn "," with
  | ["p", ty, content, signers] => do
    let ty ← nat? ty
    let c ← nat? content
    let ss ← (splitList signers "+").mapM addr?
    pure (.plain ty c ss)
  | ["x", sender, nonce, chain, content, by_, tt] => do
    let s ← addr? sender
    let n ← nat? nonce
    let ch ← nat? chain
    let c ← nat? content
    let k ← optKey? by_
    let tt ← nat? tt
    pure (.ethTx s ⟨n, ch, c, k⟩ tt)
  | _ => none

def info? (s : String) : Option SignerInfo :=
  match s.splitOn "," with
  | [pk, m, seq] => do
    let pk ← optKey? pk
    let m ← mode? m
    let seq ← nat? seq
    pure ⟨pk, m, seq⟩
  | _ => none

def core? (toks : List String) : Option Core := do
  let fee ← lookupNat toks "fee"
  let memo ← lookupNat toks "memo"
  let to ← lookupNat toks "to"
  let msgs ← (splitList ((lookup toks "msgs").getD "-") ";").mapM msg?
  let infos ← (splitList ((lookup toks "infos").getD "-") ";").mapM info?
  let payer ← match lookup toks "payer" with
    | none => some none
    | some "-" => some none
    | some a => (addr? a).map some
  pure ⟨msgs, memo, to, fee, payer, infos⟩

def payload? (env : Env) (cores : List (String × Core)) (parts : List String) : Option Payload :=
  match parts with
  | ["D", c, chain, num] => do
    let c ← cores.lookup c
    pure (.direct c (← nat? chain) (← nat? num))
  | ["A", c, chain, num, seq] => do
    let c ← cores.lookup c
    pure (.amino (c.msgs.map (aminoView env)) c.memo c.timeout c.fee c.payer (← nat? chain) (← nat? num) (← nat? seq))
  | ["E", c, idx, nonce, chain] => do
    let c ← cores.lookup c
    let m ← c.msgs[(← nat? idx)]?
    pure (.eip712 (eipView env m) (← nat? nonce) (← nat? chain))
  | ["J", n] => do pure (.junk (← nat? n))
  | _ => none

def sig? (env : Env) (cores : List (String × Core)) (s : String) : Option Sig :=
  match s.splitOn "," with
  | key :: enc :: rest => do
    let k ← nat? key
    let e ← if enc == "c" then some Enc.cosmos64 else if enc == "e" then some Enc.eth65 else none
    let p ← payload? env cores rest
    pure ⟨k, p, e⟩
  | _ => none

def showAcc : Option Account → String
  | none => "none"
  | some a => s!"seq={a.seq} pk={match a.pk with | some k => toString k | none => "-"} num={a.num}"

def step (st : St) (toks : List String) : St × String :=
  match toks with
  | "reset" :: rest =>
    match lookupNat rest "chain", lookupNat rest "siglimit" with
    | some c, some l => ({ env := { chainId := c, sigLimit := l } }, "ok")
    | _, _ => (st, "bad-op")
  | ["eipclass", t, c] =>
    match nat? t, nat? c with
    | some t, some c =>
      let f := st.env.eipClass
      ({ st with env := { st.env with eipClass := fun x => if x = t then c else f x } }, "ok")
    | _, _ => (st, "bad-op")
  | ["aminoclass", t, c] =>
    match nat? t, nat? c with
    | some t, some c =>
      let f := st.env.aminoClass
      ({ st with env := { st.env with aminoClass := fun x => if x = t then c else f x } }, "ok")
    | _, _ => (st, "bad-op")
  | ["acc", a, pk, seq, num] =>
    match addr? a, optKey? pk, nat? seq, nat? num with
    | some a, some pk, some seq, some num => ({ st with A := st.A.set a ⟨pk, seq, num⟩ }, "ok")
    | _, _, _, _ => (st, "bad-op")
  | "core" :: name :: rest =>
    match core? rest with
    | some c => ({ st with cores := (name, c) :: st.cores.filter (·.1 != name) }, "ok")
    | none => (st, "bad-op")
  | ["tx", name, sigs] =>
    match st.cores.lookup name, (splitList sigs ";").mapM (sig? st.env st.cores) with
    | some c, some sigs =>
      match anteAuth st.env st.A ⟨c, sigs⟩ with
      | .ok A' => ({ st with A := A' }, "ok")
      | .error e => (st, "err:" ++ e.toString)
    | _, _ => (st, "bad-op")
  | ["obs", a] =>
    match addr? a with
    | some a => (st, showAcc (st.A a))
    | none => (st, "bad-op")
  | _ => (st, "bad-op")

end Sekai.Driver.Auth
