import Sekai.Model.Spend
import Sekai.Model.Ubi
import Sekai.Model.Collect
/-! line protocol for the spending-pool model (domain `spend`); the state is shared with the `ubi` and `coll`
domains (`Driver/Ubi.lean`, `Driver/Collect.lean`) because UBI and collectives pay into spending pools. -/
namespace Sekai.Driver.Spend
open Sekai.Spend Sekai.Util

structure St where
  sp : Spend.State := {}
  names : List String := []          -- pool name ↔ id (index)
  addrs : List (Nat × String) := []  -- account index → bech32 (for the claim-info key prefix)
  recs : List Ubi.Rec := []
  ukex : Nat := 0
  colls : List Collect.Coll := []
  contribs : List Collect.Contrib := []
  cnames : List String := []         -- collective name ↔ id
  maxOutputs : Nat := 0
  minClaimPeriod : Nat := 0
  minBond : Nat := 0
  feeRates : List (Nat × Int) := []
  crewards : List (Nat × List (Nat × Nat)) := []   -- multistaking delegator rewards on record, by account
  minBondingTime : Nat := 0

def nameId (names : List String) (n : String) : Option Nat := names.findIdx? (· == n)

def internName (names : List String) (n : String) : List String × Nat :=
  match nameId names n with
  | some i => (names, i)
  | none => (names ++ [n], names.length)

def pair? (tok : String) : Option (String × String) :=
  match tok.splitOn ":" with
  | [a, b] => some (a, b)
  | _ => none

def listOf? {α} (f : String → Option α) (s : String) : Option (List α) :=
  if s == "-" || s == "" then some [] else (s.splitOn ",").mapM f

def coins? (s : String) : Option (List (Nat × Nat)) :=
  listOf? (fun t => match pair? t with
    | some (a, b) => match nat? a, nat? b with
      | some a, some b => some (a, b)
      | _, _ => none
    | none => none) s

def natInt? (s : String) : Option (List (Nat × Int)) :=
  listOf? (fun t => match pair? t with
    | some (a, b) => match nat? a, int? b with
      | some a, some b => some (a, b)
      | _, _ => none
    | none => none) s

def showAmt (voc : List Nat) (a : Amt) : String :=
  let l := (voc.filter (fun d => a d > 0)).map (fun d => s!"{d}:{a d}")
  if l.isEmpty then "-" else ",".intercalate l

def showNatInt (l : List (Nat × Int)) : String :=
  if l.isEmpty then "-" else ",".intercalate (l.map (fun e => s!"{e.1}:{e.2}"))

def res (r : Except Err α) : String :=
  match r with
  | .ok _ => "ok"
  | .error .err => "err"
  | .error .panic => "panic"

/-- `ValidateSpendingPoolName`: ^[a-zA-Z][_0-9a-zA-Z]*$ -/
def validName (s : String) : Bool :=
  match s.toList with
  | [] => false
  | c :: rest => c.isAlpha && rest.all (fun x => x.isAlphanum || x == '_')

def poolArgs? (toks : List String) : Option PoolArgs := do
  let cs ← lookupNat toks "cs"
  let ce ← lookupNat toks "ce"
  let cx := (lookupNat toks "cx").getD 0
  let rates ← (lookup toks "rates").bind natInt?
  let q ← lookupInt toks "q"
  let vp ← lookupNat toks "vp"
  let ve ← lookupNat toks "ve"
  let oroles ← (lookup toks "or").bind natList?
  let oaccs ← (lookup toks "oa").bind natList?
  let br ← (lookup toks "br").bind natInt?
  let ba ← (lookup toks "ba").bind natInt?
  let dyn ← (lookup toks "dyn").bind parse01
  let dp ← lookupNat toks "dp"
  pure { claimStart := cs, claimEnd := ce, claimExpiry := cx, rates := rates, voteQuorum := q, votePeriod := vp,
         voteEnactment := ve, ownerRoles := oroles, ownerAccounts := oaccs, benRoles := br, benAccounts := ba,
         dynamicRate := dyn, dynamicRatePeriod := dp }

def showPool (voc : List Nat) (p : Pool) : String :=
  s!"cs={p.claimStart} ce={p.claimEnd} cx={p.claimExpiry} rates={showNatInt p.rates} q={p.voteQuorum} vp={p.votePeriod} " ++
  s!"ve={p.voteEnactment} or={showNatList p.ownerRoles} oa={showNatList p.ownerAccounts} br={showNatInt p.benRoles} " ++
  s!"ba={showNatInt p.benAccounts} bal={showAmt voc p.bal} dyn={bool01 p.dynamicRate} dp={p.dynamicRatePeriod} ld={p.lastDyn}"

/-- key(pool q, account a) = "claim_info" ++ name q ++ bech32 a has the prefix "claim_info" ++ name p -/
def pfx (st : St) (p q : Nat) (a : Nat) : Bool :=
  match st.names[p]?, st.names[q]? with
  | some np, some nq => (nq ++ ((st.addrs.lookup a).getD "")).startsWith np
  | _, _ => false

def apply (st : St) (r : Except Err Spend.State) : St × String :=
  match r with
  | .ok s => ({ st with sp := s }, "ok")
  | .error .err => (st, "err")
  | .error .panic => (st, "panic")

def step (st : St) (toks : List String) : St × String :=
  match toks with
  | ["reset"] => ({}, "ok")
  | ["voc", n] => match nat? n with
    | some n => ({ st with sp := { st.sp with voc := List.range n } }, "ok")
    | none => (st, "bad-op")
  | ["addr", i, b] => match nat? i with
    | some i => ({ st with addrs := st.addrs ++ [(i, b)], sp := { st.sp with accts := st.sp.accts ++ [i] } }, "ok")
    | none => (st, "bad-op")
  | "bal" :: rest =>
    match lookupNat rest "a", (lookup rest "coins").bind coins? with
    | some a, some cs =>
      let amt := Amt.ofList cs
      ({ st with sp := { st.sp with bank := fun x => if x = a then amt else st.sp.bank x } }, "ok")
    | _, _ => (st, "bad-op")
  | "actor" :: rest =>
    match lookupNat rest "a", lookup rest "roles" with
    | some a, some "none" => ({ st with sp := { st.sp with actors := fun x => if x = a then none else st.sp.actors x } }, "ok")
    | some a, some rs => match natList? rs with
      | some rs => ({ st with sp := { st.sp with actors := fun x => if x = a then some rs else st.sp.actors x } }, "ok")
      | none => (st, "bad-op")
    | _, _ => (st, "bad-op")
  | "setpool" :: rest =>    -- load a stored pool record verbatim (genesis pools)
    match lookup rest "name", poolArgs? rest, (lookup rest "bal").bind coins?, lookupNat rest "ld" with
    | some n, some x, some bal, some ld =>
      let (names, id) := internName st.names n
      let p : Pool := { name := id, claimStart := x.claimStart, claimEnd := x.claimEnd, claimExpiry := x.claimExpiry, rates := x.rates,
                        voteQuorum := x.voteQuorum, votePeriod := x.votePeriod, voteEnactment := x.voteEnactment,
                        ownerRoles := x.ownerRoles, ownerAccounts := x.ownerAccounts, benRoles := x.benRoles,
                        benAccounts := x.benAccounts, bal := Amt.ofList bal, dynamicRate := x.dynamicRate,
                        dynamicRatePeriod := x.dynamicRatePeriod, lastDyn := ld }
      let pools := match findPool st.sp.pools id with
        | some _ => setPool st.sp.pools p
        | none => st.sp.pools ++ [p]
      ({ st with names := names, sp := { st.sp with pools := pools } }, "ok")
    | _, _, _, _ => (st, "bad-op")
  | "create" :: rest =>
    match lookup rest "name", poolArgs? rest, lookupNat rest "t" with
    | some n, some x, some t =>
      let (names, id) := internName st.names (decS n)
      apply { st with names := names } (create st.sp (validName (decS n)) id x t)
    | _, _, _ => (st, "bad-op")
  | "deposit" :: rest =>
    match lookup rest "name", lookupNat rest "a", (lookup rest "coins").bind coins? with
    | some n, some a, some cs =>
      let (names, id) := internName st.names n
      apply { st with names := names } (deposit st.sp a id cs)
    | _, _, _ => (st, "bad-op")
  | "register" :: rest =>
    match lookup rest "name", lookupNat rest "a", lookupNat rest "t" with
    | some n, some a, some t =>
      let (names, id) := internName st.names n
      apply { st with names := names } (register st.sp id a t)
    | _, _, _ => (st, "bad-op")
  | "claim" :: rest =>
    match lookup rest "name", lookupNat rest "a", lookupNat rest "t" with
    | some n, some a, some t =>
      let (names, id) := internName st.names n
      apply { st with names := names } (claim st.sp id a t)
    | _, _, _ => (st, "bad-op")
  | "update" :: rest =>
    match lookup rest "name", poolArgs? rest with
    | some n, some x =>
      let (names, id) := internName st.names n
      apply { st with names := names } (update st.sp id x)
    | _, _ => (st, "bad-op")
  | "distribute" :: rest =>
    match lookup rest "name", lookupNat rest "t" with
    | some n, some t =>
      let (names, id) := internName st.names n
      apply { st with names := names } (distribute st.sp id t)
    | _, _ => (st, "bad-op")
  | "withdraw" :: rest =>
    match lookup rest "name", (lookup rest "bens").bind natList?, (lookup rest "coins").bind coins? with
    | some n, some bens, some cs =>
      let (names, id) := internName st.names n
      apply { st with names := names } (withdraw st.sp id bens cs)
    | _, _, _ => (st, "bad-op")
  | "endblock" :: rest =>
    match lookupNat rest "t" with
    | some t => apply st (endBlock st.sp (pfx st) t)
    | none => (st, "bad-op")
  | "obs" :: "pool" :: rest =>
    match lookup rest "name" with
    | some n => match (nameId st.names n).bind (findPool st.sp.pools) with
      | some p => (st, showPool st.sp.voc p)
      | none => (st, "none")
    | none => (st, "bad-op")
  | "obs" :: "info" :: rest =>
    match lookup rest "name", lookupNat rest "a" with
    | some n, some a => match (nameId st.names n).bind (fun id => findInfo st.sp.infos id a) with
      | some ci => (st, toString ci.last)
      | none => (st, "none")
    | _, _ => (st, "bad-op")
  | "obs" :: "bal" :: rest =>
    match lookupNat rest "a" with
    | some a => (st, showAmt st.sp.voc (st.sp.bank a))
    | none => (st, "bad-op")
  | ["obs", "mod"] => (st, showAmt st.sp.voc (st.sp.bank SPEND))
  | ["inv"] => (st, bool01 (solventOn st.sp))
  | _ => (st, "bad-op")

end Sekai.Driver.Spend
