import Sekai.Base.Util
import Sekai.Model.Upgrade
/-! line protocol for the upgrade plan machine (domain `upg`) -/
namespace Sekai.Driver.Upgrade
open Sekai.Upgrade Sekai.Util

def showPlan : Option Plan → String
  | none => "-"
  | some p => s!"{p.name}@{p.time}:{bool01 p.processed}:{bool01 p.instate}:{bool01 p.skipHandler}:{p.proposal}"

def lookupInt (toks : List String) (key : String) : Option Int := (lookup toks key).bind int?

def step (s : St) (toks : List String) : St × String :=
  match toks with
  | ["reset"] => (init, "ok")
  | "schedule" :: rest =>
    match lookup rest "name", lookupInt rest "t", lookupInt rest "now", (lookup rest "instate").bind parse01,
          (lookup rest "skip").bind parse01, lookupNat rest "pid" with
    | some name, some t, some now, some ins, some sk, some pid =>
      match schedule s { name := name, time := t, instate := ins, skipHandler := sk, processed := false, proposal := pid } now with
      | some s' => (s', "ok")
      | none => (s, "err")
    | _, _, _, _, _, _ => (s, "bad-op")
  | ["cancel"] => (cancel s, "ok")
  | "begin" :: rest =>
    match lookupInt rest "now", (lookup rest "handler").bind parse01, (lookup rest "pauseok").bind parse01 with
    | some now, some h, some po =>
      let r := begin s now (fun _ => h) po
      (r.1, r.2.show)
    | _, _, _ => (s, "bad-op")
  | ["obs"] => (s, s!"next={showPlan s.next} cur={showPlan s.current}")
  | _ => (s, "bad-op")

end Sekai.Driver.Upgrade
