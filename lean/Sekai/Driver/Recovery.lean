import Sekai.Base.Util
import Sekai.Model.Recovery
/-! line protocol for the x/recovery model (domain `rec`); see `harness/recovery.go` for the Go side -/
namespace Sekai.Driver.Recovery
open Sekai.Recovery Sekai.Util

def kinds : List (String × Kind) :=
  [("compound", .compound), ("delegator", .delegator), ("rewards", .rewards), ("pool", .pool), ("councilor", .councilor),
   ("actor", .actor), ("vote", .vote), ("collective", .collective), ("spendclaim", .spendClaim),
   ("custsettings", .custSettings), ("custcustodians", .custCustodians), ("custwhitelist", .custWhitelist),
   ("custlimits", .custLimits), ("custstatus", .custStatus), ("custpool", .custPool)]

/-- the model state plus the finite universe of keys the harness talks about (for printing and for `compact`) -/
structure St where
  s : Sekai.Recovery.State := {}
  accs : List Nat := [modAcc, feeAcc]
  subs : List Nat := [0]
  conss : List Nat := []

def addNat (l : List Nat) (x : Nat) : List Nat := if l.contains x then l else l ++ [x]

/-- The function-valued stores of the model grow one closure per update. `compact` re-tabulates every store over the
universe of keys (same values on the universe, `none`/0 outside), so that the cost of a lookup stays bounded. -/
def compact (u : St) : St :=
  let S := u.s
  let balT : List ((Nat × String) × Int) := u.accs.flatMap fun a => S.denoms.filterMap fun d =>
    if S.bal a d = 0 then none else some ((a, d), S.bal a d)
  let supT : List (String × Int) := S.denoms.filterMap fun d => if S.supply d = 0 then none else some (d, S.supply d)
  let accT : List Nat := u.accs.filter fun a => S.hasAcc a
  let secT : List (Nat × Nat) := u.accs.filterMap fun a => (S.secret a).map fun c => (a, c)
  let tokT : List (Nat × Token) := u.accs.filterMap fun a => (S.token a).map fun t => (a, t)
  let bydT : List (String × Nat) := S.denoms.filterMap fun d => (S.byDenom d).map fun a => (d, a)
  let rotT : List (Nat × Nat) := u.accs.filterMap fun a => (S.rotated a).map fun b => (a, b)
  let hrwT : List (Nat × Int) := u.accs.filterMap fun a => if S.hRewards a = 0 then none else some (a, S.hRewards a)
  let clmT : List ((Kind × Nat × Nat) × Nat) := kinds.flatMap fun kk => u.subs.flatMap fun sb => u.accs.filterMap fun a =>
    (S.claims kk.2 sb a).map fun v => ((kk.2, sb, a), v)
  let valT : List (Nat × Val) := u.accs.filterMap fun a => (S.vals a).map fun v => (a, v)
  let consT : List (Nat × Nat) := u.conss.filterMap fun c => (S.byCons c).map fun a => (c, a)
  { u with s := { S with
      bal := fun a d => (balT.lookup (a, d)).getD 0,
      supply := fun d => (supT.lookup d).getD 0,
      hasAcc := fun a => accT.contains a,
      secret := fun a => secT.lookup a,
      token := fun a => tokT.lookup a,
      byDenom := fun d => bydT.lookup d,
      rotated := fun a => rotT.lookup a,
      hRewards := fun a => (hrwT.lookup a).getD 0,
      claims := fun k sb a => clmT.lookup (k, sb, a),
      vals := fun a => valT.lookup a,
      byCons := fun c => consT.lookup c } }

def insertBy {α : Type} (lt : α → α → Bool) (x : α) : List α → List α
  | [] => [x]
  | y :: ys => if lt y x then y :: insertBy lt x ys else x :: y :: ys
def sortBy {α : Type} (lt : α → α → Bool) (l : List α) : List α := l.foldr (insertBy lt) []

def join (sep : String) (l : List String) : String := if l.isEmpty then "-" else sep.intercalate l

def kind? (s : String) : Option Kind := kinds.lookup s

/-- `-` = the empty string is not hex-decodable… no: `x` = not hex, otherwise the digest identifier -/
def proof? (s : String) : Option (Option Nat) :=
  if s == "x" then some none else (nat? s).map some

def strList (s : String) : List String := if s == "-" || s == "" then [] else s.splitOn ","

def obs (S : Sekai.Recovery.State) (accs : List Nat) (denoms : List String) (conss subs : List Nat) : String :=
  let bal := join "," (accs.flatMap fun a => denoms.filterMap fun d =>
    if S.bal a d = 0 then none else some s!"{a}:{d}:{S.bal a d}")
  let sup := join "," (denoms.filterMap fun d => if S.supply d = 0 then none else some s!"{d}:{S.supply d}")
  let acc := showNatList (accs.filter fun a => a < 900 && S.hasAcc a)
  let sec := join ";" (accs.filterMap fun a => (S.secret a).map fun c => s!"{a}:{c}")
  let tok := join ";" (accs.filterMap fun a => (S.token a).map fun t => s!"{a}:{t.denom}:{t.rrSupply}:{t.underlying}")
  let byd := join ";" (denoms.filterMap fun d => (S.byDenom d).map fun a => s!"{d}:{a}")
  let rot := join ";" (accs.filterMap fun a => (S.rotated a).map fun b => s!"{a}:{b}")
  let hold := join ";" ((sortBy (fun (x y : String × Nat) => x.1 < y.1 || (x.1 == y.1 && x.2 < y.2)) S.holders).map
    fun h => s!"{h.1}:{h.2}")
  let hrw := join ";" (accs.filterMap fun a => if S.hRewards a = 0 then none else some s!"{a}:{S.hRewards a}")
  let clm := join ";" (kinds.flatMap fun kk => subs.flatMap fun s => accs.filterMap fun a =>
    (S.claims kk.2 s a).map fun v => s!"{kk.1}:{s}:{a}:{v}")
  let val := join ";" (accs.filterMap fun a => (S.vals a).map fun v => s!"{a}:{v.cons}:{v.info}")
  let cons := join ";" (conss.filterMap fun c => (S.byCons c).map fun a => s!"{c}:{a}")
  let recs := join ";" ((sortBy (fun (x y : IdRec) => x.id < y.id) S.reg.recs).map fun r =>
    s!"{r.id}:{r.addr}:{encS r.key}:{encS r.value}:{r.date}:{showNatList r.verifiers}")
  let idx := join ";" ((sortBy (fun (x y : IdxEntry) => x.addr < y.addr || (x.addr == y.addr && x.key < y.key)) S.reg.idx).map
    fun e => s!"{e.addr}:{encS e.key}:{e.id}")
  let reqs := join ";" ((sortBy (fun (x y : Req) => x.id < y.id) S.reqs).map fun q => s!"{q.id}:{q.addr}:{q.verifier}:{q.tip}")
  s!"bal={bal} sup={sup} acc={acc} sec={sec} tok={tok} byd={byd} rot={rot} hold={hold} hrw={hrw} clm={clm} val={val} cons={cons} q={showNatList (sortNat S.queue)} recs={recs} idx={idx} reqs={reqs} corrupt={bool01 S.corrupt} lastpool={S.lastPool}"

def run1 (S : Sekai.Recovery.State) (o : Op) : Sekai.Recovery.State × String :=
  match apply S o with
  | .ok S' => (S', "ok")
  | .error e => (S, e.show)

def addDenom (S : Sekai.Recovery.State) (d : String) : Sekai.Recovery.State := if S.denoms.contains d then S else { S with denoms := d :: S.denoms }

def stepS (S : Sekai.Recovery.State) (toks : List String) : Sekai.Recovery.State × String :=
  match toks with
  | ["reset"] => ({}, "ok")
  | "init-bal" :: r =>
    match lookupNat r "a", lookup r "d", lookupInt r "n" with
    | some a, some d, some n => (addDenom (setBal S a d n) d, "ok")
    | _, _, _ => (S, "bad-op")
  | "init-supply" :: r =>
    match lookup r "d", lookupInt r "n" with
    | some d, some n => ({ S with supply := fun d' => if d' = d then n else S.supply d' }, "ok")
    | _, _ => (S, "bad-op")
  | "init-acc" :: r =>
    match lookupNat r "a" with
    | some a => ({ S with hasAcc := fun a' => if a' = a then true else S.hasAcc a' }, "ok")
    | none => (S, "bad-op")
  | "init-lastpool" :: r =>
    match lookupNat r "n" with
    | some n => ({ S with lastPool := n }, "ok")
    | none => (S, "bad-op")
  | "newpool" :: r =>
    match lookupNat r "a" with
    | some a =>
      match newPool S a with
      | some S' => (S', "ok")
      | none => (S, "err")
    | none => (S, "bad-op")
  | "init-bond" :: r =>
    match lookupInt r "n" with
    | some n => ({ S with bond := n }, "ok")
    | none => (S, "bad-op")
  | ["order", l] =>
    match natList? l with
    | some l => ({ S with order := l }, "ok")
    | none => (S, "bad-op")
  | "claim" :: r =>
    match (lookup r "k").bind kind?, lookupNat r "sub", lookupNat r "a", lookupNat r "v" with
    | some k, some s, some a, some v =>
      ({ S with claims := fun k' s' a' => if k' = k ∧ s' = s ∧ a' = a then some v else S.claims k' s' a',
                poolIds := if k = Kind.pool ∧ !S.poolIds.contains v then v :: S.poolIds else S.poolIds }, "ok")
    | _, _, _, _ => (S, "bad-op")
  | "unclaim" :: r =>
    match (lookup r "k").bind kind?, lookupNat r "sub", lookupNat r "a" with
    | some k, some s, some a =>
      ({ S with claims := fun k' s' a' => if k' = k ∧ s' = s ∧ a' = a then none else S.claims k' s' a' }, "ok")
    | _, _, _ => (S, "bad-op")
  | "val" :: r =>
    match lookupNat r "a", lookupNat r "cons", lookupNat r "info" with
    | some a, some c, some i => (addValidator a ⟨c, i⟩ S, "ok")
    | _, _, _ => (S, "bad-op")
  | "valinfo" :: r =>   -- status / rank changes made by other modules
    match lookupNat r "a", lookupNat r "info" with
    | some a, some i =>
      match S.vals a with
      | some v => ({ S with vals := fun a' => if a' = a then some { v with info := i } else S.vals a' }, "ok")
      | none => (S, "bad-op")
    | _, _ => (S, "bad-op")
  | "idrec" :: r =>
    match lookupNat r "id", lookupNat r "a", lookup r "key", lookup r "value", lookupNat r "date", (lookup r "ver").bind natList? with
    | some id, some a, some k, some v, some dt, some ver =>
      let k := decS k
      ({ S with reg := { recs := ⟨id, a, k, decS v, dt, ver⟩ :: S.reg.recs.filter (fun x => x.id ≠ id),
                         idx := ⟨a, k, id⟩ :: S.reg.idx.filter (fun e => ¬ (e.addr = a ∧ e.key = k)) } }, "ok")
    | _, _, _, _, _, _ => (S, "bad-op")
  | "req" :: r =>
    match lookupNat r "id", lookupNat r "a", lookupNat r "v", lookupNat r "tip" with
    | some id, some a, some v, some t => ({ S with reqs := ⟨id, a, v, t⟩ :: S.reqs.filter (fun q => q.id ≠ id) }, "ok")
    | _, _, _, _ => (S, "bad-op")
  | "slashprop" :: r =>
    match lookupNat r "id", lookupNat r "off" with
    | some id, some a => ({ S with slashProps := (id, a) :: S.slashProps }, "ok")
    | _, _ => (S, "bad-op")
  | "queue" :: r =>
    match lookupNat r "a" with
    | some a => ({ S with queue := if S.queue.contains a then S.queue else a :: S.queue }, "ok")
    | none => (S, "bad-op")
  | ["unqueue"] => ({ S with queue := [] }, "ok")
  | "register" :: r =>
    match lookupNat r "a", lookupNat r "ch", (lookup r "proof").bind proof? with
    | some a, some c, some p => run1 S (.register a c p)
    | _, _, _ => (S, "bad-op")
  | "rotsecret" :: r =>
    match lookupNat r "payer", lookupNat r "a", lookupNat r "new", (lookup r "proof").bind proof? with
    | some p, some a, some n, some pr => run1 S (.rotateSecret ⟨p, a, n, pr⟩)
    | _, _, _, _ => (S, "bad-op")
  | "rotholder" :: r =>
    match lookupNat r "h", lookupNat r "a", lookupNat r "new" with
    | some h, some a, some n => run1 S (.rotateHolder ⟨h, a, n⟩)
    | _, _, _ => (S, "bad-op")
  | "issue" :: r =>
    match lookupNat r "a" with
    | some a => run1 S (.issue a)
    | none => (S, "bad-op")
  | "burn" :: r =>
    match lookupNat r "a", lookup r "d", lookupInt r "n" with
    | some a, some d, some n => run1 S (.burn a d n)
    | _, _, _ => (S, "bad-op")
  | "claimrr" :: r =>
    match lookupNat r "a" with
    | some a => run1 S (.claim a)
    | none => (S, "bad-op")
  | "reghold" :: r =>
    match lookupNat r "a" with
    | some a => run1 S (.regHolder a)
    | none => (S, "bad-op")
  | "alloc" :: r =>
    match lookupNat r "v", lookupInt r "n" with
    | some v, some n => run1 S (.allocate v n)
    | _, _ => (S, "bad-op")
  | "xfer" :: r =>
    match lookupNat r "a", lookupNat r "b", lookup r "d", lookupInt r "n" with
    | some a, some b, some d, some n => run1 S (.xfer a b d n)
    | _, _, _, _ => (S, "bad-op")
  | "blocksafe" :: r =>
    match (lookup r "active").bind natList? with
    | some act => (S, if blockSafe S act then "ok" else "panic")
    | none => (S, "bad-op")
  | "obs" :: r =>
    match (lookup r "accs").bind natList?, lookup r "denoms", (lookup r "cons").bind natList?, (lookup r "subs").bind natList? with
    | some accs, some ds, some cs, some subs => (S, obs S accs (strList ds) cs subs)
    | _, _, _, _ => (S, "bad-op")
  | _ => (S, "bad-op")

/-- universe bookkeeping, the step on the model state, then `compact` -/
def step (u : St) (toks : List String) : St × String :=
  match toks with
  | ["reset"] => ({}, "ok")
  | "obs" :: _ => let (_, o) := stepS u.s toks; (u, o)
  | "blocksafe" :: _ => let (_, o) := stepS u.s toks; (u, o)
  | _ =>
    let u1 : St :=
      match toks with
      | ["order", l] => match natList? l with
        | some l => { u with accs := l.foldl addNat u.accs }
        | none => u
      | "claim" :: r => match lookupNat r "sub", lookupNat r "a" with
        | some sb, some a => { u with subs := addNat u.subs sb, accs := addNat u.accs a }
        | _, _ => u
      | "val" :: r => match lookupNat r "cons", lookupNat r "a" with
        | some c, some a => { u with conss := addNat u.conss c, accs := addNat u.accs a }
        | _, _ => u
      | "init-bal" :: r => match lookupNat r "a" with
        | some a => { u with accs := addNat u.accs a }
        | none => u
      | "init-acc" :: r => match lookupNat r "a" with
        | some a => { u with accs := addNat u.accs a }
        | none => u
      | _ => u
    let (S', o) := stepS u1.s toks
    (compact { u1 with s := S' }, o)

end Sekai.Driver.Recovery
