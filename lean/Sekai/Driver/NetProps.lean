import Sekai.Model.NetProps
import Sekai.Gen.NetProps
/-! line protocol for the network-property model (domain `props`) -/
namespace Sekai.Driver.NetProps
open Sekai.NetProps Sekai.Util

structure St where
  P : Props := fun _ => .none
  records : List (String × String) := []   -- identity records (key, value) for EnsureUniqueKeys

def enc (s : String) : String := Util.encS s
def dec (s : String) : String := Util.decS s

def opaqueSem (sha : String) (P : Props) : Bool :=
  -- the single opaque block of ValidateNetworkProperties: the UniqueIdentityKeys well-formedness test (field 18)
  if sha == "9940d843ee7ece42" then uniqueKeysBad 18 P else true

/-- `EnsureUniqueKeys`: a key that is new in the list must not have two records with the same value -/
def uniqueOk (records : List (String × String)) (old new : String) : Bool :=
  let oldKs := splitKeys old
  let newKs := (splitKeys new).filter (fun k => !oldKs.contains k)
  let rec go (seen : List (String × String)) : List (String × String) → Bool
    | [] => true
    | (k, v) :: rest =>
      if newKs.contains k then
        if seen.contains (k, v) then false else go ((k, v) :: seen) rest
      else go seen rest
  go [] records

def guardOk (records : List (String × String)) (name : String) (P : Props) (f : Nat) (i : In) : Bool :=
  match P f with
  | .s old =>
    if name == "EnsureOldUniqueKeysNotRemoved" then oldKeysKept old i.strValue
    else if name == "EnsureUniqueKeys" then uniqueOk records old i.strValue
    else false
  | _ => false

def showVal : Option Val → String
  | some (.u n) => s!"{n} ~"
  | some (.s x) => s!"0 {enc x}"
  | some (.d x) => s!"0 {Dec.toStr x}"
  | _ => "err"

def loadField (P : Props) (g : GetExpr) (v : Nat) (sv : String) : Option Props :=
  match g with
  | .u64 f => some (upd P f (.u v))
  | .str f => some (upd P f (.s sv))
  | .boolAsInt f => some (upd P f (.b (v != 0)))
  | .decString f => (Dec.fromStr sv).map (fun d => upd P f (.d d))
  | _ => none

def parseRecords (s : String) : List (String × String) :=
  if s == "-" then [] else (s.splitOn ";").filterMap fun kv =>
    match kv.splitOn ":" with
    | [k, v] => some (k, v)
    | _ => none

def step (st : St) (toks : List String) : St × String :=
  let arms := Sekai.Gen.NetProps.arms
  let conds := Sekai.Gen.NetProps.conds
  match toks with
  | ["reset"] => ({}, "ok")
  | ["records", r] => ({ st with records := parseRecords r }, "ok")
  | ["load", id, v, sv] =>
    match nat? id, nat? v with
    | some id, some v =>
      match arms.find? (fun a => a.id == id) with
      | some a => match loadField st.P a.get v (dec sv) with
        | some P' => ({ st with P := P' }, "ok")
        | none => (st, "err")
      | none => (st, "err")
    | _, _ => (st, "bad-op")
  | ["set", id, v, sv] =>
    match nat? id, nat? v with
    | some id, some v =>
      match setProperty Dec.fromStr (guardOk st.records) opaqueSem conds arms id ⟨v, dec sv⟩ st.P with
      | some P' => ({ st with P := P' }, "ok")
      | none => (st, "err")
    | _, _ => (st, "bad-op")
  | ["msgset", id, v, sv] =>
    -- MsgSetNetworkProperties carrying the stored record with ONE field replaced: the whole record is validated and
    -- stored, or rejected and nothing changes (no per-property guard on this path)
    match nat? id, nat? v with
    | some id, some v =>
      match arms.find? (fun a => a.id == id) with
      | some a => match loadField st.P a.get v (dec sv) with
        | some P' => if validate opaqueSem conds P' then ({ st with P := P' }, "ok") else (st, "err")
        | none => (st, "err")
      | none => (st, "err")
    | _, _ => (st, "bad-op")
  | ["dryrun", id, v, sv] =>
    -- a set executed on a cache context that is then discarded (MsgSubmitProposal's dry run, a failed message):
    -- same verdict, no effect on the stored record
    match nat? id, nat? v with
    | some id, some v =>
      match setProperty Dec.fromStr (guardOk st.records) opaqueSem conds arms id ⟨v, dec sv⟩ st.P with
      | some _ => (st, "ok")
      | none => (st, "err")
    | _, _ => (st, "bad-op")
  | ["get", id] =>
    match nat? id with
    | some id =>
      match arms.find? (fun a => a.id == id) with
      | some _ => (st, showVal (getProperty arms id st.P))
      | none => (st, "err")
    | none => (st, "bad-op")
  | ["genesis"] =>
    -- gov InitGenesis: SetNetworkProperties(genesisState.NetworkProperties) validates the whole record and the chain
    -- refuses to start when it is invalid (the requested values were `load`ed into P before)
    (st, if (genesisInit opaqueSem conds st.P).isSome then "ok" else "refused")
  | ["valid"] => (st, bool01 (validate opaqueSem conds st.P))
  | ["dump"] => (st, ";".intercalate (arms.map fun a => s!"{a.id}={showVal (getProperty arms a.id st.P)}"))
  | _ => (st, "bad-op")

end Sekai.Driver.NetProps
