import Sekai.Model.Layer2
/-! line protocol for the layer-2 bond / LP model (domain `l2`) -/
namespace Sekai.Driver.Layer2
open Sekai Sekai.Layer2 Sekai.Util

abbrev St := Sekai.Layer2.St

def bytesOf (s : String) : Bytes := s.toUTF8.toList.map UInt8.toNat
def strOf (b : Bytes) : String := String.ofList (b.map Char.ofNat)
def tokB (tok : String) : Bytes := bytesOf (decS tok)

def init : St := genesis { native := bytesOf "ukex", minBond := 0, maxBond := 0, bondDuration := 0, liqThreshold := 0, liqPeriod := 0 }
  (fun _ => []) (fun _ _ => 0)

def acct? (s : String) : Option Acct :=
  if s == "l2" then some .l2 else if s == "sp" then some .spending
  else if s.startsWith "u" then (nat? (s.drop 1).toString).map Acct.user else none

def optUser? (s : String) : Option (Option Nat) :=
  if s == "-" then some none else (nat? s).map some

def showDapp (d : Dapp) : String :=
  "|".intercalate [encS (strOf d.name), encS (strOf d.denom), encS (strOf d.bondDenom), toString d.bond, toString d.creationTime,
    toString d.status, Dec.toStr d.ratio, toString d.drip, toString d.premint, toString d.postmint, Dec.toStr d.poolFee,
    toString d.liquidationStart, toString d.premintTime, (match d.teamReserve with | some r => toString r | none => "-"),
    bool01 d.postMintPaid, bool01 d.enableBondVerifiers]

/-- dApp fields common to `create` and `upsert` -/
def parseDapp (toks : List String) : Option Dapp := do
  let name ← lookup toks "name"
  let denom ← lookup toks "denom"
  let ratio ← (lookup toks "ratio").bind Dec.fromStr
  let drip ← lookupNat toks "drip"
  let premint ← lookupInt toks "premint"
  let postmint ← lookupInt toks "postmint"
  let fee ← (lookup toks "fee").bind Dec.fromStr
  let liq ← lookupNat toks "liq"
  let pmt ← lookupNat toks "pmt"
  let team ← (lookup toks "team").bind optUser?
  let pmp ← (lookup toks "pmp").bind parse01
  let ebv ← (lookup toks "ebv").bind parse01
  let bden := (lookup toks "bden").getD "~"
  let bond := (lookupInt toks "bond").getD 0
  let ctime := (lookupNat toks "ctime").getD 0
  let status := (lookupNat toks "status").getD 0
  pure { name := tokB name, denom := tokB denom, bondDenom := tokB bden, bond := bond, creationTime := ctime, status := status,
         ratio := ratio, drip := drip, premint := premint, postmint := postmint, poolFee := fee, liquidationStart := liq,
         premintTime := pmt, teamReserve := team, postMintPaid := pmp, enableBondVerifiers := ebv }

def res (s : St) (r : Except Err St) : St × String :=
  match r with
  | .ok s' => (s', "ok")
  | .error e => (s, e.str)

def kres (s : St) (r : Option (Except Err (St × Int))) : St × String :=
  match r with
  | none => (s, "nodapp")
  | some (.ok (s', out)) => (s', s!"ok {out}")
  | some (.error e) => (s, e.str)

def showAcct (i : Nat) (n : Nat) : Acct := if i < n then .user i else if i = n then .l2 else .spending

/-- one canonical line: dApp records, user bonds, balances and supplies for the listed names / users / denoms -/
def obsState (s : St) (names : List Bytes) (nu : Nat) (dens : List Bytes) : String :=
  let ds := names.map fun n => match findDapp s.dapps n with
    | some d => showDapp d
    | none => "none"
  let bs := names.map fun n => ",".intercalate ((List.range nu).map fun u =>
    match findBond s.bonds n u with
    | some b => s!"{encS (strOf b.denom)}:{b.amt}"
    | none => "-")
  let bal := dens.map fun den => ",".intercalate ((List.range (nu + 2)).map fun i => toString (s.bank.bal (showAcct i nu) den))
  let sup := dens.map fun den => toString (s.bank.supply den)
  s!"D {" ".intercalate ds} B {" ".intercalate bs} N {s.dapps.length}/{s.bonds.length} BAL {" ".intercalate bal} SUP {",".intercalate sup}"

/-! executable oracles of C20 on the model state (the harness evaluates the same on the implementation) -/
def nativeTotal (s : St) : Int := (s.dapps.filter (fun d => d.bondDenom = s.P.native)).foldl (fun acc d => acc + d.bond) 0
def oracleBits (s : St) : String :=
  let eqSum := s.dapps.all fun d => d.status != 0 || d.bond == bondSum s.bonds d.name
  let leMax := s.dapps.all fun d => d.status != 0 || d.bond ≤ (s.P.maxBond : Int) * million
  let held := nativeTotal s ≤ s.bank.bal .l2 s.P.native
  s!"sum={bool01 eqSum} max={bool01 leMax} held={bool01 held}"

def nameList (s : String) : List Bytes := if s == "-" then [] else (s.splitOn ",").map tokB

def step (st : St) (toks : List String) : St × String :=
  match toks with
  | "reset" :: rest =>
    match lookup rest "native", lookupNat rest "min", lookupNat rest "max", lookupNat rest "dur", lookupNat rest "liqthr", lookupNat rest "liqper" with
    | some nat_, some mn, some mx, some dur, some lt, some lp =>
      (genesis { native := tokB nat_, minBond := mn, maxBond := mx, bondDuration := dur, liqThreshold := lt, liqPeriod := lp } (fun _ => []) (fun _ _ => 0), "ok")
    | _, _, _, _, _, _ => (st, "bad-op")
  | ["params", a, b, c] =>
    match nat? a, nat? b, nat? c with
    | some mn, some mx, some dur => ({ st with P := { st.P with minBond := mn, maxBond := mx, bondDuration := dur } }, "ok")
    | _, _, _ => (st, "bad-op")
  | ["addr", i, a] =>
    match nat? i with
    | some i => let ab := tokB a; ({ st with addr := fun j => if j = i then ab else st.addr j }, "ok")
    | none => (st, "bad-op")
  | ["bal", a, den, x] =>
    match acct? a, int? x with
    | some a, some x =>
      let den := tokB den
      ({ st with bank := { st.bank with bal := fun a' d' => if a' = a ∧ d' = den then x else st.bank.bal a' d' } }, "ok")
    | _, _ => (st, "bad-op")
  | ["supply", den, x] =>
    match int? x with
    | some x => let den := tokB den; ({ st with bank := { st.bank with supply := fun d' => if d' = den then x else st.bank.supply d' } }, "ok")
    | none => (st, "bad-op")
  | ["tokreg", den] =>
    let den := tokB den; ({ st with bank := { st.bank with tokReg := fun d' => if d' = den then true else st.bank.tokReg d' } }, "ok")
  | "create" :: rest =>
    match parseDapp rest, lookupNat rest "t", lookupNat rest "u", (lookup rest "perm").bind parse01, lookup rest "den", lookupInt rest "amt" with
    | some d, some t, some u, some perm, some den, some amt => res st (createDapp st t u perm d (tokB den) amt)
    | _, _, _, _, _, _ => (st, "bad-op")
  | "bond" :: rest =>
    match lookupNat rest "u", lookup rest "name", lookup rest "den", lookupInt rest "amt" with
    | some u, some n, some den, some amt => res st (bondDapp st u (tokB n) (tokB den) amt)
    | _, _, _, _ => (st, "bad-op")
  | "reclaim" :: rest =>
    match lookupNat rest "u", lookup rest "name", lookup rest "den", lookupInt rest "amt" with
    | some u, some n, some den, some amt => res st (reclaimDapp st u (tokB n) (tokB den) amt)
    | _, _, _, _ => (st, "bad-op")
  | ["endblock", t] =>
    match nat? t with
    | some t => res st (endBlock st t)
    | none => (st, "bad-op")
  | "upsert" :: rest =>
    match parseDapp rest with
    | some p => res st (upsertDapp st p)
    | none => (st, "bad-op")
  | ["mredeem", n, lpden] => res st (msgRedeem st (tokB n) (tokB lpden))
  | ["mswap", n] => res st (msgSwap st (tokB n))
  | ["mconvert", n] => res st (msgConvert st (tokB n))
  | "xfer" :: rest =>
    match lookupNat rest "from", lookupNat rest "to", lookup rest "den", lookupInt rest "amt" with
    | some a, some b, some den, some amt => res st (apply st (.xfer a b (tokB den) amt))
    | _, _, _, _ => (st, "bad-op")
  | "kredeem" :: rest =>
    match lookupNat rest "t", lookupNat rest "u", lookup rest "name", (lookup rest "fee").bind Dec.fromStr, lookup rest "lpden", lookupInt rest "amt" with
    | some t, some u, some n, some fee, some lpden, some amt => kres st (kapply st (.redeem t u (tokB n) fee (tokB lpden) amt))
    | _, _, _, _, _, _ => (st, "bad-op")
  | "kswap" :: rest =>
    match lookupNat rest "u", lookup rest "name", (lookup rest "fee").bind Dec.fromStr, lookup rest "den", lookupInt rest "amt" with
    | some u, some n, some fee, some den, some amt => kres st (kapply st (.swap u (tokB n) fee (tokB den) amt))
    | _, _, _, _, _ => (st, "bad-op")
  | "kconvert" :: rest =>
    match lookupNat rest "t", lookupNat rest "u", lookup rest "n1", lookup rest "n2", lookup rest "lpden", lookupInt rest "amt" with
    | some t, some u, some n1, some n2, some lpden, some amt => kres st (kapply st (.convert t u (tokB n1) (tokB n2) (tokB lpden) amt))
    | _, _, _, _, _, _ => (st, "bad-op")
  | ["obs", names, nu, dens] =>
    match nat? nu with
    | some nu => (st, obsState st (nameList names) nu (nameList dens))
    | none => (st, "bad-op")
  | ["oracle"] => (st, oracleBits st)
  | _ => (st, "bad-op")

end Sekai.Driver.Layer2
