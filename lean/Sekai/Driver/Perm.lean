import Sekai.Model.Perm
import Sekai.Model.PermGenesis
/-! line protocol for the permission model (domain `perm`) -/
namespace Sekai.Driver.Perm
open Sekai.Perm Sekai.Util

structure D where
  s : St := {}
  saved : St := {}

def pairs (l : List (Nat × Nat)) : String :=
  let enc := l.map (fun e => e.1 * 1000000 + e.2)
  let sorted := sortNat enc
  if sorted.isEmpty then "-" else ",".intercalate (sorted.map fun v => s!"{v / 1000000}:{v % 1000000}")

def runOp (d : D) (op : Op) : D × String :=
  match Sekai.Perm.step d.s op with
  | some s' => ({ d with s := s' }, "ok")
  | none => (d, "err")

def step (d : D) (toks : List String) : D × String :=
  match toks with
  | ["reset"] => ({}, "ok")
  | ["reimport", accs, roles] =>
    -- gov ExportGenesis over the stored actors / roles, then InitGenesis of the exported state (PermGenesis, as coded:
    -- role blacklists are not replayed)
    match natList? accs, natList? roles with
    | some accs, some roles => ({ d with s := Sekai.PermGenesis.init (Sekai.PermGenesis.exportGen accs roles d.s) }, "ok")
    | _, _ => (d, "bad-op")
  | ["save"] => ({ d with saved := d.s }, "ok")
  | ["restore"] => ({ d with s := d.saved }, "ok")
  | [op, x, y] =>
    match nat? x, nat? y with
    | some x, some y =>
      match op with
      | "wl-acct" => runOp d (.wlAcct x y)
      | "bl-acct" => runOp d (.blAcct x y)
      | "rm-wl-acct" => runOp d (.rmWlAcct x y)
      | "rm-bl-acct" => runOp d (.rmBlAcct x y)
      | "assign" => runOp d (.assign x y)
      | "unassign" => runOp d (.unassign x y)
      | "wl-role" => runOp d (.wlRole x y)
      | "bl-role" => runOp d (.blRole x y)
      | "rm-wl-role" => runOp d (.rmWlRole x y)
      | "rm-bl-role" => runOp d (.rmBlRole x y)
      | "check" => (d, bool01 (checkAllowed d.s x y))
      | _ => (d, "bad-op")
    | _, _ => (d, "bad-op")
  | ["create-role"] => let r := d.s.nextRole; let (d', o) := runOp d .createRole; (d', if o == "ok" then s!"{r}" else o)
  | ["voters", p] =>
    match nat? p with
    | some p => (d, showNatList (sortNat (voters d.s p)))
    | none => (d, "bad-op")
  | ["actor", a] =>
    match nat? a with
    | some a =>
      match d.s.actors a with
      | none => (d, "none")
      | some x => (d, s!"roles={showNatList x.roles} wl={showNatList x.perms.wl} bl={showNatList x.perms.bl}")
    | none => (d, "bad-op")
  | ["role", r] =>
    match nat? r with
    | some r =>
      match d.s.roleReg r with
      | none => (d, "none")
      | some ps => (d, s!"wl={showNatList ps.wl} bl={showNatList ps.bl}")
    | none => (d, "bad-op")
  | ["idx"] => (d, s!"permaddr={pairs d.s.idxPermAddr} roleaddr={pairs d.s.idxRoleAddr} permrole={pairs d.s.idxPermRole}")
  | _ => (d, "bad-op")

end Sekai.Driver.Perm
