import Sekai.Model.Distr
/-! line protocol of the multistaking / distributor model (domain `ms`).
Coins on the wire: `pool.tok:amount,…` sorted by (pool, tok), `-` for none. Accounts: `u<i>`, `ms`, `fc`. -/
namespace Sekai.Driver.MultiStake
open Sekai Sekai.MultiStake Sekai.Util

abbrev St := Sekai.MultiStake.St

def parseDenom (s : String) : Option Denom :=
  match s.splitOn "." with
  | [p, t] => match nat? p, nat? t with
    | some p, some t => some ⟨p, t⟩
    | _, _ => none
  | _ => none

def parseCoin (s : String) : Option (Denom × Nat) :=
  match s.splitOn ":" with
  | [d, n] => match parseDenom d, nat? n with
    | some d, some n => some (d, n)
    | _, _ => none
  | _ => none

def parseCoins (s : String) : Option Coins :=
  if s == "-" then some [] else (s.splitOn ",").mapM parseCoin

def parseDenoms (s : String) : Option (List Denom) :=
  if s == "-" then some [] else (s.splitOn ",").mapM parseDenom

def parseAcct (s : String) : Option Acct :=
  if s == "ms" then some .ms else if s == "fc" then some .fc else if s == "mint" then some .mint
  else if s.startsWith "u" then (nat? (s.drop 1).toString).map Acct.user else none

def denomLt (a b : Denom) : Bool := a.pool < b.pool || (a.pool == b.pool && a.tok < b.tok)

def insertCoin (x : Denom × Nat) : List (Denom × Nat) → List (Denom × Nat)
  | [] => [x]
  | y :: ys => if denomLt x.1 y.1 then x :: y :: ys else y :: insertCoin x ys

/-- canonical form: one entry per denom (amounts summed), zeros dropped, sorted -/
def canon (c : Coins) : Coins :=
  let ks := c.foldl (fun acc dn => if acc.contains dn.1 then acc else acc ++ [dn.1]) ([] : List Denom)
  let merged : Coins := ks.map (fun d => (d, AMap.get c d))
  (merged.filter (fun dn => dn.2 != 0)).foldr insertCoin []

def showCoins (c : Coins) : String :=
  let l := canon c
  if l.isEmpty then "-" else ",".intercalate (l.map fun dn => s!"{dn.1.pool}.{dn.1.tok}:{dn.2}")

def showPool (p : Pool) : String :=
  s!"id={p.id} en={bool01 p.enabled} comm={Dec.toStr p.commission} slashed={Dec.toStr p.slashed} stake={showCoins p.stake} shares={showCoins p.shares}"

def acctCoins (s : St) (a : Acct) : Coins :=
  (s.bank.bal.filter (fun kv => kv.1.1 == a)).map (fun kv => (kv.1.2, kv.2))

def showUndel (u : Undel) : String := s!"{u.id}/{u.owner}/{u.val}/{u.expiry}/{showCoins u.amount}"

def showSnap : Option (Nat × Nat) → String
  | none => "none"
  | some (t, a) => s!"{t}/{a}"

def res (s : St) (r : Option St) : St × String :=
  match r with
  | some s' => (s', "ok")
  | none => (s, "err")

/-- executable forms of the invariants proved in `SekaiProofs.Props.C10` (evaluated on the model state) -/
def shareInvOk (s : St) : Bool :=
  s.pools.all fun p => (p.shares.map (·.1)).all fun d =>
    d.pool == p.id && AMap.get s.bank.supply d == AMap.get p.shares d

def sumStake (s : St) (d : Denom) : Nat :=
  (s.pools.map (fun p => AMap.get p.stake d)).sum + (s.undels.map (fun u => AMap.get u.amount d)).sum

def solvOk (s : St) : Bool :=
  let ds := (s.pools.flatMap (fun p => p.stake.map (·.1))) ++ (s.undels.flatMap (fun u => u.amount.map (·.1)))
  ds.all fun d => s.bal .ms d ≥ sumStake s d

def dec? (s : String) : Option Dec.D := Dec.fromStr s

def step (s : St) (toks : List String) : St × String :=
  let nat (k : String) := lookupNat toks k
  match toks with
  | ["reset"] => ({}, "ok")
  | ["tok", id, en, smin, cap, fee] =>
    match nat? id, parse01 en, nat? smin, dec? cap, dec? fee with
    | some id, some en, some smin, some cap, some fee =>
      ({ s with toks := (s.toks.filter (fun kv => kv.1 != id)) ++ [(id, { stakeEnabled := en, stakeMin := smin, stakeCap := cap, feeRate := fee })] }, "ok")
    | _, _, _, _, _ => (s, "bad-op")
  | ["upsert-tok", id, en, smin, cap, fee] =>
    match nat? id, parse01 en, nat? smin, dec? cap, dec? fee with
    | some id, some en, some smin, some cap, some fee =>
      (match upsertTok s id { stakeEnabled := en, stakeMin := smin, stakeCap := cap, feeRate := fee } with
       | some s' => (s', "ok")
       | none => (s, "err"))
    | _, _, _, _, _ => (s, "bad-op")
  | ["register-tok", id, en, smin, cap, fee] =>
    match nat? id, parse01 en, nat? smin, dec? cap, dec? fee with
    | some id, some en, some smin, some cap, some fee =>
      (match registerTok s id { stakeEnabled := en, stakeMin := smin, stakeCap := cap, feeRate := fee } with
       | some s' => (s', "ok")
       | none => (s, "err"))
    | _, _, _, _, _ => (s, "bad-op")
  | ["val", i, act] =>
    match nat? i, parse01 act with
    | some i, some act => ({ s with vals := (s.vals.filter (fun kv => kv.1 != i)) ++ [(i, act)] }, "ok")
    | _, _ => (s, "bad-op")
  | ["rank", l] =>
    match natList? l with
    | some l => ({ s with rank := l.zipIdx.map (fun ai => (ai.1, ai.2)) }, "ok")
    | none => (s, "bad-op")
  | ["vrank", l] =>
    match natList? l with
    | some l => ({ s with vrank := l.zipIdx.map (fun ai => (ai.1, ai.2)) }, "ok")
    | none => (s, "bad-op")
  | "register" :: _ =>
    match nat "a" with
    | some a => res s (registerDelegator s a)
    | none => (s, "bad-op")
  | "props" :: _ =>
    match nat "unstaking", nat "maxdel", nat "pushout", nat "autoint", (lookup toks "feeshare").bind dec?,
          (lookup toks "inflrate").bind dec?, nat "inflperiod", (lookup toks "maxinfl").bind dec?, nat "snap" with
    | some a, some b, some c, some d, some e, some f, some g, some h, some sn =>
      ({ s with props := { unstakingPeriod := a, maxDelegators := b, minDelegationPushout := c, autocompoundInterval := d,
                           validatorsFeeShare := e, inflationRate := f, inflationPeriod := g, maxAnnualInflation := h },
                snapPeriod := sn }, "ok")
    | _, _, _, _, _, _, _, _, _ => (s, "bad-op")
  | ["bal", a, c] =>
    match parseAcct a, parseCoins c with
    | some a, some c => ({ s with bank := s.bank.mint a c }, "ok")
    | _, _ => (s, "bad-op")
  | "ctx" :: _ =>
    match nat "h", nat "t" with
    | some h, some t => ({ s with height := h, now := t }, "ok")
    | _, _ => (s, "bad-op")
  | ["snap", which, t, a] =>
    match nat? t, nat? a with
    | some t, some a =>
      if which == "periodic" then ({ s with periodic := some (t, a) }, "ok")
      else ({ s with yearStart := some (t, a) }, "ok")
    | _, _ => (s, "bad-op")
  | ["treasury", c] =>
    match parseCoins c with
    | some c => ({ s with treasury := c }, "ok")
    | none => (s, "bad-op")
  | "upsert" :: _ =>
    match nat "s", nat "v", (lookup toks "en").bind parse01, (lookup toks "comm").bind dec? with
    | some a, some v, some en, some c => res s (upsertPool s a v en c)
    | _, _, _, _ => (s, "bad-op")
  | ["delegate", _, _, c] =>
    match nat "a", nat "v", parseCoins c with
    | some a, some v, some c => res s (delegate s a v c)
    | _, _, _ => (s, "bad-op")
  | ["l2burn", _, c] =>
    match nat "a", parseCoins c with
    | some a, some c => res s (l2Burn s a c)
    | _, _ => (s, "bad-op")
  | ["undelegate", _, _, c] =>
    match nat "a", nat "v", parseCoins c with
    | some a, some v, some c => res s (undelegate s a v c)
    | _, _, _ => (s, "bad-op")
  | "slash" :: _ =>
    match nat "v", (lookup toks "s").bind dec? with
    | some v, some sl => res s (slash s v sl)
    | _, _ => (s, "bad-op")
  | "claim" :: _ =>
    match nat "a", nat "id" with
    | some a, some id => res s (claimUndel s a id)
    | _, _ => (s, "bad-op")
  | "claimall" :: _ =>
    match nat "a" with
    | some a => res s (claimMatured s a)
    | _ => (s, "bad-op")
  | "claimrewards" :: _ =>
    match nat "a" with
    | some a => res s (claimRewards s a)
    | _ => (s, "bad-op")
  | ["send", _, _, c] =>
    match nat "a", nat "b", parseCoins c with
    | some a, some b, some c => res s (transfer s a b c)
    | _, _, _ => (s, "bad-op")
  | ["fee", _, c] =>
    match nat "a", parseCoins c with
    | some a, some c => res s (payFee s a c)
    | _, _ => (s, "bad-op")
  | ["compound", _, _, ds] =>
    match nat "a", (lookup toks "all").bind parse01, parseDenoms ds with
    | some a, some all, some ds => (setCompoundInfo s a all ds, "ok")
    | _, _, _ => (s, "bad-op")
  | ["rewards", _, c] =>
    match nat "v", parseCoins c with
    | some v, some c =>
      match findPool s v with
      | some p => res s (increasePoolRewards s p c)
      | none => (s, "err")
    | _, _ => (s, "bad-op")
  | "allocate" :: _ =>
    match nat "p" with
    | some p => res s (allocate s p)
    | _ => (s, "bad-op")
  | "vote" :: _ =>
    match nat "v", nat "h" with
    | some v, some h => ({ s with votes := recordVotes s.votes h [v] }, "ok")
    | _, _ => (s, "bad-op")
  | ["prune"] => ({ s with votes := s.votes.filter (fun vh => !(vh.2 + s.snapPeriod ≤ s.height)) }, "ok")
  | "prev" :: _ =>
    match nat "p" with
    | some p => ({ s with prevProposer := some p }, "ok")
    | none => (s, "bad-op")
  | "begin" :: _ =>
    match nat "h", nat "t", nat "p", (lookup toks "commit").bind natList? with
    | some h, some t, some p, some c =>
      match beginBlock s h t p c with
      | some s' => (s', "ok")
      | none => (s, "panic")
    | _, _, _, _ => (s, "bad-op")
  | ["end"] => (endBlock s, "ok")
  | "obs" :: "pool" :: _ =>
    match nat "v" with
    | some v => match findPool s v with
      | some p => (s, showPool p)
      | none => (s, "none")
    | none => (s, "bad-op")
  | ["obs", "supply", d] =>
    match parseDenom d with
    | some d => (s, toString (AMap.get s.bank.supply d))
    | none => (s, "bad-op")
  | ["obs", "acct", a] =>
    match parseAcct a with
    | some a => (s, showCoins (acctCoins s a))
    | none => (s, "bad-op")
  | ["obs", "undels"] =>
    (s, if s.undels.isEmpty then "-" else ";".intercalate (s.undels.map showUndel))
  | "obs" :: "delegators" :: _ =>
    match nat "v" with
    | some v => match findPool s v with
      | some p => (s, showNatList (sortNat ((s.delegators.filter (fun pa => pa.1 == p.id)).map (·.2))))
      | none => (s, "none")
    | none => (s, "bad-op")
  | "obs" :: "rewards" :: _ =>
    match nat "a" with
    | some a => (s, showCoins (rewardsOf s a))
    | none => (s, "bad-op")
  | "obs" :: "compound" :: _ =>
    match nat "a" with
    | some a => (s, toString (compoundOf s a).lastExec)
    | none => (s, "bad-op")
  | ["obs", "treasury"] => (s, showCoins s.treasury)
  | ["obs", "votes"] =>
    (s, if s.votes.isEmpty then "-" else ",".intercalate ((sortNat (s.votes.map (fun vh => vh.1 * 1000000 + vh.2))).map
          (fun x => s!"{x / 1000000}@{x % 1000000}")))
  | ["obs", "snap"] => (s, s!"{showSnap s.periodic} {showSnap s.yearStart}")
  | ["obs", "inv"] => (s, s!"{bool01 (shareInvOk s)} {bool01 (solvOk s)}")
  | _ => (s, "bad-op")

end Sekai.Driver.MultiStake
