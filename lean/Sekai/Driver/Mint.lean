import Sekai.Model.Mint
/-! line protocol for the monetary-policy model (domain `mint`): pure functions, no state -/
namespace Sekai.Driver.Mint
open Sekai.Mint Sekai.Util Sekai

def parseRecs (s : String) : Option (List (Nat × Nat)) :=
  if s == "-" then some [] else (s.splitOn ",").mapM fun t =>
    match t.splitOn ":" with
    | [a, p] => match nat? a, nat? p with | some a, some p => some (a, p) | _, _ => none
    | _ => none

def step (toks : List String) : String :=
  match toks with
  | ["possible", sa, st, su, now, ma] =>
    match int? sa, int? st, int? su, int? now, Dec.fromStr ma with
    | some sa, some st, some su, some now, some ma => bool01 (inflationPossible sa st su now ma)
    | _, _, _, _, _ => "bad-op"
  | ["alloc", ya, yt, pa, pt, su, now, ma, rate, period] =>
    match int? ya, int? yt, int? pa, int? pt, int? su, int? now, Dec.fromStr ma, Dec.fromStr rate, int? period with
    | some ya, some yt, some pa, some pt, some su, some now, some ma, some rate, some period =>
      toString (inflationMint ya yt pa pt su now ma rate period)
    | _, _, _, _, _, _, _, _, _ => "bad-op"
  | ["infl-block", ya, yt, pa, pt, su, now, ma, rate, period, first] =>
    match int? ya, int? yt, int? pa, int? pt, int? su, int? now, Dec.fromStr ma, Dec.fromStr rate, int? period with
    | some ya, some yt, some pa, some pt, some su, some now, some ma, some rate, some period =>
      let s := inflBlock ⟨ma, rate, period⟩ ⟨su, ya, yt, pa, pt⟩ now (first == "1")
      s!"{s.supply} {s.yAmt} {s.yTime} {s.pAmt} {s.pTime}"
    | _, _, _, _, _, _, _, _, _ => "bad-op"
  | ["ubi-upsert", hc, a, p, recs] =>
    match nat? hc, nat? a, nat? p, parseRecs recs with
    | some hc, some a, some p, some recs =>
      match ubiUpsert recs a p hc with
      | none => "panic" | some true => "ok" | some false => "err"
    | _, _, _, _ => "bad-op"
  | ["ubi-apply", hc, a, p, recs, rep] =>
    match nat? hc, nat? a, nat? p, parseRecs recs with
    | some hc, some a, some p, some recs =>
      let rep? : Option (Option Nat) := if rep == "-" then some none else (nat? rep).map some
      match rep? with
      | none => "bad-op"
      | some rep =>
        match ubiApply recs rep a p hc with
        | none => "panic" | some none => "err"
        | some (some rs) => "ok " ++ ",".intercalate (rs.map fun r => s!"{r.1}:{r.2}")
    | _, _, _, _ => "bad-op"
  | ["ubi-step", a, p, last, stop, now] =>
    match nat? a, nat? p, nat? last, nat? stop, nat? now with
    | some a, some p, some last, some stop, some now =>
      let (r, pay) := ubiStep ⟨a, p, last, stop⟩ now
      s!"{pay} {r.last}"
    | _, _, _, _, _ => "bad-op"
  | ["reg-mint", su, cap, bank, amt] =>
    match int? su, int? cap, int? bank, int? amt with
    | some su, some cap, some bank, some amt =>
      match registryMint ⟨su, cap, 0, false⟩ bank amt with
      | some (t, b) => s!"ok {t.supply} {b}" | none => "err"
    | _, _, _, _ => "bad-op"
  | ["reg-burn", su, cap, bank, amt] =>
    match int? su, int? cap, int? bank, int? amt with
    | some su, some cap, some bank, some amt =>
      match registryBurn ⟨su, cap, 0, false⟩ bank amt with
      | some (t, b) => s!"ok {t.supply} {b}" | none => "err"
    | _, _, _, _ => "bad-op"
  | ["owner-edit", su, cap, owner, dis, sender, ncap, nowner, ndis] =>
    match int? su, int? cap, nat? owner, parse01 dis, nat? sender, int? ncap, nat? nowner, parse01 ndis with
    | some su, some cap, some owner, some dis, some sender, some ncap, some nowner, some ndis =>
      match ownerEdit ⟨su, cap, owner, dis⟩ sender ncap nowner ndis with
      | some t => s!"ok {t.cap} {t.owner} {bool01 t.ownerEditDisabled}" | none => "err"
    | _, _, _, _, _, _, _, _ => "bad-op"
  | ["gov-edit", su, cap, owner, dis, psu, pcap] =>
    match int? su, int? cap, nat? owner, parse01 dis, int? psu, int? pcap with
    | some su, some cap, some owner, some dis, some psu, some pcap =>
      match govEdit ⟨su, cap, owner, dis⟩ psu pcap with
      | some t => s!"ok {t.supply} {t.cap} {t.owner} {bool01 t.ownerEditDisabled}" | none => "err"
    | _, _, _, _, _, _ => "bad-op"
  | _ => "bad-op"

end Sekai.Driver.Mint
