import Sekai.Base.Util
import Sekai.Model.Ident
/-! # x/recovery model (pseudo property REC: the recovery clauses of C03, C04, C06, C16)

Executable mirror of `x/recovery/keeper/msg_server.go` AS IT IS (RegisterRecoverySecret, RotateRecoveryAddress,
RotateValidatorByHalfRRTokenHolder, IssueRecoveryTokens, BurnRecoveryTokens, ClaimRRHolderRewards,
RegisterRRTokenHolder), of `recovery.go` / `rewards.go` (token store with its by-denom index, holder registry,
`IncreaseRecoveryTokenUnderlying`) and of the only caller outside the module,
`x/distributor/keeper/distributor.go: AllocateTokensToValidator`.

Representation.
* Addresses are small indices; `modAcc` is the recovery module account, `feeAcc` the fee collector.
* Denominations are strings (`ukex` for the bond / fees; `rr/<lower moniker>` computed by the model as the Go code does).
  Amounts are `Int` (sdk.Int); `Quo` is `Int.tdiv`. Bond, fee, rewards and underlying tokens are single-denom (`ukex`).
* KV stores keyed by an address (or by a consensus key / a denom) are FUNCTIONS `key → Option value`: `Set` overwrites,
  `Delete` removes, a store cannot hold two values under one key. Stores that the Go code iterates are lists.
* The hash of the recovery secret is symbolic: a proof is `Option Nat` — `none` when the string is not hex, `some h` where
  `h` identifies the SHA-256 digest of the decoded bytes; a stored challenge is the identifier of the digest string it
  equals. "The proof matches" is `proof = some challenge` (injectivity of SHA-256 on what the harness generates is the
  cryptographic assumption, as in the `Auth` and `Custody` models).
* "Claims of an address" that the rotations move (compound info, pool-delegator flags, delegator rewards, staking pool,
  councilor, network actor, votes, collective contributions, spending-pool claim infos, six custody records) are one
  abstract store `claims : Kind → sub → Addr → Option payload`. The Go loops `for proposal/collective/spending pool … if
  found {delete(old); set(new)}` are `moveClaim` (all sub-keys at once — proposals, collectives and spending pools are
  never deleted, so every entry belongs to an existing parent). Staking-pool RECORDS can be overwritten by a rotation,
  so the pool-delegator loop runs over `poolIds` (`moveDelegators`, `movePool`). The payload travels unchanged.
  The network actor is modelled for actors WITHOUT roles (for actors with roles the Go code re-saves the actor under the
  old address inside `UnassignRoleFromActor`; that defect concerns C07 and is reported, not modelled).
* The validator record lives in `vals` (keyed by operator address) with the consensus-address index `byCons`, written in
  the order of the Go code: `RemoveValidator(old)` then `AddValidator(new)`.
* Identity records and their address index are modelled as in `Sekai.Ident` (the index entry of the old address
  survives `DeleteIdentityRecordById`).
Every message returns `Except Err State`; the message-level cache (`step`) keeps the old state on an error. Core Lean only. -/
namespace Sekai.Recovery
open Sekai.Ident (lower isAlpha isDigit)

abbrev Addr := Nat
abbrev Denom := String

def modAcc : Addr := 900
def feeAcc : Addr := 901
def ukex : Denom := "ukex"
/-- `RecoveryFee` = 1000 KEX -/
def recoveryFee : Int := 1000000000
/-- 10'000'000 × 10⁶ recovery tokens per issue -/
def issueAmount : Int := 10000000000000
/-- `MinHoldAmount` -/
def minHold : Int := 1000000

/-- the error the implementation answers with (`codespace/code`), or a recovered panic -/
inductive Err where
  | recordMissing      -- recovery/3
  | tokenMissing       -- recovery/4
  | invalidProof       -- recovery/5
  | rotatedAccExists   -- recovery/6
  | accMissing         -- recovery/7
  | tokenExists        -- recovery/9
  | hasToken           -- recovery/10
  | notEnoughRR        -- recovery/11
  | targetHasHistory   -- recovery/12
  | insufficient       -- sdk/5
  | badHex             -- encoding/hex error (unregistered: undefined/1)
  | panic
deriving DecidableEq, Repr

def Err.show : Err → String
  | .recordMissing => "err:recovery/3"
  | .tokenMissing => "err:recovery/4"
  | .invalidProof => "err:recovery/5"
  | .rotatedAccExists => "err:recovery/6"
  | .accMissing => "err:recovery/7"
  | .tokenExists => "err:recovery/9"
  | .hasToken => "err:recovery/10"
  | .notEnoughRR => "err:recovery/11"
  | .targetHasHistory => "err:recovery/12"
  | .insufficient => "err:sdk/5"
  | .badHex => "err:undefined/1"
  | .panic => "panic"

/-- the stores a rotation moves from the old to the new address (payload unchanged) -/
inductive Kind where
  | compound | delegator | rewards | pool | councilor | actor | vote | collective | spendClaim
  | custSettings | custCustodians | custWhitelist | custLimits | custStatus | custPool
deriving DecidableEq, Repr

/-- `types.RecoveryToken` (the address is the store key) -/
structure Token where
  denom : Denom
  rrSupply : Int
  underlying : Int
deriving DecidableEq, Repr

/-- `stakingtypes.Validator`: the consensus key and everything else (status, rank, streak …) carried unchanged -/
structure Val where
  cons : Nat
  info : Nat
deriving DecidableEq, Repr

structure IdRec where
  id : Nat
  addr : Addr
  key : String
  value : String
  date : Nat
  verifiers : List Nat
deriving DecidableEq, Repr

structure IdxEntry where
  addr : Addr
  key : String
  id : Nat
deriving DecidableEq, Repr

/-- `IdentityRecordsVerify` (the escrowed tip is a claim of the requester) -/
structure Req where
  id : Nat
  addr : Addr
  verifier : Addr
  tip : Nat
deriving DecidableEq, Repr

/-- the identity registry: records by id and the (address, key) ↦ id index -/
structure Reg where
  recs : List IdRec := []
  idx : List IdxEntry := []
deriving DecidableEq, Repr

structure State where
  bal : Addr → Denom → Int := fun _ _ => 0
  supply : Denom → Int := fun _ => 0
  denoms : List Denom := []                       -- denominations in circulation (for `GetAllBalances(addr).IsAllPositive()`)
  hasAcc : Addr → Bool := fun _ => false          -- x/auth account exists
  secret : Addr → Option Nat := fun _ => none     -- RecoveryRecord.Challenge
  token : Addr → Option Token := fun _ => none    -- RecoveryToken by address
  byDenom : Denom → Option Addr := fun _ => none  -- RecoveryTokenByDenom index
  rotated : Addr → Option Addr := fun _ => none   -- rotation history, keyed by the OLD address
  holders : List (Denom × Addr) := []             -- KeyPrefixRRTokenHolder ++ denom ++ addr
  hRewards : Addr → Int := fun _ => 0             -- RR-holder rewards
  claims : Kind → Nat → Addr → Option Nat := fun _ _ _ => none
  poolIds : List Nat := []                        -- ids of the staking pools `GetAllStakingPools` returns
  lastPool : Nat := 0                             -- multistaking `LastPoolId` (no rotation writes it)
  vals : Addr → Option Val := fun _ => none
  byCons : Nat → Option Addr := fun _ => none
  queue : List Addr := []                         -- staking Removing/Reactivating queues (operator addresses)
  reg : Reg := {}
  reqs : List Req := []
  slashProps : List (Nat × Addr) := []            -- pending ProposalSlashValidator: (proposal id, offender)
  corrupt : Bool := false                         -- a stored proposal's content is no longer a `Content`
  bond : Int := 300000000000                      -- ValidatorRecoveryBond × 10⁶
  order : List Addr := []                         -- all addresses in the order of their bech32 strings (token store order)

/-! ## bank -/

def setBal (S : State) (a : Addr) (d : Denom) (x : Int) : State :=
  { S with bal := fun a' d' => if a' = a ∧ d' = d then x else S.bal a' d' }

/-- `SendCoins` and its module variants for one coin: insufficient funds is an error; the recipient account is created -/
def send (S : State) (src dst : Addr) (d : Denom) (amt : Int) : Except Err State :=
  if amt < 0 then .error .panic
  else if S.bal src d < amt then .error .insufficient
  else
    let S1 := setBal S src d (S.bal src d - amt)
    let S2 := setBal S1 dst d (S1.bal dst d + amt)
    .ok { S2 with hasAcc := fun a => if a = dst then true else S.hasAcc a }

/-- `tk.MintCoins(recovery, …)` -/
def mint (S : State) (d : Denom) (amt : Int) : State :=
  { setBal S modAcc d (S.bal modAcc d + amt) with supply := fun d' => if d' = d then S.supply d + amt else S.supply d' }

/-- `tk.BurnCoins(recovery, …)` -/
def burnCoins (S : State) (d : Denom) (amt : Int) : Except Err State :=
  if amt < 0 then .error .panic
  else if S.bal modAcc d < amt then .error .insufficient
  else .ok { setBal S modAcc d (S.bal modAcc d - amt) with supply := fun d' => if d' = d then S.supply d - amt else S.supply d' }

/-! ## identity registry (the part the recovery module reaches) -/

def uniqueKeys : List String := ["moniker", "username"]

def getRec (R : Reg) (id : Nat) : Option IdRec := R.recs.find? (fun r => r.id = id)

def idxGet (R : Reg) (a : Addr) (k : String) : Option Nat :=
  (R.idx.find? (fun e => e.addr = a ∧ e.key = k)).map (·.id)

/-- `GetAddressesByIdRecordKey` -/
def addrsByKV (R : Reg) (k v : String) : List Addr :=
  (R.recs.filter (fun r => r.key = k ∧ r.value = v)).map (·.addr)

def uniqueOk (R : Reg) (k v : String) (a : Addr) : Bool :=
  if uniqueKeys.contains k then
    match addrsByKV R k v with
    | [] => true
    | [b] => b = a
    | _ => false
  else true

/-- `SetIdentityRecord` (`.panic`: a different holder of a unique key/value exists). Stored keys were validated on entry. -/
def setRecord (R : Reg) (r : IdRec) : Except Err Reg :=
  if !uniqueOk R r.key r.value r.addr then .error .panic
  else
    let k := lower r.key
    .ok { recs := { r with key := k } :: R.recs.filter (fun x => x.id ≠ r.id),
          idx := ⟨r.addr, k, r.id⟩ :: R.idx.filter (fun e => ¬ (e.addr = r.addr ∧ e.key = k)) }

/-- `DeleteIdentityRecordById`: the address-index entry survives (deleted under `Uint64ToBigEndian(id)`, never a key) -/
def deleteRecordById (R : Reg) (id : Nat) : Reg :=
  { R with recs := R.recs.filter (fun x => x.id ≠ id) }

/-- the ids `GetIdRecordsByAddress(a)` walks through -/
def idsOf (R : Reg) (a : Addr) : List Nat := (R.idx.filter (fun e => e.addr = a)).map (·.id)

/-- `GetIdRecordsByAddress`: a dangling index entry is a panic -/
def collectRecs (R : Reg) : List Nat → Except Err (List IdRec)
  | [] => .ok []
  | id :: rest =>
    match getRec R id with
    | none => .error .panic
    | some r =>
      match collectRecs R rest with
      | .error e => .error e
      | .ok l => .ok (r :: l)

/-- `for record in records { DeleteIdentityRecordById(record.Id); record.Address = new; SetIdentityRecord(record) }` -/
def moveRecords (new : Addr) : List IdRec → Reg → Except Err Reg
  | [], R => .ok R
  | r :: rest, R =>
    match setRecord (deleteRecordById R r.id) { r with addr := new } with
    | .error e => .error e
    | .ok R1 => moveRecords new rest R1

/-- gov:identity_records of a rotation — reads and writes the registry only -/
def moveIdentity (old new : Addr) (R : Reg) : Except Err Reg :=
  match collectRecs R (idsOf R old) with
  | .error e => .error e
  | .ok rs => moveRecords new rs R

/-- the two request loops: requests of the old address get the new requester, then requests it should approve get the
new verifier (delete + set of the same id) -/
def moveReqs (old new : Addr) (S : State) : State :=
  let l1 := S.reqs.map (fun q => if q.addr = old then { q with addr := new } else q)
  let l2 := l1.map (fun q => if q.verifier = old then { q with verifier := new } else q)
  { S with reqs := l2 }

/-- `GetIdRecordsByAddressAndKeys(addr, ["moniker"])[0].Value`: a missing (or dangling) entry yields the placeholder
record with the empty value; the result always has length 1, so `ErrInvalidMoniker` is unreachable -/
def monikerOf (R : Reg) (a : Addr) : String :=
  match idxGet R a "moniker" with
  | none => ""
  | some id =>
    match getRec R id with
    | none => ""
    | some r => r.value

/-- `sdk.ValidateDenom`: `[a-zA-Z][a-zA-Z0-9/:._-]{2,127}` -/
def denomChar (c : Char) : Bool := isAlpha c || isDigit c || c == '/' || c == ':' || c == '.' || c == '_' || c == '-'
def validDenom (s : String) : Bool :=
  match s.toList with
  | [] => false
  | c :: rest => isAlpha c && rest.all denomChar && decide (2 ≤ rest.length) && decide (rest.length ≤ 127)

def rrDenom (S : State) (a : Addr) : Denom := "rr/" ++ lower (monikerOf S.reg a)

/-! ## the moves of a rotation -/

/-- `x, found := Get(old); if found { Delete(old); x.Address = new; Set(x) }` for every sub-key of one store -/
def moveClaim (k : Kind) (old new : Addr) (S : State) : State :=
  { S with claims := fun k' s a =>
      if k' = k then
        match S.claims k s old with
        | none => S.claims k' s a
        | some v => if a = new then some v else if a = old then none else S.claims k' s a
      else S.claims k' s a }

/-- the same for a store with a single entry per address (sub-key `s0`) -/
def moveClaim1 (k : Kind) (s0 : Nat) (old new : Addr) (S : State) : State :=
  { S with claims := fun k' s a =>
      if k' = k ∧ s = s0 then
        match S.claims k s0 old with
        | none => S.claims k' s a
        | some v => if a = new then some v else if a = old then none else S.claims k' s a
      else S.claims k' s a }

/-- multistaking compound info: `info := Get(old)` (the zero value when absent), `Remove(info)`, `info.Delegator = new`,
`Set(info)` — the new address ALWAYS ends with an entry (payload 0 = the zero value) -/
def moveCompound (old new : Addr) (S : State) : State :=
  { S with claims := fun k' s a =>
      if k' = Kind.compound ∧ s = 0 then
        if a = new then some ((S.claims .compound 0 old).getD 0)
        else if a = old then none
        else S.claims k' s a
      else S.claims k' s a }

/-- `for pool in GetAllStakingPools() { if IsPoolDelegator(pool.Id, old) { RemovePoolDelegator; SetPoolDelegator(pool.Id, new) } }`:
only the flags of pools whose RECORD still exists move (a pool record overwritten by an earlier rotation leaves its flags behind) -/
def moveDelegators (old new : Addr) (S : State) : State :=
  { S with claims := fun k' s a =>
      if k' = Kind.delegator ∧ S.poolIds.contains s then
        match S.claims .delegator s old with
        | none => S.claims k' s a
        | some v => if a = new then some v else if a = old then none else S.claims k' s a
      else S.claims k' s a }

/-- `pool, found := GetStakingPoolByValidator(old); if found { RemoveStakingPool(pool); pool.Validator = new; SetStakingPool(pool) }`:
the pool store is keyed by the validator, so a pool the target owned is overwritten and disappears from `GetAllStakingPools` -/
def movePool (old new : Addr) (S : State) : State :=
  match S.claims .pool 0 old with
  | none => S
  | some _ =>
    let S1 := moveClaim1 .pool 0 old new S
    if old = new then S1
    else
      match S.claims .pool 0 new with
      | none => S1
      | some w => { S1 with poolIds := S1.poolIds.filter (fun i => i ≠ w) }

/-- `MsgUpsertStakingPool` of a validator's owner: an existing pool is only (re-)enabled; otherwise the pool gets the id
`LastPoolId + 1`, which is stored back (x/multistaking/keeper/msg_server.go). `none`: the sender owns no validator. -/
def newPool (S : State) (a : Addr) : Option State :=
  match S.vals a with
  | none => none
  | some _ =>
    match S.claims .pool 0 a with
    | some _ => some S
    | none =>
      some { S with lastPool := S.lastPool + 1,
                    poolIds := (S.lastPool + 1) :: S.poolIds,
                    claims := fun k s a' => if k = Kind.pool ∧ s = 0 ∧ a' = a then some (S.lastPool + 1) else S.claims k s a' }

/-- `rewards := GetDelegatorRewards(old); if !rewards.IsZero() { Remove(old); Set(new, rewards) }` -/
def moveRewards (old new : Addr) (S : State) : State :=
  match S.claims .rewards 0 old with
  | none => S
  | some v => if v = 0 then S else moveClaim1 .rewards 0 old new S

/-- `RemoveValidator(validator)`: the record under its operator key and the consensus-address index entry -/
def removeValidator (a : Addr) (v : Val) (S : State) : State :=
  { S with vals := fun a' => if a' = a then none else S.vals a',
           byCons := fun c => if c = v.cons then none else S.byCons c }

/-- `AddValidator(validator)`: the record under its operator key, and consensus address ↦ operator key -/
def addValidator (a : Addr) (v : Val) (S : State) : State :=
  { S with vals := fun a' => if a' = a then some v else S.vals a',
           byCons := fun c => if c = v.cons then some a else S.byCons c }

/-- `validator, err := GetValidator(old); if err == nil { RemoveValidator(validator); validator.ValKey = new; AddValidator(validator) }` -/
def moveVal (old new : Addr) (S : State) : State :=
  match S.vals old with
  | none => S
  | some v => addValidator new v (removeValidator old v S)

/-- gov:proposals. `GetProposals` unmarshals every stored proposal (panic once one is corrupt). For a pending slash
proposal against the old address the code stores `NewAnyWithValue(msg)` — the rotation MESSAGE, not the content — as the
proposal's content: the stored proposal can no longer be unpacked as a `Content`. -/
def moveProposals (old : Addr) (S : State) : Except Err Bool :=
  if S.corrupt then .error .panic
  else .ok (S.slashProps.any (fun p => p.2 = old))

/-- `DeleteRecoveryToken(tok); tok.Address = new; SetRecoveryToken(tok)` -/
def moveToken (old new : Addr) (tok : Token) (S : State) : State :=
  let S1 : State := { S with token := fun a => if a = old then none else S.token a,
                             byDenom := fun d => if d = tok.denom then none else S.byDenom d }
  { S1 with token := fun a => if a = new then some tok else S1.token a,
            byDenom := fun d => if d = tok.denom then some new else S1.byDenom d }

/-- bank: `balances := GetAllBalances(old); if balances.IsAllPositive() { SendCoins(old, new, balances) }` -/
def moveCoins (old new : Addr) (S : State) : State :=
  if S.denoms.any (fun d => decide (0 < S.bal old d)) then
    { S with
      bal := fun a d => if a = old then (if old = new then S.bal old d else 0)
                        else if a = new then S.bal new d + S.bal old d else S.bal a d,
      hasAcc := fun a => if a = new then true else S.hasAcc a }
  else S

/-! ## messages -/

/-- `RegisterRecoverySecret` -/
def registerSecret (S : State) (a : Addr) (challenge : Nat) (proof : Option Nat) : Except Err State :=
  if (S.token a).isSome then .error .hasToken
  else
    match S.secret a with
    | some ch =>
      match proof with
      | none => .error .badHex
      | some p =>
        if p ≠ ch then .error .invalidProof
        else .ok { S with secret := fun a' => if a' = a then some challenge else S.secret a' }
    | none => .ok { S with secret := fun a' => if a' = a then some challenge else S.secret a' }

structure HolderMsg where
  holder : Addr
  addr : Addr
  recovery : Addr
deriving DecidableEq, Repr

/-- the store moves of `RotateValidatorByHalfRRTokenHolder` that cannot fail, in the order of the code -/
def holderMoves1 (old new : Addr) (tok : Token) (S : State) : State :=
  moveClaim .councilor old new <|
  moveVal old new <|
  movePool old new <|
  moveRewards old new <|
  moveDelegators old new <|
  moveCompound old new <|
  moveToken old new tok S

/-- `SetRotationHistory({Address: old, Rotated: new})` -/
def withRotation (S : State) (old new : Addr) : State :=
  { S with rotated := fun a => if a = old then some new else S.rotated a }

/-- the part of `RotateValidatorByHalfRRTokenHolder` after the three checks: `S` is the state at entry (registry,
proposals), `S2` the state after the store moves that cannot fail -/
def holderTail (S S2 : State) (old new : Addr) : Except Err State :=
  match moveIdentity old new S.reg with
  | .error e => .error e
  | .ok R =>
    match moveProposals old S with
    | .error e => .error e
    | .ok c =>
      .ok (moveClaim .vote old new <| moveClaim .actor old new <| moveReqs old new { S2 with reg := R, corrupt := c })

/-- `RotateValidatorByHalfRRTokenHolder` -/
def rotateByHolder (S : State) (m : HolderMsg) : Except Err State :=
  match S.token m.addr with
  | none => .error .tokenMissing
  | some tok =>
    if 2 * S.bal m.holder tok.denom < S.supply tok.denom then .error .notEnoughRR
    else if (S.rotated m.recovery).isSome then .error .targetHasHistory
    else holderTail S (holderMoves1 m.addr m.recovery tok (withRotation S m.addr m.recovery)) m.addr m.recovery

structure SecretMsg where
  feePayer : Addr
  addr : Addr
  recovery : Addr
  proof : Option Nat
deriving DecidableEq, Repr

/-- the store moves of `RotateRecoveryAddress` after the identity / proposal part, in the order of the code -/
def secretMoves2 (old new : Addr) (S : State) : State :=
  moveClaim .custPool old new <|
  moveClaim .custStatus old new <|
  moveClaim .custLimits old new <|
  moveClaim .custWhitelist old new <|
  moveClaim .custCustodians old new <|
  moveClaim .custSettings old new <|
  moveVal old new <|
  moveClaim .spendClaim old new <|
  movePool old new <|
  moveRewards old new <|
  moveDelegators old new <|
  moveCompound old new <|
  moveClaim .vote old new S

/-- the part of `RotateRecoveryAddress` after the checks: `S` is the state at entry (registry, proposals), `S2` the
state after the fee and with the rotation history written -/
def secretTail (S S2 : State) (old new : Addr) : Except Err State :=
  match moveIdentity old new S.reg with
  | .error e => .error e
  | .ok R =>
    match moveProposals old S with
    | .error e => .error e
    | .ok c =>
      .ok (secretMoves2 old new <| moveClaim .actor old new <| moveReqs old new
        { (moveClaim .councilor old new <| moveClaim .collective old new <| moveCoins old new S2) with reg := R, corrupt := c })

/-- the checks of `RotateRecoveryAddress` after the fee was paid (`S1`); the rotation history is written before the
two account checks, which do not read it -/
def secretChecks (S S1 : State) (m : SecretMsg) : Except Err State :=
  match S1.secret m.addr with
  | none => .error .recordMissing
  | some ch =>
    match m.proof with
    | none => .error .badHex
    | some p =>
      if p ≠ ch then .error .invalidProof
      else if (S1.rotated m.recovery).isSome then .error .targetHasHistory
      else if !S1.hasAcc m.addr then .error .accMissing
      else if S1.hasAcc m.recovery then .error .rotatedAccExists
      else secretTail S (withRotation S1 m.addr m.recovery) m.addr m.recovery

/-- `RotateRecoveryAddress` -/
def rotateBySecret (S : State) (m : SecretMsg) : Except Err State :=
  if (S.token m.addr).isSome then .error .hasToken
  else
    match send S m.feePayer modAcc ukex recoveryFee with
    | .error e => .error e
    | .ok S1 => secretChecks S S1 m

/-- `SetRecoveryToken({Address, Token: denom, RrSupply: 10¹³, UnderlyingTokens: bond})` (and the denom becomes known) -/
def issueRecord (S3 : State) (a : Addr) (d : Denom) (bond : Int) : State :=
  { S3 with
    token := fun a' => if a' = a then some ⟨d, issueAmount, bond⟩ else S3.token a',
    byDenom := fun d' => if d' = d then some a else S3.byDenom d',
    denoms := if S3.denoms.contains d then S3.denoms else d :: S3.denoms }

/-- `IssueRecoveryTokens` -/
def issue (S : State) (a : Addr) : Except Err State :=
  if (S.token a).isSome then .error .tokenExists
  else
    match send S a modAcc ukex S.bond with
    | .error e => .error e
    | .ok S1 =>
      if !validDenom (rrDenom S a) then .error .panic      -- sdk.NewCoin panics on an invalid denom
      else
        match send (mint S1 (rrDenom S a) issueAmount) modAcc a (rrDenom S a) issueAmount with
        | .error e => .error e
        | .ok S3 => .ok (issueRecord S3 a (rrDenom S a) S.bond)

/-- `coin.Amount.Mul(msg.RrCoin.Amount).Quo(recoveryToken.RrSupply)`, kept when positive -/
def redeemOf (tok : Token) (amt : Int) : Int :=
  if 0 < Int.tdiv (tok.underlying * amt) tok.rrSupply then Int.tdiv (tok.underlying * amt) tok.rrSupply else 0

/-- `if !redeemAmount.IsZero() { SendCoinsFromModuleToAccount(recovery, addr, redeemAmount) }` -/
def payRedeem (S : State) (a : Addr) (redeem : Int) : Except Err State :=
  if redeem = 0 then .ok S else send S modAcc a ukex redeem

/-- the record after a burn: supply and underlying reduced; deleted (with its by-denom entry) at supply zero -/
def burnRecord (S3 : State) (owner : Addr) (tok : Token) (amt redeem : Int) : State :=
  if tok.rrSupply - amt = 0 then
    { S3 with token := fun a' => if a' = owner then none else S3.token a',
              byDenom := fun d' => if d' = tok.denom then none else S3.byDenom d' }
  else
    { S3 with token := fun a' => if a' = owner then some ⟨tok.denom, tok.rrSupply - amt, tok.underlying - redeem⟩ else S3.token a',
              byDenom := fun d' => if d' = tok.denom then some owner else S3.byDenom d' }

/-- `BurnRecoveryTokens` -/
def burn (S : State) (a : Addr) (d : Denom) (amt : Int) : Except Err State :=
  match S.byDenom d with
  | none => .error .tokenMissing
  | some owner =>
    match S.token owner with
    | none => .error .tokenMissing
    | some tok =>
      if tok.rrSupply = 0 then .error .panic     -- Quo by zero (unreachable: a record is deleted at zero)
      else
        match payRedeem S a (redeemOf tok amt) with
        | .error e => .error e
        | .ok S1 =>
          match send S1 a modAcc d amt with
          | .error e => .error e
          | .ok S2 =>
            match burnCoins S2 d amt with
            | .error e => .error e
            | .ok S3 =>
              if tok.underlying - redeemOf tok amt < 0 then .error .panic     -- Coins.Sub panics
              else .ok (burnRecord S3 owner tok amt (redeemOf tok amt))

/-- `ClaimRRHolderRewards`: `ClaimRewards` panics when the module cannot pay -/
def claim (S : State) (a : Addr) : Except Err State :=
  match send S modAcc a ukex (S.hRewards a) with
  | .error _ => .error .panic
  | .ok S1 => .ok { S1 with hRewards := fun a' => if a' = a then 0 else S1.hRewards a' }

def isHolder (S : State) (d : Denom) (a : Addr) : Bool := S.holders.contains (d, a)

/-- the loop of `RegisterRRTokenHolder` over the token store (ordered by the bech32 string of the issuer) -/
def regLoop (S : State) (h : Addr) : List Addr → State
  | [] => S
  | a :: rest =>
    match S.token a with
    | none => regLoop S h rest
    | some tok =>
      if isHolder S tok.denom h then regLoop S h rest
      else if minHold ≤ S.bal h tok.denom then { S with holders := (tok.denom, h) :: S.holders }
      else regLoop S h rest

/-- `RegisterRRTokenHolder` -/
def registerHolder (S : State) (h : Addr) : Except Err State := .ok (regLoop S h S.order)

/-- `GetRRTokenHolders(denom)`: a PREFIX scan over `0x07 ++ denom ++ addr` — entries of every denom that starts with
`denom` are returned too (an address registered for `rr/val` and `rr/val2` appears twice for `rr/val`) -/
def holdersOf (S : State) (d : Denom) : List Addr :=
  (S.holders.filter (fun h => d.toList.isPrefixOf h.1.toList)).map (·.2)

def allocOne (S : State) (d : Denom) (amt sup : Int) (h : Addr) : Int := Int.tdiv (amt * S.bal h d) sup

def sumAlloc (S : State) (d : Denom) (amt sup : Int) : List Addr → Int
  | [] => 0
  | h :: rest => allocOne S d amt sup h + sumAlloc S d amt sup rest

def creditAll (S : State) (d : Denom) (amt sup : Int) : List Addr → (Addr → Int) → (Addr → Int)
  | [], f => f
  | h :: rest, f => creditAll S d amt sup rest (fun a => if a = h then f h + allocOne S d amt sup h else f a)

/-- `UnregisterNotEnoughAmountHolder(denom)` -/
def unregisterLow (S : State) (d : Denom) : State :=
  { S with holders := S.holders.filter (fun h => ¬ (h.1 = d ∧ S.bal h.2 d < minHold)) }

/-- `IncreaseRecoveryTokenUnderlying(v, amt)` after the low holders were unregistered (`S2`): allocations to the holders
the prefix scan returns, the rest to the underlying tokens, `SetRecoveryToken` -/
def increaseUnderlying (S2 : State) (v : Addr) (tok : Token) (amt : Int) : Except Err State :=
  if holdersOf S2 tok.denom ≠ [] ∧ S2.supply tok.denom = 0 then .error .panic          -- Quo by zero
  else if amt - sumAlloc S2 tok.denom amt (S2.supply tok.denom) (holdersOf S2 tok.denom) < 0 then .error .panic   -- amount.Sub(totalAllocation...) panics
  else
    .ok { S2 with
      hRewards := creditAll S2 tok.denom amt (S2.supply tok.denom) (holdersOf S2 tok.denom) S2.hRewards,
      token := fun a => if a = v then
          some ⟨tok.denom, tok.rrSupply, tok.underlying + (amt - sumAlloc S2 tok.denom amt (S2.supply tok.denom) (holdersOf S2 tok.denom))⟩
        else S2.token a,
      byDenom := fun d => if d = tok.denom then some v else S2.byDenom d }

/-- `AllocateTokensToValidator(val, tokens)` of the distributor (the only way into `IncreaseRecoveryTokenUnderlying`) -/
def allocate (S : State) (v : Addr) (amt : Int) : Except Err State :=
  match S.token v with
  | none =>
    match send S feeAcc v ukex amt with
    | .error _ => .error .panic
    | .ok S1 => .ok S1
  | some tok =>
    match send S feeAcc modAcc ukex amt with
    | .error _ => .error .panic
    | .ok S1 => increaseUnderlying (unregisterLow S1 tok.denom) v tok amt

/-! ## operations -/

inductive Op where
  | register (a : Addr) (challenge : Nat) (proof : Option Nat)
  | rotateSecret (m : SecretMsg)
  | rotateHolder (m : HolderMsg)
  | issue (a : Addr)
  | burn (a : Addr) (d : Denom) (amt : Int)
  | claim (a : Addr)
  | regHolder (a : Addr)
  | allocate (v : Addr) (amt : Int)       -- block processing (distributor), not a message
  | xfer (a b : Addr) (d : Denom) (amt : Int)   -- bank MsgSend
deriving DecidableEq, Repr

def apply (S : State) : Op → Except Err State
  | .register a c p => registerSecret S a c p
  | .rotateSecret m => rotateBySecret S m
  | .rotateHolder m => rotateByHolder S m
  | .issue a => issue S a
  | .burn a d n => burn S a d n
  | .claim a => claim S a
  | .regHolder a => registerHolder S a
  | .allocate v n => allocate S v n
  | .xfer a b d n => send S a b d n

/-- message-level cache: written only on success -/
def step (S : State) (o : Op) : State :=
  match apply S o with
  | .ok S' => S'
  | .error _ => S

def run (S : State) (ops : List Op) : State := ops.foldl step S

/-- who signs (`none`: block processing) -/
def Op.signers : Op → List Addr
  | .register a _ _ => [a]
  | .rotateSecret m => [m.feePayer, m.addr]
  | .rotateHolder m => [m.holder]
  | .issue a => [a]
  | .burn a _ _ => [a]
  | .claim a => [a]
  | .regHolder a => [a]
  | .allocate _ _ => []
  | .xfer a _ _ _ => [a]

/-! ## block processing as far as the rotations can break it -/

/-- what Begin/EndBlock need from the state the rotations write: every stored proposal unpacks, every queued
validator-set change names an existing validator record (`ApplyAndReturnValidatorSetUpdates` returns an error that
`BlockValidatorUpdates` turns into a panic), every validator is found through its consensus address
(`HandleValidatorSignature` panics otherwise) -/
def blockSafe (S : State) (active : List Nat) : Bool :=
  !S.corrupt && S.queue.all (fun a => (S.vals a).isSome) &&
  active.all (fun c => match S.byCons c with | none => false | some a => (S.vals a).isSome)

end Sekai.Recovery
