/-
Application wiring (app/app.go, app/ante/ante.go) as far as the block-level models rely on it.
The facts themselves are regenerated on every run (`Sekai.Gen.App`); this file only holds the small decidable
vocabulary in which the property files state what they need from that wiring: presence, uniqueness and
precedence inside an ordered list, and the permission sets of module accounts.
-/
namespace Sekai.App

/-- position of the first occurrence -/
def idx (l : List String) (a : String) : Option Nat :=
  match l with
  | [] => none
  | x :: xs => if x = a then some 0 else (idx xs a).map (· + 1)

/-- number of occurrences -/
def occ (l : List String) (a : String) : Nat := (l.filter (· = a)).length

/-- `a` occurs exactly once -/
def once (l : List String) (a : String) : Bool := occ l a == 1

/-- both occur exactly once and `a` comes first -/
def before (l : List String) (a b : String) : Bool :=
  once l a && once l b &&
  match idx l a, idx l b with
  | some i, some j => i < j
  | _, _ => false

/-- every element of the chain `cs` occurs once in `l`, in this relative order -/
def inOrder (l : List String) : List String → Bool
  | [] => true
  | [a] => once l a
  | a :: b :: rest => before l a b && inOrder l (b :: rest)

/-- no row of the generated table is an `unrecognised:` marker -/
def recognised (l : List String) : Bool := l.all fun s => !s.startsWith "unrecognised"

/-- module accounts holding permission `p` -/
def holders (macc : List (String × List String)) (p : String) : List String :=
  (macc.filter fun m => m.2.contains p).map (·.1)

/-- the module-name constant a bank call site names: `types.ModuleName` inside x/<m>/… is `<m>types.ModuleName`
(the import aliases of app.go follow that spelling; `customgov`/`customstaking`/`customslashing` live under
x/gov, x/staking, x/slashing) -/
def untilBar : List Char → List Char
  | ' ' :: '|' :: _ => []
  | c :: cs => c :: untilBar cs
  | [] => []

def siteModule (file arg : String) : String :=
  let first := String.ofList (untilBar arg.toList)
  if first = "types.ModuleName" then
    match file.toList with
    | 'x' :: '/' :: rest => String.ofList (rest.takeWhile (· ≠ '/')) ++ "types.ModuleName"
    | _ => first
  else first

theorem before_irrefl_example : before ["a", "b", "c"] "a" "c" = true ∧ before ["a", "b", "c"] "c" "a" = false ∧
    before ["a", "b", "a"] "a" "b" = false := by decide

end Sekai.App
