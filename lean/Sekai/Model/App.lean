/-
Application wiring (app/app.go, app/ante/ante.go) as far as the block-level models rely on it.
The facts themselves are regenerated on every run (`Sekai.Gen.App`); this file only holds the small decidable
vocabulary in which the property files state what they need from that wiring: presence, uniqueness and
precedence inside an ordered list, and the permission sets of module accounts.
-/
namespace Sekai.App

/-- position of the first occurrence -/
def idx (l : List String) (a : String) : Option Nat :=
  match l with
  | [] => none
  | x :: xs => if x = a then some 0 else (idx xs a).map (· + 1)

/-- number of occurrences -/
def occ (l : List String) (a : String) : Nat := (l.filter (· = a)).length

/-- `a` occurs exactly once -/
def once (l : List String) (a : String) : Bool := occ l a == 1

/-- both occur exactly once and `a` comes first -/
def before (l : List String) (a b : String) : Bool :=
  once l a && once l b &&
  match idx l a, idx l b with
  | some i, some j => i < j
  | _, _ => false

/-- every element of the chain `cs` occurs once in `l`, in this relative order -/
def inOrder (l : List String) : List String → Bool
  | [] => true
  | [a] => once l a
  | a :: b :: rest => before l a b && inOrder l (b :: rest)

/-- no row of the generated table is an `unrecognised:` marker -/
def recognised (l : List String) : Bool := l.all fun s => !s.startsWith "unrecognised"

/-- module accounts holding permission `p` -/
def holders (macc : List (String × List String)) (p : String) : List String :=
  (macc.filter fun m => m.2.contains p).map (·.1)

/-- the module-name constant a bank call site names: `types.ModuleName` inside x/<m>/… is `<m>types.ModuleName`
(the import aliases of app.go follow that spelling; `customgov`/`customstaking`/`customslashing` live under
x/gov, x/staking, x/slashing) -/
def untilBar : List Char → List Char
  | ' ' :: '|' :: _ => []
  | c :: cs => c :: untilBar cs
  | [] => []

def siteModule (file arg : String) : String :=
  let first := String.ofList (untilBar arg.toList)
  if first = "types.ModuleName" then
    match file.toList with
    | 'x' :: '/' :: rest => String.ofList (rest.takeWhile (· ≠ '/')) ++ "types.ModuleName"
    | _ => first
  else first

/-! ### a chain of ante decorators (`sdk.ChainAnteDecorators`): each decorator rejects, hands on to the next one, or
- the shape `Gen.App.anteEarlyAccepts` lists - returns success itself without calling `next` -/

inductive Verdict | reject | next | acceptEarly
deriving DecidableEq, Repr

/-- (accepted?, number of decorators that ran) -/
def runChain {α : Type} : List (α → Verdict) → α → Bool × Nat
  | [], _ => (true, 0)
  | d :: ds, tx =>
    match d tx with
    | .reject => (false, 1)
    | .acceptEarly => (true, 1)
    | .next => let r := runChain ds tx; (r.1, r.2 + 1)

/-- in a chain none of whose decorators accepts early, an accepted transaction has passed EVERY decorator -/
theorem accepted_passed_all {α : Type} (ds : List (α → Verdict)) (tx : α)
    (h : ∀ d ∈ ds, d tx ≠ .acceptEarly) (hacc : (runChain ds tx).1 = true) :
    (runChain ds tx).2 = ds.length ∧ ∀ d ∈ ds, d tx = .next := by
  induction ds with
  | nil => simp [runChain]
  | cons d ds ih =>
    have hd := h d (List.mem_cons_self ..)
    unfold runChain at hacc ⊢
    cases hv : d tx with
    | reject => simp [hv] at hacc
    | acceptEarly => exact absurd hv hd
    | next =>
      simp only [hv] at hacc ⊢
      have := ih (fun d' hd' => h d' (List.mem_cons_of_mem _ hd')) hacc
      refine ⟨by simp [this.1], ?_⟩
      intro d' hd'
      rcases List.mem_cons.mp hd' with e | e
      · exact e ▸ hv
      · exact this.2 d' e

/-- with an early accept the rest of the chain does not run -/
example : runChain [fun (_ : Nat) => Verdict.next, fun _ => .acceptEarly, fun _ => .reject] 0 = (true, 2) := by decide

theorem before_irrefl_example : before ["a", "b", "c"] "a" "c" = true ∧ before ["a", "b", "c"] "c" "a" = false ∧
    before ["a", "b", "a"] "a" "b" = false := by decide

end Sekai.App
