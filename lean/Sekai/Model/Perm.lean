import Sekai.Base.Util
/-! Permission model (x/gov/keeper/util.go, network_actor.go, permission_registry.go, types/types.go), core Lean only.
Actors and role registry as partial maps, the three secondary indexes as explicit key lists — exactly the
store entries the Go keeper writes and deletes. -/
namespace Sekai.Perm

structure Perms where
  wl : List Nat := []
  bl : List Nat := []
deriving Repr, DecidableEq

structure Actor where
  roles : List Nat := []
  perms : Perms := {}
deriving Repr, DecidableEq

structure St where
  actors : Nat → Option Actor := fun _ => none
  roleReg : Nat → Option Perms := fun _ => none      -- RolePermissionRegistry
  idxPermAddr : List (Nat × Nat) := []                 -- WhitelistActorPrefix ++ perm ++ addr
  idxRoleAddr : List (Nat × Nat) := []                 -- RoleActorPrefix ++ role ++ addr
  idxPermRole : List (Nat × Nat) := []                 -- WhitelistRolePrefix ++ perm ++ role
  nextRole : Nat := 1

def setActor (s : St) (a : Nat) (x : Actor) : St := { s with actors := fun b => if b = a then some x else s.actors b }
def setRole (s : St) (r : Nat) (p : Perms) : St := { s with roleReg := fun q => if q = r then some p else s.roleReg q }

/-! ### the permission map of CheckIfAllowedPermission: filled in four passes, last write wins -/
abbrev PMap := List (Nat × Bool)          -- newest binding first
def PMap.set (m : PMap) (k : Nat) (v : Bool) : PMap := (k, v) :: m
def PMap.get? : PMap → Nat → Option Bool
  | [], _ => none
  | (k, v) :: rest, p => if k = p then some v else PMap.get? rest p
def setAll (m : PMap) (ks : List Nat) (v : Bool) : PMap := ks.foldl (fun m k => m.set k v) m

/-- the body of CheckIfAllowedPermission for an existing actor; `roles` = registry entries FOUND for its role ids -/
def check (roles : List Perms) (own : Perms) (p : Nat) : Bool :=
  let m : PMap := roles.foldl (fun m r => setAll m r.wl true) []
  let m := setAll m own.wl true
  let m := roles.foldl (fun m r => setAll m r.bl false) m
  let m := setAll m own.bl false
  match m.get? p with
  | some b => b
  | none => false

/-- getRolePermissions: the registry entries found for the actor's role ids -/
def rolePermsOf (s : St) (x : Actor) : List Perms := x.roles.filterMap s.roleReg

def checkAllowed (s : St) (a p : Nat) : Bool :=
  match s.actors a with
  | none => false
  | some x => check (rolePermsOf s x) x.perms p

/-! ### Permissions.AddTo*/RemoveFrom* (types/types.go) -/
def Perms.addWl (ps : Perms) (p : Nat) : Option Perms :=
  if ps.bl.contains p then none else if ps.wl.contains p then none else some { ps with wl := ps.wl ++ [p] }
def Perms.addBl (ps : Perms) (p : Nat) : Option Perms :=
  if ps.wl.contains p then none else if ps.bl.contains p then none else some { ps with bl := ps.bl ++ [p] }
def Perms.rmWl (ps : Perms) (p : Nat) : Option Perms :=
  if ps.wl.contains p then some { ps with wl := ps.wl.erase p } else none
def Perms.rmBl (ps : Perms) (p : Nat) : Option Perms :=
  if ps.bl.contains p then some { ps with bl := ps.bl.erase p } else none

inductive Op where
  | wlAcct (a p : Nat) | blAcct (a p : Nat) | rmWlAcct (a p : Nat) | rmBlAcct (a p : Nat)
  | assign (a r : Nat) | unassign (a r : Nat)
  | createRole | wlRole (r p : Nat) | blRole (r p : Nat) | rmWlRole (r p : Nat) | rmBlRole (r p : Nat)
deriving Repr

def actorOrDefault (s : St) (a : Nat) : Actor := (s.actors a).getD {}

/-- the keeper functions as coded; `none` = the Go function returns an error (nothing written) -/
def step (s : St) : Op → Option St
  | .wlAcct a p =>   -- AddWhitelistPermission (callers pass the stored actor or NewDefaultActor)
    let x := actorOrDefault s a
    (x.perms.addWl p).map fun ps =>
      { setActor s a { x with perms := ps } with idxPermAddr := (p, a) :: s.idxPermAddr.filter (· ≠ (p, a)) }
  | .blAcct a p =>
    let x := actorOrDefault s a
    (x.perms.addBl p).map fun ps => setActor s a { x with perms := ps }
  | .rmWlAcct a p =>
    let x := actorOrDefault s a
    (x.perms.rmWl p).map fun ps =>
      { setActor s a { x with perms := ps } with idxPermAddr := s.idxPermAddr.filter (· ≠ (p, a)) }
  | .rmBlAcct a p =>
    let x := actorOrDefault s a
    (x.perms.rmBl p).map fun ps => setActor s a { x with perms := ps }
  | .assign a r =>   -- AssignRoleToAccount
    match s.roleReg r with
    | none => none
    | some _ =>
      let x := actorOrDefault s a
      if x.roles.contains r then none else
      some { setActor s a { x with roles := x.roles ++ [r] } with idxRoleAddr := (r, a) :: s.idxRoleAddr.filter (· ≠ (r, a)) }
  | .unassign a r =>
    match s.roleReg r with
    | none => none
    | some _ =>
      let x := actorOrDefault s a
      if !x.roles.contains r then none else
      some { setActor s a { x with roles := x.roles.erase r } with idxRoleAddr := s.idxRoleAddr.filter (· ≠ (r, a)) }
  | .createRole =>
    some { setRole s s.nextRole {} with nextRole := s.nextRole + 1 }
  | .wlRole r p =>
    match s.roleReg r with
    | none => none
    | some ps => (ps.addWl p).map fun ps' =>
        { setRole s r ps' with idxPermRole := (p, r) :: s.idxPermRole.filter (· ≠ (p, r)) }
  | .blRole r p =>
    match s.roleReg r with
    | none => none
    | some ps => (ps.addBl p).map fun ps' => setRole s r ps'
  | .rmWlRole r p =>
    match s.roleReg r with
    | none => none
    | some ps => (ps.rmWl p).map fun ps' =>
        { setRole s r ps' with idxPermRole := s.idxPermRole.filter (· ≠ (p, r)) }
  | .rmBlRole r p =>
    match s.roleReg r with
    | none => none
    | some ps => (ps.rmBl p).map fun ps' => setRole s r ps'

/-- message-cache semantics: an op that errors leaves the state unchanged -/
def apply (s : St) (op : Op) : St := (step s op).getD s

/-- GetNetworkActorsByAbsoluteWhitelistPermission: index walk as coded (direct entries, then for every role
whitelisting `p`, the role's members), de-duplicated. -/
def voters (s : St) (p : Nat) : List Nat :=
  let direct := (s.idxPermAddr.filter (fun e => e.1 == p)).map (·.2)
  let roles := (s.idxPermRole.filter (fun e => e.1 == p)).map (·.2)
  let via := roles.flatMap fun r => (s.idxRoleAddr.filter (fun e => e.1 == r)).map (·.2)
  (direct ++ via).eraseDups

end Sekai.Perm
