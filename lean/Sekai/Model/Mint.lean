import Sekai.Base.Dec
/-! Monetary policy (C13): block inflation (x/distributor/keeper/distributor.go AllocateTokens, annual_inflation.go
InflationPossible), the UBI hard-cap test (x/ubi/proposal_handler.go, real uint64 arithmetic), the UBI payout
(x/ubi/keeper/ubi.go ProcessUBIRecord, x/ubi/abci.go) and the token registry's supply / cap bookkeeping
(x/tokens/keeper/mint.go, burn.go, token_info.go, msg_server.go UpsertTokenInfo). Core Lean only. -/
namespace Sekai.Mint
open Sekai

def month : Int := 86400 * 30

/-- InflationPossible: `snapAmt = 0` also stands for the nil snapshot -/
def inflationPossible (snapAmt snapTime supply now : Int) (maxAnnual : Dec.D) : Bool :=
  if snapAmt = 0 then true else
  let gone := now - snapTime
  let monthIndex := Int.tdiv (gone + month - 1) month
  let currInflation := Dec.quo (Dec.ofInt supply) (Dec.ofInt snapAmt) - Dec.one
  let limit := Dec.quo (Dec.mul maxAnnual (Dec.ofInt monthIndex)) (Dec.ofInt 12)
  !(decide (currInflation ≥ limit))

/-- targetTotalSupply of AllocateTokens (period ≠ 0: validated network property) -/
def targetSupply (snapAmt snapTime now : Int) (rate : Dec.D) (period : Int) : Int :=
  snapAmt + Dec.truncInt (Dec.quo (Dec.mul (Dec.mul (Dec.ofInt snapAmt) rate) (Dec.ofInt (now - snapTime))) (Dec.ofInt period))

/-- what AllocateTokens mints (0 when the annual gate is closed or the target is not above the supply) -/
def inflationMint (ySnapAmt ySnapTime pSnapAmt pSnapTime supply now : Int) (maxAnnual rate : Dec.D) (period : Int) : Int :=
  if !inflationPossible ySnapAmt ySnapTime supply now maxAnnual then 0 else
  let t := targetSupply pSnapAmt pSnapTime now rate period
  if t > supply then t - supply else 0

/-! ### the inflation schedule over blocks (x/distributor/keeper/abci.go BeginBlocker / EndBlocker) -/
structure InflCfg where
  maxAnnual : Dec.D
  rate : Dec.D
  period : Int
deriving Repr

/-- native supply and the two stored supply snapshots (time 0 = not taken yet) -/
structure Infl where
  supply : Int
  yAmt : Int
  yTime : Int
  pAmt : Int
  pTime : Int
deriving Repr, DecidableEq

def year : Int := month * 12

/-- BeginBlocker → AllocateTokens (not at height 1): the inflation mint -/
def inflBegin (c : InflCfg) (s : Infl) (now : Int) (first : Bool) : Infl :=
  if first then s else
  { s with supply := s.supply + inflationMint s.yAmt s.yTime s.pAmt s.pTime s.supply now c.maxAnnual c.rate c.period }

/-- EndBlocker: a snapshot that was never taken, or is older than its period, is re-taken AT THE CURRENT BLOCK TIME
with the current supply -/
def inflEnd (c : InflCfg) (s : Infl) (now : Int) : Infl :=
  let s1 := if s.pTime = 0 ∨ s.pTime + c.period < now then { s with pTime := now, pAmt := s.supply } else s
  if s1.yTime = 0 ∨ s1.yTime + year < now then { s1 with yTime := now, yAmt := s1.supply } else s1

def inflBlock (c : InflCfg) (s : Infl) (now : Int) (first : Bool) : Infl := inflEnd c (inflBegin c s now first) now

/-- a chain of blocks at the given times; the ghost log records (block time, supply at the end of the block) -/
def inflRun (c : InflCfg) : Infl → List (Int × Int) → List Int → Infl × List (Int × Int)
  | s, log, [] => (s, log)
  | s, log, now :: rest =>
    let s' := inflBlock c s now false
    inflRun c s' ((now, s'.supply) :: log) rest

/-! ### UBI hard cap in Go's uint64 arithmetic (`w` = 2^64 and `ys` = 31556952 are parameters) -/
def mul64 (w a b : Nat) : Nat := (a * b) % w
def add64 (w a b : Nat) : Nat := (a + b) % w
/-- `record.Amount * yearSeconds / record.Period` (Go panics for period = 0: callers guard) -/
def term (ys w amount period : Nat) : Nat := mul64 w amount ys / period
def ubiSumFrom (ys w : Nat) (records : List (Nat × Nat)) (acc : Nat) : Nat :=
  records.foldl (fun acc r => add64 w acc (term ys w r.1 r.2)) acc
/-- the acceptance test of ApplyUpsertUBIProposalHandler -/
def accept (ys w : Nat) (records : List (Nat × Nat)) (amount period hardcap : Nat) : Bool :=
  decide (add64 w (ubiSumFrom ys w records 0) (term ys w amount period) ≤ hardcap)

def yearSeconds : Nat := 31556952
def word : Nat := 18446744073709551616

/-- the handler as coded: `none` = integer divide by zero panic (a stored or proposed period of 0) -/
def ubiUpsert (records : List (Nat × Nat)) (amount period hardcap : Nat) : Option Bool :=
  if period = 0 ∨ records.any (fun r => r.2 == 0) then none
  else some (accept yearSeconds word records amount period hardcap)

/-- the handler's effect on the record set: `none` = panic, `some none` = rejected, `some (some rs)` = accepted with
the new record set. `replace = some j` (with `j` a valid index) is an upsert under the NAME of the j-th stored record:
SetUBIRecord overwrites it; the acceptance test still counts the old record (it is not subtracted). -/
def ubiApply (records : List (Nat × Nat)) (replace : Option Nat) (amount period hardcap : Nat) :
    Option (Option (List (Nat × Nat))) :=
  match ubiUpsert records amount period hardcap with
  | none => none
  | some false => some none
  | some true =>
    match replace with
    | some j => if j < records.length then some (some (records.set j (amount, period)))
                else some (some (records ++ [(amount, period)]))
    | none => some (some (records ++ [(amount, period)]))

/-! ### UBI payout schedule (x/ubi/abci.go): a record is due when `now > last + period ∧ (end = 0 ∨ last < end)` -/
structure UbiRec where
  amount : Nat
  period : Nat
  last : Nat
  stop : Nat        -- DistributionEnd, 0 = none
deriving Repr, DecidableEq

def ubiDue (r : UbiRec) (now : Nat) : Bool := decide (now > r.last + r.period) && (r.stop == 0 || decide (r.last < r.stop))

/-- one EndBlocker pass over one (non-dynamic) record when inflation is possible: payout and new record -/
def ubiStep (r : UbiRec) (now : Nat) : UbiRec × Nat :=
  if ubiDue r now then ({ r with last := now }, r.amount * 1000000) else (r, 0)

/-! ### token registry -/
structure TokenInfo where
  supply : Int
  cap : Int           -- SupplyCap, 0 = uncapped
  owner : Nat
  ownerEditDisabled : Bool
deriving Repr, DecidableEq

/-- keeper.UpsertTokenInfo's cap test -/
def capOk (t : TokenInfo) : Bool := !(decide (t.cap > 0) && decide (t.supply > t.cap))

/-- tokens keeper MintCoins for one coin of a registered token: (registry, bank supply) -/
def registryMint (t : TokenInfo) (bank : Int) (amt : Int) : Option (TokenInfo × Int) :=
  let t' := { t with supply := t.supply + amt }
  if capOk t' then some (t', bank + amt) else none

def registryBurn (t : TokenInfo) (bank : Int) (amt : Int) : Option (TokenInfo × Int) :=
  let t' := { t with supply := t.supply - amt }
  if capOk t' then some (t', bank - amt) else none

/-- msg server UpsertTokenInfo on an EXISTING token (the owner-edit branch) -/
def ownerEdit (t : TokenInfo) (sender : Nat) (newCap : Int) (newOwner : Nat) (newDisabled : Bool) : Option TokenInfo :=
  if t.owner ≠ sender ∨ t.ownerEditDisabled then none else
  -- newCap < 0 stands for a message whose supply_cap is absent from the wire (a nil Int): for a capped token the
  -- comparison with the stored cap panics and the transaction fails
  if t.cap ≠ 0 ∧ newCap < 0 then none else
  if t.cap ≠ 0 ∧ (t.cap < newCap ∨ newCap = 0) then none else
  let t' := { t with cap := newCap, owner := newOwner, ownerEditDisabled := newDisabled }
  if capOk t' then some t' else none

/-- the `UpsertTokenInfos` governance proposal on an EXISTING token (x/tokens/proposal_handler.go): display, fee and staking
fields come from the proposal; recorded supply, supply cap, owner and the owner-edit switch - the fields of this model - are
the stored ones whatever the proposal carries in its own `supply` / `supply_cap` / `owner` fields; then the keeper's cap test -/
def govEdit (t : TokenInfo) (_propSupply _propCap : Int) : Option TokenInfo :=
  if capOk t then some t else none

end Sekai.Mint
