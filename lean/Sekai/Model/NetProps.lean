import Sekai.Base.Dec
/-! Generic interpreter for the arms of `GetNetworkProperty` / `SetNetworkProperty` and the conditions of
`ValidateNetworkProperties` (x/gov/keeper/keeper.go). The arms and conditions themselves are NOT written
here: they are regenerated from the Go source into `Sekai.Gen.NetProps` on every run. Core Lean only. -/
namespace Sekai.NetProps

inductive Expr where
  | value | strValue
  | intToBool (e : Expr) | decFromStr (e : Expr) | boolLit (b : Bool) | gtZero (e : Expr)
  | unrecognised
deriving DecidableEq, Repr

inductive Stmt where
  | assign (f : Nat) (e : Expr)
  | ifThen (c : Expr) (body : List Stmt)
  | ifElse (c : Expr) (a : List Stmt) (b : List Stmt)
  | guard (name : String) (f : Nat)
  | unrecognised
deriving Repr

inductive GetExpr where
  | u64 (f : Nat) | str (f : Nat) | boolAsInt (f : Nat) | decString (f : Nat) | missing | unrecognised
deriving DecidableEq, Repr

structure Arm where
  id : Nat
  name : String
  set : List Stmt
  get : GetExpr
deriving Repr

inductive Cond where
  | eqZero (f : Nat) | strEmpty (f : Nat)
  | ltField (a b : Nat) | gtField (a b : Nat)
  | ltConst (f : Nat) (n : Nat) | gtConst (f : Nat) (n : Nat) | leConst (f : Nat) (n : Nat)
  | decNil (f : Nat) | decNeg (f : Nat)
  | decGT (f : Nat) (lit : Int) | decGTE (f : Nat) (lit : Int) | decLT (f : Nat) (lit : Int) | decLTE (f : Nat) (lit : Int)
  | or (a b : Cond)
  | opaque (sha : String)
  | unrecognised
deriving DecidableEq, Repr

/-- value of one field of the `NetworkProperties` record; `.none` = nil Dec / never written -/
inductive Val where
  | u (n : Nat) | b (x : Bool) | d (x : Int) | s (x : String) | none
deriving DecidableEq, Repr

structure In where
  value : Nat
  strValue : String

abbrev Props := Nat → Val
def upd (P : Props) (f : Nat) (v : Val) : Props := fun g => if g = f then v else P g

section interp
variable (parseDec : String → Option Int) (guardOk : String → Props → Nat → In → Bool)

def eval (i : In) : Expr → Option Val
  | .value => some (.u i.value)
  | .strValue => some (.s i.strValue)
  | .intToBool e => match eval i e with | some (.u n) => some (.b (n != 0)) | _ => none
  | .decFromStr e => match eval i e with | some (.s str) => (parseDec str).map Val.d | _ => none
  | .boolLit b => some (.b b)
  | .gtZero e => match eval i e with | some (.u n) => some (.b (n > 0)) | _ => none
  | .unrecognised => none

mutual
def execStmt (i : In) (P : Props) : Stmt → Option Props
  | .assign f e => (eval parseDec i e).map (upd P f)
  | .ifThen c body => match eval parseDec i c with
      | some (.b true) => execList i P body
      | some (.b false) => some P
      | _ => none
  | .ifElse c a b => match eval parseDec i c with
      | some (.b true) => execList i P a
      | some (.b false) => execList i P b
      | _ => none
  | .guard name f => if guardOk name P f i then some P else none
  | .unrecognised => none
def execList (i : In) (P : Props) : List Stmt → Option Props
  | [] => some P
  | s :: rest => match execStmt i P s with
      | some P' => execList i P' rest
      | none => none
end

end interp

/-- what a getter returns -/
def getVal (P : Props) : GetExpr → Option Val
  | .u64 f => match P f with | .u n => some (.u n) | _ => none
  | .str f => match P f with | .s x => some (.s x) | _ => none
  | .boolAsInt f => match P f with | .b x => some (.u (if x then 1 else 0)) | _ => none
  | .decString f => match P f with | .d x => some (.d x) | _ => none
  | _ => none

/-- the meaning the request carries for this arm's kind -/
def requested (parseDec : String → Option Int) (i : In) : GetExpr → Option Val
  | .u64 _ => some (.u i.value)
  | .str _ => some (.s i.strValue)
  | .boolAsInt _ => some (.u (if i.value != 0 then 1 else 0))
  | .decString _ => (parseDec i.strValue).map Val.d
  | _ => none

def target : GetExpr → Option Nat
  | .u64 f | .str f | .boolAsInt f | .decString f => some f
  | _ => none

def isGuard : Stmt → Bool | .guard _ _ => true | _ => false

/-- the simple shape: optional guards, then exactly one assignment matching the getter -/
def simple (a : Arm) : Bool :=
  match a.set.dropWhile isGuard, a.get with
  | [.assign f .value], .u64 g => f == g
  | [.assign f .strValue], .str g => f == g
  | [.assign f (.intToBool .value)], .boolAsInt g => f == g
  | [.ifElse (.gtZero .value) [.assign f (.boolLit true)] [.assign f' (.boolLit false)]], .boolAsInt g => f == g && f' == g
  | [.assign f (.decFromStr .strValue)], .decString g => f == g
  | _, _ => false

/-! ### validation conditions (each condition is an ERROR condition, as in the Go `if … { return err }`) -/

def asNat (v : Val) : Option Nat := match v with | .u n => some n | _ => none
def asDec (v : Val) : Option Int := match v with | .d x => some x | _ => none

/-- `true` = the Go condition holds = the record is rejected. A Go method call on a nil Dec panics;
the Go code guards every comparison with `IsNil() ||` first, and the model returns `true` (reject) for a
nil Dec in a comparison, which is what the short-circuit yields wherever the guard is present. -/
def condHolds (opaqueSem : String → Props → Bool) (P : Props) : Cond → Bool
  | .eqZero f => (asNat (P f)) == some 0
  | .strEmpty f => P f == .s ""
  | .ltField a b => match asNat (P a), asNat (P b) with | some x, some y => x < y | _, _ => true
  | .gtField a b => match asNat (P a), asNat (P b) with | some x, some y => x > y | _, _ => true
  | .ltConst f n => match asNat (P f) with | some x => x < n | none => true
  | .gtConst f n => match asNat (P f) with | some x => x > n | none => true
  | .leConst f n => match asNat (P f) with | some x => x ≤ n | none => true
  | .decNil f => (asDec (P f)).isNone
  | .decNeg f => match asDec (P f) with | some x => x < 0 | none => true
  | .decGT f l => match asDec (P f) with | some x => x > l | none => true
  | .decGTE f l => match asDec (P f) with | some x => x ≥ l | none => true
  | .decLT f l => match asDec (P f) with | some x => x < l | none => true
  | .decLTE f l => match asDec (P f) with | some x => x ≤ l | none => true
  | .or a b => condHolds opaqueSem P a || condHolds opaqueSem P b
  | .opaque sha => opaqueSem sha P
  | .unrecognised => true

/-- `ValidateNetworkProperties` = no error condition holds -/
def validate (opaqueSem : String → Props → Bool) (conds : List Cond) (P : Props) : Bool :=
  conds.all (fun c => !condHolds opaqueSem P c)

/-- gov `InitGenesis`: `SetNetworkProperties(genesisState.NetworkProperties)` validates the whole record; the chain
starts (with exactly that record stored) only when it is valid, otherwise InitChain panics -/
def genesisInit (opaqueSem : String → Props → Bool) (conds : List Cond) (P : Props) : Option Props :=
  if validate opaqueSem conds P then some P else none

/-- `SetNetworkProperty`: run the arm, then `SetNetworkProperties` (validate, store). `none` = error, nothing stored. -/
def setProperty (parseDec : String → Option Int) (guardOk : String → Props → Nat → In → Bool)
    (opaqueSem : String → Props → Bool) (conds : List Cond)
    (arms : List Arm) (id : Nat) (i : In) (P : Props) : Option Props :=
  match arms.find? (fun a => a.id == id) with
  | none => none
  | some a =>
    match execList parseDec guardOk i P a.set with
    | none => none
    | some P' => if validate opaqueSem conds P' then some P' else none

def getProperty (arms : List Arm) (id : Nat) (P : Props) : Option Val :=
  match arms.find? (fun a => a.id == id) with
  | none => none
  | some a => getVal P a.get

/-! ### the concrete parameters used by the driver (and tied by the correspondence run) -/

def splitKeys (s : String) : List String := if s == "" then [] else s.splitOn ","

/-- `EnsureOldUniqueKeysNotRemoved`: every old key is still in the new list -/
def oldKeysKept (old new : String) : Bool := (splitKeys old).all (fun k => (splitKeys new).contains k)

def isAlpha (c : Char) : Bool := ('a' ≤ c && c ≤ 'z') || ('A' ≤ c && c ≤ 'Z')
/-- `ValidateIdentityRecordKey`: ^[a-zA-Z][_0-9a-zA-Z]*$ -/
def validKey (k : String) : Bool :=
  match k.toList with
  | [] => false
  | c :: rest => isAlpha c && rest.all (fun x => isAlpha x || x.isDigit || x == '_')

def lowerAscii (s : String) : String := String.ofList (s.toList.map fun c => if 'A' ≤ c && c ≤ 'Z' then Char.ofNat (c.toNat + 32) else c)

/-- the opaque block of ValidateNetworkProperties about `UniqueIdentityKeys` (field `f`):
rejected when not lower-case, when a key is not a valid identity key, or when `moniker` is missing -/
def uniqueKeysBad (f : Nat) (P : Props) : Bool :=
  match P f with
  | .s ks =>
    ks != lowerAscii ks || !((ks.splitOn ",").all validKey) || !((ks.splitOn ",").contains "moniker")
  | _ => true

end Sekai.NetProps
