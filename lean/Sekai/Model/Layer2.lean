import Sekai.Base.Dec
/-! Executable model of the layer-2 bond escrow and LP pool of sekai (`x/layer2`), AS CODED. Core Lean only.

Mirrors, line by line (order of checks, early returns, rounding calls):
* `keeper/msg_server.go`  `CreateDappProposal`, `BondDappProposal`, `ReclaimDappBondProposal`,
  `RedeemDappPoolTx`, `SwapDappPoolTx`, `ConvertDappPoolTx` (the handlers: inverted `dapp.Name != ""` test)
* `keeper/abci.go`        `EndBlocker` (bootstrap expiry, post-mint pay-out, liquidation halt), `FinishDappBootstrap`
* `keeper/dapp.go`        `GetUserDappBonds` (a PREFIX scan over `dapp_user_bond ++ name`), `ExecuteDappRemove`
* `keeper/lp_swap_redeem_convert.go` keeper-level `RedeemDappPoolTx`, `SwapDappPoolTx`, `ConvertDappPoolTx`
* `proposal_handler.go`   `ApplyUpsertDappProposalHandler.Apply` (stores the proposal's record wholesale)
* `types/layer2.go`       `LpToken`, `GetSpendingPoolLpDeposit`, `GetLpTokenSupply`

Names and denoms are byte strings (`List Nat`), because the store keys are byte concatenations WITHOUT separators
(`UserDappBondKey(d,u) = "dapp_user_bond" ++ d ++ u`), and `GetUserDappBonds(name)` iterates the prefix
`"dapp_user_bond" ++ name`: it also returns the bonds of every dApp whose key `d ++ addr u` merely starts with `name`.

Minimal bank: balances per (account, denom), supply per denom, "token registered in x/tokens" flag.
`sdk.Coins{c}.IsValid()` (bank send / mint / burn) demands a valid denom and a strictly positive amount.

Not modelled (documented domain limits): token supply caps of x/tokens (no cap on the native and LP denoms in the
modelled world), dApp sessions/operators/bridge accounts (never created by the modelled ops, so the session branch of
`EndBlocker` is dead), uint64 wrap-around of time sums, spending-pool contents (only pool names and the LP tokens that
move to the spending module account). A Go panic inside a message is an error (baseapp recovers); a panic inside
`EndBlocker` is reported as `Err.panic` and the block's changes are discarded (the real chain would halt: C06).

`ledger` is a GHOST field (not in Go): it is updated only inside `escrowIn`/`escrowOut`, the two places where bond money
physically moves between a user and the module, and records "deposited minus paid back" per (dApp name, user). -/
namespace Sekai.Layer2
open Sekai

abbrev Bytes := List Nat

inductive Acct where
  | user (i : Nat)
  | l2            -- the layer2 module account
  | spending      -- the spending module account (receives the LP deposit of a launched dApp)
  deriving DecidableEq, Repr

inductive Err where
  | denom | low | bank | exists | noDapp | max | noBond | notEnough | invalidLp | slippage | panic | verifiers
  deriving DecidableEq, Repr

def Err.str : Err → String
  | .denom => "err:denom" | .low => "err:low" | .bank => "err:bank" | .exists => "err:exists"
  | .noDapp => "err:nodapp" | .max => "err:max" | .noBond => "err:nobond" | .notEnough => "err:notenough"
  | .invalidLp => "err:invalidlp" | .slippage => "err:slippage" | .panic => "err:panic" | .verifiers => "err:verifiers"

/-! ### denoms -/

def isAlpha (c : Nat) : Bool := (65 ≤ c && c ≤ 90) || (97 ≤ c && c ≤ 122)
def isDenomChar (c : Nat) : Bool :=
  isAlpha c || (48 ≤ c && c ≤ 57) || c == 47 || c == 58 || c == 46 || c == 95 || c == 45
/-- `sdk.ValidateDenom`: `[a-zA-Z][a-zA-Z0-9/:._-]{2,127}` -/
def validDenom : Bytes → Bool
  | [] => false
  | c :: rest => isAlpha c && 2 ≤ rest.length && rest.length ≤ 127 && rest.all isDenomChar

/-- `"lp/"` -/
def lpPrefix : Bytes := [108, 112, 47]
/-- `Dapp.LpToken()` = `"lp/" ++ dapp.Denom` -/
def lpOf (denom : Bytes) : Bytes := lpPrefix ++ denom

/-! ### bank -/

structure Bank where
  bal : Acct → Bytes → Int
  supply : Bytes → Int
  tokReg : Bytes → Bool

def Bank.addBal (b : Bank) (a : Acct) (den : Bytes) (x : Int) : Bank :=
  { b with bal := fun a' d' => if a' = a ∧ d' = den then b.bal a' d' + x else b.bal a' d' }

/-- `SendCoins` of the single coin `amt den`: `Coins.IsValid` (valid denom, amount > 0) and enough spendable balance -/
def Bank.send (b : Bank) (src dst : Acct) (den : Bytes) (amt : Int) : Option Bank :=
  if validDenom den ∧ 0 < amt ∧ amt ≤ b.bal src den then some ((b.addBal src den (-amt)).addBal dst den amt) else none

/-- tokens-keeper `MintCoins(layer2, amt den)`: registers the token, then bank mint (valid coin required) -/
def Bank.tkMint (b : Bank) (den : Bytes) (amt : Int) : Option Bank :=
  if validDenom den ∧ 0 < amt then
    let b1 := b.addBal .l2 den amt
    some { b1 with supply := fun d => if d = den then b.supply d + amt else b.supply d
                   tokReg := fun d => if d = den then true else b.tokReg d }
  else none

/-- tokens-keeper `BurnCoins(layer2, amt den)`: token must be registered, then bank burn from the module -/
def Bank.tkBurn (b : Bank) (den : Bytes) (amt : Int) : Option Bank :=
  if b.tokReg den ∧ validDenom den ∧ 0 < amt ∧ amt ≤ b.bal .l2 den then
    let b1 := b.addBal .l2 den (-amt)
    some { b1 with supply := fun d => if d = den then b.supply d - amt else b.supply d }
  else none

/-! ### state -/

structure Params where
  native : Bytes            -- appparams.DefaultDenom
  minBond : Nat             -- network property MinDappBond (the code multiplies by 1_000_000)
  maxBond : Nat             -- MaxDappBond
  bondDuration : Nat        -- DappBondDuration
  liqThreshold : Nat        -- DappLiquidationThreshold
  liqPeriod : Nat           -- DappLiquidationPeriod

def million : Int := 1000000

structure Dapp where
  name : Bytes
  denom : Bytes
  bondDenom : Bytes         -- TotalBond.Denom
  bond : Int                -- TotalBond.Amount
  creationTime : Nat
  status : Nat              -- 0 Bootstrap, 1 Active, 2 Paused, 3 Halted
  ratio : Dec.D             -- Pool.Ratio
  drip : Nat                -- Pool.Drip
  premint : Int
  postmint : Int
  poolFee : Dec.D
  liquidationStart : Nat
  premintTime : Nat
  teamReserve : Option Nat  -- index of a user account; none = not a valid address (MustAccAddressFromBech32 panics)
  postMintPaid : Bool
  enableBondVerifiers : Bool
  deriving DecidableEq

structure UBond where
  dapp : Bytes
  user : Nat
  denom : Bytes
  amt : Int
  deriving DecidableEq

structure St where
  P : Params
  addr : Nat → Bytes        -- bech32 string (bytes) of user i
  bank : Bank
  dapps : List Dapp
  bonds : List UBond
  spools : List Bytes       -- names of the spending pools that exist
  ledger : Bytes → Nat → Int   -- GHOST: per (dApp name, user): deposited − paid back (see header)

/-! ### stores -/

def bytesLt : Bytes → Bytes → Bool
  | [], [] => false
  | [], _ :: _ => true
  | _ :: _, [] => false
  | a :: as, b :: bs => if a < b then true else if b < a then false else bytesLt as bs

def findDapp (ds : List Dapp) (name : Bytes) : Option Dapp := ds.find? (fun d => d.name = name)

def delDapp (ds : List Dapp) (name : Bytes) : List Dapp := ds.filter (fun d => ¬ d.name = name)

/-- `SetDapp`: replace the record stored under `d.name`, or add it (storage order is irrelevant: `EndBlocker`
iterates over `sortDapps`, the store-key order) -/
def setDapp : List Dapp → Dapp → List Dapp
  | [], d => [d]
  | x :: xs, d => if x.name = d.name then d :: xs else x :: setDapp xs d

def insDapp (d : Dapp) : List Dapp → List Dapp
  | [] => [d]
  | x :: xs => if bytesLt x.name d.name then x :: insDapp d xs else d :: x :: xs

/-- `GetAllDapps`: the records in store-key (byte-lexicographic name) order -/
def sortDapps : List Dapp → List Dapp
  | [] => []
  | d :: ds => insDapp d (sortDapps ds)

def findBond (bs : List UBond) (d : Bytes) (u : Nat) : Option UBond := bs.find? (fun b => b.dapp = d ∧ b.user = u)

def delBond (bs : List UBond) (d : Bytes) (u : Nat) : List UBond := bs.filter (fun b => ¬ (b.dapp = d ∧ b.user = u))

/-- `SetUserDappBond` -/
def setBond : List UBond → UBond → List UBond
  | [], nb => [nb]
  | x :: xs, nb => if x.dapp = nb.dapp ∧ x.user = nb.user then nb :: xs else x :: setBond xs nb

/-- the store key of a bond record after the table prefix: `dappName ++ user` (no separator) -/
def bondKey (addr : Nat → Bytes) (b : UBond) : Bytes := b.dapp ++ addr b.user

/-- `GetUserDappBonds(name)`: every record whose key starts with `name` -/
def scanBonds (addr : Nat → Bytes) (bs : List UBond) (name : Bytes) : List UBond :=
  bs.filter (fun b => name.isPrefixOf (bondKey addr b))

/-- recorded bond of `u` in `d` (0 when there is no record) -/
def bondAmt (bs : List UBond) (d : Bytes) (u : Nat) : Int :=
  match findBond bs d u with
  | some b => b.amt
  | none => 0

/-- Σ of the recorded user bonds of dApp `d` -/
def bondSum : List UBond → Bytes → Int
  | [], _ => 0
  | b :: bs, d => (if b.dapp = d then b.amt else 0) + bondSum bs d

/-! ### the two places where bond money moves (ghost ledger updated here and only here) -/

def St.escrowIn (s : St) (u : Nat) (name den : Bytes) (amt : Int) : Option St :=
  match s.bank.send (.user u) .l2 den amt with
  | some b => some { s with bank := b, ledger := fun n v => if n = name ∧ v = u then s.ledger n v + amt else s.ledger n v }
  | none => none

def St.escrowOut (s : St) (u : Nat) (name den : Bytes) (amt : Int) : Option St :=
  match s.bank.send .l2 (.user u) den amt with
  | some b => some { s with bank := b, ledger := fun n v => if n = name ∧ v = u then s.ledger n v - amt else s.ledger n v }
  | none => none

/-! ### msg server: bonds -/

/-- `CreateDappProposal`. `perm` = result of `keeper.CheckIfAllowedPermission(sender, …)`. The record stored is the
message's `Dapp` with `TotalBond`, `CreationTime`, `Status` overwritten. The maximum bond is NOT checked. -/
def createDapp (s : St) (t : Nat) (u : Nat) (perm : Bool) (d : Dapp) (den : Bytes) (amt : Int) : Except Err St :=
  if perm = false ∧ den ≠ s.P.native then .error .denom else
  if perm = false ∧ amt * 100 < (s.P.minBond : Int) * million then .error .low else
  -- send the initial bond to the module account (only when positive)
  match (if 0 < amt then s.escrowIn u d.name den amt else some s) with
  | none => .error .bank
  | some s1 =>
    match findDapp s1.dapps d.name with
    | some _ => .error .exists
    | none =>
      .ok { s1 with dapps := setDapp s1.dapps { d with bondDenom := den, bond := amt, creationTime := t, status := 0 }
                    bonds := setBond s1.bonds { dapp := d.name, user := u, denom := den, amt := amt } }

/-- the user-bond record written by `BondDappProposal` -/
def bondRecord (bs : List UBond) (u : Nat) (name den : Bytes) (amt : Int) : Option UBond :=
  match findBond bs name u with
  | some b => if b.denom ≠ den then none else some { b with amt := b.amt + amt }   -- Coin.Add panics on different denoms
  | none => some { dapp := name, user := u, denom := den, amt := amt }

/-- `BondDappProposal` (no status check in the code) -/
def bondDapp (s : St) (u : Nat) (name den : Bytes) (amt : Int) : Except Err St :=
  match findDapp s.dapps name with
  | none => .error .noDapp
  | some d =>
    if s.P.native ≠ den then .error .denom else
    if d.bondDenom ≠ den then .error .panic else         -- Coin.Add panics on different denoms
    if d.bond + amt > (s.P.maxBond : Int) * million then .error .max else
    match s.escrowIn u name den amt with
    | none => .error .bank
    | some s1 =>
      match bondRecord s1.bonds u name den amt with
      | none => .error .panic
      | some nb => .ok { s1 with dapps := setDapp s1.dapps { d with bond := d.bond + amt }, bonds := setBond s1.bonds nb }

/-- `ReclaimDappBondProposal` (no status check in the code) -/
def reclaimDapp (s : St) (u : Nat) (name den : Bytes) (amt : Int) : Except Err St :=
  match findDapp s.dapps name with
  | none => .error .noDapp
  | some d =>
    match findBond s.bonds name u with
    | none => .error .noBond
    | some b =>
      if b.denom ≠ den then .error .denom else
      if b.amt < amt then .error .notEnough else
      if d.bondDenom ≠ den then .error .panic else        -- Coin.Sub panics on different denoms
      if d.bond - amt < 0 then .error .panic else         -- Coin.Sub panics on a negative result
      match s.escrowOut u name den amt with
      | none => .error .bank
      | some s1 =>
        .ok { s1 with dapps := setDapp s1.dapps { d with bond := d.bond - amt }
                      bonds := setBond s1.bonds { b with amt := b.amt - amt } }

/-! ### bootstrap finish -/

/-- the loop of `ExecuteDappRemove`: pay every scanned record back, delete the key `(name, record.user)` -/
def refundLoop (s : St) (name : Bytes) : List UBond → Option St
  | [] => some s
  | b :: rest =>
    match s.escrowOut b.user b.dapp b.denom b.amt with
    | none => none
    | some s1 => refundLoop { s1 with bonds := delBond s1.bonds name b.user } name rest

/-- `ExecuteDappRemove` -/
def executeRemove (s : St) (d : Dapp) : Option St :=
  match refundLoop s d.name (scanBonds s.addr s.bonds d.name) with
  | none => none
  | some s1 => some { s1 with dapps := delDapp s1.dapps d.name }

/-- `GetSpendingPoolLpDeposit` = `NewDecFromInt(TotalBond).Mul(Pool.Ratio).RoundInt()` -/
def lpDeposit (d : Dapp) : Int := Dec.roundInt (Dec.mul (Dec.ofInt d.bond) d.ratio)
/-- `GetLpTokenSupply` -/
def lpTotalSupply (d : Dapp) : Int := lpDeposit d + d.postmint + d.premint

def dpPrefix : Bytes := [100, 112, 95]   -- "dp_"

def delBondsOf (bs : List UBond) (name : Bytes) : List UBond → List UBond
  | [] => bs
  | b :: rest => delBondsOf (delBond bs name b.user) name rest

/-- `FinishDappBootstrap(ctx, dapp)` at block time `t`; `d` is the value the caller read at the start of `EndBlocker` -/
def finishBootstrap (s : St) (t : Nat) (d : Dapp) : Except Err St :=
  if d.bond < (s.P.minBond : Int) * million then
    -- cacheCtx; write only when ExecuteDappRemove returned nil
    match executeRemove s d with
    | some s1 => .ok s1
    | none => .ok s
  else
    let userBonds := scanBonds s.addr s.bonds d.name
    let lp := lpOf d.denom
    if !validDenom lp then .ok s else
    let deposit := lpDeposit d
    let total := lpTotalSupply d
    if total < 0 then .error .panic else                 -- sdk.NewCoin(lp, totalSupply)
    match s.bank.tkMint lp total with
    | none => .error .panic                              -- `panic(err)`
    | some b1 =>
      if deposit < 0 then .error .panic else             -- NewDecCoinFromDec(lp, rate) / NewCoin(lp, deposit)
      let poolName := dpPrefix ++ d.name
      -- CreateSpendingPool on a cache ctx: fails (silently) iff the name is taken
      let spools := if s.spools.contains poolName then s.spools else poolName :: s.spools
      -- DepositSpendingPoolFromModule on a cache ctx: module-to-module send, then the pool must exist (it does)
      let b2 := match b1.send .l2 .spending lp deposit with
        | some b2 => b2
        | none => b1
      let d' : Dapp := { d with status := 3, premintTime := t }
      let s2 : St := { s with bank := b2, spools := spools, dapps := setDapp s.dapps d'
                              bonds := delBondsOf s.bonds d.name userBonds
                              ledger := fun n v => if n = d.name then 0 else s.ledger n v }
      if 0 < d.premint then
        match d.teamReserve with
        | none => .error .panic
        | some r =>
          match s2.bank.send .l2 (.user r) lp d.premint with
          | none => .error .panic
          | some b3 => .ok { s2 with bank := b3 }
      else .ok s2

/-- post-mint pay-out of the `EndBlocker` loop (sends the PREMINT amount; `PostMintPaid` is never tested);
returns the state and the (possibly modified) local copy of the dApp -/
def postMint (s : St) (t : Nat) (d : Dapp) : Except Err (St × Dapp) :=
  if d.premintTime + d.drip < t ∧ 0 < d.postmint ∧ d.status = 1 then
    match d.teamReserve with
    | none => .error .panic
    | some r =>
      if d.premint < 0 then .error .panic else
      match s.bank.send .l2 (.user r) (lpOf d.denom) d.premint with
      | none => .error .panic
      | some b => .ok ({ s with bank := b, dapps := setDapp s.dapps { d with postMintPaid := true } }, { d with postMintPaid := true })
  else .ok (s, d)

/-- liquidation halt of the `EndBlocker` loop (no session exists in the modelled world) -/
def liquidate (s : St) (t : Nat) (d : Dapp) : St :=
  if d.status = 1 ∧ d.liquidationStart + s.P.liqPeriod < t then { s with dapps := setDapp s.dapps { d with status := 3 } } else s

/-- body of the `EndBlocker` loop for one dApp value `d` of the snapshot -/
def endBlockDapp (s : St) (t : Nat) (d : Dapp) : Except Err St :=
  match (if d.status = 0 ∧ d.creationTime + s.P.bondDuration ≤ t then finishBootstrap s t d else .ok s) with
  | .error e => .error e
  | .ok s1 =>
    match postMint s1 t d with
    | .error e => .error e
    | .ok (s2, d2) => .ok (liquidate s2 t d2)

def endBlockLoop (s : St) (t : Nat) : List Dapp → Except Err St
  | [] => .ok s
  | d :: rest =>
    match endBlockDapp s t d with
    | .ok s1 => endBlockLoop s1 t rest
    | .error e => .error e

/-- `EndBlocker` at block time `t` (the XAM loop has nothing to do: no XAM is ever created by the modelled ops) -/
def endBlock (s : St) (t : Nat) : Except Err St := endBlockLoop s t (sortDapps s.dapps)

/-! ### UpsertDapp proposal -/

/-- `ApplyUpsertDappProposalHandler.Apply`: `SetDapp(ctx, p.Dapp)` — the proposal's record, wholesale -/
def upsertDapp (s : St) (p : Dapp) : Except Err St :=
  match findDapp s.dapps p.name with
  | none => .error .noDapp
  | some d =>
    if d.enableBondVerifiers ∧ !p.enableBondVerifiers then .error .verifiers
    else .ok { s with dapps := setDapp s.dapps p }

/-! ### LP: keeper level (`lp_swap_redeem_convert.go`) -/

/-- pure arithmetic of keeper `RedeemDappPoolTx`: (totalBondAfterSwap, swapBond, fee) -/
def redeemMath (T S a : Int) (fee : Dec.D) : Int × Int × Int :=
  let T' := Int.tdiv (T * S) (S + a)
  let swapBond := T - T'
  (T', swapBond, Dec.roundInt (Dec.mul (Dec.ofInt swapBond) fee))

/-- pure arithmetic of keeper `SwapDappPoolTx`: (swapLpAmount, fee) -/
def swapMath (T S b : Int) (fee : Dec.D) : Int × Int :=
  let S' := Int.tdiv (T * S) (T + b)
  let swapLp := S - S'
  (swapLp, Dec.roundInt (Dec.mul (Dec.ofInt swapLp) fee))

/-- `OnCollectFee` (only called when the fee is positive): `sdk.NewCoin` validates the denom, then tokens-keeper burn -/
def collectFee (b : Bank) (den : Bytes) (f : Int) : Except Err Bank :=
  if 0 < f then
    if validDenom den = false then .error .panic else
    match b.tkBurn den f with
    | some b' => .ok b'
    | none => .error .bank
  else .ok b

/-- the record left by keeper `RedeemDappPoolTx` (two `SetDapp` calls under the same key: bond, then liquidation start) -/
def redeemRecord (P : Params) (t : Nat) (d : Dapp) (T' : Int) : Dapp :=
  if d.liquidationStart = 0 ∧ T' < (P.liqThreshold : Int) * million then { d with bond := T', liquidationStart := t }
  else { d with bond := T' }

/-- keeper `RedeemDappPoolTx(ctx, addr, dapp, poolFee, lpTokenAmount)`; returns the state and the native coin amount paid -/
def kRedeem (s : St) (t : Nat) (u : Nat) (d : Dapp) (fee : Dec.D) (lpDen : Bytes) (a : Int) : Except Err (St × Int) :=
  if lpOf d.denom ≠ lpDen then .error .invalidLp else
  if s.bank.supply (lpOf d.denom) + a = 0 then .error .panic else          -- big.Int division by zero
  let m := redeemMath d.bond (s.bank.supply (lpOf d.denom)) a fee
  match collectFee s.bank d.bondDenom m.2.2 with
  | .error e => .error e
  | .ok b1 =>
    match b1.send (.user u) .l2 lpDen a with                               -- LP tokens go to the module (not burned)
    | none => .error .bank
    | some b2 =>
      if m.2.1 - m.2.2 < 0 ∨ validDenom d.bondDenom = false then .error .panic else   -- sdk.NewCoin(denom, swapBond − fee)
      match b2.send .l2 (.user u) d.bondDenom (m.2.1 - m.2.2) with
      | none => .error .bank
      | some b3 => .ok ({ s with bank := b3, dapps := setDapp s.dapps (redeemRecord s.P t d m.1) }, m.2.1 - m.2.2)

/-- the record left by keeper `SwapDappPoolTx` -/
def swapRecord (P : Params) (d : Dapp) (b : Int) : Dapp :=
  if d.liquidationStart ≠ 0 ∧ d.bond + b ≥ (P.liqThreshold : Int) * million then { d with bond := d.bond + b, liquidationStart := 0 }
  else { d with bond := d.bond + b }

/-- keeper `SwapDappPoolTx(ctx, addr, dapp, poolFee, swapBond)`; returns the state and the LP amount paid -/
def kSwap (s : St) (u : Nat) (d : Dapp) (fee : Dec.D) (den : Bytes) (b : Int) : Except Err (St × Int) :=
  if den ≠ s.P.native then .error .invalidLp else
  if d.bond + b = 0 then .error .panic else                                 -- big.Int division by zero
  let m := swapMath d.bond (s.bank.supply (lpOf d.denom)) b fee
  match collectFee s.bank (lpOf d.denom) m.2 with
  | .error e => .error e
  | .ok b1 =>
    match b1.send (.user u) .l2 den b with
    | none => .error .bank
    | some b2 =>
      if m.1 - m.2 < 0 ∨ validDenom (lpOf d.denom) = false then .error .panic else
      match b2.send .l2 (.user u) (lpOf d.denom) (m.1 - m.2) with           -- paid from the module's LP holdings (not minted)
      | none => .error .bank
      | some b3 => .ok ({ s with bank := b3, dapps := setDapp s.dapps (swapRecord s.P d b) }, m.1 - m.2)

/-- keeper `ConvertDappPoolTx(ctx, addr, dapp1, dapp2, lpToken)`: `dapp2` is the value the caller read BEFORE the redeem -/
def kConvert (s : St) (t : Nat) (u : Nat) (d1 d2 : Dapp) (lpDen : Bytes) (a : Int) : Except Err (St × Int) :=
  match kRedeem s t u d1 (Dec.quo d1.poolFee (Dec.ofInt 2)) lpDen a with
  | .error e => .error e
  | .ok (s1, got) => kSwap s1 u d2 (Dec.quo d2.poolFee (Dec.ofInt 2)) d1.bondDenom got

/-! ### LP: message handlers as coded (`msg_server.go`): `if dapp.Name != "" { return ErrDappDoesNotExist }` -/

/-- `msgServer.RedeemDappPoolTx`. On an existing dApp: rejected. On a missing one `GetDapp` returns the zero value
(`LpToken() = "lp/"`, `TotalBond.Amount` a nil Int): `LpTokenPrice` is zero when the supply of `lp/` is zero and
dereferences the nil Int otherwise; the keeper function then fails on the denom or on the nil Int. -/
def msgRedeem (s : St) (name lpDen : Bytes) : Except Err St :=
  match findDapp s.dapps name with
  | some _ => .error .noDapp
  | none =>
    if s.bank.supply lpPrefix ≠ 0 then .error .panic
    else if lpPrefix ≠ lpDen then .error .invalidLp
    else .error .panic

/-- `msgServer.SwapDappPoolTx`: existing dApp rejected; missing dApp: price zero ⇒ `ErrOperationExceedsSlippage` -/
def msgSwap (s : St) (name : Bytes) : Except Err St :=
  match findDapp s.dapps name with
  | some _ => .error .noDapp
  | none => if s.bank.supply lpPrefix ≠ 0 then .error .panic else .error .slippage

/-- `msgServer.ConvertDappPoolTx`: fails at the first dApp exactly like the swap handler -/
def msgConvert (s : St) (name : Bytes) : Except Err St :=
  match findDapp s.dapps name with
  | some _ => .error .noDapp
  | none => if s.bank.supply lpPrefix ≠ 0 then .error .panic else .error .slippage

/-! ### operations -/

inductive Op where
  | create (t u : Nat) (perm : Bool) (d : Dapp) (den : Bytes) (amt : Int)
  | bond (u : Nat) (name den : Bytes) (amt : Int)
  | reclaim (u : Nat) (name den : Bytes) (amt : Int)
  | endBlock (t : Nat)
  | upsert (p : Dapp)
  | msgRedeem (name lpDen : Bytes)
  | msgSwap (name : Bytes)
  | msgConvert (name : Bytes)
  | xfer (src dst : Nat) (den : Bytes) (amt : Int)      -- environment: plain bank transfer between two users

/-- keeper-level LP calls (NOT reachable through the message handlers as coded) -/
inductive KOp where
  | redeem (t u : Nat) (name : Bytes) (fee : Dec.D) (lpDen : Bytes) (a : Int)
  | swap (u : Nat) (name : Bytes) (fee : Dec.D) (den : Bytes) (b : Int)
  | convert (t u : Nat) (name1 name2 lpDen : Bytes) (a : Int)

def apply (s : St) : Op → Except Err St
  | .create t u perm d den amt => createDapp s t u perm d den amt
  | .bond u name den amt => bondDapp s u name den amt
  | .reclaim u name den amt => reclaimDapp s u name den amt
  | .endBlock t => endBlock s t
  | .upsert p => upsertDapp s p
  | .msgRedeem name lpDen => msgRedeem s name lpDen
  | .msgSwap name => msgSwap s name
  | .msgConvert name => msgConvert s name
  | .xfer src dst den amt =>
    match s.bank.send (.user src) (.user dst) den amt with
    | some b => .ok { s with bank := b }
    | none => .error .bank

/-- keeper-level call on the stored record(s); `none` when a named dApp does not exist (the harness does not call then) -/
def kapply (s : St) : KOp → Option (Except Err (St × Int))
  | .redeem t u name fee lpDen a => (findDapp s.dapps name).map fun d => kRedeem s t u d fee lpDen a
  | .swap u name fee den b => (findDapp s.dapps name).map fun d => kSwap s u d fee den b
  | .convert t u n1 n2 lpDen a =>
    match findDapp s.dapps n1, findDapp s.dapps n2 with
    | some d1, some d2 => some (kConvert s t u d1 d2 lpDen a)
    | _, _ => none

/-- baseapp's message cache: a failed operation leaves no trace -/
def step (s : St) (op : Op) : St :=
  match apply s op with
  | .ok s' => s'
  | .error _ => s

def kstep (s : St) (op : KOp) : St :=
  match kapply s op with
  | some (.ok (s', _)) => s'
  | _ => s

def run (s : St) (ops : List Op) : St := ops.foldl step s
def krun (s : St) (ops : List KOp) : St := ops.foldl kstep s

def emptyBank (bal : Acct → Bytes → Int) (native : Bytes) : Bank :=
  { bal := bal, supply := fun _ => 0, tokReg := fun d => d = native }

/-- a chain with no dApp yet -/
def genesis (P : Params) (addr : Nat → Bytes) (bal : Acct → Bytes → Int) : St :=
  { P := P, addr := addr, bank := emptyBank bal P.native, dapps := [], bonds := [], spools := [], ledger := fun _ _ => 0 }

end Sekai.Layer2
