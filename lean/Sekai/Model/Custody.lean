/-! # Custody — executable model of `x/custody` and of `CustodyDecorator` (app/ante/ante.go)

Mirrors the Go code AS IT IS (including its defects):

* `x/custody/keeper/msg_server.go`: CreateCustody, DisableCustody, DropCustody, AddToCustodians,
  RemoveFromCustodians, DropCustodians, AddToWhiteList, RemoveFromWhiteList, DropWhiteList, AddToLimits,
  RemoveFromLimits, DropLimits, Send, ApproveTransaction, DeclineTransaction, PasswordConfirm, sendReward;
  the `TargetAddress` redirection of every settings message except CreateCustody; maps with `false`
  tombstones (`len(map)` counts them); the vote store keyed by (voter, target, RAW hash string) while the
  pool is looked up by the LOWER-CASED hash; `Send` REPLACES the whole pool of the sender.
* `x/custody/keeper/custody.go`: setters/getters (`SetCustodyRecordKey` dereferences a missing record).
* `app/ante/ante.go` `CustodyDecorator.AnteHandle`: per message, keyed by the message's `Type()` string as
  returned by `x/custody/types/msg.go` (Approve/Decline return `add_to_custody_custodians`, the three limits
  messages return the whitelist type strings, so for a signer with custody enabled they fail the type
  assertion); `sha256(OldKey)` against the stored key; the `bank.MsgSend` branch (custodians, whitelist,
  limit bookkeeping with `uint64` wrap-around, block time instead of the wall clock).
* baseapp transaction loop (trusted, DESIGN §2): ValidateBasic, ante on a branch (written iff it succeeds),
  messages on a branch (written iff all succeed); a Go panic inside either is an error (`Err.panic`).

Symbolic data (all numeric so that closed witnesses are decidable by the kernel):

* keys: a plaintext key is a number `k`; `keyHash k = Key.H k` is an INJECTIVE CONSTRUCTOR standing for
  `hex(sha256(plaintext k))`; `Key.raw n` is any other string stored as a key (not known to be a hash).
* strings in `NextController` / `TargetAddress`: `TStr.empty`, `TStr.addr a` (bech32 of account `a`),
  `TStr.junk n` (a string that is not a valid address).
* transaction hashes: `HashStr.id` identifies the lower-case hex string, `HashStr.variant` (0 = the lower-case
  string itself) distinguishes strings that differ only in letter case (`strings.ToLower` maps all to `id`).
* denominations: numbers (0 = `ukex`, the default denom); passwords: numbers; a limit's duration string is
  represented by the number of milliseconds Go's `time.ParseDuration` returns for it (0 if it fails).
* bank: `bal : Addr → Denom → Nat`, `SendCoins` = subtract (error if insufficient) then add; module accounts
  (blocked addresses) and disabled sends are outside the modelled recipients. Fee: `DeductFee` to `feeCollector`.

Core Lean only. -/
namespace Sekai.Custody

abbrev Addr := Nat
abbrev Denom := Nat
abbrev Coins := List (Denom × Nat)

def U64 : Nat := 18446744073709551616
def feeCollector : Addr := 1000000

/-- stored key strings -/
inductive Key where
  | H (k : Nat)      -- hex(sha256(plaintext k))
  | raw (n : Nat)    -- any other string
deriving DecidableEq, Repr

/-- `hex(sha256(·))` as an injective constructor -/
def keyHash (k : Nat) : Key := .H k

inductive TStr where
  | empty | addr (a : Addr) | junk (n : Nat)
deriving DecidableEq, Repr

structure HashStr where
  id : Nat
  variant : Nat := 0
deriving DecidableEq, Repr

structure Settings where
  enabled : Bool := false
  mode : Nat := 0
  usePassword : Bool := false
  useWhiteList : Bool := false
  useLimits : Bool := false
  key : Key := .raw 0
  next : TStr := .empty
deriving DecidableEq, Repr

structure Limit where
  amount : Nat
  ms : Nat
deriving DecidableEq, Repr

structure Status where
  amount : Nat
  time : Int
deriving DecidableEq, Repr

structure TxRec where
  frm : Addr
  to : Addr
  amount : Coins
  password : Nat
  reward : Coins
  votes : Nat := 0
  confirmed : Bool := false
deriving DecidableEq, Repr

structure VoteKey where
  voter : Addr
  target : Addr
  hash : HashStr
deriving DecidableEq, Repr

/-! ## association lists standing for Go maps (keys unique; `len(map)` = length) -/
section alist
variable {κ : Type} {β : Type} [DecidableEq κ]

def aget : List (κ × β) → κ → Option β
  | [], _ => none
  | (k', v) :: t, k => if k' = k then some v else aget t k

def aset : List (κ × β) → κ → β → List (κ × β)
  | [], k, v => [(k, v)]
  | (k', v') :: t, k, v => if k' = k then (k, v) :: t else (k', v') :: aset t k v

def adel : List (κ × β) → κ → List (κ × β)
  | [], _ => []
  | (k', v') :: t, k => if k' = k then adel t k else (k', v') :: adel t k
end alist

def upd {β : Type} (f : Addr → β) (a : Addr) (v : β) : Addr → β := fun x => if x = a then v else f x

abbrev Bal := Addr → Denom → Nat

structure State where
  minReward : Nat := 200                                   -- network property MinCustodyReward
  settings : Addr → Option Settings := fun _ => none
  custodians : Addr → Option (List (Addr × Bool)) := fun _ => none
  whitelist : Addr → Option (List (Addr × Bool)) := fun _ => none
  limits : Addr → Option (List (Denom × Limit)) := fun _ => none
  status : Addr → Option (List (Denom × Status)) := fun _ => none
  pool : Addr → Option (List (Nat × TxRec)) := fun _ => none     -- keyed by the lower-case hash
  votes : List (VoteKey × Int) := []                              -- "1" / "-1" under (voter, target, raw hash)
  bal : Bal := fun _ _ => 0

inductive Err where
  | basic      -- ValidateBasic of the message
  | wrongKey   -- custody 6
  | target     -- custody 8
  | invType    -- sdk 29 ErrInvalidType
  | reward     -- custody 7
  | conflict   -- sdk 36 ErrConflict ("use custody send instead")
  | notWl      -- custody 4
  | limits     -- custody 5
  | noList     -- custody 2
  | noElem     -- custody 3
  | funds      -- sdk 5 insufficient funds
  | panic      -- recovered Go panic (sdk 111222)
deriving DecidableEq, Repr

/-! ## bank -/

def amountOf (c : Coins) (d : Denom) : Nat := (c.filter (fun x => x.1 = d)).foldl (fun acc x => acc + x.2) 0

def subCoins (b : Bal) (a : Addr) : Coins → Option Bal
  | [] => some b
  | (d, n) :: t => if b a d < n then none else subCoins (fun x y => if x = a ∧ y = d then b a d - n else b x y) a t

def addCoins (b : Bal) (a : Addr) : Coins → Bal
  | [] => b
  | (d, n) :: t => addCoins (fun x y => if x = a ∧ y = d then b a d + n else b x y) a t

/-- `bank.SendCoins`: error if any coin exceeds the balance -/
def sendCoins (b : Bal) (frm to : Addr) (c : Coins) : Option Bal :=
  match subCoins b frm c with
  | none => none
  | some b1 => some (addCoins b1 to c)

/-! ## messages -/

/-- the four strings every settings message carries -/
structure KeyArgs where
  old : Nat            -- plaintext `OldKey`
  new : Key            -- `NewKey` (stored as is)
  next : TStr          -- `NextAddress`
  target : TStr        -- `TargetAddress`
deriving DecidableEq, Repr

inductive Msg where
  | create (signer : Addr) (set : Settings) (k : KeyArgs)      -- `set.key`/`set.next` are overwritten by k.new/k.next
  | disable (signer : Addr) (k : KeyArgs)
  | drop (signer : Addr) (k : KeyArgs)
  | addCust (signer : Addr) (add : List Addr) (k : KeyArgs)
  | rmCust (signer : Addr) (rm : Addr) (k : KeyArgs)
  | dropCust (signer : Addr) (k : KeyArgs)
  | addWl (signer : Addr) (add : List Addr) (k : KeyArgs)
  | rmWl (signer : Addr) (rm : Addr) (k : KeyArgs)
  | dropWl (signer : Addr) (k : KeyArgs)
  | addLim (signer : Addr) (denom : Denom) (amount : Nat) (ms : Nat) (k : KeyArgs)
  | rmLim (signer : Addr) (denom : Denom) (k : KeyArgs)
  | dropLim (signer : Addr) (k : KeyArgs)
  | send (signer : Addr) (to : Addr) (amount : Coins) (password : Nat) (reward : Coins) (txHash : Nat)
  | approve (signer : Addr) (target : Addr) (h : HashStr)
  | decline (signer : Addr) (target : Addr) (h : HashStr)
  | confirm (signer : Addr) (sender : Addr) (h : HashStr) (password : Nat)
  | bankSend (signer : Addr) (to : Addr) (amount : Coins)
  | multiSend (signer : Addr) (to : Addr) (amount : Coins)    -- one input (the signer), one output
deriving DecidableEq, Repr

def Msg.signer : Msg → Addr
  | .create s .. | .disable s .. | .drop s .. | .addCust s .. | .rmCust s .. | .dropCust s ..
  | .addWl s .. | .rmWl s .. | .dropWl s .. | .addLim s .. | .rmLim s .. | .dropLim s ..
  | .send s .. | .approve s .. | .decline s .. | .confirm s .. | .bankSend s .. | .multiSend s .. => s

/-- the messages whose branch of the decorator's `switch` compares `sha256(OldKey)` with the stored key -/
def Msg.keyArgsChecked : Msg → Option KeyArgs
  | .create _ _ k | .addCust _ _ k | .rmCust _ _ k | .dropCust _ k | .addWl _ _ k | .rmWl _ _ k | .dropWl _ k => some k
  | _ => none

/-- the messages whose `Type()` string hits a `case` of another message type, so the type assertion fails -/
def Msg.typeClash : Msg → Bool
  | .approve .. | .decline .. | .addLim .. | .rmLim .. | .dropLim .. => true
  | _ => false

def coinsValid (c : Coins) : Bool := !c.isEmpty && c.all (fun x => x.2 > 0)

/-- `ValidateBasic` (custody messages return nil except `MsgSend`; bank sends need valid positive coins) -/
def validateBasic : Msg → Bool
  | .send _ _ amount _ _ _ => coinsValid amount
  | .bankSend _ _ amount => coinsValid amount
  | .multiSend _ _ amount => coinsValid amount
  | _ => true

/-! ## `CustodyDecorator.AnteHandle`, one message -/

/-- the block every key-checked `case` consists of: target first, then the key -/
def keyCheck (st : Settings) (k : KeyArgs) : Except Err Unit :=
  if k.target ≠ .empty ∧ k.target ≠ st.next then .error .target
  else if keyHash k.old ≠ st.key then .error .wrongKey
  else .ok ()

/-- first half of the loop body: the `switch kiratypes.MsgType(msg)` under `settings != nil && settings.CustodyEnabled` -/
def anteSwitch (s : State) (m : Msg) : Except Err Unit :=
  match s.settings m.signer with
  | none => .ok ()
  | some st =>
    if !st.enabled then .ok () else
    match m.keyArgsChecked with
    | some k => keyCheck st k
    | none =>
      if m.typeClash then .error .invType else
      match m with
      | .send signer _ _ _ reward _ =>
        match s.custodians signer with
        | none => .error .panic                       -- custodians.Addresses on a nil record
        | some cs =>
          match reward with
          | [] => .error .reward
          | (rd, ra) :: _ =>
            if ra ≥ U64 then .error .panic            -- Int.Uint64() out of range
            else if ra < (s.minReward * cs.length) % U64 then .error .reward
            else if rd ≠ 0 then .error .reward
            else .ok ()
      | _ => .ok ()

def u64sub (a b : Nat) : Nat := (a % U64 + U64 - b % U64) % U64

/-- custodians and whitelist tests of the bank branch -/
def bankGuard (s : State) (st : Settings) (signer to : Addr) : Except Err Unit :=
  -- custody enabled: any custodian entry (tombstones included) blocks the plain send
  match (if st.enabled then
          match s.custodians signer with
          | none => Except.error Err.panic            -- custodians.Addresses on a nil record
          | some cs => if cs.length > 0 then .error .conflict else .ok ()
        else .ok ()) with
  | .error e => .error e
  | .ok () =>
    if st.useWhiteList then
      match s.whitelist signer with
      | none => .ok ()
      | some wl => if aget wl to = some true then .ok () else .error .notWl
    else .ok ()

/-- `newAmount` of the limits block; `cur` = the stored status of the denom (nil ⇒ the plain amount) -/
def newAmount (now : Int) (s : State) (signer : Addr) (d : Denom) (amt : Nat) (cur : Option Status) : Except Err Nat :=
  match cur with
  | none => .ok amt
  | some cs =>
    match s.limits signer with
    | none => .error .panic
    | some ls =>
      match aget ls d with
      | none => .error .panic
      | some lim =>
        if lim.ms % U64 = 0 then .error .panic else              -- integer divide by zero
        let rate := (lim.amount % U64) / (lim.ms % U64)
        let period := ((now - cs.time) % (U64 : Int)).toNat         -- uint64(int64 difference)
        let na := u64sub (cs.amount + amt) (period * rate)
        if na = 0 then .error .limits else .ok na                   -- `newAmount <= 0` on a uint64

/-- the `UseLimits` block: returns the limit-status record to store -/
def limitCalc (now : Int) (s : State) (signer : Addr) (amount : Coins) : Except Err (List (Denom × Status)) :=
  match amount with
  | [] => .error .panic
  | (d, _) :: _ =>
    let amt := amountOf amount d
    if amt ≥ U64 then .error .panic else                            -- Int.Uint64() out of range
    match s.status signer with
    | none => .error .panic          -- nothing can fail before `CustodyStatuses.Statuses[d] = …` on the nil record
    | some [] => .error .panic       -- … or on the nil map of an empty stored record
    | some l =>
      match newAmount now s signer d amt (aget l d) with
      | .error e => .error e
      | .ok na => .ok (aset l d ⟨na, 0⟩)                           -- `&CustodyStatus{Amount: newAmount}` (Time stays 0)

/-- second half: `if kiratypes.MsgType(msg) == bank.TypeMsgSend` -/
def anteBankCalc (now : Int) (s : State) (signer to : Addr) (amount : Coins) :
    Except Err (Option (List (Denom × Status))) :=      -- `some l`: the limit-status record to store for the signer
  match s.settings signer with
  | none => .ok none
  | some st =>
    match bankGuard s st signer to with
    | .error e => .error e
    | .ok () =>
      if !st.useLimits then .ok none else
      match limitCalc now s signer amount with
      | .error e => .error e
      | .ok l => .ok (some l)

def anteBank (now : Int) (s : State) (signer to : Addr) (amount : Coins) : Except Err State :=
  match anteBankCalc now s signer to amount with
  | .error e => .error e
  | .ok none => .ok s
  | .ok (some l) => .ok { s with status := upd s.status signer (some l) }     -- AddToCustodyLimitsStatus

def anteMsg (now : Int) (s : State) (m : Msg) : Except Err State :=
  match anteSwitch s m with
  | .error e => .error e
  | .ok () =>
    match m with
    | .bankSend signer to amount => anteBank now s signer to amount
    | _ => .ok s

def anteAll (now : Int) (s : State) : List Msg → Except Err State
  | [] => .ok s
  | m :: t => match anteMsg now s m with
    | .error e => .error e
    | .ok s1 => anteAll now s1 t

/-! ## message server -/

/-- `if msg.TargetAddress != "" { … AccAddressFromBech32 … msg.Address = targetAddr }` -/
def resolve (signer : Addr) (t : TStr) : Except Err Addr :=
  match t with
  | .empty => .ok signer
  | .addr a => .ok a
  | .junk _ => .error .target

/-- `SetCustodyRecordKey`: dereferences the record (nil ⇒ panic) -/
def setKey (s : State) (a : Addr) (k : KeyArgs) : Except Err State :=
  match s.settings a with
  | none => .error .panic
  | some st => .ok { s with settings := upd s.settings a (some { st with key := k.new, next := k.next }) }

def addAll (l : List (Addr × Bool)) : List Addr → List (Addr × Bool)
  | [] => l
  | a :: t => addAll (aset l a true) t

/-- the map a handler is about to write into: a missing record gets a fresh map; a stored record with no
entries unmarshals with a NIL map, and writing into it panics (`noWrite` = the handler's loop is empty) -/
def mapForAdd {β : Type} (rec_ : Option (List β)) (noWrite : Bool) : Option (List β) :=
  match rec_ with
  | none => some []
  | some [] => if noWrite then some [] else none
  | some l => some l

def rewardShare (reward : Coins) (n : Nat) : Option Coins :=
  match reward with
  | [] => none
  | (rd, ra) :: _ => if n = 0 then none else if ra / n = 0 then some [] else some [(rd, ra / n)]

def allowCustodians (st : Option Settings) (n votes : Nat) : Bool :=
  match st with
  | some st => if st.enabled && n > 0 then decide ((votes * 100 % U64) / n ≥ st.mode) else true
  | none => true

def allowPassword (st : Option Settings) (confirmed : Bool) : Bool :=
  match st with
  | some st => if st.usePassword then confirmed else true
  | none => true

def execMsg (s : State) : Msg → Except Err State
  | .create signer set k =>
    .ok { s with settings := upd s.settings signer (some { set with key := k.new, next := k.next }) }
  | .disable signer k =>
    match resolve signer k.target with
    | .error e => .error e
    | .ok a =>
      match s.settings a with
      | none => .error .panic
      | some st => .ok { s with settings := upd s.settings a (some { st with enabled := false }) }
  | .drop signer k =>
    match resolve signer k.target with
    | .error e => .error e
    | .ok a => .ok { s with settings := upd s.settings a none }
  | .addCust signer add k =>
    match resolve signer k.target with
    | .error e => .error e
    | .ok a =>
      match mapForAdd (s.custodians a) add.isEmpty with
      | none => .error .panic
      | some cur =>
        match setKey s a k with
        | .error e => .error e
        | .ok s1 => .ok { s1 with custodians := upd s1.custodians a (some (addAll cur add)) }
  | .rmCust signer rm k =>
    match resolve signer k.target with
    | .error e => .error e
    | .ok a =>
      match s.custodians a with
      | none => .error .noList
      | some l =>
        if aget l rm ≠ some true then .error .noElem else
        match setKey s a k with
        | .error e => .error e
        | .ok s1 => .ok { s1 with custodians := upd s1.custodians a (some (aset l rm false)) }
  | .dropCust signer k =>
    match resolve signer k.target with
    | .error e => .error e
    | .ok a =>
      match setKey s a k with
      | .error e => .error e
      | .ok s1 => .ok { s1 with custodians := upd s1.custodians a none }
  | .addWl signer add k =>
    match resolve signer k.target with
    | .error e => .error e
    | .ok a =>
      match mapForAdd (s.whitelist a) add.isEmpty with
      | none => .error .panic
      | some cur =>
        match setKey s a k with
        | .error e => .error e
        | .ok s1 => .ok { s1 with whitelist := upd s1.whitelist a (some (addAll cur add)) }
  | .rmWl signer rm k =>
    match resolve signer k.target with
    | .error e => .error e
    | .ok a =>
      match s.whitelist a with
      | none => .error .noList
      | some l =>
        if aget l rm ≠ some true then .error .noElem else
        match setKey s a k with
        | .error e => .error e
        | .ok s1 => .ok { s1 with whitelist := upd s1.whitelist a (some (aset l rm false)) }
  | .dropWl signer k =>
    match resolve signer k.target with
    | .error e => .error e
    | .ok a =>
      match setKey s a k with
      | .error e => .error e
      | .ok s1 => .ok { s1 with whitelist := upd s1.whitelist a none }
  | .addLim signer denom amount ms k =>
    match resolve signer k.target with
    | .error e => .error e
    | .ok a =>
      match mapForAdd (s.limits a) false with
      | none => .error .panic
      | some cur =>
        match setKey s a k with
        | .error e => .error e
        | .ok s1 => .ok { s1 with limits := upd s1.limits a (some (aset cur denom ⟨amount, ms⟩)) }
  | .rmLim signer denom k =>
    match resolve signer k.target with
    | .error e => .error e
    | .ok a =>
      match s.limits a with
      | none => .error .noList
      | some l =>
        match aget l denom with
        | none => .error .noElem
        | some _ =>
          match setKey s a k with
          | .error e => .error e
          | .ok s1 => .ok { s1 with limits := upd s1.limits a (some (aset l denom ⟨0, 0⟩)) }   -- `new(CustodyLimit)`
  | .dropLim signer k =>
    match resolve signer k.target with
    | .error e => .error e
    | .ok a =>
      match setKey s a k with
      | .error e => .error e
      | .ok s1 => .ok { s1 with limits := upd s1.limits a none }
  | .send signer to amount password reward txHash =>
    let rec_ : TxRec := { frm := signer, to := to, amount := amount, password := password, reward := reward }
    -- settings != nil && (CustodyEnabled && len(custodians.Addresses) > 0 || UsePassword)
    match (match s.settings signer with
           | none => Except.ok false
           | some st =>
             if st.enabled then
               match s.custodians signer with
               | none => .error Err.panic
               | some cs => .ok (decide (cs.length > 0) || st.usePassword)
             else .ok st.usePassword) with
    | .error e => .error e
    | .ok true => .ok { s with pool := upd s.pool signer (some [(txHash, rec_)]) }     -- the pool is REPLACED
    | .ok false =>
      match sendCoins s.bal signer to amount with
      | none => .error .funds
      | some b => .ok { s with bal := b }
  | .approve voter target h =>
    match aget s.votes ⟨voter, target, h⟩ with
    | some _ => .ok s                                   -- already voted under this exact key
    | none =>
      match s.pool target with
      | none => .error .panic
      | some l =>
        match aget l h.id with
        | none => .error .panic
        | some r =>
          match s.custodians target with
          | none => .error .panic
          | some cs =>
            match rewardShare r.reward cs.length with
            | none => .error .panic
            | some rw =>
              let st := s.settings target
              let ok := allowCustodians st cs.length (r.votes + 1) && allowPassword st r.confirmed
              match sendCoins s.bal target voter rw with          -- sendReward
              | none => .error .funds
              | some b1 =>
                let votes' := (⟨voter, target, h⟩, (1 : Int)) :: s.votes
                if ok then
                  match sendCoins b1 r.frm r.to r.amount with
                  | none => .error .funds
                  | some b2 => .ok { s with bal := b2, votes := votes', pool := upd s.pool target (some (adel l h.id)) }
                else
                  .ok { s with bal := b1, votes := votes',
                               pool := upd s.pool target (some (aset l h.id { r with votes := r.votes + 1 })) }
  | .decline voter target h =>
    match aget s.votes ⟨voter, target, h⟩ with
    | some _ => .ok s
    | none =>
      match s.settings target with
      | none => .ok s
      | some st =>
        if !st.enabled then .ok s else
        match s.custodians target with
        | none => .error .panic
        | some cs =>
          if cs.length = 0 then .ok s else
          match s.pool target with
          | none => .ok s
          | some l =>
            match aget l h.id with
            | none => .ok s
            | some r =>
              match rewardShare r.reward cs.length with
              | none => .error .panic
              | some rw =>
                match sendCoins s.bal target voter rw with
                | none => .error .funds
                | some b1 => .ok { s with bal := b1, votes := (⟨voter, target, h⟩, (-1 : Int)) :: s.votes }
  | .confirm _ sender h _ =>                           -- the password of the message is never read
    match s.pool sender with
    | none => .error .panic
    | some l =>
      match aget l h.id with
      | none => .error .panic
      | some r =>
        let st := s.settings sender
        match (match st with
               | some st' =>
                 if st'.enabled then
                   match s.custodians sender with
                   | none => Except.error Err.panic
                   | some cs => .ok cs.length
                 else .ok 0
               | none => .ok 0) with
        | .error e => .error e
        | .ok n =>
          let ok := allowCustodians st n r.votes && allowPassword st true
          if ok then
            match sendCoins s.bal r.frm r.to r.amount with
            | none => .error .funds
            | some b => .ok { s with bal := b, pool := upd s.pool sender (some (adel l h.id)) }
          else .ok { s with pool := upd s.pool sender (some (aset l h.id { r with confirmed := true })) }
  | .bankSend signer to amount =>
    match sendCoins s.bal signer to amount with
    | none => .error .funds
    | some b => .ok { s with bal := b }
  | .multiSend signer to amount =>
    match sendCoins s.bal signer to amount with
    | none => .error .funds
    | some b => .ok { s with bal := b }

def execAll (s : State) : List Msg → Except Err State
  | [] => .ok s
  | m :: t => match execMsg s m with
    | .error e => .error e
    | .ok s1 => execAll s1 t

/-! ## one transaction (baseapp.runTx) -/

structure Tx where
  payer : Addr            -- first signer: pays the fee
  fee : Nat               -- in the default denom
  now : Int               -- ctx.BlockTime().Unix()
  msgs : List Msg

inductive Res where
  | ok | err (e : Err)
deriving DecidableEq, Repr

def deductFee (s : State) (payer : Addr) (fee : Nat) : Except Err State :=
  match sendCoins s.bal payer feeCollector (if fee = 0 then [] else [(0, fee)]) with
  | none => .error .funds
  | some b => .ok { s with bal := b }

def runTx (s : State) (tx : Tx) : State × Res :=
  if !tx.msgs.all validateBasic then (s, .err .basic) else
  match anteAll tx.now s tx.msgs with
  | .error e => (s, .err e)
  | .ok s1 =>
    match deductFee s1 tx.payer tx.fee with
    | .error e => (s, .err e)
    | .ok s2 =>
      match execAll s2 tx.msgs with
      | .error e => (s2, .err e)          -- ante effects (fee, limit status) stay, message effects are discarded
      | .ok s3 => (s3, .ok)

def run (s : State) : List Tx → State
  | [] => s
  | t :: ts => run (runTx s t).1 ts


/-! ## recovery `RotateRecoveryAddress`, as far as custody and the bank are concerned

The fee payer pays the recovery fee; all coins of `old` move to `new`; every custody record kept under `old` (settings,
custodians, whitelist, limits, limit statuses, the pool of pending transfers) is dropped there and stored under `new`
(a record `new` had is overwritten only when `old` has one). The pending transfers still name `old` as their payer, and
the custodians' votes stay under the (voter, target, hash) keys they were cast with. -/
def rotate (s : State) (old new payer : Addr) (fee : Nat) : Option State :=
  match subCoins s.bal payer (if fee = 0 then [] else [(0, fee)]) with
  | none => none
  | some b0 =>
    let mv {β : Type} (f : Addr → Option β) : Addr → Option β :=
      match f old with
      | some v => upd (upd f old none) new (some v)
      | none => f
    let bal' : Bal := fun a d => if a = new then b0 new d + b0 old d else if a = old then 0 else b0 a d
    some { s with settings := mv s.settings, custodians := mv s.custodians, whitelist := mv s.whitelist,
                  limits := mv s.limits, status := mv s.status, pool := mv s.pool, bal := bal' }

/-! ## an x/ethereum `MsgRelay` (app/ante CustodyDecorator + x/ethereum/keeper/msg_server.go `Relay`)

A transaction signed and paid by `relayer` carries one `MsgRelay`; its payload - an Ethereum transaction signed with the
key of the account `key` - embeds a bank send of `amt` ukex from `key` to `to` (the message server checks that the
embedded sender is the address the Ethereum signature recovers to). `MsgRelay.Type()` answers the type string of
`MsgCreateCustodyRecord`: when the SIGNER has custody enabled the decorator takes that `case` and its type assertion
fails. Nothing else of the decorator looks at a relay - in particular not the custody of `key`. -/
def relayRefused (s : State) (relayer : Addr) : Bool :=
  match s.settings relayer with
  | some st => st.enabled
  | none => false

def relayTx (s : State) (relayer key to : Addr) (amt fee : Nat) : State × Res :=
  if relayRefused s relayer then (s, .err .invType) else
  match deductFee s relayer fee with
  | .error e => (s, .err e)
  | .ok s2 =>
    match sendCoins s2.bal key to (if amt = 0 then [] else [(0, amt)]) with
    | none => (s2, .err .funds)
    | some b => ({ s2 with bal := b }, .ok)

end Sekai.Custody
