import Sekai.Base.Dec
/-! Executable DECISION models of the sekai ante chain and of the execution-fee bookkeeping, mirroring the Go
code AS IT IS (core Lean only):

* `isFrozen`      — `TokensWhiteBlack.IsFrozen`                     (x/tokens/types/freeze.go)
* `validateFee`   — `ValidateFeeRangeDecorator.AnteHandle`          (app/ante/ante.go)
* `deductFee`     — stock `ante.DeductFeeDecorator` (modelled SDK behaviour: valid coins, sufficient funds)
* `poorNetwork`   — `PoorNetworkManagementDecorator.AnteHandle`     (after fix b5b9d20: loop with `continue`)
* `blackWhite`    — `BlackWhiteTokensCheckDecorator.AnteHandle`     (only bank `MsgSend` is inspected)
* `registerExec`  — `ExecutionFeeRegistrationDecorator.AnteHandle` + `feeprocessing.Keeper.AddExecutionStart`
* `ante`, `runTx` — the chain in the order of `NewAnteHandler` and baseapp's two cache branches (DESIGN §2)
* `setExecutionStatusSuccess`, `payback`, `processExecutionFeeReturn` — x/feeprocessing/keeper/keeper.go

A transaction is a list of abstract messages `(msgType, kind, signer)`, fee coins and a payer; the
configuration `Cfg` carries everything the decorators read from the stores. -/
namespace Sekai.Ante
open Sekai

def two63 : Nat := 9223372036854775808
def two64 : Nat := 18446744073709551616

/-- `uint64` arithmetic wraps -/
def u64 (n : Nat) : Nat := n % two64
/-- Go `int64(x)` for `x : uint64` (two's complement re-interpretation; argument taken mod 2^64) -/
def toI64 (n : Nat) : Int :=
  if n % two64 < two63 then ((n % two64 : Nat) : Int) else ((n % two64 : Nat) : Int) - (two64 : Int)
/-- `big.Int.Int64()`: the low 64 bits as a signed number -/
def bigToI64 (x : Int) : Int := toI64 (x % (two64 : Int)).toNat

abbrev Coin := String × Nat
abbrev Coins := List Coin

def amountOf (cs : Coins) (d : String) : Nat :=
  match cs with
  | [] => 0
  | (d', a) :: rest => (if d' = d then a else 0) + amountOf rest d

/-- what a message does with coins, as far as the ante chain and the properties care -/
inductive Kind where
  /-- cosmos-sdk bank `MsgSend` (its `Type()` is `"send"`) moving `coins` from the signer to account `to` -/
  | send (coins : Coins) (to : Nat)
  /-- any OTHER message that moves signer-chosen `coins` to account `to` (bank `MsgMultiSend`, custody `MsgSend`, …) -/
  | multisend (coins : Coins) (to : Nat)
  | other
deriving Repr, DecidableEq

structure Msg where
  msgType : String      -- `kiratypes.MsgType(msg)`
  kind : Kind
  signer : Nat          -- `msg.GetSigners()[0]`
deriving Repr, DecidableEq

/-- coins a message moves from its signer to another account -/
def movedCoins (m : Msg) : Coins :=
  match m.kind with
  | .send cs _ => cs
  | .multisend cs _ => cs
  | .other => []

structure TokenInfo where
  denom : String
  rate : Int            -- FeeRate, a LegacyDec: value × 10^18 (`Int`)
  feeEnabled : Bool
deriving Repr

structure ExecFee where
  txType : String
  exec : Nat            -- ExecutionFee (uint64)
  fail : Nat            -- FailureFee (uint64)
deriving Repr

structure Cfg where
  native : String := "ukex"          -- DefaultDenom
  minTxFee : Nat := 100              -- uint64
  maxTxFee : Nat := 1000000          -- uint64
  foreignEnabled : Bool := true      -- EnableForeignFeePayments
  blacklistOn : Bool := true         -- EnableTokenBlacklist
  whitelistOn : Bool := false        -- EnableTokenWhitelist
  poorMaxSend : Nat := 1000000       -- PoorNetworkMaxBankSend (uint64)
  minValidators : Nat := 1           -- MinValidators (uint64)
  nVal : Nat := 1                    -- len(GetValidatorSet)
  tokens : List TokenInfo := []      -- token infos (first match = store lookup by denom)
  black : List String := []
  white : List String := []
  poorMsgs : List String := []       -- poor-network allowed message types
  execFees : List ExecFee := []      -- execution fee table (first match = store lookup by type)
deriving Repr

structure Tx where
  msgs : List Msg
  fee : Coins
  payer : Nat

inductive Err where
  | foreignDisabled | notFeeToken | feeFrozen | feeRange | feeExec
  | invalidFee | funds
  | poorDenom | poorAmount | poorType
  | frozenSend
  | panic               -- a Go panic (type assertion, index, Uint64 out of bounds, big.Int division by zero …)
deriving Repr, DecidableEq

def tokenInfo? (c : Cfg) (d : String) : Option TokenInfo := c.tokens.find? (fun t => t.denom == d)
def execFee? (c : Cfg) (ty : String) : Option ExecFee := c.execFees.find? (fun f => f.txType == ty)

/-! ## x/tokens/types/freeze.go -/

/-- `TokensWhiteBlack.IsFrozen(denom, defaultDenom, enableTokenBlacklist, enableTokenWhitelist)`;
`FindTokenIndex(l, d) >= 0` is `l.contains d` -/
def isFrozen (black white : List String) (denom native : String) (blOn wlOn : Bool) : Bool :=
  if denom == native then false
  else if blOn && black.contains denom then true
  else if wlOn && !(white.contains denom) then true
  else false

def frozen (c : Cfg) (d : String) : Bool := isFrozen c.black c.white d c.native c.blacklistOn c.whitelistOn

/-! ## x/tokens/keeper/utils.go, freeze.go: edits of the freeze lists (ProposalTokensWhiteBlackChange) -/

/-- `addTokens(origin, addings)`: append each token that is not in the list yet -/
def addTokens (origin addings : List String) : List String :=
  addings.foldl (fun o a => if o.contains a then o else o ++ [a]) origin

/-- one round of `removeTokens`: the FIRST occurrence of `t` is overwritten with the last element, the last slot is cut -/
def swapRemove : List String → String → List String
  | [], _ => []
  | x :: xs, t =>
    if x = t then
      match xs.getLast? with
      | none => []
      | some l => l :: xs.dropLast
    else x :: swapRemove xs t

/-- `removeTokens(origin, removings)` -/
def removeTokens (origin removings : List String) : List String := removings.foldl swapRemove origin

/-- `Apply` of the tokens module's white/black change proposal -/
def editLists (c : Cfg) (isBlack isAdd : Bool) (toks : List String) : Cfg :=
  match isBlack, isAdd with
  | true, true => { c with black := addTokens c.black toks }
  | true, false => { c with black := removeTokens c.black toks }
  | false, true => { c with white := addTokens c.white toks }
  | false, false => { c with white := removeTokens c.white toks }

/-! ## ValidateFeeRangeDecorator -/

/-- the fee-coin loop: per coin the foreign-fee switch, registration + FeePayments flag, freeze test, then
`feeAmount = feeAmount.Add(NewDecFromInt(amount).Mul(rate))` -/
def feeLoop (c : Cfg) : Coins → Int → Except Err Int
  | [], acc => .ok acc
  | (d, a) :: rest, acc =>
    if !c.foreignEnabled && d != c.native then .error .foreignDisabled
    else match tokenInfo? c d with
      | none => .error .notFeeToken
      | some t =>
        if !t.feeEnabled then .error .notFeeToken
        else if frozen c d then .error .feeFrozen
        else feeLoop c rest (acc + Dec.mul (Dec.ofInt (a : Int)) t.rate)

/-- `maxFee := fee.FailureFee; if fee.ExecutionFee > maxFee { maxFee = fee.ExecutionFee }` -/
def execMax (f : ExecFee) : Nat := if f.exec > f.fail then f.exec else f.fail

/-- `executionMaxFee += maxFee` over the messages that have an execution-fee record — in `uint64` -/
def execReq (c : Cfg) : List Msg → Nat → Nat
  | [], acc => acc
  | m :: rest, acc =>
    match execFee? c m.msgType with
    | none => execReq c rest acc
    | some f => execReq c rest (u64 (acc + execMax f))

def validateFee (c : Cfg) (tx : Tx) : Except Err Unit :=
  match feeLoop c tx.fee 0 with
  | .error e => .error e
  | .ok v =>
    if v < Dec.ofInt (toI64 c.minTxFee) || v > Dec.ofInt (toI64 c.maxTxFee) then .error .feeRange
    else if v < Dec.ofInt (toI64 (execReq c tx.msgs 0)) then .error .feeExec
    else .ok ()

/-! ## PoorNetworkManagementDecorator (after the fix: every message is inspected) -/

/-- `IsNetworkActive`: `len(vals) >= int(MinValidators)` -/
def networkActive (c : Cfg) : Bool := decide (toI64 c.minValidators ≤ (c.nVal : Int))

def poorLoop (c : Cfg) : List Msg → Except Err Unit
  | [] => .ok ()
  | m :: rest =>
    if m.msgType == "send" then
      match m.kind with
      | .send cs _ =>                    -- `msg.(*bank.MsgSend)`
        match cs with
        | [] => .error .panic             -- `msg.Amount[0]` (unreachable after ValidateBasic)
        | (d, a) :: more =>
          if !more.isEmpty || d != c.native then .error .poorDenom
          else if a ≥ two64 then .error .panic          -- `Int.Uint64()` panics out of bounds
          else if a > c.poorMaxSend then .error .poorAmount
          else poorLoop c rest
      | _ => .error .panic                -- failed type assertion
    else if c.poorMsgs.contains m.msgType then poorLoop c rest
    else .error .poorType

def poorNetwork (c : Cfg) (msgs : List Msg) : Except Err Unit :=
  if networkActive c then .ok () else poorLoop c msgs

/-! ## BlackWhiteTokensCheckDecorator -/

def bwLoop (c : Cfg) : List Msg → Except Err Unit
  | [] => .ok ()
  | m :: rest =>
    if m.msgType == "send" then
      match m.kind with
      | .send cs _ => if cs.any (fun x => frozen c x.1) then .error .frozenSend else bwLoop c rest
      | _ => .error .panic
    else bwLoop c rest

/-! ## state touched by the ante chain -/

inductive Addr where
  | user (i : Nat)
  | feeCollector
deriving DecidableEq, Repr

/-- one entry of feeprocessing's `execution_status` list -/
structure ExecRec where
  msgType : String
  payer : Nat
  success : Bool
deriving DecidableEq, Repr

structure State where
  bal : Addr → String → Nat := fun _ _ => 0
  seq : Nat → Nat := fun _ => 0
  hasPubKey : Nat → Bool := fun _ => false
  execs : List ExecRec := []                 -- feeprocessing execution_status
  hist : Nat → Coins := fun _ => []          -- feeprocessing fee_payment_history
  rest : Nat := 0                            -- everything else (all module stores), abstract

/-- `sdk.Coins.IsValid`: strictly sorted by denom, positive amounts -/
def coinsValid : Coins → Bool
  | [] => true
  | [(_, a)] => decide (0 < a)
  | (d, a) :: (d', a') :: rest => decide (0 < a) && decide (d < d') && coinsValid ((d', a') :: rest)

def setBal (b : Addr → String → Nat) (x : Addr) (d : String) (v : Nat) : Addr → String → Nat :=
  fun y e => if y = x ∧ e = d then v else b y e

/-- bank send of a coin list, coin by coin; `none` = insufficient funds -/
def moveCoins (b : Addr → String → Nat) (src dst : Addr) : Coins → Option (Addr → String → Nat)
  | [] => some b
  | (d, a) :: rest =>
    if b src d < a then none
    else
      let b1 := setBal b src d (b src d - a)
      let b2 := setBal b1 dst d (b1 dst d + a)
      moveCoins b2 src dst rest

/-- stock `DeductFeeDecorator`: nothing for a zero fee; otherwise the coins must be valid and the payer must
hold them; they go to the fee collector -/
def deductFee (tx : Tx) (s : State) : Except Err State :=
  if tx.fee.all (fun x => x.2 == 0) then .ok s
  else if !coinsValid tx.fee then .error .invalidFee
  else match moveCoins s.bal (.user tx.payer) .feeCollector tx.fee with
    | none => .error .funds
    | some b => .ok { s with bal := b }

/-- `ExecutionFeeRegistrationDecorator`: `AddExecutionStart` for every message whose type has a fee record -/
def registerExec (c : Cfg) : List Msg → List ExecRec
  | [] => []
  | m :: rest =>
    match execFee? c m.msgType with
    | none => registerExec c rest
    | some _ => ⟨m.msgType, m.signer, false⟩ :: registerExec c rest

/-- The ante chain in the order of `NewAnteHandler` (custody decorator, memo/size/sig-count checks and the
signature verification itself are outside this model: the transaction is taken to be well-formed, signed
by `payer`, who has no custody settings). -/
def ante (c : Cfg) (tx : Tx) (s : State) : Except Err State :=
  match validateFee c tx with
  | .error e => .error e
  | .ok () =>
    let s1 := { s with hasPubKey := fun i => if i = tx.payer then true else s.hasPubKey i }   -- SetPubKeyDecorator
    match deductFee tx s1 with
    | .error e => .error e
    | .ok s2 =>
      match poorNetwork c tx.msgs with
      | .error e => .error e
      | .ok () =>
        match bwLoop c tx.msgs with
        | .error e => .error e
        | .ok () =>
          let s3 := { s2 with execs := s2.execs ++ registerExec c tx.msgs }
          .ok { s3 with seq := fun i => if i = tx.payer then s3.seq i + 1 else s3.seq i }     -- IncrementSequence

inductive Outcome where
  | rejected (e : Err)     -- ante failed: nothing is written
  | failed                 -- ante written, message branch discarded
  | ok
deriving Repr, DecidableEq

/-- baseapp `runTx` (DESIGN §2): ante on a branch written only if it succeeds; the messages on a second
branch written only if all succeed. The post handler that would call `SetExecutionStatusSuccess` is never
installed (`setPostHandler` has no caller in app.go), so nothing else happens on success. -/
def runTx (c : Cfg) (tx : Tx) (run : State → Except Err State) (s : State) : State × Outcome :=
  match ante c tx s with
  | .error e => (s, .rejected e)
  | .ok s1 =>
    match run s1 with
    | .error _ => (s1, .failed)
    | .ok s2 => (s2, .ok)

/-! ## x/feeprocessing/keeper -/

def addExecutionStart (l : List ExecRec) (m : Msg) : List ExecRec := l ++ [⟨m.msgType, m.signer, false⟩]

/-- first record of that type and payer that is not yet successful becomes successful -/
def setExecutionStatusSuccess : List ExecRec → String → Nat → List ExecRec
  | [], _, _ => []
  | r :: rest, ty, p =>
    if r.msgType == ty && r.payer == p && r.success == false then { r with success := true } :: rest
    else r :: setExecutionStatusSuccess rest ty p

/-- the `amount` computed by `ProcessExecutionFeeReturn` for one record (uint64 subtraction, `int64` cast) -/
def refundAmount (f : ExecFee) (success : Bool) : Int :=
  let a1 : Int := if success && f.exec < f.fail then toI64 (f.fail - f.exec) else 0
  if !success && f.fail < f.exec then toI64 (f.exec - f.fail) else a1

/-- loop of the keeper's `SendCoinsFromModuleToAccount` over the recipient's payment history; yields per
history coin `(denom, held, paidBack)` -/
def paybackLoop (c : Cfg) (total : Int) : Coins → Int → Except Err (List (String × Nat × Nat))
  | [], _ => .ok []
  | (d, a) :: rest, filled =>
    match tokenInfo? c d with
    | none => (paybackLoop c total rest filled).map (fun r => (d, a, 0) :: r)       -- `continue`
    | some t =>
      let toFill := total - filled
      let fillAmt := Dec.mul t.rate (Dec.ofInt (a : Int))
      if fillAmt > toFill then
        if t.rate = 0 then .error .panic                          -- big.Int.Div by zero
        else
          let q := bigToI64 (toFill / t.rate)                     -- big.Int.Div (Euclidean), then `.Int64()`
          if q > 0 then
            let filled' := filled + Dec.mul t.rate (Dec.ofInt q)
            if total = filled' then .ok ((d, a, q.toNat) :: rest.map (fun x => (x.1, x.2, 0)))
            else (paybackLoop c total rest filled').map (fun r => (d, a, q.toNat) :: r)
          else
            if total = filled then .ok ((d, a, 0) :: rest.map (fun x => (x.1, x.2, 0)))
            else (paybackLoop c total rest filled).map (fun r => (d, a, 0) :: r)
      else
        let filled' := filled + fillAmt
        if total = filled' then .ok ((d, a, a) :: rest.map (fun x => (x.1, x.2, 0)))
        else (paybackLoop c total rest filled').map (fun r => (d, a, a) :: r)

/-- value requested: `Σ rate·amount` over the coins of `amt` that are registered -/
def requested (c : Cfg) : Coins → Int
  | [] => 0
  | (d, a) :: rest =>
    (match tokenInfo? c d with
     | none => 0
     | some t => Dec.mul t.rate (Dec.ofInt (a : Int))) + requested c rest

/-- feeprocessing `SendCoinsFromModuleToAccount(feeCollector → payer, amt)`: pays back, in the coins the
payer once paid, at most the value of `amt`; history reduced by what was paid back (`Coins.Sub` panics
below zero); the bank send panics (inside `ProcessExecutionFeeReturn`) when the collector is short -/
def sendFromCollector (c : Cfg) (s : State) (payer : Nat) (amt : Coins) : Except Err State :=
  match paybackLoop c (requested c amt) (s.hist payer) 0 with
  | .error e => .error e
  | .ok trip =>
    if trip.any (fun x => x.2.1 < x.2.2) then .error .panic
    else
      let pb : Coins := trip.filterMap (fun x => if x.2.2 > 0 then some (x.1, x.2.2) else none)
      let h' : Coins := trip.filterMap (fun x => if x.2.1 - x.2.2 > 0 then some (x.1, x.2.1 - x.2.2) else none)
      match moveCoins s.bal .feeCollector (.user payer) pb with
      | none => .error .panic
      | some b => .ok { s with bal := b, hist := fun i => if i = payer then h' else s.hist i }

def returnLoop (c : Cfg) : List ExecRec → State → Except Err State
  | [], s => .ok s
  | r :: rest, s =>
    match execFee? c r.msgType with
    | none => returnLoop c rest s
    | some f =>
      let amount := refundAmount f r.success
      if amount > 0 then
        match sendFromCollector c s r.payer [(c.native, amount.toNat)] with
        | .error e => .error e
        | .ok s' => returnLoop c rest s'
      else returnLoop c rest s

/-- `ProcessExecutionFeeReturn` (EndBlocker of x/feeprocessing) -/
def processExecutionFeeReturn (c : Cfg) (s : State) : Except Err State :=
  match returnLoop c s.execs s with
  | .error e => .error e
  | .ok s' => .ok { s' with execs := [] }

/-- the keeper's `SendCoinsFromAccountToModule` wrapper: records the payment in the history -/
def addCoins (h : Coins) : Coins → Coins
  | [] => h
  | (d, a) :: rest =>
    let rec ins : Coins → Coins
      | [] => [(d, a)]
      | (d', a') :: t => if d = d' then (d', a' + a) :: t else if d < d' then (d, a) :: (d', a') :: t else (d', a') :: ins t
    addCoins (ins h) rest

end Sekai.Ante
