/-! # Model of transaction authentication (property C02). Core Lean only.

Mirrors, in the order of `NewAnteHandler` (app/ante/ante.go), the parts of the ante chain that decide who
authorised a transaction:

* baseapp `validateBasicTxMsgs` + SDK `ValidateBasicDecorator` (`tx.ValidateBasic`: at least one signature,
  as many signatures as signers), `MsgEthereumTx.ValidateBasic` (x/tokens/types/msg_eth_tx.go);
* `SetPubKeyDecorator`   (app/ante/sigverify.go) — installs the attached key on an account without key,
  with NO address check (the check is commented out in the Go source);
* SDK `ValidateSigCountDecorator`, `SigGasConsumeDecorator` (account exists, key on record);
* `SigVerificationDecorator.AnteHandle` + `VerifyEthereumSignature` + `GenEIP712SignBytesFromMsg`
  (app/ante/sigverify.go); a successful Ethereum fallback `continue`s with the next signer (commit 4a7b9fe);
* SDK `IncrementSequenceDecorator`.

Fee deduction, fee range, custody / poor-network / token filters sit between these decorators; they never
touch `x/auth` accounts and are outside this model (C09, C14, C17).

## What is SYMBOLIC (trusted, not verified)

Cryptography. A key is a natural number `k`. `cosmosAddr k` (ripemd160∘sha256 of the compressed public key)
and `ethAddr k` (keccak256 of the uncompressed key, last 20 bytes) are *constructors* of `Addr`: injective
and with disjoint ranges (collision resistance), and `Addr.other` are addresses no key hashes to. A signature
is a record `(key, payload, encoding)`: verification with key `k` over bytes `p` succeeds iff the record
carries exactly `k` and `p` (unforgeability), Ethereum public-key recovery over digest `p` returns the
record's key iff the record carries `p` (otherwise recovery yields an unrelated address — modelled as
failure). Sign-byte constructors (`direct`, `amino`, `eip712`, and the hash of a raw Ethereum transaction)
are injective and mutually disjoint (protobuf / JSON / RLP encodings are injective, hashes collision free).
An adversary is whoever builds `Tx` values: it can put any record it likes on a transaction, but records
whose `key` it does not own can only be copies of records the owner produced — that is the reading of the
theorems "`∃ σ` on the transaction with `controls σ.key signer`".
Not modelled: multisig keys / `MultiSignatureData`, non-secp256k1 key types, fee granter (feegrant keeper is
nil in sekai: any granter is rejected), `simulate = true`, genesis (height 0) transactions, malformed protobuf. -/
namespace Sekai.Auth

abbrev Key := Nat

inductive Addr where
  | cosmos (k : Key)
  | eth (k : Key)
  | other (n : Nat)
deriving DecidableEq, Repr, Inhabited

def cosmosAddr (k : Key) : Addr := .cosmos k
def ethAddr (k : Key) : Addr := .eth k

/-- key `k` controls address `a`: `a` is the cosmos or the Ethereum address of `k` -/
def controls (k : Key) (a : Addr) : Prop := a = cosmosAddr k ∨ a = ethAddr k
instance (k : Key) (a : Addr) : Decidable (controls k a) := by unfold controls; exact inferInstance

def Addr.isEth : Addr → Bool
  | .eth _ => true
  | _ => false

inductive Mode where
  | direct | amino
  | other (n : Nat)      -- any mode the sign-mode handler does not support (TEXTUAL, DIRECT_AUX, UNSPECIFIED …)
deriving DecidableEq, Repr

/-- the RLP-decoded Ethereum transaction inside a `MsgEthereumTx`. `signedBy` is the key its (r,s,v) recovers
to over its own signing hash (`none`: recovery fails); `content` stands for to/value/gas/data. -/
structure EthTx where
  nonce : Nat
  chainId : Nat
  content : Nat
  signedBy : Option Key
deriving DecidableEq, Repr

inductive Msg where
  | plain (type : Nat) (content : Nat) (signers : List Addr)   -- any sdk.Msg other than MsgEthereumTx
  | ethTx (sender : Addr) (tx : EthTx) (txType : Nat)          -- /kira.tokens.MsgEthereumTx
deriving DecidableEq, Repr

def Msg.signers : Msg → List Addr
  | .plain _ _ ss => ss
  | .ethTx s _ _ => [s]

def Msg.isEthTx : Msg → Bool
  | .ethTx .. => true
  | _ => false

/-- `msg.ValidateBasic()` as far as authentication is concerned: a `MsgEthereumTx` must carry an Ethereum
transaction whose sender can be recovered -/
def Msg.validateBasic : Msg → Bool
  | .plain .. => true
  | .ethTx _ tx _ => tx.signedBy.isSome

/-- one `SignerInfo` of `AuthInfo`: attached public key, sign mode, sequence -/
structure SignerInfo where
  pk : Option Key
  mode : Mode
  seq : Nat
deriving DecidableEq, Repr

/-- everything of a transaction except the signature blobs: `TxBody` (msgs, memo, timeout) and `AuthInfo`
(signer infos, fee — `fee` stands for amount and gas limit, `payer` is `AuthInfo.Fee.Payer`) -/
structure Core where
  msgs : List Msg
  memo : Nat
  timeout : Nat
  fee : Nat
  payer : Option Addr
  infos : List SignerInfo
deriving DecidableEq, Repr

/-- sign bytes -/
inductive Payload where
  | direct (c : Core) (chain accNum : Nat)                                   -- SignDoc{body, authInfo, chainId, accNum}
  | amino (msgs : List Msg) (memo timeout fee : Nat) (payer : Option Addr) (chain accNum seq : Nat)   -- StdSignDoc
  | eip712 (m : Msg) (nonce ethChain : Nat)                                  -- GenEIP712SignBytesFromMsg: `Type()` string + JSON of the message + nonce ONLY (`m` is the message as that function sees it, `eipView`)
  | rawEth (nonce chainId content : Nat)                                     -- signing hash of an Ethereum transaction (EIP-155)
  | junk (n : Nat)                                                           -- anything else
deriving DecidableEq, Repr

/-- `GenEIP712SignBytesFromMsg` returns a 32-byte Keccak digest; `GetSignBytes` returns whole documents -/
def Payload.isDigest32 : Payload → Bool
  | .eip712 .. => true
  | .rawEth .. => true
  | _ => false

inductive Enc where
  | cosmos64      -- 64 bytes r‖s over sha256(sign bytes): what `secp256k1.PubKey.VerifySignature` accepts
  | eth65         -- 65 bytes r‖s‖v (v = 27/28) over a 32-byte digest: what `crypto.SigToPub` accepts
deriving DecidableEq, Repr

structure Sig where
  key : Key
  payload : Payload
  enc : Enc
deriving DecidableEq, Repr

structure Tx where
  core : Core
  sigs : List Sig        -- `Tx.Signatures`, positionally matched with `core.infos`
deriving DecidableEq, Repr

structure Account where
  pk : Option Key
  seq : Nat
  num : Nat
deriving DecidableEq, Repr

/-- the x/auth account store -/
abbrev Accounts := Addr → Option Account

def Accounts.set (A : Accounts) (a : Addr) (acc : Account) : Accounts := fun b => if b = a then some acc else A b

structure Env where
  chainId : Nat
  sigLimit : Nat := 7          -- auth params TxSigLimit
  ethChainId : Nat := 8789     -- `EthChainID` in app/ante/sigverify.go
  /-- what `GenEIP712SignBytesFromMsg` can tell apart: it hashes `kiratypes.MsgType(msg)` (the `Type()` string)
  and `json.Marshal(msg)` — NOT the protobuf type URL. Two message types with the same `Type()` string and the same
  JSON field names fall into one class. The table is read off the real code by the harness on every run. -/
  eipClass : Nat → Nat := id
  /-- what the LEGACY_AMINO_JSON sign doc can tell apart: it embeds `msg.GetSignBytes()`; for a message type that is
  not registered with the module's amino codec that is the bare JSON of the fields, without any type name. Two such
  types with the same JSON fields fall into one class. Read off the real code by the harness on every run. -/
  aminoClass : Nat → Nat := id

/-- the message as `GenEIP712SignBytesFromMsg` sees it: protobuf type replaced by its EIP-712 class -/
def eipView (env : Env) : Msg → Msg
  | .plain t c ss => .plain (env.eipClass t) c ss
  | m => m

inductive Err where
  | noMsgs | invalidMsg | noSigs | unauthorized | unknownAddr | tooManySigs | noPubKey | wrongSeq | panic
deriving DecidableEq, Repr

def Err.toString : Err → String
  | .noMsgs => "invalid" | .invalidMsg => "invalid" | .noSigs => "nosig" | .unauthorized => "unauth"
  | .unknownAddr => "unknown" | .tooManySigs => "toomany" | .noPubKey => "nopk" | .wrongSeq => "seq" | .panic => "panic"

/-- `Tx.GetSigners`: signers of all messages, first occurrence kept, then the fee payer if it is set and not
already among them -/
def dedupAux (seen : List Addr) : List Addr → List Addr
  | [] => []
  | a :: rest => if a ∈ seen then dedupAux seen rest else a :: dedupAux (a :: seen) rest

def Tx.signers (tx : Tx) : List Addr := dedupAux [] (tx.core.msgs.flatMap Msg.signers ++ tx.core.payer.toList)

/-- `SetPubKeyDecorator`: loop over the attached keys; `pk == nil → continue` comes before `signers[i]` is
touched; an account that already has a key is left alone; otherwise the attached key is stored — whatever
its address (the comparison with `signers[i]` is commented out). -/
def setPubKeys (A : Accounts) : List (Option Key) → List Addr → Except Err Accounts
  | [], _ => .ok A
  | none :: pks, ss => setPubKeys A pks (ss.drop 1)
  | some _ :: _, [] => .error .panic
  | some k :: pks, s :: ss =>
    match A s with
    | none => .error .unknownAddr
    | some acc =>
      match acc.pk with
      | some _ => setPubKeys A pks ss
      | none => setPubKeys (A.set s { acc with pk := some k }) pks ss

/-- `SigGasConsumeDecorator`: every (signer info, signer) pair needs an account with a key on record -/
def sigGas (A : Accounts) : List SignerInfo → List Addr → Except Err Unit
  | [], _ => .ok ()
  | _ :: _, [] => .error .panic
  | _ :: is, s :: ss =>
    match A s with
    | none => .error .unknownAddr
    | some acc =>
      match acc.pk with
      | none => .error .noPubKey
      | some _ => sigGas A is ss

/-- the message as the LEGACY_AMINO_JSON sign doc shows it -/
def aminoView (env : Env) : Msg → Msg
  | .plain t c ss => .plain (env.aminoClass t) c ss
  | m => m

/-- `SignModeHandler.GetSignBytes`. LEGACY_AMINO_JSON calls `GetSignBytes()` of every message and
`MsgEthereumTx.GetSignBytes` panics. -/
def signBytes (env : Env) (mode : Mode) (tx : Tx) (num seq : Nat) : Except Err Payload :=
  match mode with
  | .direct => .ok (.direct tx.core env.chainId num)
  | .amino =>
    if tx.core.msgs.any Msg.isEthTx then .error .panic
    else .ok (.amino (tx.core.msgs.map (aminoView env)) tx.core.memo tx.core.timeout tx.core.fee tx.core.payer env.chainId num seq)
  | .other _ => .error .unauthorized

/-- `authsigning.VerifySignature` with the key on record -/
def verifyStd (env : Env) (pk : Key) (acc : Account) (info : SignerInfo) (σ : Sig) (tx : Tx) : Except Err Unit :=
  match signBytes env info.mode tx acc.num acc.seq with
  | .error e => .error e
  | .ok p => if σ.enc = .cosmos64 ∧ σ.key = pk ∧ σ.payload = p then .ok () else .error .unauthorized

/-- `crypto.SigToPub(signBytes, sig)`: needs a 65-byte signature and a 32-byte digest -/
def recover (σ : Sig) (p : Payload) : Option Key :=
  if σ.enc = .eth65 ∧ p.isDigest32 = true ∧ σ.payload = p then some σ.key else none

/-- the tail of `VerifyEthereumSignature`: recover, exactly one signer, recovered address = signer address -/
def recoverAndCompare (σ : Sig) (p : Payload) (signers : List Addr) : Except Err Unit :=
  match recover σ p with
  | none => .error .unauthorized
  | some k =>
    match signers with
    | [a] => if ethAddr k = a then .ok () else .error .unauthorized
    | _ => .error .unauthorized

/-- `VerifyEthereumSignature` (single signature data) for signer `s` (`signerData.Address`). Three shapes:
non-DIRECT mode — recovery over the raw sign bytes; DIRECT + `MsgEthereumTx` — nonce, Ethereum chain id,
the signer being verified is `msg.Sender` (commit 515bdfd), recovered Ethereum sender = `msg.Sender` (commit
fef397e), `ValidateBasic`; DIRECT + one other message — recovery over the EIP-712 digest of (message, account
sequence), exactly one signer. -/
def verifyEth (env : Env) (s : Addr) (acc : Account) (info : SignerInfo) (σ : Sig) (tx : Tx) : Except Err Unit :=
  match signBytes env info.mode tx acc.num acc.seq with
  | .error e => .error e
  | .ok p =>
    match info.mode with
    | .direct =>
      match tx.core.msgs with
      | [m] =>
        match m with
        | .ethTx sender etx _ =>
          if acc.seq ≠ etx.nonce then .error .unauthorized
          else if env.ethChainId ≠ etx.chainId then .error .unauthorized
          else
            match etx.signedBy with
            | none => .error .unauthorized
            | some k =>
              if s ≠ sender then .error .unauthorized
              else if ethAddr k ≠ sender then .error .unauthorized
              else if m.validateBasic then .ok () else .error .unauthorized
        | .plain .. => recoverAndCompare σ (.eip712 (eipView env m) acc.seq env.ethChainId) tx.signers
      | _ => .error .unauthorized
    | _ => recoverAndCompare σ p tx.signers

/-- the signer loop of `SigVerificationDecorator.AnteHandle` -/
def verifySigs (env : Env) (A : Accounts) (tx : Tx) : List (SignerInfo × Sig) → List Addr → Except Err Unit
  | [], _ => .ok ()
  | _ :: _, [] => .error .panic
  | (info, σ) :: rest, s :: ss =>
    match A s with
    | none => .error .unknownAddr
    | some acc =>
      match acc.pk with
      | none => .error .noPubKey
      | some pk =>
        if info.seq ≠ acc.seq then .error .wrongSeq
        else if cosmosAddr pk ≠ s then
          -- key on record does not hash to the account address: Ethereum fallback; on success `continue`
          -- (commit 4a7b9fe; before it the loop did `return next(…)` here and skipped the remaining signers)
          match verifyEth env s acc info σ tx with
          | .ok () => verifySigs env A tx rest ss
          | .error .panic => .error .panic
          | .error _ => .error .unauthorized
        else
          match verifyStd env pk acc info σ tx with
          | .ok () => verifySigs env A tx rest ss
          | .error e => .error e

/-- `IncrementSequenceDecorator` -/
def incSeqs (A : Accounts) : List Addr → Except Err Accounts
  | [] => .ok A
  | s :: ss =>
    match A s with
    | none => .error .panic
    | some acc => incSeqs (A.set s { acc with seq := acc.seq + 1 }) ss

/-- The authentication part of the ante chain. `.ok A'` = the ante handler succeeded and baseapp wrote the
ante branch (`A'`); `.error _` = the transaction is rejected and baseapp DISCARDS the branch, so the account
store stays `A` (runTx: `msCache.Write()` only when `anteHandler` returned no error). -/
def anteAuth (env : Env) (A : Accounts) (tx : Tx) : Except Err Accounts :=
  -- baseapp.validateBasicTxMsgs
  if tx.core.msgs = [] then .error .noMsgs
  else if !(tx.core.msgs.all Msg.validateBasic) then .error .invalidMsg
  -- ValidateBasicDecorator → tx.ValidateBasic
  else if tx.sigs = [] then .error .noSigs
  else if tx.sigs.length ≠ tx.signers.length then .error .unauthorized
  else
    -- SetPubKeyDecorator (then GetSignaturesV2 for the events: indexes Signatures by signer info)
    match setPubKeys A (tx.core.infos.map (·.pk)) tx.signers with
    | .error e => .error e
    | .ok A1 =>
      if tx.core.infos.length > tx.sigs.length then .error .panic
      -- ValidateSigCountDecorator
      else if tx.core.infos.length > env.sigLimit then .error .tooManySigs
      else
        -- SigGasConsumeDecorator
        match sigGas A1 tx.core.infos tx.signers with
        | .error e => .error e
        | .ok () =>
          -- SigVerificationDecorator
          let sv := tx.core.infos.zip tx.sigs
          if sv.length ≠ tx.signers.length then .error .unauthorized
          else
            match verifySigs env A1 tx sv tx.signers with
            | .error e => .error e
            | .ok () => incSeqs A1 tx.signers   -- IncrementSequenceDecorator

/-- what the chain does with a transaction: write on success, keep the old store on failure -/
def applyTx (env : Env) (A : Accounts) (tx : Tx) : Accounts :=
  match anteAuth env A tx with
  | .ok A' => A'
  | .error _ => A

end Sekai.Auth
