import Sekai.Base.Util
/-! Genesis export / import as a filter on record kinds (C12).

A module store is a list of key/value records; the record kind of a key is the longest declared store prefix it starts
with. InitGenesis can only bring back kinds it WRITES: export followed by import keeps a record iff its kind is written
by some InitGenesis (of any module: hooks write foreign stores) — whether the VALUE comes back unchanged is the business
of the per-module models (PermGenesis) and of the store-diff oracle, not of this presence model. The per-module tables
(declared prefixes with their bytes, prefixes read by ExportGenesis, prefixes written by InitGenesis) are regenerated
from the typed call graph of /repo (`Sekai.Gen.GenesisCov`). Core Lean only. -/
namespace Sekai.GenesisCov

structure Mod where
  name : String
  store : String
  decl : List (String × List Nat)     -- declared prefixes: name, bytes
  reads : List String
  writes : List String
deriving Repr

def ofRow (r : String × String × List (String × List Nat) × List String × List String) : Mod :=
  ⟨r.1, r.2.1, r.2.2.1, r.2.2.2.1, r.2.2.2.2⟩

def isPrefix : List Nat → List Nat → Bool
  | [], _ => true
  | _ :: _, [] => false
  | a :: as, b :: bs => a == b && isPrefix as bs

/-- the record kind of a key: the longest declared prefix it starts with -/
def classify (m : Mod) (key : List Nat) : Option (String × List Nat) :=
  m.decl.foldl (fun best d =>
    if isPrefix d.2 key then
      match best with
      | some b => if b.2.length < d.2.length then some d else best
      | none => some d
    else best) none

inductive Verdict | kept | lost | unknown
deriving DecidableEq, Repr

def predict (m : Mod) (key : List Nat) : Verdict :=
  match classify m key with
  | none => .unknown
  | some d => if m.writes.contains d.1 then .kept else .lost

abbrev Store := List (List Nat × List Nat)

/-- presence after export + import into a fresh chain -/
def roundTrip (m : Mod) (s : Store) : Store := s.filter (fun kv => predict m kv.1 == .kept)

/-- declared kinds that no InitGenesis writes: every record of such a kind disappears at the next export/import -/
def lostKinds (m : Mod) : List String := (m.decl.map (·.1)).filter (fun p => !m.writes.contains p)

/-- kinds written at import but never read at export: they can only be rebuilt (indexes) or re-defaulted -/
def rebuiltKinds (m : Mod) : List String :=
  (m.decl.map (·.1)).filter (fun p => m.writes.contains p && !m.reads.contains p)

def hexVal (c : Char) : Option Nat :=
  if '0' ≤ c ∧ c ≤ '9' then some (c.toNat - '0'.toNat)
  else if 'a' ≤ c ∧ c ≤ 'f' then some (c.toNat - 'a'.toNat + 10)
  else none

def hexBytes : List Char → Option (List Nat)
  | [] => some []
  | [_] => none
  | a :: b :: r => do
    let x ← hexVal a
    let y ← hexVal b
    let t ← hexBytes r
    pure ((16 * x + y) :: t)

end Sekai.GenesisCov
