import Sekai.Model.Spend
/-! # Collectives (x/collectives) — executable model, core Lean only

Mirrors `x/collectives/keeper/msg_server.go` (`CreateCollective`, `ContributeCollective` (= bond),
`DonateCollective`, `WithdrawCollective`), `keeper/collective.go` (`WithdrawCollective`, `SendDonation`,
`GetBondsValue`) and `keeper/keeper.go` `calcPortion`, AS CODED. `DonateCollective` includes the range test of
`MsgDonateCollective.ValidateBasic` (0 ≤ donation ≤ 1), which every transaction passes before the msg server.
NOT modelled: the collectives `EndBlocker` (reward distribution through x/multistaking, activation, automatic
removal) and the update / remove proposals. Collective and donation accounts are plain bank addresses. -/
namespace Sekai.Collect
open Sekai.Spend

def collAddr (name : Nat) : Addr := 2000000 + 2 * name
def donAddr (name : Nat) : Addr := 2000001 + 2 * name

structure Coll where
  name : Nat
  status : Nat               -- 0 active, 1 inactive, 2 paused (types.CollectiveStatus)
  depAny : Bool
  depRoles : List Nat
  depAccounts : List Addr
  bonds : Amt
  donations : Amt

structure Contrib where
  coll : Nat
  acct : Addr
  bonds : Amt
  locking : Nat
  donation : Int             -- Dec
  donationLock : Bool

structure State where
  sp : Spend.State := {}
  colls : List Coll := []
  contribs : List Contrib := []
  maxOutputs : Nat := 0            -- network property MaxCollectiveOutputs
  minClaimPeriod : Nat := 0        -- MinCollectiveClaimPeriod
  minBond : Nat := 0               -- MinCollectiveBond (KEX)
  feeRate : Denom → Option Int := fun _ => none   -- tokens keeper: TokenInfo.FeeRate of the (original) denom

def findColl (cs : List Coll) (n : Nat) : Option Coll := cs.find? (fun c => c.name == n)
def setColl : List Coll → Coll → List Coll
  | [], c => [c]
  | q :: rest, c => if q.name == c.name then c :: rest else q :: setColl rest c

def findContrib (l : List Contrib) (n : Nat) (a : Addr) : Option Contrib := l.find? (fun c => c.coll == n && c.acct == a)
def setContrib : List Contrib → Contrib → List Contrib
  | [], c => [c]
  | q :: rest, c => if q.coll == c.coll && q.acct == c.acct then c :: rest else q :: setContrib rest c
def delContrib (l : List Contrib) (n : Nat) (a : Addr) : List Contrib := l.filter (fun c => !(c.coll == n && c.acct == a))

/-- one coin of `calcPortion`: `NewDecFromInt(amount).Mul(portion).RoundInt()` -/
def portionOf (a : Nat) (portion : Int) : Int := Dec.roundInt (Dec.mul (Dec.ofInt a) portion)

/-- `calcPortion(coins, portion)` as a denotation (`none` = `sdk.NewCoin` panics on a negative amount) -/
def calcPortion (voc : List Denom) (coins : Amt) (portion : Int) : Option Amt :=
  if voc.any (fun d => decide (portionOf (coins d) portion < 0)) then none
  else some (fun d => (portionOf (coins d) portion).toNat)

/-- `Coins.IsAllPositive` of a canonical coin set: non-empty -/
def nonEmpty (voc : List Denom) (a : Amt) : Bool := voc.any (fun d => decide (0 < a d))

/-- `if coins.IsAllPositive() { SendCoins(from, to, coins) }` -/
def sendIfAny (voc : List Denom) (b : Bank) (frm to : Addr) (a : Amt) : Except Err Bank :=
  if nonEmpty voc a then b.sendAmt frm to voc a else .ok b

/-- `GetBondsValue` over the coins as listed -/
def bondsValue (feeRate : Denom → Option Int) : List (Denom × Nat) → Int
  | [] => 0
  | (d, a) :: rest =>
    (match feeRate d with
     | none => 0
     | some r => Dec.mul r (Dec.ofInt a)) + bondsValue feeRate rest

def minBondDec (s : State) : Int := Dec.mul (Dec.ofInt (toI64 s.minBond)) (Dec.ofInt 1000000)

structure CreateArgs where
  nPools : Nat
  claimPeriod : Nat
  depAny : Bool
  depRoles : List Nat
  depAccounts : List Addr

/-- `MsgCreateCollective` -/
def create (s : State) (a : Addr) (name : Nat) (bonds : List (Denom × Nat)) (x : CreateArgs) : Except Err State :=
  match findColl s.colls name with
  | some _ => .error .err
  | none =>
    if x.nPools > s.maxOutputs then .error .err else
    if x.claimPeriod < s.minClaimPeriod then .error .err else
    let bv := bondsValue s.feeRate bonds
    let mb := minBondDec s
    if bv < Dec.quo mb (Dec.ofInt 10) then .error .err else
    let status := if bv ≥ mb then 0 else 1
    match s.sp.bank.send a (collAddr name) bonds with
    | .error e => .error e
    | .ok bank' =>
      .ok { s with sp := { s.sp with bank := bank' },
                   colls := setColl s.colls { name := name, status := status, depAny := x.depAny, depRoles := x.depRoles,
                                              depAccounts := x.depAccounts, bonds := Amt.ofList bonds, donations := Amt.zero },
                   contribs := setContrib s.contribs { coll := name, acct := a, bonds := Amt.ofList bonds, locking := 0,
                                                       donation := 0, donationLock := false } }

def whitelisted (s : State) (c : Coll) (a : Addr) : Bool :=
  c.depAny || c.depAccounts.contains a ||
  (match s.sp.actors a with
   | none => false
   | some rs => c.depRoles.any (fun r => rs.contains r))

/-- `MsgBondCollective` (`ContributeCollective`) -/
def bond (s : State) (a : Addr) (name : Nat) (bonds : List (Denom × Nat)) : Except Err State :=
  match findColl s.colls name with
  | none => .error .err
  | some c =>
    match s.sp.bank.send a (collAddr name) bonds with
    | .error e => .error e
    | .ok bank1 =>
      if !whitelisted s c a then .error .err else
      let add := Amt.ofList bonds
      let c' := { c with bonds := Amt.add c.bonds add }
      match findContrib s.contribs name a with
      | some cc =>
        match calcPortion s.sp.voc add cc.donation with
        | none => .error .panic
        | some don =>
          match sendIfAny s.sp.voc bank1 (collAddr name) (donAddr name) don with
          | .error e => .error e
          | .ok bank2 =>
            .ok { s with sp := { s.sp with bank := bank2 }, colls := setColl s.colls c',
                         contribs := setContrib s.contribs { cc with bonds := Amt.add cc.bonds add } }
      | none =>
        .ok { s with sp := { s.sp with bank := bank1 }, colls := setColl s.colls c',
                     contribs := setContrib s.contribs { coll := name, acct := a, bonds := add, locking := 0,
                                                         donation := 0, donationLock := false } }

def oneYear : Nat := 31536000

/-- `MsgDonateCollective`. NB `cc.Donation != msg.Donation` compares two `sdk.Dec` structs, i.e. two `*big.Int`
pointers, which always differ for a stored vs. a received value: a donation-locked contributor is always rejected. -/
def donate (s : State) (a : Addr) (name : Nat) (locking : Nat) (don : Int) (dlock : Bool) (now : Nat) : Except Err State :=
  if don < 0 ∨ don > Dec.one then .error .err else     -- ValidateBasic
  match findContrib s.contribs name a with
  | none => .error .err
  | some cc =>
    if locking > addU64 now oneYear then .error .err else
    if cc.locking > locking then .error .err else
    if cc.donationLock then .error .err else
    match findColl s.colls name with
    | none => .error .err
    | some _ =>
      let move (frm to : Addr) (delta : Int) : Except Err Bank :=
        match calcPortion s.sp.voc cc.bonds delta with
        | none => .error .panic
        | some m => sendIfAny s.sp.voc s.sp.bank frm to m
      let r : Except Err Bank :=
        if cc.donation > don then move (donAddr name) (collAddr name) (cc.donation - don)
        else if don > cc.donation then move (collAddr name) (donAddr name) (don - cc.donation)
        else .ok s.sp.bank
      match r with
      | .error e => .error e
      | .ok bank' =>
        .ok { s with sp := { s.sp with bank := bank' },
                     contribs := setContrib s.contribs { cc with donation := don, locking := locking, donationLock := dlock } }

/-- keeper `WithdrawCollective(ctx, collective, cc)` -/
def withdrawK (s : State) (c : Coll) (cc : Contrib) : Except Err State :=
  match calcPortion s.sp.voc cc.bonds (Dec.one - cc.donation), calcPortion s.sp.voc cc.bonds cc.donation with
  | some cb, some db =>
    match sendIfAny s.sp.voc s.sp.bank (collAddr c.name) cc.acct cb with
    | .error e => .error e
    | .ok bank1 =>
      match sendIfAny s.sp.voc bank1 (donAddr c.name) cc.acct db with
      | .error e => .error e
      | .ok bank2 =>
        if !Amt.geOn s.sp.voc c.bonds cb then .error .panic else
        let b1 := Amt.sub c.bonds cb
        if !Amt.geOn s.sp.voc b1 db then .error .panic else
        .ok { s with sp := { s.sp with bank := bank2 }, colls := setColl s.colls { c with bonds := Amt.sub b1 db },
                     contribs := delContrib s.contribs cc.coll cc.acct }
  | _, _ => .error .panic

/-- `MsgWithdrawCollective` -/
def withdraw (s : State) (a : Addr) (name : Nat) (now : Nat) : Except Err State :=
  match findContrib s.contribs name a with
  | none => .error .err
  | some cc =>
    if cc.locking > now then .error .err else          -- ErrBondsLockedOnTheCollective
    match findColl s.colls name with
    | none => .error .err
    | some c => withdrawK s c cc

/-- `IsAllGTE` as coded (an empty right side is always covered; the left side is canonical) -/
def isAllGTE (a : Amt) (coins : List (Denom × Nat)) : Bool := coins.all (fun e => decide (e.2 ≤ a e.1))

/-- keeper `SendDonation` (called only by the send-donation proposal) -/
def sendDonation (s : State) (name : Nat) (to : Addr) (coins : List (Denom × Nat)) : Except Err State :=
  match findColl s.colls name with
  | none => .error .err
  | some c =>
    if !isAllGTE c.donations coins then .error .err else
    if !coinsValid coins then .error .err else           -- the bank rejects a non-canonical list (ErrInvalidCoins)
    match s.sp.bank.send COLL to coins with
    | .error e => .error e
    | .ok bank' =>
      .ok { s with sp := { s.sp with bank := bank' }, colls := setColl s.colls { c with donations := Amt.sub c.donations (Amt.ofList coins) } }

end Sekai.Collect
