import Sekai.Model.Spend
/-! # Collectives (x/collectives) — executable model, core Lean only

Mirrors `x/collectives/keeper/msg_server.go` (`CreateCollective`, `ContributeCollective` (= bond),
`DonateCollective`, `WithdrawCollective`), `keeper/collective.go` (`WithdrawCollective`, `SendDonation`,
`GetBondsValue`) and `keeper/keeper.go` `calcPortion`, AS CODED. `DonateCollective` includes the range test of
`MsgDonateCollective.ValidateBasic` (0 ≤ donation ≤ 1), which every transaction passes before the msg server.
The collectives `EndBlocker` (`keeper/abci.go`: reward distribution, activation, automatic removal through
`ExecuteCollectiveRemove`) is modelled at the end of this file; of x/multistaking it needs only the delegator-rewards
record of the collective's two accounts (`rewards`, paid out of the fee collector by `ClaimRewards`). NOT modelled: the
update / remove proposals, `RegisterDelegator` (pool-delegator flags), and the fact that `GetCollectiveContributers` is a
prefix scan over name ++ address (collective names are opaque ids here; the harness keeps names prefix-free).
Collective and donation accounts are plain bank addresses. -/
namespace Sekai.Collect
open Sekai.Spend

def collAddr (name : Nat) : Addr := 2000000 + 2 * name
def donAddr (name : Nat) : Addr := 2000001 + 2 * name

structure Coll where
  name : Nat
  status : Nat               -- 0 active, 1 inactive, 2 paused (types.CollectiveStatus)
  depAny : Bool
  depRoles : List Nat
  depAccounts : List Addr
  bonds : Amt
  donations : Amt
  pools : List (Nat × Int) := []   -- SpendingPools: (spending-pool id, weight)
  claimStart : Nat := 0
  claimPeriod : Nat := 0
  claimEnd : Nat := 0
  creationTime : Nat := 0
  lastDistribution : Nat := 0      -- written by the EndBlocker on a loop copy only: stays what creation / genesis stored

structure Contrib where
  coll : Nat
  acct : Addr
  bonds : Amt
  locking : Nat
  donation : Int             -- Dec
  donationLock : Bool

structure State where
  sp : Spend.State := {}
  colls : List Coll := []
  contribs : List Contrib := []
  maxOutputs : Nat := 0            -- network property MaxCollectiveOutputs
  minClaimPeriod : Nat := 0        -- MinCollectiveClaimPeriod
  minBond : Nat := 0               -- MinCollectiveBond (KEX)
  feeRate : Denom → Option Int := fun _ => none   -- tokens keeper: TokenInfo.FeeRate of the (original) denom
  rewards : Addr → Amt := fun _ => Amt.zero       -- x/multistaking delegator rewards on record (collective accounts)
  minBondingTime : Nat := 0                       -- network property MinCollectiveBondingTime

def findColl (cs : List Coll) (n : Nat) : Option Coll := cs.find? (fun c => c.name == n)
def setColl : List Coll → Coll → List Coll
  | [], c => [c]
  | q :: rest, c => if q.name == c.name then c :: rest else q :: setColl rest c

def findContrib (l : List Contrib) (n : Nat) (a : Addr) : Option Contrib := l.find? (fun c => c.coll == n && c.acct == a)
def setContrib : List Contrib → Contrib → List Contrib
  | [], c => [c]
  | q :: rest, c => if q.coll == c.coll && q.acct == c.acct then c :: rest else q :: setContrib rest c
def delContrib (l : List Contrib) (n : Nat) (a : Addr) : List Contrib := l.filter (fun c => !(c.coll == n && c.acct == a))

/-- one coin of `calcPortion`: `NewDecFromInt(amount).Mul(portion).RoundInt()` -/
def portionOf (a : Nat) (portion : Int) : Int := Dec.roundInt (Dec.mul (Dec.ofInt a) portion)

/-- `calcPortion(coins, portion)` as a denotation (`none` = `sdk.NewCoin` panics on a negative amount) -/
def calcPortion (voc : List Denom) (coins : Amt) (portion : Int) : Option Amt :=
  if voc.any (fun d => decide (portionOf (coins d) portion < 0)) then none
  else some (fun d => (portionOf (coins d) portion).toNat)

/-- `Coins.IsAllPositive` of a canonical coin set: non-empty -/
def nonEmpty (voc : List Denom) (a : Amt) : Bool := voc.any (fun d => decide (0 < a d))

/-- `if coins.IsAllPositive() { SendCoins(from, to, coins) }` -/
def sendIfAny (voc : List Denom) (b : Bank) (frm to : Addr) (a : Amt) : Except Err Bank :=
  if nonEmpty voc a then b.sendAmt frm to voc a else .ok b

/-- `GetBondsValue` over the coins as listed -/
def bondsValue (feeRate : Denom → Option Int) : List (Denom × Nat) → Int
  | [] => 0
  | (d, a) :: rest =>
    (match feeRate d with
     | none => 0
     | some r => Dec.mul r (Dec.ofInt a)) + bondsValue feeRate rest

def minBondDec (s : State) : Int := Dec.mul (Dec.ofInt (toI64 s.minBond)) (Dec.ofInt 1000000)

structure CreateArgs where
  nPools : Nat
  claimPeriod : Nat
  depAny : Bool
  depRoles : List Nat
  depAccounts : List Addr
  pools : List (Nat × Int) := []
  claimStart : Nat := 0
  claimEnd : Nat := 0
  now : Nat := 0

/-- `MsgCreateCollective` -/
def create (s : State) (a : Addr) (name : Nat) (bonds : List (Denom × Nat)) (x : CreateArgs) : Except Err State :=
  match findColl s.colls name with
  | some _ => .error .err
  | none =>
    if x.nPools > s.maxOutputs then .error .err else
    if x.claimPeriod < s.minClaimPeriod then .error .err else
    let bv := bondsValue s.feeRate bonds
    let mb := minBondDec s
    if bv < Dec.quo mb (Dec.ofInt 10) then .error .err else
    let status := if bv ≥ mb then 0 else 1
    match s.sp.bank.send a (collAddr name) bonds with
    | .error e => .error e
    | .ok bank' =>
      .ok { s with sp := { s.sp with bank := bank' },
                   colls := setColl s.colls { name := name, status := status, depAny := x.depAny, depRoles := x.depRoles,
                                              depAccounts := x.depAccounts, bonds := Amt.ofList bonds, donations := Amt.zero,
                                              pools := x.pools, claimStart := x.claimStart, claimPeriod := x.claimPeriod,
                                              claimEnd := x.claimEnd, creationTime := x.now },
                   contribs := setContrib s.contribs { coll := name, acct := a, bonds := Amt.ofList bonds, locking := 0,
                                                       donation := 0, donationLock := false } }

def whitelisted (s : State) (c : Coll) (a : Addr) : Bool :=
  c.depAny || c.depAccounts.contains a ||
  (match s.sp.actors a with
   | none => false
   | some rs => c.depRoles.any (fun r => rs.contains r))

/-- `MsgBondCollective` (`ContributeCollective`) -/
def bond (s : State) (a : Addr) (name : Nat) (bonds : List (Denom × Nat)) : Except Err State :=
  match findColl s.colls name with
  | none => .error .err
  | some c =>
    match s.sp.bank.send a (collAddr name) bonds with
    | .error e => .error e
    | .ok bank1 =>
      if !whitelisted s c a then .error .err else
      let add := Amt.ofList bonds
      let c' := { c with bonds := Amt.add c.bonds add }
      match findContrib s.contribs name a with
      | some cc =>
        match calcPortion s.sp.voc add cc.donation with
        | none => .error .panic
        | some don =>
          match sendIfAny s.sp.voc bank1 (collAddr name) (donAddr name) don with
          | .error e => .error e
          | .ok bank2 =>
            .ok { s with sp := { s.sp with bank := bank2 }, colls := setColl s.colls c',
                         contribs := setContrib s.contribs { cc with bonds := Amt.add cc.bonds add } }
      | none =>
        .ok { s with sp := { s.sp with bank := bank1 }, colls := setColl s.colls c',
                     contribs := setContrib s.contribs { coll := name, acct := a, bonds := add, locking := 0,
                                                         donation := 0, donationLock := false } }

def oneYear : Nat := 31536000

/-- `MsgDonateCollective`. NB `cc.Donation != msg.Donation` compares two `sdk.Dec` structs, i.e. two `*big.Int`
pointers, which always differ for a stored vs. a received value: a donation-locked contributor is always rejected. -/
def donate (s : State) (a : Addr) (name : Nat) (locking : Nat) (don : Int) (dlock : Bool) (now : Nat) : Except Err State :=
  if don < 0 ∨ don > Dec.one then .error .err else     -- ValidateBasic
  match findContrib s.contribs name a with
  | none => .error .err
  | some cc =>
    if locking > addU64 now oneYear then .error .err else
    if cc.locking > locking then .error .err else
    if cc.donationLock then .error .err else
    match findColl s.colls name with
    | none => .error .err
    | some _ =>
      let move (frm to : Addr) (delta : Int) : Except Err Bank :=
        match calcPortion s.sp.voc cc.bonds delta with
        | none => .error .panic
        | some m => sendIfAny s.sp.voc s.sp.bank frm to m
      let r : Except Err Bank :=
        if cc.donation > don then move (donAddr name) (collAddr name) (cc.donation - don)
        else if don > cc.donation then move (collAddr name) (donAddr name) (don - cc.donation)
        else .ok s.sp.bank
      match r with
      | .error e => .error e
      | .ok bank' =>
        .ok { s with sp := { s.sp with bank := bank' },
                     contribs := setContrib s.contribs { cc with donation := don, locking := locking, donationLock := dlock } }

/-- keeper `WithdrawCollective(ctx, collective, cc)` -/
def withdrawK (s : State) (c : Coll) (cc : Contrib) : Except Err State :=
  match calcPortion s.sp.voc cc.bonds (Dec.one - cc.donation), calcPortion s.sp.voc cc.bonds cc.donation with
  | some cb, some db =>
    match sendIfAny s.sp.voc s.sp.bank (collAddr c.name) cc.acct cb with
    | .error e => .error e
    | .ok bank1 =>
      match sendIfAny s.sp.voc bank1 (donAddr c.name) cc.acct db with
      | .error e => .error e
      | .ok bank2 =>
        if !Amt.geOn s.sp.voc c.bonds cb then .error .panic else
        let b1 := Amt.sub c.bonds cb
        if !Amt.geOn s.sp.voc b1 db then .error .panic else
        .ok { s with sp := { s.sp with bank := bank2 }, colls := setColl s.colls { c with bonds := Amt.sub b1 db },
                     contribs := delContrib s.contribs cc.coll cc.acct }
  | _, _ => .error .panic

/-- `MsgWithdrawCollective` -/
def withdraw (s : State) (a : Addr) (name : Nat) (now : Nat) : Except Err State :=
  match findContrib s.contribs name a with
  | none => .error .err
  | some cc =>
    if cc.locking > now then .error .err else          -- ErrBondsLockedOnTheCollective
    match findColl s.colls name with
    | none => .error .err
    | some c => withdrawK s c cc

/-- `IsAllGTE` as coded (an empty right side is always covered; the left side is canonical) -/
def isAllGTE (a : Amt) (coins : List (Denom × Nat)) : Bool := coins.all (fun e => decide (e.2 ≤ a e.1))

/-- keeper `SendDonation` (called only by the send-donation proposal) -/
def sendDonation (s : State) (name : Nat) (to : Addr) (coins : List (Denom × Nat)) : Except Err State :=
  match findColl s.colls name with
  | none => .error .err
  | some c =>
    if !isAllGTE c.donations coins then .error .err else
    if !coinsValid coins then .error .err else           -- the bank rejects a non-canonical list (ErrInvalidCoins)
    match s.sp.bank.send COLL to coins with
    | .error e => .error e
    | .ok bank' =>
      .ok { s with sp := { s.sp with bank := bank' }, colls := setColl s.colls { c with donations := Amt.sub c.donations (Amt.ofList coins) } }

/-! ## `EndBlocker` (keeper/abci.go) -/

/-- the fee collector: x/multistaking `ClaimRewards` pays recorded delegator rewards out of it -/
def FEE : Addr := 1000003

/-- `mk.ClaimRewards(ctx, delegator)`: the recorded rewards are sent from the fee collector (`panic(err)` when it
cannot pay) and the record is removed -/
def claimRewards (s : State) (a : Addr) : Except Err (State × Amt) :=
  match s.sp.bank.sendAmt FEE a s.sp.voc (s.rewards a) with
  | .error _ => .error .panic
  | .ok b => .ok ({ s with sp := { s.sp with bank := b }, rewards := fun x => if x = a then Amt.zero else s.rewards x }, s.rewards a)

/-- the loop over `collective.SpendingPools`: a portion of the claimed coins goes to every pool that exists
(`DepositSpendingPoolFromAccount`: account -> spending module, pool balance credited); an unknown pool is skipped -/
def depositPools (s : State) (frm : Addr) (coins : Amt) : List (Nat × Int) → Except Err State
  | [] => .ok s
  | (p, w) :: rest =>
    match calcPortion s.sp.voc coins w with
    | none => .error .panic
    | some portion =>
      match findPool s.sp.pools p with
      | none => depositPools s frm coins rest
      | some pool =>
        match s.sp.bank.sendAmt frm SPEND s.sp.voc portion with
        | .error e => .error e
        | .ok b =>
          depositPools { s with sp := { s.sp with bank := b, pools := setPool s.sp.pools { pool with bal := Amt.add pool.bal portion } } }
            frm coins rest

/-- `DistributeCollectiveRewards`: rewards of the collective account go to the spending pools by weight; rewards of the
donation account go to the collectives module account (the `Donations` record is updated on a copy that is never stored) -/
def distribute (s : State) (c : Coll) : Except Err State :=
  match claimRewards s (collAddr c.name) with
  | .error e => .error e
  | .ok (s1, coins) =>
    match depositPools s1 (collAddr c.name) coins c.pools with
    | .error e => .error e
    | .ok s2 =>
      match claimRewards s2 (donAddr c.name) with
      | .error e => .error e
      | .ok (s3, dcoins) =>
        match s3.sp.bank.sendAmt (donAddr c.name) COLL s3.sp.voc dcoins with
        | .error e => .error e
        | .ok b => .ok { s3 with sp := { s3.sp with bank := b } }

/-- the contributors' loop of `ExecuteCollectiveRemove`: every call of `WithdrawCollective` gets the SAME collective value -/
def withdrawAll (s : State) (c : Coll) : List Contrib → Except Err State
  | [] => .ok s
  | cc :: rest =>
    match withdrawK s c cc with
    | .error e => .error e
    | .ok s' => withdrawAll s' c rest

/-- `ExecuteCollectiveRemove` -/
def executeRemove (s : State) (c : Coll) : Except Err State :=
  match distribute s c with
  | .error e => .error e
  | .ok s1 =>
    match withdrawAll s1 c (s1.contribs.filter (fun cc => cc.coll == c.name)) with
    | .error e => .error e
    | .ok s2 => .ok { s2 with colls := s2.colls.filter (fun q => !(q.name == c.name)) }

/-- first loop of the EndBlocker: distribution for ACTIVE collectives whose period has come. The cache context is written
only when the distribution returned no error; a panic inside it is a panic of the EndBlocker. `LastDistribution` is set on
the loop copy and never stored. -/
def distLoop (s : State) (now : Nat) : List Coll → Except Err State
  | [] => .ok s
  | c :: rest =>
    if c.status = 0 ∧ ((c.claimStart ≥ now ∧ c.lastDistribution = 0) ∨ c.lastDistribution + c.claimPeriod ≤ now) then
      match distribute s c with
      | .ok s' => distLoop s' now rest
      | .error .panic => .error .panic
      | .error .err => distLoop s now rest
    else distLoop s now rest

def bondsList (voc : List Denom) (a : Amt) : List (Denom × Nat) := voc.map (fun d => (d, a d))

/-- second loop: status by bond value inside the claim window (a paused collective keeps its status), the record is
stored back as it was read at the START of the EndBlocker, and a collective whose bond value is still below the minimum
after the minimum bonding time is removed (cache context: written only without error) -/
def statusLoop (s : State) (now : Nat) : List Coll → Except Err State
  | [] => .ok s
  | c :: rest =>
    let bv := bondsValue s.feeRate (bondsList s.sp.voc c.bonds)
    let st := if c.claimStart ≤ now ∧ (c.claimEnd = 0 ∨ c.claimEnd ≥ now) ∧ c.status ≠ 2 then (if bv ≥ minBondDec s then 0 else 1) else c.status
    let c' := { c with status := st }
    let s1 := { s with colls := setColl s.colls c' }
    if c.creationTime + s.minBondingTime ≤ now ∧ bv < minBondDec s then
      match executeRemove s1 c' with
      | .ok s2 => statusLoop s2 now rest
      | .error .panic => .error .panic
      | .error .err => statusLoop s1 now rest
    else statusLoop s1 now rest

/-- `EndBlocker` at block time `now` (`.error .panic`: the block processing panics) -/
def endBlock (s : State) (now : Nat) : Except Err State :=
  match distLoop s now s.colls with
  | .error e => .error e
  | .ok s1 => statusLoop s1 now s.colls

end Sekai.Collect
