/-
Store keys (table `Sekai.Gen.Keys`, regenerated from x/*/types/keys.go and x/*/keeper/keys.go on every run).

Every module keeps ALL its record kinds in one key-value store, each kind under `prefix ++ …`. The models keep each kind in
a map (or field) of its own. That is faithful only if a key of one kind can never be read, overwritten or deleted as a key
of another kind, which holds when no prefix of the module is a prefix of another one (`SekaiProofs/Lemmas/Keys.lean`:
`keys_of_apart_prefixes_differ`). This file holds the decidable vocabulary; the per-module statements live in the property
files of the properties whose models rely on them.
-/
namespace Sekai.Keys

/-- neither is a prefix of the other -/
def apart {α : Type} [BEq α] (p q : List α) : Bool := !(p.isPrefixOf q) && !(q.isPrefixOf p)

/-- the rows of one module (`[]` for a module that is not in the table) -/
def rowsOf (stores : List (String × List (String × List Nat))) (m : String) : List (String × List Nat) :=
  match stores.find? (·.1 == m) with
  | some r => r.2
  | none => []

/-- ordered pairs of differently named keys of one module where the first is a prefix of the second -/
def clashes (rows : List (String × List Nat)) : List (String × String) :=
  rows.flatMap fun a => (rows.filter fun b => a.1 != b.1 && a.2.isPrefixOf b.2).map fun b => (a.1, b.1)

/-- the module is in the table and none of its keys extends another -/
def disjoint (stores : List (String × List (String × List Nat))) (m : String) : Bool :=
  !(rowsOf stores m).isEmpty && (clashes (rowsOf stores m)).isEmpty

end Sekai.Keys
