import Sekai.Base.Dec
/-! # Executable model of x/multistaking (+ the minimal bank it needs). Core Lean only.

Mirrors, AS CODED in /repo: `msg_server.go` (UpsertStakingPool, ClaimUndelegation, ClaimMaturedUndelegations,
ClaimRewards, SetCompoundInfo), `delegation.go` (Delegate incl. the MaxDelegators push-out, Undelegate incl.
the slashed-pool share computation, IncreasePoolRewards incl. UnregisterNotEnoughStakeDelegator and the
autocompound loop, ClaimRewards), `slash.go` (SlashStakingPool), `types/pool.go` (GetPoolCoins, share denoms).

Abstractions (stated, not hidden):
* a denom is a pair `(pool, tok)`: `pool = 0` is the registered native token number `tok`, `pool = k > 0` is
  the share token `v<k>/<tok>` of pool `k` (Go builds it by string concatenation / `TrimPrefix`; pool ids start
  at 1). Token 0 is the default denom `ukex`.
* accounts are small indices; validator `i` is operated by account `i`; module accounts are constructors.
* amount lists given to the ops are canonical `sdk.Coins` (positive, no duplicate denom) — the generators only
  produce such lists and the model rejects others.
* errors and (recovered) panics are both `none`; every op is applied with write-on-success.
* `AllocateTokensToValidator`: the validator has issued no recovery token. Basket hooks are outside the model.
* store iteration order of delegators = order of the account address bytes, given to the model as `rank`. -/
namespace Sekai.MultiStake
open Sekai

structure Denom where
  pool : Nat
  tok : Nat
deriving DecidableEq, Repr

inductive Acct
  | user (i : Nat)
  | ms      -- multistaking module account
  | fc      -- fee collector
  | mint    -- mint module account
deriving DecidableEq, Repr

/-- association list with additive reading: `get` sums every entry of the key -/
abbrev AMap (K : Type) := List (K × Nat)

namespace AMap
variable {K : Type} [DecidableEq K]

def get : AMap K → K → Nat
  | [], _ => 0
  | (k', n) :: r, k => (if k' = k then n else 0) + get r k

def add1 : AMap K → K → Nat → AMap K
  | [], k, n => [(k, n)]
  | (k', m) :: r, k, n => if k' = k then (k', m + n) :: r else (k', m) :: add1 r k n

def addAll (m : AMap K) : AMap K → AMap K
  | [] => m
  | (k, n) :: r => addAll (add1 m k n) r

/-- remove `n` units of key `k` walking the list (saturating; callers check `get m k ≥ n` first) -/
def take : AMap K → K → Nat → AMap K
  | [], _, _ => []
  | (k', m) :: r, k, n => if k' = k then (k', m - n) :: take r k (n - m) else (k', m) :: take r k n

def sub1? (m : AMap K) (k : K) (n : Nat) : Option (AMap K) :=
  if get m k < n then none else some (take m k n)

/-- `Coins.Sub` / `subUnlockedCoins`: `none` where Go panics / returns insufficient funds -/
def subAll? (m : AMap K) : AMap K → Option (AMap K)
  | [] => some m
  | (k, n) :: r =>
    match sub1? m k n with
    | none => none
    | some m' => subAll? m' r

def isZero (m : AMap K) : Bool := m.all (fun kv => kv.2 == 0)

/-- entries with a positive amount (what a Go `sdk.Coins` would contain) -/
def nz (m : AMap K) : AMap K := m.filter (fun kv => kv.2 != 0)

def keys (m : AMap K) : List K := m.map (·.1)
end AMap

abbrev Coins := AMap Denom

def ukex : Denom := ⟨0, 0⟩

/-- canonical `sdk.Coins`: positive amounts, no duplicate denom -/
def validCoins : Coins → Bool
  | [] => true
  | (d, n) :: r => n != 0 && !(r.map (·.1)).contains d && validCoins r

/-- `Coins.IsAllGTE` -/
def isAllGTE (a b : Coins) : Bool := b.all (fun dn => AMap.get a dn.1 ≥ AMap.get b dn.1)

/-! ## bank -/
structure Bank where
  bal : AMap (Acct × Denom) := []
  supply : AMap Denom := []
deriving Repr

def keyed (a : Acct) : Coins → AMap (Acct × Denom)
  | [] => []
  | (d, n) :: r => ((a, d), n) :: keyed a r

namespace Bank
def balance (b : Bank) (a : Acct) (d : Denom) : Nat := AMap.get b.bal (a, d)

def send (b : Bank) (src dst : Acct) (c : Coins) : Option Bank :=
  match AMap.subAll? b.bal (keyed src c) with
  | none => none
  | some bal' => some { b with bal := AMap.addAll bal' (keyed dst c) }

def mint (b : Bank) (dst : Acct) (c : Coins) : Bank :=
  { bal := AMap.addAll b.bal (keyed dst c), supply := AMap.addAll b.supply c }

def burn (b : Bank) (src : Acct) (c : Coins) : Option Bank :=
  match AMap.subAll? b.bal (keyed src c) with
  | none => none
  | some bal' =>
    match AMap.subAll? b.supply c with
    | none => none
    | some sup' => some { bal := bal', supply := sup' }
end Bank

/-! ## records -/
structure TokInfo where
  stakeEnabled : Bool
  stakeMin : Nat
  stakeCap : Dec.D
  feeRate : Dec.D
deriving Repr

structure Props where
  unstakingPeriod : Nat := 2629800
  maxDelegators : Nat := 100
  minDelegationPushout : Nat := 10
  autocompoundInterval : Nat := 17280
  validatorsFeeShare : Dec.D := Dec.half
  inflationRate : Dec.D := 0
  inflationPeriod : Nat := 31557600
  maxAnnualInflation : Dec.D := 0
deriving Repr

structure Pool where
  id : Nat
  val : Nat
  enabled : Bool
  commission : Dec.D
  slashed : Dec.D := 0
  stake : Coins := []     -- TotalStakingTokens
  shares : Coins := []    -- TotalShareTokens
deriving Repr, DecidableEq

structure Undel where
  id : Nat
  owner : Nat
  val : Nat
  expiry : Nat
  amount : Coins
deriving Repr

structure Compound where
  who : Nat
  lastExec : Nat := 0
  allDenom : Bool := false
  denoms : List Denom := []
deriving Repr

structure St where
  bank : Bank := {}
  pools : List Pool := []
  lastPoolId : Nat := 0
  undels : List Undel := []
  lastUndelId : Nat := 0
  delegators : List (Nat × Nat) := []      -- (pool id, account)
  rewards : List (Nat × Coins) := []       -- delegator → recorded rewards
  compound : List Compound := []
  -- distributor
  treasury : Coins := []
  votes : List (Nat × Nat) := []           -- (validator, height) vote records
  snapPeriod : Nat := 1000
  prevProposer : Option Nat := none
  periodic : Option (Nat × Nat) := none    -- (time, amount) periodic supply snapshot
  yearStart : Option (Nat × Nat) := none
  -- context / environment
  height : Nat := 0
  now : Nat := 0
  toks : List (Nat × TokInfo) := []
  vals : List (Nat × Bool) := []           -- validator → IsActive
  props : Props := {}
  rank : List (Nat × Nat) := []            -- account → position in address-byte order
  vrank : List (Nat × Nat) := []           -- validator → position of its pool in store order (bech32 string)
deriving Repr

def natOfInt? (i : Int) : Option Nat := if i < 0 then none else some i.toNat

def St.bal (s : St) (a : Acct) (d : Denom) : Nat := s.bank.balance a d

/-- `tokenKeeper.GetTokenInfo(denom)` for the denoms the staking code asks about: registered native tokens.
Share denoms get a registry entry with `StakeEnabled = false` when first minted (`tokens.MintCoins`). -/
def St.tokInfo (s : St) (d : Denom) : Option TokInfo :=
  if d.pool = 0 then s.toks.lookup d.tok
  else some { stakeEnabled := false, stakeMin := 1, stakeCap := 0, feeRate := 0 }

def findPool (s : St) (val : Nat) : Option Pool := s.pools.find? (fun p => p.val == val)

def setPool : List Pool → Pool → List Pool
  | [], p => [p]
  | q :: r, p => if q.val = p.val then p :: r else q :: setPool r p

/-! ## share denoms, GetPoolCoins -/
/-- `NewDecFromInt(amount).Mul(OneDec().Sub(slashed)).RoundInt()` -/
def shareAmt (slashed : Dec.D) (n : Nat) : Int :=
  Dec.roundInt (Dec.mul (Dec.ofInt n) (Dec.one - slashed))

/-- `types.GetPoolCoins(pool, coins)`; `none` where `sdk.NewCoin` panics (negative) or the denom is not native -/
def poolCoins (p : Pool) : Coins → Option Coins
  | [] => some []
  | (d, n) :: r =>
    if d.pool ≠ 0 then none else
    match natOfInt? (shareAmt p.slashed n) with
    | none => none
    | some k =>
      match poolCoins p r with
      | none => none
      | some r' => some ((⟨p.id, d.tok⟩, k) :: r')

/-! ## pool delegators (store order = address order) -/
def rankOf (s : St) (a : Nat) : Nat :=
  match s.rank.lookup a with
  | some r => r
  | none => 1000000 + a

def insertBy (f : Nat → Nat) (x : Nat) : List Nat → List Nat
  | [] => [x]
  | y :: ys => if f x ≤ f y then x :: y :: ys else y :: insertBy f x ys

def sortBy (f : Nat → Nat) (l : List Nat) : List Nat := l.foldr (insertBy f) []

def isDelegator (s : St) (pid a : Nat) : Bool := s.delegators.any (fun pa => pa.1 == pid && pa.2 == a)

def delegatorsOf (s : St) (pid : Nat) : List Nat :=
  sortBy (rankOf s) ((s.delegators.filter (fun pa => pa.1 == pid)).map (·.2))

def addDelegator (l : List (Nat × Nat)) (pid a : Nat) : List (Nat × Nat) :=
  if l.any (fun pa => pa.1 == pid && pa.2 == a) then l else l ++ [(pid, a)]

def removeDelegator (l : List (Nat × Nat)) (pid a : Nat) : List (Nat × Nat) :=
  l.filter (fun pa => !(pa.1 == pid && pa.2 == a))

/-- `GetPoolDelegationValue` -/
def delegationValue (s : St) (p : Pool) (a : Nat) : Int :=
  (AMap.nz p.stake).foldl (fun acc dn =>
    match s.tokInfo dn.1 with
    | none => acc
    | some ti => acc + Dec.roundInt (Dec.mul (Dec.ofInt (s.bal (.user a) ⟨p.id, dn.1.tok⟩)) ti.feeRate)) 0

/-- `GetCoinsValue` -/
def coinsValue (s : St) (c : Coins) : Int :=
  c.foldl (fun acc dn =>
    match s.tokInfo dn.1 with
    | none => acc
    | some ti => acc + Dec.roundInt (Dec.mul (Dec.ofInt dn.2) ti.feeRate)) 0

/-- `GetMinDelegatorWithValue` (the validator's own account is skipped; ties keep the first in store order) -/
def minDelegator (s : St) (p : Pool) : Option Nat × Int :=
  (delegatorsOf s p.id).foldl (fun (acc : Option Nat × Int) a =>
    if a = p.val then acc else
    let v := delegationValue s p a
    if acc.2 = 0 ∨ acc.2 > v then (some a, v) else acc) (none, 0)

/-- the MaxDelegators branch of `Delegate` for an account that is not yet a delegator of the pool -/
def pushout (s : St) (p : Pool) (who : Nat) (amts : Coins) : Option St :=
  if (delegatorsOf s p.id).length ≥ s.props.maxDelegators then
    let (md, mv) := minDelegator s p
    let newV := delegationValue s p who + coinsValue s amts
    if mv > 0 ∧ newV ≥ mv * (s.props.minDelegationPushout : Int) then
      match md with
      | some m => some { s with delegators := removeDelegator s.delegators p.id m }
      | none => some s
    else none
  else some s

def stakeOk (s : St) (dn : Denom × Nat) : Bool :=
  match s.tokInfo dn.1 with
  | none => false                      -- nil dereference in Go: a recovered panic
  | some ti => ti.stakeEnabled && dn.2 ≥ ti.stakeMin

/-! ## UpsertStakingPool -/
def upsertPool (s : St) (sender val : Nat) (enabled : Bool) (commission : Dec.D) : Option St :=
  match s.vals.lookup val with
  | none => none
  | some _ =>
    if sender ≠ val then none else
    match findPool s val with
    | some p =>
      if p.slashed > 0 then none
      else some { s with pools := setPool s.pools { p with enabled := enabled } }
    | none =>
      let id := s.lastPoolId + 1
      some { s with lastPoolId := id,
                    pools := setPool s.pools { id := id, val := val, enabled := enabled, commission := commission } }

/-! ## Delegate -/
def delegate (s : St) (who val : Nat) (amts : Coins) : Option St :=
  if !validCoins amts then none else
  match s.vals.lookup val with
  | none => none
  | some active =>
    if !active then none else
    match findPool s val with
    | none => none
    | some p =>
      if p.slashed > 0 then none else
      match (if isDelegator s p.id who then some s else pushout s p who amts) with
      | none => none
      | some s1 =>
        match s1.bank.send (.user who) .ms amts with
        | none => none
        | some b1 =>
          if !amts.all (stakeOk s) then none else
          match poolCoins p amts with
          | none => none
          | some pc =>
            match (b1.mint .mint pc).send .mint (.user who) pc with
            | none => none
            | some b3 =>
              some { s1 with bank := b3,
                             pools := setPool s1.pools { p with stake := AMap.addAll p.stake amts, shares := AMap.addAll p.shares pc },
                             delegators := addDelegator s1.delegators p.id who }

/-! ## Undelegate — as coded: the shares burned are `GetPoolCoins(pool, amounts)` = `amount·(1 − slashed)`,
and the delegator is removed from the pool's delegator set unless its balance string contains `v<id>_`
(share denoms are `v<id>/…`, so it never does: the delegator is always removed). -/
def undelegate (s : St) (who val : Nat) (amts : Coins) : Option St :=
  if !validCoins amts then none else
  match findPool s val with
  | none => none
  | some p =>
    match poolCoins p amts with
    | none => none
    | some pc =>
      match s.bank.send (.user who) .ms pc with
      | none => none
      | some b1 =>
        match b1.burn .ms pc with
        | none => none
        | some b2 =>
          if !isAllGTE p.stake amts then none else
          match AMap.subAll? p.stake amts with
          | none => none
          | some stake' =>
            match AMap.subAll? p.shares pc with
            | none => none
            | some shares' =>
              let id := s.lastUndelId + 1
              some { s with bank := b2,
                            pools := setPool s.pools { p with stake := stake', shares := shares' },
                            lastUndelId := id,
                            undels := s.undels ++ [{ id := id, owner := who, val := val, expiry := s.now + s.props.unstakingPeriod, amount := amts }],
                            delegators := removeDelegator s.delegators p.id who }

/-! ## SlashStakingPool -/
def slashCoins (sl : Dec.D) : Coins → Option Coins
  | [] => some []
  | (d, n) :: r =>
    match natOfInt? (shareAmt sl n) with
    | none => none
    | some k =>
      match slashCoins sl r with
      | none => none
      | some r' => some ((d, k) :: r')

/-- `none` = panic (negative coin, `Coins.Sub` below zero, or `BurnCoins` of the zero default-denom coin) -/
def slash (s : St) (val : Nat) (sl : Dec.D) : Option St :=
  match findPool s val with
  | none => some s
  | some p =>
    match slashCoins sl (AMap.nz p.stake) with
    | none => none
    | some stake' =>
      match AMap.subAll? p.stake stake' with
      | none => none
      | some slashed =>
        let burnAmt := AMap.get slashed ukex
        if burnAmt = 0 then none else
        match s.bank.burn .ms [(ukex, burnAmt)] with
        | none => none
        | some b1 =>
          let rest := (AMap.nz slashed).filter (fun dn => dn.1 ≠ ukex)
          match b1.send .ms .fc rest with
          | none => none
          | some b2 =>
            some { s with bank := b2, treasury := AMap.addAll s.treasury rest,
                          pools := setPool s.pools { p with slashed := sl, enabled := false, stake := stake' } }

/-! ## ClaimUndelegation (with the owner check of commit 3b4a8dc), ClaimMaturedUndelegations -/
def claimUndel (s : St) (who id : Nat) : Option St :=
  match s.undels.find? (fun u => u.id == id) with
  | none => none
  | some u =>
    if u.owner ≠ who then none else
    if s.now < u.expiry then none else
    match s.bank.send .ms (.user who) u.amount with
    | none => none
    | some b => some { s with bank := b, undels := s.undels.filter (fun u => u.id != id) }

def claimMaturedAux (who now : Nat) : List Undel → Bank → Option (Bank × List Undel)
  | [], b => some (b, [])
  | u :: r, b =>
    if u.owner ≠ who ∨ now < u.expiry then
      match claimMaturedAux who now r b with
      | none => none
      | some (b', keep) => some (b', u :: keep)
    else
      match b.send .ms (.user who) u.amount with
      | none => none
      | some b1 => claimMaturedAux who now r b1

def claimMatured (s : St) (who : Nat) : Option St :=
  match claimMaturedAux who s.now s.undels s.bank with
  | none => none
  | some (b, keep) => some { s with bank := b, undels := keep }

/-! ## delegator rewards -/
def rewardsOf (s : St) (a : Nat) : Coins :=
  match s.rewards.lookup a with
  | some c => c
  | none => []

def setRewards (l : List (Nat × Coins)) (a : Nat) (c : Coins) : List (Nat × Coins) :=
  match l with
  | [] => [(a, c)]
  | (a', c') :: r => if a' = a then (a, c) :: r else (a', c') :: setRewards r a c

def removeRewards (l : List (Nat × Coins)) (a : Nat) : List (Nat × Coins) := l.filter (fun ac => ac.1 != a)

def claimRewards (s : St) (who : Nat) : Option St :=
  match s.bank.send .fc (.user who) (rewardsOf s who) with
  | none => none
  | some b => some { s with bank := b, rewards := removeRewards s.rewards who }

def compoundOf (s : St) (a : Nat) : Compound :=
  match s.compound.find? (fun c => c.who == a) with
  | some c => c
  | none => { who := a }

def setCompound (l : List Compound) (c : Compound) : List Compound :=
  match l with
  | [] => [c]
  | c' :: r => if c'.who = c.who then c :: r else c' :: setCompound r c

def setCompoundInfo (s : St) (who : Nat) (all : Bool) (denoms : List Denom) : St :=
  { s with compound := setCompound s.compound { who := who, lastExec := 0, allDenom := all, denoms := denoms } }

/-! ## IncreasePoolRewards -/
/-- `UnregisterNotEnoughStakeDelegator`: a delegator stays iff it holds at least `StakeMin` of some share token -/
def keepDelegator (s : St) (p : Pool) (a : Nat) : Bool :=
  (AMap.nz p.shares).any (fun sd =>
    match s.tokInfo ⟨0, sd.1.tok⟩ with
    | none => false
    | some ti => s.bal (.user a) sd.1 ≥ ti.stakeMin)

/-- rewards allocated to one staked denom: `NewDecFromInt(reward).Mul(StakeCap).RoundInt()` per reward coin -/
def denomAllocation (cap : Dec.D) : Coins → Option Coins
  | [] => some []
  | (d, n) :: r =>
    match natOfInt? (Dec.roundInt (Dec.mul (Dec.ofInt n) cap)) with
    | none => none
    | some k =>
      match denomAllocation cap r with
      | none => none
      | some r' => some ((d, k) :: r')

/-- one delegator's part of an allocation: `reward·balance / totalShares` (integer division) -/
def delegatorPart (alloc : Coins) (balance total : Nat) : Coins :=
  alloc.map (fun dn => (dn.1, dn.2 * balance / total))

/-- the list of credits `(delegator, coins)` of one share denom -/
def creditsOfDenom (s : St) (delegs : List Nat) (sd : Denom) (total : Nat) (alloc : Coins) : List (Nat × Coins) :=
  delegs.map (fun a => (a, delegatorPart alloc (s.bal (.user a) sd) total))

/-- all credits of `IncreasePoolRewards` before autocompounding; `none` where `NewCoin` would panic -/
def poolCredits (s : St) (delegs : List Nat) (rewards : Coins) : Coins → Option (List (Nat × Coins))
  | [] => some []
  | (sd, total) :: r =>
    match poolCredits s delegs rewards r with
    | none => none
    | some rest =>
      match s.tokInfo ⟨0, sd.tok⟩ with
      | none => some rest
      | some ti =>
        if ti.stakeCap = 0 then some rest else
        if total = 0 then some rest else
        match denomAllocation ti.stakeCap rewards with
        | none => none
        | some alloc => some (creditsOfDenom s delegs sd total alloc ++ rest)

def applyCredits (l : List (Nat × Coins)) : List (Nat × Coins) → List (Nat × Coins)
  | [] => l
  | (a, c) :: r =>
    let cur := match l.lookup a with | some x => x | none => []
    applyCredits (setRewards l a (AMap.addAll cur c)) r

/-- the reward coins a delegator autocompounds when `AllDenom` is off; `none` = nil dereference (unregistered denom) -/
def compoundFilter (s : St) (ci : Compound) : Coins → Option Coins
  | [] => some []
  | (d, n) :: r =>
    match s.tokInfo d with
    | none => none
    | some ti =>
      match compoundFilter s ci r with
      | none => none
      | some r' =>
        if ti.stakeEnabled && n ≥ ti.stakeMin && ci.denoms.contains d then some ((d, n) :: r') else some r'

/-- autocompound loop of `IncreasePoolRewards` for the delegators in `delegs`; `none` = `panic(err)` -/
def autocompound (val : Nat) : List Nat → St → Option St
  | [], s => some s
  | a :: rest, s =>
    let rw := AMap.nz (rewardsOf s a)
    let ci := compoundOf s a
    if ci.lastExec + s.props.autocompoundInterval > s.height then autocompound val rest s else
    let step : Option (Coins × St) :=
      if ci.allDenom then some (rw, { s with rewards := removeRewards s.rewards a })
      else
        match compoundFilter s ci rw with
        | none => none
        | some auto =>
          if !AMap.isZero auto then
            match AMap.subAll? rw auto with
            | none => none
            | some left => some (auto, { s with rewards := setRewards s.rewards a left })
          else some (auto, s)
    match step with
    | none => none
    | some (auto, s1) =>
      if AMap.isZero auto then autocompound val rest s1 else
      match s1.bank.send .fc (.user a) auto with
      | none => none
      | some b =>
        match delegate { s1 with bank := b } a val auto with
        | none => none
        | some s2 =>
          autocompound val rest { s2 with compound := setCompound s2.compound { ci with lastExec := s2.height } }

/-- `IncreasePoolRewards(ctx, pool, rewards)`: `pool` is the record the caller read earlier -/
def increasePoolRewards (s : St) (p : Pool) (rewards : Coins) : Option St :=
  let kept := (delegatorsOf s p.id).filter (keepDelegator s p)
  let s0 := { s with delegators := s.delegators.filter (fun pa => !(pa.1 == p.id) || keepDelegator s p pa.2) }
  match poolCredits s0 kept rewards (AMap.nz p.shares) with
  | none => none
  | some credits =>
    autocompound p.val kept { s0 with rewards := applyCredits s0.rewards credits }

/-! ## RegisterDelegator -/
/-- the inner loop over `pool.TotalStakingTokens`: `some true` = registered, `none` = nil dereference -/
def holdsMinimum (s : St) (p : Pool) (who : Nat) : Coins → Option Bool
  | [] => some false
  | (d, _) :: r =>
    match s.tokInfo d with
    | none => none
    | some ti => if s.bal (.user who) ⟨p.id, d.tok⟩ ≥ ti.stakeMin then some true else holdsMinimum s p who r

/-- one iteration of the loop over all pools (`p` is the record read before the loop) -/
def registerInPool (s : St) (who : Nat) (p : Pool) : Option St :=
  if isDelegator s p.id who then some s else
  match pushout s p who [] with
  | none => some s                     -- `continue`
  | some s1 =>                         -- (a pushed-out delegator stays removed even if nothing is registered)
    match holdsMinimum s1 p who (AMap.nz p.stake) with
    | none => none
    | some true => some { s1 with delegators := addDelegator s1.delegators p.id who }
    | some false => some s1

def registerLoop (who : Nat) : List Pool → St → Option St
  | [], s => some s
  | p :: r, s =>
    match registerInPool s who p with
    | none => none
    | some s1 => registerLoop who r s1

def vrankOf (s : St) (v : Nat) : Nat :=
  match s.vrank.lookup v with
  | some r => r
  | none => 1000000 + v

def insertPoolBy (f : Pool → Nat) (x : Pool) : List Pool → List Pool
  | [] => [x]
  | y :: ys => if f x ≤ f y then x :: y :: ys else y :: insertPoolBy f x ys

/-- `RegisterDelegator(ctx, delegator)`: every pool in store order -/
def registerDelegator (s : St) (who : Nat) : Option St :=
  registerLoop who (s.pools.foldr (insertPoolBy (fun p => vrankOf s p.val)) []) s

/-! ## plain bank transfer between user accounts (share tokens are ordinary coins) -/
def transfer (s : St) (src dst : Nat) (c : Coins) : Option St :=
  if !validCoins c then none else
  match s.bank.send (.user src) (.user dst) c with
  | none => none
  | some b => some { s with bank := b }

/-- a fee payment: user → fee collector (what the ante handler's DeductFee does) -/
def payFee (s : St) (src : Nat) (c : Coins) : Option St :=
  if !validCoins c then none else
  match s.bank.send (.user src) .fc c with
  | none => none
  | some b => some { s with bank := b }


/-! ## x/tokens UpsertTokenInfo: the stake-cap rule the reward split relies on

After the write the `StakeCap`s of ALL registered tokens - whether their staking is currently enabled or not: shares of
a token whose staking was switched off stay in the pools and keep earning their cap - must not add up to more than 1. -/
def upsertTok (s : St) (id : Nat) (ti : TokInfo) : Option St :=
  let toks' := s.toks.filter (fun kv => kv.1 != id) ++ [(id, ti)]
  if (toks'.map (fun t => t.2.stakeCap)).sum ≤ Dec.one then some { s with toks := toks' } else none

/-- `MsgUpsertTokenInfo` (x/tokens msg server) for a denomination that is NOT registered yet: the message's own
`ValidateBasic` - which the msg server calls first - wants a positive fee rate and a reward cap within [0, 1] whether or
not the token can be staked; then the registry rule of `upsertTok`. (A registered denomination takes the owner branch of
the handler, which does not touch the staking fields.) -/
def registerTok (s : St) (id : Nat) (ti : TokInfo) : Option St :=
  if ti.feeRate ≤ 0 then none else
  if ti.stakeCap < 0 then none else
  if Dec.one < ti.stakeCap then none else
  if s.toks.any (fun kv => kv.1 == id) then none else
  upsertTok s id ti

/-! ## layer2 `MsgMintBurnTx` applied to a pool's share tokens (x/layer2/keeper/msg_server.go) -/

/-- the sender's coins go to the layer2 module account and are burnt there: the holder's balance and the bank supply of
the share token fall, the pool record (`TotalShareTokens`) is not told -/
def l2Burn (s : St) (a : Nat) (c : Coins) : Option St :=
  match s.bank.burn (.user a) c with
  | none => none
  | some b => some { s with bank := b }

end Sekai.MultiStake
