import Sekai.Model.Layer2
/-!
x/layer2 dApp operators, as far as LP tokens are concerned: a verifier joins a launched dApp by locking LP tokens
(`MsgJoinDappVerifierWithBond`), announces its exit (`MsgExitDapp`), and gets the LOCKED amount back when the session is
reset (`ResetNewSession`, first loop). The lock is computed from the dApp's LP supply AT THE TIME OF JOINING
(`NewDecFromInt(GetLpTokenSupply()).Mul(DappVerifierBond).RoundInt()`) and recorded on the operator
(`BondedLpAmount`); the refund pays the record. Sessions themselves are not modelled: `resetSession` covers dApps without
executors (the only ones transactions can produce on this code: the first session of a dApp panics, finding
C06/layer2-join-dapp-enactment/first-session-nil-prev-session), which end Halted.
-/
namespace Sekai.Layer2

structure Oper where
  dapp : Bytes
  user : Nat
  executor : Bool
  verifier : Bool
  status : Nat      -- OperatorStatus: 0 active, 1 paused, 2 inactive, 3 exiting, 4 jailed
  bonded : Int      -- BondedLpAmount
  deriving DecidableEq

inductive OErr where
  | notAllowed | already | notOper | jailed | exiting | bank | panic | noDapp | unmodelled
  deriving DecidableEq, Repr

def OErr.str : OErr → String
  | .notAllowed => "err:notallowed" | .already => "err:already" | .notOper => "err:notoper" | .jailed => "err:jailed"
  | .exiting => "err:exiting" | .bank => "err:bank" | .panic => "err:panic" | .noDapp => "nodapp" | .unmodelled => "unmodelled"

def findOper (l : List Oper) (d : Bytes) (u : Nat) : Option Oper := l.find? (fun o => o.dapp = d ∧ o.user = u)
def setOper (l : List Oper) (o : Oper) : List Oper := o :: l.filter (fun x => ¬ (x.dapp = o.dapp ∧ x.user = o.user))

/-- what a verifier locks when it joins now -/
def verifierLp (d : Dapp) (vbond : Dec.D) : Int := Dec.roundInt (Dec.mul (Dec.ofInt (lpTotalSupply d)) vbond)

def alreadyVerifier (ops : List Oper) (name : Bytes) (u : Nat) : Bool :=
  match findOper ops name u with
  | some p => p.verifier
  | none => false

/-- the operator record a join writes: a new active verifier, or the existing record turned verifier -/
def joinRecord (ops : List Oper) (name : Bytes) (u : Nat) (lp : Int) : Oper :=
  match findOper ops name u with
  | none => { dapp := name, user := u, executor := false, verifier := true, status := 0, bonded := lp }
  | some p => { p with verifier := true, bonded := lp }

/-- the LP coins move only when the amount is positive (`Coins.IsAllPositive` of the sanitised coin set) -/
def lockLp (b : Bank) (u : Nat) (lpDen : Bytes) (lp : Int) : Option Bank :=
  if 0 < lp then b.send (.user u) .l2 lpDen lp else some b

/-- `MsgJoinDappVerifierWithBond` with `Interx = Sender = user u` -/
def joinVerifier (s : St) (ops : List Oper) (u : Nat) (name : Bytes) (vbond : Dec.D) : Except OErr (St × List Oper) :=
  match findDapp s.dapps name with
  | none => .error .notAllowed        -- `GetDapp` of an unknown name is the zero record: EnableBondVerifiers = false
  | some d =>
    if d.enableBondVerifiers = false then .error .notAllowed
    else if alreadyVerifier ops name u = true then .error .already
    else if verifierLp d vbond < 0 then .error .panic     -- sdk.NewCoin with a negative amount
    else
      match lockLp s.bank u (lpOf d.denom) (verifierLp d vbond) with
      | none => .error .bank
      | some b => .ok ({ s with bank := b }, setOper ops (joinRecord ops name u (verifierLp d vbond)))

/-- `MsgExitDapp` -/
def exitDapp (ops : List Oper) (u : Nat) (name : Bytes) : Except OErr (List Oper) :=
  match findOper ops name u with
  | none => .error .notOper
  | some o =>
    if o.status = 4 then .error .jailed
    else if o.status = 3 then .error .exiting
    else .ok (setOper ops { o with status := 3 })

/-- first loop of `ResetNewSession`: every exiting operator with a positive recorded bond gets that amount of LP tokens
back from the module (`none`: the send fails and the keeper panics) -/
def refundExiting (b : Bank) (lp : Bytes) : List Oper → Option Bank
  | [] => some b
  | o :: rest =>
    if o.status = 3 ∧ 0 < o.bonded then
      match b.send .l2 (.user o.user) lp o.bonded with
      | none => none
      | some b' => refundExiting b' lp rest
    else refundExiting b lp rest

def activeCount (ops : List Oper) (name : Bytes) (p : Oper → Bool) : Nat :=
  (ops.filter (fun o => o.dapp = name ∧ p o = true ∧ o.status = 0)).length

/-- `ResetNewSession(name, "")` for a dApp without executors: refunds, removal of the exiting operators, and the dApp
ends Halted (too few active operators, or no leader for the next session) -/
def resetSession (s : St) (ops : List Oper) (name : Bytes) : Except OErr (St × List Oper) :=
  match findDapp s.dapps name with
  | none => .error .noDapp
  | some d =>
    if (ops.filter (fun o => o.dapp = name ∧ o.executor = true)).isEmpty then
      match refundExiting s.bank (lpOf d.denom) (ops.filter (fun o => o.dapp = name)) with
      | none => .error .panic
      | some b =>
        .ok ({ s with bank := b, dapps := setDapp s.dapps { d with status := 3 } },
             ops.filter (fun o => ¬ (o.dapp = name ∧ o.status = 3)))
    else .error .unmodelled

end Sekai.Layer2
