import Sekai.Base.Dec
/-! Executable model of the basket module (x/basket) AS THE GO CODE IS, core Lean only.

Mirrors
* `x/basket/keeper/mint_burn_swap.go`  `MintBasketToken`, `BurnBasketToken`, `BasketSwap`
* `x/basket/types/basket.go`           `GetBasketDenom`, `RatesAndIndexes` (last token of a denom wins),
                                       `IncreaseBasketTokens`, `DecreaseBasketTokens`, `ValidateTokensCap`,
                                       `AverageDisbalance`, `SlippageFee`
* `x/basket/keeper/basket_action_history.go`  `Register*Action`, `GetLimitsPeriod*Amount` (time = unix seconds)
* `x/basket/keeper/basket.go`          `CreateBasket`, `EditBasket`, `GetBasketById`, `SetBasket`
* the slice of `x/bank` the above uses (balances per account and denom, the `basket` module account, supply;
  `Coins.IsValid` without the denom regular expression, `Coins.Add`, `Coins.Sub`), `x/tokens` `MintCoins/BurnCoins`
  (only their bank effect and the "token not registered" rejection, which cannot be reached before another rejection).

Every operation is run by the harness inside a cache context that is written only on success (baseapp's message
cache), so an operation is `St → Option St`: `none` = Go returned an error or panicked, nothing is written.
Known defect modelled as coded: `burn` reads the supply AFTER the coins were burnt (DESIGN §7 #4).
Not modelled: the denom regular expression (generators use valid denoms), `time.Duration` overflow of
`LimitsPeriod` (periods < 2^33 s), the 256/315-bit overflow panics of `sdk.Int`/`sdk.Dec`. -/
namespace Sekai.Basket
open Sekai

abbrev Denom := String

structure Coin where
  denom : Denom
  amount : Int
deriving DecidableEq, Repr, Inhabited

abbrev Coins := List Coin

/-- sum of the amounts recorded for `d` (`Coins.AmountOf` on valid coins) -/
def amountOf : Coins → Denom → Int
  | [], _ => 0
  | c :: cs, d => (if c.denom = d then c.amount else 0) + amountOf cs d

/-- `Coins.IsValid` minus the denom regexp: every amount positive, denoms strictly increasing -/
def validCoins : Coins → Bool
  | [] => true
  | c :: cs =>
    decide (0 < c.amount) &&
    (match cs with
     | [] => true
     | c' :: _ => decide (c.denom < c'.denom)) &&
    validCoins cs

/-- `Coins.Add(c)`: merge into the sorted list, zero results are dropped -/
def add1 : Coins → Coin → Coins
  | [], c => if c.amount = 0 then [] else [c]
  | x :: xs, c =>
    if c.denom < x.denom then (if c.amount = 0 then x :: xs else c :: x :: xs)
    else if c.denom = x.denom then
      (if x.amount + c.amount = 0 then xs else ⟨x.denom, x.amount + c.amount⟩ :: xs)
    else x :: add1 xs c

def addCoins (a b : Coins) : Coins := b.foldl add1 a

/-- `a.Sub(b)` = `a.safeAdd(b.negative())`; `none` where Go panics (`IsAnyNegative`); zeros are dropped -/
def subCoins? (a b : Coins) : Option Coins :=
  let r := addCoins a (b.map fun c => ⟨c.denom, -c.amount⟩)
  if r.any (fun c => decide (c.amount < 0)) then none else some r

/-! ## association maps with default 0 -/

def AMap (κ : Type) := List (κ × Int)

namespace AMap
variable {κ : Type} [DecidableEq κ]
def get : AMap κ → κ → Int
  | [], _ => 0
  | (k', v) :: r, k => if k' = k then v else get r k
def set (m : AMap κ) (k : κ) (v : Int) : AMap κ :=
  (k, v) :: List.filter (fun p => decide (p.1 ≠ k)) m
end AMap

/-! ## bank -/

inductive Acct where
  | module
  | user (i : Nat)
deriving DecidableEq, Repr

structure Bank where
  bal : AMap (Acct × Denom) := []
  supply : AMap Denom := []

namespace Bank
def balOf (b : Bank) (a : Acct) (d : Denom) : Int := b.bal.get (a, d)
def supplyOf (b : Bank) (d : Denom) : Int := b.supply.get d

/-- one iteration of `subUnlockedCoins` -/
def sub1 (b : Bank) (a : Acct) (c : Coin) : Option Bank :=
  if b.balOf a c.denom < c.amount then none
  else some { b with bal := b.bal.set (a, c.denom) (b.balOf a c.denom - c.amount) }

def subCoins (b : Bank) (a : Acct) : Coins → Option Bank
  | [] => some b
  | c :: cs =>
    match b.sub1 a c with
    | none => none
    | some b' => subCoins b' a cs

def add1 (b : Bank) (a : Acct) (c : Coin) : Bank :=
  { b with bal := b.bal.set (a, c.denom) (b.balOf a c.denom + c.amount) }

def addCoinsTo (b : Bank) (a : Acct) : Coins → Bank
  | [] => b
  | c :: cs => addCoinsTo (b.add1 a c) a cs

/-- `SendCoins` / `SendCoinsFromAccountToModule` / `SendCoinsFromModuleToAccount` -/
def send (b : Bank) (src dst : Acct) (cs : Coins) : Option Bank :=
  if validCoins cs then
    match b.subCoins src cs with
    | none => none
    | some b' => some (b'.addCoinsTo dst cs)
  else none

/-- tokens-keeper `MintCoins(basket, Coins{c})`: invalid (non-positive) coin is rejected by `addCoins` -/
def mint (b : Bank) (c : Coin) : Option Bank :=
  if 0 < c.amount then
    let b1 := b.add1 .module c
    some { b1 with supply := b1.supply.set c.denom (b1.supplyOf c.denom + c.amount) }
  else none

/-- tokens-keeper `BurnCoins(basket, Coins{c})` -/
def burn (b : Bank) (c : Coin) : Option Bank :=
  if 0 < c.amount then
    match b.sub1 .module c with
    | none => none
    | some b1 => some { b1 with supply := b1.supply.set c.denom (b1.supplyOf c.denom - c.amount) }
  else none
end Bank

/-! ## basket record -/

structure Token where
  denom : Denom
  weight : Dec.D
  amount : Int
  deposits : Bool
  withdraws : Bool
  swaps : Bool
deriving DecidableEq, Repr

structure Basket where
  id : Nat
  suffix : String
  amount : Int
  swapFee : Dec.D
  slippageFeeMin : Dec.D
  tokensCap : Dec.D
  limitsPeriod : Nat
  mintsMin : Int
  mintsMax : Int
  mintsDisabled : Bool
  burnsMin : Int
  burnsMax : Int
  burnsDisabled : Bool
  swapsMin : Int
  swapsMax : Int
  swapsDisabled : Bool
  tokens : List Token
  surplus : Coins
deriving DecidableEq, Repr

/-- `GetBasketDenom` -/
def Basket.denom (b : Basket) : Denom := s!"b{b.id}/{b.suffix}"

/-- `RatesAndIndexes`: the maps are filled front to back, so the LAST token of a denom wins -/
def lookupLast (d : Denom) : List Token → Option Token
  | [] => none
  | t :: ts =>
    match lookupLast d ts with
    | some x => some x
    | none => if t.denom = d then some t else none

/-- `b.Tokens[indexes[d]].Amount += δ`; `none` when the denom is not in the maps -/
def addAmt (d : Denom) (δ : Int) : List Token → Option (List Token)
  | [] => none
  | t :: ts =>
    match addAmt d δ ts with
    | some ts' => some (t :: ts')
    | none => if t.denom = d then some ({ t with amount := t.amount + δ } :: ts) else none

/-- sum of the recorded amounts of `d` -/
def reserveOf : List Token → Denom → Int
  | [], _ => 0
  | t :: ts, d => (if t.denom = d then t.amount else 0) + reserveOf ts d

/-- `IncreaseBasketTokens` -/
def incTokens (ts : List Token) : Coins → Option (List Token)
  | [] => some ts
  | c :: cs =>
    match addAmt c.denom c.amount ts with
    | none => none
    | some ts' => incTokens ts' cs

/-- one iteration of `DecreaseBasketTokens` (negative result is `ErrInsufficientBasketDepositToken`) -/
def subAmt (d : Denom) (δ : Int) (ts : List Token) : Option (List Token) :=
  match lookupLast d ts with
  | none => none
  | some t => if t.amount - δ < 0 then none else addAmt d (-δ) ts

/-- `DecreaseBasketTokens` -/
def decTokens (ts : List Token) : Coins → Option (List Token)
  | [] => some ts
  | c :: cs =>
    match subAmt c.denom c.amount ts with
    | none => none
    | some ts' => decTokens ts' cs

/-- Σ weightᵢ · amountᵢ (a `Dec`; `Mul` of an integer-valued `Dec` is exact) -/
def totalVal : List Token → Dec.D
  | [] => 0
  | t :: ts => Dec.mul (Dec.ofInt t.amount) t.weight + totalVal ts

/-- `ValidateTokensCap` -/
def capOk (tokensCap : Dec.D) (ts : List Token) : Bool :=
  let lim := Dec.mul (totalVal ts) tokensCap
  ts.all (fun t => !decide (Dec.mul (Dec.ofInt t.amount) t.weight > lim))

def dabs (x : Int) : Int := if x < 0 then -x else x

def sumDisb (avg : Dec.D) : List Token → Dec.D
  | [] => 0
  | t :: ts => dabs (Dec.quo (avg - Dec.mul t.weight (Dec.ofInt t.amount)) avg) + sumDisb avg ts

/-- `AverageDisbalance`; `none` = the division by a zero average panics -/
def avgDisbalance (ts : List Token) : Option Dec.D :=
  if ts.isEmpty then some 0 else
  let n := Dec.ofInt ts.length
  let avg := Dec.quo (totalVal ts) n
  if avg = 0 then none else some (Dec.quo (sumDisb avg ts) n)

/-- `SlippageFee(oldDisbalance)` -/
def slippageFee (slipMin : Dec.D) (ts : List Token) (old : Dec.D) : Option Dec.D :=
  match avgDisbalance ts with
  | none => none
  | some dis =>
    let diff := dis - old
    if diff < 0 then some 0
    else if slipMin > diff then some slipMin
    else some diff

/-! ## state -/

structure St where
  baskets : List Basket := []
  lastId : Nat := 0
  bank : Bank := {}
  mintH : AMap (Nat × Nat) := []     -- (basket id, unix time) ↦ amount registered at that time
  burnH : AMap (Nat × Nat) := []
  swapH : AMap (Nat × Nat) := []
  now : Nat := 0
  modRewards : Coins := []           -- x/multistaking delegator rewards on record for the basket module account

def getBasket : List Basket → Nat → Option Basket
  | [], _ => none
  | b :: bs, id => if b.id = id then some b else getBasket bs id

/-- `SetBasket`: overwrite the record with the same id, or add it -/
def setBasket : List Basket → Basket → List Basket
  | [], nb => [nb]
  | b :: bs, nb => if b.id = nb.id then nb :: bs else b :: setBasket bs nb

/-- `Register*Action` -/
def reg (h : AMap (Nat × Nat)) (id now : Nat) (amt : Int) : AMap (Nat × Nat) :=
  h.set (id, now) (h.get (id, now) + amt)

/-- `GetLimitsPeriod*Amount`: the iterator runs from `now - period` (inclusive) to the end of the basket's prefix -/
def periodSum (id now period : Nat) : AMap (Nat × Nat) → Int
  | [] => 0
  | (k, v) :: r => (if k.1 = id ∧ now ≤ k.2 + period then v else 0) + periodSum id now period r

/-- `ClearOld*Amounts` for one history: for every EXISTING basket the entries older than the basket's current limits
period are deleted (those the period sums no longer count); entries of other ids stay -/
def pruneH (bs : List Basket) (now : Nat) (h : AMap (Nat × Nat)) : AMap (Nat × Nat) :=
  h.filter (fun e => match bs.find? (fun b => b.id == e.1.1) with
    | some b => decide (now ≤ e.1.2 + b.limitsPeriod)
    | none => true)

/-- the module's EndBlocker (x/basket/abci.go) -/
def endBlock (s : St) : St :=
  { s with mintH := pruneH s.baskets s.now s.mintH, burnH := pruneH s.baskets s.now s.burnH,
           swapH := pruneH s.baskets s.now s.swapH }

/-! ## mint -/

/-- the loop of `MintBasketToken`: Σ amount · rate; `none` for an unknown denom or a token with deposits disabled -/
def mintValue (ts : List Token) : Coins → Option Dec.D
  | [] => some 0
  | c :: cs =>
    match lookupLast c.denom ts with
    | none => none
    | some t =>
      if t.deposits then
        match mintValue ts cs with
        | none => none
        | some v => some (Dec.mul (Dec.ofInt c.amount) t.weight + v)
      else none

def mint (s : St) (a : Acct) (id : Nat) (dep : Coins) : Option St :=
  match getBasket s.baskets id with
  | none => none
  | some b =>
    if b.mintsDisabled then none else
    match s.bank.send a .module dep with
    | none => none
    | some bank1 =>
      match mintValue b.tokens dep with
      | none => none
      | some v =>
        let m := Dec.truncInt v
        if m < 0 then none else                     -- sdk.NewCoin panics
        if m < b.mintsMin then none else
        let h := reg s.mintH id s.now m
        if periodSum id s.now b.limitsPeriod h > b.mintsMax then none else
        match bank1.mint ⟨b.denom, m⟩ with
        | none => none
        | some bank2 =>
          match bank2.send .module a [⟨b.denom, m⟩] with
          | none => none
          | some bank3 =>
            match incTokens b.tokens dep with
            | none => none
            | some toks =>
              if capOk b.tokensCap toks then
                some { s with bank := bank3, mintH := h,
                              baskets := setBasket s.baskets { b with tokens := toks, amount := b.amount + m } }
              else none

/-! ## burn -/

/-- the withdraw loop of `BurnBasketToken` -/
def withdrawCoins (portion : Dec.D) : List Token → Coins
  | [] => []
  | t :: ts =>
    let rest := withdrawCoins portion ts
    if t.withdraws then
      let w := Dec.truncInt (Dec.mul (Dec.ofInt t.amount) portion)
      if 0 < w then ⟨t.denom, w⟩ :: rest else rest
    else rest

def burn (s : St) (a : Acct) (id : Nat) (c : Coin) : Option St :=
  match getBasket s.baskets id with
  | none => none
  | some b =>
    if b.burnsDisabled then none else
    if c.amount < b.burnsMin then none else
    let h := reg s.burnH id s.now c.amount
    if periodSum id s.now b.limitsPeriod h > b.burnsMax then none else
    match s.bank.send a .module [c] with
    | none => none
    | some bank1 =>
      match bank1.burn c with
      | none => none
      | some bank2 =>
        if c.denom ≠ b.denom then none else
        -- DEFECT (as coded): the supply is read after the burn
        let supply := bank2.supplyOf c.denom
        if supply = 0 then none else                -- Dec.Quo panics
        let portion := Dec.quo (Dec.ofInt c.amount) (Dec.ofInt supply)
        let w := addCoins [] (withdrawCoins portion b.tokens)
        if w.isEmpty then none else
        match bank2.send .module a w with
        | none => none
        | some bank3 =>
          match decTokens b.tokens w with
          | none => none
          | some toks =>
            if capOk b.tokensCap toks then
              some { s with bank := bank3, burnH := h,
                            baskets := setBasket s.baskets { b with tokens := toks, amount := b.amount - c.amount } }
            else none

/-! ## swap -/

/-- the arithmetic of one pair: (swapValue, swapAmount, feeAmount, outAmount); `none` = unknown denom or zero out rate -/
structure Quote where
  swapValue : Int
  swapAmount : Int
  fee : Int
  out : Int

def quote (swapFee : Dec.D) (ts : List Token) (inC : Coin) (outD : Denom) : Option Quote :=
  match lookupLast inC.denom ts with
  | none => none
  | some ti =>
    match lookupLast outD ts with
    | none => none
    | some to =>
      if to.weight = 0 then none else               -- Dec.Quo panics
      let swapAmount := Dec.truncInt (Dec.mul (Dec.ofInt inC.amount) (Dec.one - swapFee))
      some { swapValue := Dec.truncInt (Dec.mul (Dec.ofInt inC.amount) ti.weight)
             swapAmount := swapAmount
             fee := inC.amount - swapAmount
             out := Dec.truncInt (Dec.quo (Dec.mul (Dec.ofInt swapAmount) ti.weight) to.weight) }

structure SwapAcc where
  bank : Bank
  tokens : List Token
  surplus : Coins
  hist : AMap (Nat × Nat)
  outs : Coins

/-- one iteration of the pair loop of `BasketSwap` -/
def swapPair (b : Basket) (now : Nat) (a : Acct) (acc : SwapAcc) (inC : Coin) (outD : Denom) : Option SwapAcc :=
  match acc.bank.send a .module [inC] with
  | none => none
  | some bank1 =>
    match lookupLast inC.denom acc.tokens, lookupLast outD acc.tokens with
    | some ti, some to =>
      if !ti.swaps then none else
      if !to.swaps then none else
      match quote b.swapFee acc.tokens inC outD with
      | none => none
      | some q =>
        if q.swapValue < b.swapsMin then none else
        let h := reg acc.hist b.id now q.swapValue
        if periodSum b.id now b.limitsPeriod h > b.swapsMax then none else
        let surplus := if 0 < q.fee then add1 acc.surplus ⟨inC.denom, q.fee⟩ else acc.surplus
        if q.out = 0 then none else
        if q.swapAmount < 0 then none else          -- sdk.NewCoin panics
        match addAmt inC.denom q.swapAmount acc.tokens with
        | none => none
        | some toks1 =>
          if q.out < 0 then none else               -- sdk.NewCoin panics
          match subAmt outD q.out toks1 with
          | none => none
          | some toks2 =>
            some { bank := bank1, tokens := toks2, surplus := surplus, hist := h,
                   outs := add1 acc.outs ⟨outD, q.out⟩ }
    | _, _ => none

def swapPairs (b : Basket) (now : Nat) (a : Acct) (acc : SwapAcc) : List (Coin × Denom) → Option SwapAcc
  | [] => some acc
  | (inC, outD) :: ps =>
    match swapPair b now a acc inC outD with
    | none => none
    | some acc' => swapPairs b now a acc' ps

/-- the payout loop: every out amount reduced by the slippage fee; `none` = `sdk.NewCoin` panics on a negative amount -/
def finalOuts (slip : Dec.D) : Coins → Option Coins
  | [] => some []
  | c :: cs =>
    let f := Dec.truncInt (Dec.mul (Dec.ofInt c.amount) (Dec.one - slip))
    if f < 0 then none else
    match finalOuts slip cs with
    | none => none
    | some rest => some (⟨c.denom, f⟩ :: rest)

def swap (s : St) (a : Acct) (id : Nat) (pairs : List (Coin × Denom)) : Option St :=
  match getBasket s.baskets id with
  | none => none
  | some b =>
    if b.swapsDisabled then none else
    match avgDisbalance b.tokens with
    | none => none
    | some old =>
      match swapPairs b s.now a ⟨s.bank, b.tokens, b.surplus, s.swapH, []⟩ pairs with
      | none => none
      | some acc =>
        match slippageFee b.slippageFeeMin acc.tokens old with
        | none => none
        | some slip =>
          match finalOuts slip acc.outs with
          | none => none
          | some fin0 =>
            let fin := addCoins [] fin0
            match acc.bank.send .module a fin with
            | none => none
            | some bank2 =>
              match subCoins? acc.outs fin with
              | none => none
              | some slipAmts =>
                let surplus := addCoins acc.surplus slipAmts
                if capOk b.tokensCap acc.tokens then
                  some { s with bank := bank2, swapH := acc.hist,
                                baskets := setBasket s.baskets { b with tokens := acc.tokens, surplus := surplus } }
                else none

/-! ## create / edit (`keeper/basket.go`) -/

def denomsNodup : List Token → Bool
  | [] => true
  | t :: ts => !(ts.any (fun u => u.denom = t.denom)) && denomsNodup ts

/-- `CreateBasket`: new id, surplus emptied, token amounts zeroed, weights ≠ 0, denoms distinct.
`Amount` is taken from the caller (as coded). -/
def create (s : St) (cfg : Basket) : Option St :=
  let id := s.lastId + 1
  if cfg.tokens.isEmpty then none else
  if cfg.tokens.any (fun t => t.weight = 0) then none else
  if !denomsNodup cfg.tokens then none else
  let b := { cfg with id := id, surplus := [], tokens := cfg.tokens.map (fun t => { t with amount := 0 }) }
  some { s with lastId := id, baskets := setBasket s.baskets b }

/-- `EditBasket`: token amounts carried over by denom (last old token of a denom wins), surplus kept, the bank
supply of the (new) basket denom must not exceed ⌊Σ amount·weight⌋. `Amount` is taken from the caller (as coded). -/
def edit (s : St) (cfg : Basket) : Option St :=
  match getBasket s.baskets cfg.id with
  | none => none
  | some old =>
    if cfg.tokens.isEmpty then none else
    if cfg.tokens.any (fun t => t.weight = 0) then none else
    if !denomsNodup cfg.tokens then none else
    let toks := cfg.tokens.map (fun t =>
      match lookupLast t.denom old.tokens with
      | some o => { t with amount := o.amount }
      | none => { t with amount := 0 })
    let b := { cfg with surplus := old.surplus, tokens := toks }
    if s.bank.supplyOf b.denom > Dec.truncInt (totalVal toks) then none else
    some { s with baskets := setBasket s.baskets b }

/-- the three `DisableBasket*` messages (permission decided by the caller: `allowed`) -/
def disable (s : St) (allowed : Bool) (kind : Nat) (id : Nat) : Option St :=
  match getBasket s.baskets id with
  | none => none
  | some b =>
    if !allowed then none else
    let b' := match kind with
      | 0 => { b with mintsDisabled := true }
      | 1 => { b with burnsDisabled := true }
      | _ => { b with swapsDisabled := true }
    some { s with baskets := setBasket s.baskets b' }

/-! ## histories: every message runs in a cache context that is written only on success -/

/-- what the slash hooks (`AfterSlashStakingPool`: weight · (1 − slash), flags on; `AfterSlashProposalRaise`: flags off)
and an `EditBasket` that keeps amount, suffix and token set do to a record: configuration, weights and flags are
replaced; id, suffix, recorded amount, token amounts and surplus stay. -/
def retok (old tw : List Token) : List Token :=
  old.map (fun t =>
    match lookupLast t.denom tw with
    | some n => { n with denom := t.denom, amount := t.amount }
    | none => t)

def reconfig (s : St) (id : Nat) (cfg : Basket) : Option St :=
  match getBasket s.baskets id with
  | none => none
  | some b =>
    let nb : Basket := { cfg with id := b.id, suffix := b.suffix, amount := b.amount, surplus := b.surplus,
                                   tokens := retok b.tokens cfg.tokens }
    some { s with baskets := setBasket s.baskets nb }

/-- `BasketWithdrawSurplus` (the WithdrawSurplus proposal), one basket: its recorded surplus is paid from the module to
the target and the record's surplus is emptied. The basket is read from the STORE each time, so an id that the proposal
lists twice finds an empty surplus the second time. (The staking-rewards part of the handler is outside this model.) -/
def withdrawSurplus1 (s : St) (target : Acct) (id : Nat) : Option St :=
  match getBasket s.baskets id with
  | none => none
  | some b =>
    match s.bank.send .module target b.surplus with
    | none => none
    | some bank' => some { s with bank := bank', baskets := setBasket s.baskets { b with surplus := [] } }

/-- the whole proposal: all listed ids in order; any failure aborts it (the proposal router discards the writes) -/
def withdrawSurplus (s : St) (target : Acct) : List Nat → Option St
  | [] => some s
  | id :: ids =>
    match withdrawSurplus1 s target id with
    | none => none
    | some s1 => withdrawSurplus s1 target ids

/-- the fee collector (x/multistaking pays recorded rewards out of it), as an ordinary account of the bank slice -/
def feeCollector : Acct := .user 999999

/-- the staking-rewards part of `BasketWithdrawSurplus`: `ClaimRewardsFromModule(basket)` moves the recorded rewards of
the basket module from the fee collector to the module (`panic(err)` when it cannot pay) and removes the record; the
claimed coins are then forwarded to the withdraw target. Nothing of the baskets' reserves or surplus is touched. -/
def claimModuleRewards (s : St) (target : Acct) : Option St :=
  match s.modRewards with
  | [] => some s                                   -- `rewards.IsAllPositive()` is false for the empty set
  | rw =>
    match s.bank.send feeCollector .module rw with
    | none => none
    | some b1 =>
      match b1.send .module target rw with
      | none => none
      | some b2 => some { s with bank := b2, modRewards := [] }

/-- the whole `BasketWithdrawSurplus`: the surplus of the listed baskets, then the module's staking rewards -/
def withdrawSurplusAll (s : St) (target : Acct) (ids : List Nat) : Option St :=
  match withdrawSurplus s target ids with
  | none => none
  | some s1 => claimModuleRewards s1 target

inductive Op where
  | mint (a : Nat) (id : Nat) (dep : Coins)
  | burn (a : Nat) (id : Nat) (c : Coin)
  | swap (a : Nat) (id : Nat) (pairs : List (Coin × Denom))
  | time (t : Nat)
  | reconfig (id : Nat) (cfg : Basket)

def apply (s : St) : Op → Option St
  | .mint a id dep => mint s (.user a) id dep
  | .burn a id c => burn s (.user a) id c
  | .swap a id ps => swap s (.user a) id ps
  | .time t => some { s with now := t }
  | .reconfig id cfg => reconfig s id cfg

/-- message-cache semantics: a failed message leaves the state as it was -/
def step (s : St) (op : Op) : St :=
  match apply s op with
  | some s' => s'
  | none => s

def run (s : St) : List Op → St
  | [] => s
  | op :: ops => run (step s op) ops

/-! ## the layer2 mint / burn messages applied to a basket denomination (x/layer2/keeper/msg_server.go) -/

/-- `MsgMintIssueTx` for a basket denomination: the tokens module registers basket denominations without owner and with
fee rate 0, so for every sender the computed fee is 0 and the message is refused (`ErrNotAbleToMintCoinsWithoutFee`):
nothing changes -/
def l2Issue (_s : St) (_a : Acct) (_c : Coin) : Option St := none

/-- `MsgMintBurnTx`: the sender's coins go to the layer2 module account and are burnt there - the holder's balance and
the bank supply fall; the basket record (`amount`, reserves) is not touched -/
def l2Burn (s : St) (a : Acct) (c : Coin) : Option St :=
  if 0 < c.amount then
    match s.bank.sub1 a c with
    | none => none
    | some b1 => some { s with bank := { b1 with supply := b1.supply.set c.denom (b1.supplyOf c.denom - c.amount) } }
  else none

end Sekai.Basket
