import Sekai.Model.Perm
/-! Genesis export / import of the permission state (x/gov/genesis.go), as coded: actors are saved with their role and
whitelist index entries; roles are re-created with EMPTY permissions and only their WHITELISTS are replayed
(`WhitelistRolePermission`); the replay of role blacklists is commented out in the Go source. Core Lean only. -/
namespace Sekai.PermGenesis
open Sekai.Perm

structure Genesis where
  nextRole : Nat
  actors : List (Nat × Actor)          -- NetworkActors
  roles : List Nat                     -- Roles (ids)
  rolePerms : List (Nat × Perms)       -- RolePermissions

/-- ExportGenesis over the given key domains (the store iterators enumerate exactly the stored keys) -/
def exportGen (actorIds roleIds : List Nat) (s : St) : Genesis :=
  { nextRole := s.nextRole,
    actors := actorIds.filterMap fun a => (s.actors a).map fun x => (a, x),
    roles := roleIds.filter fun r => (s.roleReg r).isSome,
    rolePerms := roleIds.filterMap fun r => (s.roleReg r).map fun p => (r, p) }

/-- one actor of InitGenesis: SaveNetworkActor, AssignRoleToActor per role, SetWhitelistAddressPermKey per whitelisted permission -/
def initActor (s : St) (ax : Nat × Actor) : St :=
  let (a, x) := ax
  { setActor s a x with
    idxRoleAddr := x.roles.foldl (fun idx r => (r, a) :: idx.filter (· ≠ (r, a))) s.idxRoleAddr,
    idxPermAddr := x.perms.wl.foldl (fun idx p => (p, a) :: idx.filter (· ≠ (p, a))) s.idxPermAddr }

/-- SetRole: registry entry with empty permissions -/
def initRole (s : St) (r : Nat) : St := setRole s r {}

/-- the whitelist replay of one role; the blacklist replay is commented out in the source -/
def initRolePerms (s : St) (rp : Nat × Perms) : St :=
  rp.2.wl.foldl (fun s p => Sekai.Perm.apply s (.wlRole rp.1 p)) s

def init (g : Genesis) : St :=
  let s0 : St := { nextRole := g.nextRole }
  let s1 := g.actors.foldl initActor s0
  let s2 := g.roles.foldl initRole s1
  g.rolePerms.foldl initRolePerms s2

end Sekai.PermGenesis
