/-! # Identity registrar model (C16)

Executable mirror of `x/gov/keeper/identity_registrar.go` AS IT IS (plus the callers that reach it:
`x/gov/keeper/msg_server.go` ClaimCouncilor, `x/staking/keeper/msg_server.go` ClaimValidator,
`x/gov/keeper/keeper.go` SetNetworkProperty / SetNetworkProperties for `UniqueIdentityKeys` and
`MinIdentityApprovalTip`, `x/recovery/keeper/msg_server.go` RotateRecoveryAddress).

Stores are association lists (a KV store keyed by id / by (address,key)); `set` = drop the old entry, cons the
new one. Addresses are small indices, keys and values are strings, dates are unix seconds, denoms small indices.
Every keeper function returns `Option State`: `none` = the Go function returned an error or panicked; the
message-level cache (`step`) then leaves the state unchanged. Core Lean only. -/
namespace Sekai.Ident

/-! ## key formalisation and validation -/

/-- ASCII `strings.ToLower` (keys are validated against an ASCII regex before they are lower-cased) -/
def lowerChar (c : Char) : Char := if 65 ≤ c.toNat ∧ c.toNat ≤ 90 then Char.ofNat (c.toNat + 32) else c
/-- `FormalizeIdentityRecordKey` -/
def lower (s : String) : String := String.ofList (s.toList.map lowerChar)

def isAlpha (c : Char) : Bool := (97 ≤ c.toNat && c.toNat ≤ 122) || (65 ≤ c.toNat && c.toNat ≤ 90)
def isDigit (c : Char) : Bool := 48 ≤ c.toNat && c.toNat ≤ 57
/-- `ValidateIdentityRecordKey`: `^[a-zA-Z][_0-9a-zA-Z]*$` -/
def validKey (k : String) : Bool :=
  match k.toList with
  | [] => false
  | c :: rest => isAlpha c && rest.all (fun x => isAlpha x || isDigit x || x == '_')

/-- `strings.Split(s, ",")` (the empty string gives `[""]`) -/
def splitAux : List Char → List Char → List String
  | cur, [] => [String.ofList cur.reverse]
  | cur, c :: cs => if c == ',' then String.ofList cur.reverse :: splitAux [] cs else splitAux (c :: cur) cs
def rawSplit (s : String) : List String := splitAux [] s.toList
/-- the split used by `EnsureOldUniqueKeysNotRemoved` / `EnsureUniqueKeys` (the empty string gives `[]`) -/
def splitKeys (s : String) : List String := if s == "" then [] else rawSplit s

/-- `strings.Trim(s, " ")` -/
def trimSpaces (s : String) : String :=
  String.ofList (((s.toList.dropWhile (· == ' ')).reverse.dropWhile (· == ' ')).reverse)

/-! ## state -/

structure Record where
  id : Nat
  addr : Nat
  key : String
  value : String
  date : Nat
  verifiers : List Nat
deriving DecidableEq, Repr

structure Request where
  id : Nat
  addr : Nat
  verifier : Nat
  recordIds : List Nat
  denom : Nat
  amount : Nat
  lastEdit : Nat
deriving DecidableEq, Repr

/-- one entry of the store prefix `IdentityRecordByAddressPrefix(addr) ++ key ↦ id` -/
structure IdxEntry where
  addr : Nat
  key : String
  id : Nat
deriving DecidableEq, Repr

structure Info where
  key : String
  value : String
deriving DecidableEq, Repr

structure State where
  records : List Record := []
  idx : List IdxEntry := []
  lastRecordId : Nat := 0
  reqs : List Request := []
  byReq : List (Nat × Nat) := []      -- (requester, request id)   IdRecordVerifyRequestByRequesterPrefix
  byApp : List (Nat × Nat) := []      -- (verifier, request id)    IdRecordVerifyRequestByApproverPrefix
  lastReqId : Nat := 0
  uniqueKeys : String := "moniker,username"   -- network property UniqueIdentityKeys (raw string)
  minTip : Nat := 0                   -- network property MinIdentityApprovalTip (uint64)
  bal : List (Nat × Nat × Nat) := []  -- (account, denom, amount)
  escrow : List (Nat × Nat) := []     -- gov module account: (denom, amount)
  councilors : List Nat := []         -- addresses with a Councilor record (any status)
  validators : List Nat := []         -- addresses `GetValidator` finds (pending claims are NOT found)
  permVal : List Nat := []            -- PermClaimValidator
  permCouncil : List Nat := []        -- PermClaimCouncilor
  permProps : List Nat := []          -- PermChangeTxFee (gate of MsgSetNetworkProperties)
  secrets : List Nat := []            -- addresses with a recovery record
  rotated : List Nat := []            -- rotation history (keyed by the OLD address, as coded)
  accs : List Nat := []               -- addresses with an auth account
  now : Nat := 0                      -- ctx.BlockTime()
deriving Repr

/-! ## primitive store access -/

def getRec (S : State) (id : Nat) : Option Record := S.records.find? (fun r => r.id == id)
def getReq (S : State) (id : Nat) : Option Request := S.reqs.find? (fun q => q.id == id)

/-- raw index read (key already formalised); 0 = absent, as in Go -/
def idxGet (S : State) (a : Nat) (k : String) : Nat :=
  match S.idx.find? (fun e => e.addr == a && e.key == k) with
  | some e => e.id
  | none => 0

/-- `GetIdentityRecordIdByAddressKey`: invalid key ⇒ 0, else lower-case and read the index -/
def idxGetK (S : State) (a : Nat) (k : String) : Nat :=
  if validKey k then idxGet S a (lower k) else 0

/-- `GetAddressesByIdRecordKey` (order irrelevant: only used through `len` and, when `len = 1`, element 0) -/
def addrsByKV (S : State) (k v : String) : List Nat :=
  (S.records.filter (fun r => r.key == k && r.value == v)).map (·.addr)

/-- the uniqueness test shared by `RegisterIdentityRecords` (error) and `SetIdentityRecord` (panic) -/
def uniqueOk (S : State) (k v : String) (a : Nat) : Bool :=
  if (rawSplit S.uniqueKeys).contains k then
    match addrsByKV S k v with
    | [] => true
    | [b] => b == a
    | _ => false
  else true

/-- `SetIdentityRecord`. `none` = panic. The uniqueness test uses the key as given; the stored key and
the index key are lower-cased. -/
def setRecord (S : State) (r : Record) : Option State :=
  if !validKey r.key then none
  else if !uniqueOk S r.key r.value r.addr then none
  else
    let k := lower r.key
    some { S with
      records := { r with key := k } :: S.records.filter (fun x => x.id != r.id),
      idx := ⟨r.addr, k, r.id⟩ :: S.idx.filter (fun e => !(e.addr == r.addr && e.key == k)) }

/-- `DeleteIdentityRecordById`. As coded the address index is deleted under the key
`Uint64ToBigEndian(recordId)` (8 bytes starting with 0x00 for every reachable id), never under `record.Key`;
no valid identity key equals such bytes, so the index entry SURVIVES. -/
def deleteRecordById (S : State) (id : Nat) : State :=
  match getRec S id with
  | none => S
  | some _ => { S with records := S.records.filter (fun x => x.id != id) }

/-- `SetIdentityRecordsVerifyRequest` -/
def setReq (S : State) (q : Request) : State :=
  { S with
    reqs := q :: S.reqs.filter (fun x => x.id != q.id),
    byReq := (q.addr, q.id) :: S.byReq.filter (fun p => !(p.1 == q.addr && p.2 == q.id)),
    byApp := (q.verifier, q.id) :: S.byApp.filter (fun p => !(p.1 == q.verifier && p.2 == q.id)) }

/-- `DeleteIdRecordsVerifyRequest` -/
def deleteReq (S : State) (id : Nat) : State :=
  match getReq S id with
  | none => S
  | some q => { S with
      reqs := S.reqs.filter (fun x => x.id != id),
      byReq := S.byReq.filter (fun p => !(p.1 == q.addr && p.2 == id)),
      byApp := S.byApp.filter (fun p => !(p.1 == q.verifier && p.2 == id)) }

/-! ## minimal bank -/

def balGet (S : State) (a d : Nat) : Nat :=
  match S.bal.find? (fun e => e.1 == a && e.2.1 == d) with
  | some e => e.2.2
  | none => 0

def balSet (S : State) (a d n : Nat) : State :=
  { S with bal := (a, d, n) :: S.bal.filter (fun e => !(e.1 == a && e.2.1 == d)) }

def escrowGet (S : State) (d : Nat) : Nat :=
  match S.escrow.find? (fun e => e.1 == d) with
  | some e => e.2
  | none => 0

def escrowSet (S : State) (d n : Nat) : State :=
  { S with escrow := (d, n) :: S.escrow.filter (fun e => !(e.1 == d)) }

/-- `SendCoinsFromAccountToModule(addr, gov, tip)` -/
def sendToGov (S : State) (a d n : Nat) : Option State :=
  if balGet S a d < n then none
  else some (escrowSet (balSet S a d (balGet S a d - n)) d (escrowGet S d + n))

/-- `SendCoinsFromModuleToAccount(gov, addr, tip)` -/
def sendFromGov (S : State) (a d n : Nat) : Option State :=
  if escrowGet S d < n then none
  else some (balSet (escrowSet S d (escrowGet S d - n)) a d (balGet S a d + n))

/-! ## keeper functions -/

/-- `CancelIdentityRecordsVerifyRequest` -/
def cancelReq (S : State) (executor reqId : Nat) : Option State :=
  match getReq S reqId with
  | none => none
  | some q =>
    if executor != q.addr then none
    else
      match (if q.amount != 0 then sendFromGov S q.addr q.denom q.amount else some S) with
      | none => none
      | some S1 => some (deleteReq S1 reqId)

/-- loop of `CancelInvalidIdentityRecordVerifyRequests` over the snapshot of the requester index
(the store iterator is a snapshot; a missing request is a nil dereference = panic) -/
def cancelInvalidLoop (a : Nat) (ids : List Nat) : List Nat → State → Option State
  | [], S => some S
  | rid :: rest, S =>
    match getReq S rid with
    | none => none
    | some q =>
      if q.recordIds.any (fun i => ids.contains i) then
        match cancelReq S a rid with
        | none => none
        | some S1 => cancelInvalidLoop a ids rest S1
      else cancelInvalidLoop a ids rest S

def reqIdsOf (S : State) (a : Nat) : List Nat := (S.byReq.filter (fun p => p.1 == a)).map (·.2)
def appIdsOf (S : State) (a : Nat) : List Nat := (S.byApp.filter (fun p => p.1 == a)).map (·.2)

/-- `CancelInvalidIdentityRecordVerifyRequests` (iteration order does not influence the outcome: any
failure aborts the whole message) -/
def cancelInvalid (S : State) (a : Nat) (ids : List Nat) : Option State :=
  cancelInvalidLoop a ids (reqIdsOf S a) S

/-- the councilor clause of the first loop of `RegisterIdentityRecords` -/
def councilorOk (S : State) (a : Nat) (k v : String) : Bool :=
  if S.councilors.contains a then
    let moniker := getRec S (idxGetK S a "moniker")
    let username := getRec S (idxGetK S a "username")
    let bad1 := k == "moniker" && (match moniker with | some r => v != r.value | none => false)
    let bad2 := k == "username" && (match username with | some r => v != r.value | none => false)
    !(bad1 || bad2)
  else true

/-- first loop of `RegisterIdentityRecords` (all tests read the state at entry); returns the formalised infos -/
def regCheck (S : State) (a : Nat) : List Info → Option (List Info)
  | [] => some []
  | i :: rest =>
    if !validKey i.key then none
    else
      let k := lower i.key
      if k == "moniker" && i.value.utf8ByteSize > 32 then none
      else if k == "username" && i.value.utf8ByteSize > 32 then none
      else if !councilorOk S a k i.value then none
      else if !uniqueOk S k i.value a then none
      else (regCheck S a rest).map (fun l => ⟨k, i.value⟩ :: l)

/-- second loop of `RegisterIdentityRecords`; collects `recordIdsAffected` -/
def regApply (a : Nat) : List Info → State → List Nat → Option (State × List Nat)
  | [], S, aff => some (S, aff)
  | i :: rest, S, aff =>
    let id0 := idxGetK S a i.key
    let newRec : Nat → Record := fun id => ⟨id, a, i.key, i.value, S.now, []⟩
    if id0 == 0 then
      let id := S.lastRecordId + 1
      match setRecord { S with lastRecordId := id } (newRec id) with
      | none => none
      | some S2 => regApply a rest S2 aff
    else
      let changed := match getRec S id0 with
        | none => true
        | some r => r.value != i.value
      match setRecord S (newRec id0) with
      | none => none
      | some S2 => regApply a rest S2 (if changed then aff ++ [id0] else aff)

/-- `RegisterIdentityRecords` -/
def registerRecords (S : State) (a : Nat) (infos : List Info) : Option State :=
  match regCheck S a infos with
  | none => none
  | some infos' =>
    match regApply a infos' S [] with
    | none => none
    | some (S1, aff) => cancelInvalid S1 a aff

/-- delete loop of `DeleteIdentityRecords` -/
def deleteLoop : List Nat → State → Option State
  | [], S => some S
  | id :: rest, S =>
    match getRec S id with
    | none => none
    | some _ => deleteLoop rest (deleteRecordById S id)

/-- `DeleteIdentityRecords`. The moniker guard compares the key AS SPELLED by the caller (the loop variable,
not the lower-cased slice element); an empty key list selects every record of the address. -/
def deleteRecords (S : State) (a : Nat) (keys : List String) : Option State :=
  if keys.any (fun k => !validKey k || k == "moniker") then none
  else
    let keys' := keys.map lower
    let sel : IdxEntry → Bool := fun e => e.addr == a && (keys.isEmpty || keys'.contains e.key)
    let ids := (S.idx.filter sel).map (·.id)
    match deleteLoop ids { S with idx := S.idx.filter (fun e => !sel e) } with
    | none => none
    | some S2 => cancelInvalid S2 a ids

def two63 : Nat := 9223372036854775808
def two64 : Nat := 18446744073709551616
/-- `sdk.NewInt(int64(minApprovalTip))` -/
def minTipInt (S : State) : Int := if S.minTip < two63 then (S.minTip : Int) else (S.minTip : Int) - (two64 : Int)

/-- max record date of the named records; `none` when one of them does not exist -/
def lastEditOf (S : State) : List Nat → Nat → Option Nat
  | [], acc => some acc
  | id :: rest, acc =>
    match getRec S id with
    | none => none
    | some r => lastEditOf S rest (if acc < r.date then r.date else acc)

/-- `RequestIdentityRecordsVerify` -/
def requestVerify (S : State) (a verifier : Nat) (ids : List Nat) (denom amount : Nat) : Option State :=
  let reqId := S.lastReqId + 1
  let own := (S.idx.filter (fun e => e.addr == a)).map (·.id)
  if !ids.all (fun i => own.contains i) then none
  else
    match lastEditOf S ids 0 with
    | none => none
    | some le =>
      if minTipInt S > (amount : Int) then none
      else
        let S1 := { setReq S ⟨reqId, a, verifier, ids, denom, amount, le⟩ with lastReqId := reqId }
        if amount != 0 then sendToGov S1 a denom amount else some S1

/-- the automatic-reject loop of `HandleIdentityRecordsVerifyRequest`:
`none` = a named record is missing (error), `some false` = a record was edited after the request -/
def dateCheck (S : State) (lastEdit : Nat) : List Nat → Option Bool
  | [] => some true
  | id :: rest =>
    match getRec S id with
    | none => none
    | some r => if r.date > lastEdit then some false else dateCheck S lastEdit rest

/-- the approve loop of `HandleIdentityRecordsVerifyRequest` -/
def approveLoop (v : Nat) : List Nat → State → Option State
  | [], S => some S
  | id :: rest, S =>
    match getRec S id with
    | none => none
    | some r =>
      if r.verifiers.contains v then approveLoop v rest S
      else
        match setRecord S { r with verifiers := r.verifiers ++ [v] } with
        | none => none
        | some S1 => approveLoop v rest S1

/-- `HandleIdentityRecordsVerifyRequest`: the tip is paid whatever the answer -/
def handleVerify (S : State) (v reqId : Nat) (approve : Bool) : Option State :=
  match getReq S reqId with
  | none => none
  | some q =>
    if v != q.verifier then none
    else
      match (if q.amount != 0 then sendFromGov S v q.denom q.amount else some S) with
      | none => none
      | some S1 =>
        match dateCheck S1 q.lastEdit q.recordIds with
        | none => none
        | some fresh =>
          if !(approve && fresh) then some (deleteReq S1 reqId)
          else
            match approveLoop v q.recordIds S1 with
            | none => none
            | some S2 => some (deleteReq S2 reqId)

/-- `ClaimValidator` (staking msg server), identity part. A claim only creates a PENDING validator, which
`GetValidator` does not find, so `validators` does not change at this level. -/
def claimValidator (S : State) (a : Nat) (moniker : String) : Option State :=
  if !S.permVal.contains a then none
  else if S.validators.contains a then none
  else
    let m := trimSpaces moniker
    let taken := match addrsByKV S "moniker" m with
      | [b] => S.validators.contains b
      | _ => false
    if taken then none
    else registerRecords S a [⟨"moniker", m⟩]

def councilorKeys : List String := ["moniker", "username", "description", "social", "contact", "avatar"]

/-- `ClaimCouncilor` (gov msg server): the councilor record is saved first, then the non-empty fields are registered -/
def claimCouncilor (S : State) (a : Nat) (fields : List String) : Option State :=
  if !S.permCouncil.contains a then none
  else
    let S1 := { S with councilors := if S.councilors.contains a then S.councilors else a :: S.councilors }
    let infos := ((councilorKeys.zip fields).filter (fun kv => kv.2 != "")).map (fun kv => (⟨kv.1, kv.2⟩ : Info))
    registerRecords S1 a infos

/-- the `UniqueIdentityKeys` block of `ValidateNetworkProperties` -/
def validUniqueKeys (ks : String) : Bool :=
  ks != "" && ks == lower ks && (rawSplit ks).all validKey && (rawSplit ks).contains "moniker"

/-- `EnsureOldUniqueKeysNotRemoved` = "" -/
def oldKeysKept (old new : String) : Bool := (splitKeys old).all (fun k => (splitKeys new).contains k)

/-- `EnsureUniqueKeys` = "": no two records share key and value under a key that is new in the list -/
def noDupUnder (newKs : List String) : List Record → Bool
  | [] => true
  | r :: rest =>
    !(newKs.contains r.key && rest.any (fun r2 => r2.key == r.key && r2.value == r.value)) && noDupUnder newKs rest

/-- `SetNetworkProperty(UniqueIdentityKeys, new)` (single-property path: proposal / keeper) -/
def setKeysSingle (S : State) (new : String) : Option State :=
  if !oldKeysKept S.uniqueKeys new then none
  else
    let newKs := (splitKeys new).filter (fun k => !(splitKeys S.uniqueKeys).contains k)
    if !noDupUnder newKs S.records then none
    else if !validUniqueKeys new then none
    else some { S with uniqueKeys := new }

/-- `MsgSetNetworkProperties` (whole-record path): permission + `ValidateNetworkProperties` only —
neither `EnsureOldUniqueKeysNotRemoved` nor `EnsureUniqueKeys` runs here -/
def setKeysWhole (S : State) (signer : Nat) (new : String) : Option State :=
  if !S.permProps.contains signer then none
  else if !validUniqueKeys new then none
  else some { S with uniqueKeys := new }

def recoveryFee : Nat := 1000000000

def replaceAddr (old new : Nat) (l : List Nat) : List Nat := l.map (fun x => if x == old then new else x)

/-- record-moving loop of the rotation: `DeleteIdentityRecordById` then `SetIdentityRecord` with the new address -/
def moveRecords (new : Nat) : List Record → State → Option State
  | [], S => some S
  | r :: rest, S =>
    match setRecord (deleteRecordById S r.id) { r with addr := new } with
    | none => none
    | some S1 => moveRecords new rest S1

def moveReqs (f : Request → Request) : List Request → State → State
  | [], S => S
  | q :: rest, S => moveReqs f rest (setReq (deleteReq S q.id) (f q))

def collectRecs (S : State) : List Nat → Option (List Record)
  | [] => some []
  | id :: rest =>
    match getRec S id with
    | none => none
    | some r => (collectRecs S rest).map (r :: ·)

def collectReqs (S : State) : List Nat → Option (List Request)
  | [] => some []
  | id :: rest =>
    match getReq S id with
    | none => none
    | some q => (collectReqs S rest).map (q :: ·)

/-- `RotateRecoveryAddress`, part 1: fee, recovery record and proof, rotation history, accounts, balances, councilor -/
def rotateChecks (S : State) (payer old new : Nat) (proofOk : Bool) : Option State :=
  if balGet S payer 0 < recoveryFee then none
  else
    let S := balSet S payer 0 (balGet S payer 0 - recoveryFee)
    if !S.secrets.contains old then none
    else if !proofOk then none
    else if S.rotated.contains new then none
    else if !S.accs.contains old then none
    else if S.accs.contains new then none
    else
      -- bank: all balances of `old` move to `new` (every account holds a non-zero balance of an untracked denom)
      let S := balSet (balSet S new 0 (balGet S new 0 + balGet S old 0)) old 0 0
      let S := balSet (balSet S new 1 (balGet S new 1 + balGet S old 1)) old 1 0
      some { S with rotated := old :: S.rotated, accs := new :: S.accs, councilors := replaceAddr old new S.councilors }

/-- part 2: identity records (`GetIdRecordsByAddress(old)`: a dangling index entry is a panic), then the requests
by requester, then the requests by approver -/
def rotateRegistry (S : State) (old new : Nat) : Option State :=
  match collectRecs S ((S.idx.filter (fun e => e.addr == old)).map (·.id)) with
  | none => none
  | some recs =>
    match moveRecords new recs S with
    | none => none
    | some S1 =>
      match collectReqs S1 (reqIdsOf S1 old) with
      | none => none
      | some qs =>
        let S2 := moveReqs (fun q => { q with addr := new }) qs S1
        match collectReqs S2 (appIdsOf S2 old) with
        | none => none
        | some qs2 => some (moveReqs (fun q => { q with verifier := new }) qs2 S2)

/-- part 3: the network actor (permissions) and the validator key move to the new address -/
def rotatePerms (S : State) (old new : Nat) : State :=
  { S with
    permVal := replaceAddr old new S.permVal,
    permCouncil := replaceAddr old new S.permCouncil,
    permProps := replaceAddr old new S.permProps,
    validators := replaceAddr old new S.validators }

/-- `RotateRecoveryAddress` (recovery msg server), the parts that touch the registry, the balances, the
councilor record, the network actor (permissions) and the validator key -/
def rotate (S : State) (payer old new : Nat) (proofOk : Bool) : Option State :=
  match rotateChecks S payer old new proofOk with
  | none => none
  | some S1 =>
    match rotateRegistry S1 old new with
    | none => none
    | some S2 => some (rotatePerms S2 old new)

/-! ## operations -/

inductive Op where
  | register (a : Nat) (infos : List Info)
  | delete (a : Nat) (keys : List String)
  | request (a v : Nat) (ids : List Nat) (denom amount : Nat)
  | handle (v reqId : Nat) (yes : Bool)
  | cancel (a reqId : Nat)
  | claimVal (a : Nat) (moniker : String)
  | claimCouncil (a : Nat) (fields : List String)
  | setKeysSingle (new : String)
  | setKeysWhole (signer : Nat) (new : String)
  | setMinTip (n : Nat)
  | time (t : Nat)
  | rotate (payer old new : Nat) (proofOk : Bool)
deriving Repr

/-- the message with its `ValidateBasic` -/
def apply (S : State) : Op → Option State
  | .register a infos => if infos.isEmpty then none else registerRecords S a infos
  | .delete a keys => deleteRecords S a keys
  | .request a v ids d n => if ids.isEmpty then none else requestVerify S a v ids d n
  | .handle v id yes => if id == 0 then none else handleVerify S v id yes
  | .cancel a id => if id == 0 then none else cancelReq S a id
  | .claimVal a m => claimValidator S a m
  | .claimCouncil a fs => claimCouncilor S a fs
  | .setKeysSingle new => setKeysSingle S new
  | .setKeysWhole s new => setKeysWhole S s new
  | .setMinTip n => some { S with minTip := n }
  | .time t => some { S with now := t }
  | .rotate p o n ok => rotate S p o n ok

/-- message-level cache: written only on success -/
def step (S : State) (o : Op) : State :=
  match apply S o with
  | some S' => S'
  | none => S

def run (S : State) (ops : List Op) : State := ops.foldl step S

/-- the signer of a message (`none`: governance / clock) -/
def Op.signer : Op → Option Nat
  | .register a _ => some a
  | .delete a _ => some a
  | .request a _ _ _ _ => some a
  | .handle v _ _ => some v
  | .cancel a _ => some a
  | .claimVal a _ => some a
  | .claimCouncil a _ => some a
  | .setKeysWhole s _ => some s
  | .rotate p _ _ _ => some p
  | _ => none

def Op.isRotate : Op → Bool
  | .rotate .. => true
  | _ => false

def Op.isSetKeysWhole : Op → Bool
  | .setKeysWhole .. => true
  | _ => false

/-! ## executable oracles (the decidable predicates of the theorems) -/

/-- no two different addresses hold the same value under a key of the unique list -/
def uniqB (S : State) : Bool :=
  S.records.all fun r1 => S.records.all fun r2 =>
    !((rawSplit S.uniqueKeys).contains r1.key && r1.key == r2.key && r1.value == r2.value && r1.addr != r2.addr)

def sumTips (d : Nat) : List Request → Nat
  | [] => 0
  | q :: rest => (if q.denom == d then q.amount else 0) + sumTips d rest

/-- escrow = Σ pending tips, for the tracked denoms -/
def escrowB (S : State) : Bool :=
  [0, 1].all fun d => escrowGet S d == sumTips d S.reqs


/-! ## gov `ExportGenesis` followed by `InitGenesis` of the exported state (the identity registrar's part)

Export lists the records and the requests by ascending id and the two counters; import replays the records through
`SetIdentityRecord` (which rebuilds the by-address index and panics on a value another address holds under a unique
key) and the requests through `SetIdentityRecordsVerifyRequest` (which rebuilds both request indexes), then stores the
two counters. Network properties and the permission whitelists of actors travel with the gov state; councilor records
are not exported (recorded finding of C12) - an imported chain has none. `none` = InitGenesis panics. -/

/-- insertion sort by a numeric key (structural, so closed instances evaluate in the kernel) -/
def insertBy {α : Type} (key : α → Nat) (x : α) : List α → List α
  | [] => [x]
  | y :: ys => if key x ≤ key y then x :: y :: ys else y :: insertBy key x ys
def sortBy {α : Type} (key : α → Nat) (l : List α) : List α := l.foldr (insertBy key) []

def importRecords : List Record → State → Option State
  | [], S => some S
  | r :: rs, S => match setRecord S r with
    | none => none
    | some S' => importRecords rs S'

def reimport (S : State) : Option State :=
  let recs := sortBy (·.id) S.records
  let reqs := sortBy (·.id) S.reqs
  match importRecords recs { S with records := [], idx := [], reqs := [], byReq := [], byApp := [], councilors := [] } with
  | none => none
  | some S1 => some (reqs.foldl setReq S1)

/-! ## the genesis tool `gentx-claim` (x/staking/client/cli/gentx.go)

It appends the genesis validator's moniker record to the identity records of a genesis file and moves the id counter: the
record gets `lastRecordId + 1` and the counter is INCREMENTED - whatever ids the file already holds (an export after
deletions has gaps). -/
def gentxClaim (S : State) (addr : Nat) (moniker : String) (date : Nat) : State :=
  { S with records := S.records ++ [{ id := S.lastRecordId + 1, addr := addr, key := "moniker", value := moniker, date := date, verifiers := [] }],
           lastRecordId := S.lastRecordId + 1 }

end Sekai.Ident
