import Sekai.Model.Spend
/-! # UBI (x/ubi) — executable model, core Lean only

Mirrors `x/ubi/abci.go` `EndBlocker` (the period gate, in `uint64` arithmetic as coded) and
`x/ubi/keeper/ubi.go` `ProcessUBIRecord` (stamp `DistributionLast`, amount × 10^6, dynamic top-up, mint to the
`mint` module, `DepositSpendingPoolFromModule`). `InflationPossible` (x/distributor) is an input of the block
(`infl`), the default denom is a parameter. The UBI state sits on top of the spending state (pools + bank). -/
namespace Sekai.Ubi
open Sekai.Spend

structure Rec where
  name : Nat            -- key; ascending = store iteration order
  start : Nat
  stop : Nat            -- DistributionEnd
  last : Nat            -- DistributionLast
  amount : Nat
  period : Nat
  pool : Nat
  dynamic : Bool
  deriving DecidableEq, Repr

structure State where
  sp : Spend.State := {}
  recs : List Rec := []
  ukex : Denom := 0

/-- the gate of `EndBlocker`, `uint64` arithmetic -/
def due (r : Rec) (now : Nat) : Bool :=
  decide (now > addU64 r.last r.period) && (r.stop == 0 || decide (r.last < r.stop))

def setRec : List Rec → Rec → List Rec
  | [], r => [r]
  | q :: rest, r => if q.name == r.name then r :: rest else if r.name < q.name then r :: q :: rest else q :: setRec rest r

def delRec (l : List Rec) (n : Nat) : Option (List Rec) :=
  if l.any (fun q => q.name == n) then some (l.filter (fun q => q.name != n)) else none

/-- `ProcessUBIRecord` on the cache context; the result is written only when it is `.ok`.
Returns the new state and the amount minted and deposited (0 when nothing was paid). -/
def processRec (s : State) (r : Rec) (now : Nat) (infl : Bool) : Except Err (State × Nat) :=
  if !infl then .ok (s, 0) else
  let s1 : State := { s with recs := setRec s.recs { r with last := now } }
  let amount : Int := toI64 r.amount * 1000000
  let step2 (amount : Int) : Except Err (State × Nat) :=
    if amount < 0 then .error .panic else            -- sdk.NewCoin: negative amount
    -- tokens-keeper MintCoins(mint module, NewCoins(coin)); then DepositSpendingPoolFromModule(mint, pool, Coins{coin})
    let a := amount.toNat
    let bank1 := s1.sp.bank.credit MINT (Amt.ofList [(s.ukex, a)])
    match Spend.deposit { s1.sp with bank := bank1 } MINT r.pool [(s.ukex, a)] with
    | .error e => .error e
    | .ok sp' => .ok ({ s1 with sp := sp' }, a)
  if r.dynamic then
    match findPool s.sp.pools r.pool with
    | none => .error .err
    | some p =>
      let bal : Int := (p.bal s.ukex : Nat)
      if amount ≤ bal then .ok (s1, 0) else step2 (amount - bal)
  else step2 amount

/-- the `EndBlocker` loop over the records read at the start of the block; returns the payouts `(record, amount)`
of this block in order. A panic inside escapes the block (`none`). `ProcessUBIRecord` asks the distributor's
`InflationPossible` for EVERY record: the gate reads the supply of the moment, which the payouts of this very block have
raised. `room` is how much may still be minted before the gate closes (`none`: no year-start snapshot yet, the gate is
open whatever the supply); a record is processed with the gate open iff what this block has minted so far is below it. -/
def gateOpen (room : Option Nat) (minted : Nat) : Bool :=
  match room with
  | none => true
  | some r => decide (minted < r)

def endLoop (now : Nat) (room : Option Nat) (minted : Nat) : List Rec → State → Option (State × List (Nat × Nat))
  | [], s => some (s, [])
  | r :: rest, s =>
    if due r now then
      match processRec s r now (gateOpen room minted) with
      | .error .panic => none
      | .error .err => endLoop now room minted rest s
      | .ok (s', paid) =>
        match endLoop now room (minted + paid) rest s' with
        | none => none
        | some (s'', l) => some (s'', if paid = 0 then l else (r.name, paid) :: l)
    else endLoop now room minted rest s

def endBlock (s : State) (now : Nat) (room : Option Nat) : Except Err (State × List (Nat × Nat)) :=
  match endLoop now room 0 s.recs s with
  | none => .error .panic
  | some r => .ok r

/-! ## one record in isolation (what `ubi_once_per_period` is about)

`Env` is everything outside the record that the block's processing can depend on: whether inflation is
possible, and whether the deposit path succeeds / what the dynamic top-up sees. `outcome` abstracts
`processRec` for one record: `stamped` = the cache was written (DistributionLast := now), `paid` = coins minted. -/
structure Env where
  now : Nat
  infl : Bool
  procOk : Bool        -- ProcessUBIRecord returned nil (cache written)
  pays : Bool          -- … and it minted a positive amount

/-- evolution of `DistributionLast` and the payout flag of one record over one block, as `EndBlocker` does it -/
def stepRec (r : Rec) (e : Env) : Rec × Bool :=
  if due r e.now then
    if !e.infl then (r, false)
    else if e.procOk then ({ r with last := e.now }, e.pays) else (r, false)
  else (r, false)

/-- payout times of a record over a list of blocks -/
def payTimes : Rec → List Env → List Nat
  | _, [] => []
  | r, e :: rest =>
    let (r', paid) := stepRec r e
    if paid then e.now :: payTimes r' rest else payTimes r' rest

end Sekai.Ubi
