/-! Replicated execution (C01): a replica is a machine whose step may read, besides the replicated state and the
block, an environment `Env` — everything that is NOT in genesis or the block (wall clock, map-iteration seed,
process identity). Core Lean only. -/
namespace Sekai.Replica

structure Machine (Env State Block Out : Type) where
  step : Env → State → Block → State × Out

/-- run a block history; each block may see a different environment (`envs` is consulted block by block) -/
def run {Env State Block Out} (m : Machine Env State Block Out) (envAt : Nat → Env) :
    Nat → State → List Block → State × List Out
  | _, s, [] => (s, [])
  | h, s, b :: bs =>
    let (s1, o) := m.step (envAt h) s b
    let (s2, os) := run m envAt (h + 1) s1 bs
    (s2, o :: os)

/-- the handler never looks at the environment -/
def EnvIndep {Env State Block Out} (m : Machine Env State Block Out) : Prop :=
  ∀ e1 e2 s b, m.step e1 s b = m.step e2 s b

/-- the poll handlers as they were before the `fix:` commit 0c929fb: the deadline comes from the wall clock -/
structure PollEnv where
  wallClock : Nat
def oldPollCreate : Machine PollEnv (List Nat) Nat Unit :=
  { step := fun e polls duration => (polls ++ [e.wallClock + duration], ()) }
/-- and after it: from the block time, which is part of the block -/
def newPollCreate : Machine PollEnv (List Nat) (Nat × Nat) Unit :=
  { step := fun _ polls blk => (polls ++ [blk.1 + blk.2], ()) }

end Sekai.Replica
