/-
x/upgrade: the plan state machine (keeper/plan.go, abci.go, proposal_handler.go).
  * a passed software-upgrade proposal stores the NEXT plan (`SaveNextPlan`: refused unless upgrade_time > block time)
  * a passed cancel proposal deletes it (`ClearNextPlan`)
  * BeginBlocker: nothing until block time >= upgrade_time; at the first such block the validators that did not approve
    the proposal are paused and the plan is marked processed; at the NEXT block the plan becomes the current plan and
      - a plan that is not an instate upgrade panics ("UPGRADE … NEEDED"): the scheduled halt
      - an instate upgrade runs its handler, unless the plan says to skip it; a missing handler panics
A panic in BeginBlock kills the process before anything of the block is committed: the model keeps the state unchanged.
-/
namespace Sekai.Upgrade

structure Plan where
  name : String
  time : Int          -- upgrade_time, unix seconds
  instate : Bool
  skipHandler : Bool
  processed : Bool    -- ProcessedNoVoteValidators
  proposal : Nat
deriving DecidableEq, Repr

structure St where
  next : Option Plan := none
  current : Option Plan := none
deriving DecidableEq, Repr

def init : St := {}

/-- ApplySoftwareUpgradeProposalHandler.Apply -> NewUpgradePlan (processed = false) -> SaveNextPlan -/
def schedule (s : St) (p : Plan) (now : Int) : Option St :=
  if p.time ≤ now then none else some { s with next := some { p with processed := false } }

/-- ApplyCancelSoftwareUpgradeProposalHandler.Apply -/
def cancel (s : St) : St := { s with next := none }

inductive Out
  | idle            -- no plan, or not due yet
  | paused          -- first pass: non-approving validators paused, plan marked processed
  | haltNeeded      -- panic "UPGRADE … NEEDED": the scheduled halt of a non-instate upgrade
  | haltNoHandler   -- panic "Handler for … instate upgrade is not set"
  | haltPause       -- panic out of PauseProposalNotApprovedValidators (the plan's proposal does not exist)
  | applied         -- instate upgrade: handler ran
  | skipped         -- instate upgrade with skip_handler
deriving DecidableEq, Repr

def Out.isHalt : Out → Bool
  | .haltNeeded | .haltNoHandler | .haltPause => true
  | _ => false

/-- BeginBlocker at block time `now`; `hasHandler` = the handlers this binary registered; `pauseOk` = the plan's proposal
is on record (PauseProposalNotApprovedValidators returns no error) -/
def begin (s : St) (now : Int) (hasHandler : String → Bool) (pauseOk : Bool) : St × Out :=
  match s.next with
  | none => (s, .idle)
  | some p =>
    if now < p.time then (s, .idle)
    else if !p.processed then
      if pauseOk then ({ s with next := some { p with processed := true } }, .paused) else (s, .haltPause)
    else if !p.instate then (s, .haltNeeded)
    else if p.skipHandler then ({ next := none, current := some p }, .skipped)
    else if hasHandler p.name then ({ next := none, current := some p }, .applied)
    else (s, .haltNoHandler)

inductive Op
  | schedule (p : Plan) (now : Int)
  | cancel
  | begin (now : Int) (hasHandler : String → Bool) (pauseOk : Bool)

def apply (s : St) : Op → St
  | .schedule p now => (schedule s p now).getD s
  | .cancel => cancel s
  | .begin now hh po => (begin s now hh po).1

def Out.show : Out → String
  | .idle => "idle" | .paused => "paused" | .haltNeeded => "halt-needed" | .haltNoHandler => "halt-nohandler"
  | .haltPause => "halt-pause" | .applied => "applied" | .skipped => "skipped"

end Sekai.Upgrade
