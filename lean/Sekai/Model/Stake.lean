import Sekai.Base.Dec
/-! Validator status machine, update queues and the consensus validator set (C05, C15).
Mirrors x/staking/keeper/slash.go (Activate Inactivate Pause Unpause Jail Unjail ResetWholeValidatorRank
HandleValidatorSignature), val_state_change.go (ApplyAndReturnValidatorSetUpdates: removing queue → power 0,
reactivating queue → power 1), x/slashing/keeper/activate.go + msg_server.go (guards of the owner messages),
jail.go (Jail), infractions.go (HandleValidatorSignature), rank.go, x/staking/proposal_handler.go (unjail) and
CometBFT's ValidatorSet.UpdateWithChangeSet applicability rules. Validators are small indices; the consensus key
of validator `v` is `v` (distinct keys: the claim path is not modelled here). Core Lean only. -/
namespace Sekai.Stake

inductive Status | active | inactive | paused | jailed
deriving DecidableEq, Repr

structure Params where
  mischanceConfidence : Int := 10
  maxMischance : Int := 110
  rankDecrease : Int := 10
  inactiveRankPct : Dec.D := 500000000000000000
  downtimeInactive : Int := 600
  minValidators : Nat := 1
  unjailMaxTime : Int := 600
  nVals : Nat := 0                 -- number of validator records (GetValidatorSet length)
deriving Repr

structure S where
  status : Nat → Status := fun _ => .active
  rank : Nat → Int := fun _ => 0
  streak : Nat → Int := fun _ => 0
  mischance : Nat → Int := fun _ => 0
  conf : Nat → Int := fun _ => 0
  inactiveUntil : Nat → Int := fun _ => 0
  jailTime : Nat → Option Int := fun _ => none
  R : Nat → Bool := fun _ => false      -- removing queue
  A : Nat → Bool := fun _ => false      -- reactivating queue
  V : Nat → Bool := fun _ => false      -- consensus validator set (what CometBFT holds)
  claimed : Nat → Bool := fun _ => true -- a validator record exists (GetValidator finds it); false: the account may still claim
  P : Nat → Bool := fun _ => false      -- pending queue (MsgClaimValidator accepted in this block)

def upd {α} (f : Nat → α) (v : Nat) (x : α) : Nat → α := fun w => if w = v then x else f w

/-- staking keeper Pause / Inactivate / Jail: status := st; addRemoving; RemoveReactivating -/
def demote (s : S) (v : Nat) (st : Status) : S :=
  { s with status := upd s.status v st, R := upd s.R v true, A := upd s.A v false }
/-- Unpause / Activate: status := active; addReactivating; RemoveRemoving -/
def promote (s : S) (v : Nat) : S :=
  { s with status := upd s.status v .active, A := upd s.A v true, R := upd s.R v false }

inductive Op
  | msgPause (v : Nat) | msgUnpause (v : Nat) | msgActivate (v : Nat) (now : Int)
  | sig (v : Nat) (signed : Bool) (now : Int)     -- slashing HandleValidatorSignature for one vote of the last commit
  | jail (v : Nat) (now : Int)                     -- slashing Jail (evidence / slash proposal)
  | unjail (v : Nat) (now : Int)                   -- passed unjail proposal
  | evidence (v : Nat) (now : Int) (known stale : Bool)
      -- x/evidence HandleEquivocationEvidence for one item of RequestBeginBlock.ByzantineValidators: ignored when the
      -- consensus key is unknown or the evidence is stale (older than BOTH max age limits); otherwise the offender is
      -- jailed if it is not jailed yet — whatever its status — and JailUntil sets InactiveUntil to the block time
  | kPause (v : Nat)                               -- staking keeper Pause called directly (upgrade plan)
  | rankReset
deriving Repr

structure Counters where
  mis : Int
  conf : Int
  rank : Int
  streak : Int

/-- the counter updates of slashing HandleValidatorSignature + staking HandleValidatorSignature for an ACTIVE validator -/
def sigCounters (p : Params) (s : S) (v : Nat) (signed : Bool) : Counters :=
  if signed then
    let st := s.streak v + 1
    { mis := 0, conf := 0, rank := if st > s.rank v then st else s.rank v, streak := st }
  else
    let mis := if s.conf v ≥ p.mischanceConfidence then s.mischance v + 1 else s.mischance v
    let conf := if s.conf v ≥ p.mischanceConfidence then s.conf v else s.conf v + 1
    if mis > 0 then { mis := mis, conf := conf, rank := max (s.rank v - p.rankDecrease) 0, streak := 0 }
    else { mis := mis, conf := conf, rank := s.rank v, streak := s.streak v }

/-- HandleValidatorSignature for an active validator: counters, then inactivation when mischance exceeds the maximum
(staking Inactivate: rank scaled by 1 - InactiveRankDecreasePercent, half-even rounding) -/
def sigActive (p : Params) (s : S) (v : Nat) (signed : Bool) (now : Int) : S :=
  let c := sigCounters p s v signed
  let s1 := { s with mischance := upd s.mischance v c.mis, conf := upd s.conf v c.conf,
                     rank := upd s.rank v c.rank, streak := upd s.streak v c.streak }
  if c.mis > p.maxMischance then
    { demote s1 v .inactive with
        rank := upd s1.rank v (Dec.roundInt (Dec.mul (Dec.ofInt c.rank) (Dec.one - p.inactiveRankPct))),
        streak := upd s1.streak v 0,
        inactiveUntil := upd s1.inactiveUntil v (now + p.downtimeInactive) }
  else s1

/-- `none` = the message / proposal fails (nothing written) -/
def step (p : Params) (s : S) : Op → Option S
  | .msgPause v =>
    if p.nVals ≤ p.minValidators ∨ p.nVals ≤ 1 then none
    else match s.status v with
      | .active => some (demote s v .paused)
      | _ => none
  | .msgUnpause v =>
    match s.status v with
    | .paused => some (promote s v)
    | _ => none
  | .msgActivate v now =>
    match s.status v with
    | .inactive =>
      if now < s.inactiveUntil v then none
      else some { promote s v with mischance := upd s.mischance v 0, conf := upd s.conf v 0 }
    | _ => none
  | .sig v signed now =>
    match s.status v with
    | .active => some (sigActive p s v signed now)
    | _ => some s
  | .jail v now =>
    match s.status v with
    | .jailed => some s
    | _ => some { demote s v .jailed with jailTime := upd s.jailTime v (some now) }
  | .evidence v now known stale =>
    if known = true ∧ stale = false then
      match s.status v with
      | .jailed => some { s with inactiveUntil := upd s.inactiveUntil v now }
      | _ => some { demote s v .jailed with jailTime := upd s.jailTime v (some now),
                                            inactiveUntil := upd s.inactiveUntil v now }
    else some s
  | .unjail v now =>
    match s.status v, s.jailTime v with
    | .jailed, some jt =>
      if jt + p.unjailMaxTime < now then none
      else some { s with status := upd s.status v .inactive, jailTime := upd s.jailTime v none }
    | _, _ => none
  | .kPause v =>
    match s.status v with
    | .inactive => some s          -- keeper Pause returns an error that the caller ignores
    | _ => some (demote s v .paused)
  | .rankReset =>
    some { s with status := fun _ => .active, rank := fun _ => 0, streak := fun _ => 0,
                  mischance := fun _ => 0, conf := fun _ => 0, inactiveUntil := fun _ => 0 }

def apply (p : Params) (s : S) (op : Op) : S := (step p s op).getD s

/-- the updates of ApplyAndReturnValidatorSetUpdates over validators `0..n-1`: (key, power) -/
def updates (n : Nat) (s : S) : List (Nat × Nat) :=
  ((List.range n).filter (fun v => s.R v)).map (fun v => (v, 0)) ++
  ((List.range n).filter (fun v => s.A v)).map (fun v => (v, 1))

inductive CometErr | duplicate | removeAbsent | emptySet
deriving DecidableEq, Repr

/-- CometBFT ValidatorSet.UpdateWithChangeSet on keys `0..n-1`: duplicate keys in the change set, removal of a
key the set does not hold, or an empty result are rejected -/
def applyUpdates (n : Nat) (V : Nat → Bool) (ups : List (Nat × Nat)) : Except CometErr (Nat → Bool) :=
  if !(ups.map (·.1)).Nodup then .error .duplicate
  else if ups.any (fun u => u.2 == 0 && !V u.1) then .error .removeAbsent
  else
    let V' : Nat → Bool := fun v =>
      match ups.find? (fun u => u.1 == v) with
      | some u => u.2 != 0
      | none => V v
    if (List.range n).all (fun v => !V' v) then .error .emptySet else .ok V'

/-- staking EndBlocker + consensus engine: drain the queues, hand the updates to CometBFT -/
def endBlock (n : Nat) (s : S) : List (Nat × Nat) × Except CometErr S :=
  let ups := updates n s
  (ups, match applyUpdates n s.V ups with
        | .ok V' => .ok { s with V := V', R := fun _ => false, A := fun _ => false }
        | .error e => .error e)


/-! ## joining the set: MsgClaimValidator, the pending queue, and its drain at the end of the block

An account without a validator record is kept with the placeholder status `inactive`, outside every queue and outside
the consensus set. `MsgClaimValidator` (permission and moniker checks are the harness's business) is refused when a
record exists (`GetValidator(msg.ValKey)` succeeds) and otherwise stores a PENDING validator: no record yet, so every
message about it still fails until the end of the block. `ApplyAndReturnValidatorSetUpdates` first turns every
pending entry into a record with status Active and emits a power-1 update for its key, then drains the other queues. -/

inductive OpC
  | base (op : Op)
  | claim (v : Nat)
deriving Repr

def subject : Op → Option Nat
  | .msgPause v => some v | .msgUnpause v => some v | .msgActivate v _ => some v | .sig v _ _ => some v
  | .jail v _ => some v | .unjail v _ => some v | .evidence v _ _ _ => some v | .kPause v => some v
  | .rankReset => none

/-- a message about an account without a record fails; block-level processing never names one -/
def isMsg : Op → Bool
  | .msgPause _ => true | .msgUnpause _ => true | .msgActivate _ _ => true | .unjail _ _ => true
  | _ => false

def stepC (p : Params) (s : S) : OpC → Option S
  | .claim v => if s.claimed v then none else some { s with P := upd s.P v true }
  | .base .rankReset =>
    -- ResetWholeValidatorRank walks the validator records only
    some { s with status := fun v => if s.claimed v then .active else s.status v, rank := fun _ => 0, streak := fun _ => 0,
                  mischance := fun _ => 0, conf := fun _ => 0, inactiveUntil := fun _ => 0 }
  | .base op =>
    match subject op with
    | some v => if s.claimed v then step p s op else if isMsg op then none else some s
    | none => step p s op

def applyC (p : Params) (s : S) (op : OpC) : S := (stepC p s op).getD s

/-- one pending entry becomes a record: AddValidator (status Active), power-1 update, RemovePendingValidator -/
def joinOne (s : S) (v : Nat) : S :=
  if s.P v then { promote s v with claimed := upd s.claimed v true, P := upd s.P v false } else s

def joinPending (n : Nat) (s : S) : S := (List.range n).foldl joinOne s

/-- staking EndBlocker with the pending queue (the consensus engine sees one update list; its order is irrelevant to
`UpdateWithChangeSet`) -/
def endBlockC (n : Nat) (s : S) : List (Nat × Nat) × Except CometErr S := endBlock n (joinPending n s)


/-- recovery `RotateRecoveryAddress` of a validator's owner. Validators are indexed by their consensus key here, which a
rotation keeps: status, counters, queues and the consensus set are untouched. The jail record is keyed by the OLD
operator address in the store and is not moved, so for the rotated validator it is gone (an unjail proposal then fails:
"no jail info" - the validator stays jailed). Refused for an account without a validator record. -/
def rotateOwner (s : S) (v : Nat) : Option S :=
  if s.claimed v then some { s with jailTime := upd s.jailTime v none } else none

end Sekai.Stake
