import Sekai.Base.Dec
/-! Governance proposal lifecycle (x/gov/keeper/proposal.go, msg_server.go VoteProposal, abci.go EndBlocker /
processProposal / processEnactmentProposal, types/quorum.go). Core Lean only.

Parameters supplied by the caller (the composed world): the eligible-voter list for a vote permission
(`Perm.voters`), whether a voter is allowed right now (`Perm.checkAllowed` ∧ actor active), the tally function
(`F32.processResult`, a parameter so that this file does not depend on it), and the outcome of applying a
content (`applyOk`). Times are unix seconds, heights block numbers. -/
namespace Sekai.Gov

inductive Res where
  | unknown | passed | rejected | rejectedWithVeto | pending | quorumNotReached | enactment | passedWithExecFail
deriving DecidableEq, Repr

inductive Tally where | passed | rejected | rejectedWithVeto | unknown
deriving DecidableEq, Repr

structure Proposal where
  id : Nat
  votingEnd : Nat
  enactEnd : Nat
  minVoteH : Nat
  minEnactH : Nat
  result : Res := .pending
  exec : Option Bool := none        -- ExecResult: some true = "executed successfully", some false = "execution failed"
  votePerm : Nat
  content : Nat
deriving DecidableEq, Repr

structure Vote where
  pid : Nat
  voter : Nat
  option : Nat        -- 1 yes, 2 abstain, 3 no, 4 no-with-veto (VoteOption enum)
deriving DecidableEq, Repr

structure Applied where
  pid : Nat
  content : Nat
  time : Nat
  height : Nat
  ok : Bool
deriving DecidableEq, Repr

/-- ghost record of every tally performed by processProposal (not observable; used by the theorems) -/
structure Tallied where
  pid : Nat
  yes : Nat
  no : Nat
  abstain : Nat
  veto : Nat
  voters : Nat
  total : Nat
  quorumOk : Bool
  tally : Tally
  time : Nat
  height : Nat
deriving DecidableEq, Repr

structure St where
  proposals : List Proposal := []
  active : List Nat := []            -- ids in the active-proposal queue (key = votingEnd ++ id)
  enact : List Nat := []             -- ids in the enactment queue (key = enactEnd ++ id)
  votes : List Vote := []
  nextId : Nat := 1
  log : List Applied := []           -- every content application performed by processEnactmentProposal, oldest first
  tlog : List Tallied := []          -- ghost: every tally performed by processProposal, oldest first

def getP (s : St) (id : Nat) : Option Proposal := s.proposals.find? (·.id == id)
def setP (s : St) (p : Proposal) : St := { s with proposals := s.proposals.map fun q => if q.id == p.id then p else q }

/-- CreateAndSaveProposalWithContent -/
def submit (s : St) (votePerm content t h endTime enactTime minEndBlocks minEnactBlocks : Nat) : St :=
  let p : Proposal := { id := s.nextId, votingEnd := t + endTime, enactEnd := t + endTime + enactTime,
                        minVoteH := h + minEndBlocks, minEnactH := h + minEndBlocks + minEnactBlocks,
                        votePerm := votePerm, content := content }
  { s with proposals := s.proposals ++ [p], active := s.active ++ [p.id], nextId := s.nextId + 1 }

/-- VoteProposal: `actorActive` = actor found ∧ status active; `allowed` = CheckIfAllowedPermission(voter, votePerm) NOW -/
def vote (s : St) (actorActive : Bool) (allowed : Nat → Bool) (pid voter option t : Nat) : Option St :=
  if !actorActive then none else
  match getP s pid with
  | none => none
  | some p =>
    if p.votingEnd < t then none else          -- VotingEndTime.Before(BlockTime)
    if !allowed p.votePerm then none else
    some { s with votes := (s.votes.filter fun v => !(v.pid == pid && v.voter == voter)) ++ [⟨pid, voter, option⟩] }

/-- IsQuorum: `none` = error (the caller panics) -/
def isQuorum (quorum : Dec.D) (votes totalVoters : Nat) : Option Bool :=
  if votes > totalVoters then none
  else if quorum > Dec.one then none
  else some (decide (Dec.ofInt votes ≥ Dec.mul (Dec.ofInt totalVoters) quorum))

/-! ### proposals with a local electorate (`VotePermission() == PermZero`): the owners of a spending pool or collective -/

/-- every element once (the first of two equal elements is dropped) -/
def distinct : List Nat → List Nat
  | [] => []
  | x :: xs => if x ∈ xs then distinct xs else x :: distinct xs

/-- the electorate: the distinct owners - named by account, or as members of a whitelisted role, or both -, counted as 1 when
there is none (`processProposal`: `if totalVoters == 0 { totalVoters = 1 }`) -/
def localElectorate (accounts roleMembers : List Nat) : Nat :=
  let n := (distinct (accounts ++ roleMembers)).length
  if n = 0 then 1 else n

/-- `processProposal` for such a proposal: electorate and quorum come from the STORED object (the handler's
`AllowedAddresses` and `Quorum`), never from the proposal's content; nobody holds a veto here. `none` = panic. -/
def localResult (tally : Nat → Nat → Nat → Nat → Nat → Nat → Tally) (storedQuorum : Dec.D)
    (accounts roleMembers : List Nat) (yes no abstain veto other : Nat) : Option Res :=
  let votes := yes + no + abstain + veto + other
  match isQuorum storedQuorum votes (localElectorate accounts roleMembers) with
  | none => none
  | some false => some .quorumNotReached
  | some true =>
    some (match tally yes no abstain veto 0 votes with
          | .passed => .enactment
          | .rejected => .rejected
          | .rejectedWithVeto => .rejectedWithVeto
          | .unknown => .unknown)

def countOpt (vs : List Vote) (o : Nat) : Nat := (vs.filter (·.option == o)).length

def insertKey (k : Nat × Nat) : List (Nat × Nat) → List (Nat × Nat)
  | [] => [k]
  | x :: xs => if k.1 < x.1 || (k.1 == x.1 && k.2 ≤ x.2) then k :: x :: xs else x :: insertKey k xs
def sortKeys (l : List (Nat × Nat)) : List (Nat × Nat) := l.foldr insertKey []

/-- processEnactmentProposal for one queue entry -/
def processEnactment (applyOk : Nat → Bool) (t h : Nat) (s : St) (id : Nat) : Option St :=
  match getP s id with
  | none => none                                   -- panic("proposal was expected to exist")
  | some p =>
    if p.enactEnd > t then some s else               -- outside the iterator range (key > block time)
    if p.minEnactH > h then some s else
    let s1 :=
      if p.result == .enactment then
        let ok := applyOk p.id
        { setP s { p with result := .passed, exec := some ok } with log := s.log ++ [⟨p.id, p.content, t, h, ok⟩] }
      else s
    some { s1 with enact := s1.enact.filter (· != id) }

/-- processProposal for one queue entry -/
def processProposal (voters : Nat → List Nat) (tally : Nat → Nat → Nat → Nat → Nat → Nat → Tally)
    (quorum : Dec.D) (minEnactBlocks : Nat) (t h : Nat) (s : St) (id : Nat) : Option St :=
  match getP s id with
  | none => none
  | some p =>
    if p.votingEnd > t then some s else              -- outside the iterator range
    if p.minVoteH > h then some s else
    let vs := s.votes.filter (·.pid == id)
    let avail := voters p.votePerm
    match isQuorum quorum vs.length avail.length with
    | none => none                                 -- panic("Invalid quorum on proposal")
    | some q =>
      let tl := tally (countOpt vs 1) (countOpt vs 3) (countOpt vs 2) (countOpt vs 4) avail.length vs.length
      let res : Res :=
        if q then
          match tl with
          | .passed => .enactment
          | .rejected => .rejected
          | .rejectedWithVeto => .rejectedWithVeto
          | .unknown => .unknown
        else .quorumNotReached
      let s1 := setP s { p with result := res, minEnactH := h + minEnactBlocks }
      some { s1 with active := s1.active.filter (· != id), enact := s1.enact.filter (· != id) ++ [id],
                     tlog := s1.tlog ++ [⟨id, countOpt vs 1, countOpt vs 3, countOpt vs 2, countOpt vs 4, avail.length, vs.length, q, tl, t, h⟩] }

def foldOpt {α β} (f : β → α → Option β) : β → List α → Option β
  | b, [] => some b
  | b, a :: as => match f b a with | some b' => foldOpt f b' as | none => none

/-- the queue in store-key order (time, then id) -/
def queueOrder (s : St) (q : List Nat) (sel : Proposal → Nat) : List Nat :=
  let ks := q.filterMap fun id => (getP s id).map fun p => (sel p, id)
  (sortKeys ks).map (·.2)

/-- gov EndBlocker: enactment queue first, then the active queue (the order of x/gov/abci.go); each loop
walks its queue in key order, entries whose time key lies after the block time are outside the iterator's
range (the per-entry functions skip them). `none` = a panic escaped. -/
def endBlock (voters : Nat → List Nat) (tally : Nat → Nat → Nat → Nat → Nat → Nat → Tally) (applyOk : Nat → Bool)
    (quorum : Dec.D) (minEnactBlocks : Nat) (t h : Nat) (s : St) : Option St :=
  match foldOpt (processEnactment applyOk t h) s (queueOrder s s.enact (·.enactEnd)) with
  | none => none
  | some s1 => foldOpt (processProposal voters tally quorum minEnactBlocks t h) s1 (queueOrder s1 s1.active (·.votingEnd))

end Sekai.Gov
