import Sekai.Model.MultiStake
/-! # Executable model of x/distributor: `AllocateTokens`, `AllocateTokensToValidator`, and the vote-record
bookkeeping of `BeginBlocker` / `EndBlocker` (keeper/abci.go) AS CODED — `EndBlocker` deletes every vote record
that is still inside the snapshot window, `BeginBlocker` records a vote for every validator listed in the last
commit (whether or not it signed). Core Lean only. -/
namespace Sekai.MultiStake
open Sekai

def month : Nat := 2592000      -- 86400 * 30
def year : Nat := 31104000      -- month * 12

/-- `InflationPossible` (annual_inflation.go) -/
def inflationPossible (s : St) : Bool :=
  match s.yearStart with
  | none => true
  | some (t, amt) =>
    if amt = 0 then true else
    let supply := AMap.get s.bank.supply ukex
    let gone : Int := (s.now : Int) - (t : Int)
    let monthIndex : Int := Int.tdiv (gone + (month : Int) - 1) (month : Int)
    let cur := Dec.quo (Dec.ofInt supply) (Dec.ofInt amt) - Dec.one
    let thr := Dec.quo (Dec.mul s.props.maxAnnualInflation (Dec.ofInt monthIndex)) (Dec.ofInt 12)
    !(cur ≥ thr)

/-- inflation minted by this call; `none` = panic (snapshot never taken, zero period) -/
def inflationRewards (s : St) : Option Nat :=
  match s.periodic with
  | none => none
  | some (t, amt) =>
    if s.props.inflationPeriod = 0 then none else
    let supply := AMap.get s.bank.supply ukex
    let grow := Dec.truncInt (Dec.quo
      (Dec.mul (Dec.mul (Dec.ofInt amt) s.props.inflationRate) (Dec.ofInt ((s.now : Int) - (t : Int))))
      (Dec.ofInt s.props.inflationPeriod))
    let target : Int := (amt : Int) + grow
    if target > (supply : Int) then some (target - supply).toNat else some 0

/-- number of vote records of a validator (`len(GetValidatorVotes)`) -/
def power (s : St) (v : Nat) : Nat := (s.votes.filter (fun vh => vh.1 == v)).length

/-- the proposer's cut of one fee coin: `(validator part, pool part)`;
`cut = amount·power / snapPeriod`, `valReward = RoundInt(cut · feeShare)`, `poolReward = cut − valReward` -/
def feeCut (amount pw snap : Nat) (share : Dec.D) : Int × Int :=
  let cut : Int := ((amount * pw / snap : Nat) : Int)
  let v := Dec.roundInt (Dec.mul (Dec.ofInt cut) share)
  (v, cut - v)

/-- the fee loop of `AllocateTokens`: only positive parts are added -/
def feeRewards (pw snap : Nat) (share : Dec.D) : Coins → Coins × Coins
  | [] => ([], [])
  | (d, n) :: r =>
    let (vr, pr) := feeRewards pw snap share r
    let (v, p) := feeCut n pw snap share
    ((if v > 0 then (d, v.toNat) :: vr else vr), (if p > 0 then (d, p.toNat) :: pr else pr))

def clampShare (x : Dec.D) : Dec.D := if x > Dec.one then Dec.one else x

/-- per-denom difference `a − b` where `a ≥ b` everywhere (the caller checked `IsAllGTE`) -/
def coinsDiff (a b : Coins) : Coins := (AMap.nz a).map (fun dn => (dn.1, dn.2 - AMap.get b dn.1))

def fcCoins (s : St) : Coins :=
  AMap.nz ((s.bank.bal.filter (fun kv => kv.1.1 == Acct.fc)).map (fun kv => (kv.1.2, kv.2)))

/-- mint the inflation into the fee collector (`tk.MintCoins` to the mint module, then module → module) -/
def mintInflation (s : St) (infl : Nat) : Option St :=
  if infl > 0 then
    match (s.bank.mint .mint [(ukex, infl)]).send .mint .fc [(ukex, infl)] with
    | none => none
    | some b => some { s with bank := b }
  else some s

/-- the `if found { … }` block of `AllocateTokens`: commission on the proposer's cut of the inflation goes to the
validator, the rest joins the pool rewards, which are handed to `IncreasePoolRewards`. Returns the final
validator rewards and the state. `none` = panic (`NewCoin` of a negative amount, or inside `IncreasePoolRewards`). -/
def poolPart (s0 : St) (p : Pool) (pw infl : Nat) (valR poolR : Coins) : Option (Coins × St) :=
  let cutInfl : Int := ((infl * pw / s0.snapPeriod : Nat) : Int)
  let commR := Dec.roundInt (Dec.mul (Dec.ofInt cutInfl) p.commission)
  match natOfInt? commR with
  | none => none
  | some c =>
    match natOfInt? (cutInfl - commR) with
    | none => none
    | some q =>
      let valR' := AMap.nz (AMap.addAll valR [(ukex, c)])
      let poolR' := AMap.nz (AMap.addAll poolR [(ukex, q)])
      if poolR'.isEmpty then some (valR', s0) else
      match increasePoolRewards s0 p poolR' with
      | none => none
      | some s1 => some (valR', s1)

/-- "pay previous proposer": `pw` = its number of vote records, `fees` = collector balance − treasury -/
def payProposer (s0 : St) (prev pw infl : Nat) (fees : Coins) : Option St :=
  match s0.vals.lookup prev with
  | none => some s0                    -- unknown proposer: a warning is printed, nothing else
  | some _ =>
    let vp := feeRewards pw s0.snapPeriod (clampShare s0.props.validatorsFeeShare) fees
    let r : Option (Coins × St) :=
      match findPool s0 prev with
      | none => some (vp.1, s0)
      | some p => poolPart s0 p pw infl vp.1 vp.2
    match r with
    | none => none
    | some (valR', s1) =>
      if valR'.isEmpty then some s1 else
      -- AllocateTokensToValidator (no recovery token issued)
      match s1.bank.send .fc (.user prev) valR' with
      | none => none
      | some b => some { s1 with bank := b }

/-- `AllocateTokens(ctx, …, previousProposer, …)`; `none` = panic. -/
def allocate (s : St) (prev : Nat) : Option St :=
  if !inflationPossible s then some s else
  match inflationRewards s with
  | none => none
  | some infl =>
    if s.snapPeriod = 0 then none else
    match mintInflation s infl with
    | none => none
    | some s0 =>
      let fcBal := fcCoins s            -- read before the inflation is minted
      let fees : Coins := if isAllGTE fcBal (AMap.nz s.treasury) then AMap.nz (coinsDiff fcBal s.treasury) else []
      match payProposer s0 prev (power s prev) infl fees with
      | none => none
      | some s3 => some { s3 with treasury := fcCoins s3 }

def recordVotes (votes : List (Nat × Nat)) (h : Nat) : List Nat → List (Nat × Nat)
  | [] => votes
  | v :: r => recordVotes (if votes.contains (v, h) then votes else votes ++ [(v, h)]) h r

/-- `BeginBlocker`: allocate for the previous proposer (height > 1), record a vote for EVERY validator in the
last commit, prune records older than the window, remember the proposer. `none` = panic. -/
def beginBlock (s : St) (h t : Nat) (proposer : Nat) (commit : List Nat) : Option St :=
  let s := { s with height := h, now := t }
  let s1 : Option St :=
    if h > 1 then
      match s.prevProposer with
      | none => none
      | some prev => allocate s prev
    else some s
  match s1 with
  | none => none
  | some s1 =>
    let votes := recordVotes s1.votes h commit
    some { s1 with votes := votes.filter (fun vh => !(vh.2 + s1.snapPeriod ≤ h)), prevProposer := some proposer }

def snapDue (snap : Option (Nat × Nat)) (period now : Nat) : Bool :=
  match snap with
  | none => true
  | some (t, _) => t = 0 || t + period < now

/-- `EndBlocker`: deletes every vote record with `height + snapPeriod > currentHeight` (i.e. every record the
next `AllocateTokens` would count), then refreshes the supply snapshots. -/
def endBlock (s : St) : St :=
  let votes := s.votes.filter (fun vh => !(vh.2 + s.snapPeriod > s.height))
  let supply := AMap.get s.bank.supply ukex
  let periodic := if snapDue s.periodic s.props.inflationPeriod s.now then some (s.now, supply) else s.periodic
  let yearStart := if snapDue s.yearStart year s.now then some (s.now, supply) else s.yearStart
  { s with votes := votes, periodic := periodic, yearStart := yearStart }

end Sekai.MultiStake
