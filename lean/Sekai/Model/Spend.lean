import Sekai.Base.Dec
/-! # Spending pools (x/spending) — executable model, core Lean only

Mirrors, AS CODED, `x/spending/keeper/spending_pool.go` (`ClaimSpendingPool`, `DepositSpendingPoolFrom*`),
`keeper/msg_server.go` (Create / Deposit / Register / Claim), `keeper/keeper.go` (`GetBeneficiaryWeight`,
`IsAllowedBeneficiary`), `keeper/abci.go` (`EndBlocker`: dynamic rates) and `proposal_handler.go` (the three
`Apply` functions: update, distribution, withdraw).

Representation choices (abstraction, not behaviour):
* an `sdk.Coins` value that lives in state (pool balances, bank balances) is modelled by its denotation
  `Denom → Nat`; the canonical list form (sorted by denom, positive amounts) is recovered by walking the
  vocabulary `voc` (all denoms in use, ascending = Go's string order) — used where Go ranges over the coins;
* coin lists that come from a message / proposal stay lists as given (they may be invalid: the bank rejects
  unsorted / duplicate / zero entries with an error exactly as `Coins.IsValid`);
* `sdk.Dec` = `Int` scaled by 10^18 (`Sekai.Dec`), `uint64` fields are `Nat` (< 2^64), the `int64(…)` casts of
  the Go code are `toI64`; block times and claim cursors are < 2^63 (so `ctx.BlockTime().Unix()` is the `Nat`
  itself and the `int64` subtraction of `ClaimSpendingPool` cannot overflow);
* outcome of an operation: `.ok state'`, `.error .err` (Go returns an error) or `.error .panic` (Go panics:
  `Coins.Sub` below zero, `NewCoin` with a negative amount, nil pool dereference, `Dec.Quo` by zero). On both
  failures the caller keeps the old state (baseapp message cache / proposal cache).
-/
namespace Sekai.Spend

abbrev Denom := Nat
abbrev Addr := Nat
/-- denotation of an `sdk.Coins` value -/
abbrev Amt := Denom → Nat

inductive Err where
  | err | panic
  deriving DecidableEq, Repr

/-- module accounts (addresses outside the range used for user accounts) -/
def SPEND : Addr := 1000000
def MINT : Addr := 1000001
def COLL : Addr := 1000002

def U64 : Nat := 18446744073709551616
def I63 : Nat := 9223372036854775808

/-- Go's `int64(x)` for a `uint64` x -/
def toI64 (n : Nat) : Int :=
  let m := n % U64
  if m < I63 then (m : Int) else (m : Int) - (U64 : Int)

/-- Go's `uint64` addition -/
def addU64 (a b : Nat) : Nat := (a + b) % U64

/-! ## coins -/

def sumFor (d : Denom) : List (Denom × Nat) → Nat
  | [] => 0
  | (d', a) :: rest => (if d' = d then a else 0) + sumFor d rest

/-- denotation of a coin list (aggregating equal denoms, as repeated `Coins.Add` does) -/
def Amt.ofList (l : List (Denom × Nat)) : Amt := fun d => sumFor d l

def Amt.zero : Amt := fun _ => 0
def Amt.add (a b : Amt) : Amt := fun d => a d + b d
def Amt.sub (a b : Amt) : Amt := fun d => a d - b d
/-- `a.IsAllGTE(b)` / "`a.Sub(b)` does not panic", for `b` supported on `supp` -/
def Amt.geOn (supp : List Denom) (a b : Amt) : Bool := supp.all (fun d => decide (b d ≤ a d))

/-- `Coins.IsValid`: strictly ascending denoms, positive amounts (the empty list is valid) -/
def coinsValid : List (Denom × Nat) → Bool
  | [] => true
  | [(_, a)] => decide (0 < a)
  | (d1, a1) :: (d2, a2) :: rest => decide (0 < a1) && decide (d1 < d2) && coinsValid ((d2, a2) :: rest)

/-! ## bank (x/bank SendCoins semantics: validity, sufficient funds, subtract then add) -/

abbrev Bank := Addr → Amt

def Bank.credit (b : Bank) (to : Addr) (amt : Amt) : Bank :=
  fun x => if x = to then Amt.add (b x) amt else b x
def Bank.debit (b : Bank) (frm : Addr) (amt : Amt) : Bank :=
  fun x => if x = frm then Amt.sub (b x) amt else b x

/-- move `amt` (supported on `supp`) : insufficient funds is an error -/
def Bank.sendAmt (b : Bank) (frm to : Addr) (supp : List Denom) (amt : Amt) : Except Err Bank :=
  if Amt.geOn supp (b frm) amt then .ok ((b.debit frm amt).credit to amt) else .error .err

def Bank.send (b : Bank) (frm to : Addr) (l : List (Denom × Nat)) : Except Err Bank :=
  if coinsValid l then b.sendAmt frm to (l.map (·.1)) (Amt.ofList l) else .error .err

/-! ## state -/

structure Pool where
  name : Nat
  claimStart : Nat
  claimEnd : Nat
  claimExpiry : Nat
  rates : List (Denom × Int)          -- DecCoins as given (order and duplicates kept)
  voteQuorum : Int
  votePeriod : Nat
  voteEnactment : Nat
  ownerRoles : List Nat
  ownerAccounts : List Addr
  benRoles : List (Nat × Int)         -- WeightedRole
  benAccounts : List (Addr × Int)     -- WeightedAccount
  bal : Amt
  dynamicRate : Bool
  dynamicRatePeriod : Nat
  lastDyn : Nat

structure ClaimInfo where
  pool : Nat
  acct : Addr
  last : Nat

structure State where
  pools : List Pool := []
  infos : List ClaimInfo := []
  bank : Bank := fun _ _ => 0
  actors : Addr → Option (List Nat) := fun _ => none   -- gov network actor → its role list (in stored order)
  accts : List Addr := []            -- all user addresses, ascending in address-byte order (store iteration order)
  voc : List Denom := []             -- all denoms in use, ascending

def findPool (ps : List Pool) (n : Nat) : Option Pool := ps.find? (fun p => p.name == n)

/-- `SetSpendingPool` on an existing key: replace the (first) record of that name -/
def setPool : List Pool → Pool → List Pool
  | [], _ => []
  | q :: rest, p => if q.name == p.name then p :: rest else q :: setPool rest p

def findInfo (is : List ClaimInfo) (pool : Nat) (a : Addr) : Option ClaimInfo :=
  is.find? (fun i => i.pool == pool && i.acct == a)

def setInfo : List ClaimInfo → ClaimInfo → List ClaimInfo
  | [], c => [c]
  | i :: rest, c => if i.pool == c.pool && i.acct == c.acct then c :: rest else i :: setInfo rest c

/-! ## beneficiaries (keeper.go) -/

/-- the `weights` map built from `permInfo.Roles`: a later entry overwrites an earlier one -/
def roleWeight (roles : List (Nat × Int)) (r : Nat) : Option Int :=
  (roles.reverse.find? (fun e => e.1 == r)).map (·.2)

/-- `GetBeneficiaryWeight` -/
def benWeight (p : Pool) (actors : Addr → Option (List Nat)) (a : Addr) : Int :=
  match p.benAccounts.find? (fun e => e.1 == a) with
  | some e => e.2
  | none =>
    match actors a with
    | none => 0
    | some rs =>
      match rs.findSome? (roleWeight p.benRoles) with
      | some w => w
      | none => 0

/-- `IsAllowedBeneficiary` -/
def isAllowedBen (p : Pool) (actors : Addr → Option (List Nat)) (a : Addr) : Bool :=
  p.benAccounts.any (fun e => e.1 == a) ||
  (match actors a with
   | none => false
   | some rs => rs.any (fun r => p.benRoles.any (fun e => e.1 == r)))

/-! ## ClaimSpendingPool -/

/-- the clipped claim duration in seconds, `none` = `ErrNoMoreRewardsToClaim` -/
def claimDuration (p : Pool) (last now : Nat) : Option Int :=
  let cs0 := toI64 p.claimStart
  let cs1 := if cs0 < toI64 last then toI64 last else cs0
  let ce : Int := if p.claimEnd ≠ 0 ∧ (now : Int) > toI64 p.claimEnd then toI64 p.claimEnd else (now : Int)
  if cs1 ≥ ce then none else
  let cs2 := if p.dynamicRate && decide (cs1 < toI64 p.lastDyn) then toI64 p.lastDyn else cs1
  let dur := ce - cs2
  some (if dur > toI64 p.claimExpiry then toI64 p.claimExpiry else dur)

/-- `rate.Amount.Mul(sdk.NewDec(duration)).Mul(weight).RoundInt()` -/
def entryAmount (rate : Int) (dur : Int) (w : Int) : Int :=
  Dec.roundInt (Dec.mul (Dec.mul rate (Dec.ofInt dur)) w)

def rewardEntries (rates : List (Denom × Int)) (dur w : Int) : List (Denom × Int) :=
  rates.map (fun e => (e.1, entryAmount e.2 dur w))

def toNatCoins (l : List (Denom × Int)) : List (Denom × Nat) := l.map (fun e => (e.1, e.2.toNat))

/-- keeper `ClaimSpendingPool(ctx, poolName, sender)` at block time `now` -/
def claim (s : State) (name : Nat) (a : Addr) (now : Nat) : Except Err State :=
  match findPool s.pools name with
  | none => .error .err                                   -- ErrPoolDoesNotExist
  | some p =>
    let w := benWeight p s.actors a
    if w = 0 then .error .err else                        -- ErrNotPoolBeneficiary
    match findInfo s.infos name a with
    | none => .error .err                                 -- ErrNotRegisteredForRewards
    | some ci =>
      match claimDuration p ci.last now with
      | none => .error .err                               -- ErrNoMoreRewardsToClaim
      | some dur =>
        let entries := rewardEntries p.rates dur w
        if entries.any (fun e => decide (e.2 < 0)) then .error .panic else   -- sdk.NewCoin: negative amount
        let coins := toNatCoins entries
        let rewards := Amt.ofList coins
        let supp := coins.map (·.1)
        if !Amt.geOn supp p.bal rewards then .error .panic else             -- Coins.Sub below zero
        let p' := { p with bal := Amt.sub p.bal rewards }
        match s.bank.sendAmt SPEND a supp rewards with
        | .error e => .error e                            -- module account cannot pay
        | .ok bank' =>
          .ok { s with pools := setPool s.pools p', bank := bank',
                       infos := setInfo s.infos { pool := name, acct := a, last := now } }

/-! ## msg server -/

structure PoolArgs where
  claimStart : Nat
  claimEnd : Nat
  claimExpiry : Nat
  rates : List (Denom × Int)
  voteQuorum : Int
  votePeriod : Nat
  voteEnactment : Nat
  ownerRoles : List Nat
  ownerAccounts : List Addr
  benRoles : List (Nat × Int)
  benAccounts : List (Addr × Int)
  dynamicRate : Bool
  dynamicRatePeriod : Nat

/-- `MsgCreateSpendingPool` (`nameOk` = `ValidateSpendingPoolName`) -/
def create (s : State) (nameOk : Bool) (name : Nat) (x : PoolArgs) (now : Nat) : Except Err State :=
  if !nameOk then .error .err else
  match findPool s.pools name with
  | some _ => .error .err
  | none =>
    .ok { s with pools := s.pools ++ [{
      name := name, claimStart := x.claimStart, claimEnd := x.claimEnd, claimExpiry := x.claimExpiry,
      rates := x.rates, voteQuorum := x.voteQuorum, votePeriod := x.votePeriod, voteEnactment := x.voteEnactment,
      ownerRoles := x.ownerRoles, ownerAccounts := x.ownerAccounts, benRoles := x.benRoles, benAccounts := x.benAccounts,
      bal := Amt.zero, dynamicRate := x.dynamicRate, dynamicRatePeriod := x.dynamicRatePeriod, lastDyn := now }] }

/-- `MsgDepositSpendingPool` / `DepositSpendingPoolFromAccount` / `…FromModule`: bank first, then the pool lookup -/
def deposit (s : State) (frm : Addr) (name : Nat) (coins : List (Denom × Nat)) : Except Err State :=
  match s.bank.send frm SPEND coins with
  | .error e => .error e
  | .ok bank' =>
    match findPool s.pools name with
    | none => .error .err
    | some p =>
      .ok { s with bank := bank', pools := setPool s.pools { p with bal := Amt.add p.bal (Amt.ofList coins) } }

/-- `MsgRegisterSpendingPoolBeneficiary` -/
def register (s : State) (name : Nat) (a : Addr) (now : Nat) : Except Err State :=
  match findPool s.pools name with
  | none => .error .err
  | some p =>
    if !isAllowedBen p s.actors a then .error .err else
    .ok { s with infos := setInfo s.infos { pool := name, acct := a, last := now } }

/-! ## proposal handlers (`Apply`) -/

/-- `ApplyUpdateSpendingPoolProposalHandler.Apply`: note `ClaimExpiry` and `LastDynamicRateCalcTime` are dropped (0) -/
def update (s : State) (name : Nat) (x : PoolArgs) : Except Err State :=
  match findPool s.pools name with
  | none => .error .err
  | some p =>
    .ok { s with pools := setPool s.pools {
      name := name, claimStart := x.claimStart, claimEnd := x.claimEnd, claimExpiry := 0,
      rates := x.rates, voteQuorum := x.voteQuorum, votePeriod := x.votePeriod, voteEnactment := x.voteEnactment,
      ownerRoles := x.ownerRoles, ownerAccounts := x.ownerAccounts, benRoles := x.benRoles, benAccounts := x.benAccounts,
      bal := p.bal, dynamicRate := x.dynamicRate, dynamicRatePeriod := x.dynamicRatePeriod, lastDyn := 0 } }

/-- `GetNetworkActorsByRole`: store iteration = ascending address bytes -/
def actorsByRole (s : State) (r : Nat) : List Addr :=
  s.accts.filter (fun a => match s.actors a with | some rs => rs.contains r | none => false)

def dedupKeep : List Addr → List Addr → List Addr
  | _, [] => []
  | seen, a :: rest => if seen.contains a then dedupKeep seen rest else a :: dedupKeep (a :: seen) rest

/-- the distribution proposal's beneficiary list: accounts first, then every role's actors, first occurrence kept -/
def distributionList (s : State) (p : Pool) : List Addr :=
  dedupKeep [] (p.benAccounts.map (·.1) ++ (p.benRoles.map (fun e => actorsByRole s e.1)).flatten)

def claimAll (s : State) (name : Nat) (now : Nat) : List Addr → Except Err State
  | [] => .ok s
  | a :: rest =>
    match claim s name a now with
    | .error e => .error e
    | .ok s' => claimAll s' name now rest

/-- `ApplySpendingPoolDistributionProposalHandler.Apply` (a missing pool is a nil dereference) -/
def distribute (s : State) (name : Nat) (now : Nat) : Except Err State :=
  match findPool s.pools name with
  | none => .error .panic
  | some p => claimAll s name now (distributionList s p)

def withdrawLoop (s : State) (p : Pool) (coins : List (Denom × Nat)) : List Addr → Bank → Amt → Except Err (Bank × Amt)
  | [], bank, bal => .ok (bank, bal)
  | b :: rest, bank, bal =>
    if !isAllowedBen p s.actors b then .error .err else
    match bank.send SPEND b coins with
    | .error e => .error e
    | .ok bank' =>
      if !Amt.geOn (coins.map (·.1)) bal (Amt.ofList coins) then .error .panic else
      withdrawLoop s p coins rest bank' (Amt.sub bal (Amt.ofList coins))

/-- `ApplySpendingPoolWithdrawProposalHandler.Apply` -/
def withdraw (s : State) (name : Nat) (bens : List Addr) (coins : List (Denom × Nat)) : Except Err State :=
  match findPool s.pools name with
  | none => .error .err
  | some p =>
    match withdrawLoop s p coins bens s.bank p.bal with
    | .error e => .error e
    | .ok (bank', bal') => .ok { s with bank := bank', pools := setPool s.pools { p with bal := bal' } }

/-! ## EndBlocker (dynamic rates; pays nothing) -/

/-- new rate list of one pool: for every deposit (ascending denom) `deposit / (period · totalWeight)`, zero rates
dropped; `none` = panic (`Quo` by zero, `NewDecCoinFromDec` negative) -/
def dynRates (voc : List Denom) (bal : Amt) (period : Nat) (tw : Int) : Option (List (Denom × Int)) :=
  let divisor := Dec.mul (Dec.ofInt (toI64 period)) tw
  if divisor = 0 then (if voc.any (fun d => decide (0 < bal d)) then none else some []) else
  let rs := (voc.filter (fun d => decide (0 < bal d))).map (fun d => (d, Dec.quo (Dec.ofInt (bal d)) divisor))
  if rs.any (fun e => decide (e.2 < 0)) then none else some (rs.filter (fun e => e.2 ≠ 0))

/-- one pool of the EndBlocker loop. `pfx p q a` = the store key of claim info (pool q, account a) has the
iteration prefix of pool p (`PoolClaimInfoPrefix` is a plain string prefix, so it is not only `p = q`) -/
def endPool (s : State) (pfx : Nat → Nat → Addr → Bool) (now : Nat) (p : Pool) : Option Pool :=
  if !p.dynamicRate then some p else
  if addU64 p.dynamicRatePeriod p.lastDyn > now then some p else
  let mine := s.infos.filter (fun i => pfx p.name i.pool i.acct)
  let tw := (mine.map (fun i => benWeight p s.actors i.acct)).foldl (· + ·) 0
  if tw = 0 then some p else
  match dynRates s.voc p.bal p.dynamicRatePeriod tw with
  | none => none
  | some rs => some { p with rates := rs, lastDyn := now }

def endPools (s : State) (pfx : Nat → Nat → Addr → Bool) (now : Nat) : List Pool → Option (List Pool)
  | [] => some []
  | p :: rest =>
    match endPool s pfx now p, endPools s pfx now rest with
    | some p', some rest' => some (p' :: rest')
    | _, _ => none

def endBlock (s : State) (pfx : Nat → Nat → Addr → Bool) (now : Nat) : Except Err State :=
  match endPools s pfx now s.pools with
  | none => .error .panic
  | some ps => .ok { s with pools := ps }

/-! ## the solvency invariant (evaluated by the driver over the vocabulary) -/

def sumPools (ps : List Pool) (d : Denom) : Nat :=
  match ps with
  | [] => 0
  | p :: rest => p.bal d + sumPools rest d

/-- spending module balance covers the sum of the pools' recorded balances -/
def Solvent (s : State) : Prop := ∀ d, sumPools s.pools d ≤ s.bank SPEND d

def solventOn (s : State) : Bool := s.voc.all (fun d => decide (sumPools s.pools d ≤ s.bank SPEND d))

end Sekai.Spend
