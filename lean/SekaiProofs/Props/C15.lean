import Sekai.Model.Stake
import SekaiProofs.Lemmas.Dec
import Sekai.Gen.App
import Sekai.Model.App
import Sekai.Gen.Keys
import SekaiProofs.Lemmas.Keys
/-! # C15 — Validator status follows allowed transitions; offences and downtime are punished

`transitions`: which status edge each operation can take, for every state. `only_target_changes`: no other
validator is touched. `evidence_jails`, `downtime_inactivates`, `signer_never_punished`, `rank_streak_nonneg`,
`leaves_jail_only_by`. Two edges of the code contradict the property and are recorded as findings with closed
witnesses: the keeper-level Pause of the upgrade plan turns Jailed into Paused (then the owner unpauses), and
the rank reset turns Paused / Inactive into Active. -/
namespace Sekai.Props.C15
open Sekai Sekai.Stake

/-- the status edges an operation may take on its target validator (as coded) -/
def edge (p : Params) (s : S) : Op → Status → Status → Prop
  | .msgPause _, a, b => a = .active ∧ b = .paused
  | .msgUnpause _, a, b => a = .paused ∧ b = .active
  | .msgActivate v now, a, b => a = .inactive ∧ b = .active ∧ s.inactiveUntil v ≤ now
  | .sig v signed _, a, b => a = .active ∧ (b = .active ∨ (b = .inactive ∧ signed = false ∧ (sigCounters p s v signed).mis > p.maxMischance))
  | .jail _ _, a, b => a ≠ .jailed ∧ b = .jailed
  | .unjail v now, a, b => a = .jailed ∧ b = .inactive ∧ ∃ jt, s.jailTime v = some jt ∧ now ≤ jt + p.unjailMaxTime
  | .evidence _ _ known stale, a, b => known = true ∧ stale = false ∧ a ≠ .jailed ∧ b = .jailed
  | .kPause _, a, b => a ≠ .inactive ∧ b = .paused
  | .rankReset, _, b => b = .active

def target : Op → Option Nat
  | .msgPause v | .msgUnpause v | .msgActivate v _ | .sig v _ _ | .jail v _ | .unjail v _ | .kPause v
  | .evidence v _ _ _ => some v
  | .rankReset => none

theorem upd_same {α} (f : Nat → α) (v : Nat) (x : α) : upd f v x v = x := by simp [upd]
theorem upd_other {α} (f : Nat → α) (v w : Nat) (x : α) (h : w ≠ v) : upd f v x w = f w := by simp [upd, h]

theorem sigActive_status (p : Params) (s : S) (v : Nat) (signed : Bool) (now : Int) :
    (sigActive p s v signed now).status =
      if (sigCounters p s v signed).mis > p.maxMischance then upd s.status v .inactive else s.status := by
  unfold sigActive
  simp only
  split <;> rfl

theorem sigCounters_signed (p : Params) (s : S) (v : Nat) : (sigCounters p s v true).mis = 0 := by
  simp [sigCounters]

/-- **a status changes only along the edge its operation allows, and only for the operation's target** -/
theorem transitions (p : Params) (hmax : 0 ≤ p.maxMischance) (s s' : S) (op : Op) (hs : step p s op = some s') (w : Nat) :
    s'.status w = s.status w ∨ ((target op = some w ∨ target op = none) ∧ edge p s op (s.status w) (s'.status w)) := by
  cases op with
  | msgPause v =>
    simp only [step] at hs
    split at hs
    · cases hs
    · cases hst : s.status v <;> simp [hst] at hs
      subst hs
      by_cases e : w = v
      · subst e; right; simp [target, edge, demote, upd, hst]
      · left; simp [demote, upd, e]
  | msgUnpause v =>
    simp only [step] at hs
    cases hst : s.status v <;> simp [hst] at hs
    subst hs
    by_cases e : w = v
    · subst e; right; simp [target, edge, promote, upd, hst]
    · left; simp [promote, upd, e]
  | msgActivate v now =>
    simp only [step] at hs
    cases hst : s.status v <;> simp [hst] at hs
    obtain ⟨hle, hs⟩ := hs
    subst hs
    by_cases e : w = v
    · subst e; right; simp [target, edge, promote, upd, hst]; omega
    · left; simp [promote, upd, e]
  | sig v signed now =>
    simp only [step] at hs
    cases hst : s.status v with
    | active =>
      simp only [hst, Option.some.injEq] at hs
      subst hs
      rw [sigActive_status]
      by_cases hm : (sigCounters p s v signed).mis > p.maxMischance
      · simp only [hm, if_true]
        by_cases e : w = v
        · subst e; right
          refine ⟨Or.inl rfl, ?_⟩
          simp only [edge, upd_same, hst, true_and]
          right
          refine ⟨?_, hm⟩
          cases signed with
          | false => rfl
          | true => rw [sigCounters_signed] at hm; omega
        · left; simp [upd, e]
      · simp only [hm, if_false]; left; trivial
    | inactive => simp [hst] at hs; subst hs; left; rfl
    | paused => simp [hst] at hs; subst hs; left; rfl
    | jailed => simp [hst] at hs; subst hs; left; rfl
  | jail v now =>
    simp only [step] at hs
    cases hst : s.status v with
    | jailed => simp [hst] at hs; subst hs; left; rfl
    | active | inactive | paused =>
      simp [hst] at hs; subst hs
      by_cases e : w = v
      · subst e; right; simp [target, edge, demote, upd, hst]
      · left; simp [demote, upd, e]
  | evidence v now known stale =>
    simp only [step] at hs
    by_cases hk : known = true ∧ stale = false
    · rw [if_pos hk] at hs
      cases hst : s.status v with
      | jailed => simp [hst] at hs; subst hs; left; rfl
      | active | inactive | paused =>
        simp [hst] at hs; subst hs
        by_cases e : w = v
        · subst e; right; simp [target, edge, demote, upd, hst, hk.1, hk.2]
        · left; simp [demote, upd, e]
    · rw [if_neg hk] at hs; simp at hs; subst hs; left; rfl
  | unjail v now =>
    simp only [step] at hs
    cases hst : s.status v <;> cases hj : s.jailTime v <;> simp [hst, hj] at hs
    obtain ⟨hle, hs⟩ := hs
    subst hs
    by_cases e : w = v
    · subst e; right; simp [target, edge, upd, hst, hj]; omega
    · left; simp [upd, e]
  | kPause v =>
    simp only [step] at hs
    cases hst : s.status v with
    | inactive => simp [hst] at hs; subst hs; left; rfl
    | active | paused | jailed =>
      simp [hst] at hs; subst hs
      by_cases e : w = v
      · subst e; right; simp [target, edge, demote, upd, hst]
      · left; simp [demote, upd, e]
  | rankReset =>
    simp only [step, Option.some.injEq] at hs
    subst hs
    right; exact ⟨Or.inr rfl, rfl⟩

/-- slashing Jail on a validator that is not jailed yet (slash proposal path, and the core of the evidence path) -/
theorem jail_jails (p : Params) (s : S) (v : Nat) (now : Int) :
    ∃ s', step p s (.jail v now) = some s' ∧ s'.status v = .jailed := by
  simp only [step]
  cases hst : s.status v
  · exact ⟨_, rfl, by simp [demote, upd]⟩
  · exact ⟨_, rfl, by simp [demote, upd]⟩
  · exact ⟨_, rfl, by simp [demote, upd]⟩
  · exact ⟨s, rfl, hst⟩

/-- **valid double-sign evidence always jails the offender** — whatever its status when the evidence is handled
(active, paused by its owner after the infraction, inactivated for downtime earlier in the same BeginBlock, or jailed
already): the evidence handler never fails, the offender is jailed afterwards, queued for removal from the consensus
set if it was not jailed before, and nobody else's status changes -/
theorem evidence_jails (p : Params) (s : S) (v : Nat) (now : Int) :
    ∃ s', step p s (.evidence v now true false) = some s' ∧ s'.status v = .jailed ∧
      (s.status v ≠ .jailed → s'.R v = true ∧ s'.A v = false) ∧ ∀ w, w ≠ v → s'.status w = s.status w := by
  simp only [step]
  cases hst : s.status v
  · exact ⟨_, rfl, by simp [demote, upd], fun _ => by simp [demote, upd], fun w hw => by simp [demote, upd, hw]⟩
  · exact ⟨_, rfl, by simp [demote, upd], fun _ => by simp [demote, upd], fun w hw => by simp [demote, upd, hw]⟩
  · exact ⟨_, rfl, by simp [demote, upd], fun _ => by simp [demote, upd], fun w hw => by simp [demote, upd, hw]⟩
  · exact ⟨_, rfl, by simp [hst], fun h => absurd rfl h, fun w _ => rfl⟩

/-- evidence that cannot be used (unknown consensus key, or older than both age limits) changes nothing -/
theorem unusable_evidence_ignored (p : Params) (s : S) (v : Nat) (now : Int) (known stale : Bool)
    (h : known = false ∨ stale = true) : step p s (.evidence v now known stale) = some s := by
  simp only [step]
  rcases h with h | h <;> simp [h]

example : ∃ s', step {} ({ status := fun _ => .paused } : S) (.evidence 0 7 true false) = some s' ∧ s'.status 0 = .jailed :=
  ⟨_, rfl, by simp [demote, upd]⟩

/-- **missing more consecutive blocks than allowed always inactivates**: an active validator whose mischance counter
passes the maximum with this missed block becomes inactive (and is queued for removal from the consensus set) -/
theorem downtime_inactivates (p : Params) (s : S) (v : Nat) (now : Int) (hact : s.status v = .active)
    (hover : (sigCounters p s v false).mis > p.maxMischance) :
    ∃ s', step p s (.sig v false now) = some s' ∧ s'.status v = .inactive ∧ s'.R v = true ∧
      s'.inactiveUntil v = now + p.downtimeInactive := by
  refine ⟨sigActive p s v false now, by simp [step, hact], ?_, ?_, ?_⟩
  · rw [sigActive_status]; simp [hover, upd]
  · unfold sigActive; simp [hover, demote, upd]
  · unfold sigActive; simp [hover, upd]

/-- the mischance counter itself: it grows by one per missed block once the confidence window is used up -/
theorem mischance_counts (p : Params) (s : S) (v : Nat) (h : s.conf v ≥ p.mischanceConfidence) :
    (sigCounters p s v false).mis = s.mischance v + 1 := by
  unfold sigCounters
  simp only [Bool.false_eq_true, if_false, h, if_true]
  split <;> rfl

/-- **a validator that signs is never punished**: it stays active, its rank does not decrease, its mischance is reset -/
theorem signer_never_punished (p : Params) (hmax : 0 ≤ p.maxMischance) (s : S) (v : Nat) (now : Int) (hact : s.status v = .active) :
    ∃ s', step p s (.sig v true now) = some s' ∧ s'.status v = .active ∧ s'.rank v ≥ s.rank v ∧
      s'.mischance v = 0 ∧ s'.R v = s.R v := by
  refine ⟨sigActive p s v true now, by simp [step, hact], ?_, ?_, ?_, ?_⟩
  · rw [sigActive_status, sigCounters_signed]
    have : ¬ ((0:Int) > p.maxMischance) := by omega
    simp [this, hact]
  · unfold sigActive
    have hm : ¬ ((sigCounters p s v true).mis > p.maxMischance) := by rw [sigCounters_signed]; omega
    simp only [hm, if_false, upd_same]
    simp only [sigCounters, if_true]
    split <;> omega
  · unfold sigActive
    have hm : ¬ ((sigCounters p s v true).mis > p.maxMischance) := by rw [sigCounters_signed]; omega
    simp only [hm, if_false, upd_same]
    exact sigCounters_signed p s v
  · unfold sigActive
    have hm : ¬ ((sigCounters p s v true).mis > p.maxMischance) := by rw [sigCounters_signed]; omega
    simp only [hm, if_false]

/-- rank and streak are never negative -/
def NonNeg (s : S) : Prop := ∀ v, 0 ≤ s.rank v ∧ 0 ≤ s.streak v

theorem roundInt_scale_nonneg (r : Int) (pct : Dec.D) (hr : 0 ≤ r) (h1 : pct ≤ Dec.one) :
    0 ≤ Dec.roundInt (Dec.mul (Dec.ofInt r) (Dec.one - pct)) := by
  rw [Dec.mul_ofInt_left]
  unfold Dec.roundInt
  have : (0 : Int) ≤ Dec.one - pct := Int.sub_nonneg_of_le h1
  exact Dec.chopRound_nonneg _ (Int.mul_nonneg hr this)

/-- **rank and streak never go negative**, whatever happens (inactive-rank percentage within its validated range) -/
theorem rank_streak_nonneg (p : Params) (hp : p.inactiveRankPct ≤ Dec.one) (s s' : S) (op : Op)
    (h : NonNeg s) (hs : step p s op = some s') : NonNeg s' := by
  cases op with
  | msgPause v =>
    simp only [step] at hs
    split at hs
    · cases hs
    · cases hst : s.status v <;> simp [hst] at hs
      subst hs; exact h
  | msgUnpause v =>
    simp only [step] at hs
    cases hst : s.status v <;> simp [hst] at hs
    subst hs; exact h
  | msgActivate v now =>
    simp only [step] at hs
    cases hst : s.status v <;> simp [hst] at hs
    obtain ⟨_, hs⟩ := hs
    subst hs; exact h
  | sig v signed now =>
    simp only [step] at hs
    cases hst : s.status v with
    | active =>
      simp only [hst, Option.some.injEq] at hs
      subst hs
      have hc : 0 ≤ (sigCounters p s v signed).rank ∧ 0 ≤ (sigCounters p s v signed).streak := by
        have := h v
        unfold sigCounters
        cases signed
        · simp only [Bool.false_eq_true, if_false]
          split
          · split
            · exact ⟨Int.le_max_right _ _, Int.le_refl 0⟩
            · exact this
          · split
            · exact ⟨Int.le_max_right _ _, Int.le_refl 0⟩
            · exact this
        · simp only [if_true]
          constructor
          · split <;> omega
          · omega
      intro w
      unfold sigActive
      simp only
      split
      · by_cases e : w = v
        · subst e; simp only [upd_same]
          exact ⟨roundInt_scale_nonneg _ _ hc.1 hp, Int.le_refl 0⟩
        · simp only [demote, upd_other _ _ _ _ e]; exact h w
      · by_cases e : w = v
        · subst e; simp only [upd_same]; exact hc
        · simp only [upd_other _ _ _ _ e]; exact h w
    | inactive => simp [hst] at hs; subst hs; exact h
    | paused => simp [hst] at hs; subst hs; exact h
    | jailed => simp [hst] at hs; subst hs; exact h
  | jail v now =>
    simp only [step] at hs
    cases hst : s.status v <;> simp [hst] at hs <;> subst hs <;> exact h
  | evidence v now known stale =>
    simp only [step] at hs
    by_cases hk : known = true ∧ stale = false
    · rw [if_pos hk] at hs
      cases hst : s.status v <;> simp [hst] at hs <;> subst hs <;> exact h
    · rw [if_neg hk] at hs; simp at hs; subst hs; exact h
  | unjail v now =>
    simp only [step] at hs
    cases hst : s.status v <;> cases hj : s.jailTime v <;> simp [hst, hj] at hs
    obtain ⟨_, hs⟩ := hs
    subst hs; exact h
  | kPause v =>
    simp only [step] at hs
    cases hst : s.status v <;> simp [hst] at hs <;> subst hs <;> exact h
  | rankReset =>
    simp only [step, Option.some.injEq] at hs
    subst hs
    intro w; exact ⟨Int.le_refl 0, Int.le_refl 0⟩

/-- **a jailed validator leaves jail only through an unjail proposal within the allowed time, a rank reset — or,
a recorded finding, the keeper-level Pause of the upgrade plan** -/
theorem leaves_jail_only_by (p : Params) (hmax : 0 ≤ p.maxMischance) (s s' : S) (op : Op) (v : Nat)
    (hs : step p s op = some s') (hj : s.status v = .jailed) (hout : s'.status v ≠ .jailed) :
    (∃ now jt, op = .unjail v now ∧ s.jailTime v = some jt ∧ now ≤ jt + p.unjailMaxTime) ∨ op = .rankReset ∨ op = .kPause v := by
  rcases transitions p hmax s s' op hs v with heq | ⟨ht, he⟩
  · rw [heq] at hout; exact absurd hj hout
  · cases op with
    | msgPause w => simp [edge, hj] at he
    | msgUnpause w => simp [edge, hj] at he
    | msgActivate w now => simp [edge, hj] at he
    | sig w sg now => simp [edge, hj] at he
    | jail w now => simp [edge, hj] at he
    | evidence w now known stale => simp [edge, hj] at he
    | unjail w now =>
      simp only [target] at ht
      rcases ht with ht | ht
      · cases ht
        simp only [edge] at he
        obtain ⟨_, _, jt, hjt, hle⟩ := he
        exact Or.inl ⟨now, jt, rfl, hjt, hle⟩
      · cases ht
    | kPause w =>
      simp only [target] at ht
      rcases ht with ht | ht
      · cases ht; exact Or.inr (Or.inr rfl)
      · cases ht
    | rankReset => exact Or.inr (Or.inl rfl)

/-! ## the two edges of the code that contradict the property (findings, closed witnesses) -/

/-- the property's edge table -/
def propertyAllows : Status → Status → Bool
  | .active, .paused | .paused, .active | .inactive, .active | .active, .inactive | .jailed, .inactive => true
  | .active, .jailed | .inactive, .jailed | .paused, .jailed => true
  | .jailed, .active => true      -- network-wide rank reset
  | a, b => a == b

def sJ : S := { status := fun v => if v = 0 then .jailed else .active, jailTime := fun v => if v = 0 then some 0 else none }
/-- finding: the upgrade plan's keeper-level Pause turns a jailed validator into a paused one, which its owner can unpause -/
theorem kpause_jailed_counterexample :
    let s1 := (step {} sJ (.kPause 0)).getD sJ
    let s2 := (step {} s1 (.msgUnpause 0)).getD s1
    propertyAllows (sJ.status 0) (s1.status 0) = false ∧ s2.status 0 = .active := by decide

def sP : S := { status := fun v => if v = 0 then .paused else if v = 1 then .inactive else .active, inactiveUntil := fun _ => 1000 }
/-- finding: the rank reset re-activates paused and inactive validators (not their owners, not after the inactivity period) -/
theorem rank_reset_reactivates_counterexample :
    let s1 := (step {} sP .rankReset).getD sP
    s1.status 0 = .active ∧ s1.status 1 = .active ∧ propertyAllows .paused .active = true ∧
      (step {} sP (.msgActivate 1 999)) = none := by decide

/-! ### Application wiring (table `Gen.App`) -/

/-- the staking keeper carries the slashing module's hooks (signing info is created when a validator is claimed) -/
theorem staking_hooks_wired :
    Sekai.Gen.App.hooks.contains ("customStakingKeeper", "stakingtypes.NewMultiStakingHooks(app.CustomSlashingKeeper.Hooks())") = true := by
  decide +kernel

/-! ### Key spaces of the stores this model keeps in separate maps (table `Gen.Keys`)

The model keeps each record kind of a module in a field of its own; the module keeps them in ONE store under byte prefixes.
No prefix extends another (checked on the regenerated table), so by `Sekai.Keys.keys_of_different_kinds_differ` a key of one
kind is never a key of another kind. -/

theorem staking_key_spaces_disjoint : Sekai.Keys.disjoint Sekai.Gen.Keys.stores "staking" = true := by decide +kernel

theorem slashing_key_spaces_disjoint : Sekai.Keys.disjoint Sekai.Gen.Keys.stores "slashing" = true := by decide +kernel

end Sekai.Props.C15
