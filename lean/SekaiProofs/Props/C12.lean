import Sekai.Model.PermGenesis
import Sekai.Gen.Genesis
import Sekai.Driver.GenesisCov
import SekaiProofs.Props.C07
import SekaiProofs.Lemmas.PermGenesis
import Sekai.Gen.App
import Sekai.Model.App
import Sekai.Gen.Keys
import SekaiProofs.Lemmas.Keys
/-! # C12 — Genesis export and re-import reproduce the chain state  (partial: byte-level stores)

* `genesis_coverage_as_reviewed`: per module, the record kinds (store prefixes) the keeper can write and the keeper
  calls of ExportGenesis / InitGenesis, regenerated from the source: a new record kind without genesis support, or a
  dropped export / import call, changes the table. The reviewed gaps are the recorded findings of the store-diff run.
* permission state: `perm_roundtrip_counterexample` — role blacklists are not re-imported (the replay is commented
  out in x/gov/genesis.go), so an actor that was denied a permission holds it after export + import;
  the partial round-trip theorem for states without role blacklists is in `SekaiProofs/Lemmas/PermGenesis.lean`
  when present.
* dynamic tie: states populated by real block histories, exported by the application's own export, imported into a
  fresh application, every module store compared key by key. -/
namespace Sekai.Props.C12
open Sekai.Perm Sekai.PermGenesis

/-- every account id mentioned by the history is below `n`, and fewer than `n` roles are created (role ids are
allocated 1, 2, …): then the domains `0..n-1` cover every stored actor and role -/
def opsWithin (n : Nat) (ops : List Op) : Bool :=
  ops.all (fun op => match op with
    | .wlAcct a _ | .blAcct a _ | .rmWlAcct a _ | .rmBlAcct a _ | .assign a _ | .unassign a _ => decide (a < n)
    | _ => true) &&
  decide ((ops.filter (fun op => match op with | .createRole => true | _ => false)).length + 1 < n)

/-- full statement for the permission state (FALSE on the current code): after export + import every permission
query answers as before, for every reachable state -/
def perm_roundtrip_full : Prop :=
  ∀ (ops : List Op) (n a p : Nat), opsWithin n ops = true →
    checkAllowed (init (exportGen (List.range n) (List.range n) (ops.foldl Sekai.Perm.apply {}))) a p =
      checkAllowed (ops.foldl Sekai.Perm.apply {}) a p

/-- a role whitelists 7 for its members, a second role blacklists it: the member is denied before the export and
allowed after the import -/
theorem perm_roundtrip_counterexample : ¬ perm_roundtrip_full := by
  intro h
  have := h [Op.createRole, .createRole, .wlRole 1 7, .blRole 2 7, .assign 3 1, .assign 3 2] 5 3 7 (by decide)
  revert this
  decide

/-- the reachable witness really is denied before and allowed after -/
example :
    let s := [Op.createRole, .createRole, .wlRole 1 7, .blRole 2 7, .assign 3 1, .assign 3 2].foldl Sekai.Perm.apply {}
    checkAllowed s 3 7 = false ∧ checkAllowed (init (exportGen [3] [1, 2] s)) 3 7 = true := by decide

/-- without role blacklists the same history round-trips (instance of the partial theorem) -/
example :
    let s := [Op.createRole, .wlRole 1 7, .assign 3 1, .wlAcct 4 7, .blAcct 3 9].foldl Sekai.Perm.apply {}
    let t := init (exportGen [3, 4] [1] s)
    (∀ a ∈ [3, 4, 5], ∀ p ∈ [7, 9], checkAllowed t a p = checkAllowed s a p) ∧ voters t 7 = voters s 7 := by decide

/-- **export then import reproduces the permission state (records, the three indexes as sets, the role counter) for
every state satisfying the index invariant — hence every reachable one — provided no role carries a blacklist** -/
theorem perm_roundtrip_partial (s : St) (hI : Sekai.Props.C07.Inv s)
    (actorIds roleIds : List Nat) (hna : actorIds.Nodup) (hnr : roleIds.Nodup)
    (hca : ∀ a, (s.actors a).isSome → a ∈ actorIds) (hcr : ∀ r, (s.roleReg r).isSome → r ∈ roleIds)
    (hbl : ∀ r ps, s.roleReg r = some ps → ps.bl = []) :
    Sekai.PermGenesis.Equiv (init (exportGen actorIds roleIds s)) s :=
  Sekai.PermGenesis.roundtrip_partial s hI actorIds roleIds hna hnr hca hcr hbl

/-- **C07 across a genesis import (partial)**: on a state without role blacklists every account's answer to "does it
hold permission p" is the same before the export and after the import. (With role blacklists it is not:
`perm_roundtrip_counterexample`; the C07 harness re-imports the gov state in place and tolerates exactly that case.) -/
theorem import_keeps_every_permission_answer_partial (s : St) (hI : Sekai.Props.C07.Inv s)
    (actorIds roleIds : List Nat) (hna : actorIds.Nodup) (hnr : roleIds.Nodup)
    (hca : ∀ a, (s.actors a).isSome → a ∈ actorIds) (hcr : ∀ r, (s.roleReg r).isSome → r ∈ roleIds)
    (hbl : ∀ r ps, s.roleReg r = some ps → ps.bl = []) (a p : Nat) :
    checkAllowed (init (exportGen actorIds roleIds s)) a p = checkAllowed s a p := by
  have E := perm_roundtrip_partial s hI actorIds roleIds hna hnr hca hcr hbl
  have hA : (init (exportGen actorIds roleIds s)).actors = s.actors := funext E.actors
  have hR : (init (exportGen actorIds roleIds s)).roleReg = s.roleReg := funext E.roles
  unfold checkAllowed rolePermsOf
  rw [hA, hR]

def expectedModules : List (String × List String × List String × List String) := [
  ("basket", ["KeyLastBasketId=[]byte(\"last_basket_id\")", "PrefixBasketBurnByTime=[]byte(\"basket_burn_by_time\")", "PrefixBasketByDenomKey=[]byte(\"basket_by_denom\")", "PrefixBasketKey=[]byte(\"basket_by_id\")", "PrefixBasketMintByTime=[]byte(\"basket_mint_by_time\")", "PrefixBasketSwapByTime=[]byte(\"basket_swap_by_time\")"], ["GetAllBaskets", "GetAllBurnAmounts", "GetAllMintAmounts", "GetAllSwapAmounts", "GetLastBasketId"], ["SetBasket", "SetBurnAmount", "SetLastBasketId", "SetMintAmount", "SetSwapAmount"]),
  ("collectives", ["PrefixCollectiveContributerKey=[]byte(\"collective_contributer\")", "PrefixCollectiveKey=[]byte(\"collective_by_name\")"], [], []),
  ("custody", ["CustodyBufferSizeKey=[]byte(\"custody_buffer_size\")", "CustodyTxSizeKey=[]byte(\"custody_tx_size\")", "PrefixKeyCustodyCustodians=\"custody_custodians_prefix_\"", "PrefixKeyCustodyLimits=\"custody_limits_prefix_\"", "PrefixKeyCustodyLimitsStatus=\"custody_limits_status_prefix_\"", "PrefixKeyCustodyPool=\"custody_pool_prefix_\"", "PrefixKeyCustodyRecord=\"custody_record_prefix_\"", "PrefixKeyCustodyVote=\"custody_approve_\"", "PrefixKeyCustodyWhiteList=\"custody_white_list_prefix_\""], [], []),
  ("distributor", ["FeesTreasuryKey=[]byte(\"fees_treasury\")", "KeyPeriodicSnapshot=[]byte(\"periodic_snapshot\")", "KeyYearStartSnapshot=[]byte(\"year_start_snapshot\")", "PrefixKeyValidatorVote=[]byte(\"validator_vote_prefix\")", "ProposerKey=[]byte(\"proposer_key\")", "SnapPeriodKey=[]byte(\"snap_period\")"], ["GetAllValidatorVotes", "GetFeesTreasury", "GetPeriodicSnapshot", "GetPreviousProposerConsAddr", "GetSnapPeriod", "GetYearStartSnapshot", "String"], ["SetFeesTreasury", "SetPeriodicSnapshot", "SetPreviousProposerConsAddr", "SetSnapPeriod", "SetValidatorVote", "SetYearStartSnapshot"]),
  ("ethereum", ["PrefixKeyRelay=\"relay_prefix_\""], [], []),
  ("evidence", ["KeyPrefixEvidence=[]byte{0x00}"], ["GetAllEvidence"], ["GetEvidence", "SetEvidence"]),
  ("feeprocessing", ["KeyExecutionStatus=[]byte(\"execution_status\")", "KeyFeePaymentHistory=[]byte(\"fee_payment_history\")"], [], []),
  ("genutil", [], [], []),
  ("gov", ["ActivePollPrefix=[]byte{0x08}", "ActiveProposalsPrefix=[]byte{0x03}", "CouncilorIdentityRegistryPrefix=[]byte{0x20}", "CouncilorsByMonikerKey=[]byte{0x22}", "CouncilorsKey=[]byte{0x21}", "DataRegistryPrefix=[]byte{0x40}", "EnactmentProposalsPrefix=[]byte{0x04}", "KeyLastIdRecordVerifyRequestId=[]byte(\"last_identity_record_verify_request_id\")", "KeyLastIdentityRecordId=[]byte(\"last_identity_record_id\")", "KeyPrefixExecutionFee=[]byte(\"execution_fee\")", "KeyPrefixIdRecordVerifyRequest=[]byte(\"identity_record_verify_request_prefix\")", "KeyPrefixIdRecordVerifyRequestByApprover=[]byte(\"identity_record_verify_request_by_approver_prefix\")", "KeyPrefixIdRecordVerifyRequestByRequester=[]byte(\"identity_record_verify_request_by_requester_prefix\")", "KeyPrefixIdentityRecord=[]byte(\"identity_record_prefix\")", "KeyPrefixIdentityRecordByAddress=[]byte(\"identity_record_by_address_prefix\")", "KeyPrefixNetworkProperties=[]byte(\"network_properties\")", "KeyPrefixProposalDuration=[]byte(\"proposal_duration\")", "NetworkActorsPrefix=[]byte{0x30}", "NextPollIDPrefix=[]byte{0x06}", "NextProposalIDPrefix=[]byte{0x00}", "NextRolePrefix=[]byte{0x50}", "PollPrefix=[]byte{0x05}", "PollVotesPrefix=[]byte{0x07}", "PoorNetworkMessagesPrefix=[]byte{0x41}", "ProposalsPrefix=[]byte{0x01}", "RoleActorPrefix=[]byte{0x32}", "RoleIdToInfo=[]byte{0x11}", "RolePermissionRegistry=[]byte{0x10}", "RoleSidToIdRegistry=[]byte{0x12}", "VotesPrefix=[]byte{0x02}", "WhitelistActorPrefix=[]byte{0x31}", "WhitelistRolePrefix=[]byte{0x33}"], ["AllDataRegistry", "GetAllIdRecordsVerifyRequests", "GetAllIdentityRecords", "GetAllProposalDurations", "GetAllRoles", "GetExecutionFees", "GetLastIdRecordVerifyRequestId", "GetLastIdentityRecordId", "GetNetworkActorFromIterator", "GetNetworkActorsIterator", "GetNetworkProperties", "GetNextProposalID", "GetNextRoleId", "GetPermissionsFromIterator", "GetPoorNetworkMessages", "GetProposals", "GetVotes", "IterateRoles"], ["AssignRoleToActor", "SaveNetworkActor", "SavePoorNetworkMessages", "SaveProposal", "SaveVote", "SetExecutionFee", "SetIdentityRecord", "SetIdentityRecordsVerifyRequest", "SetLastIdRecordVerifyRequestId", "SetLastIdentityRecordId", "SetNetworkProperties", "SetNextProposalID", "SetNextRoleId", "SetProposalDuration", "SetRole", "SetWhitelistAddressPermKey", "UpsertDataRegistryEntry", "WhitelistRolePermission"]),
  ("layer2", ["BridgeRegistrarHelperKey=[]byte(\"bridge_registrar_helper\")", "KeyPrefixDapp=[]byte(\"dapp_info\")", "PrefixBridgeAccountKey=[]byte(\"bridge_account_key\")", "PrefixBridgeTokenKey=[]byte(\"bridge_token_key\")", "PrefixDappLeaderDenouncementKey=[]byte(\"dapp_leader_denouncement_key\")", "PrefixDappOperatorCandidateKey=[]byte(\"dapp_operator_candidate_key\")", "PrefixDappOperatorKey=[]byte(\"dapp_operator_key\")", "PrefixDappSessionApprovalKey=[]byte(\"dapp_session_approval_key\")", "PrefixDappSessionKey=[]byte(\"dapp_session_key\")", "PrefixTokenInfoKey=[]byte(\"token_info\")", "PrefixUserDappBondKey=[]byte(\"dapp_user_bond\")", "PrefixXAMKey=[]byte(\"xam_key\")"], [], []),
  ("multistaking", ["KeyLastPoolId=[]byte{0x3}", "KeyLastUndelegationId=[]byte{0x4}", "KeyPrefixCompoundInfo=[]byte{0x7}", "KeyPrefixPoolDelegator=[]byte{0x5}", "KeyPrefixRewards=[]byte{0x6}", "KeyPrefixStakingPool=[]byte{0x1}", "KeyPrefixUndelegation=[]byte{0x2}"], ["GetAllDelegatorRewards", "GetAllStakingPools", "GetAllUndelegations"], ["SetDelegatorRewards", "SetStakingPool", "SetUndelegation"]),
  ("recovery", ["KeyPrefixRRTokenHolder=[]byte{0x07}", "KeyPrefixRewards=[]byte{0x06}", "RecoveryChallengeKeyPrefix=[]byte{0x01}", "RecoveryRecordKeyPrefix=[]byte{0x02}", "RecoveryTokenByDenomKeyPrefix=[]byte{0x03}", "RecoveryTokenKeyPrefix=[]byte{0x04}", "RotationHistoryKeyPrefix=[]byte{0x05}"], ["GetAllRRHolderRewards", "GetAllRecoveryRecords", "GetAllRecoveryTokens", "GetAllRotationHistory"], ["SetRRTokenHolderRewards", "SetRecoveryRecord", "SetRecoveryToken", "SetRotationHistory"]),
  ("slashing", ["AddrPubkeyRelationKeyPrefix=[]byte{0x03}", "KeyDowntimeInactiveDuration=[]byte(\"DowntimeInactiveDuration\")", "SlashedValidatorsByTimeKeyPrefix=[]byte{0x04}", "ValidatorMissedBlockBitArrayKeyPrefix=[]byte{0x02}", "ValidatorSigningInfoKeyPrefix=[]byte{0x01}"], ["IterateValidatorSigningInfos"], ["AddPubkey", "IterateValidators", "SetValidatorSigningInfo"]),
  ("spending", ["KeyPrefixClaimInfo=\"claim_info\"", "KeyPrefixSpendingPool=\"spending\""], ["GetAllClaimInfos", "GetAllSpendingPools"], ["SetClaimInfo", "SetSpendingPool"]),
  ("staking", ["LastValidatorPowerKey=[]byte{0x07}", "PendingValidatorQueue=[]byte{0x03}", "ReactivatingValidatorQueue=[]byte{0x05}", "RemovingValidatorQueue=[]byte{0x04}", "ValidatorsByConsAddressKey=[]byte{0x02}", "ValidatorsKey=[]byte{0x00}"], ["GetValidatorSet"], ["AddValidator", "AfterValidatorJoined"]),
  ("tokens", ["PrefixKeyTokenBlackWhite=[]byte(\"token_black_white\")", "PrefixKeyTokenInfo=[]byte(\"token_rate_registry\")"], ["GetAllTokenInfos", "GetTokenBlackWhites"], ["SetTokenBlackWhites", "UpsertTokenInfo"]),
  ("ubi", ["PrefixKeyUBIRecord=\"ubi_record_prefix\""], ["GetUBIRecords"], ["SetUBIRecord"]),
  ("upgrade", ["KeyCurrentPlan=[]byte{0x01}", "KeyNextPlan=[]byte{0x02}"], ["GetCurrentPlan", "GetNextPlan"], ["SaveCurrentPlan", "SaveNextPlan"])
]

/-- **which record kinds each module stores and what its genesis export / import touches**, as reviewed -/
theorem genesis_coverage_as_reviewed : Sekai.Gen.Genesis.modules = expectedModules := by decide +kernel


/-! ## presence model of export + import over the regenerated coverage table (`Sekai.GenesisCov`) -/
section Presence
open Sekai.GenesisCov

/-- a record is present after export + import iff it was present before and its kind is written by some InitGenesis -/
theorem roundTrip_mem_iff (m : Mod) (s : Store) (kv : List Nat × List Nat) :
    kv ∈ roundTrip m s ↔ kv ∈ s ∧ predict m kv.1 = .kept := by
  unfold roundTrip
  rw [List.mem_filter]
  constructor
  · rintro ⟨h1, h2⟩; exact ⟨h1, by simpa using h2⟩
  · rintro ⟨h1, h2⟩; exact ⟨h1, by simp [h2]⟩

/-- **a module store survives export + import unchanged (as far as presence goes) iff every record in it is of a
kind some InitGenesis writes** -/
theorem roundTrip_eq_iff (m : Mod) (s : Store) :
    roundTrip m s = s ↔ ∀ kv ∈ s, predict m kv.1 = .kept := by
  unfold roundTrip
  rw [List.filter_eq_self]
  constructor
  · intro h kv hkv; simpa using h kv hkv
  · intro h kv hkv; simp [h kv hkv]

/-- **every record of a kind no InitGenesis writes is gone after the import**, whatever the state -/
theorem unwritten_kind_lost (m : Mod) (s : Store) (k v : List Nat) (d : String × List Nat)
    (hc : classify m k = some d) (hw : d.1 ∉ m.writes) : (k, v) ∉ roundTrip m s := by
  intro h
  have := (roundTrip_mem_iff m s (k, v)).mp h
  simp [predict, hc] at this
  exact hw this.2

/-- and it is restorable otherwise: the kind of a surviving record is written by some InitGenesis -/
theorem survivor_kind_written (m : Mod) (s : Store) (k v : List Nat) (h : (k, v) ∈ roundTrip m s) :
    ∃ d, classify m k = some d ∧ d.1 ∈ m.writes := by
  have := ((roundTrip_mem_iff m s (k, v)).mp h).2
  unfold predict at this
  cases hc : classify m k with
  | none => simp [hc] at this
  | some d =>
    refine ⟨d, rfl, ?_⟩
    simpa [hc] using this

/-- **the record kinds of the current source that no InitGenesis writes** (regenerated from the typed call graph on
every run): each is a recorded C12 finding once a history populates it; a new entry here — a dropped import call, a
new record kind without genesis support — breaks this obligation -/
theorem lost_kinds_as_reviewed :
    Sekai.Driver.GenesisCov.mods.map (fun m => (m.name, lostKinds m)) =
    [("basket", []),
     ("collectives", ["PrefixCollectiveContributerKey", "PrefixCollectiveKey"]),
     ("custody", ["CustodyBufferSizeKey", "CustodyTxSizeKey", "PrefixKeyCustodyCustodians", "PrefixKeyCustodyLimits",
        "PrefixKeyCustodyLimitsStatus", "PrefixKeyCustodyPool", "PrefixKeyCustodyRecord", "PrefixKeyCustodyVote",
        "PrefixKeyCustodyWhiteList"]),
     ("distributor", ["ProposerKey"]),
     ("ethereum", ["PrefixKeyRelay"]),
     ("evidence", []),
     ("feeprocessing", ["KeyExecutionStatus", "KeyFeePaymentHistory"]),
     ("genutil", []),
     ("gov", ["ActivePollPrefix", "ActiveProposalsPrefix", "CouncilorIdentityRegistryPrefix", "CouncilorsByMonikerKey",
        "CouncilorsKey", "EnactmentProposalsPrefix", "NextPollIDPrefix", "PollPrefix", "PollVotesPrefix"]),
     ("layer2", ["BridgeRegistrarHelperKey", "KeyPrefixDapp", "PrefixBridgeAccountKey", "PrefixBridgeTokenKey",
        "PrefixDappLeaderDenouncementKey", "PrefixDappOperatorCandidateKey", "PrefixDappOperatorKey",
        "PrefixDappSessionApprovalKey", "PrefixDappSessionKey", "PrefixTokenInfoKey", "PrefixUserDappBondKey",
        "PrefixXAMKey"]),
     ("multistaking", ["KeyLastPoolId", "KeyLastUndelegationId", "KeyPrefixCompoundInfo", "KeyPrefixPoolDelegator"]),
     ("recovery", ["KeyPrefixRRTokenHolder"]),
     ("slashing", ["KeyDowntimeInactiveDuration", "SlashedValidatorsByTimeKeyPrefix", "ValidatorMissedBlockBitArrayKeyPrefix"]),
     ("spending", []),
     ("staking", ["LastValidatorPowerKey", "PendingValidatorQueue", "ReactivatingValidatorQueue", "RemovingValidatorQueue"]),
     ("tokens", []),
     ("ubi", []),
     ("upgrade", [])] := by decide +kernel

/-- kinds that are written at import without being read at export: they must be rebuilt from other records (indexes)
— the reviewed list -/
theorem rebuilt_kinds_as_reviewed :
    (Sekai.Driver.GenesisCov.mods.map (fun m => (m.name, rebuiltKinds m))).filter (fun x => !x.2.isEmpty) =
    [("basket", ["PrefixBasketByDenomKey"]),
     ("gov", ["KeyPrefixIdRecordVerifyRequestByApprover", "KeyPrefixIdRecordVerifyRequestByRequester",
        "KeyPrefixIdentityRecordByAddress", "RoleActorPrefix", "RoleSidToIdRegistry", "WhitelistActorPrefix",
        "WhitelistRolePrefix"]),
     ("recovery", ["RecoveryChallengeKeyPrefix", "RecoveryTokenByDenomKeyPrefix"]),
     ("slashing", ["AddrPubkeyRelationKeyPrefix"]),
     ("staking", ["ValidatorsByConsAddressKey"])] := by decide +kernel

/-- non-vacuity: a gov store with a proposal (kind ProposalsPrefix = 0x01, restored) and an active-queue entry
(ActiveProposalsPrefix = 0x03, not restored) -/
example :
    (Sekai.Driver.GenesisCov.mods.find? (fun m => m.name == "gov")).map
      (fun m => (roundTrip m [([1, 0, 0, 7], [42]), ([3, 0, 0, 7], [1])]).map (·.1)) = some [[1, 0, 0, 7]] := by
  decide +kernel
end Presence

/-! ### Application wiring (table `Gen.App`) -/

/-- import order the round trip relies on: accounts and balances first, gov (identity registrar, permissions) before
staking, staking before slashing, genutil and multistaking -/
theorem init_order_as_modelled :
    Sekai.App.inOrder Sekai.Gen.App.initOrder ["authtypes.ModuleName", "banktypes.ModuleName", "govtypes.ModuleName",
      "stakingtypes.ModuleName", "slashingtypes.ModuleName"] = true ∧
    Sekai.App.before Sekai.Gen.App.initOrder "stakingtypes.ModuleName" "genutiltypes.ModuleName" = true ∧
    Sekai.App.before Sekai.Gen.App.initOrder "stakingtypes.ModuleName" "multistakingtypes.ModuleName" = true ∧
    Sekai.App.before Sekai.Gen.App.initOrder "tokenstypes.ModuleName" "baskettypes.ModuleName" = true := by decide +kernel

/-! ### Key spaces (table `Gen.Keys`)

Export walks every record kind by its prefix. If a prefix extended another, the walk over the shorter one would also pick up
(and try to decode) the records of the longer one. On the code as it is no module has such a pair, and no key variable has a
value the translator could not read. -/

theorem no_store_has_overlapping_prefixes :
    (Sekai.Gen.Keys.stores.filter fun m => !(Sekai.Keys.clashes m.2).isEmpty) = [] ∧ Sekai.Gen.Keys.unrecognised = [] := by
  decide +kernel

/-- the table covers the modules whose stores the round trip compares -/
theorem key_table_covers_modules :
    ["basket", "collectives", "custody", "distributor", "gov", "layer2", "multistaking", "recovery", "slashing", "spending",
     "staking", "ubi", "upgrade"].all (fun m => !(Sekai.Keys.rowsOf Sekai.Gen.Keys.stores m).isEmpty) = true := by
  decide +kernel

end Sekai.Props.C12
