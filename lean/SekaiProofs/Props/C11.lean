import SekaiProofs.Lemmas.Basket
import Sekai.Gen.App
import Sekai.Model.App
import Sekai.Gen.Keys
import SekaiProofs.Lemmas.Keys
/-! # C11 — Basket tokens stay fully backed; mint, burn and swap are value-preserving

Theorems about the executable model `Sekai.Basket` (lean/Sekai/Model/Basket.lean), which mirrors
`x/basket/keeper/mint_burn_swap.go`, `x/basket/types/basket.go`, `basket_action_history.go`, `basket.go` as the code IS;
the tie to the Go code is the correspondence run of `harness/c11.go`.

* invariants, for every history (`inv_run`, `supply_eq_amount`, `module_holds_reserves_and_surplus`; per op
  `mint_preserves`, `burn_preserves`, `swap_preserves`, `reconfig_preserves`, `edit_partial`): bank supply of every basket
  denom = recorded amount; the module account holds reserves + surplus of all baskets — exactly: `unaccounted`
  (module balance outside every reserve and surplus) never changes under mint / burn / swap / re-weighting;
* `mint_le_value`  minted·10¹⁸ ≤ Σ depositᵢ·weightᵢ < (minted+1)·10¹⁸  (floor, never more than the value),
  `mint_preserves_backed`;
* burn: the full statement `BurnProRata` (outᵢ·supplyBefore ≤ burn·reserveᵢ) is FALSE on the current code
  (`burn_pro_rata_counterexample`, `backed_counterexample`, `burn_entire_supply_rejected`: the portion is measured
  against the supply AFTER the burn); what does hold: `burn_partial` (0 ≤ outᵢ ≤ reserveᵢ and the bound with the supply
  after the burn + rounding slack);
* `quote_le_value` / `swap_le_value`: a swap pays out at most the value paid in less fees, up to one unit of 10⁻¹⁸ of the
  out token per pair (`Dec.Quo` rounds half-even; `swap_exact_counterexample` shows the slack is real);
* `mint_respects_limits`, `burn_respects_limits`, `swap_respects_limits` (+ `burn_withdraws_enabled`): disabled flags,
  minimums, per-period limits and token caps hold for every op that succeeds;
* configuration defects: `negative_fee_counterexample` (why `WF.fee_ok` is a hypothesis), `edit_amount_counterexample`. -/
namespace Sekai.Props.C11
open Sekai Sekai.Basket Sekai.Lemmas.Basket

/-! ## invariants -/

/-- (a) for every basket the bank supply of its denom equals the recorded amount -/
def SupplyEq (s : St) : Prop :=
  ∀ id b, getBasket s.baskets id = some b → s.bank.supplyOf b.denom = b.amount

/-- (b) the module account holds at least the recorded reserves and surplus of all baskets, in every denom -/
def ModuleHolds (s : St) : Prop :=
  ∀ d, owed s.baskets d ≤ s.bank.balOf .module d

/-- well-formedness that no operation changes: distinct ids have distinct basket denoms (true of `b<id>/<suffix>`),
and the swap fee is not negative (the code never validates it: see `negative_fee_counterexample`) -/
structure WF (s : St) : Prop where
  denom_inj : ∀ id1 id2 b1 b2, getBasket s.baskets id1 = some b1 → getBasket s.baskets id2 = some b2 →
    b1.denom = b2.denom → id1 = id2
  fee_ok : ∀ id b, getBasket s.baskets id = some b → 0 ≤ b.swapFee

structure Inv (s : St) : Prop where
  wf : WF s
  supply_eq : SupplyEq s
  module_holds : ModuleHolds s

/-- the module balance that is in no reserve and no surplus -/
def unaccounted (s : St) (d : Denom) : Int := s.bank.balOf .module d - owed s.baskets d

/-- one record is replaced: if the supply of its denom moves with its recorded amount and the module balance moves
with its reserves + surplus, all invariants are kept and no coin leaves the books -/
theorem inv_of_update (s s' : St) (id : Nat) (b nb : Basket) (δ : Int)
    (hb : getBasket s.baskets id = some b) (hbs : s'.baskets = setBasket s.baskets nb)
    (hid : nb.id = b.id) (hden : nb.denom = b.denom) (hfee : 0 ≤ nb.swapFee)
    (hsup : ∀ d, s'.bank.supplyOf d = s.bank.supplyOf d + (if b.denom = d then δ else 0))
    (hamt : nb.amount = b.amount + δ)
    (hun : ∀ d, s'.bank.balOf .module d - owedB nb d = s.bank.balOf .module d - owedB b d)
    (hinv : Inv s) : Inv s' ∧ ∀ d, unaccounted s' d = unaccounted s d := by
  have hbid : b.id = id := getBasket_id _ _ _ hb
  have hget : ∀ id', getBasket s'.baskets id' = if id = id' then some nb else getBasket s.baskets id' := by
    intro id'; rw [hbs, getBasket_setBasket, hid, hbid]
  have hun' : ∀ d, unaccounted s' d = unaccounted s d := by
    intro d
    unfold unaccounted
    rw [hbs, owed_setBasket s.baskets b nb d (by rw [hid, hbid]; exact hb)]
    have := hun d
    omega
  refine ⟨⟨⟨?_, ?_⟩, ?_, ?_⟩, hun'⟩
  · intro id1 id2 b1 b2 h1 h2 he
    rw [hget] at h1 h2
    by_cases e1 : id = id1
    · by_cases e2 : id = id2
      · omega
      · simp only [e1, if_true] at h1; simp only [e2, if_false] at h2
        cases h1
        rw [hden] at he
        have := hinv.wf.denom_inj id id2 b b2 hb h2 he
        omega
    · by_cases e2 : id = id2
      · simp only [e1, if_false] at h1; simp only [e2, if_true] at h2
        cases h2
        rw [hden] at he
        have := hinv.wf.denom_inj id1 id b1 b h1 hb he
        omega
      · simp only [e1, if_false] at h1; simp only [e2, if_false] at h2
        exact hinv.wf.denom_inj id1 id2 b1 b2 h1 h2 he
  · intro id' b' h'
    rw [hget] at h'
    by_cases e : id = id'
    · simp only [e, if_true] at h'; cases h'; exact hfee
    · simp only [e, if_false] at h'; exact hinv.wf.fee_ok id' b' h'
  · intro id' b' h'
    rw [hget] at h'
    by_cases e : id = id'
    · simp only [e, if_true] at h'; cases h'
      rw [hden, hsup, hamt, hinv.supply_eq id b hb]; simp
    · simp only [e, if_false] at h'
      have hne : ¬ b.denom = b'.denom := by
        intro he; exact e (hinv.wf.denom_inj id id' b b' hb h' he)
      rw [hsup, hinv.supply_eq id' b' h']; simp [hne]
  · intro d
    have h1 := hun' d
    have h2 := hinv.module_holds d
    unfold unaccounted at h1
    omega

/-- the same with "the module balance falls no faster than reserves + surplus" (an edit may drop a token: its coins stay
in the module account outside every record) -/
theorem inv_of_update_ge (s s' : St) (id : Nat) (b nb : Basket) (δ : Int)
    (hb : getBasket s.baskets id = some b) (hbs : s'.baskets = setBasket s.baskets nb)
    (hid : nb.id = b.id) (hden : nb.denom = b.denom) (hfee : (0 : Int) ≤ nb.swapFee)
    (hsup : ∀ d, s'.bank.supplyOf d = s.bank.supplyOf d + (if b.denom = d then δ else 0))
    (hamt : nb.amount = b.amount + δ)
    (hun : ∀ d, s.bank.balOf .module d - owedB b d ≤ s'.bank.balOf .module d - owedB nb d)
    (hinv : Inv s) : Inv s' ∧ ∀ d, unaccounted s d ≤ unaccounted s' d := by
  have hbid : b.id = id := getBasket_id _ _ _ hb
  have hget : ∀ id', getBasket s'.baskets id' = if id = id' then some nb else getBasket s.baskets id' := by
    intro id'; rw [hbs, getBasket_setBasket, hid, hbid]
  have hun' : ∀ d, unaccounted s d ≤ unaccounted s' d := by
    intro d
    unfold unaccounted
    rw [hbs, owed_setBasket s.baskets b nb d (by rw [hid, hbid]; exact hb)]
    have := hun d
    omega
  refine ⟨⟨⟨?_, ?_⟩, ?_, ?_⟩, hun'⟩
  · intro id1 id2 b1 b2 h1 h2 he
    rw [hget] at h1 h2
    by_cases e1 : id = id1
    · by_cases e2 : id = id2
      · omega
      · simp only [e1, if_true] at h1; simp only [e2, if_false] at h2
        cases h1
        rw [hden] at he
        have := hinv.wf.denom_inj id id2 b b2 hb h2 he
        omega
    · by_cases e2 : id = id2
      · simp only [e1, if_false] at h1; simp only [e2, if_true] at h2
        cases h2
        rw [hden] at he
        have := hinv.wf.denom_inj id1 id b1 b h1 hb he
        omega
      · simp only [e1, if_false] at h1; simp only [e2, if_false] at h2
        exact hinv.wf.denom_inj id1 id2 b1 b2 h1 h2 he
  · intro id' b' h'
    rw [hget] at h'
    by_cases e : id = id'
    · simp only [e, if_true] at h'; cases h'; exact hfee
    · simp only [e, if_false] at h'; exact hinv.wf.fee_ok id' b' h'
  · intro id' b' h'
    rw [hget] at h'
    by_cases e : id = id'
    · simp only [e, if_true] at h'; cases h'
      rw [hden, hsup, hamt, hinv.supply_eq id b hb]; simp
    · simp only [e, if_false] at h'
      have hne : ¬ b.denom = b'.denom := by
        intro he; exact e (hinv.wf.denom_inj id id' b b' hb h' he)
      rw [hsup, hinv.supply_eq id' b' h']; simp [hne]
  · intro d
    have h1 := hun' d
    have h2 := hinv.module_holds d
    unfold unaccounted at h1
    omega


/-! ## mint -/

/-- complete description of the coins moved by a successful mint -/
theorem mint_effect (s s' : St) (i id : Nat) (dep : Coins) (h : mint s (.user i) id dep = some s') :
    ∃ b v toks,
      getBasket s.baskets id = some b ∧ mintValue b.tokens dep = some v ∧
      s'.baskets = setBasket s.baskets { b with tokens := toks, amount := b.amount + Dec.truncInt v } ∧
      s'.now = s.now ∧
      (∀ d, reserveOf toks d = reserveOf b.tokens d + amountOf dep d) ∧
      toks.map static = b.tokens.map static ∧
      (∀ d, s'.bank.supplyOf d = s.bank.supplyOf d + (if b.denom = d then Dec.truncInt v else 0)) ∧
      (∀ d, s'.bank.balOf .module d = s.bank.balOf .module d + amountOf dep d) ∧
      (∀ d, s'.bank.balOf (.user i) d =
            s.bank.balOf (.user i) d - amountOf dep d + (if b.denom = d then Dec.truncInt v else 0)) := by
  obtain ⟨b, v, toks, bank1, bank2, bank3, hb, _, h1, hv, _, _, _, h2, h3, ht, _, rfl⟩ := mint_inv s s' _ id dep h
  obtain ⟨_, s1, e1⟩ := send_spec _ _ _ _ _ h1
  obtain ⟨_, s2, e2⟩ := mint_spec _ _ _ h2
  obtain ⟨_, s3, e3⟩ := send_spec _ _ _ _ _ h3
  obtain ⟨r1, st1, _⟩ := incTokens_spec _ _ _ ht
  refine ⟨b, v, toks, hb, hv, rfl, rfl, r1, st1, ?_, ?_, ?_⟩
  · intro d
    show bank3.supplyOf d = _
    rw [supplyOf_eq_of_supply_eq _ _ s3, s2, supplyOf_eq_of_supply_eq _ _ s1]
  · intro d
    show bank3.balOf .module d = _
    have hm : ¬ (Acct.module = Acct.user i) := by intro e; cases e
    rw [e3, e2, e1]
    simp only [hm, if_false, if_true, amountOf, true_and]
    split <;> omega
  · intro d
    show bank3.balOf (.user i) d = _
    have hm : ¬ (Acct.user i = Acct.module) := by intro e; cases e
    rw [e3, e2, e1]
    simp only [hm, if_false, if_true, amountOf, false_and]
    split <;> omega

/-- (c) the minted amount is the floor of the weighted value deposited: never more than the value.
`mintValue` is Σ amountᵢ·weightᵢ exactly (`NewDecFromInt(a).Mul(w)` does not round), see `mintValue_exact`. -/
theorem mint_le_value (s s' : St) (i id : Nat) (dep : Coins) (h : mint s (.user i) id dep = some s') :
    ∃ b v, getBasket s.baskets id = some b ∧ mintValue b.tokens dep = some v ∧
      s'.bank.balOf (.user i) b.denom - s.bank.balOf (.user i) b.denom + amountOf dep b.denom = Dec.truncInt v ∧
      Dec.truncInt v * Dec.P ≤ v ∧ v < (Dec.truncInt v + 1) * Dec.P := by
  obtain ⟨b, v, toks, bank1, bank2, bank3, hb, _, _, hv, hnn, _, _, hmint, _, _, _, _⟩ := mint_inv s s' _ id dep h
  obtain ⟨b', v', toks', hb', hv', _, _, _, _, _, _, eu⟩ := mint_effect s s' i id dep h
  rw [hb] at hb'; cases hb'
  rw [hv] at hv'; cases hv'
  have hpos : 0 < Dec.truncInt v := (mint_spec _ _ _ hmint).1
  -- a positive truncation means a non-negative value (sdk.NewCoin / the bank reject everything else)
  have hv0 : (0 : Int) ≤ v := by
    apply Int.not_lt.mp
    intro hneg
    have := truncInt_nonpos v (Int.le_of_lt hneg)
    omega
  refine ⟨b, v, hb, hv, ?_, truncInt_mul_le v hv0, ?_⟩
  · rw [eu]; simp only [if_true]; omega
  · have := truncInt_lt v hv0
    rw [Int.add_mul, Int.one_mul]; exact this

/-- the exact (unrounded) value of a deposit at the basket's weights -/
def exactValue (ts : List Token) : Coins → Int
  | [] => 0
  | c :: cs => (match lookupLast c.denom ts with | some t => c.amount * t.weight | none => 0) + exactValue ts cs

theorem mintValue_exact (ts : List Token) (dep : Coins) (v : Dec.D) (h : mintValue ts dep = some v) :
    v = exactValue ts dep := by
  induction dep generalizing v with
  | nil => unfold mintValue at h; cases h; rfl
  | cons c cs ih =>
    unfold mintValue at h
    split at h
    · cases h
    · rename_i t ht
      split at h
      · split at h
        · cases h
        · rename_i v' hv'
          cases h
          simp only [exactValue, ht, mul_ofInt, ih v' hv']
      · cases h

/-- (a)+(b) a successful mint keeps every invariant, and the module balance moves exactly with reserves + surplus -/
theorem mint_preserves (s s' : St) (i id : Nat) (dep : Coins) (h : mint s (.user i) id dep = some s') (hinv : Inv s) :
    Inv s' ∧ ∀ d, unaccounted s' d = unaccounted s d := by
  obtain ⟨b, v, toks, hb, _, hbs, _, hr, _, hsup, hmod, _⟩ := mint_effect s s' i id dep h
  apply inv_of_update s s' id b _ (Dec.truncInt v) hb hbs rfl rfl (hinv.wf.fee_ok id b hb) hsup rfl _ hinv
  intro d
  simp only [owedB, hr, hmod]; omega

/-! ## burn -/

/-- the portion `BurnBasketToken` computes: burn / (supply AFTER the burn), rounded half-even at 10⁻¹⁸ -/
def burnPortion (s : St) (c : Coin) : Dec.D :=
  Dec.quo (Dec.ofInt c.amount) (Dec.ofInt (s.bank.supplyOf c.denom - c.amount))

/-- complete description of the coins moved by a successful burn; `w` is what the burner receives -/
theorem burn_effect (s s' : St) (i id : Nat) (c : Coin) (h : burn s (.user i) id c = some s') :
    ∃ b toks w,
      getBasket s.baskets id = some b ∧ c.denom = b.denom ∧ 0 < c.amount ∧
      s.bank.supplyOf c.denom - c.amount ≠ 0 ∧
      w = addCoins [] (withdrawCoins (burnPortion s c) b.tokens) ∧ w.isEmpty = false ∧
      s'.baskets = setBasket s.baskets { b with tokens := toks, amount := b.amount - c.amount } ∧
      (∀ d, reserveOf toks d = reserveOf b.tokens d - amountOf w d) ∧
      toks.map static = b.tokens.map static ∧ (NonNeg b.tokens → NonNeg toks) ∧
      (∀ d, s'.bank.supplyOf d = s.bank.supplyOf d - (if b.denom = d then c.amount else 0)) ∧
      (∀ d, s'.bank.balOf .module d = s.bank.balOf .module d - amountOf w d) ∧
      (∀ d, s'.bank.balOf (.user i) d =
            s.bank.balOf (.user i) d - (if b.denom = d then c.amount else 0) + amountOf w d) := by
  obtain ⟨b, toks, bank1, bank2, bank3, hb, _, _, _, h1, h2, hden, hsup, hw, h3, ht, _, rfl⟩ := burn_inv s s' _ id c h
  obtain ⟨_, s1, e1⟩ := send_spec _ _ _ _ _ h1
  obtain ⟨hpos, s2, e2⟩ := burn_spec _ _ _ h2
  obtain ⟨_, s3, e3⟩ := send_spec _ _ _ _ _ h3
  obtain ⟨r1, st1, nn1⟩ := decTokens_spec _ _ _ ht
  have hsa : bank2.supplyOf c.denom = s.bank.supplyOf c.denom - c.amount := by
    rw [s2, supplyOf_eq_of_supply_eq _ _ s1]; simp
  rw [hsa] at hsup hw h3 ht r1 e3
  refine ⟨b, toks, _, hb, hden, hpos, hsup, rfl, hw, rfl, r1, st1, nn1, ?_, ?_, ?_⟩
  · intro d
    show bank3.supplyOf d = _
    rw [supplyOf_eq_of_supply_eq _ _ s3, s2, supplyOf_eq_of_supply_eq _ _ s1, hden]
  · intro d
    show bank3.balOf .module d = _
    have hm : ¬ (Acct.module = Acct.user i) := by intro e; cases e
    rw [e3, e2, e1]
    simp only [hm, if_false, if_true, amountOf, true_and, burnPortion]
    split <;> omega
  · intro d
    show bank3.balOf (.user i) d = _
    have hm : ¬ (Acct.user i = Acct.module) := by intro e; cases e
    rw [e3, e2, e1]
    simp only [hm, if_false, if_true, amountOf, false_and, burnPortion, hden]
    split <;> omega

/-- (a)+(b) a successful burn keeps every invariant, and the module balance moves exactly with the reserves -/
theorem burn_preserves (s s' : St) (i id : Nat) (c : Coin) (h : burn s (.user i) id c = some s') (hinv : Inv s) :
    Inv s' ∧ ∀ d, unaccounted s' d = unaccounted s d := by
  obtain ⟨b, toks, w, hb, _, _, _, _, _, hbs, hr, _, _, hsup, hmod, _⟩ := burn_effect s s' i id c h
  apply inv_of_update s s' id b _ (-c.amount) hb hbs rfl rfl (hinv.wf.fee_ok id b hb) _ (by simp only; omega) _ hinv
  · intro d; rw [hsup]; split <;> omega
  · intro d
    simp only [owedB, hr, hmod]; omega

/-- the FULL statement of pro-rata redemption: burning `burn` of a supply of `supplyBefore` returns at most that
fraction of every reserve. It is FALSE of the code as written (`burn_pro_rata_counterexample`). -/
def BurnProRata : Prop :=
  ∀ (s s' : St) (i id : Nat) (c : Coin) (b : Basket) (d : Denom),
    getBasket s.baskets id = some b → NonNeg b.tokens → s.bank.supplyOf b.denom = b.amount → d ≠ b.denom →
    burn s (.user i) id c = some s' →
    (s'.bank.balOf (.user i) d - s.bank.balOf (.user i) d) * s.bank.supplyOf b.denom ≤ c.amount * reserveOf b.tokens d

/-- (d) what DOES hold for the code as written: the burner never receives more than the reserve, and at most the
fraction burn / (supply − burn) of it — measured against the supply AFTER the burn — plus the half-even rounding
of the portion at 10⁻¹⁸ (`reserve/10¹⁸` base units). -/
theorem burn_partial (s s' : St) (i id : Nat) (c : Coin) (b : Basket) (d : Denom)
    (hb : getBasket s.baskets id = some b) (hn : NonNeg b.tokens) (hd : d ≠ b.denom)
    (h : burn s (.user i) id c = some s') :
    let out := s'.bank.balOf (.user i) d - s.bank.balOf (.user i) d
    let supplyAfter := s.bank.supplyOf b.denom - c.amount
    0 ≤ out ∧ out ≤ reserveOf b.tokens d ∧ 0 < supplyAfter ∧
    out * Dec.P * supplyAfter ≤ reserveOf b.tokens d * (c.amount * Dec.P + supplyAfter) := by
  obtain ⟨b', toks, w, hb', hden, hpos, hsup, hw, hne, _, hr, _, hnn, _, _, hu⟩ := burn_effect s s' i id c h
  rw [hb] at hb'; cases hb'
  have hP := P_pos
  have hdd : ¬ b.denom = d := fun e => hd e.symm
  have hout : s'.bank.balOf (.user i) d - s.bank.balOf (.user i) d = amountOf w d := by
    rw [hu]; simp only [hdd, if_false]; omega
  have hwd : amountOf w d = amountOf (withdrawCoins (burnPortion s c) b.tokens) d := by
    rw [hw, amountOf_addCoins]; simp [amountOf]
  have hap := withdraw_allPos (burnPortion s c) b.tokens
  have h0 : 0 ≤ amountOf w d := by rw [hwd]; exact amountOf_nonneg_of_allPos _ hap d
  have hle : amountOf w d ≤ reserveOf b.tokens d := by
    have := reserveOf_nonneg toks (hnn hn) d
    rw [hr] at this; omega
  -- the supply after the burn is positive: otherwise the portion is ≤ 0 and nothing can be withdrawn
  have hsa : 0 < s.bank.supplyOf b.denom - c.amount := by
    apply Int.not_le.mp
    intro hle0
    have hlt : s.bank.supplyOf c.denom - c.amount < 0 := by rw [hden] at hsup ⊢; omega
    have hq : burnPortion s c ≤ 0 := by
      unfold burnPortion
      apply quo_nonpos
      · unfold Dec.ofInt; exact Int.mul_nonneg (by omega) (by omega)
      · unfold Dec.ofInt; exact Int.mul_neg_of_neg_of_pos hlt hP
    rw [hw, withdrawCoins_nil _ _ hq hn] at hne
    simp [addCoins] at hne
  simp only
  rw [hout]
  refine ⟨h0, hle, hsa, ?_⟩
  -- out·P ≤ reserve·portion   and   portion·supplyAfter ≤ burn·P + supplyAfter
  have hsa' : 0 < s.bank.supplyOf c.denom - c.amount := by rw [hden]; exact hsa
  have hq0 : 0 ≤ burnPortion s c := by
    unfold burnPortion
    apply quo_nonneg
    · unfold Dec.ofInt; exact Int.mul_nonneg (by omega) (by omega)
    · unfold Dec.ofInt; exact Int.mul_pos hsa' hP
  have h1 := withdraw_le (burnPortion s c) b.tokens hq0 hn d
  rw [← hwd] at h1
  have h2 : burnPortion s c * (s.bank.supplyOf c.denom - c.amount) ≤ c.amount * Dec.P + (s.bank.supplyOf c.denom - c.amount) := by
    have := quo_mul_le (Dec.ofInt c.amount) (Dec.ofInt (s.bank.supplyOf c.denom - c.amount))
      (by unfold Dec.ofInt; exact Int.mul_nonneg (by omega) (by omega))
      (by unfold Dec.ofInt; exact Int.mul_pos hsa' hP)
    unfold burnPortion
    unfold Dec.ofInt at this ⊢
    -- q·(sA·P) ≤ (burn·P)·P + sA·P  ⇒  q·sA ≤ burn·P + sA
    have e1 : Dec.quo (c.amount * Dec.P) ((s.bank.supplyOf c.denom - c.amount) * Dec.P) * ((s.bank.supplyOf c.denom - c.amount) * Dec.P)
        = Dec.quo (c.amount * Dec.P) ((s.bank.supplyOf c.denom - c.amount) * Dec.P) * (s.bank.supplyOf c.denom - c.amount) * Dec.P := by
      rw [Int.mul_assoc]
    have e2 : c.amount * Dec.P * Dec.P + (s.bank.supplyOf c.denom - c.amount) * Dec.P
        = (c.amount * Dec.P + (s.bank.supplyOf c.denom - c.amount)) * Dec.P := by
      rw [Int.add_mul]
    rw [e1, e2] at this
    exact Int.le_of_mul_le_mul_right this hP
  rw [hden] at h2
  have hr0 : 0 ≤ reserveOf b.tokens d := reserveOf_nonneg _ hn d
  calc amountOf w d * Dec.P * (s.bank.supplyOf b.denom - c.amount)
      ≤ reserveOf b.tokens d * burnPortion s c * (s.bank.supplyOf b.denom - c.amount) :=
        Int.mul_le_mul_of_nonneg_right h1 (by omega)
    _ = reserveOf b.tokens d * (burnPortion s c * (s.bank.supplyOf b.denom - c.amount)) := by rw [Int.mul_assoc]
    _ ≤ reserveOf b.tokens d * (c.amount * Dec.P + (s.bank.supplyOf b.denom - c.amount)) :=
        Int.mul_le_mul_of_nonneg_left h2 hr0

/-! ## swap -/

/-- complete description of the coins moved by a successful swap; `fin` is what the sender receives -/
theorem swap_effect (s s' : St) (i id : Nat) (pairs : List (Coin × Denom)) (h : swap s (.user i) id pairs = some s') :
    ∃ b toks sur fin,
      getBasket s.baskets id = some b ∧
      s'.baskets = setBasket s.baskets { b with tokens := toks, surplus := sur } ∧
      toks.map static = b.tokens.map static ∧ (NonNeg b.tokens → NonNeg toks) ∧
      (∀ d, s'.bank.supplyOf d = s.bank.supplyOf d) ∧
      (0 ≤ b.swapFee → ∀ d, s'.bank.balOf .module d - (reserveOf toks d + amountOf sur d) =
                              s.bank.balOf .module d - (reserveOf b.tokens d + amountOf b.surplus d)) ∧
      (∀ d, s'.bank.balOf (.user i) d = s.bank.balOf (.user i) d - insOf pairs d + amountOf fin d) ∧
      (∀ d, 0 ≤ amountOf fin d ∧ amountOf fin d ≤ outsOf b.swapFee b.tokens pairs d) := by
  obtain ⟨b, old, acc, slip, fin0, bank2, slipAmts, hb, _, _, hacc, hslip, hfin, h2, hsl, _, rfl⟩ := swap_inv s s' _ id pairs h
  obtain ⟨s1, p1, u1, st1, ap1, nn1⟩ := swapPairs_effect b s.now i pairs _ acc hacc
  have houts := swapPairs_outs b s.now i pairs _ acc hacc
  obtain ⟨_, s2, e2⟩ := send_spec _ _ _ _ _ h2
  have hslip0 := slippageFee_nonneg _ _ _ _ hslip
  have hap : AllPos acc.outs := ap1 (fun c hc => by cases hc)
  have hf := finalOuts_spec slip acc.outs fin0 hfin hslip0 hap
  have hfin' : ∀ d, amountOf (addCoins [] fin0) d = amountOf fin0 d := by
    intro d; rw [amountOf_addCoins]; simp [amountOf]
  have hsub := subCoins?_spec _ _ _ hsl
  refine ⟨b, acc.tokens, addCoins acc.surplus slipAmts, addCoins [] fin0, hb, rfl, st1, nn1, ?_, ?_, ?_, ?_⟩
  · intro d
    show bank2.supplyOf d = _
    rw [supplyOf_eq_of_supply_eq _ _ s2, supplyOf_eq_of_supply_eq _ _ s1]
  · intro hfee d
    show bank2.balOf .module d - _ = _
    have hm : ¬ (Acct.module = Acct.user i) := by intro e; cases e
    have hp := p1 hfee d
    unfold pend at hp
    simp only [amountOf] at hp
    rw [e2]
    simp only [amountOf_addCoins, hsub, amountOf, hm, if_false, if_true]
    omega
  · intro d
    show bank2.balOf (.user i) d = _
    have hm : ¬ (Acct.user i = Acct.module) := by intro e; cases e
    rw [e2, u1 _ _ hm]
    simp only [hm, if_false, if_true, amountOf_addCoins, amountOf]
    omega
  · intro d
    rw [hfin']
    have := houts d
    simp only [amountOf] at this
    have := hf d
    omega

/-- (a)+(b) a successful swap keeps every invariant; fees and slippage are booked to the surplus coin by coin -/
theorem swap_preserves (s s' : St) (i id : Nat) (pairs : List (Coin × Denom)) (h : swap s (.user i) id pairs = some s')
    (hinv : Inv s) : Inv s' ∧ ∀ d, unaccounted s' d = unaccounted s d := by
  obtain ⟨b, toks, sur, fin, hb, hbs, _, _, hsup, hmod, _, _⟩ := swap_effect s s' i id pairs h
  have hfee := hinv.wf.fee_ok id b hb
  apply inv_of_update s s' id b _ 0 hb hbs rfl rfl hfee _ (by simp) _ hinv
  · intro d; rw [hsup]; simp
  · intro d; exact hmod hfee d

/-- (e) the arithmetic of one pair, for all inputs: the amount credited to the reserve is at most the amount paid in
(the difference is the fee), and the out amount is worth at most the net amount paid in, up to ONE unit of 10⁻¹⁸ of
the out token (`Quo` rounds half-even; see `swap_exact_counterexample`). -/
theorem quote_le_value (fee : Dec.D) (ts : List Token) (c : Coin) (o : Denom) (q : Quote) (ti to : Token)
    (hq : quote fee ts c o = some q) (hi : lookupLast c.denom ts = some ti) (ho : lookupLast o ts = some to)
    (hfee : (0 : Int) ≤ fee) (hc : 0 ≤ c.amount) (hwi : (0 : Int) ≤ ti.weight) (hwo : (0 : Int) < to.weight)
    (hsa : 0 ≤ q.swapAmount) :
    q.swapAmount ≤ c.amount ∧ q.fee = c.amount - q.swapAmount ∧
    q.out * to.weight * Dec.P ≤ q.swapAmount * ti.weight * Dec.P + to.weight := by
  obtain ⟨ti', to', hi', ho', _, _, e2, e3, e4⟩ := quote_inv _ _ _ _ _ hq
  rw [hi] at hi'; cases hi'
  rw [ho] at ho'; cases ho'
  refine ⟨?_, e3, ?_⟩
  · rw [e2]; exact swapAmount_le _ _ hfee hc
  · rw [e4]; exact quote_value _ _ _ hsa hwi hwo

/-- (e) what the sender of a successful swap receives in denom `d` (balance change plus what was paid in) is
non-negative and at most the sum of the quoted out amounts for `d` (the slippage fee only lowers it); each quote
obeys `quote_le_value`. -/
theorem swap_le_value (s s' : St) (i id : Nat) (pairs : List (Coin × Denom)) (b : Basket)
    (hb : getBasket s.baskets id = some b) (h : swap s (.user i) id pairs = some s') (d : Denom) :
    let received := s'.bank.balOf (.user i) d - s.bank.balOf (.user i) d + insOf pairs d
    0 ≤ received ∧ received ≤ outsOf b.swapFee b.tokens pairs d := by
  obtain ⟨b', toks, sur, fin, hb', _, _, _, _, _, hu, hf⟩ := swap_effect s s' i id pairs h
  rw [hb] at hb'; cases hb'
  simp only
  have := hf d
  rw [hu]
  omega

/-! ## (f) flags, minimums, per-period limits, caps -/

theorem mint_deposits_enabled (ts : List Token) (dep : Coins) (v : Dec.D) (h : mintValue ts dep = some v) :
    ∀ c ∈ dep, ∃ t, lookupLast c.denom ts = some t ∧ t.deposits = true := by
  induction dep generalizing v with
  | nil => intro c hc; cases hc
  | cons x xs ih =>
    unfold mintValue at h
    split at h
    · cases h
    · rename_i t ht
      split at h
      · rename_i hdep
        split at h
        · cases h
        · rename_i v' hv'
          intro c hc
          simp at hc
          rcases hc with rfl | hc
          · exact ⟨t, ht, hdep⟩
          · exact ih v' hv' c hc
      · cases h

/-- a mint that succeeds: mints were enabled, every deposited denom is a token of the basket with deposits enabled,
the minted amount is at least `mints_min`, the total registered for the period (this mint included) is at most
`mints_max`, and the token cap holds for the new reserves -/
theorem mint_respects_limits (s s' : St) (i id : Nat) (dep : Coins) (h : mint s (.user i) id dep = some s') :
    ∃ b nb v, getBasket s.baskets id = some b ∧ getBasket s'.baskets id = some nb ∧ mintValue b.tokens dep = some v ∧
      b.mintsDisabled = false ∧
      (∀ c ∈ dep, ∃ t, lookupLast c.denom b.tokens = some t ∧ t.deposits = true) ∧
      b.mintsMin ≤ Dec.truncInt v ∧
      periodSum id s'.now b.limitsPeriod s'.mintH ≤ b.mintsMax ∧
      capOk nb.tokensCap nb.tokens = true := by
  obtain ⟨b, v, toks, _, _, _, hb, hdis, _, hv, _, hmin, hmax, _, _, _, hcap, rfl⟩ := mint_inv s s' _ id dep h
  have hid := getBasket_id _ _ _ hb
  refine ⟨b, { b with tokens := toks, amount := b.amount + Dec.truncInt v }, v, hb, ?_, hv, hdis,
    mint_deposits_enabled _ _ _ hv, hmin, hmax, ?_⟩
  · simp only [getBasket_setBasket, hid, if_true]
  · exact hcap

/-- a burn that succeeds: burns were enabled, the amount is at least `burns_min`, the period total is at most
`burns_max`, the burnt coin is the basket's own denom, and the cap holds afterwards -/
theorem burn_respects_limits (s s' : St) (i id : Nat) (c : Coin) (h : burn s (.user i) id c = some s') :
    ∃ b nb, getBasket s.baskets id = some b ∧ getBasket s'.baskets id = some nb ∧
      b.burnsDisabled = false ∧ c.denom = b.denom ∧ b.burnsMin ≤ c.amount ∧
      periodSum id s'.now b.limitsPeriod s'.burnH ≤ b.burnsMax ∧
      capOk nb.tokensCap nb.tokens = true := by
  obtain ⟨b, toks, _, _, _, hb, hdis, hmin, hmax, _, _, hden, _, _, _, _, hcap, rfl⟩ := burn_inv s s' _ id c h
  have hid := getBasket_id _ _ _ hb
  refine ⟨b, { b with tokens := toks, amount := b.amount - c.amount }, hb, ?_, hdis, hden, hmin, hmax, ?_⟩
  · simp only [getBasket_setBasket, hid, if_true]
  · exact hcap

/-- every withdrawn coin comes from a token with withdraws enabled -/
theorem burn_withdraws_enabled (portion : Dec.D) (ts : List Token) :
    ∀ c ∈ withdrawCoins portion ts, ∃ t ∈ ts, t.denom = c.denom ∧ t.withdraws = true := by
  induction ts with
  | nil => intro c hc; cases hc
  | cons t ts ih =>
    unfold withdrawCoins
    simp only
    split
    · rename_i hw
      split
      · intro c hc
        simp at hc
        rcases hc with rfl | hc
        · exact ⟨t, by simp, rfl, hw⟩
        · obtain ⟨t', ht', e⟩ := ih c hc
          exact ⟨t', by simp [ht'], e⟩
      · intro c hc
        obtain ⟨t', ht', e⟩ := ih c hc
        exact ⟨t', by simp [ht'], e⟩
    · intro c hc
      obtain ⟨t', ht', e⟩ := ih c hc
      exact ⟨t', by simp [ht'], e⟩

/-- the per-pair checks of a swap that succeeds, for every prefix of the pair loop -/
theorem swapPairs_respects_limits (b : Basket) (now i : Nat) (pairs : List (Coin × Denom)) (acc acc' : SwapAcc)
    (h : swapPairs b now (.user i) acc pairs = some acc') :
    (∀ p ∈ pairs, ∃ ti to q,
        (lookupLast p.1.denom acc.tokens).map static = some (static ti) ∧
        (lookupLast p.2 acc.tokens).map static = some (static to) ∧ ti.swaps = true ∧ to.swaps = true ∧
        quote b.swapFee acc.tokens p.1 p.2 = some q ∧ b.swapsMin ≤ q.swapValue) ∧
    (pairs ≠ [] → periodSum b.id now b.limitsPeriod acc'.hist ≤ b.swapsMax) := by
  induction pairs generalizing acc with
  | nil => exact ⟨fun p hp => (by cases hp), fun hne => absurd rfl hne⟩
  | cons p ps ih =>
    obtain ⟨inC, outD⟩ := p
    unfold swapPairs at h
    split at h
    · cases h
    · rename_i acc1 h1
      obtain ⟨bank1, ti, to, q, toks1, toks2, _, hti, hto, hsi, hso, hq, hmin, hmax, _, _, ht1, ht2, hacc1⟩ :=
        swapPair_inv b now _ acc acc1 inC outD h1
      obtain ⟨_, _, _, st1, _, _, _⟩ := swapPair_effect b now i acc acc1 inC outD h1
      obtain ⟨ih1, ih2⟩ := ih acc1 h
      constructor
      · intro p hp
        simp at hp
        rcases hp with rfl | hp
        · exact ⟨ti, to, q, by simp [hti], by simp [hto], hsi, hso, hq, hmin⟩
        · obtain ⟨ti', to', q', a1, a2, a3, a4, a5, a6⟩ := ih1 p hp
          refine ⟨ti', to', q', ?_, ?_, a3, a4, ?_, a6⟩
          · rw [← lookupLast_static _ _ _ st1]; exact a1
          · rw [← lookupLast_static _ _ _ st1]; exact a2
          · rw [← quote_static _ _ _ _ _ st1]; exact a5
      · intro _
        cases ps with
        | nil =>
          unfold swapPairs at h; cases h
          rw [hacc1]; exact hmax
        | cons p' ps' => exact ih2 (by simp)

/-- a swap that succeeds: swaps were enabled; for every pair both tokens have swaps enabled and the pair's value is
at least `swaps_min`; the period total after the last pair is at most `swaps_max`; the cap holds afterwards -/
theorem swap_respects_limits (s s' : St) (i id : Nat) (pairs : List (Coin × Denom)) (h : swap s (.user i) id pairs = some s') :
    ∃ b nb, getBasket s.baskets id = some b ∧ getBasket s'.baskets id = some nb ∧
      b.swapsDisabled = false ∧
      (∀ p ∈ pairs, ∃ ti to q, (lookupLast p.1.denom b.tokens).map static = some (static ti) ∧
          (lookupLast p.2 b.tokens).map static = some (static to) ∧ ti.swaps = true ∧ to.swaps = true ∧
          quote b.swapFee b.tokens p.1 p.2 = some q ∧ b.swapsMin ≤ q.swapValue) ∧
      (pairs ≠ [] → periodSum id s'.now b.limitsPeriod s'.swapH ≤ b.swapsMax) ∧
      capOk nb.tokensCap nb.tokens = true := by
  obtain ⟨b, old, acc, slip, fin0, bank2, slipAmts, hb, hdis, _, hacc, _, _, _, _, hcap, rfl⟩ := swap_inv s s' _ id pairs h
  have hid := getBasket_id _ _ _ hb
  obtain ⟨l1, l2⟩ := swapPairs_respects_limits b s.now i pairs _ acc hacc
  refine ⟨b, { b with tokens := acc.tokens, surplus := addCoins acc.surplus slipAmts }, hb, ?_, hdis, ?_, ?_, ?_⟩
  · simp only [getBasket_setBasket, hid, if_true]
  · intro p hp
    exact l1 p hp
  · intro hne; rw [← hid]; exact l2 hne
  · exact hcap

/-! ## weight changes (slashes) and configuration edits; all histories -/

theorem reserveOf_retok (old tw : List Token) (d : Denom) : reserveOf (retok old tw) d = reserveOf old d := by
  induction old with
  | nil => rfl
  | cons t ts ih =>
    unfold retok at ih ⊢
    simp only [List.map, reserveOf, ih]
    split <;> rfl

/-- a slash of a token weight / an edit of the configuration that keeps recorded amounts, token set, surplus, id and
suffix keeps every invariant (the new swap fee must not be negative) -/
theorem reconfig_preserves (s s' : St) (id : Nat) (cfg : Basket) (h : reconfig s id cfg = some s')
    (hfee : (0 : Int) ≤ cfg.swapFee) (hinv : Inv s) : Inv s' ∧ ∀ d, unaccounted s' d = unaccounted s d := by
  unfold reconfig at h
  split at h
  · cases h
  · rename_i b hb
    simp only at h
    cases h
    apply inv_of_update s _ id b
      { cfg with id := b.id, suffix := b.suffix, amount := b.amount, surplus := b.surplus,
                 tokens := retok b.tokens cfg.tokens } 0 hb rfl rfl rfl hfee _ (by simp) _ hinv
    · intro d; simp
    · intro d; simp only [owedB, reserveOf_retok]

/-- side condition on histories: a reconfiguration must not install a negative swap fee -/
def OpOk : Op → Prop
  | .reconfig _ cfg => (0 : Int) ≤ cfg.swapFee
  | _ => True

theorem inv_step (s : St) (op : Op) (hok : OpOk op) (hinv : Inv s) :
    Inv (step s op) ∧ ∀ d, unaccounted (step s op) d = unaccounted s d := by
  unfold step
  cases hr : Basket.apply s op with
  | none => exact ⟨hinv, fun _ => rfl⟩
  | some s' =>
    simp only
    cases op with
    | mint a id dep => exact mint_preserves s s' a id dep hr hinv
    | burn a id c => exact burn_preserves s s' a id c hr hinv
    | swap a id ps => exact swap_preserves s s' a id ps hr hinv
    | time t =>
      simp only [Basket.apply] at hr
      cases hr
      exact ⟨⟨⟨hinv.wf.denom_inj, hinv.wf.fee_ok⟩, hinv.supply_eq, hinv.module_holds⟩, fun _ => rfl⟩
    | reconfig id cfg => exact reconfig_preserves s s' id cfg hr hok hinv

/-- (a)+(b) for ALL histories of mints, burns and swaps by any holders with any amounts, interleaved with time steps,
weight changes and configuration edits: supply = recorded amount for every basket, the module holds reserves +
surplus, and the module balance outside reserves and surplus never changes (no coin leaves the books). -/
theorem inv_run (ops : List Op) (s : St) (hok : ∀ op ∈ ops, OpOk op) (hinv : Inv s) :
    Inv (run s ops) ∧ ∀ d, unaccounted (run s ops) d = unaccounted s d := by
  induction ops generalizing s with
  | nil => exact ⟨hinv, fun _ => rfl⟩
  | cons op ops ih =>
    obtain ⟨h1, h2⟩ := inv_step s op (hok op (by simp)) hinv
    obtain ⟨h3, h4⟩ := ih (step s op) (fun o ho => hok o (by simp [ho])) h1
    exact ⟨h3, fun d => by unfold run; rw [h4, h2]⟩

theorem supply_eq_amount (ops : List Op) (s : St) (hok : ∀ op ∈ ops, OpOk op) (hinv : Inv s) :
    SupplyEq (run s ops) := (inv_run ops s hok hinv).1.supply_eq

theorem module_holds_reserves_and_surplus (ops : List Op) (s : St) (hok : ∀ op ∈ ops, OpOk op) (hinv : Inv s) :
    ModuleHolds (run s ops) := (inv_run ops s hok hinv).1.module_holds

/-! ## closed witnesses -/

def big : Int := 1000000000

/-- basket `b1/usd` over `ukex` at weight 1 -/
def wCfg : Basket :=
  { id := 0, suffix := "usd", amount := 0, swapFee := 0, slippageFeeMin := 0, tokensCap := Dec.one, limitsPeriod := 86400,
    mintsMin := 1, mintsMax := big, mintsDisabled := false, burnsMin := 1, burnsMax := big, burnsDisabled := false,
    swapsMin := 1, swapsMax := big, swapsDisabled := false,
    tokens := [⟨"ukex", Dec.one, 0, true, true, true⟩], surplus := [] }
def w0 : St := { bank := { bal := [((.user 1, "ukex"), 1000000), ((.user 2, "ukex"), 1000000)] }, now := 1700000006 }
def w1 : St := match create w0 wCfg with | some s => s | none => w0
/-- two holders mint 1000 basket tokens each -/
def wOps : List Op := [.mint 1 1 [⟨"ukex", 1000⟩], .mint 2 1 [⟨"ukex", 1000⟩]]
def wS : St := run w1 wOps

theorem inv_w1 : Inv w1 := by
  have hg : ∀ id b, getBasket w1.baskets id = some b → id = 1 ∧ b = (match getBasket w1.baskets 1 with | some x => x | none => wCfg) := by
    intro id b h
    have : w1.baskets = [ { wCfg with id := 1, tokens := [⟨"ukex", Dec.one, 0, true, true, true⟩] } ] := by decide
    rw [this] at h ⊢
    unfold getBasket at h
    split at h
    · rename_i hid; cases h; exact ⟨hid.symm, by simp [getBasket]⟩
    · simp [getBasket] at h
  refine ⟨⟨?_, ?_⟩, ?_, ?_⟩
  · intro id1 id2 b1 b2 h1 h2 _
    rw [(hg id1 b1 h1).1, (hg id2 b2 h2).1]
  · intro id b h
    rw [(hg id b h).2]; decide
  · intro id b h
    rw [(hg id b h).2]; decide
  · intro d
    have : w1.baskets = [ { wCfg with id := 1, tokens := [⟨"ukex", Dec.one, 0, true, true, true⟩] } ] := by decide
    rw [this]
    have hb : w1.bank.balOf .module d = 0 := by
      have : w1.bank = w0.bank := by rfl
      rw [this]
      simp [Bank.balOf, w0, AMap.get]
    rw [hb]
    simp only [owed, owedB, reserveOf, amountOf, wCfg]
    split <;> omega

/-- non-vacuity of the invariant theorems: a reachable, non-trivial state (two holders, 2000 tokens outstanding) -/
example : Inv wS ∧ (getBasket wS.baskets 1).map (·.amount) = some 2000 :=
  ⟨(inv_run wOps w1 (fun op hop => by simp [wOps] at hop; rcases hop with rfl | rfl <;> trivial) inv_w1).1, by decide⟩

example : SupplyEq wS := supply_eq_amount wOps w1 (fun op hop => by simp [wOps] at hop; rcases hop with rfl | rfl <;> trivial) inv_w1
example : ModuleHolds wS := module_holds_reserves_and_surplus wOps w1 (fun op hop => by simp [wOps] at hop; rcases hop with rfl | rfl <;> trivial) inv_w1

/-- non-vacuity of `reconfig_preserves` / `inv_run` with a slash in the history: weight halved (as `AfterSlashStakingPool`
would do), time passes, a holder burns: every op of the history succeeds, the invariants hold at the end -/
def wOps2 : List Op :=
  wOps ++ [.reconfig 1 { wCfg with tokens := [⟨"ukex", Dec.half, 0, true, true, true⟩] }, .time 1700000100, .burn 2 1 ⟨"b1/usd", 500⟩]
example : Inv (run w1 wOps2) ∧
    (getBasket (run w1 wOps2).baskets 1).map (fun b => (b.amount, b.tokens.map (fun t => (t.weight, t.amount)))) =
      some (1500, [(Dec.half, 1334)]) :=
  ⟨(inv_run wOps2 w1 (fun op hop => by
      simp [wOps2, wOps] at hop
      rcases hop with rfl | rfl | rfl | rfl | rfl <;> first | trivial | (show (0 : Int) ≤ 0; decide)) inv_w1).1, by decide⟩

/-- non-vacuity of the limit theorems, at the boundary: with `mints_max = 2000` the two mints of 1000 pass (total = max),
one more unit in the same period is rejected, and passes again once the period is over -/
def wOpsLim : List Op := wOps ++ [.mint 1 1 [⟨"ukex", 1⟩]]
example :
    let s0 : St := match create w0 { wCfg with mintsMax := 2000 } with | some s => s | none => w0
    (getBasket (run s0 wOps).baskets 1).map (·.amount) = some 2000 ∧
    (Basket.apply (run s0 wOps) (.mint 1 1 [⟨"ukex", 1⟩])).isSome = false ∧
    (Basket.apply (run s0 (wOps ++ [.time (1700000006 + 86401)])) (.mint 1 1 [⟨"ukex", 1⟩])).isSome = true := by decide

/-- non-vacuity of the mint theorems: the second holder's mint succeeds and yields exactly 1000 -/
example : (mint (step w1 (.mint 1 1 [⟨"ukex", 1000⟩])) (.user 2) 1 [⟨"ukex", 1000⟩]).map
    (fun s' => s'.bank.balOf (.user 2) "b1/usd") = some 1000 := by decide

/-- the holder of HALF the supply (1000 of 2000) burns it … -/
def wBurn : Option St := burn wS (.user 1) 1 ⟨"b1/usd", 1000⟩

/-- … and receives the WHOLE reserve of 2000 ukex -/
theorem witness_burn_pays_whole_reserve :
    wBurn.map (fun s' => s'.bank.balOf (.user 1) "ukex" - wS.bank.balOf (.user 1) "ukex") = some 2000 := by decide

/-- (d) the full pro-rata statement is false of the code as written: finding `C11/burn/supply-read-after-burn` -/
theorem burn_pro_rata_counterexample : ¬ BurnProRata := by
  intro H
  have hw := witness_burn_pays_whole_reserve
  cases hb : wBurn with
  | none => rw [hb] at hw; cases hw
  | some s' =>
    rw [hb] at hw
    simp only [Option.map] at hw
    have hout : s'.bank.balOf (.user 1) "ukex" - wS.bank.balOf (.user 1) "ukex" = 2000 := by
      injection hw
    have hsome : (getBasket wS.baskets 1).isSome = true := by decide
    obtain ⟨b, hgb⟩ := Option.isSome_iff_exists.mp hsome
    have hbt : (getBasket wS.baskets 1).map (fun b => (b.tokens, b.denom)) =
        some ([⟨"ukex", Dec.one, 2000, true, true, true⟩], "b1/usd") := by decide
    rw [hgb] at hbt
    simp only [Option.map, Option.some.injEq, Prod.mk.injEq] at hbt
    obtain ⟨hbt1, hbt2⟩ := hbt
    have hnn : NonNeg b.tokens := by
      intro t ht
      rw [hbt1] at ht
      simp at ht
      subst ht
      decide
    have hamt : (getBasket wS.baskets 1).map (·.amount) = some 2000 := by decide
    rw [hgb] at hamt
    simp only [Option.map, Option.some.injEq] at hamt
    have hsup : wS.bank.supplyOf "b1/usd" = 2000 := by decide
    have := H wS s' 1 1 ⟨"b1/usd", 1000⟩ b "ukex" hgb hnn (by rw [hbt2, hsup, hamt]) (by rw [hbt2]; decide) hb
    rw [hout, hbt2, hsup, hbt1] at this
    revert this
    decide

/-- non-vacuity of `burn_partial` (and the reason the property fails): on the witness the bound with the supply
AFTER the burn is tight — out = 2000 = reserve · burn / (supply − burn) -/
example : wBurn.isSome = true ∧ NonNeg [(⟨"ukex", Dec.one, 2000, true, true, true⟩ : Token)] :=
  ⟨by decide, fun t ht => by simp at ht; subst ht; decide⟩

/-- the supply (recorded amount) is at most the reserves valued at the basket weights -/
def Backed (b : Basket) : Prop := b.amount * Dec.P ≤ totalVal b.tokens

instance (b : Basket) : Decidable (Backed b) := by unfold Backed; exact inferInstance

/-- "fully backed" is NOT preserved by a burn on the current code: before the witness burn the basket is exactly
backed (2000 tokens, reserves worth 2000), after it 1000 tokens are outstanding against an empty reserve. -/
theorem backed_counterexample :
    (getBasket wS.baskets 1).map (fun b => decide (Backed b)) = some true ∧
    (wBurn.bind (fun s' => getBasket s'.baskets 1)).map (fun b => (decide (Backed b), b.amount, totalVal b.tokens)) =
      some (false, 1000, 0) := by decide

/-- a mint keeps a basket fully backed: the reserves' value grows by the whole deposit value, the supply by its floor -/
theorem mint_preserves_backed (s s' : St) (i id : Nat) (dep : Coins) (b : Basket)
    (hb : getBasket s.baskets id = some b) (hbk : Backed b) (h : mint s (.user i) id dep = some s') :
    ∃ nb, getBasket s'.baskets id = some nb ∧ Backed nb := by
  obtain ⟨b', v, toks, bank1, bank2, bank3, hb', _, _, hv, _, _, _, hmint, _, ht, _, rfl⟩ := mint_inv s s' _ id dep h
  rw [hb] at hb'; cases hb'
  have hid := getBasket_id _ _ _ hb
  refine ⟨{ b with tokens := toks, amount := b.amount + Dec.truncInt v }, ?_, ?_⟩
  · simp only [getBasket_setBasket, hid, if_true]
  · unfold Backed at hbk ⊢
    simp only
    rw [incTokens_totalVal _ _ _ _ ht hv, Int.add_mul]
    have hpos : 0 < Dec.truncInt v := (mint_spec _ _ _ hmint).1
    have hv0 : (0 : Int) ≤ v := by
      apply Int.not_lt.mp
      intro hneg
      have := truncInt_nonpos v (Int.le_of_lt hneg)
      omega
    have := truncInt_mul_le v hv0
    omega

/-- non-vacuity: the witness basket is backed before the second mint and after it -/
example : (getBasket (step w1 (.mint 1 1 [⟨"ukex", 1000⟩])).baskets 1).map (fun b => decide (Backed b)) = some true := by decide

/-- the last holder can never redeem: burning the entire remaining supply divides by a zero supply (a panic in Go) -/
theorem burn_entire_supply_rejected :
    (wBurn.bind (fun s' => burn s' (.user 2) 1 ⟨"b1/usd", 1000⟩)).isSome = false := by decide

/-! ### swap: the 10⁻¹⁸ slack of `quote_le_value` is real -/

/-- tokens `ukex` at weight 1 and `ueth` at weight 2.000000000000000001 -/
def xToks : List Token :=
  [⟨"ukex", Dec.one, 1000, true, true, true⟩, ⟨"ueth", 2 * Dec.one + 1, 1000, true, true, true⟩]

/-- 2 ukex (value 2) buy 1 ueth (value 2.000000000000000001): `Quo` rounds 0.9999999999999999995 up to 1 -/
theorem swap_exact_counterexample :
    ¬ (∀ (fee : Dec.D) (ts : List Token) (c : Coin) (o : Denom) (q : Quote) (ti to : Token),
        quote fee ts c o = some q → lookupLast c.denom ts = some ti → lookupLast o ts = some to →
        (0 : Int) ≤ fee → 0 ≤ c.amount → (0 : Int) ≤ ti.weight → (0 : Int) < to.weight → 0 ≤ q.swapAmount →
        q.out * to.weight ≤ q.swapAmount * ti.weight) := by
  intro H
  have hq : (quote 0 xToks ⟨"ukex", 2⟩ "ueth").map (fun q => (q.swapAmount, q.out)) = some (2, 1) := by decide
  cases hb : quote 0 xToks ⟨"ukex", 2⟩ "ueth" with
  | none => rw [hb] at hq; cases hq
  | some q =>
    rw [hb] at hq
    simp only [Option.map] at hq
    have h1 : q.swapAmount = 2 := by injection hq with h; exact congrArg Prod.fst h
    have h2 : q.out = 1 := by injection hq with h; exact congrArg Prod.snd h
    have := H 0 xToks ⟨"ukex", 2⟩ "ueth" q ⟨"ukex", Dec.one, 1000, true, true, true⟩
      ⟨"ueth", 2 * Dec.one + 1, 1000, true, true, true⟩ hb (by decide) (by decide) (by decide) (by decide) (by decide) (by decide)
      (by rw [h1]; decide)
    rw [h1, h2] at this
    revert this
    decide

/-- non-vacuity of `quote_le_value`: the same quote satisfies every hypothesis and the bound WITH the slack -/
example : (quote 0 xToks ⟨"ukex", 2⟩ "ueth").map
    (fun q => decide (q.out * (2 * Dec.one + 1) * Dec.P ≤ q.swapAmount * Dec.one * Dec.P + (2 * Dec.one + 1))) = some true := by decide

/-! ### a negative swap fee (never validated by `CreateBasket` / the proposals) breaks the backing -/

def nfCfg : Basket := { wCfg with swapFee := -(Dec.half), tokens :=
  [⟨"ukex", Dec.one, 0, true, true, true⟩, ⟨"ueth", Dec.one, 0, true, true, true⟩] }
def nf0 : St := { bank := { bal := [((.user 1, "ukex"), 1000000), ((.user 1, "ueth"), 1000000)] }, now := 1700000006 }
def nf1 : St := run (match create nf0 nfCfg with | some s => s | none => nf0) [.mint 1 1 [⟨"ueth", 1000⟩, ⟨"ukex", 1000⟩]]

/-- without `WF.fee_ok` the books do not balance: with swap fee −0.5 a swap of 100 ukex credits 150 ukex to the
reserve while the module received 100 — the module ends up holding 50 ukex less than reserves + surplus -/
theorem negative_fee_counterexample :
    ¬ (∀ (s s' : St) (i id : Nat) (pairs : List (Coin × Denom)) (d : Denom),
        swap s (.user i) id pairs = some s' → unaccounted s' d = unaccounted s d) := by
  intro H
  have hw : (swap nf1 (.user 1) 1 [(⟨"ukex", 100⟩, "ueth")]).map (fun s' => unaccounted s' "ukex") = some (-50) := by decide
  cases hb : swap nf1 (.user 1) 1 [(⟨"ukex", 100⟩, "ueth")] with
  | none => rw [hb] at hw; cases hw
  | some s' =>
    rw [hb] at hw
    simp only [Option.map] at hw
    have h1 : unaccounted s' "ukex" = -50 := by injection hw
    have h2 := H nf1 s' 1 1 _ "ukex" hb
    have h3 : unaccounted nf1 "ukex" = 0 := by decide
    omega

/-- non-vacuity of the swap theorems: with fee 0.01 the same swap succeeds and the sender receives 89 (99 quoted, 10 kept as slippage fee) -/
example : (swap (run (match create nf0 { nfCfg with swapFee := 10000000000000000 } with | some s => s | none => nf0)
      [.mint 1 1 [⟨"ueth", 1000⟩, ⟨"ukex", 1000⟩]]) (.user 1) 1 [(⟨"ukex", 100⟩, "ueth")]).map
    (fun s' => (s'.bank.balOf (.user 1) "ueth", unaccounted s' "ukex")) = some (999089, 0) := by decide

/-! ### `EditBasket` stores the `Amount` of the proposal -/

/-- `EditBasket` as coded keeps every invariant PROVIDED the proposal carries the recorded amount and the old suffix
(and a non-negative swap fee); tokens may be added, dropped or re-weighted (a dropped token's reserve stays in the
module account, outside every record). Without the first proviso: `edit_amount_counterexample`. -/
theorem edit_partial (s s' : St) (cfg old : Basket) (hold : getBasket s.baskets cfg.id = some old)
    (hamt : cfg.amount = old.amount) (hsuf : cfg.suffix = old.suffix) (hfee : (0 : Int) ≤ cfg.swapFee)
    (hn : NonNeg old.tokens) (h : edit s cfg = some s') (hinv : Inv s) :
    Inv s' ∧ ∀ d, unaccounted s d ≤ unaccounted s' d := by
  unfold edit at h
  rw [hold] at h
  simp only at h
  split at h
  · cases h
  split at h
  · cases h
  split at h
  · cases h
  rename_i _ _ hnd
  split at h
  · cases h
  cases h
  have hnd' : denomsNodup cfg.tokens = true := by simpa using hnd
  have hid : old.id = cfg.id := getBasket_id _ _ _ hold
  have hcarry : (cfg.tokens.map fun t =>
      match lookupLast t.denom old.tokens with
      | some o => { t with amount := o.amount }
      | none => { t with amount := 0 }) = cfg.tokens.map (carry old.tokens) := by
    apply List.map_congr_left
    intro t _
    unfold carry
    rfl
  apply inv_of_update_ge s _ cfg.id old
    { cfg with surplus := old.surplus, tokens := cfg.tokens.map fun t =>
        match lookupLast t.denom old.tokens with
        | some o => { t with amount := o.amount }
        | none => { t with amount := 0 } } 0 hold rfl hid.symm
    (by simp only [Basket.denom, hsuf, hid]) hfee (by intro d; simp) (by simp only; omega) _ hinv
  intro d
  simp only [owedB, hcarry]
  have := (reserveOf_carry_le old.tokens cfg.tokens hn hnd' d).1
  omega

/-- non-vacuity of `edit_partial`: re-weighting the witness basket to 1.5 (recorded amount 2000 kept) is accepted -/
example : (edit wS { wCfg with id := 1, amount := 2000, tokens := [⟨"ukex", Dec.one + Dec.half, 0, true, true, true⟩] }).map
    (fun s' => (getBasket s'.baskets 1).map (fun b => (b.amount, b.tokens.map (fun t => (t.weight, t.amount))))) =
    some (some (2000, [(1500000000000000000, 2000)])) := by decide


/-- the invariant theorems cover edits in the form `reconfig` (recorded amount, token set, suffix kept). The real
`EditBasket` takes `Amount` from the proposal: editing the witness basket with amount 5 leaves a supply of 2000
against a recorded amount of 5. Finding `C11/edit/amount-from-proposal`. -/
theorem edit_amount_counterexample :
    ¬ (∀ (s s' : St) (cfg : Basket), Inv s → edit s cfg = some s' → SupplyEq s') := by
  intro H
  have hinv : Inv wS :=
    (inv_run wOps w1 (fun op hop => by simp [wOps] at hop; rcases hop with rfl | rfl <;> trivial) inv_w1).1
  have hw : (edit wS { wCfg with id := 1, amount := 5 }).map
      (fun s' => (getBasket s'.baskets 1).map (fun b => (s'.bank.supplyOf b.denom, b.amount))) = some (some (2000, 5)) := by decide
  cases hb : edit wS { wCfg with id := 1, amount := 5 } with
  | none => rw [hb] at hw; cases hw
  | some s' =>
    rw [hb] at hw
    simp only [Option.map, Option.some.injEq] at hw
    have hs := H wS s' _ hinv hb
    cases hg : getBasket s'.baskets 1 with
    | none => rw [hg] at hw; cases hw
    | some b =>
      rw [hg] at hw
      simp only [Option.some.injEq, Prod.mk.injEq] at hw
      have := hs 1 b hg
      omega


/-! ## the WithdrawSurplus proposal -/

/-- one basket of a WithdrawSurplus proposal keeps all invariants and moves no coin out of the books: what leaves the
module is exactly what leaves the record -/
theorem withdrawSurplus1_preserves (s s' : St) (t : Acct) (id : Nat) (ht : t ≠ .module)
    (h : withdrawSurplus1 s t id = some s') (hinv : Inv s) :
    Inv s' ∧ ∀ d, unaccounted s' d = unaccounted s d := by
  unfold withdrawSurplus1 at h
  cases hb : getBasket s.baskets id with
  | none => simp [hb] at h
  | some b =>
    simp only [hb] at h
    cases hs : s.bank.send .module t b.surplus with
    | none => simp [hs] at h
    | some bank' =>
      simp only [hs, Option.some.injEq] at h
      subst h
      obtain ⟨_, hsup, hbal⟩ := send_spec s.bank bank' .module t b.surplus hs
      refine inv_of_update s _ id b { b with surplus := [] } 0 hb rfl rfl rfl (hinv.wf.fee_ok id b hb) ?_ (by simp) ?_ hinv
      · intro d
        show bank'.supplyOf d = s.bank.supplyOf d + _
        unfold Bank.supplyOf; rw [hsup]; split <;> omega
      · intro d
        show bank'.balOf .module d - owedB { b with surplus := [] } d = s.bank.balOf .module d - owedB b d
        rw [hbal .module d]
        have hne : ¬ (Acct.module = t) := fun e => ht e.symm
        simp only [if_true, hne, if_false]
        unfold owedB
        simp only [amountOf_nil]
        omega

/-- **the whole proposal — whatever ids it lists, repeated ids included — keeps supply = recorded amount, keeps the
module holding reserves + surplus, and pays the target exactly the surplus that was recorded** -/
theorem withdrawSurplus_preserves (ids : List Nat) (s s' : St) (t : Acct) (ht : t ≠ .module)
    (h : withdrawSurplus s t ids = some s') (hinv : Inv s) :
    Inv s' ∧ ∀ d, unaccounted s' d = unaccounted s d := by
  induction ids generalizing s with
  | nil => simp only [withdrawSurplus, Option.some.injEq] at h; subst h; exact ⟨hinv, fun _ => rfl⟩
  | cons id rest ih =>
    simp only [withdrawSurplus] at h
    cases h1 : withdrawSurplus1 s t id with
    | none => simp [h1] at h
    | some s1 =>
      simp only [h1] at h
      obtain ⟨hi1, hu1⟩ := withdrawSurplus1_preserves s s1 t id ht h1 hinv
      obtain ⟨hi2, hu2⟩ := ih s1 h hi1
      exact ⟨hi2, fun d => by rw [hu2 d, hu1 d]⟩

/-! ## the EndBlocker's pruning of the limit histories -/

/-- dropping entries that a period sum does not count leaves the sum unchanged -/
theorem periodSum_filter (id now' period : Nat) (p : (Nat × Nat) × Int → Bool) (h : List ((Nat × Nat) × Int))
    (hp : ∀ e ∈ h, (e.1.1 = id ∧ now' ≤ e.1.2 + period) → p e = true) :
    periodSum id now' period (h.filter p) = periodSum id now' period h := by
  induction h with
  | nil => rfl
  | cons e r ih =>
    have ih' := ih (fun x hx => hp x (List.mem_cons_of_mem _ hx))
    by_cases hpe : p e = true
    · rw [List.filter_cons_of_pos hpe]
      show (if _ then _ else _) + periodSum id now' period (List.filter p r) = (if _ then _ else _) + periodSum id now' period r
      rw [ih']
    · rw [List.filter_cons_of_neg hpe]
      have hc : ¬ (e.1.1 = id ∧ now' ≤ e.1.2 + period) := fun hh => hpe (hp e (List.mem_cons_self ..) hh)
      show periodSum id now' period (List.filter p r) = (if e.1.1 = id ∧ now' ≤ e.1.2 + period then e.2 else 0) + periodSum id now' period r
      rw [ih', if_neg hc]; omega

/-- **pruning is invisible to the per-period limits**: for the basket the history entry belongs to, and for every
later block time, the period sum over the pruned history equals the one over the full history — as long as the
basket keeps its limits period. (The EndBlocker prunes each basket's OWN prefix only: an implementation that prunes
under another basket's bounds breaks this on the code side and shows in the correspondence.) -/
theorem periodSum_pruneH (bs : List Basket) (b : Basket) (now now' : Nat) (h : AMap (Nat × Nat))
    (hb : bs.find? (fun x => x.id == b.id) = some b) (hle : now ≤ now') :
    periodSum b.id now' b.limitsPeriod (pruneH bs now h) = periodSum b.id now' b.limitsPeriod h := by
  unfold pruneH
  apply periodSum_filter
  intro e _ hc
  have hf : bs.find? (fun x => x.id == e.1.1) = some b := by rw [hc.1]; exact hb
  simp only [hf]
  have : now ≤ e.1.2 + b.limitsPeriod := by omega
  simp [this]

example : periodSum 1 100 60 (pruneH [{ wCfg with id := 1, limitsPeriod := 60 }] 90 [((1, 10), 5), ((1, 50), 7), ((2, 10), 9)])
    = 7 := by decide

/-- … but not once the period is extended: an entry pruned under a 60 s period is missing from the 1000 s window that
an edit introduces afterwards (finding `C11/limits/period-extension-forgets-pruned-history`) -/
theorem period_extension_counterexample :
    ¬ (∀ (bs : List Basket) (b : Basket) (now now' p' : Nat) (h : AMap (Nat × Nat)),
        bs.find? (fun x => x.id == b.id) = some b → now ≤ now' →
        periodSum b.id now' p' (pruneH bs now h) = periodSum b.id now' p' h) := by
  intro H
  have := H [{ wCfg with id := 1, limitsPeriod := 60 }] { wCfg with id := 1, limitsPeriod := 60 } 100 100 1000 [((1, 10), 5)] (by decide) (by decide)
  revert this
  decide

/-- pruning touches neither the baskets nor the bank: supply, reserves and recorded amounts are unchanged -/
theorem endBlock_frame (s : St) : (endBlock s).baskets = s.baskets ∧ (endBlock s).bank = s.bank ∧ (endBlock s).now = s.now :=
  ⟨rfl, rfl, rfl⟩

/-- the limits window is computed through `time.Duration` (int64 nanoseconds): a period of 2^40 s no longer fits
(2^40 * 10^9 ≥ 2^63), periods up to 9 * 10^9 s - the largest the generated configurations use - do. The model keeps
exact integers: beyond the wrap it and the implementation part ways (recorded finding
`C11/limits/period-duration-overflow`, witnessed on the implementation on every run). -/
theorem period_nanos_overflow : (2 ^ 40 : Nat) * 10 ^ 9 ≥ 2 ^ 63 ∧ (9000000000 : Nat) * 10 ^ 9 < 2 ^ 63 := by decide

/-! ### Application wiring (table `Gen.App`) -/

/-- the basket keeper's hooks are registered with the slashing and the multistaking keeper: a slashed staking pool is
reported to the basket module (which disables deposits of the affected share token), as the model's `slash` op assumes -/
theorem basket_hooks_wired :
    Sekai.Gen.App.hooks.contains ("customSlashingKeeper", "slashingtypes.NewMultiSlashingHooks(app.BasketKeeper.Hooks())") = true ∧
    Sekai.Gen.App.hooks.contains ("multiStakingKeeper", "multistakingtypes.NewMultiStakingHooks(app.BasketKeeper.Hooks())") = true := by
  decide +kernel

/-! ## the layer2 mint / burn messages aimed at a basket denomination -/

/-- `MsgMintIssueTx` never creates basket tokens: refused for every sender and amount -/
theorem l2_issue_refused (s : St) (a : Acct) (c : Coin) : l2Issue s a c = none := rfl

/-- the supply is at most the recorded amount (the half of (a) that keeps the basket backed) -/
def SupplyLe (s : St) : Prop :=
  ∀ id b, getBasket s.baskets id = some b → s.bank.supplyOf b.denom ≤ b.amount

theorem supplyLe_of_eq {s : St} (h : SupplyEq s) : SupplyLe s := fun id b hb => by rw [h id b hb]; exact Int.le_refl _

/-- a layer2 burn by a user touches no basket record, takes nothing from the module account, and can only LOWER supplies:
the supply stays at most the recorded amount (so it stays covered by the reserves wherever the amount is) -/
theorem l2_burn_keeps_backing (s s' : St) (i : Nat) (c : Coin) (h : l2Burn s (.user i) c = some s')
    (hle : SupplyLe s) (hm : ModuleHolds s) : s'.baskets = s.baskets ∧ SupplyLe s' ∧ ModuleHolds s' := by
  unfold l2Burn at h
  by_cases hp : 0 < c.amount
  · rw [if_pos hp] at h
    cases hs : s.bank.sub1 (.user i) c with
    | none => rw [hs] at h; cases h
    | some b1 =>
      rw [hs] at h
      simp only [Option.some.injEq] at h
      subst h
      obtain ⟨hsup, _, hbal⟩ := sub1_spec _ _ _ _ hs
      refine ⟨rfl, ?_, ?_⟩
      · intro id b hb
        show AMap.get (b1.supply.set c.denom _) b.denom ≤ _
        rw [get_set]
        have h0 := hle id b hb
        have e : b1.supplyOf b.denom = s.bank.supplyOf b.denom := supplyOf_eq_of_supply_eq _ _ hsup _
        by_cases hd : b.denom = c.denom
        · rw [if_pos hd]
          have e' : b1.supplyOf c.denom = s.bank.supplyOf b.denom := by rw [← hd]; exact e
          rw [e']; omega
        · rw [if_neg hd]
          show b1.supplyOf b.denom ≤ _
          rw [e]; exact h0
      · intro d
        have := hm d
        show _ ≤ Bank.balOf _ .module d
        have hb : b1.balOf .module d = s.bank.balOf .module d := by
          rw [hbal]; simp
        show owed s.baskets d ≤ Bank.balOf { b1 with supply := _ } .module d
        have : Bank.balOf { b1 with supply := b1.supply.set c.denom (b1.supplyOf c.denom - c.amount) } .module d = b1.balOf .module d := rfl
        rw [this, hb]; exact hm d
  · rw [if_neg hp] at h; cases h

/-- … but clause (a) itself - supply EQUAL to the recorded amount - is lost: on the witness state (supply 2000 = amount
2000) a holder burns 400 basket tokens through layer2; the supply is 1600, the record still says 2000
(finding `C11/l2-burn/supply-below-recorded-amount`) -/
theorem l2_burn_supply_eq_counterexample :
    wS.bank.supplyOf "b1/usd" = 2000 ∧ (getBasket wS.baskets 1).map (·.amount) = some 2000 ∧
    (l2Burn wS (.user 1) ⟨"b1/usd", 400⟩).map
      (fun s' => (s'.bank.supplyOf "b1/usd", (getBasket s'.baskets 1).map (·.amount))) = some (1600, some 2000) := by decide

/-! ## the staking-rewards part of the WithdrawSurplus proposal -/

/-- claiming the basket module's staking rewards and forwarding them to the withdraw target touches no basket record and
leaves the module account's balance of every denomination as it was (what comes in from the fee collector goes out to the
target): reserves and surplus stay covered. When the fee collector cannot pay, the claim fails and nothing is written. -/
theorem rewards_pass_through (s s' : St) (i : Nat) (h : claimModuleRewards s (.user i) = some s') (hi : i ≠ 999999) :
    s'.baskets = s.baskets ∧ s'.bank.supply = s.bank.supply ∧ ∀ d, s'.bank.balOf .module d = s.bank.balOf .module d := by
  unfold claimModuleRewards at h
  cases hr : s.modRewards with
  | nil => rw [hr] at h; cases h; exact ⟨rfl, rfl, fun _ => rfl⟩
  | cons c cs =>
    rw [hr] at h
    simp only at h
    cases h1 : s.bank.send feeCollector .module (c :: cs) with
    | none => rw [h1] at h; cases h
    | some b1 =>
      rw [h1] at h
      simp only at h
      cases h2 : b1.send .module (.user i) (c :: cs) with
      | none => rw [h2] at h; cases h
      | some b2 =>
        rw [h2] at h
        simp only [Option.some.injEq] at h
        subst h
        obtain ⟨_, s1, e1⟩ := send_spec _ _ _ _ _ h1
        obtain ⟨_, s2, e2⟩ := send_spec _ _ _ _ _ h2
        refine ⟨rfl, by show b2.supply = _; rw [s2, s1], ?_⟩
        intro d
        show b2.balOf .module d = _
        rw [e2, e1]
        have hf : (Acct.module = feeCollector) = False := by simp [feeCollector]
        have hu : (Acct.module = Acct.user i) = False := by simp
        simp only [hf, hu, if_true, if_false]
        omega

/-! ### Key spaces of the stores this model keeps in separate maps (table `Gen.Keys`)

The model keeps each record kind of a module in a field of its own; the module keeps them in ONE store under byte prefixes.
No prefix extends another (checked on the regenerated table), so by `Sekai.Keys.keys_of_different_kinds_differ` a key of one
kind is never a key of another kind. -/

theorem basket_key_spaces_disjoint : Sekai.Keys.disjoint Sekai.Gen.Keys.stores "basket" = true := by decide +kernel

end Sekai.Props.C11
