import SekaiProofs.Lemmas.Auth
import Sekai.Gen.App
import Sekai.Model.App
/-! # C02 — Transactions are authenticated by every signer and cannot be replayed

Theorems about `Sekai.Auth.anteAuth` (lean/Sekai/Model/Auth.lean), the model of the authentication part of the
ante chain (SetPubKey → ValidateSigCount → SigGasConsume → SigVerification with its Ethereum fallback →
IncrementSequence), for ALL account stores, ALL transactions (any messages, sign modes, signature encodings,
attached keys) and, for replay, ALL later histories.

**Symbolic, hence trusted and not verified:** cryptography. Keys are numbers, `cosmosAddr` / `ethAddr` are
injective constructors with disjoint ranges, a signature is a record `(key, payload, encoding)` that verifies /
recovers only for exactly that key and payload, sign-byte constructors are injective and disjoint. "A forger
without the signer's private key" is read as: whatever is on the transaction, a record whose `key` controls the
signer can only have been produced by the signer (`no_forgery`). See the header of the model file.

Status on the current tree (after fixes fef397e: `MsgEthereumTx.Sender` tied to the Ethereum signature; 4a7b9fe +
515bdfd: every signer — a separate fee payer in particular — is verified after an Ethereum-style signer, and a
`MsgEthereumTx` authenticates its own sender only; the latter two defects were found by this check):
* `authentic_msgs` (every named signer's controlling key signed these messages — as far as the sign bytes show
  them — for the current sequence), `fee_payer_authenticated`, `ethereumTx_sender_authenticated`, `no_replay`,
  `pubkey_install_only_with_valid_sig` HOLD for all inputs.
* "exactly that transaction" is FALSE in four ways, each with a closed counterexample replayed on the real code:
  the Ethereum fallback signs message + nonce only — fee, memo, timeout, attached key and the cosmos chain id are not
  covered (`eip712_fee_not_bound_counterexample`, `ethereumTx_fee_not_bound_counterexample`,
  `eth_path_ignores_chain_counterexample`); EIP-712 and LEGACY_AMINO_JSON sign bytes do not contain the protobuf
  type of a message, and several sekai message types are otherwise identical (`eip712_type_confusion_counterexample`,
  `amino_type_confusion_counterexample`). What holds: `authentic_partial` (whole-transaction binding for signers with
  a cosmos-style address), `bindsMsgsSeq_exact` / `signature_authorises_one_tx` (exactness when the class maps are
  injective — evaluated on the real message registry by the harness on every run).
* `C02_pubkey_full` (a key newly on record controls the account) is FALSE for Ethereum-style accounts
  (`pubkey_install_counterexample`), true otherwise, and the foreign key is never used to verify anything
  (`pubkey_install_partial`). -/
namespace Sekai.Props.C02
open Sekai.Auth

/-! ## vocabulary -/

def accepts (env : Env) (A : Accounts) (tx : Tx) : Bool :=
  match anteAuth env A tx with
  | .ok _ => true
  | .error _ => false

theorem accepts_iff (env : Env) (A : Accounts) (tx : Tx) : accepts env A tx = true ↔ ∃ A', anteAuth env A tx = .ok A' := by
  unfold accepts
  cases anteAuth env A tx with
  | ok A' => simp
  | error e => simp

/-- the payload fixes EVERYTHING of the transaction except the signature blobs: body (messages, memo, timeout),
auth info (fee, fee payer, every signer info: attached key, mode, sequence), chain id, account number, and the signer's
sequence is the one given. (LEGACY_AMINO_JSON signs the same minus the signer infos, and shows each message only as
far as its `GetSignBytes()` does — `aminoView`, see `amino_type_confusion_counterexample`.) -/
def bindsWhole (env : Env) (p : Payload) (tx : Tx) (i : Nat) (acc : Account) : Prop :=
  (p = .direct tx.core env.chainId acc.num ∧ (tx.core.infos[i]?).map (·.seq) = some acc.seq) ∨
  p = .amino (tx.core.msgs.map (aminoView env)) tx.core.memo tx.core.timeout tx.core.fee tx.core.payer env.chainId acc.num acc.seq

/-- the payload fixes the messages and the sequence of signer `i` (and nothing else is claimed). For EIP-712 the
message is fixed as far as `GenEIP712SignBytesFromMsg` can see it (`eipView`: `Type()` string + JSON, not the
protobuf type) — see `bindsMsgsSeq_exact` / `eip712_type_confusion_counterexample`. -/
def bindsMsgsSeq (env : Env) (p : Payload) (msgs : List Msg) (i : Nat) (seq : Nat) : Prop :=
  match p with
  | .direct c _ _ => c.msgs = msgs ∧ (c.infos[i]?).map (·.seq) = some seq
  | .amino ms _ _ _ _ _ _ sq => msgs.map (aminoView env) = ms ∧ sq = seq
  | .eip712 m n _ => (∃ m', msgs = [m'] ∧ eipView env m' = m) ∧ n = seq
  | .rawEth n ch ct => (∃ s sb ty, msgs = [Msg.ethTx s ⟨n, ch, ct, sb⟩ ty]) ∧ n = seq
  | .junk _ => False

/-- the Ethereum signatures embedded in `MsgEthereumTx` messages -/
def embeddedSigs : List Msg → List Sig
  | [] => []
  | .ethTx _ etx _ :: rest =>
    (match etx.signedBy with
     | some k => [⟨k, .rawEth etx.nonce etx.chainId etx.content, .eth65⟩]
     | none => []) ++ embeddedSigs rest
  | .plain .. :: rest => embeddedSigs rest

/-- every signature a transaction carries: `Tx.Signatures` and the ones inside Ethereum transactions -/
def allSigs (tx : Tx) : List Sig := tx.sigs ++ embeddedSigs tx.core.msgs

/-! ## structure of an accepted transaction -/

theorem anteAuth_ok {env : Env} {A A' : Accounts} {tx : Tx} (h : anteAuth env A tx = .ok A') :
    tx.core.msgs ≠ [] ∧ tx.sigs ≠ [] ∧ tx.sigs.length = tx.signers.length ∧
    ∃ A1, setPubKeys A (tx.core.infos.map (·.pk)) tx.signers = .ok A1 ∧
      tx.core.infos.length ≤ tx.sigs.length ∧ tx.core.infos.length ≤ env.sigLimit ∧
      (tx.core.infos.zip tx.sigs).length = tx.signers.length ∧
      verifySigs env A1 tx (tx.core.infos.zip tx.sigs) tx.signers = .ok () ∧
      incSeqs A1 tx.signers = .ok A' := by
  unfold anteAuth at h
  by_cases h1 : tx.core.msgs = []
  · simp [h1] at h
  by_cases h2 : (tx.core.msgs.all Msg.validateBasic) = true
  case neg => simp [h1, h2] at h
  by_cases h3 : tx.sigs = []
  · simp [h1, h2, h3] at h
  by_cases h4 : tx.sigs.length = tx.signers.length
  case neg => simp [h1, h2, h3, h4] at h
  simp only [h1, h2, h3, h4, if_false, Bool.not_true, ne_eq, not_true_eq_false] at h
  cases hs : setPubKeys A (tx.core.infos.map (·.pk)) tx.signers with
  | error e => simp [hs] at h
  | ok A1 =>
    simp only [hs] at h
    by_cases h5 : tx.core.infos.length > tx.signers.length
    · simp [h5] at h
    by_cases h6 : tx.core.infos.length > env.sigLimit
    · simp [h5, h6] at h
    simp only [h5, h6, if_false] at h
    cases hg : sigGas A1 tx.core.infos tx.signers with
    | error e => simp [hg] at h
    | ok u =>
      simp only [hg] at h
      by_cases h7 : (tx.core.infos.zip tx.sigs).length = tx.signers.length
      case neg =>
        simp only [List.length_zip] at h h7
        simp [h7] at h
      simp only [h7, not_true_eq_false, if_false] at h
      cases hv : verifySigs env A1 tx (tx.core.infos.zip tx.sigs) tx.signers with
      | error e => simp [hv] at h
      | ok u =>
        simp only [hv] at h
        exact ⟨h1, h3, h4, A1, rfl, by omega, by omega, h7, hv, h⟩

/-! ## (a) authenticity -/

/-- **Shape of every accepted transaction** (all states, all transactions): each named signer has an account,
the sequence field of its signer info equals the sequence on record, and it was authenticated in exactly one of
three ways (`AuthBy`): standard signature of the key on record whose address is the account, EIP-712 signature
of the key whose Ethereum address is the account, or an embedded Ethereum transaction signed by the key whose
Ethereum address is `msg.Sender`. `acc1` is the account after `SetPubKeyDecorator` (same sequence and number). -/
theorem authentic_shape_ext {env : Env} {A A' : Accounts} {tx : Tx} (h : anteAuth env A tx = .ok A') :
    ∃ A1, setPubKeys A (tx.core.infos.map (·.pk)) tx.signers = .ok A1 ∧ incSeqs A1 tx.signers = .ok A' ∧
    ∀ (i : Nat) (s : Addr), tx.signers[i]? = some s →
      ∃ acc info σ acc1, A s = some acc ∧ A1 s = some acc1 ∧ tx.core.infos[i]? = some info ∧ tx.sigs[i]? = some σ ∧
        info.seq = acc.seq ∧ acc1.seq = acc.seq ∧ acc1.num = acc.num ∧ (∀ k, acc.pk = some k → acc1.pk = some k) ∧
        AuthBy env tx s acc1 info σ := by
  obtain ⟨_, _, hlen, A1, hset, hle, _, hzip, hver, hinc⟩ := anteAuth_ok h
  refine ⟨A1, hset, hinc, ?_⟩
  intro i s hs
  have hi : i < tx.signers.length := by
    rcases List.getElem?_eq_some_iff.mp hs with ⟨hlt, _⟩; exact hlt
  have hzl : i < (tx.core.infos.zip tx.sigs).length := by omega
  obtain ⟨z, hz⟩ : ∃ z, (tx.core.infos.zip tx.sigs)[i]? = some z := ⟨_, List.getElem?_eq_getElem hzl⟩
  obtain ⟨hinfo, hsig⟩ := List.getElem?_zip_eq_some.mp hz
  obtain ⟨acc1, hA1, hseq, hauth⟩ := verifySigs_sound env A1 tx _ tx.signers [] (by simp) hver i z.1 z.2 s hz hs
  have hext := setPubKeys_ext _ _ _ _ hset
  cases hA : A s with
  | none => have := (hext s).1 hA; rw [this] at hA1; cases hA1
  | some acc =>
    obtain ⟨acc1', h1, h2, h3, h4⟩ := (hext s).2 acc hA
    rw [hA1] at h1; cases h1
    exact ⟨acc, z.1, z.2, acc1, rfl, hA1, hinfo, hsig, by omega, h2, h3, h4, hauth⟩

theorem authentic_shape {env : Env} {A A' : Accounts} {tx : Tx} (h : anteAuth env A tx = .ok A') :
    ∀ (i : Nat) (s : Addr), tx.signers[i]? = some s →
      ∃ acc info σ acc1, A s = some acc ∧ tx.core.infos[i]? = some info ∧ tx.sigs[i]? = some σ ∧
        info.seq = acc.seq ∧ acc1.seq = acc.seq ∧ acc1.num = acc.num ∧ (∀ k, acc.pk = some k → acc1.pk = some k) ∧
        AuthBy env tx s acc1 info σ := by
  intro i s hs
  obtain ⟨_, _, _, hall⟩ := authentic_shape_ext h
  obtain ⟨acc, info, σ, acc1, h1, _, h3, h4, h5, h6, h7, h8, h9⟩ := hall i s hs
  exact ⟨acc, info, σ, acc1, h1, h3, h4, h5, h6, h7, h8, h9⟩

/-- the sign bytes of the standard path cover the whole transaction -/
theorem std_bindsWhole {env : Env} {tx : Tx} {i : Nat} {info : SignerInfo} {acc acc1 : Account} {p : Payload}
    (hsb : signBytes env info.mode tx acc1.num acc1.seq = .ok p) (hinfo : tx.core.infos[i]? = some info)
    (hseq : info.seq = acc.seq) (hs1 : acc1.seq = acc.seq) (hn1 : acc1.num = acc.num) : bindsWhole env p tx i acc := by
  unfold signBytes at hsb
  cases hm : info.mode with
  | direct =>
    simp only [hm] at hsb; cases hsb
    exact Or.inl ⟨by rw [hn1], by simp [hinfo, hseq]⟩
  | amino =>
    simp only [hm] at hsb
    split at hsb
    · cases hsb
    · cases hsb; exact Or.inr (by rw [hn1, hs1])
  | other n => simp [hm] at hsb

theorem mem_embeddedSigs (msgs : List Msg) (s : Addr) (etx : EthTx) (ty : Nat) (k : Key)
    (hm : Msg.ethTx s etx ty ∈ msgs) (hk : etx.signedBy = some k) :
    (⟨k, .rawEth etx.nonce etx.chainId etx.content, .eth65⟩ : Sig) ∈ embeddedSigs msgs := by
  induction msgs with
  | nil => simp at hm
  | cons m rest ih =>
    rcases List.mem_cons.mp hm with rfl | hm'
    · simp [embeddedSigs, hk]
    · cases m with
      | plain t c ss => simpa [embeddedSigs] using ih hm'
      | ethTx s' e' t' => simp only [embeddedSigs]; exact List.mem_append_right _ (ih hm')

/-- **Authenticity (holds on the current tree, all inputs).** If the ante chain accepts `tx` in state `A`, then
for every account `s` the transaction names as signer (message signers and the fee payer) there is a signature on
the transaction — one of `Tx.Signatures` or the signature inside its Ethereum transaction — made with a key that
controls `s`, over sign bytes that fix the messages of `tx` (DIRECT / raw Ethereum transaction: exactly; EIP-712 /
LEGACY_AMINO_JSON: as far as those sign bytes show a message, `bindsMsgsSeq_exact`) and the current sequence number
of `s`. Whatever the message types, the sign mode, the signature encoding, the attached public keys and the keys on
record. -/
theorem authentic_msgs {env : Env} {A A' : Accounts} {tx : Tx} (h : anteAuth env A tx = .ok A') :
    ∀ (i : Nat) (s : Addr), tx.signers[i]? = some s →
      ∃ acc, A s = some acc ∧ ∃ σ ∈ allSigs tx, controls σ.key s ∧ bindsMsgsSeq env σ.payload tx.core.msgs i acc.seq := by
  intro i s hs
  obtain ⟨acc, info, σ, acc1, hA, hinfo, hsig, hseq, hs1, hn1, _, hauth⟩ := authentic_shape h i s hs
  refine ⟨acc, hA, ?_⟩
  have hσmem : σ ∈ allSigs tx := List.mem_append_left _ (List.mem_of_getElem? hsig)
  cases hauth with
  | std pk p hpk haddr hkey henc hpl hsb =>
    refine ⟨σ, hσmem, Or.inl (by rw [hkey]; exact haddr.symm), ?_⟩
    rw [hpl]
    unfold signBytes at hsb
    cases hm : info.mode with
    | direct =>
      simp only [hm] at hsb; cases hsb
      simp [bindsMsgsSeq, hinfo, hseq]
    | amino =>
      simp only [hm] at hsb
      split at hsb
      · cases hsb
      · cases hsb; simp [bindsMsgsSeq, hs1]
    | other n => simp [hm] at hsb
  | eip712 pk m hpk haddr hmode hmsgs hne hsingle henc hkey hpl =>
    refine ⟨σ, hσmem, Or.inr hkey.symm, ?_⟩
    rw [hpl]; simp [bindsMsgsSeq, hmsgs, hs1]
  | rawEth pk k etx ty hpk haddr hmode hmsgs hk hks hn hc =>
    refine ⟨⟨k, .rawEth etx.nonce etx.chainId etx.content, .eth65⟩, ?_, Or.inr hks.symm, ?_⟩
    · exact List.mem_append_right _ (mem_embeddedSigs _ s etx ty k (by simp [hmsgs]) hk)
    · simp only [bindsMsgsSeq]
      exact ⟨⟨s, etx.signedBy, ty, by rw [hmsgs]⟩, by omega⟩

/-- non-vacuity: a two-signer DIRECT transaction, an EIP-712 transaction and a raw Ethereum transaction are accepted -/
def exEnv : Env := { chainId := 1 }
def exA : Accounts := fun a =>
  if a = .cosmos 1 then some ⟨none, 0, 5⟩ else if a = .eth 2 then some ⟨none, 3, 6⟩
  else if a = .cosmos 3 then some ⟨some 3, 4, 7⟩ else if a = .eth 4 then some ⟨some 9, 2, 8⟩ else none
def exTwo : Core := ⟨[.plain 1 100 [.cosmos 1], .plain 1 50 [.cosmos 3]], 0, 0, 200, none, [⟨some 1, .direct, 0⟩, ⟨none, .amino, 4⟩]⟩
def exTwoTx : Tx := ⟨exTwo, [⟨1, .direct exTwo 1 5, .cosmos64⟩, ⟨3, .amino exTwo.msgs 0 0 200 none 1 7 4, .cosmos64⟩]⟩
def exMsg : Msg := .plain 1 100 [.eth 2]
def exEip : Core := ⟨[exMsg], 0, 0, 200, none, [⟨some 2, .direct, 3⟩]⟩
def exEipSig : Sig := ⟨2, .eip712 exMsg 3 8789, .eth65⟩
def exRaw : Core := ⟨[.ethTx (.eth 4) ⟨2, 8789, 77, some 4⟩ 0], 0, 0, 200, none, [⟨none, .direct, 2⟩]⟩
example : accepts exEnv exA exTwoTx = true := by decide
example : accepts exEnv exA ⟨exEip, [exEipSig]⟩ = true := by decide
example : accepts exEnv exA ⟨exRaw, [⟨0, .junk 0, .cosmos64⟩]⟩ = true := by decide
/-- … and forgeries of each are rejected: stranger key 8 signs / is attached / signs the Ethereum transaction -/
example : accepts exEnv exA ⟨exTwo, [⟨8, .direct exTwo 1 5, .cosmos64⟩, ⟨3, .amino exTwo.msgs 0 0 200 none 1 7 4, .cosmos64⟩]⟩ = false := by decide
example : accepts exEnv exA ⟨{ exEip with infos := [⟨some 8, .direct, 3⟩] }, [⟨8, .eip712 exMsg 3 8789, .eth65⟩]⟩ = false := by decide
example : accepts exEnv exA ⟨{ exRaw with msgs := [.ethTx (.eth 4) ⟨2, 8789, 77, some 8⟩ 0] }, [⟨8, .junk 0, .cosmos64⟩]⟩ = false := by decide

theorem aminoView_inj {env : Env} (hinj : ∀ t t', env.aminoClass t = env.aminoClass t' → t = t') (m m' : Msg)
    (h : aminoView env m = aminoView env m') : m = m' := by
  cases m with
  | plain t c ss =>
    cases m' with
    | plain t' c' ss' =>
      simp only [aminoView, Msg.plain.injEq] at h
      obtain ⟨h1, h2, h3⟩ := h
      rw [hinj t t' h1, h2, h3]
    | ethTx s e ty => simp [aminoView] at h
  | ethTx s e ty =>
    cases m' with
    | plain t' c' ss' => simp [aminoView] at h
    | ethTx s' e' ty' => simpa [aminoView] using h

theorem eipView_inj {env : Env} (hinj : ∀ t t', env.eipClass t = env.eipClass t' → t = t') {m m' : Msg}
    (h : eipView env m = eipView env m') : m = m' := by
  cases m with
  | plain t c ss =>
    cases m' with
    | plain t' c' ss' =>
      simp only [eipView, Msg.plain.injEq] at h
      obtain ⟨h1, h2, h3⟩ := h
      rw [hinj t t' h1, h2, h3]
    | ethTx s e ty => simp [eipView] at h
  | ethTx s e ty =>
    cases m' with
    | plain t' c' ss' => simp [eipView] at h
    | ethTx s' e' ty' => simpa [eipView] using h

/-- **Exactness (partial).** The same signed bytes authorise ONE list of messages and ONE sequence — for DIRECT
always, for EIP-712 / LEGACY_AMINO_JSON under the explicit hypotheses that `GenEIP712SignBytesFromMsg` / the amino sign
doc tell all message types apart (`eipClass`, `aminoClass` injective; the harness evaluates both on the real message
registry on every run — both are FALSE on the current tree, see the two `_type_confusion_counterexample`s). A raw
Ethereum transaction fixes its nonce, chain id and content (its `TxType` label is not signed). -/
theorem bindsMsgsSeq_exact {env : Env} (hinj : ∀ t t', env.eipClass t = env.eipClass t' → t = t')
    (hinjA : ∀ t t', env.aminoClass t = env.aminoClass t' → t = t')
    {p : Payload} {msgs msgs' : List Msg} {i seq seq' : Nat} (hraw : ∀ n ch ct, p ≠ .rawEth n ch ct)
    (h : bindsMsgsSeq env p msgs i seq) (h' : bindsMsgsSeq env p msgs' i seq') : msgs = msgs' ∧ seq = seq' := by
  cases p with
  | direct c ch an =>
    simp only [bindsMsgsSeq] at h h'
    refine ⟨h.1.symm.trans h'.1, ?_⟩
    have := h.2.symm.trans h'.2
    simpa using this
  | amino ms me to fe pa ch an sq =>
    simp only [bindsMsgsSeq] at h h'
    exact ⟨(List.map_inj_right (aminoView_inj hinjA)).mp (h.1.trans h'.1.symm), h.2.symm.trans h'.2⟩
  | eip712 m n ch =>
    simp only [bindsMsgsSeq] at h h'
    obtain ⟨⟨m1, hm1, hv1⟩, hn⟩ := h
    obtain ⟨⟨m2, hm2, hv2⟩, hn'⟩ := h'
    have : m1 = m2 := eipView_inj hinj (hv1.trans hv2.symm)
    subst this
    exact ⟨hm1.trans hm2.symm, hn.symm.trans hn'⟩
  | rawEth n ch ct => exact absurd rfl (hraw n ch ct)
  | junk n => simp [bindsMsgsSeq] at h

/-- on the current tree `eipClass` is NOT injective: `MsgApproveCustodyTransaction` and `MsgDeclineCustodyTransaction`
(both `Type() = "add_to_custody_custodians"`, same JSON fields), `MsgDisableBasketDeposits` and
`MsgDisableBasketWithdraws` (both `"disable_basket_withdraws"`) — types 5 and 6 stand for such a pair -/
def exEnvConf : Env := { chainId := 1, eipClass := fun t => if t = 6 then 5 else t }
def exApprove : Core := ⟨[.plain 5 42 [.eth 2]], 0, 0, 200, none, [⟨some 2, .direct, 3⟩]⟩
def exDecline : Core := ⟨[.plain 6 42 [.eth 2]], 0, 0, 200, none, [⟨some 2, .direct, 3⟩]⟩
def exDeclineSig : Sig := ⟨2, .eip712 (.plain 5 42 [.eth 2]) 3 8789, .eth65⟩

/-- **Open finding: EIP-712 message-type confusion.** The EIP-712 digest is computed from the message's `Type()`
string and its JSON, not from its protobuf type. The signature an Ethereum-style account made over a DECLINE
message is accepted on the APPROVE message with the same fields: the signer did not authorise "exactly that
transaction" (`C02/eip712/message-type-confusion`, replayed on the real code by the harness). -/
theorem eip712_type_confusion_counterexample :
    accepts exEnvConf exA ⟨exDecline, [exDeclineSig]⟩ = true ∧ accepts exEnvConf exA ⟨exApprove, [exDeclineSig]⟩ = true ∧
    exDecline.msgs ≠ exApprove.msgs ∧
    bindsMsgsSeq exEnvConf exDeclineSig.payload exDecline.msgs 0 3 ∧ bindsMsgsSeq exEnvConf exDeclineSig.payload exApprove.msgs 0 3 := by
  refine ⟨by decide, by decide, by decide, ?_, ?_⟩
  · exact ⟨⟨_, rfl, by decide⟩, rfl⟩
  · exact ⟨⟨_, rfl, by decide⟩, rfl⟩

example : (∀ t t', exEnv.eipClass t = exEnv.eipClass t' → t = t') := fun _ _ h => h

/-- the same pair of message types is not amino-registered: `GetSignBytes()` is the bare field JSON for both -/
def exEnvConfA : Env := { chainId := 1, aminoClass := fun t => if t = 6 then 5 else t }
def exApproveC : Core := ⟨[.plain 5 42 [.cosmos 3]], 0, 0, 200, none, [⟨none, .amino, 4⟩]⟩
def exDeclineC : Core := ⟨[.plain 6 42 [.cosmos 3]], 0, 0, 200, none, [⟨none, .amino, 4⟩]⟩
def exDeclineCSig : Sig := ⟨3, .amino [.plain 5 42 [.cosmos 3]] 0 0 200 none 1 7 4, .cosmos64⟩

/-- **Open finding: LEGACY_AMINO_JSON message-type confusion (standard path, ordinary cosmos accounts).** The
amino sign doc embeds `msg.GetSignBytes()`, which for a message type not registered with its module's amino codec
is the JSON of the fields without a type name. The signature a cosmos account made, in amino mode, over a DECLINE
message verifies on the APPROVE message with the same fields (`C02/amino/message-type-confusion`, replayed on the
real code by the harness). -/
theorem amino_type_confusion_counterexample :
    accepts exEnvConfA exA ⟨exDeclineC, [exDeclineCSig]⟩ = true ∧ accepts exEnvConfA exA ⟨exApproveC, [exDeclineCSig]⟩ = true ∧
    exDeclineC.msgs ≠ exApproveC.msgs := by decide

/-- **FULL statement** of the first sentence of C02: the controlling key's signature covers the whole
transaction (body, fee, signer infos, chain, account number) and the current sequence. -/
def C02_authentic_full : Prop :=
  ∀ (env : Env) (A A' : Accounts) (tx : Tx), anteAuth env A tx = .ok A' →
    ∀ (i : Nat) (s : Addr), tx.signers[i]? = some s →
      ∃ acc, A s = some acc ∧ ∃ σ ∈ allSigs tx, controls σ.key s ∧ bindsWhole env σ.payload tx i acc

/-- the EIP-712 transaction above with the fee raised from 200 to 900 after signing -/
def exEipFee : Core := { exEip with fee := 900 }

/-- **Defect #10 (open).** The same EIP-712 signature authorises two transactions that differ in their fee
(likewise memo, timeout, attached key): both are accepted. Closed witness, replayed on the real code by the
harness (`C02/eip712/fee-and-memo-not-bound`). -/
theorem eip712_fee_malleable :
    accepts exEnv exA ⟨exEip, [exEipSig]⟩ = true ∧ accepts exEnv exA ⟨exEipFee, [exEipSig]⟩ = true ∧
    exEip.fee ≠ exEipFee.fee := by decide

theorem eip712_fee_not_bound_counterexample : ¬ C02_authentic_full := by
  intro hfull
  have hacc : accepts exEnv exA ⟨exEipFee, [exEipSig]⟩ = true := by decide
  obtain ⟨A', hA'⟩ := (accepts_iff _ _ _).mp hacc
  obtain ⟨acc, _, σ, hσ, _, hb⟩ := hfull exEnv exA A' ⟨exEipFee, [exEipSig]⟩ hA' 0 (.eth 2) (by decide)
  have hσ' : σ = exEipSig := by simpa [allSigs, embeddedSigs, exEipFee, exEip, exMsg] using hσ
  subst hσ'
  rcases hb with ⟨h1, _⟩ | h2
  · simp [exEipSig] at h1
  · simp [exEipSig] at h2

/-- the raw Ethereum transaction above inside a cosmos transaction whose fee was raised after signing -/
def exRawFee : Core := { exRaw with fee := 900 }

/-- **Same defect on the `MsgEthereumTx` branch.** Nothing but the embedded Ethereum transaction is signed: the
enclosing transaction's fee (memo, timeout, attached key) can be changed freely
(`C02/ethereum-tx/fee-and-memo-not-bound`). -/
theorem ethereumTx_fee_malleable :
    accepts exEnv exA ⟨exRaw, [⟨0, .junk 0, .cosmos64⟩]⟩ = true ∧ accepts exEnv exA ⟨exRawFee, [⟨7, .junk 1, .eth65⟩]⟩ = true ∧
    exRaw.fee ≠ exRawFee.fee := by decide

theorem ethereumTx_fee_not_bound_counterexample : ¬ C02_authentic_full := by
  intro hfull
  have hacc : accepts exEnv exA ⟨exRawFee, [⟨7, .junk 1, .eth65⟩]⟩ = true := by decide
  obtain ⟨A', hA'⟩ := (accepts_iff _ _ _).mp hacc
  obtain ⟨acc, _, σ, hσ, _, hb⟩ := hfull exEnv exA A' ⟨exRawFee, [⟨7, .junk 1, .eth65⟩]⟩ hA' 0 (.eth 4) (by decide)
  have hσ' : σ = ⟨7, .junk 1, .eth65⟩ ∨ σ = ⟨4, .rawEth 2 8789 77, .eth65⟩ := by
    simpa [allSigs, embeddedSigs, exRawFee, exRaw] using hσ
  rcases hσ' with rfl | rfl
  · rcases hb with ⟨h1, _⟩ | h2
    · simp at h1
    · simp at h2
  · rcases hb with ⟨h1, _⟩ | h2
    · simp at h1
    · simp at h2

/-- **The cosmos chain id is not signed on the Ethereum fallback** (only the constant Ethereum chain id 8789,
shared by every sekai network): the very same transaction is accepted by two chains with different chain ids. -/
theorem eth_path_ignores_chain_counterexample :
    accepts { chainId := 1 } exA ⟨exEip, [exEipSig]⟩ = true ∧ accepts { chainId := 2 } exA ⟨exEip, [exEipSig]⟩ = true := by
  decide

/-- **authentic_partial (what holds of the full statement).** Excluded inputs, as an explicit decidable
hypothesis: signers with an Ethereum-style address. For every other signer the accepted transaction carries, at
the signer's own position, a standard signature by the key that hashes to the signer's address over the WHOLE
transaction, this chain, the account number and the current sequence. -/
theorem authentic_partial {env : Env} {A A' : Accounts} {tx : Tx} (h : anteAuth env A tx = .ok A')
    (hne : ∀ s ∈ tx.signers, s.isEth = false) :
    ∀ (i : Nat) (s : Addr), tx.signers[i]? = some s →
      ∃ acc σ, A s = some acc ∧ tx.sigs[i]? = some σ ∧ σ.enc = .cosmos64 ∧ cosmosAddr σ.key = s ∧
        bindsWhole env σ.payload tx i acc := by
  intro i s hs
  have hnes := hne s (List.mem_of_getElem? hs)
  obtain ⟨acc, info, σ, acc1, hA, hinfo, hsig, hseq, hs1, hn1, _, hauth⟩ := authentic_shape h i s hs
  cases hauth with
  | std pk p hpk haddr hkey henc hpl hsb =>
    refine ⟨acc, σ, hA, hsig, henc, by rw [hkey]; exact haddr, ?_⟩
    rw [hpl]; exact std_bindsWhole hsb hinfo hseq hs1 hn1
  | eip712 pk m hpk haddr hmode hmsgs hne' hsingle henc hkey hpl =>
    rw [← hkey] at hnes; simp [ethAddr, Addr.isEth] at hnes
  | rawEth pk k etx ty hpk haddr hmode hmsgs hk hks hn hc =>
    rw [← hks] at hnes; simp [ethAddr, Addr.isEth] at hnes

/-- `authentic_partial` implies the full conclusion for such transactions -/
theorem authentic_full_of_cosmos_signers {env : Env} {A A' : Accounts} {tx : Tx} (h : anteAuth env A tx = .ok A')
    (hne : ∀ s ∈ tx.signers, s.isEth = false) :
    ∀ (i : Nat) (s : Addr), tx.signers[i]? = some s →
      ∃ acc, A s = some acc ∧ ∃ σ ∈ allSigs tx, controls σ.key s ∧ bindsWhole env σ.payload tx i acc := by
  intro i s hs
  obtain ⟨acc, σ, hA, hsig, _, hk, hb⟩ := authentic_partial h hne i s hs
  exact ⟨acc, hA, σ, List.mem_append_left _ (List.mem_of_getElem? hsig), Or.inl hk.symm, hb⟩

example : (∀ s ∈ exTwoTx.signers, s.isEth = false) ∧ accepts exEnv exA exTwoTx = true := by decide

/-- a signature that covers a whole transaction covers only that one: same payload ⇒ same memo, timeout, fee, fee
payer, chain id, account number and sequence, and the same messages as far as the sign bytes show them (DIRECT:
exactly; AMINO: up to `aminoView`) — whichever chains / accounts the two uses are on -/
theorem signature_authorises_one_content {env env' : Env} {p : Payload} {tx tx' : Tx} {i : Nat} {acc acc' : Account}
    (h : bindsWhole env p tx i acc) (h' : bindsWhole env' p tx' i acc') :
    (tx.core.msgs = tx'.core.msgs ∨ tx.core.msgs.map (aminoView env) = tx'.core.msgs.map (aminoView env')) ∧
    tx.core.memo = tx'.core.memo ∧ tx.core.timeout = tx'.core.timeout ∧ tx.core.fee = tx'.core.fee ∧
    tx.core.payer = tx'.core.payer ∧ env.chainId = env'.chainId ∧ acc.num = acc'.num ∧ acc.seq = acc'.seq := by
  rcases h with ⟨h1, h2⟩ | h1 <;> rcases h' with ⟨h1', h2'⟩ | h1'
  · rw [h1] at h1'
    injection h1' with hc hch hn
    rw [hc] at h2
    rw [h2] at h2'
    refine ⟨Or.inl (by rw [hc]), by rw [hc], by rw [hc], by rw [hc], by rw [hc], hch, hn, ?_⟩
    simpa using h2'
  · rw [h1] at h1'; cases h1'
  · rw [h1] at h1'; cases h1'
  · rw [h1] at h1'
    injection h1' with a b c d pa e f g
    exact ⟨Or.inr a, b, c, d, pa, e, f, g⟩

/-- … and exactly the same messages when the amino sign doc tells all message types apart -/
theorem signature_authorises_one_tx {env : Env} (hinj : ∀ t t', env.aminoClass t = env.aminoClass t' → t = t')
    {p : Payload} {tx tx' : Tx} {i : Nat} {acc acc' : Account}
    (h : bindsWhole env p tx i acc) (h' : bindsWhole env p tx' i acc') : tx.core.msgs = tx'.core.msgs := by
  rcases (signature_authorises_one_content h h').1 with h1 | h1
  · exact h1
  · exact (List.map_inj_right (aminoView_inj hinj)).mp h1

/-- **Reading against a forger.** `adv` are the keys the adversary owns, `honest` the signatures the honest key
holders ever produced. If every signature on an accepted transaction is either made with an adversary key or is
a copy of an honest one (the symbolic meaning of "cannot sign without the private key"), and the adversary
controls none of the keys of signer `s`, then an honest holder of a key controlling `s` signed exactly these
messages for the current sequence. -/
theorem no_forgery {env : Env} {A A' : Accounts} {tx : Tx} (adv : Key → Prop) (honest : Sig → Prop)
    (hsigs : ∀ σ ∈ allSigs tx, adv σ.key ∨ honest σ)
    (h : anteAuth env A tx = .ok A') (i : Nat) (s : Addr) (hs : tx.signers[i]? = some s)
    (hnot : ∀ k, controls k s → ¬ adv k) :
    ∃ acc σ, A s = some acc ∧ honest σ ∧ controls σ.key s ∧ bindsMsgsSeq env σ.payload tx.core.msgs i acc.seq := by
  obtain ⟨acc, hA, σ, hmem, hc, hb⟩ := authentic_msgs h i s hs
  rcases hsigs σ hmem with ha | hh
  · exact absurd ha (hnot _ hc)
  · exact ⟨acc, σ, hA, hh, hc, hb⟩

/-- **Fix fef397e as a theorem (defect #9 closed).** A transaction made of a `MsgEthereumTx` naming `sender` is
accepted only if the embedded Ethereum transaction was signed by the key whose Ethereum address is `sender`
(with nonce = the sender's sequence), or the key on record whose cosmos address is `sender` signed the whole
enclosing transaction. A stranger's Ethereum signature never moves `sender`'s coins. -/
theorem ethereumTx_sender_authenticated {env : Env} {A A' : Accounts} {tx : Tx} {sender : Addr} {etx : EthTx} {ty : Nat}
    (h : anteAuth env A tx = .ok A') (hm : tx.core.msgs = [.ethTx sender etx ty]) :
    ∃ acc, A sender = some acc ∧
      ((∃ k, etx.signedBy = some k ∧ ethAddr k = sender ∧ etx.nonce = acc.seq ∧ etx.chainId = env.ethChainId) ∨
       (∃ σ, tx.sigs[0]? = some σ ∧ cosmosAddr σ.key = sender ∧ bindsWhole env σ.payload tx 0 acc)) := by
  have hs : tx.signers[0]? = some sender := signers_head_eth tx sender etx ty hm
  obtain ⟨acc, info, σ, acc1, hA, hinfo, hsig, hseq, hs1, hn1, _, hauth⟩ := authentic_shape h 0 sender hs
  refine ⟨acc, hA, ?_⟩
  cases hauth with
  | std pk p hpk haddr hkey henc hpl hsb =>
    refine Or.inr ⟨σ, hsig, by rw [hkey]; exact haddr, ?_⟩
    rw [hpl]; exact std_bindsWhole hsb hinfo hseq hs1 hn1
  | eip712 pk m hpk haddr hmode hmsgs hne hsingle henc hkey hpl =>
    rw [hm] at hmsgs; cases hmsgs; simp [Msg.isEthTx] at hne
  | rawEth pk k etx' ty' hpk haddr hmode hmsgs hk hks hn hc =>
    rw [hm] at hmsgs; cases hmsgs
    exact Or.inl ⟨k, hk, hks, by omega, hc⟩

/-- the forged message of DESIGN.md Appendix C (victim `cosmos 1` without key on record, stranger key 8 attaches
its own key and signs the Ethereum transaction and the cosmos transaction) is rejected — before fef397e the
model, like the code, accepted it -/
def exForged : Core := ⟨[.ethTx (.cosmos 1) ⟨0, 8789, 500, some 8⟩ 0], 0, 0, 200, none, [⟨some 8, .direct, 0⟩]⟩
example : accepts exEnv exA ⟨exForged, [⟨8, .direct exForged 1 5, .cosmos64⟩]⟩ = false := by decide

/-- **Fixes 4a7b9fe + 515bdfd as a theorem (the fee-payer defect found by this check, closed).** A fee payer named
by an accepted transaction is one of its signers and is authenticated like every other signer: a key that
controls the payer signed these messages for the payer's current sequence. (Before the fixes the signer loop
returned after the first Ethereum-style signer, and a `MsgEthereumTx` "authenticated" any signer whose sequence
equalled its nonce: a stranger could make any account pay its fees, bump its sequence and leave a key of the
stranger's choice on it.) -/
theorem fee_payer_authenticated {env : Env} {A A' : Accounts} {tx : Tx} (h : anteAuth env A tx = .ok A')
    (p : Addr) (hp : tx.core.payer = some p) :
    ∃ (i : Nat) (acc : Account), tx.signers[i]? = some p ∧ A p = some acc ∧
      ∃ σ ∈ allSigs tx, controls σ.key p ∧ bindsMsgsSeq env σ.payload tx.core.msgs i acc.seq := by
  obtain ⟨i, hi⟩ := List.mem_iff_getElem?.mp (payer_mem_signers tx p hp)
  obtain ⟨acc, hA, hσ⟩ := authentic_msgs h i p hi
  exact ⟨i, acc, hi, hA, hσ⟩

/-- the forged fee payer: Ethereum-style account `eth 4` (sequence 0) sends a `MsgEthereumTx` it signed itself and
names `victim` as fee payer, attaching key 8 for it and two junk signatures -/
def exB : Accounts := fun a =>
  if a = .eth 4 then some ⟨some 9, 0, 8⟩ else if a = .cosmos 1 then some ⟨none, 0, 5⟩
  else if a = .cosmos 3 then some ⟨some 3, 0, 7⟩ else none
def exPayer (victim : Addr) : Core :=
  ⟨[.ethTx (.eth 4) ⟨0, 8789, 77, some 4⟩ 0], 0, 0, 1000000, some victim, [⟨none, .direct, 0⟩, ⟨some 8, .direct, 0⟩]⟩
/-- victim without key on record (sequence equal to the attacker's), victim with its own key on record: rejected -/
example : accepts exEnv exB ⟨exPayer (.cosmos 1), [⟨8, .junk 0, .cosmos64⟩, ⟨8, .junk 1, .cosmos64⟩]⟩ = false := by decide
example : accepts exEnv exB ⟨exPayer (.cosmos 3), [⟨8, .junk 0, .cosmos64⟩, ⟨8, .junk 1, .cosmos64⟩]⟩ = false := by decide
/-- non-vacuity of `fee_payer_authenticated`: the payer `cosmos 3` signs the whole transaction (DIRECT) — accepted -/
example : accepts exEnv exB ⟨exPayer (.cosmos 3), [⟨8, .junk 0, .cosmos64⟩, ⟨3, .direct (exPayer (.cosmos 3)) 1 7, .cosmos64⟩]⟩ = true ∧
    (exPayer (.cosmos 3)).payer = some (.cosmos 3) := by decide

/-- on the standard path the chain id is signed: a transaction whose signers all have cosmos-style addresses is
not accepted by two chains with different chain ids (contrast `eth_path_ignores_chain_counterexample`) -/
theorem std_path_binds_chain {env env' : Env} {A B A' B' : Accounts} {tx : Tx}
    (h : anteAuth env A tx = .ok A') (h' : anteAuth env' B tx = .ok B')
    (hne : ∀ s ∈ tx.signers, s.isEth = false) : env.chainId = env'.chainId := by
  obtain ⟨_, hsne, hlen, _⟩ := anteAuth_ok h
  have hpos : 0 < tx.signers.length := by
    have := List.length_pos_iff.mpr hsne; omega
  obtain ⟨s, hs⟩ : ∃ s, tx.signers[0]? = some s := ⟨_, List.getElem?_eq_getElem hpos⟩
  obtain ⟨acc, σ, _, hsig, _, _, hb⟩ := authentic_partial h hne 0 s hs
  obtain ⟨acc', σ', _, hsig', _, _, hb'⟩ := authentic_partial h' hne 0 s hs
  rw [hsig] at hsig'; cases hsig'
  exact (signature_authorises_one_content hb hb').2.2.2.2.2.1

/-! ## effect of an accepted transaction; rejected transactions leave no trace -/

/-- baseapp discards the ante branch of a rejected transaction: the account store is unchanged (no sequence
moved, no key installed) -/
theorem rejected_unchanged {env : Env} {A : Accounts} {tx : Tx} {e : Err} (h : anteAuth env A tx = .error e) :
    applyTx env A tx = A := by
  simp [applyTx, h]

/-- an accepted transaction: every named signer's sequence goes up by exactly one, no other sequence moves, no
account number changes, no account appears or disappears, a key on record is never replaced -/
theorem accepted_effect {env : Env} {A A' : Accounts} {tx : Tx} (h : anteAuth env A tx = .ok A') :
    ∀ a, (A a = none → A' a = none) ∧
      ∀ acc, A a = some acc → ∃ acc', A' a = some acc' ∧ acc'.num = acc.num ∧
        acc'.seq = (if a ∈ tx.signers then acc.seq + 1 else acc.seq) ∧ (∀ k, acc.pk = some k → acc'.pk = some k) := by
  intro a
  obtain ⟨_, _, _, A1, hset, _, _, _, _, hinc⟩ := anteAuth_ok h
  have hext := setPubKeys_ext _ _ _ _ hset
  have hspec := incSeqs_spec _ _ _ (signers_nodup tx) hinc a
  refine ⟨fun hn => hspec.1 ((hext a).1 hn), fun acc hA => ?_⟩
  obtain ⟨acc1, h1, hs, hn, hk⟩ := (hext a).2 acc hA
  refine ⟨_, hspec.2 acc1 h1, hn, ?_, hk⟩
  by_cases hm : a ∈ tx.signers <;> simp [hm, hs]

example : ∃ A', anteAuth exEnv exA exTwoTx = .ok A' := (accepts_iff _ _ _).mp (by decide)

/-! ## (b) no replay -/

/-- the sequence of every existing account is kept or increased, and accounts are never removed -/
def Grows (A B : Accounts) : Prop := ∀ a acc, A a = some acc → ∃ acc', B a = some acc' ∧ acc.seq ≤ acc'.seq

theorem Grows.refl (A : Accounts) : Grows A A := fun _ acc h => ⟨acc, h, Nat.le_refl _⟩

theorem Grows.trans {A B C : Accounts} (h1 : Grows A B) (h2 : Grows B C) : Grows A C := by
  intro a acc h
  obtain ⟨acc1, hb, hle⟩ := h1 a acc h
  obtain ⟨acc2, hc, hle2⟩ := h2 a acc1 hb
  exact ⟨acc2, hc, by omega⟩

/-- one later event on the chain that touches the account store: an accepted transaction (any transaction, by
anyone), or the creation of an account at an unused address (e.g. a first bank transfer to it) -/
inductive Step (env : Env) : Accounts → Accounts → Prop where
  | tx {B C : Accounts} (t : Tx) : anteAuth env B t = .ok C → Step env B C
  | create {B : Accounts} (a : Addr) (acc : Account) : B a = none → Step env B (B.set a acc)

/-- any later history -/
inductive Reach (env : Env) : Accounts → Accounts → Prop where
  | refl (A : Accounts) : Reach env A A
  | tail {A B C : Accounts} : Reach env A B → Step env B C → Reach env A C

theorem Step.grows {env : Env} {B C : Accounts} (h : Step env B C) : Grows B C := by
  cases h with
  | tx t ht =>
    intro a acc hA
    obtain ⟨acc', h1, _, h2, _⟩ := (accepted_effect ht a).2 acc hA
    refine ⟨acc', h1, ?_⟩
    rw [h2]; split <;> omega
  | create a acc hn =>
    intro b accb hb
    have : b ≠ a := by intro hba; rw [hba, hn] at hb; cases hb
    exact ⟨accb, by rw [set_other _ _ this]; exact hb, Nat.le_refl _⟩

theorem Reach.grows {env : Env} {A B : Accounts} (h : Reach env A B) : Grows A B := by
  induction h with
  | refl => exact Grows.refl _
  | tail _ hs ih => exact Grows.trans ih hs.grows

/-- a transaction whose first signer's sequence field is below the sequence on record is rejected -/
theorem stale_rejected {env : Env} {A : Accounts} {tx : Tx} {s : Addr} {info : SignerInfo} {acc : Account}
    (hs : tx.signers[0]? = some s) (hi : tx.core.infos[0]? = some info) (hA : A s = some acc) (hlt : info.seq < acc.seq) :
    ∃ e, anteAuth env A tx = .error e := by
  cases hres : anteAuth env A tx with
  | error e => exact ⟨e, rfl⟩
  | ok A' =>
    obtain ⟨acc0, info0, _, _, hA0, hi0, _, hseq, _⟩ := authentic_shape hres 0 s hs
    rw [hA] at hA0; cases hA0
    rw [hi] at hi0; cases hi0
    omega

/-- **No replay (all later histories).** A transaction that has been accepted once is rejected when submitted
again — immediately, later in the same block, in any later block, after any number of further accepted
transactions of anybody and any account creations: its first signer's sequence field equals the sequence the
account had, the acceptance moved that sequence up by one, and no later event lowers a sequence. -/
theorem no_replay {env : Env} {A A' A'' : Accounts} {tx : Tx} (h : anteAuth env A tx = .ok A')
    (hr : Reach env A' A'') : ∃ e, anteAuth env A'' tx = .error e := by
  obtain ⟨_, hsne, hlen, _⟩ := anteAuth_ok h
  have hpos : 0 < tx.signers.length := by
    have := List.length_pos_iff.mpr hsne; omega
  obtain ⟨s, hs⟩ : ∃ s, tx.signers[0]? = some s := ⟨_, List.getElem?_eq_getElem hpos⟩
  obtain ⟨acc, info, _, _, hA, hi, _, hseq, _⟩ := authentic_shape h 0 s hs
  obtain ⟨acc', hA', _, hseq', _⟩ := (accepted_effect h s).2 acc hA
  have hmem : s ∈ tx.signers := List.mem_of_getElem? hs
  simp only [hmem, if_true] at hseq'
  obtain ⟨acc'', hA'', hle⟩ := hr.grows s acc' hA'
  exact stale_rejected hs hi hA'' (by omega)

/-- immediate replay -/
theorem no_replay_immediate {env : Env} {A A' : Accounts} {tx : Tx} (h : anteAuth env A tx = .ok A') :
    ∃ e, anteAuth env A' tx = .error e := no_replay h (Reach.refl _)

/-- non-vacuity: an accepted transaction, then another accepted transaction of another account and an account
creation, then the replay — the hypotheses of `no_replay` are inhabited by a non-trivial history -/
example : ∃ A' A'' , anteAuth exEnv exA exTwoTx = .ok A' ∧ Reach exEnv A' A'' ∧ A'' ≠ A' := by
  obtain ⟨A', h⟩ := (accepts_iff exEnv exA exTwoTx).mp (by decide)
  have hn : A' (.other 9) = none := (accepted_effect h (.other 9)).1 (by decide)
  refine ⟨A', A'.set (.other 9) ⟨none, 0, 99⟩, h, Reach.tail (Reach.refl _) (Step.create _ _ hn), ?_⟩
  intro heq
  have := congrFun heq (.other 9)
  rw [set_same, hn] at this
  cases this

/-! ## (c) public keys on record -/

/-- **FULL statement**: after an accepted transaction, a key that is newly on record for an account controls it -/
def C02_pubkey_full : Prop :=
  ∀ (env : Env) (A A' : Accounts) (tx : Tx), anteAuth env A tx = .ok A' →
    ∀ (a : Addr) (acc acc' : Account) (k : Key), A a = some acc → acc.pk = none → A' a = some acc' → acc'.pk = some k →
      controls k a

/-- **pubkey_install_partial (what holds).** After an accepted transaction, a key `k` newly on record for account
`a` was attached at `a`'s signer position, and EITHER `k` hashes to `a` (and it is the key that signed the whole
transaction) OR `a` is an Ethereum-style address, `a` was authenticated by
the key whose Ethereum address is `a`, and `k` does not hash to `a` — so `k` can never pass the address
comparison that guards the standard path: it is never used to verify anything for `a`. -/
theorem pubkey_install_partial {env : Env} {A A' : Accounts} {tx : Tx} (h : anteAuth env A tx = .ok A')
    (a : Addr) (acc acc' : Account) (k : Key)
    (hA : A a = some acc) (hnone : acc.pk = none) (hA' : A' a = some acc') (hk : acc'.pk = some k) :
    ∃ i : Nat, tx.signers[i]? = some a ∧ (tx.core.infos[i]?).map (·.pk) = some (some k) ∧
      ((cosmosAddr k = a ∧ ∃ σ, tx.sigs[i]? = some σ ∧ σ.key = k ∧ bindsWhole env σ.payload tx i acc) ∨
       (a.isEth = true ∧ cosmosAddr k ≠ a ∧
          ∃ σ ∈ allSigs tx, ethAddr σ.key = a ∧ bindsMsgsSeq env σ.payload tx.core.msgs i acc.seq)) := by
  obtain ⟨A1, hset, hinc, hall⟩ := authentic_shape_ext h
  -- the key was installed by SetPubKey (IncrementSequence does not touch keys)
  have hext := setPubKeys_ext _ _ _ _ hset
  obtain ⟨acc1, hA1, _, _, _⟩ := (hext a).2 acc hA
  have hfin := (incSeqs_spec _ _ _ (signers_nodup tx) hinc a).2 acc1 hA1
  rw [hA'] at hfin; cases hfin
  have hk1 : acc1.pk = some k := by simpa using hk
  obtain ⟨i, hpki, hsi⟩ := setPubKeys_new _ _ _ _ hset a acc acc1 k hA hnone hA1 hk1
  refine ⟨i, hsi, by simpa [List.getElem?_map] using hpki, ?_⟩
  obtain ⟨acc0, info, σ, acc1', hA0, hA1', hinfo, hsig, hseq, hs1, hn1, _, hauth⟩ := hall i a hsi
  rw [hA] at hA0; cases hA0
  rw [hA1] at hA1'; cases hA1'
  have hσmem : σ ∈ allSigs tx := List.mem_append_left _ (List.mem_of_getElem? hsig)
  cases hauth with
  | std pk p hpk haddr hkey henc hpl hsb =>
    rw [hk1] at hpk; cases hpk
    exact Or.inl ⟨haddr, σ, hsig, hkey, by rw [hpl]; exact std_bindsWhole hsb hinfo hseq hs1 hn1⟩
  | eip712 pk m hpk haddr hmode hmsgs hne hsingle henc hkey hpl =>
    rw [hk1] at hpk; cases hpk
    refine Or.inr ⟨by rw [← hkey]; rfl, haddr, σ, hσmem, hkey, ?_⟩
    rw [hpl]; simp [bindsMsgsSeq, hmsgs, hs1]
  | rawEth pk k' etx ty hpk haddr hmode hmsgs hk' hks hn hc =>
    rw [hk1] at hpk; cases hpk
    refine Or.inr ⟨by rw [← hks]; rfl, haddr, ⟨k', .rawEth etx.nonce etx.chainId etx.content, .eth65⟩, ?_, hks, ?_⟩
    · exact List.mem_append_right _ (mem_embeddedSigs _ a etx ty k' (by simp [hmsgs]) hk')
    · simp only [bindsMsgsSeq]
      exact ⟨⟨a, etx.signedBy, ty, by rw [hmsgs]⟩, by omega⟩

/-- the EIP-712 transaction of account `eth 2` (no key on record) with the key of stranger 9 attached -/
def exEipStranger : Tx := ⟨{ exEip with infos := [⟨some 9, .direct, 3⟩] }, [exEipSig]⟩

/-- key on record for `a` after the transaction (observation used by the closed witness) -/
def pkAfter (env : Env) (A : Accounts) (tx : Tx) (a : Addr) : Option (Option Key) :=
  match anteAuth env A tx with
  | .ok A' => (A' a).map (·.pk)
  | .error _ => none

/-- **Open finding.** `SetPubKeyDecorator` stores whatever key is attached (its address check is commented out);
for an Ethereum-style account every attached key fails the address comparison, the EIP-712 signature does not
cover the attached key, so an accepted transaction leaves a key on record that does not control the account —
a key the account owner never signed for, and which anyone relaying the transaction can choose
(`C02/setpubkey/unbound-key-installed-on-eth-account`). -/
theorem pubkey_install_counterexample : ¬ C02_pubkey_full := by
  intro hfull
  have hacc : accepts exEnv exA exEipStranger = true := by decide
  obtain ⟨A', hA'⟩ := (accepts_iff _ _ _).mp hacc
  have hobs : pkAfter exEnv exA exEipStranger (.eth 2) = some (some 9) := by decide
  simp only [pkAfter, hA'] at hobs
  obtain ⟨acc', h1, h2⟩ := Option.map_eq_some_iff.mp hobs
  have := hfull exEnv exA A' exEipStranger hA' (.eth 2) ⟨none, 3, 6⟩ acc' 9 (by decide) rfl h1 h2
  revert this; decide

example : ∃ A', anteAuth exEnv exA exEipStranger = .ok A' ∧ exA (.eth 2) = some ⟨none, 3, 6⟩ :=
  ⟨_, ((accepts_iff _ _ _).mp (by decide)).choose_spec, by decide⟩

/-- **Keys are installed only by transactions validly signed by the account's controlling key** (all inputs, no
exclusion): after an accepted transaction, any key newly on record for account `a` was attached at `a`'s signer
position of a transaction that carries a signature, by a key controlling `a`, over these messages and `a`'s
sequence. In particular nobody but the holder of a controlling key can cause a key to be put on record — what the
holder cannot control on the Ethereum path is WHICH key (`pubkey_install_counterexample`). -/
theorem pubkey_install_only_with_valid_sig {env : Env} {A A' : Accounts} {tx : Tx} (h : anteAuth env A tx = .ok A')
    (a : Addr) (acc acc' : Account) (k : Key)
    (hA : A a = some acc) (hnone : acc.pk = none) (hA' : A' a = some acc') (hk : acc'.pk = some k) :
    ∃ i : Nat, tx.signers[i]? = some a ∧ (tx.core.infos[i]?).map (·.pk) = some (some k) ∧
      ∃ σ ∈ allSigs tx, controls σ.key a ∧ bindsMsgsSeq env σ.payload tx.core.msgs i acc.seq := by
  obtain ⟨i, hs, hpk, _⟩ := pubkey_install_partial h a acc acc' k hA hnone hA' hk
  obtain ⟨acc0, hA0, hσ⟩ := authentic_msgs h i a hs
  rw [hA] at hA0; cases hA0
  exact ⟨i, hs, hpk, hσ⟩

/-- a key on record is never replaced or removed by an accepted transaction -/
theorem pubkey_never_replaced {env : Env} {A A' : Accounts} {tx : Tx} (h : anteAuth env A tx = .ok A')
    (a : Addr) (acc : Account) (k : Key) (hA : A a = some acc) (hk : acc.pk = some k) :
    ∃ acc', A' a = some acc' ∧ acc'.pk = some k := by
  obtain ⟨acc', h1, _, _, h2⟩ := (accepted_effect h a).2 acc hA
  exact ⟨acc', h1, h2 k hk⟩

/-! ### Application wiring (table `Gen.App`) -/

/-- no decorator of app/ante returns success without calling `next` (`Gen.App.anteEarlyAccepts` lists every `return`
of an `AnteHandle` method that is neither `next(...)` nor an error): by `App.accepted_passed_all` every accepted
transaction has then passed every decorator of the chain - in particular signature verification and the sequence
increment, whatever the decorators in front of them decide. -/
theorem no_decorator_accepts_early : Sekai.Gen.App.anteEarlyAccepts = [] := by decide +kernel

/-- The ante chain the `Auth` model stands for: the public key is installed before signatures are verified, the
sequence number is incremented only after verification, and each of the three decorators is in the chain exactly
once (a chain without `NewSigVerificationDecorator`, or with the increment first, is not the modelled one). -/
theorem ante_auth_wiring :
    Sekai.App.inOrder Sekai.Gen.App.anteChain
      ["ante.NewSetUpContextDecorator", "NewSetPubKeyDecorator", "NewSigVerificationDecorator",
       "ante.NewIncrementSequenceDecorator"] = true ∧
    Sekai.App.once Sekai.Gen.App.anteChain "ante.NewValidateSigCountDecorator" = true ∧
    Sekai.App.once Sekai.Gen.App.anteChain "ante.NewValidateBasicDecorator" = true := by decide +kernel

end Sekai.Props.C02
