import Sekai.Model.Gov
import Sekai.Model.Perm
import Sekai.Model.Mint
import Sekai.Model.Stake
import Sekai.Gen.Panics
import SekaiProofs.Lemmas.Gov
import Sekai.Gen.App
import Sekai.Model.App
import Sekai.Model.Upgrade
import Sekai.Gen.Keys
import SekaiProofs.Lemmas.Keys
/-! # C06 — No reachable state or block can halt the chain  (partial: Go panics are a runtime notion)

What a Lean model can carry: (1) the set of places that can panic inside block processing — explicit `panic`,
`Must*`, `Coins.Sub`, `NewCoin` on computed amounts, `Quo` and integer division by non-constants — extracted by a
typed call-graph pass from the CURRENT source and pinned here (`panic_sites_as_reviewed`): a new panic in an
EndBlocker, or a removed guard that changes a site's expression, re-opens the obligation; (2) for the sites whose
function is modelled, the exact condition under which the model takes the panic branch, and a closed history that
reaches it where the condition is reachable (recorded findings); (3) the dynamic search: real blocks with `recover`
around every ABCI call. Nil dereferences and index panics that are not syntactically visible are reachable only
through (3). -/
namespace Sekai.Props.C06
open Sekai

/-! ## the gov EndBlocker: panics exactly when a proposal record is missing or IsQuorum errs -/

/-- processProposal takes the panic branch iff the queued proposal does not exist, or it is due and IsQuorum returns an
error: more votes than eligible voters, or a quorum above 1 -/
theorem gov_tally_panics_iff (voters : Nat → List Nat) (tally : Nat → Nat → Nat → Nat → Nat → Nat → Gov.Tally)
    (quorum : Dec.D) (meb t h : Nat) (s : Gov.St) (id : Nat) :
    Gov.processProposal voters tally quorum meb t h s id = none ↔
      Gov.getP s id = none ∨
      ∃ p, Gov.getP s id = some p ∧ ¬ p.votingEnd > t ∧ ¬ p.minVoteH > h ∧
        ((s.votes.filter (·.pid == id)).length > (voters p.votePerm).length ∨ quorum > Dec.one) := by
  unfold Gov.processProposal
  cases hp : Gov.getP s id with
  | none => simp
  | some p =>
    simp only [reduceCtorEq, false_or, Option.some.injEq, exists_eq_left']
    by_cases hE : p.votingEnd > t
    · simp [hE]
    · by_cases hH : p.minVoteH > h
      · simp [hE, hH]
      · simp only [hE, hH, if_false, not_false_eq_true, true_and]
        unfold Gov.isQuorum
        by_cases h1 : (s.votes.filter (·.pid == id)).length > (voters p.votePerm).length
        · simp [h1]
        · by_cases h2 : quorum > Dec.one
          · simp [h1, h2]
          · simp [h1, h2]

/-- the enactment step panics only when the queued proposal does not exist -/
theorem gov_enact_panics_iff (applyOk : Nat → Bool) (t h : Nat) (s : Gov.St) (id : Nat) :
    Gov.processEnactment applyOk t h s id = none ↔ Gov.getP s id = none := by
  unfold Gov.processEnactment
  cases hp : Gov.getP s id with
  | none => simp
  | some p =>
    simp only [reduceCtorEq, iff_false]
    by_cases hE : p.enactEnd > t
    · simp [hE]
    · by_cases hH : p.minEnactH > h
      · simp [hE, hH]
      · simp [hE, hH]

/-- finding: a voter who loses the vote permission after voting makes the tally see more votes than voters:
submit, vote (voter 3 holds permission 7), permission removed, voting end ⇒ the EndBlocker panics -/
theorem voter_loses_permission_counterexample :
    let P0 := ([Perm.Op.wlAcct 3 7].foldl Perm.apply ({} : Perm.St))
    let g0 := Gov.submit {} 7 1 100 1 300 300 2 1
    let g1 := (Gov.vote g0 (P0.actors 3).isSome (fun p => Perm.checkAllowed P0 3 p) 1 3 1 150).getD g0
    let P1 := Perm.apply P0 (.rmWlAcct 3 7)
    g1.votes.length = 1 ∧
    Gov.endBlock (Perm.voters P1) (fun _ _ _ _ _ _ => .passed) (fun _ => true) 333333333333333333 1 500 5 g1 = none := by
  decide +kernel

/-! ## the UBI proposal handler: integer division by the period -/

/-- the handler panics exactly when the proposed period or a stored period is zero -/
theorem ubi_upsert_panics_iff (records : List (Nat × Nat)) (amount period hardcap : Nat) :
    Mint.ubiUpsert records amount period hardcap = none ↔ period = 0 ∨ ∃ r ∈ records, r.2 = 0 := by
  unfold Mint.ubiUpsert
  by_cases h : period = 0 ∨ records.any (fun r => r.2 == 0) = true
  · simp only [h, if_true, true_iff]
    rcases h with h | h
    · exact Or.inl h
    · right; simpa using h
  · simp only [h, if_false, reduceCtorEq, false_iff]
    intro hc
    apply h
    rcases hc with hc | hc
    · exact Or.inl hc
    · right; simpa using hc

/-! ## the staking EndBlocker: with distinct consensus keys the update list never fails to build; whether the consensus
engine accepts it is C05's subject -/

/-- the validator status machine never panics: every operation returns a state or a clean error -/
theorem stake_ops_total (p : Stake.Params) (s : Stake.S) (op : Stake.Op) : ∃ s', Stake.apply p s op = s' := ⟨_, rfl⟩

/-! ## the panic sites of the current source -/

def expectedSites : List (String × String × String × String) := [
  ("x/collectives/keeper/collective.go", "Keeper.SendDonation", "coins-sub", "donations.Sub"),
  ("x/collectives/keeper/collective.go", "Keeper.WithdrawCollective", "coins-sub", "sdk.Coins(collective.Bonds).Sub"),
  ("x/collectives/keeper/collective.go", "Keeper.WithdrawCollective", "coins-sub", "sdk.Coins(collective.Bonds).Sub(collectiveBonds...).Sub"),
  ("x/collectives/keeper/collective.go", "Keeper.WithdrawCollective", "must", "sdk.MustAccAddressFromBech32"),
  ("x/collectives/keeper/keeper.go", "calcPortion", "newcoin", "sdk.NewDecFromInt(coin.Amount).Mul(portion).RoundInt()"),
  ("x/distributor/keeper/abci.go", "Keeper.BeginBlocker", "panic", "err"),
  ("x/distributor/keeper/annual_inflation.go", "Keeper.InflationPossible", "intdiv", "month"),
  ("x/distributor/keeper/annual_inflation.go", "Keeper.InflationPossible", "quo", "sdk.NewDecFromInt(snapshot.SnapshotAmount)"),
  ("x/distributor/keeper/distributor.go", "Keeper.AllocateTokensToValidator", "panic", "err"),
  ("x/distributor/keeper/distributor.go", "Keeper.AllocateTokensToValidator", "panic", "err"),
  ("x/distributor/keeper/distributor.go", "Keeper.AllocateTokensToValidator", "panic", "err"),
  ("x/distributor/keeper/distributor.go", "Keeper.AllocateTokens", "coins-sub", "feesAccBalance.Sub"),
  ("x/distributor/keeper/distributor.go", "Keeper.AllocateTokens", "newcoin", "inflationCommissionReward"),
  ("x/distributor/keeper/distributor.go", "Keeper.AllocateTokens", "newcoin", "inflationPoolReward"),
  ("x/distributor/keeper/distributor.go", "Keeper.AllocateTokens", "newcoin", "inflationRewards"),
  ("x/distributor/keeper/distributor.go", "Keeper.AllocateTokens", "newcoin", "poolReward"),
  ("x/distributor/keeper/distributor.go", "Keeper.AllocateTokens", "newcoin", "valReward"),
  ("x/distributor/keeper/distributor.go", "Keeper.AllocateTokens", "panic", "err"),
  ("x/distributor/keeper/distributor.go", "Keeper.AllocateTokens", "panic", "err"),
  ("x/distributor/keeper/distributor.go", "Keeper.AllocateTokens", "quo", "sdk.NewDec(int64(properties.InflationPeriod))"),
  ("x/distributor/keeper/distributor.go", "Keeper.AllocateTokens", "quo", "sdk.NewInt(snapPeriod)"),
  ("x/distributor/keeper/distributor.go", "Keeper.AllocateTokens", "quo", "sdk.NewInt(snapPeriod)"),
  ("x/distributor/keeper/distributor.go", "Keeper.GetPreviousProposerConsAddr", "panic", "\"previous proposer not set\""),
  ("x/distributor/keeper/store.go", "Keeper.GetFeesTreasury", "panic", "err"),
  ("x/evidence/keeper/infraction.go", "Keeper.HandleEquivocationEvidence", "panic", "fmt.Sprintf(\"expected signing info for validator %s but not "),
  ("x/evidence/keeper/keeper.go", "Keeper.MustMarshalEvidence", "panic", "fmt.Errorf(\"failed to encode evidence: %w\", err)"),
  ("x/evidence/keeper/keeper.go", "Keeper.SetEvidence", "must", "k.MustMarshalEvidence"),
  ("x/evidence/types/evidence.go", "Equivocation.Hash", "panic", "err"),
  ("x/evidence/types/evidence.go", "FromABCIEvidence", "panic", "err"),
  ("x/feeprocessing/keeper/keeper.go", "Keeper.ProcessExecutionFeeReturn", "newcoin", "amount"),
  ("x/feeprocessing/keeper/keeper.go", "Keeper.ProcessExecutionFeeReturn", "panic", "err"),
  ("x/feeprocessing/keeper/keeper.go", "Keeper.SendCoinsFromModuleToAccount", "coins-sub", "recipientSentCoins.Sub"),
  ("x/feeprocessing/keeper/keeper.go", "Keeper.SendCoinsFromModuleToAccount", "newcoin", "coinAmt.Int64()"),
  ("x/gov/abci.go", "processEnactmentProposal", "panic", "\"proposal was expected to exist\""),
  ("x/gov/abci.go", "processPoll", "panic", "err"),
  ("x/gov/abci.go", "processPoll", "panic", "fmt.Sprintf(\"Invalid quorum on proposal: pollID=%d, err=%+v\""),
  ("x/gov/abci.go", "processProposal", "panic", "\"proposal was expected to exist\""),
  ("x/gov/abci.go", "processProposal", "panic", "fmt.Sprintf(\"Invalid quorum on proposal: proposalID=%d, prop"),
  ("x/gov/keeper/identity_registrar.go", "ValidateIdentityRecordKey", "must", "regexp.MustCompile"),
  ("x/gov/keeper/network_actor.go", "Keeper.GetNetworkActorOrFail", "panic", "\"expected network actor not found\""),
  ("x/gov/keeper/permission_registry.go", "Keeper.SetRole", "panic", "err"),
  ("x/gov/keeper/proposal.go", "Keeper.GetAverageVotesSlash", "quo", "totalCount"),
  ("x/gov/keeper/util.go", "ValidateRoleSidKey", "must", "regexp.MustCompile"),
  ("x/gov/types/poll_vote.go", "CalculatedPollVotes.ProcessResult", "quo", "sdk.NewDec(int64(c.actorsWithVeto))"),
  ("x/gov/types/router.go", "ProposalRouter.AllowedAddressesDynamicProposal", "panic", "\"invalid proposal type\""),
  ("x/gov/types/router.go", "ProposalRouter.ApplyProposal", "panic", "\"invalid proposal type\""),
  ("x/gov/types/router.go", "ProposalRouter.EnactmentPeriodDynamicProposal", "panic", "\"invalid proposal type\""),
  ("x/gov/types/router.go", "ProposalRouter.QuorumDynamicProposal", "panic", "\"invalid proposal type\""),
  ("x/gov/types/router.go", "ProposalRouter.VotePeriodDynamicProposal", "panic", "\"invalid proposal type\""),
  ("x/layer2/keeper/abci.go", "Keeper.EndBlocker", "must", "sdk.MustAccAddressFromBech32"),
  ("x/layer2/keeper/abci.go", "Keeper.EndBlocker", "newcoin", "dapp.Issuance.Premint"),
  ("x/layer2/keeper/abci.go", "Keeper.EndBlocker", "panic", "err"),
  ("x/layer2/keeper/abci.go", "Keeper.FinishDappBootstrap", "must", "sdk.MustAccAddressFromBech32"),
  ("x/layer2/keeper/abci.go", "Keeper.FinishDappBootstrap", "newcoin", "dapp.Issuance.Premint"),
  ("x/layer2/keeper/abci.go", "Keeper.FinishDappBootstrap", "newcoin", "spendingPoolDeposit"),
  ("x/layer2/keeper/abci.go", "Keeper.FinishDappBootstrap", "newcoin", "totalSupply"),
  ("x/layer2/keeper/abci.go", "Keeper.FinishDappBootstrap", "panic", "err"),
  ("x/layer2/keeper/abci.go", "Keeper.FinishDappBootstrap", "panic", "err"),
  ("x/layer2/keeper/abci.go", "Keeper.FinishDappBootstrap", "quo", "sdk.NewDec(int64(drip))"),
  ("x/layer2/keeper/dapp.go", "Keeper.ExecuteDappRemove", "must", "sdk.MustAccAddressFromBech32"),
  ("x/layer2/keeper/dapp_session.go", "Keeper.ResetNewSession", "intdiv", "len(executors)"),
  ("x/layer2/keeper/dapp_session.go", "Keeper.ResetNewSession", "must", "sdk.MustAccAddressFromBech32"),
  ("x/layer2/keeper/dapp_session.go", "Keeper.ResetNewSession", "newcoin", "operator.BondedLpAmount"),
  ("x/layer2/keeper/dapp_session.go", "Keeper.ResetNewSession", "panic", "err"),
  ("x/layer2/keeper/msg_server.go", "Keeper.GetCoinsFromBridgeBalance", "newcoin", "balance.Amount"),
  ("x/layer2/keeper/msg_server.go", "msgServer.MintBurnTx", "must", "sdk.MustAccAddressFromBech32"),
  ("x/layer2/keeper/msg_server.go", "msgServer.MintBurnTx", "newcoin", "msg.Amount"),
  ("x/layer2/keeper/msg_server.go", "msgServer.MintCreateFtTx", "must", "sdk.MustAccAddressFromBech32"),
  ("x/layer2/keeper/msg_server.go", "msgServer.MintCreateFtTx", "newcoin", "int64(properties.MintingFtFee)"),
  ("x/layer2/keeper/msg_server.go", "msgServer.MintCreateNftTx", "must", "sdk.MustAccAddressFromBech32"),
  ("x/layer2/keeper/msg_server.go", "msgServer.MintCreateNftTx", "newcoin", "int64(properties.MintingFtFee)"),
  ("x/layer2/keeper/msg_server.go", "msgServer.MintIssueTx", "must", "sdk.MustAccAddressFromBech32"),
  ("x/layer2/keeper/msg_server.go", "msgServer.MintIssueTx", "must", "sdk.MustAccAddressFromBech32"),
  ("x/layer2/keeper/msg_server.go", "msgServer.MintIssueTx", "newcoin", "fee"),
  ("x/layer2/keeper/msg_server.go", "msgServer.MintIssueTx", "newcoin", "msg.Amount"),
  ("x/layer2/keeper/msg_server.go", "msgServer.TransferDappTx", "must", "sdk.MustAccAddressFromBech32"),
  ("x/multistaking/keeper/delegation.go", "Keeper.ClaimRewardsFromModule", "panic", "err"),
  ("x/multistaking/keeper/delegation.go", "Keeper.ClaimRewards", "panic", "err"),
  ("x/multistaking/keeper/delegation.go", "Keeper.GetDelegatorRewards", "panic", "err"),
  ("x/multistaking/keeper/delegation.go", "Keeper.IncreasePoolRewards", "coins-sub", "rewards.Sub"),
  ("x/multistaking/keeper/delegation.go", "Keeper.IncreasePoolRewards", "newcoin", "reward.Amount.Mul(balance).Quo(shareToken.Amount)"),
  ("x/multistaking/keeper/delegation.go", "Keeper.IncreasePoolRewards", "newcoin", "sdk.NewDecFromInt(reward.Amount).Mul(rate.StakeCap).RoundInt()"),
  ("x/multistaking/keeper/delegation.go", "Keeper.IncreasePoolRewards", "panic", "err"),
  ("x/multistaking/keeper/delegation.go", "Keeper.IncreasePoolRewards", "panic", "err"),
  ("x/multistaking/keeper/delegation.go", "Keeper.IncreasePoolRewards", "quo", "shareToken.Amount"),
  ("x/multistaking/keeper/slash.go", "Keeper.SlashStakingPool", "coins-sub", "sdk.Coins(pool.TotalStakingTokens).Sub"),
  ("x/multistaking/keeper/slash.go", "Keeper.SlashStakingPool", "coins-sub", "totalSlashedTokens.Sub"),
  ("x/multistaking/keeper/slash.go", "Keeper.SlashStakingPool", "newcoin", "defaultDenomAmount"),
  ("x/multistaking/keeper/slash.go", "Keeper.SlashStakingPool", "newcoin", "sdk.NewDecFromInt(stakingToken.Amount).Mul(sdk.OneDec().Sub(pool.Slashed)).RoundInt()"),
  ("x/multistaking/keeper/slash.go", "Keeper.SlashStakingPool", "panic", "err"),
  ("x/multistaking/keeper/slash.go", "Keeper.SlashStakingPool", "panic", "err"),
  ("x/multistaking/keeper/slash.go", "Keeper.SlashStakingPool", "panic", "err"),
  ("x/multistaking/types/pool.go", "GetPoolCoins", "newcoin", "sdk.NewDecFromInt(coin.Amount).Mul(sdk.OneDec().Sub(pool.Slashed)).RoundInt()"),
  ("x/recovery/keeper/recovery.go", "Keeper.IncreaseRecoveryTokenUnderlying", "coins-sub", "amount.Sub"),
  ("x/recovery/keeper/recovery.go", "calcPortion", "newcoin", "coin.Amount.Mul(portion).Quo(supply)"),
  ("x/recovery/keeper/recovery.go", "calcPortion", "quo", "supply"),
  ("x/recovery/keeper/rewards.go", "Keeper.ClaimRewards", "panic", "err"),
  ("x/recovery/keeper/rewards.go", "Keeper.GetRRTokenHolderRewards", "panic", "err"),
  ("x/slashing/keeper/infractions.go", "Keeper.HandleValidatorSignature", "panic", "fmt.Sprintf(\"Expected signing info for validator %s but not "),
  ("x/slashing/keeper/infractions.go", "Keeper.HandleValidatorSignature", "panic", "fmt.Sprintf(\"Validator consensus-address %s not found: %s\", "),
  ("x/slashing/keeper/infractions.go", "Keeper.HandleValidatorSignature", "panic", "fmt.Sprintf(\"Validator not found by consensus-address: %s\", "),
  ("x/slashing/keeper/signing_info.go", "Keeper.IterateValidatorSigningInfos", "panic", "err"),
  ("x/slashing/keeper/signing_info.go", "Keeper.JailUntil", "panic", "\"cannot jail validator that does not have any signing inform"),
  ("x/spending/keeper/abci.go", "Keeper.EndBlocker", "must", "sdk.MustAccAddressFromBech32"),
  ("x/spending/keeper/abci.go", "Keeper.EndBlocker", "quo", "sdk.NewDec(int64(pool.DynamicRatePeriod)).Mul(totalWeight)"),
  ("x/spending/keeper/spending_pool.go", "Keeper.ClaimSpendingPool", "coins-sub", "sdk.Coins(pool.Balances).Sub"),
  ("x/spending/keeper/spending_pool.go", "Keeper.ClaimSpendingPool", "newcoin", "amount"),
  ("x/spending/proposal_handler.go", "ApplySpendingPoolWithdrawProposalHandler.Apply", "coins-sub", "sdk.Coins(pool.Balances).Sub"),
  ("x/spending/types/keys.go", "ValidateSpendingPoolName", "must", "regexp.MustCompile"),
  ("x/staking/keeper/val_state_change.go", "Keeper.BlockValidatorUpdates", "panic", "err"),
  ("x/staking/types/validator.go", "Validator.GetConsPubKey", "panic", "\"invalid key\""),
  ("x/ubi/keeper/ubi.go", "Keeper.ProcessUBIRecord", "newcoin", "amount"),
  ("x/ubi/proposal_handler.go", "ApplyUpsertUBIProposalHandler.Apply", "intdiv", "p.Period"),
  ("x/ubi/proposal_handler.go", "ApplyUpsertUBIProposalHandler.Apply", "intdiv", "p.Period"),
  ("x/ubi/proposal_handler.go", "ApplyUpsertUBIProposalHandler.Apply", "intdiv", "record.Period"),
  ("x/upgrade/keeper/plan.go", "Keeper.ApplyUpgradePlan", "panic", "err"),
  ("x/upgrade/keeper/plan.go", "Keeper.ApplyUpgradePlan", "panic", "fmt.Sprintf(\"Handler for \\\"%s\\\" instate upgrade is not set\","),
  ("x/upgrade/keeper/plan.go", "Keeper.ApplyUpgradePlan", "panic", "fmt.Sprintf(\"UPGRADE \\\"%s\\\" NEEDED at upgrade_time=%s\", plan"),
  ("x/upgrade/keeper/plan.go", "Keeper.SaveCurrentPlan", "panic", "err"),
  ("x/upgrade/keeper/plan.go", "Keeper.setNextPlan", "panic", "err")
]

/-- **the places that can panic inside BeginBlock / EndBlock / proposal enactment are exactly these** (typed call
graph from the module Begin/EndBlock methods, the Begin/EndBlocker functions and every proposal handler's Apply;
interface calls resolved by method name). Reviewed: the gov quorum panic, the spending-pool `Coins.Sub`, the
multistaking reward / slash panics, the layer2 EndBlocker panics and the UBI division are reachable and recorded as
findings (C06/C10/C13/C18/C20 keys); the `"… expected to exist"` panics are guarded by the queue invariant of C08
(`Inv.activePending`); the remaining sites are reached only through the dynamic search. -/
theorem panic_sites_as_reviewed : Sekai.Gen.Panics.sites = expectedSites := by decide +kernel

/-! ## the scheduled software-upgrade halt is the only deliberate stop (x/upgrade plan machine, `Sekai.Upgrade`) -/
section upgrade
open Sekai.Upgrade

/-- the upgrade BeginBlocker panics exactly when a plan is on record, its time has come, and either (second pass) it is
not an instate upgrade, or it is one whose handler is neither skipped nor registered - or (first pass) the proposal the
plan names is not on record -/
theorem upgrade_halts_iff (s : St) (now : Int) (hh : String → Bool) (po : Bool) :
    (begin s now hh po).2.isHalt = true ↔
      ∃ p, s.next = some p ∧ p.time ≤ now ∧
        ((p.processed = false ∧ po = false) ∨
         (p.processed = true ∧ (p.instate = false ∨ (p.skipHandler = false ∧ hh p.name = false)))) := by
  unfold begin
  cases hn : s.next with
  | none => simp [Out.isHalt]
  | some p =>
    simp only [Option.some.injEq, exists_eq_left']
    by_cases h1 : now < p.time
    · simp [h1, Out.isHalt]; omega
    · have h1' : p.time ≤ now := by omega
      cases hp : p.processed <;> cases po <;> cases hi : p.instate <;> cases hs : p.skipHandler <;>
        cases hq : hh p.name <;> simp [h1, h1', Out.isHalt]

/-- a halt changes nothing (the process dies before the block is committed): delivering the same block again to the same
binary halts again - the stop is stable until the operators act -/
theorem upgrade_halt_is_stable (s : St) (now : Int) (hh : String → Bool) (po : Bool)
    (h : (begin s now hh po).2.isHalt = true) :
    (begin s now hh po).1 = s ∧ (begin (begin s now hh po).1 now hh po).2 = (begin s now hh po).2 := by
  have hs : (begin s now hh po).1 = s := by
    unfold begin at h ⊢
    cases hn : s.next with
    | none => simp
    | some p =>
      simp only [hn] at h ⊢
      by_cases h1 : now < p.time
      · simp [h1]
      · rw [if_neg h1] at h ⊢
        cases hp : p.processed <;> cases po <;> cases hi : p.instate <;> cases hsk : p.skipHandler <;>
          cases hq : hh p.name <;> simp [hp, hi, hsk, hq, Out.isHalt] at h ⊢
  exact ⟨hs, by rw [hs]⟩

/-- no plan on record: the BeginBlocker does nothing -/
theorem upgrade_no_plan_idle (s : St) (now : Int) (hh : String → Bool) (po : Bool) (h : s.next = none) :
    begin s now hh po = (s, .idle) := by simp [begin, h]

/-- before the upgrade time nothing happens, whatever the plan says -/
theorem upgrade_not_before_time (s : St) (p : Plan) (now : Int) (hh : String → Bool) (po : Bool)
    (h : s.next = some p) (ht : now < p.time) : begin s now hh po = (s, .idle) := by simp [begin, h, ht]

/-- a plan whose time is not in the future of the scheduling block is refused; an accepted one is stored unprocessed and
cannot fire in the block that scheduled it -/
theorem upgrade_schedule_future_only (s s' : St) (p : Plan) (now : Int) (h : schedule s p now = some s') :
    now < p.time ∧ s'.next = some { p with processed := false } ∧ s'.current = s.current ∧
    ∀ hh po, begin s' now hh po = (s', .idle) := by
  unfold schedule at h
  by_cases ht : p.time ≤ now
  · simp [ht] at h
  · simp only [ht, if_false, Option.some.injEq] at h
    subst h
    refine ⟨by omega, rfl, rfl, ?_⟩
    intro hh po
    simp [begin]; omega

theorem upgrade_schedule_refuses_past (s : St) (p : Plan) (now : Int) (h : p.time ≤ now) : schedule s p now = none := by
  simp [schedule, h]

/-- a cancelled plan never fires -/
theorem upgrade_cancel_prevents_halt (s : St) (now : Int) (hh : String → Bool) (po : Bool) :
    begin (cancel s) now hh po = (cancel s, .idle) := by simp [begin, cancel]

/-- the first due block never halts (when the plan's proposal is on record): it pauses the validators that did not
approve and marks the plan; the halt, if any, is the block after -/
theorem upgrade_first_pass_pauses (s : St) (p : Plan) (now : Int) (hh : String → Bool)
    (h : s.next = some p) (ht : p.time ≤ now) (hp : p.processed = false) :
    begin s now hh true = ({ s with next := some { p with processed := true } }, .paused) := by
  have : ¬ now < p.time := by omega
  simp [begin, h, this, hp]

/-- an instate upgrade that skips its handler, or whose handler the binary registered, never halts: the plan becomes the
current plan and the next-plan slot is cleared -/
theorem upgrade_instate_goes_through (s : St) (p : Plan) (now : Int) (hh : String → Bool) (po : Bool)
    (h : s.next = some p) (ht : p.time ≤ now) (hp : p.processed = true) (hi : p.instate = true)
    (hok : p.skipHandler = true ∨ hh p.name = true) :
    (begin s now hh po).1 = { next := none, current := some p } ∧ (begin s now hh po).2.isHalt = false := by
  have : ¬ now < p.time := by omega
  rcases hok with hk | hk
  · simp [begin, h, this, hp, hi, hk, Out.isHalt]
  · cases hs : p.skipHandler <;> simp [begin, h, this, hp, hi, hk, hs, Out.isHalt]

/-- where a stored plan comes from: after any history, the plan on record is (up to its processed mark) the argument of
a schedule operation of that history that was accepted with its time in the future - or the plan the history started
with. Only a passed software-upgrade proposal issues that operation (`Gen.App.proposalHandlers`, C08). -/
def FromSchedule (ops : List Op) (p : Plan) : Prop :=
  ∃ q now, Op.schedule q now ∈ ops ∧ now < q.time ∧ { q with processed := p.processed } = p

/-- one operation: the plan on record afterwards is the accepted argument of this schedule operation, or the plan that
was on record before (possibly with its processed mark set) -/
theorem upgrade_step_provenance (s : St) (op : Op) (p : Plan) (h : (apply s op).next = some p) :
    (∃ q now, op = .schedule q now ∧ now < q.time ∧ { q with processed := p.processed } = p) ∨
    ∃ p1, s.next = some p1 ∧ { p1 with processed := p.processed } = p := by
  cases op with
  | cancel => simp [apply, cancel] at h
  | schedule q now =>
    simp only [apply, schedule] at h
    by_cases ht : q.time ≤ now
    · simp only [ht, if_true, Option.getD_none] at h
      exact .inr ⟨p, h, rfl⟩
    · simp only [ht, if_false, Option.getD_some, Option.some.injEq] at h
      exact .inl ⟨q, now, rfl, by omega, by rw [← h]⟩
  | begin now hh po =>
    simp only [apply, begin] at h
    cases hn : s.next with
    | none => simp [hn] at h
    | some p' =>
      simp only [hn] at h
      by_cases h1 : now < p'.time
      · rw [if_pos h1] at h
        rw [hn] at h; cases h; exact .inr ⟨p, rfl, rfl⟩
      · rw [if_neg h1] at h
        cases hp : p'.processed <;> cases po <;> cases hi : p'.instate <;> cases hk : p'.skipHandler <;>
          cases hq : hh p'.name <;> simp [hp, hi, hk, hq, hn] at h <;>
          first
            | (subst h; exact .inr ⟨_, rfl, rfl⟩)
            | (rw [← h]; exact .inr ⟨_, rfl, rfl⟩)
            | (rw [← h]; exact .inr ⟨_, rfl, by simp [hi, hk]⟩)

theorem upgrade_plan_provenance (ops : List Op) (s : St) (p : Plan) (h : (ops.foldl apply s).next = some p) :
    FromSchedule ops p ∨ ∃ p0, s.next = some p0 ∧ { p0 with processed := p.processed } = p := by
  induction ops generalizing s with
  | nil => exact .inr ⟨p, h, rfl⟩
  | cons op ops ih =>
    rcases ih (apply s op) h with ⟨q, now, hm, ht, he⟩ | ⟨p0, h0, he⟩
    · exact .inl ⟨q, now, List.mem_cons_of_mem _ hm, ht, he⟩
    · rcases upgrade_step_provenance s op p0 h0 with ⟨q, now, ho, ht, hq⟩ | ⟨p1, h1, hq⟩
      · refine .inl ⟨q, now, by simp [ho], ht, ?_⟩
        rw [← he, ← hq]
      · refine .inr ⟨p1, h1, ?_⟩
        rw [← he, ← hq]

/-- hence: a chain that starts without a plan and whose history holds no accepted schedule operation never halts in the
upgrade BeginBlocker -/
theorem upgrade_no_halt_without_schedule (ops : List Op) (now : Int) (hh : String → Bool) (po : Bool)
    (hno : ∀ q t, Op.schedule q t ∉ ops) : (begin (ops.foldl apply init) now hh po).2.isHalt = false := by
  cases hn : (ops.foldl apply init).next with
  | none => simp [begin, hn, Out.isHalt]
  | some p =>
    rcases upgrade_plan_provenance ops init p hn with ⟨q, t, hm, _, _⟩ | ⟨p0, h0, _⟩
    · exact absurd hm (hno q t)
    · simp [init] at h0

/-- non-vacuity: the full life of a halting plan, and of an instate upgrade whose handler the new binary registers -/
example :
    let p : Plan := { name := "v2", time := 100, instate := false, skipHandler := false, processed := false, proposal := 7 }
    let s1 := (schedule init p 40).getD init
    (begin s1 99 (fun _ => false) true).2 = .idle ∧
    (begin s1 100 (fun _ => false) true).2 = .paused ∧
    (begin (begin s1 100 (fun _ => false) true).1 106 (fun _ => false) true).2 = .haltNeeded := by decide

example :
    let p : Plan := { name := "v2", time := 100, instate := true, skipHandler := false, processed := false, proposal := 7 }
    let s2 := (begin ((schedule init p 40).getD init) 100 (fun _ => false) true).1
    (begin s2 106 (fun _ => false) true).2 = .haltNoHandler ∧ (begin s2 106 (fun n => n == "v2") true).2 = .applied := by decide

end upgrade

/-! ### Application wiring (table `Gen.App`) -/

/-- every module that appears in the Begin order appears in the End order and vice versa, each once (the module manager
panics at start-up otherwise), and the zero-gas-meter decorator is in the ante chain (no out-of-gas panics in blocks) -/
theorem block_wiring_complete :
    (Sekai.Gen.App.beginOrder.all (Sekai.App.once Sekai.Gen.App.endOrder) && Sekai.Gen.App.endOrder.all (Sekai.App.once Sekai.Gen.App.beginOrder) &&
     Sekai.App.once Sekai.Gen.App.anteChain "NewZeroGasMeterDecorator") = true := by decide +kernel

/-! ### Key spaces of the stores this model keeps in separate maps (table `Gen.Keys`)

The model keeps each record kind of a module in a field of its own; the module keeps them in ONE store under byte prefixes.
No prefix extends another (checked on the regenerated table), so by `Sekai.Keys.keys_of_different_kinds_differ` a key of one
kind is never a key of another kind. -/

theorem upgrade_key_spaces_disjoint : Sekai.Keys.disjoint Sekai.Gen.Keys.stores "upgrade" = true := by decide +kernel

end Sekai.Props.C06
